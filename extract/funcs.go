// funcs.go: a translator for a small, loop-free, scalar subset of Go into Lean 4 definitions.
//
// For each function named in `wantedFuncs` that lies inside the subset, a Lean definition
// `Sipsp.Gen.F.<name>` is written whose body is the Go body transliterated:
//
//	parameters / receivers of integer or bool type  -> UInt8 / UInt16 / UInt32 / UInt64 / Int / Bool
//	a struct receiver that is only READ              -> one parameter per field that is read (`p_Len`)
//	a pointer receiver to an integer type            -> parameter + the function returns the new value
//	if / else, switch (no fallthrough), return, =, :=, op=, named results, calls to the logging helpers (dropped)
//	expressions: arithmetic, bit operations, shifts (Go semantics: count >= width gives 0), comparisons,
//	             && || !, integer conversions, typed and untyped constants (evaluated by go/types)
//
// Anything else (loops, slices, calls, goto, panic, pointers) makes the function "untranslatable": it is listed in
// `Sipsp.Gen.F.untranslated` with the reason and no definition is produced; the check then relies on the differential
// correspondence alone for that function. The semantics of the Lean operators used here is the trusted part
// (`Sipsp/GoSem.lean`): fixed-width wrap-around of UIntN, `Int` for Go's int (no overflow modelled).
package main

import (
	"fmt"
	"go/ast"
	"go/constant"
	"go/token"
	"go/types"
	"os"
	"sort"
	"strings"
)

// functions we try to translate ("Recv.Name" for methods)
var wantedFuncs = []string{
	"tokAllowedChar", "resCharSigFlag", "multipleValsOk",
	"HdrFlags.Test", "HdrFlags.Set", "HdrFlags.Clear", "HdrFlags.Reset",
	"PField.Empty", "PField.Set", "PField.Extend", "PField.Reset", "SIPMethod.Name", "hexDigToI", "skipCRLF", "skipWS", "skipToken", "skipTokenDelim", "skipLine",
	"PCallIDBody.Parsed", "PCallIDBody.Empty", "PCallIDBody.Pending",
	"PUIntBody.Parsed", "PUIntBody.Empty", "PUIntBody.Pending",
	"PCSeqBody.Parsed", "PCSeqBody.Empty", "PCSeqBody.Pending",
	"PFromBody.Parsed", "PFromBody.Empty", "PFromBody.Pending",
	"PFLine.Parsed", "PFLine.Empty", "PFLine.Pending", "PFLine.Request", "PTokParam.Empty",
	"PSIPMsg.Parsed", "PSIPMsg.Err", "PSIPMsg.Request", "PSIPMsg.Method",
	"PContacts.Empty", "PContacts.Parsed", "PContacts.VNo", "PContacts.More", "PPAIs.Empty", "PPAIs.Parsed", "PPAIs.VNo", "PPAIs.More",
	"URIParamsLst.PNo", "URIParamsLst.More", "URIHdrsLst.HNo", "URIHdrsLst.More",
	"URIParamsLst.Empty", "URIHdrsLst.Empty", "Hdr.Missing",
}

type fieldPar struct{ path, lt string }

// argument-less methods of structs translated so far that only read scalar fields: the sub-paths they read
var methodSigs = map[string][]fieldPar{}

type untr struct{ msg string }

func bail(format string, a ...interface{}) { panic(untr{fmt.Sprintf(format, a...)}) }

type ftr struct {
	info   *types.Info
	pkg    *types.Package
	recv   string          // receiver identifier ("" if none)
	recvPt bool            // pointer receiver to an integer type: `*f` is the variable f
	fields map[string]bool // struct receiver fields read
	fieldL []string        // ... in order of first use, as Lean binders (promoted fields of embedded structs included)
	strct  *types.Struct
	res    []string // named results
	resT   []string
	nores  bool            // no result: returns the (pointer) receiver value
	names  map[string]bool // every variable name declared so far (parameters, results, locals): a second declaration
	// of a name (shadowing in an inner block) is outside the subset
	aux   string          // auxiliary definitions (loops), emitted before the function
	fname string          // Lean name of the function being translated
	parB  []string        // binders of the parameters, in order
	parN  []string        // their Lean names
	done  map[string]bool // functions translated so far -> result is an Option
	wrL   []string        // struct pointer receiver: the fields the body assigns, in order of first assignment
	wrT   []string
	mon   bool // the body reads a slice element: results are `Option` (none = index out of range, Go would panic)
	tmp   int
	logs  map[string]bool
}

func leanType(t types.Type) string {
	if sl, ok := t.Underlying().(*types.Slice); ok {
		if eb, ok := sl.Elem().Underlying().(*types.Basic); ok && eb.Kind() == types.Uint8 {
			return "(Array UInt8)" // a []byte that is only READ (len, index)
		}
	}
	b, ok := t.Underlying().(*types.Basic)
	if !ok {
		bail("type %s", t)
	}
	switch b.Kind() {
	case types.Bool, types.UntypedBool:
		return "Bool"
	case types.Uint8:
		return "UInt8"
	case types.Uint16:
		return "UInt16"
	case types.Uint32:
		return "UInt32"
	case types.Uint64, types.Uint, types.Uintptr:
		return "UInt64"
	case types.Int, types.UntypedInt, types.UntypedRune:
		// Go's `int` as a mathematical integer. Sound only where no 64-bit overflow can happen: the translator accepts
		// on `int` values nothing but comparisons, `+` / `-`, conversions from unsigned types and to unsigned types;
		// `*`, bit operations, shifts, negation and the narrower signed types (int8/16/32/64, whose conversions wrap)
		// are rejected, and there are no loops. Assumed (Sipsp/GoSem.lean): int PARAMETERS are below 2^40 in magnitude
		// (offsets, counters), so no intermediate value of a loop-free, multiplication-free function can reach 2^63.
		return "Int"
	case types.Int64, types.Int32, types.Int16, types.Int8:
		bail("signed type %s", b)
	}
	bail("basic type %s", b)
	return ""
}

func (f *ftr) typeOf(e ast.Expr) types.Type {
	tv, ok := f.info.Types[e]
	if !ok || tv.Type == nil {
		bail("no type for expression")
	}
	return tv.Type
}

func lit(v constant.Value, lt string) string {
	if lt == "Bool" {
		if constant.BoolVal(v) {
			return "true"
		}
		return "false"
	}
	s := v.ExactString()
	if strings.HasPrefix(s, "-") {
		return "(" + s + " : " + lt + ")"
	}
	return "(" + s + " : " + lt + ")"
}

func (f *ftr) expr(e ast.Expr) string {
	if tv, ok := f.info.Types[e]; ok && tv.Value != nil {
		return lit(tv.Value, leanType(tv.Type))
	}
	switch x := e.(type) {
	case *ast.ParenExpr:
		return f.expr(x.X)
	case *ast.Ident:
		if x.Name == "true" || x.Name == "false" {
			return x.Name
		}
		obj := f.info.Uses[x]
		if v, ok := obj.(*types.Var); ok && v.Parent() != f.pkg.Scope() {
			if x.Name == f.recv && f.strct != nil {
				bail("struct receiver used as a value")
			}
			return "v_" + x.Name
		}
		bail("identifier %s", x.Name)
	case *ast.StarExpr:
		if id, ok := x.X.(*ast.Ident); ok && id.Name == f.recv && f.recvPt {
			return "v_" + id.Name
		}
		bail("pointer dereference")
	case *ast.SelectorExpr:
		// a path of field selections rooted at the struct receiver (`fl.Status`, `m.PV.CSeq.MethodNo`) of scalar type:
		// one parameter per path
		if p, ok := f.recvPath(x); ok && f.strct != nil {
			lt := leanType(f.typeOf(x)) // must be scalar
			return f.fieldParam(p, lt)
		}
		bail("selector %s", x.Sel.Name)
	case *ast.UnaryExpr:
		a := f.expr(x.X)
		switch x.Op {
		case token.NOT:
			return "(!" + a + ")"
		case token.SUB:
			if leanType(f.typeOf(x)) == "Int" {
				bail("negation of an int")
			}
			return "(0 - " + a + ")"
		case token.XOR:
			if leanType(f.typeOf(x)) == "Int" {
				bail("^ on int")
			}
			return "(~~~" + a + ")"
		case token.ADD:
			return a
		}
		bail("unary %s", x.Op)
	case *ast.BinaryExpr:
		return f.binop(x, f.expr(x.X), f.expr(x.Y))
	case *ast.CallExpr:
		if id, ok := x.Fun.(*ast.Ident); ok && id.Name == "len" && len(x.Args) == 1 {
			if _, isB := f.info.Uses[id].(*types.Builtin); isB {
				if a, ok := x.Args[0].(*ast.Ident); ok && strings.HasPrefix(leanType(f.typeOf(a)), "(Array") {
					return "(Int.ofNat v_" + a.Name + ".size)"
				}
				// the length of a slice FIELD of a struct receiver (any element type): a parameter `v_c_Vals_len`
				if sel, ok := x.Args[0].(*ast.SelectorExpr); ok {
					if id, ok := sel.X.(*ast.Ident); ok && id.Name == f.recv && f.strct != nil {
						if _, isSl := f.typeOf(sel).Underlying().(*types.Slice); isSl {
							key := sel.Sel.Name + "_len"
							if !f.fields[key] {
								f.fields[key] = true
								f.fieldL = append(f.fieldL, "(v_"+id.Name+"_"+key+" : Nat)")
							}
							return "(Int.ofNat v_" + id.Name + "_" + key + ")"
						}
					}
				}
			}
			bail("len of a non-parameter")
		}
		if tv, ok := f.info.Types[x.Fun]; ok && tv.IsType() && len(x.Args) == 1 {
			return f.conv(x, f.expr(x.Args[0]))
		}
		// `recv.Path.Method()` (or `recv.Method()`) where Method is an already translated, argument-less method of a
		// struct that only READS scalar fields: a call of its translation on the corresponding sub-paths
		if sel, ok := x.Fun.(*ast.SelectorExpr); ok && len(x.Args) == 0 && f.strct != nil {
			if p, ok := f.recvPath(sel.X); ok {
				t := f.typeOf(sel.X)
				if pt, isP := t.(*types.Pointer); isP {
					t = pt.Elem()
				}
				if nt, isN := t.(*types.Named); isN {
					key := nt.Obj().Name() + "." + sel.Sel.Name
					if sig, ok := methodSigs[key]; ok {
						var args []string
						for _, fp := range sig {
							sub := fp.path
							if p != "" {
								sub = p + "_" + fp.path
							}
							args = append(args, f.fieldParam(sub, fp.lt))
						}
						return "(Sipsp.Gen.F." + strings.ReplaceAll(key, ".", "_") + " " + strings.Join(args, " ") + ")"
					}
				}
			}
		}
		bail("call")
	}
	bail("expression %T", e)
	return ""
}

// binop: the Lean text of `a op b` for the Go binary expression x (operands already translated)
func (f *ftr) binop(x *ast.BinaryExpr, a, b string) string {
	lt := leanType(f.typeOf(x.X))
	op := ""
	switch x.Op {
	case token.ADD:
		op = "+"
	case token.SUB:
		op = "-"
	case token.MUL:
		op = "*"
	case token.QUO, token.REM:
		bail("division")
	case token.AND:
		op = "&&&"
	case token.OR:
		op = "|||"
	case token.XOR:
		op = "^^^"
	case token.AND_NOT:
		if lt == "Int" {
			bail("&^ on int")
		}
		return "(" + a + " &&& ~~~" + b + ")"
	case token.SHL, token.SHR:
		if lt == "Int" {
			bail("shift of int")
		}
		cnt := b
		ct := leanType(f.typeOf(x.Y))
		if ct == "Int" {
			if tv := f.info.Types[x.Y]; tv.Value == nil {
				bail("shift by a signed, non-constant count (Go panics on a negative count)")
			}
			cnt = "(Int.toNat " + b + ")"
		} else {
			cnt = "(" + b + ").toNat"
		}
		fn := "Sipsp.GoSem.shl" + strings.TrimPrefix(lt, "UInt")
		if x.Op == token.SHR {
			fn = "Sipsp.GoSem.shr" + strings.TrimPrefix(lt, "UInt")
		}
		return "(" + fn + " " + a + " " + cnt + ")"
	case token.LAND:
		op = "&&"
	case token.LOR:
		op = "||"
	case token.EQL:
		op = "=="
	case token.NEQ:
		op = "!="
	case token.LSS:
		return "(decide (" + a + " < " + b + "))"
	case token.LEQ:
		return "(decide (" + a + " ≤ " + b + "))"
	case token.GTR:
		return "(decide (" + a + " > " + b + "))"
	case token.GEQ:
		return "(decide (" + a + " ≥ " + b + "))"
	default:
		bail("binary %s", x.Op)
	}
	if lt == "Int" && (op == "&&&" || op == "|||" || op == "^^^" || op == "*") {
		bail("bit operation / multiplication on int")
	}
	return "(" + a + " " + op + " " + b + ")"
}

// conv: the Lean text of the integer conversion T(a) (a already translated)
func (f *ftr) conv(x *ast.CallExpr, a string) string {
	tv := f.info.Types[x.Fun]
	from, to := leanType(f.typeOf(x.Args[0])), leanType(tv.Type)
	if from == to {
		return a
	}
	if from == "Bool" || to == "Bool" {
		bail("bool conversion")
	}
	if from == "Int" {
		return "(Sipsp.GoSem.ofInt" + strings.TrimPrefix(to, "UInt") + " " + a + ")"
	}
	if to == "Int" {
		return "(Int.ofNat (" + a + ").toNat)"
	}
	return "(" + a + ".to" + to + ")"
}

func hasPanic(n ast.Node) bool {
	found := false
	ast.Inspect(n, func(x ast.Node) bool {
		if c, ok := x.(*ast.CallExpr); ok {
			if id, ok := c.Fun.(*ast.Ident); ok && id.Name == "panic" {
				found = true
			}
		}
		return !found
	})
	return found
}

func hasIndex(n ast.Node) bool {
	found := false
	ast.Inspect(n, func(x ast.Node) bool {
		if _, ok := x.(*ast.IndexExpr); ok {
			found = true
		}
		return !found
	})
	return found
}

// recvPath: x is recv.A.B… -> "A_B…" (the receiver alone gives "")
func (f *ftr) recvPath(e ast.Expr) (string, bool) {
	switch x := e.(type) {
	case *ast.Ident:
		if x.Name == f.recv && f.recv != "" {
			return "", true
		}
	case *ast.SelectorExpr:
		if p, ok := f.recvPath(x.X); ok {
			if _, isField := f.info.Selections[x]; isField || true {
				if p == "" {
					return x.Sel.Name, true
				}
				return p + "_" + x.Sel.Name, true
			}
		}
	}
	return "", false
}

func (f *ftr) fieldParam(path, lt string) string {
	name := "v_" + f.recv + "_" + path
	if !f.fields[path] {
		f.fields[path] = true
		f.fieldL = append(f.fieldL, "("+name+" : "+lt+")")
	}
	return name
}

func (f *ftr) declare(name string) {
	if name == "_" {
		return
	}
	if f.names[name] {
		bail("variable %s is declared twice (shadowing)", name)
	}
	f.names[name] = true
}

func (f *ftr) fresh(p string) string {
	f.tmp++
	return fmt.Sprintf("%s__%d", p, f.tmp)
}

// mexpr: the expression as a Lean term of type `Option τ` (only used for functions that index a slice): `none` exactly when
// Go would panic with an index out of range; `&&` / `||` keep their short-circuit evaluation.
// needsMon: the expression contains an index expression or a call of a translated function whose result is an Option
func (f *ftr) needsMon(n ast.Node) bool {
	found := false
	ast.Inspect(n, func(x ast.Node) bool {
		switch y := x.(type) {
		case *ast.IndexExpr:
			found = true
		case *ast.CallExpr:
			if id, ok := y.Fun.(*ast.Ident); ok {
				if m, ok := f.done[id.Name]; ok && m {
					found = true
				}
			}
		}
		return !found
	})
	return found
}

func (f *ftr) mexpr(e ast.Expr) string {
	if !f.needsMon(e) {
		return "(some " + f.expr(e) + ")"
	}
	switch x := e.(type) {
	case *ast.ParenExpr:
		return f.mexpr(x.X)
	case *ast.IndexExpr:
		id, ok := x.X.(*ast.Ident)
		if !ok || !strings.HasPrefix(leanType(f.typeOf(id)), "(Array") {
			bail("index of a non-parameter")
		}
		i := f.fresh("i")
		return "(Option.bind " + f.mexpr(x.Index) + " (fun " + i + " => Sipsp.GoSem.idx? v_" + id.Name + " " + i + "))"
	case *ast.UnaryExpr:
		if x.Op != token.NOT {
			bail("unary %s over an index", x.Op)
		}
		a := f.fresh("a")
		return "(Option.bind " + f.mexpr(x.X) + " (fun " + a + " => some (!" + a + ")))"
	case *ast.BinaryExpr:
		a, b := f.fresh("a"), f.fresh("b")
		switch x.Op {
		case token.LAND:
			return "(Option.bind " + f.mexpr(x.X) + " (fun " + a + " => if " + a + " then " + f.mexpr(x.Y) + " else some false))"
		case token.LOR:
			return "(Option.bind " + f.mexpr(x.X) + " (fun " + a + " => if " + a + " then some true else " + f.mexpr(x.Y) + "))"
		}
		return "(Option.bind " + f.mexpr(x.X) + " (fun " + a + " => Option.bind " + f.mexpr(x.Y) + " (fun " + b + " => some " + f.binop(x, a, b) + ")))"
	case *ast.CallExpr:
		if tv, ok := f.info.Types[x.Fun]; ok && tv.IsType() && len(x.Args) == 1 {
			a := f.fresh("a")
			return "(Option.bind " + f.mexpr(x.Args[0]) + " (fun " + a + " => some " + f.conv(x, a) + "))"
		}
		if id, ok := x.Fun.(*ast.Ident); ok {
			if m, ok := f.done[id.Name]; ok && m {
				// a call of an already translated function (its result is an Option): bind the arguments left to right
				var names []string
				for range x.Args {
					names = append(names, f.fresh("p"))
				}
				out := "Sipsp.Gen.F." + id.Name + " " + strings.Join(names, " ")
				for i := len(x.Args) - 1; i >= 0; i-- {
					out = "Option.bind " + f.mexpr(x.Args[i]) + " (fun " + names[i] + " => " + out + ")"
				}
				return "(" + out + ")"
			}
		}
	}
	bail("expression %T over an index", e)
	return ""
}

func (f *ftr) retVal() string {
	if len(f.wrL) > 0 {
		if len(f.wrL) == 1 {
			return f.wrL[0]
		}
		return "(" + strings.Join(f.wrL, ", ") + ")"
	}
	if f.nores {
		return "v_" + f.recv
	}
	if len(f.res) == 1 {
		return "v_" + f.res[0]
	}
	var xs []string
	for _, r := range f.res {
		xs = append(xs, "v_"+r)
	}
	return "(" + strings.Join(xs, ", ") + ")"
}

// stmts translates a statement list; k is the Lean text for "what happens after this list" ("" = falls off the end
// of the function).
func (f *ftr) stmts(ss []ast.Stmt, k string, ind string) string {
	if len(ss) == 0 {
		if k == "" {
			if f.nores || len(f.res) > 0 || len(f.wrL) > 0 {
				if f.mon {
					return "(some " + f.retVal() + ")"
				}
				return f.retVal()
			}
			bail("missing return")
		}
		return k
	}
	s, rest := ss[0], ss[1:]
	if f.mon {
		switch x := s.(type) {
		case *ast.ReturnStmt:
			if len(x.Results) == 0 {
				return "(some " + f.retVal() + ")"
			}
			// bind the results left to right, then build the tuple
			var names []string
			for range x.Results {
				names = append(names, f.fresh("r"))
			}
			out := "some (" + strings.Join(names, ", ") + ")"
			if len(names) == 1 {
				out = "some " + names[0]
			}
			for i := len(x.Results) - 1; i >= 0; i-- {
				out = "Option.bind " + f.mexpr(x.Results[i]) + " (fun " + names[i] + " => " + out + ")"
			}
			return "(" + out + ")"
		case *ast.AssignStmt:
			if len(x.Lhs) == 1 && len(x.Rhs) == 1 && x.Tok == token.ASSIGN {
				if sel, ok := x.Lhs[0].(*ast.SelectorExpr); ok {
					if id, ok := sel.X.(*ast.Ident); ok && id.Name == f.recv && f.strct != nil {
						return "(Option.bind " + f.mexpr(x.Rhs[0]) + " (fun v_" + id.Name + "_" + sel.Sel.Name + " =>\n" + ind + f.stmts(rest, k, ind) + "))"
					}
				}
			}
			if len(x.Lhs) == 1 && len(x.Rhs) == 1 && (x.Tok == token.ASSIGN || x.Tok == token.DEFINE) {
				if l, ok := x.Lhs[0].(*ast.Ident); ok {
					if x.Tok == token.DEFINE {
						f.declare(l.Name)
					}
					return "(Option.bind " + f.mexpr(x.Rhs[0]) + " (fun v_" + l.Name + " =>\n" + ind + f.stmts(rest, k, ind) + "))"
				}
			}
			bail("assignment in a function that indexes a slice")
		case *ast.IfStmt:
			if x.Init != nil {
				bail("if with init")
			}
			kk := f.stmts(rest, k, ind+"  ")
			thenB := f.stmts(x.Body.List, kk, ind+"  ")
			elseB := kk
			if x.Else != nil {
				elseB = f.stmts([]ast.Stmt{x.Else}, kk, ind+"  ")
			}
			c := f.fresh("c")
			return "(Option.bind " + f.mexpr(x.Cond) + " (fun " + c + " =>\n" + ind + "  if " + c + " then\n" + ind + "    " + thenB + "\n" + ind + "  else\n" + ind + "    " + elseB + "))"
		case *ast.ForStmt:
			// `for ; cond; v++ { }` with an empty body: a scanning loop. It becomes a recursive auxiliary function over
			// explicit FUEL (len(first slice parameter) + 1 iterations); running out of fuel is `none`, so a result
			// `some r` means the real loop ends with r as well — the tie theorem has to show that the fuel suffices.
			inc, okp := x.Post.(*ast.IncDecStmt)
			if x.Init != nil || x.Cond == nil || !okp || inc.Tok != token.INC || len(x.Body.List) != 0 {
				bail("loop form")
			}
			vid, okv := inc.X.(*ast.Ident)
			if !okv || leanType(f.typeOf(vid)) != "Int" {
				bail("loop variable")
			}
			f.tmp++
			lname := fmt.Sprintf("%s_loop%d", f.fname, f.tmp)
			var fixB, fixN []string
			sizeOf := ""
			for i, n := range f.parN {
				if n == "v_"+vid.Name {
					continue
				}
				fixB = append(fixB, f.parB[i])
				fixN = append(fixN, n)
				if sizeOf == "" && strings.Contains(f.parB[i], "(Array UInt8)") {
					sizeOf = n
				}
			}
			if sizeOf == "" {
				bail("loop without a slice to bound it")
			}
			c := f.fresh("c")
			f.aux += fmt.Sprintf("/-- the scanning loop of `%s`, with explicit fuel -/\ndef %s %s : Nat → Int → Option Int\n  | 0, _ => none\n  | fuel + 1, v_%s => (Option.bind %s (fun %s => if %s then %s %s fuel (v_%s + 1) else some v_%s))\n\n",
				f.fname, lname, strings.Join(fixB, " "), vid.Name, f.mexpr(x.Cond), c, c, lname, strings.Join(fixN, " "), vid.Name, vid.Name)
			return "(Option.bind (" + lname + " " + strings.Join(fixN, " ") + " (" + sizeOf + ".size + 1) v_" + vid.Name + ") (fun v_" + vid.Name + " =>\n" + ind + f.stmts(rest, k, ind) + "))"
		case *ast.BlockStmt:
			return f.stmts(append(append([]ast.Stmt{}, x.List...), rest...), k, ind)
		case *ast.ExprStmt:
			if c, ok := x.X.(*ast.CallExpr); ok {
				if id, ok := c.Fun.(*ast.Ident); ok && f.logs[id.Name] {
					return f.stmts(rest, k, ind)
				}
				if id, ok := c.Fun.(*ast.Ident); ok && id.Name == "panic" {
					return "none" // Go panics here: no result
				}
			}
		}
		bail("statement %T in a function that indexes a slice / panics", s)
	}
	switch x := s.(type) {
	case *ast.ReturnStmt:
		if len(x.Results) == 0 {
			return f.retVal()
		}
		if len(x.Results) == 1 {
			return f.expr(x.Results[0])
		}
		var xs []string
		for _, r := range x.Results {
			xs = append(xs, f.expr(r))
		}
		return "(" + strings.Join(xs, ", ") + ")"
	case *ast.ExprStmt:
		if c, ok := x.X.(*ast.CallExpr); ok {
			if id, ok := c.Fun.(*ast.Ident); ok && f.logs[id.Name] {
				return f.stmts(rest, k, ind) // logging: no effect on the result
			}
		}
		bail("expression statement")
	case *ast.AssignStmt:
		if len(x.Lhs) != 1 || len(x.Rhs) != 1 {
			bail("tuple assignment")
		}
		var name string
		switch l := x.Lhs[0].(type) {
		case *ast.Ident:
			if x.Tok == token.DEFINE {
				f.declare(l.Name)
			}
			name = "v_" + l.Name
		case *ast.StarExpr:
			if id, ok := l.X.(*ast.Ident); ok && id.Name == f.recv && f.recvPt {
				name = "v_" + id.Name
			} else {
				bail("store through pointer")
			}
		default:
			bail("assignment target")
		}
		var rhs string
		switch x.Tok {
		case token.ASSIGN, token.DEFINE:
			rhs = f.expr(x.Rhs[0])
		default:
			ops := map[token.Token]token.Token{token.ADD_ASSIGN: token.ADD, token.SUB_ASSIGN: token.SUB,
				token.OR_ASSIGN: token.OR, token.AND_ASSIGN: token.AND, token.XOR_ASSIGN: token.XOR,
				token.AND_NOT_ASSIGN: token.AND_NOT, token.SHL_ASSIGN: token.SHL, token.SHR_ASSIGN: token.SHR,
				token.MUL_ASSIGN: token.MUL}
			op, ok := ops[x.Tok]
			if !ok {
				bail("assignment operator %s", x.Tok)
			}
			be := &ast.BinaryExpr{X: x.Lhs[0], Op: op, Y: x.Rhs[0]}
			f.info.Types[be] = f.info.Types[x.Lhs[0]]
			rhs = f.expr(be)
		}
		return "let " + name + " := " + rhs + "\n" + ind + f.stmts(rest, k, ind)
	case *ast.DeclStmt:
		gd, ok := x.Decl.(*ast.GenDecl)
		if !ok || gd.Tok != token.VAR {
			bail("declaration")
		}
		out := ""
		for _, sp := range gd.Specs {
			vs := sp.(*ast.ValueSpec)
			for i, nm := range vs.Names {
				f.declare(nm.Name)
				t := leanType(f.info.Defs[nm].Type())
				v := "(0 : " + t + ")"
				if t == "Bool" {
					v = "false"
				}
				if i < len(vs.Values) {
					v = f.expr(vs.Values[i])
				}
				out += "let v_" + nm.Name + " : " + t + " := " + v + "\n" + ind
			}
		}
		return out + f.stmts(rest, k, ind)
	case *ast.BlockStmt:
		return f.stmts(append(append([]ast.Stmt{}, x.List...), rest...), k, ind)
	case *ast.IfStmt:
		if x.Init != nil {
			bail("if with init")
		}
		kk := f.stmts(rest, k, ind+"  ")
		thenB := f.stmts(x.Body.List, kk, ind+"  ")
		elseB := kk
		if x.Else != nil {
			elseB = f.stmts([]ast.Stmt{x.Else}, kk, ind+"  ")
		}
		return "if " + f.expr(x.Cond) + " then\n" + ind + "  " + thenB + "\n" + ind + "else\n" + ind + "  " + elseB
	case *ast.SwitchStmt:
		if x.Init != nil {
			bail("switch with init")
		}
		kk := f.stmts(rest, k, ind+"  ")
		var def []ast.Stmt
		type arm struct {
			cond string
			body []ast.Stmt
		}
		var arms []arm
		for _, c := range x.Body.List {
			cc := c.(*ast.CaseClause)
			for _, st := range cc.Body {
				if b, ok := st.(*ast.BranchStmt); ok {
					if b.Tok == token.BREAK && b.Label == nil && st == cc.Body[len(cc.Body)-1] {
						continue
					}
					bail("branch statement %s", b.Tok)
				}
			}
			body := cc.Body
			if n := len(body); n > 0 {
				if b, ok := body[n-1].(*ast.BranchStmt); ok && b.Tok == token.BREAK {
					body = body[:n-1]
				}
			}
			if cc.List == nil {
				def = body
				if def == nil {
					def = []ast.Stmt{}
				}
				continue
			}
			var cs []string
			for _, v := range cc.List {
				if x.Tag != nil {
					cs = append(cs, "("+f.expr(x.Tag)+" == "+f.expr(v)+")")
				} else {
					cs = append(cs, f.expr(v))
				}
			}
			arms = append(arms, arm{strings.Join(cs, " || "), body})
		}
		out := ""
		for _, a := range arms {
			out += "if " + a.cond + " then\n" + ind + "  " + f.stmts(a.body, kk, ind+"  ") + "\n" + ind + "else "
		}
		return out + "\n" + ind + "  " + f.stmts(def, kk, ind+"  ")
	}
	bail("statement %T", s)
	return ""
}

// emitFuncs returns the Lean text of namespace Sipsp.Gen.F and the list of translated / untranslated functions.
// emitFuncs translates the functions named in `wanted`; `prefix` is put in front of the Lean names (dependencies) and
// `listName` names the two summary lists.
func emitFuncs(files []*ast.File, info *types.Info, pkg *types.Package, wanted []string, prefix, listName string) (string, []string, map[string]string) {
	decls := map[string]*ast.FuncDecl{}
	for _, file := range files {
		for _, d := range file.Decls {
			fd, ok := d.(*ast.FuncDecl)
			if !ok || fd.Body == nil {
				continue
			}
			name := fd.Name.Name
			if fd.Recv != nil && len(fd.Recv.List) == 1 {
				t := fd.Recv.List[0].Type
				if st, ok := t.(*ast.StarExpr); ok {
					t = st.X
				}
				if id, ok := t.(*ast.Ident); ok {
					name = id.Name + "." + name
				}
			}
			decls[name] = fd
		}
	}
	var sb strings.Builder
	var done []string
	doneMon := map[string]bool{} // translated so far: name -> its result is an Option
	failed := map[string]string{}
	if v := os.Getenv("EXTRACT_FUNCS"); v != "" && prefix == "" { // for testing the translator on a scratch package
		wanted = strings.Split(v, ",")
	}
	for _, name := range wanted {
		fd, ok := decls[name]
		if !ok {
			failed[name] = "no such function in the source"
			continue
		}
		text, err := func() (txt string, err string) {
			defer func() {
				if r := recover(); r != nil {
					if u, ok := r.(untr); ok {
						err = u.msg
						return
					}
					panic(r)
				}
			}()
			f := &ftr{info: info, pkg: pkg, fields: map[string]bool{}, names: map[string]bool{}, done: doneMon,
				fname: prefix + strings.ReplaceAll(name, ".", "_"),
				logs:  map[string]bool{"BUG": true, "DBG": true, "ERR": true, "WARN": true}}
			var params []string
			if fd.Recv != nil {
				rf := fd.Recv.List[0]
				if len(rf.Names) == 1 {
					f.recv = rf.Names[0].Name
					f.declare(f.recv)
				}
				rt := info.Defs[rf.Names[0]].Type()
				if p, ok := rt.(*types.Pointer); ok {
					rt = p.Elem()
					if _, isB := rt.Underlying().(*types.Basic); isB {
						f.recvPt = true
					}
				}
				if st, ok := rt.Underlying().(*types.Struct); ok {
					f.strct = st
				} else {
					params = append(params, "(v_"+f.recv+" : "+leanType(rt)+")")
				}
			}
			for _, p := range fd.Type.Params.List {
				for _, nm := range p.Names {
					f.declare(nm.Name)
					params = append(params, "(v_"+nm.Name+" : "+leanType(info.Defs[nm].Type())+")")
					f.parB = append(f.parB, "(v_"+nm.Name+" : "+leanType(info.Defs[nm].Type())+")")
					f.parN = append(f.parN, "v_"+nm.Name)
				}
			}
			var rts []string
			if fd.Type.Results != nil {
				for _, r := range fd.Type.Results.List {
					t := leanType(info.Types[r.Type].Type)
					if len(r.Names) == 0 {
						rts = append(rts, t)
					}
					for _, nm := range r.Names {
						f.declare(nm.Name)
						f.res = append(f.res, nm.Name)
						f.resT = append(f.resT, t)
						rts = append(rts, t)
					}
				}
			}
			if len(rts) > 0 && f.recvPt {
				bail("pointer receiver to an integer type together with a result")
			}
			// a pointer receiver to a STRUCT whose scalar fields are assigned: every assigned field is a parameter (its
			// value on entry) and a component of the result (its value on return)
			if f.strct != nil && len(rts) == 0 {
				ast.Inspect(fd.Body, func(n ast.Node) bool {
					if as, ok := n.(*ast.AssignStmt); ok {
						for _, l := range as.Lhs {
							if sel, ok := l.(*ast.SelectorExpr); ok {
								if id, ok := sel.X.(*ast.Ident); ok && id.Name == f.recv {
									if as.Tok != token.ASSIGN || len(as.Lhs) != 1 {
										bail("field assignment form")
									}
									nm := "v_" + id.Name + "_" + sel.Sel.Name
									if !f.fields[sel.Sel.Name] {
										f.fields[sel.Sel.Name] = true
										lt := leanType(info.Types[sel].Type)
										f.fieldL = append(f.fieldL, "("+nm+" : "+lt+")")
									}
									seen := false
									for _, w := range f.wrL {
										seen = seen || w == nm
									}
									if !seen {
										f.wrL = append(f.wrL, nm)
										f.wrT = append(f.wrT, leanType(info.Types[sel].Type))
									}
								}
							}
						}
					}
					return true
				})
				if len(f.wrL) == 0 {
					bail("no result")
				}
				rts = f.wrT
				f.mon = true
			}
			if len(rts) == 0 {
				if !f.recvPt {
					bail("no result")
				}
				f.nores = true
				rts = []string{leanType(info.Defs[fd.Recv.List[0].Names[0]].Type().(*types.Pointer).Elem())}
			}
			f.mon = f.mon || hasIndex(fd.Body) || hasPanic(fd.Body) || f.needsMon(fd.Body)
			if f.mon && (len(f.res) > 0 || f.nores) {
				bail("named results / pointer receiver in a function that indexes a slice")
			}
			body := ""
			for i, r := range f.res {
				z := "(0 : " + f.resT[i] + ")"
				if f.resT[i] == "Bool" {
					z = "false"
				}
				body += "let v_" + r + " : " + f.resT[i] + " := " + z + "\n  "
			}
			body += f.stmts(fd.Body.List, "", "  ")
			if f.strct != nil {
				params = append(append([]string{}, f.fieldL...), params...)
			}
			lname := prefix + strings.ReplaceAll(name, ".", "_")
			rt := strings.Join(rts, " × ")
			if f.mon {
				rt = "Option (" + rt + ")"
			}
			if !strings.Contains(name, ".") {
				doneMon[name] = f.mon
			} else if f.strct != nil && !f.mon && len(f.wrL) == 0 && len(f.parN) == 0 {
				var sig []fieldPar
				for _, b := range f.fieldL { // "(v_recv_Path : T)"
					inner := strings.TrimSuffix(strings.TrimPrefix(b, "("), ")")
					parts := strings.SplitN(inner, " : ", 2)
					sig = append(sig, fieldPar{strings.TrimPrefix(parts[0], "v_"+f.recv+"_"), parts[1]})
				}
				methodSigs[name] = sig
			}
			return f.aux + "/-- translated from the Go source of `" + name + "` -/\n" + fmt.Sprintf("def %s %s : %s :=\n  %s\n", lname, strings.Join(params, " "), rt, body), ""
		}()
		if err != "" {
			failed[name] = err
			continue
		}
		sb.WriteString(text + "\n")
		done = append(done, name)
	}
	var fk []string
	for k := range failed {
		fk = append(fk, k)
	}
	sort.Strings(fk)
	sb.WriteString("def " + listName + " : List String := [")
	for i, n := range done {
		if i > 0 {
			sb.WriteString(", ")
		}
		sb.WriteString(fmt.Sprintf("%q", n))
	}
	sb.WriteString("]\n\ndef un" + listName + " : List (String × String) := [")
	for i, n := range fk {
		if i > 0 {
			sb.WriteString(", ")
		}
		sb.WriteString(fmt.Sprintf("(%q, %q)", n, failed[n]))
	}
	sb.WriteString("]\n")
	return sb.String(), done, failed
}
