// extract: regenerates Lean facts from the Go sources of sipsp.
//
//	extract <repo-dir> <out-lean-file> <out-facts-json>
//
// It parses the non-test .go files of the package (default build tags, i.e.
// without "nodebug"/"verif"), type-checks them as far as possible without
// resolving imports (constants are still evaluated), and writes
//   - every package-level integer constant (name, value),
//   - the header-name table hdrName2Type, the method table Method2Name,
//     the signature header list sigHdrs, the byte-string literals used as
//     case-insensitive keywords,
//   - an inventory of exported functions/methods, package-level variable
//     writes outside init(), go statements, imports of sync/unsafe,
//   - a normalised AST hash per function.
//
// stdlib only.
package main

import (
	"crypto/sha256"
	"encoding/json"
	"fmt"
	"go/ast"
	"go/build/constraint"
	"go/constant"
	"go/importer"
	"go/parser"
	"go/printer"
	"go/token"
	"go/types"
	"os"
	"path/filepath"
	"sort"
	"strconv"
	"strings"
)

type fakeImporter struct{ def types.Importer }

func (f fakeImporter) Import(path string) (*types.Package, error) {
	if p, err := f.def.Import(path); err == nil {
		return p, nil
	}
	// unknown (module) import: empty package, errors are ignored
	parts := strings.Split(path, "/")
	return types.NewPackage(path, parts[len(parts)-1]), nil
}

func leanBytes(s string) string {
	var sb strings.Builder
	sb.WriteString("[")
	for i := 0; i < len(s); i++ {
		if i > 0 {
			sb.WriteString(", ")
		}
		sb.WriteString(strconv.Itoa(int(s[i])))
	}
	sb.WriteString("]")
	return sb.String()
}

// byteSliceLit returns the string inside []byte("...") composite/conversion.
func byteSliceLit(e ast.Expr) (string, bool) {
	c, ok := e.(*ast.CallExpr)
	if !ok || len(c.Args) != 1 {
		return "", false
	}
	if _, ok := c.Fun.(*ast.ArrayType); !ok {
		return "", false
	}
	bl, ok := c.Args[0].(*ast.BasicLit)
	if !ok || bl.Kind != token.STRING {
		return "", false
	}
	s, err := strconv.Unquote(bl.Value)
	if err != nil {
		return "", false
	}
	return s, true
}

// depFuncs: translates ByteToLower / ByteToUpper of the bytescase version required by <repo>/go.mod ("" if not found)
func depFuncs(repo string) string {
	gm, err := os.ReadFile(filepath.Join(repo, "go.mod"))
	if err != nil {
		return ""
	}
	ver := ""
	for _, ln := range strings.Split(string(gm), "\n") {
		fs := strings.Fields(ln)
		for i, w := range fs {
			if w == "github.com/intuitivelabs/bytescase" && i+1 < len(fs) {
				ver = fs[i+1]
			}
		}
	}
	cache := os.Getenv("GOMODCACHE")
	if cache == "" {
		gp := os.Getenv("GOPATH")
		if gp == "" {
			gp = filepath.Join(os.Getenv("HOME"), "go")
		}
		cache = filepath.Join(gp, "pkg", "mod")
	}
	dir := filepath.Join(cache, "github.com", "intuitivelabs", "bytescase@"+ver)
	names, _ := filepath.Glob(filepath.Join(dir, "*.go"))
	if ver == "" || len(names) == 0 {
		return ""
	}
	fset := token.NewFileSet()
	var files []*ast.File
	for _, n := range names {
		if strings.HasSuffix(n, "_test.go") {
			continue
		}
		f, err := parser.ParseFile(fset, n, nil, 0)
		if err != nil {
			return ""
		}
		files = append(files, f)
	}
	conf := types.Config{Importer: fakeImporter{importer.Default()}, Error: func(err error) {}}
	info := &types.Info{Defs: map[*ast.Ident]types.Object{}, Uses: map[*ast.Ident]types.Object{},
		Types: map[ast.Expr]types.TypeAndValue{}}
	pkg, _ := conf.Check("bytescase", fset, files, info)
	txt, _, _ := emitFuncs(files, info, pkg, []string{"ByteToLower", "ByteToUpper"}, "bytescase_", "depTranslated")
	return txt
}

func buildOK(f *ast.File) bool {
	for _, cg := range f.Comments {
		if cg.Pos() > f.Package {
			break
		}
		for _, c := range cg.List {
			if constraint.IsGoBuild(c.Text) || constraint.IsPlusBuild(c.Text) {
				ex, err := constraint.Parse(c.Text)
				if err != nil {
					continue
				}
				if !ex.Eval(func(tag string) bool {
					return tag == "linux" || tag == "amd64" || tag == "gc"
				}) {
					return false
				}
			}
		}
	}
	return true
}

func main() {
	if len(os.Args) != 4 && len(os.Args) != 5 {
		fmt.Fprintln(os.Stderr, "usage: extract <repo> <out.lean> <facts.json>")
		os.Exit(2)
	}
	repo, outLean, outFacts := os.Args[1], os.Args[2], os.Args[3]
	fset := token.NewFileSet()
	names, _ := filepath.Glob(filepath.Join(repo, "*.go"))
	sort.Strings(names)
	var files []*ast.File
	for _, n := range names {
		if strings.HasSuffix(n, "_test.go") {
			continue
		}
		f, err := parser.ParseFile(fset, n, nil, parser.ParseComments)
		if err != nil {
			fmt.Fprintln(os.Stderr, "parse error:", err)
			os.Exit(1)
		}
		if !buildOK(f) {
			continue
		}
		files = append(files, f)
	}
	conf := types.Config{
		Importer: fakeImporter{importer.Default()},
		Error:    func(err error) {},
	}
	info := &types.Info{Defs: map[*ast.Ident]types.Object{}, Uses: map[*ast.Ident]types.Object{},
		Types: map[ast.Expr]types.TypeAndValue{}}
	pkg, _ := conf.Check("sipsp", fset, files, info)
	if len(os.Args) == 5 {
		// translated leaf functions (funcs.go)
		txt, _, _ := emitFuncs(files, info, pkg, wantedFuncs, "", "translated")
		// the dependency github.com/intuitivelabs/bytescase at the version the repository's go.mod pins: its two
		// scalar leaf functions, from the module cache
		if dtxt := depFuncs(repo); dtxt != "" {
			txt += "\n/-! dependency github.com/intuitivelabs/bytescase (version pinned by go.mod) -/\n\n" + dtxt
		}
		hdr := "/- GENERATED by /verif/extract (funcs.go) from the Go sources — do not edit. -/\nimport Sipsp.GoSem\nset_option linter.unusedVariables false\nnamespace Sipsp.Gen.F\n\n"
		if err := os.WriteFile(os.Args[4], []byte(hdr+txt+"\nend Sipsp.Gen.F\n"), 0o644); err != nil {
			fmt.Fprintln(os.Stderr, err)
			os.Exit(1)
		}
	}

	// ---- constants
	type kv struct {
		k string
		v string
	}
	var consts []kv
	scope := pkg.Scope()
	for _, n := range scope.Names() {
		if c, ok := scope.Lookup(n).(*types.Const); ok {
			if c.Val().Kind() == constant.Int {
				consts = append(consts, kv{n, c.Val().ExactString()})
			}
		}
	}
	// function-local constants (state enums of ParseHdrLine, ParseTokenParam, ParseURI)
	for id, obj := range info.Defs {
		if c, ok := obj.(*types.Const); ok && c.Parent() != scope && c.Val() != nil &&
			c.Val().Kind() == constant.Int && id.Name != "_" {
			// qualify by enclosing function
			fn := ""
			for _, f := range files {
				for _, d := range f.Decls {
					if fd, ok := d.(*ast.FuncDecl); ok && fd.Pos() <= id.Pos() && id.Pos() <= fd.End() {
						fn = fd.Name.Name
					}
				}
			}
			consts = append(consts, kv{fn + "." + id.Name, c.Val().ExactString()})
		}
	}
	sort.Slice(consts, func(i, j int) bool { return consts[i].k < consts[j].k })

	// ---- tables
	type hdrEnt struct {
		n string
		t string
	}
	var hdrTab []hdrEnt
	type mthEnt struct {
		k string
		n string
	}
	var mthTab []mthEnt
	var sigHdrs []string
	strLits := map[string]string{} // package-level []byte("...") vars
	var multipleVals []string
	constVal := func(name string) string {
		if c, ok := scope.Lookup(name).(*types.Const); ok {
			return c.Val().ExactString()
		}
		return "0"
	}
	for _, f := range files {
		for _, d := range f.Decls {
			switch gd := d.(type) {
			case *ast.GenDecl:
				if gd.Tok != token.VAR {
					continue
				}
				for _, sp := range gd.Specs {
					vs := sp.(*ast.ValueSpec)
					for i, nm := range vs.Names {
						if i >= len(vs.Values) {
							continue
						}
						val := vs.Values[i]
						if s, ok := byteSliceLit(val); ok {
							strLits[nm.Name] = s
						}
						cl, ok := val.(*ast.CompositeLit)
						if !ok {
							continue
						}
						switch nm.Name {
						case "hdrName2Type":
							for _, el := range cl.Elts {
								ecl := el.(*ast.CompositeLit)
								var e hdrEnt
								for _, kvx := range ecl.Elts {
									k := kvx.(*ast.KeyValueExpr)
									switch k.Key.(*ast.Ident).Name {
									case "n":
										e.n, _ = byteSliceLit(k.Value)
									case "t":
										e.t = k.Value.(*ast.Ident).Name
									}
								}
								hdrTab = append(hdrTab, e)
							}
						case "Method2Name":
							for _, el := range cl.Elts {
								k := el.(*ast.KeyValueExpr)
								s, _ := byteSliceLit(k.Value)
								mthTab = append(mthTab, mthEnt{k.Key.(*ast.Ident).Name, s})
							}
						case "sigHdrs":
							for _, el := range cl.Elts {
								sigHdrs = append(sigHdrs, el.(*ast.Ident).Name)
							}
						}
					}
				}
			case *ast.FuncDecl:
				if gd.Name.Name == "multipleValsOk" && gd.Body != nil {
					ast.Inspect(gd.Body, func(n ast.Node) bool {
						if cc, ok := n.(*ast.CaseClause); ok {
							for _, e := range cc.List {
								if id, ok := e.(*ast.Ident); ok {
									multipleVals = append(multipleVals, id.Name)
								}
							}
						}
						return true
					})
				}
			}
		}
	}

	// ---- facts: exported API, package var writes, go stmts, imports, hashes
	type fnFact struct {
		Name     string `json:"name"`
		Exported bool   `json:"exported"`
		Hash     string `json:"hash"`
		Index    int    `json:"index_exprs"`
		Slice    int    `json:"slice_exprs"`
		Panics   int    `json:"panic_calls"`
	}
	var fns []fnFact
	var pkgWrites []string
	var goStmts []string
	imports := map[string]bool{}
	pkgVars := map[types.Object]bool{}
	for _, n := range scope.Names() {
		if v, ok := scope.Lookup(n).(*types.Var); ok {
			pkgVars[v] = true
		}
	}
	rootIdent := func(e ast.Expr) *ast.Ident {
		for {
			switch x := e.(type) {
			case *ast.Ident:
				return x
			case *ast.SelectorExpr:
				e = x.X
			case *ast.IndexExpr:
				e = x.X
			case *ast.StarExpr:
				e = x.X
			case *ast.ParenExpr:
				e = x.X
			case *ast.SliceExpr:
				e = x.X
			default:
				return nil
			}
		}
	}
	for _, f := range files {
		for _, im := range f.Imports {
			p, _ := strconv.Unquote(im.Path.Value)
			imports[p] = true
		}
		for _, d := range f.Decls {
			fd, ok := d.(*ast.FuncDecl)
			if !ok || fd.Body == nil {
				continue
			}
			name := fd.Name.Name
			exported := fd.Name.IsExported()
			if fd.Recv != nil && len(fd.Recv.List) > 0 {
				t := fd.Recv.List[0].Type
				if st, ok := t.(*ast.StarExpr); ok {
					t = st.X
				}
				if id, ok := t.(*ast.Ident); ok {
					name = id.Name + "." + name
					exported = exported && id.IsExported()
				}
			}
			var sb strings.Builder
			cfg := printer.Config{Mode: printer.RawFormat}
			// print without comments: use a fresh fileset-less node print
			_ = cfg.Fprint(&sb, token.NewFileSet(), fd)
			h := sha256.Sum256([]byte(sb.String()))
			ff := fnFact{Name: name, Exported: exported, Hash: fmt.Sprintf("%x", h[:8])}
			ast.Inspect(fd.Body, func(n ast.Node) bool {
				switch x := n.(type) {
				case *ast.IndexExpr:
					ff.Index++
				case *ast.SliceExpr:
					ff.Slice++
				case *ast.CallExpr:
					if id, ok := x.Fun.(*ast.Ident); ok && id.Name == "panic" {
						ff.Panics++
					}
				case *ast.GoStmt:
					goStmts = append(goStmts, name)
				case *ast.AssignStmt:
					for _, l := range x.Lhs {
						if id := rootIdent(l); id != nil {
							if obj := info.Uses[id]; obj != nil && pkgVars[obj] && fd.Name.Name != "init" {
								pkgWrites = append(pkgWrites, name+":"+id.Name)
							}
						}
					}
				case *ast.IncDecStmt:
					if id := rootIdent(x.X); id != nil {
						if obj := info.Uses[id]; obj != nil && pkgVars[obj] && fd.Name.Name != "init" {
							pkgWrites = append(pkgWrites, name+":"+id.Name)
						}
					}
				}
				return true
			})
			fns = append(fns, ff)
		}
	}
	sort.Slice(fns, func(i, j int) bool { return fns[i].Name < fns[j].Name })
	sort.Strings(pkgWrites)
	sort.Strings(goStmts)
	var imps []string
	for k := range imports {
		imps = append(imps, k)
	}
	sort.Strings(imps)

	// ---- write Lean
	var sb strings.Builder
	sb.WriteString("/- GENERATED by /verif/extract from the Go sources — do not edit. -/\n")
	sb.WriteString("namespace Sipsp.Gen\n\n")
	sb.WriteString("/-- every integer constant of package sipsp (function-local ones as `Func.name`) -/\n")
	sb.WriteString("def consts : List (String × Int) := [\n")
	for i, c := range consts {
		sep := ","
		if i == len(consts)-1 {
			sep = ""
		}
		fmt.Fprintf(&sb, "  (%q, %s)%s\n", c.k, c.v, sep)
	}
	sb.WriteString("]\n\n")
	sb.WriteString("/-! individual constants (function-local ones as `Func_name`) -/\nnamespace C\n")
	for _, c := range consts {
		if strings.HasPrefix(c.v, "-") {
			continue
		}
		fmt.Fprintf(&sb, "def «%s» : Nat := %s\n", strings.ReplaceAll(c.k, ".", "_"), c.v)
	}
	sb.WriteString("end C\n\n")
	sb.WriteString("/-- `hdrName2Type` (parse_headers.go): (name bytes, HdrT value), source order -/\n")
	sb.WriteString("def hdrName2Type : List (List UInt8 × Nat) := [\n")
	for i, e := range hdrTab {
		sep := ","
		if i == len(hdrTab)-1 {
			sep = ""
		}
		fmt.Fprintf(&sb, "  (%s, %s)%s -- %q %s\n", leanBytes(e.n), constVal(e.t), sep, e.n, e.t)
	}
	sb.WriteString("]\n\n")
	sb.WriteString("/-- `Method2Name` (parse_method.go): (SIPMethod value, name bytes), source order -/\n")
	sb.WriteString("def method2Name : List (Nat × List UInt8) := [\n")
	for i, e := range mthTab {
		sep := ","
		if i == len(mthTab)-1 {
			sep = ""
		}
		fmt.Fprintf(&sb, "  (%s, %s)%s -- %s %q\n", constVal(e.k), leanBytes(e.n), sep, e.k, e.n)
	}
	sb.WriteString("]\n\n")
	sb.WriteString("/-- `sigHdrs` (msg_sig.go): HdrT values, source order -/\n")
	sb.WriteString("def sigHdrs : List Nat := [")
	for i, s := range sigHdrs {
		if i > 0 {
			sb.WriteString(", ")
		}
		sb.WriteString(constVal(s))
	}
	sb.WriteString("]\n\n")
	sb.WriteString("/-- case list of `multipleValsOk` (parse_from.go): HdrT values -/\n")
	sb.WriteString("def multipleVals : List Nat := [")
	for i, s := range multipleVals {
		if i > 0 {
			sb.WriteString(", ")
		}
		sb.WriteString(constVal(s))
	}
	sb.WriteString("]\n\n")
	var lk []string
	for k := range strLits {
		lk = append(lk, k)
	}
	sort.Strings(lk)
	sb.WriteString("/-- package-level `[]byte(\"…\")` variables -/\n")
	sb.WriteString("def byteLits : List (String × List UInt8) := [\n")
	for i, k := range lk {
		sep := ","
		if i == len(lk)-1 {
			sep = ""
		}
		fmt.Fprintf(&sb, "  (%q, %s)%s\n", k, leanBytes(strLits[k]), sep)
	}
	sb.WriteString("]\n\n")
	sb.WriteString("/-- assignments whose root is a package-level variable, outside init(): `func:var` -/\n")
	sb.WriteString("def pkgVarWrites : List String := [")
	for i, s := range pkgWrites {
		if i > 0 {
			sb.WriteString(", ")
		}
		fmt.Fprintf(&sb, "%q", s)
	}
	sb.WriteString("]\n\n")
	sb.WriteString("/-- functions containing a `go` statement -/\n")
	sb.WriteString("def goStmts : List String := [")
	for i, s := range goStmts {
		if i > 0 {
			sb.WriteString(", ")
		}
		fmt.Fprintf(&sb, "%q", s)
	}
	sb.WriteString("]\n\n")
	sb.WriteString("def imports : List String := [")
	for i, s := range imps {
		if i > 0 {
			sb.WriteString(", ")
		}
		fmt.Fprintf(&sb, "%q", s)
	}
	sb.WriteString("]\n\n")
	sb.WriteString("/-- exported functions and methods -/\n")
	sb.WriteString("def exportedFuncs : List String := [\n")
	first := true
	for _, f := range fns {
		if !f.Exported {
			continue
		}
		if !first {
			sb.WriteString(",\n")
		}
		first = false
		fmt.Fprintf(&sb, "  %q", f.Name)
	}
	sb.WriteString("\n]\n\nend Sipsp.Gen\n")
	if err := os.WriteFile(outLean, []byte(sb.String()), 0o644); err != nil {
		fmt.Fprintln(os.Stderr, err)
		os.Exit(1)
	}
	facts := map[string]interface{}{
		"functions": fns, "pkg_var_writes": pkgWrites, "go_stmts": goStmts, "imports": imps,
	}
	js, _ := json.MarshalIndent(facts, "", " ")
	if err := os.WriteFile(outFacts, js, 0o644); err != nil {
		fmt.Fprintln(os.Stderr, err)
		os.Exit(1)
	}
}
