#!/bin/bash
# (re)builds extractor output, the implementation harness (against a copy of the
# current working tree of $VERIF_REPO) and the Lean library + driver.
set -e
V=$(dirname "$(readlink -f "$0")")
REPO=${VERIF_REPO:-/repo}
export GOFLAGS=-mod=mod GOPROXY=off GOSUMDB=off GOTOOLCHAIN=local
mkdir -p $V/.build
# --- copy of the implementation + executor
rm -rf $V/.build/sipsp && mkdir -p $V/.build/sipsp
for f in $REPO/*.go; do case "$f" in *_test.go) ;; *) cp "$f" $V/.build/sipsp/ ;; esac; done
cp $REPO/go.mod $REPO/go.sum $V/.build/sipsp/
cp $V/harness/export/zz_verif_exec.go $V/.build/sipsp/
cp $REPO/go.sum $V/harness/go.sum 2>/dev/null || true
(cd $V/harness && go build -tags verif -o $V/.build/harness ./cmd/harness)
# --- regenerated facts
if [ ! -x $V/.build/extract ] || [ $V/extract/main.go -nt $V/.build/extract ] || [ $V/extract/funcs.go -nt $V/.build/extract ]; then
  (cd $V/extract && go build -o $V/.build/extract .)
fi
# Facts.lean: constants / tables / inventory; Funcs.lean: leaf functions TRANSLATED from the source (extract/funcs.go)
$V/.build/extract $REPO $V/.build/Facts.lean.new $V/.build/facts.json $V/.build/Funcs.lean.new
if ! cmp -s $V/.build/Facts.lean.new $V/lean/Sipsp/Generated/Facts.lean; then
  cp $V/.build/Facts.lean.new $V/lean/Sipsp/Generated/Facts.lean
fi
if ! cmp -s $V/.build/Funcs.lean.new $V/lean/Sipsp/Generated/Funcs.lean; then
  cp $V/.build/Funcs.lean.new $V/lean/Sipsp/Generated/Funcs.lean
fi
