import Sipsp.Driver.Exec

/-- model driver: one session line on stdin → one output line on stdout -/
partial def loop (hin : IO.FS.Stream) (hout : IO.FS.Stream) : IO Unit := do
  let line ← hin.getLine
  if line.isEmpty then return ()
  let l := if line.back == '\n' then line.dropRight 1 else line
  hout.putStrLn (Sipsp.Exec.runLine l)
  loop hin hout

def main : IO Unit := do
  let hin ← IO.getStdin
  let hout ← IO.getStdout
  loop hin hout
