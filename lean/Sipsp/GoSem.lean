/-
  Sipsp.GoSem — the few Go operators whose meaning differs from the Lean operator of the same name, used by the
  definitions that /verif/extract/funcs.go TRANSLATES from the Go sources (Sipsp/Generated/Funcs.lean).
  Trusted (small, read it): Go's `x << n` / `x >> n` on an unsigned w-bit value give 0 once n ≥ w (Lean's `<<<` on
  UIntN reduces the count modulo w); a conversion of an `int` to an unsigned w-bit type keeps the low w bits.
  Go's `int` is translated to Lean's `Int` (mathematical integers). ASSUMPTION: the values stay below 2^62 in magnitude
  (they are offsets into buffers of at most 65,535 bytes and small counters); the translator accepts on `int` nothing but
  comparisons, `+` / `-` with a constant operand and conversions from / to unsigned types, and rejects `*`, bit
  operations, shifts, negation and the narrower signed types, so no accepted function can leave that range from inputs
  inside it. Go's `uint` is taken as 64 bits wide (the platform the library is built for here: linux/amd64).
  Everything else in the translated subset (`+ - * & | ^ &^` with wrap-around on UIntN, comparisons, `&& || !`,
  widening / narrowing conversions between unsigned types) is the Lean core operator with the same semantics.
-/
namespace Sipsp.GoSem

def shl8 (x : UInt8) (n : Nat) : UInt8 := if n ≥ 8 then 0 else x <<< UInt8.ofNat n
def shr8 (x : UInt8) (n : Nat) : UInt8 := if n ≥ 8 then 0 else x >>> UInt8.ofNat n
def shl16 (x : UInt16) (n : Nat) : UInt16 := if n ≥ 16 then 0 else x <<< UInt16.ofNat n
def shr16 (x : UInt16) (n : Nat) : UInt16 := if n ≥ 16 then 0 else x >>> UInt16.ofNat n
def shl32 (x : UInt32) (n : Nat) : UInt32 := if n ≥ 32 then 0 else x <<< UInt32.ofNat n
def shr32 (x : UInt32) (n : Nat) : UInt32 := if n ≥ 32 then 0 else x >>> UInt32.ofNat n
def shl64 (x : UInt64) (n : Nat) : UInt64 := if n ≥ 64 then 0 else x <<< UInt64.ofNat n
def shr64 (x : UInt64) (n : Nat) : UInt64 := if n ≥ 64 then 0 else x >>> UInt64.ofNat n

def ofInt8 (i : Int) : UInt8 := UInt8.ofNat (i % 256).toNat
def ofInt16 (i : Int) : UInt16 := UInt16.ofNat (i % 65536).toNat
def ofInt32 (i : Int) : UInt32 := UInt32.ofNat (i % 4294967296).toNat
def ofInt64 (i : Int) : UInt64 := UInt64.ofNat (i % 18446744073709551616).toNat

/-- `buf[i]` for a Go `[]byte` and an `int` index: `none` when Go would panic (negative or ≥ len) -/
def idx? (a : Array UInt8) (i : Int) : Option UInt8 := if i < 0 then none else a[i.toNat]?

end Sipsp.GoSem
