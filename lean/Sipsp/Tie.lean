/-
  Sipsp.Tie — ties the constants hard-wired in the hand-written model to the constants REGENERATED
  from the Go sources on every run (Sipsp.Generated.Facts). If a constant of the source changes, this
  file stops building and every property check reports it.
-/
import Sipsp.Model.Sig
import Sipsp.Model.URI

namespace Sipsp.Tie
open Sipsp

/-- error codes -/
theorem errs : [Err.ok, .eoh, .empty, .moreBytes, .moreValues, .noCR, .badChar, .params, .bad, .valNotNumber,
      .valTooLong, .valBad, .numTooBig, .trunc, .noCLen, .bug, .convBug, .tooManyVals].map Err.toNat =
    [Gen.C.ErrHdrOk, Gen.C.ErrHdrEOH, Gen.C.ErrHdrEmpty, Gen.C.ErrHdrMoreBytes, Gen.C.ErrHdrMoreValues,
     Gen.C.ErrHdrNoCR, Gen.C.ErrHdrBadChar, Gen.C.ErrHdrParams, Gen.C.ErrHdrBad, Gen.C.ErrHdrValNotNumber,
     Gen.C.ErrHdrValTooLong, Gen.C.ErrHdrValBad, Gen.C.ErrHdrNumTooBig, Gen.C.ErrHdrTrunc, Gen.C.ErrHdrNoCLen,
     Gen.C.ErrHdrBug, Gen.C.ErrConvBug, Gen.C.ErrHdrTooManyVals] := by decide

theorem uerrs : [UErr.none, .badChar, .scheme, .host, .port, .headers, .tooShort, .bad, .bug].map UErr.toNat =
    [Gen.C.NoURIErr, Gen.C.ErrURIBadChar, Gen.C.ErrURIScheme, Gen.C.ErrURIHost, Gen.C.ErrURIPort,
     Gen.C.ErrURIHeaders, Gen.C.ErrURITooShort, Gen.C.ErrURIBad, Gen.C.ErrURIBug] := by decide

theorem hdrTypes : [HdrNone, HdrFrom, HdrTo, HdrCallID, HdrCSeq, HdrVia, HdrMaxFwd, HdrCLen, HdrContact, HdrExpires,
      HdrUA, HdrRecordRoute, HdrRoute, HdrPAI, HdrOther] =
    [Gen.C.HdrNone, Gen.C.HdrFrom, Gen.C.HdrTo, Gen.C.HdrCallID, Gen.C.HdrCSeq, Gen.C.HdrVia, Gen.C.HdrMaxFwd,
     Gen.C.HdrCLen, Gen.C.HdrContact, Gen.C.HdrExpires, Gen.C.HdrUA, Gen.C.HdrRecordRoute, Gen.C.HdrRoute,
     Gen.C.HdrPAI, Gen.C.HdrOther] := by decide

theorem methods : [MUndef, MInvite, MOther] = [Gen.C.MUndef, Gen.C.MInvite, Gen.C.MOther] := by decide

theorem popts : [POptTokCommaTermF, POptTokQmTermF, POptTokSpTermF, POptInputEndF, POptParamSemiSepF,
      POptParamAmpSepF, POptTokURIParamF, POptTokURIHdrF] =
    [Gen.C.POptTokCommaTermF, Gen.C.POptTokQmTermF, Gen.C.POptTokSpTermF, Gen.C.POptInputEndF,
     Gen.C.POptParamSemiSepF, Gen.C.POptParamAmpSepF, Gen.C.POptTokURIParamF, Gen.C.POptTokURIHdrF] := by decide

theorem msgFlags : [SIPMsgSkipBodyF, SIPMsgCLenReqF, SIPMsgNoMoreDataF] =
    [Gen.C.SIPMsgSkipBodyF, Gen.C.SIPMsgCLenReqF, Gen.C.SIPMsgNoMoreDataF] := by decide

theorem uriParamFlags : [URIParamNone, URIParamTransportF, URIParamUserF, URIParamMethodF, URIParamTTLF,
      URIParamMaddrF, URIParamLRF, URIParamOtherF] =
    [Gen.C.URIParamNone, Gen.C.URIParamTransportF, Gen.C.URIParamUserF, Gen.C.URIParamMethodF,
     Gen.C.URIParamTTLF, Gen.C.URIParamMaddrF, Gen.C.URIParamLRF, Gen.C.URIParamOtherF] := by decide

theorem uriCmpFlags : [URICmpSkipPort, URICmpSkipScheme, URICmpSkipUser, URICmpSkipPass, URICmpSkipParams,
      URICmpSkipHeaders] =
    [Gen.C.URICmpSkipPort, Gen.C.URICmpSkipScheme, Gen.C.URICmpSkipUser, Gen.C.URICmpSkipPass,
     Gen.C.URICmpSkipParams, Gen.C.URICmpSkipHeaders] := by decide

theorem uriTypes : [INVALIDuri, SIPuri, SIPSuri, TELuri] =
    [Gen.C.INVALIDuri, Gen.C.SIPuri, Gen.C.SIPSuri, Gen.C.TELuri] := by decide

theorem sigFlags : [SigIPStartF, SigIPEndF, SigIPMiddleF, SigHasAtF, SigHasDotF, SigHasColonF, SigHasDashF,
      SigHasStarF, SigHasDivF, SigHasPlusF, SigHasEqF, SigHasUnderF, SigHasPipeF, SigHexEncF, SigB64EncF,
      SigDigBlocksF] =
    [Gen.C.SigIPStartF, Gen.C.SigIPEndF, Gen.C.SigIPMiddleF, Gen.C.SigHasAtF, Gen.C.SigHasDotF,
     Gen.C.SigHasColonF, Gen.C.SigHasDashF, Gen.C.SigHasStarF, Gen.C.SigHasDivF, Gen.C.SigHasPlusF,
     Gen.C.SigHasEqF, Gen.C.SigHasUnderF, Gen.C.SigHasPipeF, Gen.C.SigHexEncF, Gen.C.SigB64EncF,
     Gen.C.SigDigBlocksF] := by decide

theorem limits : [MaxCLenValueSize, MaxClenValue, MaxCSeqNValueSize, HdrSigIdCMask, viaBrFlags] =
    [Gen.C.MaxCLenValueSize, Gen.C.MaxClenValue, Gen.C.MaxCSeqNValueSize, Gen.C.HdrSigIdCMask,
     Gen.C.GetViaBrSig_flags] := by decide

theorem maxCSeq : Gen.C.MaxCSeqNValue = 4294967295 := by decide

theorem sipVer : Gen.byteLits.lookup "sipVerSP" = some sipVerSP := by decide

/-- internal state numbering is not observable, but the states themselves must still exist -/
theorem hdrLineStates : [Gen.C.ParseHdrLine_hInit, Gen.C.ParseHdrLine_hFIN] = [0, 14] := by decide
theorem tokParamStates : [Gen.C.ParseTokenParam_paramInit, Gen.C.ParseTokenParam_paramFIN] = [0, 10] := by decide

/-- no shared mutable state: no write to a package-level variable outside init(), no goroutines -/
theorem noSharedWrites : Gen.pkgVarWrites = [] ∧ Gen.goStmts = [] := by decide

theorem noUnsafeOrSync : (Gen.imports.filter (fun s => s == "unsafe" || s == "sync" || s == "sync/atomic")) = [] := by decide

end Sipsp.Tie
