/-
  Sipsp.Driver.Obs — canonical printing of observations (what a caller can read through the
  exported API). The Go harness (harness/export/zz_verif_exec.go) prints exactly the same text.
-/
import Sipsp.Model.Sig
import Sipsp.Model.URI

namespace Sipsp.Obs
open Sipsp

def b01 (b : Bool) : String := if b then "1" else "0"
def pf (f : PField) : String := s!"{f.offs}:{f.len}"

def fline (l : PFLine) : String :=
  s!"st={l.status} mn={l.methodNo} m={pf l.method} u={pf l.uri} v={pf l.version} sc={pf l.statusCode} r={pf l.reason} rq={b01 l.request} pa={b01 l.parsed} pn={b01 l.pending} em={b01 l.isEmpty}"

def fromBody (f : PFromBody) : String :=
  s!"n={pf f.name} u={pf f.uri} t={pf f.tag} star={b01 f.star} lr={b01 f.lr} he={b01 f.hasExpires} ty={f.type} q={f.q} ex={f.expires} p={pf f.params} v={pf f.v} pe={f.paramErr.name} eo={f.errOffs} pa={b01 f.parsed} pn={b01 f.pending} em={b01 f.isEmpty}"

def cseq (c : PCSeqBody) : String :=
  s!"no={c.cseqNo} mn={c.methodNo} cs={pf c.cseq} m={pf c.method} v={pf c.v} pa={b01 c.parsed} em={b01 (c.state == .init)}"

def callid (c : PCallIDBody) : String :=
  s!"id={pf c.callID} pa={b01 c.parsed} em={b01 (c.state == .init)}"

def uint (c : PUIntBody) : String :=
  s!"ui={c.uiVal} sv={pf c.sVal} pa={b01 c.parsed} em={b01 (c.state == .init)}"

def tokparam (p : PTokParam) : String :=
  s!"all={pf p.all} name={pf p.name} val={pf p.val} em={b01 p.isEmpty}"

def optFrom : Option PFromBody → String
  | none => "nil"
  | some f => "{" ++ fromBody f ++ "}"

def contacts (c : PContacts) : String :=
  let vals := (List.range c.vNo).map (fun k => optFrom (c.getContact k))
  let lastK := if c.n > 0 then optFrom (c.getContact (c.n - 1)) else "nil"
  s!"N={c.n} HNo={c.hNo} max={c.maxExpires} min={c.minExpires} lh={pf c.lastHVal} vno={c.vNo} more={b01 c.more} em={b01 c.isEmpty} pa={b01 c.parsed} vals=[{" ".intercalate vals}] first={optFrom (c.getContact 0)} last={lastK}"

def pais (c : PPAIs) : String :=
  let vals := (List.range c.vNo).map (fun k => optFrom (c.getPAI k))
  s!"N={c.n} HNo={c.hNo} lh={pf c.lastHVal} vno={c.vNo} more={b01 c.more} em={b01 c.isEmpty} pa={b01 c.parsed} vals=[{" ".intercalate vals}]"

def hdr (h : Hdr) : String := s!"ty={h.type} n={pf h.name} v={pf h.val}"

def optHdr : Option Hdr → String
  | none => "nil"
  | some h => "{" ++ hdr h ++ "}"

def hdrlst (hl : HdrLst) : String :=
  let stored := (List.range (min hl.n hl.hdrs.size)).map (fun k => optHdr hl.hdrs[k]?)
  let firsts := (List.range 13).map (fun k => optHdr (hl.getHdr (k + 1)))
  -- the exported flag predicates: Test(t) for t = 0..14, Any(From, To), AllSet(From, To, Call-ID, CSeq)
  let tf := String.ofList ((List.range 15).map (fun t => if hl.pflags.testBit t then '1' else '0'))
  let any := hl.pflags.testBit 1 || hl.pflags.testBit 2
  let all := hl.pflags.testBit 1 && hl.pflags.testBit 2 && hl.pflags.testBit 3 && hl.pflags.testBit 4
  s!"pf={hl.pflags} tf={tf} any={b01 any} all={b01 all} N={hl.n} cap={hl.hdrs.size} hdrs=[{" ".intercalate stored}] first=[{" ".intercalate firsts}]"

def hdrvals (hv : PHdrVals) : String :=
  let me := hv.maxExpires
  "from={" ++ fromBody hv.from_ ++ "} to={" ++ fromBody hv.to ++ "} callid={" ++ callid hv.callid ++
  "} cseq={" ++ cseq hv.cseq ++ "} clen={" ++ uint hv.clen ++ "} contacts={" ++ contacts hv.contacts ++
  "} pais={" ++ pais hv.pais ++ "} expires={" ++ uint hv.expires ++ "} maxexp=" ++ s!"{me.1},{b01 me.2}"

def msg (m : PSIPMsg) : String :=
  "fl={" ++ fline m.fl ++ "} pv={" ++ hdrvals m.pv ++ "} hl={" ++ hdrlst m.hl ++ "} " ++
  s!"body={pf m.body} buf={m.bufLen} raw={m.rawOffs}:{m.rawLen} pa={b01 m.parsed} er={b01 m.isErr} rq={b01 m.request} mth={m.method}"

def uriparam (p : URIParam) : String := "{" ++ tokparam p.param ++ s!" t={p.t}" ++ "}"

def uriparams (l : URIParamsLst) : String :=
  let stored := (List.range l.pNo).map (fun k => match l.params[k]? with | some p => uriparam p | none => "nil")
  s!"N={l.n} types={l.types} pno={l.pNo} more={b01 l.more} em={b01 l.isEmpty} params=[{" ".intercalate stored}]"

def urihdrs (l : URIHdrsLst) : String :=
  let stored := (List.range l.hNo).map (fun k => match l.hdrs[k]? with | some p => "{" ++ tokparam p ++ "}" | none => "nil")
  s!"N={l.n} hno={l.hNo} more={b01 l.more} em={b01 l.isEmpty} hdrs=[{" ".intercalate stored}]"

def uri (u : PsipURI) : String :=
  s!"ty={u.uriType} sch={pf u.scheme} user={pf u.user} pass={pf u.pass} host={pf u.host} port={pf u.port} params={pf u.params} hdrs={pf u.headers} pno={u.portNo}"

def msgsig (s : MsgSig) : String :=
  s!"m={s.method} cl={s.cidSLen} cs={s.cidSig} fs={s.fromSig} vs={s.viaBSig} hs={s.hdrSig} str={s.toStr}"

end Sipsp.Obs
