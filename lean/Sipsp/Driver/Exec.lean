/-
  Sipsp.Driver.Exec — interpreter of the session line protocol on the MODEL.
  One input line = one session; one output line. See harness/PROTOCOL.md.
-/
import Sipsp.Driver.Obs

namespace Sipsp.Exec
open Sipsp

def hexVal (c : Char) : Nat :=
  if '0' ≤ c ∧ c ≤ '9' then c.toNat - 48
  else if 'a' ≤ c ∧ c ≤ 'f' then c.toNat - 87
  else if 'A' ≤ c ∧ c ≤ 'F' then c.toNat - 55 else 0

def unhexAux : List Char → Array UInt8 → Array UInt8
  | a :: b :: rest, acc => unhexAux rest (acc.push (UInt8.ofNat (hexVal a * 16 + hexVal b)))
  | _, acc => acc

/-- "-" denotes the empty buffer -/
def unhex (s : String) : Buf := if s == "-" then #[] else unhexAux s.toList #[]

def natOf (s : String) : Nat := s.toNat?.getD 0

/-- capacity argument: "-" = nil -/
def capOf (s : String) : Option Nat := if s == "-" then none else some (natOf s)

def res (o : Nat) (e : Err) : String := s!"{o},{e.name}"

inductive Obj where
  | msg (m : PSIPMsg) (hcap ccap : Option Nat)
  | fline (l : PFLine)
  | hdrline (h : Hdr) (hb : Option PHdrVals)
  | headers (hl : HdrLst) (hb : Option PHdrVals)
  | nameaddr (t : Nat) (f : PFromBody)
  | pai1 (f : PFromBody)
  | contacts (c : PContacts)
  | pais (c : PPAIs)
  | cseq (c : PCSeqBody)
  | callid (c : PCallIDBody)
  | uint (c : PUIntBody)
  | clen (c : PUIntBody)
  | tokparam (p : PTokParam)
  | uriparams (l : URIParamsLst)
  | urihdrs (l : URIHdrsLst)
  | uri (u : PsipURI)
  | skipq
  | none

structure Sess where
  obj : Obj
  buf : Buf := #[]
  last : Nat := 0
  out : Array String := #[]
  dead : Bool := false
  /-- the last parse call returned an error verdict: the object must not be continued (only reset) -/
  stop : Bool := false

/-- the verdict of a parse output `offs,[n,]verdict`: an error = an `ErrHdr…` name other than the five "going on" ones -/
def isErrOut (out : String) : Bool :=
  let v := (out.splitOn ",").getLast!
  v.startsWith "ErrHdr" &&
    !(v == "ErrHdrOk" || v == "ErrHdrMoreBytes" || v == "ErrHdrMoreValues" || v == "ErrHdrEOH" || v == "ErrHdrEmpty")

def mkArr {α : Type} (n : Nat) (z : α) : Array α := Array.replicate n z

def newObj (toks : List String) : Obj :=
  match toks with
  | ["msg", h, c] =>
    let m : PSIPMsg := {}
    .msg (m.init 0 ((capOf h).map (mkArr · {})) ((capOf c).map (mkArr · {}))) (capOf h) (capOf c)
  | ["msgz"] => .msg {} (some 0) (some 0)
  | ["fline"] => .fline {}
  | ["hdrline", hb, c] =>
    .hdrline {} (if hb == "1" then some { contacts := { vals := mkArr (natOf c) {} } } else none)
  | ["headers", h, hb, c] =>
    .headers { hdrs := mkArr (natOf h) {} }
      (if hb == "1" then some { contacts := { vals := mkArr (natOf c) {} } } else none)
  | ["nameaddr", t] => .nameaddr (natOf t) {}
  | ["pai1"] => .pai1 {}
  | ["contacts", c] => .contacts { vals := mkArr (natOf c) {} }
  | ["pais"] => .pais {}
  | ["cseq"] => .cseq {}
  | ["callid"] => .callid {}
  | ["uint"] => .uint {}
  | ["clen"] => .clen {}
  | ["tokparam"] => .tokparam {}
  | ["uriparams", c] => .uriparams { params := mkArr (natOf c) {} }
  | ["urihdrs", c] => .urihdrs { hdrs := mkArr (natOf c) {} }
  | ["uri"] => .uri {}
  | ["skipq"] => .skipq
  | _ => .none

def hbPanicked : Option PHdrVals → Bool
  | none => false
  | some hv => hv.from_.pnc || hv.to.pnc || hv.callid.pnc || hv.cseq.pnc || hv.clen.pnc || hv.expires.pnc ||
               hv.contacts.pnc || hv.pais.pnc || hv.contacts.vals.any (·.pnc) || hv.contacts.last.pnc ||
               hv.pais.vals.any (·.pnc) || hv.pais.last.pnc

def hlPanicked (hl : HdrLst) : Bool := hl.hdrs.any (·.pnc) || hl.hdr.pnc

def msgPanicked (m : PSIPMsg) : Bool :=
  m.pnc || m.fl.pnc || hlPanicked m.hl || hbPanicked (some m.pv)

/-- parse op: returns (output, new object, panicked) -/
def doParse (o : Obj) (b : Buf) (offs flags : Nat) : String × Obj × Nat × Bool :=
  match o with
  | .msg m h c =>
    match parseSIPMsg b offs m flags with
    | (n, e, m') => (res n e, .msg m' h c, n, msgPanicked m')
  | .fline l =>
    match parseFLine b offs l with
    | (n, e, l') => (res n e, .fline l', n, l'.pnc)
  | .hdrline h hb =>
    match parseHdrLine b offs h hb with
    | (n, e, h', hb') => (res n e, .hdrline h' hb', n, h'.pnc || hbPanicked hb')
  | .headers hl hb =>
    match parseHeaders b offs hl hb with
    | (n, e, hl', hb') => (res n e, .headers hl' hb', n, hlPanicked hl' || hbPanicked hb')
  | .nameaddr t f =>
    match parseNameAddrPVal t b offs f with
    | (n, e, f') => (res n e, .nameaddr t f', n, f'.pnc)
  | .pai1 f =>
    match parseOnePAI b offs f with
    | (n, e, f') => (res n e, .pai1 f', n, f'.pnc)
  | .contacts c =>
    match parseAllContactValues b offs c with
    | (n, e, c') => (res n e, .contacts c', n, c'.pnc || c'.vals.any (·.pnc) || c'.last.pnc)
  | .pais c =>
    match parseAllPAIValues b offs c with
    | (n, e, c') => (res n e, .pais c', n, c'.pnc || c'.vals.any (·.pnc) || c'.last.pnc)
  | .cseq c =>
    match parseCSeqVal b offs c with
    | (n, e, c') => (res n e, .cseq c', n, c'.pnc)
  | .callid c =>
    match parseCallIDVal b offs c with
    | (n, e, c') => (res n e, .callid c', n, c'.pnc)
  | .uint c =>
    match parseUIntVal b offs c with
    | (n, e, c') => (res n e, .uint c', n, c'.pnc)
  | .clen c =>
    match parseCLenVal b offs c with
    | (n, e, c') => (res n e, .clen c', n, c'.pnc)
  | .tokparam p =>
    match parseTokenParam b offs p flags with
    | (n, e, p') => (res n e, .tokparam p', n, p'.pnc)
  | .uriparams l =>
    match parseAllURIParams b offs l flags with
    | (n, v, e, l') => (s!"{n},{v},{e.name}", .uriparams l', n,
                        l'.pnc || l'.params.any (·.param.pnc) || l'.tmp.param.pnc)
  | .urihdrs l =>
    match parseAllURIHdrs b offs l flags with
    | (n, v, e, l') => (s!"{n},{v},{e.name}", .urihdrs l', n, l'.hdrs.any (·.pnc) || l'.tmp.pnc)
  | .uri u =>
    match parseURI b u with
    | (e, p, u', pn) => (s!"{e.name},{p}", .uri u', p, pn)
  | .skipq =>
    match skipQuoted b offs with
    | (n, e) => (res n e, .skipq, n, false)
  | .none => ("?", .none, 0, false)

def doReset (o : Obj) : Obj :=
  match o with
  | .msg m h c => .msg m.reset h c
  | .fline _ => .fline {}
  | .hdrline _ hb => .hdrline {} (hb.map (·.reset))
  | .headers hl hb => .headers hl.reset (hb.map (·.reset))
  | .nameaddr t _ => .nameaddr t {}
  | .pai1 _ => .pai1 {}
  | .contacts c => .contacts c.reset
  | .pais c => .pais c.reset
  | .cseq _ => .cseq {}
  | .callid _ => .callid {}
  | .uint _ => .uint {}
  | .clen _ => .clen {}
  | .tokparam _ => .tokparam {}
  | .uriparams l => .uriparams l.reset
  | .urihdrs l => .urihdrs l.reset
  | .uri _ => .uri {}
  | .skipq => .skipq
  | .none => .none

/-- `I`: msg.Init(B, same arrays…) / PHdrVals.Init(same contacts array) -/
def doInit (o : Obj) (b : Buf) : Obj :=
  match o with
  | .msg m h c =>
    -- Go's Init calls Reset first, which clears the caller's arrays in place
    let m1 := m.reset
    let hd : Option (Array Hdr) := h.map (fun _ => m1.hl.hdrs)
    let ct : Option (Array PFromBody) := c.map (fun _ => m1.pv.contacts.vals)
    .msg (m.init b.size hd ct) h c
  | .hdrline _ hb => .hdrline {} (hb.map (fun hv => hv.init hv.reset.contacts.vals))
  | .headers hl hb => .headers hl.reset (hb.map (fun hv => hv.init hv.reset.contacts.vals))
  | o => doReset o

def doObs (o : Obj) : String :=
  match o with
  | .msg m _ _ => Obs.msg m
  | .fline l => Obs.fline l
  | .hdrline h hb => Obs.hdr h ++ (match hb with | some hv => " pv={" ++ Obs.hdrvals hv ++ "}" | none => "")
  | .headers hl hb => Obs.hdrlst hl ++ (match hb with | some hv => " pv={" ++ Obs.hdrvals hv ++ "}" | none => "")
  | .nameaddr _ f => Obs.fromBody f
  | .pai1 f => Obs.fromBody f
  | .contacts c => Obs.contacts c
  | .pais c => Obs.pais c
  | .cseq c => Obs.cseq c
  | .callid c => Obs.callid c
  | .uint c => Obs.uint c
  | .clen c => Obs.uint c
  | .tokparam p => Obs.tokparam p
  | .uriparams l => Obs.uriparams l
  | .urihdrs l => Obs.urihdrs l
  | .uri u => Obs.uri u
  | .skipq => "-"
  | .none => "?"

def fieldStr (b : Buf) (f : PField × Bool) : String :=
  if f.2 then "PANIC" else
    match f.1.get? b with
    | some _ => Obs.pf f.1
    | none => Obs.pf f.1 ++ "!"

def step (s : Sess) (op : List String) : Sess :=
  if s.dead then s else
  match op with
  | ["B", h] => { s with buf := unhex h }
  | ["P", len, offs, flags] =>
    -- continuing an object after an error verdict (without Reset / Init) is outside every property's domain
    if offs == "c" && s.stop then { s with out := s.out.push "skipped-after-error" } else
    let b := s.buf.extract 0 (natOf len)
    let o := if offs == "c" then s.last else natOf offs
    let (out, obj, n, p) := doParse s.obj b o (natOf flags)
    if p then { s with out := s.out.push "PANIC", dead := true }
    else { s with out := s.out.push out, obj := obj, last := n, stop := isErrOut out }
  | ["R"] => { s with obj := doReset s.obj, stop := false }
  | ["I"] => { s with obj := doInit s.obj s.buf, stop := false }
  | ["O"] => { s with out := s.out.push (doObs s.obj) }
  | ["G"] =>
    match s.obj with
    | .msg m _ _ =>
      let (sg, e, p) := getMsgSig m s.buf
      if p then { s with out := s.out.push "PANIC", dead := true }
      else { s with out := s.out.push (Obs.msgsig sg ++ s!" err={e.name}") }
    | _ => s
  | ["A", offs, len] =>   -- uri: AdjustOffs
    match s.obj with
    | .uri u =>
      let (ok, u', p) := u.adjustOffs ⟨natOf offs, natOf len⟩
      if p then { s with out := s.out.push "PANIC", dead := true }
      else { s with out := s.out.push (Obs.b01 ok), obj := .uri u' }
    | _ => s
  | ["T"] =>
    match s.obj with
    | .uri u => { s with obj := .uri u.truncate }
    | _ => s
  | ["V"] =>   -- uri views against the current buffer
    match s.obj with
    | .uri u =>
      let sh := u.short
      let lg := u.long
      if sh.2 || lg.2 then { s with out := s.out.push "PANIC", dead := true }
      else
        match u.flat s.buf with
        | none => { s with out := s.out.push "PANIC", dead := true }
        | some fl => { s with out := s.out.push s!"short={Obs.pf sh.1} long={Obs.pf lg.1} flat={fl.size}" }
    | _ => s
  | _ => { s with out := s.out.push "?op" }

def ipStr (a : Array Nat) : String := ".".intercalate (a.toList.map toString)

/-- a zeroed `d`-byte result buffer after `copy(dst, ip[:])` of a 4-byte address -/
def dst4 (ip : Array Nat) (d : Nat) : String :=
  ".".intercalate (((ip.toList.take (min d 4)) ++ List.replicate (d - min d 4) 0).map toString)

/-- a zeroed `d`-byte result buffer after the IPv6 store (only done when `d ≥ 16`): eight big-endian 16-bit groups -/
def dst6 (a : Array Nat) (d : Nat) : String :=
  let bytes := if d ≥ 16 then (a.toList.take 8).flatMap (fun g => [g / 256 % 256, g % 256]) ++ List.replicate (d - 16) 0
               else List.replicate d 0
  ".".intercalate (bytes.map toString)

/-- stateless function kinds -/
def runFunc (toks : List String) : Option String :=
  match toks with
  | ["skipquoted", h, len, offs] =>
    let b := (unhex h).extract 0 (natOf len)
    let r := skipQuoted b (natOf offs)
    some (res r.1 r.2)
  | ["hdrtype", h] => some (toString (getHdrType (unhex h)))
  | ["methodno", h] => some (toString (getMethodNo (unhex h)))
  | ["methodname", n] => some (String.ofList ((methodName (natOf n)).map (fun c => Char.ofNat c.toNat)))
  | ["uriparamresolve", h] => some (toString (uriParamResolve (unhex h)))
  | ["ip4prefix", h] =>
    let (ok, n, e, ip) := ip4Prefix (unhex h)
    some (s!"{Obs.b01 ok},{n},{e.name}" ++ (if ok then "," ++ ipStr ip else ""))
  | ["containsip4", h] =>
    match containsIP4 (unhex h) with
    | some (o, l, ip) => some s!"1,{o},{l},{ipStr ip}"
    | none => some "0,0,0"
  -- the same functions with a caller-supplied result buffer of `d` bytes: Go's `copy(dst, ip[:])` fills the first
  -- min(d,4) bytes (IPv4); the IPv6 functions fill the buffer only when it has at least 16 bytes
  | ["ip4prefixd", h, d] =>
    let (ok, n, e, ip) := ip4Prefix (unhex h)
    some (s!"{Obs.b01 ok},{n},{e.name}" ++ (if ok then ",dst=" ++ dst4 ip (natOf d) else ""))
  | ["containsip4d", h, d] =>
    match containsIP4 (unhex h) with
    | some (o, l, ip) => some (s!"1,{o},{l},dst=" ++ dst4 ip (natOf d))
    | none => some "0,0,0"
  | ["ip6prefixd", h, d] =>
    let (ok, n, e, a, p) := ip6Prefix (unhex h)
    if p then some "PANIC" else
    some (s!"{Obs.b01 ok},{n},{e.name}" ++ (if ok then ",dst=" ++ dst6 a (natOf d) else ""))
  | ["containsip6d", h, d] =>
    match containsIP6 (unhex h) with
    | some (_, _, _, true) => some "PANIC"
    | some (o, l, a, _) => some (s!"1,{o},{l},dst=" ++ dst6 a (natOf d))
    | none => some "0,0,0"
  | ["ip6prefix", h] =>
    let (ok, n, e, a, p) := ip6Prefix (unhex h)
    if p then some "PANIC" else
    some (s!"{Obs.b01 ok},{n},{e.name}" ++ (if ok then "," ++ ipStr a else ""))
  | ["containsip6", h] =>
    match containsIP6 (unhex h) with
    | some (_, _, _, true) => some "PANIC"
    | some (o, l, a, _) => some s!"1,{o},{l},{ipStr a}"
    | none => some "0,0,0"
  | ["strsig", h, so, sl] =>
    let (sg, sk) := getStrCharsSig (unhex h) (natOf so) (natOf sl)
    some s!"{sg},{sk}"
  | ["callidsig", h] =>
    let (sg, l, p) := getCallIDSig (unhex h)
    if p then some "PANIC" else some s!"{sg},{l}"
  | ["viabrsig", h] =>
    let (sg, l, p) := getViaBrSig (unhex h)
    if p then some "PANIC" else some s!"{sg},{l}"
  | ["hdrsigid", t, nl] =>
    let (s, e) := getHdrSigId { type := natOf t, name := ⟨0, natOf nl⟩ }
    some s!"{s},{e.name}"
  | ["tokallowed", fl] =>
    some (String.ofList ((List.range 256).map (fun c => if tokAllowedChar (UInt8.ofNat c) (natOf fl) then '1' else '0')))
  | ["lower"] =>
    some (" ".intercalate ((List.range 256).map (fun c => toString (byteToLower (UInt8.ofNat c)).toNat)))
  | ["cmpeq", a, b] => some (Obs.b01 (cmpEq (unhex a) (unhex b)))
  | ["lws", h, len, offs, fl] =>
    let b := (unhex h).extract 0 (natOf len)
    let (n, crl, e) := skipLWS b (natOf offs) (natOf fl)
    some s!"{n},{crl},{e.name}"
  | ["crlf", h, len, offs] =>
    let b := (unhex h).extract 0 (natOf len)
    let (n, crl, e) := skipCRLF b (natOf offs)
    some s!"{n},{crl},{e.name}"
  | ["uriparamseq", a, oa, b, ob] =>
    match uriParamsEq (unhex a) (natOf oa) (unhex b) (natOf ob) with
    | some (r, e) => some s!"{Obs.b01 r},{e.name}"
    | none => some "PANIC"
  | ["urihdrseq", a, oa, b, ob] =>
    match uriHdrsEq (unhex a) (natOf oa) (unhex b) (natOf ob) with
    | some (r, e) => some s!"{Obs.b01 r},{e.name}"
    | none => some "PANIC"
  | _ => none

/-- `uricmp <flags> <hex1> <hex2> [<hex1> <hex2> …]`: URIParseCmp with out-parameters that are reused
    for every pair of the session, URIRawCmp, and separate ParseURI + URICmp. -/
def runURICmp (flags : Nat) : List String → PsipURI → PsipURI → List String → List String
  | a :: b :: rest, r1, r2, acc =>
    let ra := unhex a
    let rb := unhex b
    match uriParseCmp ra rb flags with
    | none => acc ++ ["PANIC"]
    | some (r, e, w, o1, o2) =>
      let r1' := o1.getD r1
      let r2' := o2.getD r2
      let sep : String :=
        match parseURI ra {}, parseURI rb {} with
        | (.none, _, u1, false), (.none, _, u2, false) =>
          match uriCmp u1 ra u2 rb flags with
          | some x => Obs.b01 x
          | none => "PANIC"
        | _, _ => "-"
      let line := s!"{Obs.b01 r},{e.name},{w} r1=" ++ "{" ++ Obs.uri r1' ++ "} r2={" ++ Obs.uri r2' ++ "} sep=" ++ sep
      runURICmp flags rest r1' r2' (acc ++ [line])
  | _, _, _, acc => acc

def splitOps (line : String) : List (List String) :=
  (line.splitOn " | ").map (fun seg => (seg.splitOn " ").filter (· != ""))

def runLine (line : String) : String :=
  match splitOps line with
  | [] => ""
  | hd :: ops =>
    match hd with
    | "uricmp" :: fl :: pairs => " | ".intercalate (runURICmp (natOf fl) pairs {} {} [])
    | _ =>
      match runFunc hd with
      | some r => r
      | none =>
        let s0 : Sess := { obj := newObj hd }
        let s := ops.foldl step s0
        " | ".intercalate s.out.toList

end Sipsp.Exec
