/-
  Sipsp.Spec.Tables — the classification tables AS STATED BY PROPERTY C16 (fixed here by hand; NOT
  regenerated from the source: the regenerated tables are `Sipsp.Gen.hdrName2Type` / `Sipsp.Gen.method2Name`).
-/
namespace Sipsp.Spec

/-- header names of C16 (lower case bytes, HdrT number): From/f To/t Call-ID/i CSeq Via/v Max-Forwards
    Content-Length/l Contact/m Expires User-Agent Record-Route Route P-Asserted-Identity -/
def hdrTable : List (List UInt8 × Nat) := [
  ([102, 114, 111, 109], 1) /- from -/,
  ([102], 1) /- f -/,
  ([116, 111], 2) /- to -/,
  ([116], 2) /- t -/,
  ([99, 97, 108, 108, 45, 105, 100], 3) /- call-id -/,
  ([105], 3) /- i -/,
  ([99, 115, 101, 113], 4) /- cseq -/,
  ([118, 105, 97], 5) /- via -/,
  ([118], 5) /- v -/,
  ([109, 97, 120, 45, 102, 111, 114, 119, 97, 114, 100, 115], 6) /- max-forwards -/,
  ([99, 111, 110, 116, 101, 110, 116, 45, 108, 101, 110, 103, 116, 104], 7) /- content-length -/,
  ([108], 7) /- l -/,
  ([99, 111, 110, 116, 97, 99, 116], 8) /- contact -/,
  ([109], 8) /- m -/,
  ([101, 120, 112, 105, 114, 101, 115], 9) /- expires -/,
  ([117, 115, 101, 114, 45, 97, 103, 101, 110, 116], 10) /- user-agent -/,
  ([114, 101, 99, 111, 114, 100, 45, 114, 111, 117, 116, 101], 11) /- record-route -/,
  ([114, 111, 117, 116, 101], 12) /- route -/,
  ([112, 45, 97, 115, 115, 101, 114, 116, 101, 100, 45, 105, 100, 101, 110, 116, 105, 116, 121], 13) /- p-asserted-identity -/
]

/-- method names of C16 (exact upper case bytes, SIPMethod number) -/
def mthTable : List (List UInt8 × Nat) := [
  ([82, 69, 71, 73, 83, 84, 69, 82], 1) /- REGISTER -/,
  ([73, 78, 86, 73, 84, 69], 2) /- INVITE -/,
  ([65, 67, 75], 3) /- ACK -/,
  ([66, 89, 69], 4) /- BYE -/,
  ([80, 82, 65, 67, 75], 5) /- PRACK -/,
  ([67, 65, 78, 67, 69, 76], 6) /- CANCEL -/,
  ([79, 80, 84, 73, 79, 78, 83], 7) /- OPTIONS -/,
  ([83, 85, 66, 83, 67, 82, 73, 66, 69], 8) /- SUBSCRIBE -/,
  ([78, 79, 84, 73, 70, 89], 9) /- NOTIFY -/,
  ([85, 80, 68, 65, 84, 69], 10) /- UPDATE -/,
  ([73, 78, 70, 79], 11) /- INFO -/,
  ([82, 69, 70, 69, 82], 12) /- REFER -/,
  ([80, 85, 66, 76, 73, 83, 72], 13) /- PUBLISH -/,
  ([77, 69, 83, 83, 65, 71, 69], 14) /- MESSAGE -/
]

end Sipsp.Spec
