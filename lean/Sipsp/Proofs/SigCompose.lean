/-
  Sipsp.Proofs.SigCompose — the message signature after ANY way of parsing (composition lemmas for C04 and C19).

  All statements are about the model (`parseSIPMsg`, `getMsgSigCore`, `PSIPMsg.init`, `PSIPMsg.reset`); no size bound other
  than the documented 65,535-byte limit where the re-used theorems need it.

  (1) [C04] GetMsgSig never panics after a successful parse, whatever happened to the object before.
      Invariants: `ScMsg` (header list: the slots after the current one are untouched, and the current one has no type
      while in its initial state; once the header section is finished: every unfilled slot has type 0 = `ScDone`) and
      `ScCt` (contacts: the entries above the one in progress are untouched).
      * `ScMsg_init`, `ScMsg_reset`, `ScCt_init`: established by Init (of any object, cleared caller arrays of any
        capacity or none) and by Reset (of any object);
      * `sc_parseSIPMsg`, `sc_ct_parseSIPMsg`: preserved by EVERY ParseSIPMsg call — any buffer, offset, flags, verdict
        (complete, suspended, failed, called again after an error, on an unrelated buffer); after OK: `ScDone`;
        `sc_resumeRun` the same for chains of resumed calls; `ScReach` / `ScReach.inv`: for every history;
      * `sc_getMsgSig_safe`: `getMsgSig_after_parse` without its hypothesis on the unused slots;
        `sc_getMsgSig_safe_history` (any history, last call legitimate), `sc_getMsgSig_safe_init` (first call after
        Init), `sc_getMsgSig_safe_schedule` (every chunk schedule from Init ending with OK; also on any extension of
        the buffer, `sc_getMsgSig_ext`);
      * `sc_reset_after_history`: Reset after any history IS an Init object, hence `sc_reset_legit`,
        `sc_getMsgSig_safe_reset`, `sc_getMsgSig_safe_reset_schedule` with no legitimacy hypothesis left.
  (2) [C19] chunking: `sc_sig_chunking` (every chunk schedule from Init ending with OK gives the object, hence the
      GetMsgSig result, of the fresh one-shot calls), `sc_sig_chunking_whole` (a complete message handed over in any
      number of pieces, every earlier piece boundary leaving an incomplete message: exactly the result of ONE call on
      the whole buffer), `sc_sig_two_schedules` (two ways of cutting the same message: same signature).
  (3) [C19] capacities: `sc_sig_fit` (two header arrays that both hold all `n` headers: same signature, verdict OK,
      same panic flag), `sc_sig_small` (an array too small against one at least as large: truncated indication or
      exactly the same result), `sc_sig_capacity` (both, for two runs from Init with any capacities over any chunk
      schedule; the arrays keep their capacities: `sc_size_parseSIPMsg`, `sc_size_resumeRun`).
      Loop level: `sc_loop_pad`, `sc_loop_append`, `sc_loop_prefix_pad`, `sc_loop_fit`.

  NOT proved here:
  * the legitimacy hypotheses (`msgOK2`, `MsgSafe`) of the LAST call in `sc_getMsgSig_safe_history` are assumptions (they
    hold for a resumed call on an extension of the same buffer — C01 `resume_msg`, `parseSIPMsg_safe` — and for the
    first call after Init / Reset); a history whose last call is not legitimate (e.g. resumed on an unrelated buffer)
    is outside the statement, as it is outside C04;
  * caller arrays handed to Init are assumed cleared (`Array.replicate k {}`), as in C01 / C04 / C13: Init does not clear
    them, and a dirty array can hold a stale Via in an unused slot;
  * in `sc_sig_chunking_whole` the hypothesis that every earlier prefix is incomplete is needed: without a
    Content-Length the body extends to the end of the buffer of the call that completes the headers, so a schedule
    that stops earlier returns another object (its signature is that of the one-shot call on THAT prefix:
    `sc_sig_chunking`); equality of the signatures of two different OK prefixes is not proved;
  * (3b) cannot be strengthened to "same signature": see the tests (capacity 3: shorter entry list + Trunc).
-/
import Sipsp.Proofs.SafeRest
import Sipsp.Proofs.SigSpec
import Sipsp.Proofs.CapacityExtra
import Sipsp.Proofs.FieldsLo
import Sipsp.Proofs.ResetLists

namespace Sipsp

/-! ### (1a) one header line: a header in its initial state keeps type 0 until its name has been read -/

/-- a header slot in the initial state has no type yet -/
def ScHdrOK (h : Hdr) : Prop := h.state = .init → h.type = 0

theorem ScHdrOK_new : ScHdrOK {} := fun _ => rfl

theorem ScHdrOK_of_ne {h : Hdr} (hs : h.state ≠ .init) : ScHdrOK h := fun hh => absurd hh hs

/-- the state component of a step result -/
def scStepSt : Step HLσ → HLσ
  | .cont _ st => st
  | .done _ _ st => st

theorem sc_parseBody_state (b : Buf) (o : Nat) (h : Hdr) (hb : Option PHdrVals) (hst : h.state ≠ .init) :
    (parseBody b o h hb).2.2.1.state ≠ .init := by
  unfold parseBody
  cases hb with
  | none => exact hst
  | some hv =>
  simp only
  by_cases h1 : (h.type == HdrFrom) = true
  · simp only [h1, ↓reduceIte]
    split
    · intro hh; cases hh
    · exact hst
  simp only [h1, Bool.false_eq_true, ↓reduceIte]
  by_cases h2 : (h.type == HdrTo) = true
  · simp only [h2, ↓reduceIte]
    split
    · intro hh; cases hh
    · exact hst
  simp only [h2, Bool.false_eq_true, ↓reduceIte]
  by_cases h3 : (h.type == HdrCallID) = true
  · simp only [h3, ↓reduceIte]
    split
    · intro hh; cases hh
    · exact hst
  simp only [h3, Bool.false_eq_true, ↓reduceIte]
  by_cases h4 : (h.type == HdrCSeq) = true
  · simp only [h4, ↓reduceIte]
    split
    · intro hh; cases hh
    · exact hst
  simp only [h4, Bool.false_eq_true, ↓reduceIte]
  by_cases h5 : (h.type == HdrCLen) = true
  · simp only [h5, ↓reduceIte]
    split
    · intro hh; cases hh
    · exact hst
  simp only [h5, Bool.false_eq_true, ↓reduceIte]
  by_cases h6 : (h.type == HdrContact) = true
  · simp only [h6, ↓reduceIte]
    intro hh; cases hh
  simp only [h6, Bool.false_eq_true, ↓reduceIte]
  by_cases h7 : (h.type == HdrExpires) = true
  · simp only [h7, ↓reduceIte]
    split
    · intro hh; cases hh
    · exact hst
  simp only [h7, Bool.false_eq_true, ↓reduceIte]
  by_cases h8 : (h.type == HdrPAI) = true
  · simp only [h8, ↓reduceIte]
    intro hh; cases hh
  simp only [h8, Bool.false_eq_true, ↓reduceIte]
  exact hst

theorem sc_hlAfterColon_state (b : Buf) (i : Nat) (h : Hdr) (hb : Option PHdrVals) (hst : h.state ≠ .init) :
    (scStepSt (hlAfterColon b i h hb)).1.state ≠ .init := by
  unfold hlAfterColon
  split
  · exact hst
  · rename_i nm _
    have hp := sc_parseBody_state b i { h with type := getHdrType nm } hb hst
    simp only
    split
    · simp only [scStepSt]
      split
      · intro hh; cases hh
      · exact hp
    · exact hp

theorem sc_hlName_state (b : Buf) (i : Nat) (h : Hdr) (hb : Option PHdrVals) (hst : h.state ≠ .init) :
    (scStepSt (hlName b i h hb)).1.state ≠ .init := by
  unfold hlName
  simp only
  split
  · exact hst
  · split
    · split <;> (intro hh; cases hh)
    · split
      · split
        · intro hh; cases hh
        · exact sc_hlAfterColon_state b _ _ hb (by intro hh; cases hh)
      · exact hst

theorem sc_hlValEnd_state (b : Buf) (i : Nat) (h : Hdr) (hb : Option PHdrVals) (hst : h.state ≠ .init) :
    (scStepSt (hlValEnd b i h hb)).1.state ≠ .init := by
  unfold hlValEnd
  rcases hsk : skipLWS b i 0 with ⟨n1, crl, e⟩
  cases e <;> simp only <;> first | exact hst | (intro hh; cases hh)

theorem sc_hlCont_state (b : Buf) (i : Nat) (h : Hdr) (hb : Option PHdrVals) (hst : h.state ≠ .init) :
    (scStepSt (hlCont b i h hb)).1.state ≠ .init := by
  have key : ∀ (e : Err) (g : Hdr), g.state = .fin →
      (if (e == Err.ok) = true then g else h).state ≠ .init := by
    intro e g hg
    split
    · rw [hg]; intro hh; cases hh
    · exact hst
  unfold hlCont
  cases hb with
  | none => exact hst
  | some hv =>
    simp only
    cases hs : h.state <;> simp only <;> first | exact key _ _ rfl | exact hst

/-- one step of ParseHdrLine: it never re-enters the initial state, and the only results that leave a header in the
    initial state or report an empty line come from the initial state and keep the type -/
def ScStepSpec (h : Hdr) : Step HLσ → Prop
  | .cont _ st' => st'.1.state ≠ .init
  | .done _ e st' => (st'.1.state = .init ∨ e = .empty) → h.state = .init ∧ st'.1.type = h.type

theorem sc_spec_of_state (h : Hdr) (r : Step HLσ) (hr : (scStepSt r).1.state ≠ .init)
    (hne : ∀ n st', r ≠ .done n .empty st') : ScStepSpec h r := by
  cases r with
  | cont i st' => exact hr
  | done n e st' =>
    intro hh
    rcases hh with hh | hh
    · exact absurd hh hr
    · subst hh; exact absurd rfl (hne n st')

theorem sc_spec_done (h g : Hdr) (hb : Option PHdrVals) (n : Nat) (e : Err) (hs : g.state ≠ .init)
    (he : e ≠ .empty) : ScStepSpec h (.done n e (g, hb)) := by
  intro hh
  rcases hh with hh | hh
  · exact absurd hh hs
  · exact absurd hh he

theorem sc_hlStep (b : Buf) (i : Nat) (c : UInt8) (st : HLσ) : ScStepSpec st.1 (hlStep b i c st) := by
  obtain ⟨h, hv⟩ := st
  unfold hlStep
  simp only
  cases hst : h.state <;> simp only
  case init =>
    split
    · split
      · exact fun _ => ⟨hst, rfl⟩
      · split <;> exact fun _ => ⟨hst, rfl⟩
    · split
      · exact fun _ => ⟨hst, rfl⟩
      · exact sc_spec_of_state h _ (sc_hlName_state b i _ hv (by intro hh; cases hh))
          (fun n st' => hlName_ne_empty b i _ hv)
  case name =>
    exact sc_spec_of_state h _ (sc_hlName_state b i h hv (by rw [hst]; intro hh; cases hh))
      (fun n st' => hlName_ne_empty b i h hv)
  case nameEnd =>
    have hs : h.state ≠ .init := by rw [hst]; intro hh; cases hh
    split
    · exact sc_spec_done h h hv _ _ hs (by decide)
    · split
      · exact sc_spec_of_state h _ (sc_hlAfterColon_state b _ _ hv (by intro hh; cases hh))
          (fun n st' => hlAfterColon_ne_empty b _ _ hv)
      · exact sc_spec_done h h hv _ _ hs (by decide)
  case bodyStart =>
    have hs : h.state ≠ .init := by rw [hst]; intro hh; cases hh
    rcases hsk : skipLWS b i 0 with ⟨n1, crl, e⟩
    have := skipLWS_verdicts b i 0 hsk
    rcases this with rfl | rfl | rfl | rfl <;> simp only
    all_goals first
      | exact sc_spec_done h h hv _ _ hs (by decide)
      | exact sc_spec_done h _ hv _ _ (by intro hh; cases hh) (by decide)
      | (show (_ : HState) ≠ _; intro hh; cases hh)
  case val =>
    have hs : h.state ≠ .init := by rw [hst]; intro hh; cases hh
    split
    · exact sc_spec_done h h hv _ _ hs (by decide)
    · exact sc_spec_of_state h _ (sc_hlValEnd_state b _ _ hv (by intro hh; cases hh))
        (fun n st' => hlValEnd_ne_empty b _ _ hv)
  case valEnd =>
    exact sc_spec_of_state h _ (sc_hlValEnd_state b i h hv (by rw [hst]; intro hh; cases hh))
      (fun n st' => hlValEnd_ne_empty b i h hv)
  case fin =>
    exact sc_spec_done h h hv _ _ (by rw [hst]; intro hh; cases hh) (by decide)
  all_goals
    exact sc_spec_of_state h _ (sc_hlCont_state b i h hv (by rw [hst]; intro hh; cases hh))
      (fun n st' => hlCont_ne_empty b i h hv)

/-- **ParseHdrLine**: (any buffer, offset, header values, verdict) a header that had no type while in the initial
    state comes back like that; the "empty line" verdict comes back with type 0 -/
theorem sc_parseHdrLine (b : Buf) (o : Nat) (h : Hdr) (hb : Option PHdrVals) (hh : ScHdrOK h) :
    ScHdrOK (parseHdrLine b o h hb).2.2.1 ∧
    ((parseHdrLine b o h hb).2.1 = .empty → (parseHdrLine b o h hb).2.2.1.type = 0) := by
  have key := runLoop_inv hlMachine b (fun _ st => ScHdrOK st.1)
    (fun r => ScHdrOK r.2.2.1 ∧ (r.2.1 = .empty → r.2.2.1.type = 0))
    (by
      intro i c st i' st' _ _ hs
      have := sc_hlStep b i c st
      rw [show hlMachine.step b i c st = hlStep b i c st from rfl] at hs
      rw [hs] at this
      exact ⟨fun _ => ScHdrOK_of_ne this, fun _ => ⟨ScHdrOK_of_ne this, fun hq => by cases hq⟩⟩)
    (by
      intro i c st o2 e2 st2 _ hP hs
      have := sc_hlStep b i c st
      rw [show hlMachine.step b i c st = hlStep b i c st from rfl] at hs
      rw [hs] at this
      refine ⟨fun hq => ?_, fun hq => ?_⟩
      · obtain ⟨h1, h2⟩ := this (Or.inl hq)
        rw [h2]; exact hP h1
      · obtain ⟨h1, h2⟩ := this (Or.inr hq)
        rw [h2]; exact hP h1)
    (by
      intro i st _ hP
      exact ⟨hP, fun hq => by cases hq⟩)
    o (h, hb) hh
  unfold parseHdrLine
  rcases hrl : runLoop hlMachine b o (h, hb) with ⟨o1, e1, h1, hb1⟩
  rw [hrl] at key
  exact key

/-! ### (1b) the header list -/

/-- the slots after the current one are untouched, and the current one has no type while in its initial state -/
def ScTail (hl : HdrLst) : Prop :=
  (∀ k, hl.n < k → k < hl.hdrs.size → hl.hdrs[k]! = {}) ∧ (hl.n < hl.hdrs.size → ScHdrOK hl.hdrs[hl.n]!)

/-- after the header section: every slot from the header count on has type 0 (no header) -/
def ScDone (hl : HdrLst) : Prop := ∀ k, hl.n ≤ k → k < hl.hdrs.size → hl.hdrs[k]!.type = 0

theorem ScTail.next {hl : HdrLst} (H : ScTail hl) (g : Hdr) : ScTail ((hl.setCur g).accept g) := by
  have hn : ((hl.setCur g).accept g).n = hl.n + 1 := by rw [accept_n, hlSetCur_n]
  have hs : ((hl.setCur g).accept g).hdrs.size = hl.hdrs.size := by rw [accept_hdrs, hlSetCur_size]
  have hk : ∀ k, hl.n < k → k < hl.hdrs.size → ((hl.setCur g).accept g).hdrs[k]! = {} := by
    intro k h1 h2; rw [accept_hdrs, hlSetCur_ne hl g k (by omega)]; exact H.1 k h1 h2
  refine ⟨fun k h1 h2 => ?_, fun h1 => ?_⟩
  · rw [hn] at h1; rw [hs] at h2; exact hk k (by omega) h2
  · rw [hn, hs] at h1; rw [hn, hk _ (by omega) h1]; exact ScHdrOK_new

theorem ScTail.setCur {hl : HdrLst} (H : ScTail hl) (g : Hdr) (hg : hl.n < hl.hdrs.size → ScHdrOK g) :
    ScTail (hl.setCur g) := by
  refine ⟨fun k h1 h2 => ?_, fun h1 => ?_⟩
  · rw [hlSetCur_n] at h1; rw [hlSetCur_size] at h2
    rw [hlSetCur_ne hl g k (by omega)]; exact H.1 k h1 h2
  · rw [hlSetCur_n, hlSetCur_size] at h1
    rw [hlSetCur_n, hlSetCur_get_n hl g h1]; exact hg h1

theorem ScTail.doneSetCur {hl : HdrLst} (H : ScTail hl) (g : Hdr) (hg : hl.n < hl.hdrs.size → g.type = 0) :
    ScDone (hl.setCur g) := by
  intro k h1 h2
  rw [hlSetCur_n] at h1; rw [hlSetCur_size] at h2
  rcases Nat.eq_or_lt_of_le h1 with he | hlt
  · subst he; rw [hlSetCur_get_n hl g h2]; exact hg h2
  · rw [hlSetCur_ne hl g k (by omega), H.1 k hlt h2]

theorem ScTail.cur {hl : HdrLst} (H : ScTail hl) (hin : hl.n < hl.hdrs.size) : ScHdrOK hl.cur := by
  unfold HdrLst.cur; rw [if_pos hin]; exact H.2 hin

/-- **ParseHeaders** (any buffer, offset, header values): after OK every slot not filled has type 0; after MoreBytes
    the invariant holds again -/
theorem sc_parseHeaders (b : Buf) (offs : Nat) (hl : HdrLst) (hb : Option PHdrVals) (H : ScTail hl) :
    ((parseHeaders b offs hl hb).2.1 = .ok → ScDone (parseHeaders b offs hl hb).2.2.1) ∧
    ((parseHeaders b offs hl hb).2.1 = .moreBytes → ScTail (parseHeaders b offs hl hb).2.2.1) := by
  induction hk : b.size - offs using Nat.strongRecOn generalizing offs hl hb with
  | _ k ih =>
    rw [parseHeaders.eq_1 b offs hl hb]
    by_cases hlt : offs < b.size
    · rw [if_pos hlt]
      have hline : hl.n < hl.hdrs.size → ScHdrOK (parseHdrLine b offs hl.cur hb).2.2.1 ∧
          ((parseHdrLine b offs hl.cur hb).2.1 = .empty → (parseHdrLine b offs hl.cur hb).2.2.1.type = 0) :=
        fun hin => sc_parseHdrLine b offs hl.cur hb (H.cur hin)
      rcases hp1 : parseHdrLine b offs hl.cur hb with ⟨n1, e1, g1, v1⟩
      rw [hp1] at hline
      cases e1 <;> simp only
      case ok =>
        by_cases hg : offs < n1
        · rw [if_pos hg]
          exact ih (b.size - n1) (by omega) n1 _ v1 (H.next g1) rfl
        · rw [if_neg hg]
          exact ⟨(fun hh => by cases hh), (fun hh => by cases hh)⟩
      case empty =>
        split
        · exact ⟨fun _ => H.doneSetCur g1 (fun hin => (hline hin).2 rfl), (fun hh => by cases hh)⟩
        · exact ⟨(fun hh => by cases hh), (fun hh => by cases hh)⟩
      case moreBytes =>
        exact ⟨(fun hh => by cases hh), fun _ => H.setCur g1 (fun hin => (hline hin).1)⟩
      all_goals exact ⟨(fun hh => by cases hh), (fun hh => by cases hh)⟩
    · rw [if_neg hlt]
      exact ⟨(fun hh => by cases hh), fun _ => H⟩

theorem ScTail_new (k : Nat) : ScTail ({ hdrs := Array.replicate k {} } : HdrLst) := by
  have hrep : ∀ j, j < (Array.replicate k ({} : Hdr)).size → (Array.replicate k ({} : Hdr))[j]! = {} := by
    intro j hj; simp at hj; simp [hj]
  refine ⟨fun j _ hj => hrep j hj, fun hj => ?_⟩
  show ScHdrOK (Array.replicate k ({} : Hdr))[0]!
  rw [hrep 0 hj]; exact ScHdrOK_new

/-! ### (1c) the message object -/

/-- the invariant of the message object: while the header section is not finished the header list satisfies `ScTail`;
    once it is, the unfilled slots have type 0. (Nothing is claimed in the error states: the object must be Reset.) -/
def ScMsg (m : PSIPMsg) : Prop :=
  ((m.state = .init ∨ m.state = .fline ∨ m.state = .headers) → ScTail m.hl) ∧
  ((m.state = .body ∨ m.state = .fin) → ScDone m.hl)

theorem ScMsg_of_tail {m : PSIPMsg} (hT : ScTail m.hl) (hs : m.state ≠ .body ∧ m.state ≠ .fin) : ScMsg m :=
  ⟨fun _ => hT, fun h => by rcases h with h | h; exact absurd h hs.1; exact absurd h hs.2⟩

theorem ScMsg_of_done {m : PSIPMsg} (hD : ScDone m.hl)
    (hs : m.state ≠ .init ∧ m.state ≠ .fline ∧ m.state ≠ .headers) : ScMsg m :=
  ⟨fun h => by rcases h with h | h | h; exact absurd h hs.1; exact absurd h hs.2.1; exact absurd h hs.2.2, fun _ => hD⟩

theorem ScMsg_of_err {m : PSIPMsg} (hs : m.state = .err ∨ m.state = .noCLen) : ScMsg m := by
  refine ⟨fun h => ?_, fun h => ?_⟩
  · rcases hs with hs | hs <;> rw [hs] at h <;> rcases h with h | h | h <;> cases h
  · rcases hs with hs | hs <;> rw [hs] at h <;> rcases h with h | h <;> cases h

theorem sc_msgErr (m : PSIPMsg) (o : Nat) (e : Err) (flags : Nat) (H : e = .moreBytes → ScMsg m) :
    ScMsg (msgErr m o e flags).2.2 ∧ ((msgErr m o e flags).2.1 = .ok → e = .ok) := by
  unfold msgErr
  split
  · exact ⟨ScMsg_of_err (Or.inl rfl), fun h => h⟩
  · rename_i hne
    have he : e = .moreBytes := by simpa using hne
    split
    · exact ⟨ScMsg_of_err (Or.inl rfl), fun h => by cases h⟩
    · exact ⟨H he, fun h => h⟩

theorem sc_msgBody_state (b : Buf) (o : Nat) (m : PSIPMsg) (flags : Nat) (hst : m.state = .body) :
    (msgBody b o m flags).2.2.state = .body ∨ (msgBody b o m flags).2.2.state = .noCLen ∨
      (msgBody b o m flags).2.2.state = .fin := by
  unfold msgBody msgEnd PSIPMsg.setBufs
  simp only
  repeat' split
  all_goals first | exact Or.inl hst | exact Or.inr (Or.inl rfl) | exact Or.inr (Or.inr rfl)

theorem sc_msgBody (b : Buf) (o : Nat) (m : PSIPMsg) (flags : Nat) (hD : ScDone m.hl) (hst : m.state = .body) :
    ScMsg (msgBody b o m flags).2.2 ∧ ScDone (msgBody b o m flags).2.2.hl := by
  have hhl := (msgBody_done_pv b o m flags).1
  have hD' : ScDone (msgBody b o m flags).2.2.hl := by rw [hhl]; exact hD
  refine ⟨ScMsg_of_done hD' ?_, hD'⟩
  rcases sc_msgBody_state b o m flags hst with h | h | h <;> rw [h] <;>
    exact ⟨(fun hh => by cases hh), (fun hh => by cases hh), (fun hh => by cases hh)⟩

theorem sc_msgHeaders (b : Buf) (o : Nat) (m : PSIPMsg) (flags : Nat) (H : ScTail m.hl) (hst : m.state = .headers) :
    ScMsg (msgHeaders b o m flags).2.2 ∧
    ((msgHeaders b o m flags).2.1 = .ok → ScDone (msgHeaders b o m flags).2.2.hl) := by
  unfold msgHeaders
  have hph := sc_parseHeaders b o m.hl (some m.pv) H
  rcases hp : parseHeaders b o m.hl (some m.pv) with ⟨o1, e1, hl1, hb1⟩
  rw [hp] at hph
  have hsb : m.state ≠ .body ∧ m.state ≠ .fin := by
    rw [hst]; exact ⟨(fun hh => by cases hh), (fun hh => by cases hh)⟩
  have herr : ∀ e, e ≠ .ok → (e = .moreBytes → ScTail hl1) →
      ScMsg (msgErr { m with hl := hl1, pv := hb1.getD m.pv } o1 e flags).2.2 ∧
      ((msgErr { m with hl := hl1, pv := hb1.getD m.pv } o1 e flags).2.1 = .ok →
        ScDone (msgErr { m with hl := hl1, pv := hb1.getD m.pv } o1 e flags).2.2.hl) := by
    intro e hne hT
    have := sc_msgErr { m with hl := hl1, pv := hb1.getD m.pv } o1 e flags
      (fun he => ScMsg_of_tail (hT he) hsb)
    exact ⟨this.1, fun hh => absurd (this.2 hh) hne⟩
  cases e1 <;> simp only
  case ok =>
    have := sc_msgBody b o1 { m with hl := hl1, pv := hb1.getD m.pv, state := .body } flags (hph.1 rfl) rfl
    exact ⟨this.1, fun _ => this.2⟩
  case moreBytes => exact herr _ (by decide) (fun _ => hph.2 rfl)
  all_goals exact herr _ (by decide) (fun hh => by cases hh)

theorem sc_msgFLine (b : Buf) (o : Nat) (m : PSIPMsg) (flags : Nat) (H : ScTail m.hl) (hst : m.state = .fline) :
    ScMsg (msgFLine b o m flags).2.2 ∧
    ((msgFLine b o m flags).2.1 = .ok → ScDone (msgFLine b o m flags).2.2.hl) := by
  unfold msgFLine
  rcases hp : parseFLine b o m.fl with ⟨o1, e1, fl1⟩
  have hsb : m.state ≠ .body ∧ m.state ≠ .fin := by
    rw [hst]; exact ⟨(fun hh => by cases hh), (fun hh => by cases hh)⟩
  have herr : ∀ e, e ≠ .ok →
      ScMsg (msgErr { m with fl := fl1 } o1 e flags).2.2 ∧
      ((msgErr { m with fl := fl1 } o1 e flags).2.1 = .ok → ScDone (msgErr { m with fl := fl1 } o1 e flags).2.2.hl) := by
    intro e hne
    have := sc_msgErr { m with fl := fl1 } o1 e flags
      (fun _ => ScMsg_of_tail H hsb)
    exact ⟨this.1, fun hh => absurd (this.2 hh) hne⟩
  cases e1 <;> simp only
  case ok => exact sc_msgHeaders b o1 { m with fl := fl1, state := .headers } flags H rfl
  all_goals exact herr _ (by decide)

/-- **ParseSIPMsg preserves the invariant** — any buffer, any offset, any flags, any verdict — and after OK the
    header slots it did not fill have type 0 -/
theorem sc_parseSIPMsg (b : Buf) (o : Nat) (m : PSIPMsg) (flags : Nat) (H : ScMsg m) :
    ScMsg (parseSIPMsg b o m flags).2.2 ∧
    ((parseSIPMsg b o m flags).2.1 = .ok → ScDone (parseSIPMsg b o m flags).2.2.hl) := by
  unfold parseSIPMsg
  cases hst : m.state <;> simp only
  case init =>
    exact sc_msgFLine b o { m with offs := o, state := .fline } flags (H.1 (Or.inl hst)) rfl
  case fline => exact sc_msgFLine b o m flags (H.1 (Or.inr (Or.inl hst))) hst
  case headers => exact sc_msgHeaders b o m flags (H.1 (Or.inr (Or.inr hst))) hst
  case body =>
    have := sc_msgBody b o m flags (H.2 (Or.inl hst)) hst
    exact ⟨this.1, fun _ => this.2⟩
  all_goals
    (have := sc_msgErr m o .bug flags (fun hh => by cases hh)
     exact ⟨this.1, fun hh => by cases this.2 hh⟩)

/-! ### (1d) Init, Reset, histories -/

/-- every object produced by Init (whatever it held before; caller arrays of any capacity, or none) -/
theorem ScMsg_init (m0 : PSIPMsg) (len kh kc : Nat) (hdrs cts : Option Unit) :
    ScMsg (m0.init len (hdrs.map fun _ => Array.replicate kh {}) (cts.map fun _ => Array.replicate kc {})) := by
  have hs : MsgState.init ≠ .body ∧ MsgState.init ≠ .fin := ⟨(fun hh => by cases hh), (fun hh => by cases hh)⟩
  cases hdrs with
  | none => exact ScMsg_of_tail (ScTail_new 10) hs
  | some _ => exact ScMsg_of_tail (ScTail_new kh) hs

/-- every object produced by Reset, whatever it held before (Reset clears the whole header array) -/
theorem ScMsg_reset (m : PSIPMsg) : ScMsg m.reset := by
  have hs : MsgState.init ≠ .body ∧ MsgState.init ≠ .fin := ⟨(fun hh => by cases hh), (fun hh => by cases hh)⟩
  have hrep : ∀ j, j < (m.hl.hdrs.map (fun _ => ({} : Hdr))).size → (m.hl.hdrs.map (fun _ => ({} : Hdr)))[j]! = {} := by
    intro j hj
    have hj' : j < m.hl.hdrs.size := by simpa using hj
    simp [hj']
  refine ScMsg_of_tail ?_ hs
  refine ⟨fun j _ hj => hrep j hj, fun hj => ?_⟩
  show ScHdrOK (m.hl.hdrs.map (fun _ => ({} : Hdr)))[0]!
  rw [hrep 0 hj]; exact ScHdrOK_new

/-- a chain of resumed calls keeps the invariant; if it ends with OK the unfilled header slots have type 0 -/
theorem sc_resumeRun (flags : Nat) (o : Nat) (m : PSIPMsg) (l : List Buf) (H : ScMsg m) :
    ScMsg (resumeRun (fun b o m => parseSIPMsg b o m flags) o m l).2.2 ∧
    ((resumeRun (fun b o m => parseSIPMsg b o m flags) o m l).2.1 = .ok →
      ScDone (resumeRun (fun b o m => parseSIPMsg b o m flags) o m l).2.2.hl) := by
  induction l generalizing o m with
  | nil => exact ⟨H, fun hh => by cases hh⟩
  | cons b rest ih =>
    have h1 := sc_parseSIPMsg b o m flags H
    cases rest with
    | nil => exact h1
    | cons b' rest' =>
      simp only [resumeRun]
      rcases hp : parseSIPMsg b o m flags with ⟨o1, e1, s1⟩
      rw [hp] at h1
      by_cases hm : e1 = .moreBytes
      · subst hm
        simp only
        exact ih o1 s1 h1.1
      · cases e1 <;> first | exact absurd rfl hm | exact h1

/-! ### (1e) GetMsgSig never panics after a successful parse, whatever the history of the object -/

/-- `getMsgSig_after_parse` without its hypothesis on the unused header slots: it follows from the invariant -/
theorem sc_getMsgSig_safe (b : Buf) (o : Nat) (m : PSIPMsg) (flags : Nat) (hfit : b.size ≤ 65535)
    (hI : ScMsg m) (hok : msgOK2 b o m) (H : MsgSafe b o m) {o' : Nat} {m' : PSIPMsg}
    (hr : parseSIPMsg b o m flags = (o', .ok, m')) : (getMsgSigCore m' b).2.2 = false := by
  have hD := (sc_parseSIPMsg b o m flags hI).2
  rw [hr] at hD
  have hD' : ScDone m'.hl := hD rfl
  apply getMsgSig_after_parse b o m flags hfit hok H hr
  intro k h1 h2 hv
  rw [hD' k h1 h2] at hv
  cases hv

/-- the first call after Init: the two legitimacy hypotheses hold -/
theorem sc_getMsgSig_safe_init (b : Buf) (o : Nat) (ho : o ≤ b.size) (m0 : PSIPMsg) (len kh kc : Nat)
    (hdrs cts : Option Unit) (flags : Nat) (hfit : b.size ≤ 65535) {o' : Nat} {m' : PSIPMsg}
    (hr : parseSIPMsg b o (m0.init len (hdrs.map fun _ => Array.replicate kh {})
      (cts.map fun _ => Array.replicate kc {})) flags = (o', .ok, m')) : (getMsgSigCore m' b).2.2 = false :=
  sc_getMsgSig_safe b o _ flags hfit (ScMsg_init m0 len kh kc hdrs cts) (msgOK2_init b o ho m0 len kh kc hdrs cts)
    (MsgSafe_init b o ho m0 len kh kc hdrs cts) hr

/-- the buffer may have grown after the parse: only `msg.Buf` = its first `bufLen` bytes is read -/
theorem sc_getMsgSig_ext (m : PSIPMsg) (b s : Buf) (h : m.bufLen ≤ b.size) : getMsgSigCore m (b ++ s) = getMsgSigCore m b := by
  have he : (b ++ s).extract 0 m.bufLen = b.extract 0 m.bufLen := by
    rw [Array.extract_append]
    have : m.bufLen - b.size = 0 := by omega
    rw [this]
    simp
  unfold getMsgSigCore
  rw [he]

/-- **every chunk schedule from Init that ends with OK**: the result is what one call on one of the buffers (the one
    of the last call made) returns, `msg.Buf` lies inside that buffer, and GetMsgSig on it — or on any extension of
    it — does not panic -/
theorem sc_getMsgSig_safe_schedule (flags : Nat) (o : Nat) (m0 : PSIPMsg) (len kh kc : Nat) (hdrs cts : Option Unit)
    (l : List Buf) (hg : Growing l) (hfit : ∀ x ∈ l, x.size ≤ 65535) (hne : l ≠ []) (ho : ∀ b ∈ l, o ≤ b.size)
    {o' : Nat} {m' : PSIPMsg}
    (hr : resumeRun (C01.msgP flags) o
      (m0.init len (hdrs.map fun _ => Array.replicate kh {}) (cts.map fun _ => Array.replicate kc {})) l = (o', .ok, m')) :
    ∃ b ∈ l, parseSIPMsg b o (m0.init len (hdrs.map fun _ => Array.replicate kh {})
        (cts.map fun _ => Array.replicate kc {})) flags = (o', .ok, m') ∧ m'.bufLen ≤ b.size ∧
      ∀ s, (getMsgSigCore m' (b ++ s)).2.2 = false := by
  obtain ⟨b, hb, h⟩ := flo_schedule_init flags o m0 len kh kc hdrs cts l hg hfit hne ho hr
  have hsafe := sc_getMsgSig_safe_init b o (ho b hb) m0 len kh kc hdrs cts flags (hfit b hb) h
  obtain ⟨hh, _, _, hle, hL⟩ := parseSIPMsg_layout b o _ flags (hfit b hb)
    (msgOK2_init b o (ho b hb) m0 len kh kc hdrs cts) (MsgSafe_init b o (ho b hb) m0 len kh kc hdrs cts) h
  have hbl : m'.bufLen ≤ b.size := by rw [hL.bufLen]; exact hle
  exact ⟨b, hb, h, hbl, fun s => by rw [sc_getMsgSig_ext m' b s hbl]; exact hsafe⟩

/-! ### (2) chunking: the signature does not depend on how the message was cut into chunks -/

/-- **every chunk schedule from Init that ends with OK** gives the object — hence the signature, verdict and panic
    flag of GetMsgSig on any buffer — that the fresh one-shot calls on the same prefixes give -/
theorem sc_sig_chunking (flags : Nat) (o : Nat) (m0 : PSIPMsg) (len kh kc : Nat) (hdrs cts : Option Unit)
    (l : List Buf) (hg : Growing l) (hfit : ∀ x ∈ l, x.size ≤ 65535) (ho : ∀ b ∈ l.head?, o ≤ b.size)
    (hv : (resumeRun (C01.msgP flags) o (m0.init len (hdrs.map fun _ => Array.replicate kh {})
      (cts.map fun _ => Array.replicate kc {})) l).2.1 = .ok) :
    resumeRun (C01.msgP flags) o (m0.init len (hdrs.map fun _ => Array.replicate kh {})
        (cts.map fun _ => Array.replicate kc {})) l =
      oneShotRun (C01.msgP flags) o (m0.init len (hdrs.map fun _ => Array.replicate kh {})
        (cts.map fun _ => Array.replicate kc {})) l ∧
    ∀ b, getMsgSigCore (resumeRun (C01.msgP flags) o (m0.init len (hdrs.map fun _ => Array.replicate kh {})
        (cts.map fun _ => Array.replicate kc {})) l).2.2 b =
      getMsgSigCore (oneShotRun (C01.msgP flags) o (m0.init len (hdrs.map fun _ => Array.replicate kh {})
        (cts.map fun _ => Array.replicate kc {})) l).2.2 b := by
  have hrr := C01.schedule_msg_init flags o m0 len kh kc hdrs cts l hg hfit ho
  simp only at hrr
  have heq := hrr.eq (Or.inl (by rw [← hrr.2.1]; exact hv))
  exact ⟨heq, fun b => by rw [heq]⟩

/-- fresh one-shot calls on prefixes that are all incomplete but the last: the result on the last buffer -/
theorem sc_oneShotRun_last {σ : Type} (P : Parser σ) (o : Nat) (st : σ) (l : List Buf) (hne : l ≠ [])
    (hpre : ∀ x ∈ l.dropLast, (P x o st).2.1 = .moreBytes) : oneShotRun P o st l = P (l.getLast hne) o st := by
  induction l with
  | nil => exact absurd rfl hne
  | cons b rest ih =>
    cases rest with
    | nil => rfl
    | cons b' rest' =>
      have hb : (P b o st).2.1 = .moreBytes := hpre b (by simp [List.dropLast])
      rcases hp : P b o st with ⟨o1, e1, s1⟩
      rw [hp] at hb
      simp only at hb
      subst hb
      simp only [oneShotRun, hp]
      rw [List.getLast_cons (by simp)]
      exact ih (by simp) (fun x hx => hpre x (by
        simp only [List.dropLast] at hx ⊢
        exact List.mem_cons_of_mem _ hx))

/-- **a complete message handed over in ANY number of pieces** (each earlier piece boundary leaves an incomplete
    message: the one-shot verdict on that prefix is MoreBytes; the whole buffer `B` = last element parses OK): the
    chain of resumed calls returns exactly what ONE call on `B` returns — offset, verdict, object — and so
    GetMsgSig gives the same signature, verdict and panic flag -/
theorem sc_sig_chunking_whole (flags : Nat) (o : Nat) (m0 : PSIPMsg) (len kh kc : Nat) (hdrs cts : Option Unit)
    (l : List Buf) (hg : Growing l) (hfit : ∀ x ∈ l, x.size ≤ 65535) (hne : l ≠ []) (ho : ∀ b ∈ l.head?, o ≤ b.size)
    (hpre : ∀ x ∈ l.dropLast, (parseSIPMsg x o (m0.init len (hdrs.map fun _ => Array.replicate kh {})
      (cts.map fun _ => Array.replicate kc {})) flags).2.1 = .moreBytes)
    (hok : (parseSIPMsg (l.getLast hne) o (m0.init len (hdrs.map fun _ => Array.replicate kh {})
      (cts.map fun _ => Array.replicate kc {})) flags).2.1 = .ok) :
    resumeRun (C01.msgP flags) o (m0.init len (hdrs.map fun _ => Array.replicate kh {})
        (cts.map fun _ => Array.replicate kc {})) l =
      parseSIPMsg (l.getLast hne) o (m0.init len (hdrs.map fun _ => Array.replicate kh {})
        (cts.map fun _ => Array.replicate kc {})) flags ∧
    ∀ b, getMsgSigCore (resumeRun (C01.msgP flags) o (m0.init len (hdrs.map fun _ => Array.replicate kh {})
        (cts.map fun _ => Array.replicate kc {})) l).2.2 b =
      getMsgSigCore (parseSIPMsg (l.getLast hne) o (m0.init len (hdrs.map fun _ => Array.replicate kh {})
        (cts.map fun _ => Array.replicate kc {})) flags).2.2 b := by
  have hone := sc_oneShotRun_last (C01.msgP flags) o (m0.init len (hdrs.map fun _ => Array.replicate kh {})
    (cts.map fun _ => Array.replicate kc {})) l hne hpre
  have hrr := C01.schedule_msg_init flags o m0 len kh kc hdrs cts l hg hfit ho
  simp only at hrr
  have heq := hrr.eq (Or.inl (by rw [hone]; exact hok))
  rw [hone] at heq
  exact ⟨heq, fun b => by rw [heq]; rfl⟩

/-- … hence two different ways of cutting the same complete message give the same signature (and the same object) -/
theorem sc_sig_two_schedules (flags : Nat) (o : Nat) (m0 m0' : PSIPMsg) (len kh kc : Nat) (hdrs cts : Option Unit)
    (l1 l2 : List Buf) (hg1 : Growing l1) (hg2 : Growing l2) (hfit1 : ∀ x ∈ l1, x.size ≤ 65535)
    (hfit2 : ∀ x ∈ l2, x.size ≤ 65535) (hne1 : l1 ≠ []) (hne2 : l2 ≠ [])
    (ho1 : ∀ b ∈ l1.head?, o ≤ b.size) (ho2 : ∀ b ∈ l2.head?, o ≤ b.size)
    (hlast : l1.getLast hne1 = l2.getLast hne2)
    (hpre1 : ∀ x ∈ l1.dropLast, (parseSIPMsg x o (m0.init len (hdrs.map fun _ => Array.replicate kh {})
      (cts.map fun _ => Array.replicate kc {})) flags).2.1 = .moreBytes)
    (hpre2 : ∀ x ∈ l2.dropLast, (parseSIPMsg x o (m0'.init len (hdrs.map fun _ => Array.replicate kh {})
      (cts.map fun _ => Array.replicate kc {})) flags).2.1 = .moreBytes)
    (hok : (parseSIPMsg (l1.getLast hne1) o (m0.init len (hdrs.map fun _ => Array.replicate kh {})
      (cts.map fun _ => Array.replicate kc {})) flags).2.1 = .ok) (b : Buf) :
    getMsgSigCore (resumeRun (C01.msgP flags) o (m0.init len (hdrs.map fun _ => Array.replicate kh {})
        (cts.map fun _ => Array.replicate kc {})) l1).2.2 b =
      getMsgSigCore (resumeRun (C01.msgP flags) o (m0'.init len (hdrs.map fun _ => Array.replicate kh {})
        (cts.map fun _ => Array.replicate kc {})) l2).2.2 b := by
  have hinit : m0'.init len (hdrs.map fun _ => Array.replicate kh {}) (cts.map fun _ => Array.replicate kc {}) =
      m0.init len (hdrs.map fun _ => Array.replicate kh {}) (cts.map fun _ => Array.replicate kc {}) := by
    cases hdrs <;> cases cts <;> rfl
  rw [hinit] at hpre2 ⊢
  have h1 := sc_sig_chunking_whole flags o m0 len kh kc hdrs cts l1 hg1 hfit1 hne1 ho1 hpre1 hok
  have h2 := sc_sig_chunking_whole flags o m0 len kh kc hdrs cts l2 hg2 hfit2 hne2 ho2 hpre2 (by rw [← hlast]; exact hok)
  rw [h1.2 b, h2.2 b, hlast]

/-! ### (3) capacities -/

/-- cleared slots (type 0) change neither the signature nor the panic flag -/
theorem sc_loop_pad (mbuf : Buf) (pf : Nat) (pad : List Hdr) (st : SigLoopSt) (hp : ∀ h ∈ pad, h.type = 0) :
    (msgSigLoop mbuf pf pad st).1.sig = st.sig ∧ (msgSigLoop mbuf pf pad st).1.pnc = st.pnc := by
  induction pad generalizing st with
  | nil => rw [msgSigLoop]; exact ⟨rfl, rfl⟩
  | cons h rest ih =>
    have ihr := fun st' => ih st' (fun x hx => hp x (List.mem_cons_of_mem _ hx))
    have hns : isSigType (hdrKey mbuf h).type = false := by
      show isSigType h.type = false
      rw [hp h List.mem_cons_self]; decide
    have h1 : (sigStep (hdrKey mbuf h) st).sig = st.sig := stepSig_nosig _ st.sig hns
    have h2 : (sigStep (hdrKey mbuf h) st).pnc = st.pnc := by
      show (st.pnc || (hdrKey mbuf h).viaPnc) = st.pnc
      rw [viaPnc_nosig _ hns, Bool.or_false]
    rw [msgSigLoop_cons]
    split
    · split
      · exact ⟨h1, h2⟩
      · split
        · exact ⟨h1, h2⟩
        · have := ihr (sigStep (hdrKey mbuf h) st)
          rw [this.1, this.2]; exact ⟨h1, h2⟩
    · exact ihr st

theorem sc_loop_append (mbuf : Buf) (pf : Nat) (l1 l2 : List Hdr) (st : SigLoopSt) :
    msgSigLoop mbuf pf (l1 ++ l2) st =
      if (msgSigLoop mbuf pf l1 st).2 = true then msgSigLoop mbuf pf l1 st
      else msgSigLoop mbuf pf l2 (msgSigLoop mbuf pf l1 st).1 := by
  induction l1 generalizing st with
  | nil =>
    have : msgSigLoop mbuf pf [] st = (st, false) := by rw [msgSigLoop]
    rw [List.nil_append, this]
    simp only [Bool.false_eq_true, ↓reduceIte]
  | cons a rest ih =>
    rw [List.cons_append, msgSigLoop_cons, msgSigLoop_cons]
    split
    · split
      · simp only [↓reduceIte]
      · split
        · simp only [↓reduceIte]
        · exact ih _
    · exact ih _

/-- the stored headers followed by cleared slots: signature and panic flag of the stored headers alone -/
theorem sc_loop_prefix_pad (mbuf : Buf) (pf : Nat) (l1 pad : List Hdr) (st : SigLoopSt)
    (hp : ∀ h ∈ pad, h.type = 0) :
    (msgSigLoop mbuf pf (l1 ++ pad) st).1.sig = (msgSigLoop mbuf pf l1 st).1.sig ∧
    (msgSigLoop mbuf pf (l1 ++ pad) st).1.pnc = (msgSigLoop mbuf pf l1 st).1.pnc := by
  rw [sc_loop_append]
  split
  · exact ⟨rfl, rfl⟩
  · exact sc_loop_pad mbuf pf pad _ hp

theorem sc_take_eq (a1 a2 : Array Hdr) (n : Nat) (h1 : n ≤ a1.size) (h2 : n ≤ a2.size)
    (hag : ∀ k, k < n → a1[k]! = a2[k]!) : a1.toList.take n = a2.toList.take n := by
  apply List.ext_getElem
  · simp only [List.length_take, Array.length_toList]; omega
  · intro i hi1 hi2
    have hi : i < n := by
      simp only [List.length_take, Array.length_toList] at hi1; omega
    have := hag i hi
    rw [getElem!_pos a1 i (by omega), getElem!_pos a2 i (by omega)] at this
    simp only [List.getElem_take, Array.getElem_toList]
    exact this

theorem sc_drop_types (a : Array Hdr) (n : Nat) (hz : ∀ k, n ≤ k → k < a.size → a[k]!.type = 0) :
    ∀ h ∈ a.toList.drop n, h.type = 0 := by
  intro h hh
  obtain ⟨i, hi, rfl⟩ := List.mem_iff_getElem.mp hh
  simp only [List.length_drop, Array.length_toList] at hi
  have := hz (n + i) (by omega) (by omega)
  rw [getElem!_pos a (n + i) (by omega)] at this
  simp only [List.getElem_drop, Array.getElem_toList]
  exact this

theorem sc_toList_prefix (a1 a2 : Array Hdr) (h : a1.size ≤ a2.size) (hag : ∀ k, k < a1.size → a1[k]! = a2[k]!) :
    a2.toList = a1.toList ++ a2.toList.drop a1.size := by
  have ht := sc_take_eq a1 a2 a1.size (Nat.le_refl _) h hag
  rw [List.take_of_length_le (by simp)] at ht
  rw [ht, List.take_append_drop]

/-- two header arrays that both hold the `n` stored headers, agree on them, and are cleared beyond: the loop gives
    the same signature and panic flag -/
theorem sc_loop_fit (mbuf : Buf) (pf : Nat) (a1 a2 : Array Hdr) (n : Nat) (st : SigLoopSt)
    (hn1 : n ≤ a1.size) (hn2 : n ≤ a2.size) (hag : ∀ k, k < n → a1[k]! = a2[k]!)
    (hz1 : ∀ k, n ≤ k → k < a1.size → a1[k]!.type = 0) (hz2 : ∀ k, n ≤ k → k < a2.size → a2[k]!.type = 0) :
    (msgSigLoop mbuf pf a1.toList st).1.sig = (msgSigLoop mbuf pf a2.toList st).1.sig ∧
    (msgSigLoop mbuf pf a1.toList st).1.pnc = (msgSigLoop mbuf pf a2.toList st).1.pnc := by
  have p1 := sc_loop_prefix_pad mbuf pf (a1.toList.take n) (a1.toList.drop n) st (sc_drop_types a1 n hz1)
  have p2 := sc_loop_prefix_pad mbuf pf (a2.toList.take n) (a2.toList.drop n) st (sc_drop_types a2 n hz2)
  rw [List.take_append_drop] at p1 p2
  rw [p1.1, p1.2, p2.1, p2.2, sc_take_eq a1 a2 n hn1 hn2 hag]
  exact ⟨rfl, rfl⟩

/-- the verdict of GetMsgSig when all headers fit -/
theorem sc_verdict_fit (ex : Bool) (n size : Nat) (h : n ≤ size) :
    (if ex = true then Err.ok else if n > size then Err.trunc else Err.ok) = Err.ok := by
  split
  · rfl
  · rw [if_neg (by omega)]

/-- what GetMsgSig reads of a message object that `MsgDone` relates to another one -/
theorem sc_msgDone_fields {m1 m2 : PSIPMsg} (hD : MsgDone m1 m2) :
    m2.request = m1.request ∧ m2.bufLen = m1.bufLen ∧ m2.pv.callid = m1.pv.callid ∧ m2.pv.from_ = m1.pv.from_ ∧
    m2.fl.methodNo = m1.fl.methodNo ∧ HlsDone m1.hl m2.hl := by
  obtain ⟨hl2, c2, rfl, hH, _⟩ := hD
  exact ⟨rfl, rfl, rfl, rfl, rfl, hH⟩

/-- **(3a) two header arrays that both hold all headers of the message**: the same signature, verdict (OK) and panic
    flag. `MsgDone` is the relation the capacity theorems (C13) establish between the results of two runs with
    different capacities; `ScDone` holds after every successful parse (`sc_parseSIPMsg`, `sc_resumeRun`). -/
theorem sc_sig_fit (m1 m2 : PSIPMsg) (b : Buf) (hD : MsgDone m1 m2) (h1 : ScDone m1.hl) (h2 : ScDone m2.hl)
    (hn1 : m1.hl.n ≤ m1.hl.hdrs.size) (hn2 : m2.hl.n ≤ m2.hl.hdrs.size) : getMsgSigCore m1 b = getMsgSigCore m2 b := by
  obtain ⟨ereq, elen, ecid, efrom, emeth, hH⟩ := sc_msgDone_fields hD
  cases hr : m1.request
  · rw [getMsgSig_reply m1 b hr, getMsgSig_reply m2 b (ereq.trans hr)]
  · cases hc : m1.pv.callid.callID.get? (b.extract 0 m1.bufLen) with
    | none =>
      rw [getMsgSig_outside m1 b hr (Or.inl hc),
        getMsgSig_outside m2 b (ereq.trans hr) (Or.inl (by rw [ecid, elen]; exact hc))]
    | some cid =>
      cases ht : m1.pv.from_.tag.get? (b.extract 0 m1.bufLen) with
      | none =>
        rw [getMsgSig_outside m1 b hr (Or.inr ht),
          getMsgSig_outside m2 b (ereq.trans hr) (Or.inr (by rw [efrom, elen]; exact ht))]
      | some tag =>
        rw [getMsgSig_request m1 b hr cid tag hc ht,
          getMsgSig_request m2 b (ereq.trans hr) cid tag (by rw [ecid, elen]; exact hc)
            (by rw [efrom, elen]; exact ht), elen, emeth, ← hH.pflags]
        have key := sc_loop_fit (b.extract 0 m1.bufLen) m1.hl.pflags m1.hl.hdrs m2.hl.hdrs m1.hl.n
          (sigInit m1.fl.methodNo cid tag) hn1 (by rw [hH.n]; exact hn2)
          (fun k hk => hH.agree k hk (by omega) (by rw [hH.n] at hk; omega)) h1 (by rw [hH.n]; exact h2)
        rw [key.1, key.2, sc_verdict_fit _ _ _ hn2, sc_verdict_fit _ _ _ hn1]

/-- **(3b) a header array too small for the message** compared with any array at least as large (too small as well, or
    large enough): GetMsgSig gives the explicit truncated indication, or else exactly the same result — signature,
    verdict, panic flag — as with the larger array -/
theorem sc_sig_small (m1 m2 : PSIPMsg) (b : Buf) (hD : MsgDone m1 m2) (hsmall : m1.hl.hdrs.size < m1.hl.n)
    (hle : m1.hl.hdrs.size ≤ m2.hl.hdrs.size) :
    (getMsgSigCore m1 b).2.1 = .trunc ∨ getMsgSigCore m1 b = getMsgSigCore m2 b := by
  obtain ⟨ereq, elen, ecid, efrom, emeth, hH⟩ := sc_msgDone_fields hD
  cases hr : m1.request
  · right; rw [getMsgSig_reply m1 b hr, getMsgSig_reply m2 b (ereq.trans hr)]
  · cases hc : m1.pv.callid.callID.get? (b.extract 0 m1.bufLen) with
    | none =>
      right
      rw [getMsgSig_outside m1 b hr (Or.inl hc),
        getMsgSig_outside m2 b (ereq.trans hr) (Or.inl (by rw [ecid, elen]; exact hc))]
    | some cid =>
      cases ht : m1.pv.from_.tag.get? (b.extract 0 m1.bufLen) with
      | none =>
        right
        rw [getMsgSig_outside m1 b hr (Or.inr ht),
          getMsgSig_outside m2 b (ereq.trans hr) (Or.inr (by rw [efrom, elen]; exact ht))]
      | some tag =>
        cases hex : (msgSigLoop (b.extract 0 m1.bufLen) m1.hl.pflags m1.hl.hdrs.toList
            (sigInit m1.fl.methodNo cid tag)).2
        · left
          rw [getMsgSig_request m1 b hr cid tag hc ht]
          simp only [hex, Bool.false_eq_true, ↓reduceIte]
          rw [if_pos hsmall]
        · right
          rw [getMsgSig_request m1 b hr cid tag hc ht,
            getMsgSig_request m2 b (ereq.trans hr) cid tag (by rw [ecid, elen]; exact hc)
              (by rw [efrom, elen]; exact ht), elen, emeth, ← hH.pflags]
          have hpre := sc_toList_prefix m1.hl.hdrs m2.hl.hdrs hle
            (fun k hk => hH.agree k (by omega) hk (by omega))
          have hloop : msgSigLoop (b.extract 0 m1.bufLen) m1.hl.pflags m2.hl.hdrs.toList
                (sigInit m1.fl.methodNo cid tag) =
              msgSigLoop (b.extract 0 m1.bufLen) m1.hl.pflags m1.hl.hdrs.toList (sigInit m1.fl.methodNo cid tag) := by
            rw [hpre]
            exact msgSigLoop_append_exit _ _ _ _ _ hex
          rw [hloop]
          simp only [hex, ↓reduceIte]

/-! #### the capacity of the header array never changes -/

theorem sc_size_parseHeaders (b : Buf) (offs : Nat) (hl : HdrLst) (hb : Option PHdrVals) :
    (parseHeaders b offs hl hb).2.2.1.hdrs.size = hl.hdrs.size := by
  induction hk : b.size - offs using Nat.strongRecOn generalizing offs hl hb with
  | _ k ih =>
    rw [parseHeaders.eq_1 b offs hl hb]
    by_cases hlt : offs < b.size
    · rw [if_pos hlt]
      rcases hp1 : parseHdrLine b offs hl.cur hb with ⟨n1, e1, g1, v1⟩
      have hacc : ((hl.setCur g1).accept g1).hdrs.size = hl.hdrs.size := by rw [accept_hdrs, hlSetCur_size]
      cases e1 <;> simp only
      case ok =>
        by_cases hg : offs < n1
        · rw [if_pos hg, ih (b.size - n1) (by omega) n1 _ v1 rfl, hacc]
        · rw [if_neg hg]; exact hacc
      case empty => split <;> exact hlSetCur_size hl g1
      all_goals exact hlSetCur_size hl g1
    · rw [if_neg hlt]

theorem sc_hl_msgErr (m : PSIPMsg) (o : Nat) (e : Err) (flags : Nat) : (msgErr m o e flags).2.2.hl = m.hl := by
  unfold msgErr
  split
  · rfl
  · split <;> rfl

theorem sc_size_parseSIPMsg (b : Buf) (o : Nat) (m : PSIPMsg) (flags : Nat) :
    (parseSIPMsg b o m flags).2.2.hl.hdrs.size = m.hl.hdrs.size := by
  have hH : ∀ (o : Nat) (m : PSIPMsg), (msgHeaders b o m flags).2.2.hl.hdrs.size = m.hl.hdrs.size := by
    intro o m
    unfold msgHeaders
    have hs := sc_size_parseHeaders b o m.hl (some m.pv)
    rcases hp : parseHeaders b o m.hl (some m.pv) with ⟨o1, e1, hl1, hb1⟩
    rw [hp] at hs
    cases e1 <;> simp only
    case ok => rw [(msgBody_done_pv b o1 _ flags).1]; exact hs
    all_goals (rw [sc_hl_msgErr]; exact hs)
  have hF : ∀ (o : Nat) (m : PSIPMsg), (msgFLine b o m flags).2.2.hl.hdrs.size = m.hl.hdrs.size := by
    intro o m
    unfold msgFLine
    rcases hp : parseFLine b o m.fl with ⟨o1, e1, fl1⟩
    cases e1 <;> simp only
    case ok => exact hH o1 _
    all_goals rw [sc_hl_msgErr]
  unfold parseSIPMsg
  cases hst : m.state <;> simp only
  case init => exact hF o _
  case fline => exact hF o m
  case headers => exact hH o m
  case body => rw [(msgBody_done_pv b o m flags).1]
  all_goals rw [sc_hl_msgErr]

theorem sc_size_resumeRun (flags : Nat) (o : Nat) (m : PSIPMsg) (l : List Buf) :
    (resumeRun (fun b o m => parseSIPMsg b o m flags) o m l).2.2.hl.hdrs.size = m.hl.hdrs.size := by
  induction l generalizing o m with
  | nil => rfl
  | cons b rest ih =>
    have h1 := sc_size_parseSIPMsg b o m flags
    cases rest with
    | nil => exact h1
    | cons b' rest' =>
      simp only [resumeRun]
      rcases hp : parseSIPMsg b o m flags with ⟨o1, e1, s1⟩
      rw [hp] at h1
      by_cases hm : e1 = .moreBytes
      · subst hm
        simp only
        rw [ih o1 s1]; exact h1
      · cases e1 <;> first | exact absurd rfl hm | exact h1

/-- the capacity Init installs: the caller's, or 10 (the private array) when none is supplied -/
def scCap (kh : Nat) (hdrs : Option Unit) : Nat := (hdrs.map fun _ => kh).getD 10

theorem sc_size_init (m0 : PSIPMsg) (len kh kc : Nat) (hdrs cts : Option Unit) :
    (m0.init len (hdrs.map fun _ => Array.replicate kh {}) (cts.map fun _ => Array.replicate kc {})).hl.hdrs.size =
      scCap kh hdrs := by
  cases hdrs <;> simp [PSIPMsg.init, scCap]

/-- **(3) capacities, any chunk schedule, from Init**: two runs over the same chunk schedule on objects initialised
    with ANY two header / contact capacities (or none = the private arrays of 10), the first one ending with OK:
    the second one ends with OK at the same offset with the same header count `n`; the arrays keep their capacities;
    * if both capacities hold all `n` headers, GetMsgSig gives the same result (signature, verdict OK, panic flag);
    * if the first capacity is too small and the second is not smaller, GetMsgSig on the first object gives the
      truncated indication, or else exactly the result on the second object. -/
theorem sc_sig_capacity (flags : Nat) (o : Nat) (m0 m0' : PSIPMsg) (len kh1 kc1 kh2 kc2 : Nat)
    (hd1 ct1 hd2 ct2 : Option Unit) (l : List Buf) (hg : Growing l) (hfit : ∀ x ∈ l, x.size ≤ 65535)
    (ho : ∀ b ∈ l.head?, o ≤ b.size) (hne : l ≠ [])
    (r1 r2 : Nat × Err × PSIPMsg)
    (hr1 : r1 = resumeRun (fun b o m => parseSIPMsg b o m flags) o
      (m0.init len (hd1.map fun _ => Array.replicate kh1 {}) (ct1.map fun _ => Array.replicate kc1 {})) l)
    (hr2 : r2 = resumeRun (fun b o m => parseSIPMsg b o m flags) o
      (m0'.init len (hd2.map fun _ => Array.replicate kh2 {}) (ct2.map fun _ => Array.replicate kc2 {})) l)
    (hok : r1.2.1 = .ok) :
    r2.1 = r1.1 ∧ r2.2.1 = .ok ∧ r2.2.2.hl.n = r1.2.2.hl.n ∧
    r1.2.2.hl.hdrs.size = scCap kh1 hd1 ∧ r2.2.2.hl.hdrs.size = scCap kh2 hd2 ∧
    (r1.2.2.hl.n ≤ scCap kh1 hd1 → r1.2.2.hl.n ≤ scCap kh2 hd2 → ∀ b, getMsgSigCore r1.2.2 b = getMsgSigCore r2.2.2 b) ∧
    (scCap kh1 hd1 < r1.2.2.hl.n → scCap kh1 hd1 ≤ scCap kh2 hd2 →
      ∀ b, (getMsgSigCore r1.2.2 b).2.1 = .trunc ∨ getMsgSigCore r1.2.2 b = getMsgSigCore r2.2.2 b) := by
  have hout : MsgOut r1 r2 := by
    rw [hr1, hr2]
    exact Sipsp.capacity_schedule flags o _ _ l hg hfit (MsgRel_init m0 m0' len kh1 kc1 kh2 kc2 hd1 ct1 hd2 ct2)
      (fun b hb => msgOK2_init b o (ho b hb) m0 len kh1 kc1 hd1 ct1) hne
  obtain ⟨e1, e2, _, e4⟩ := hout
  have hD : MsgDone r1.2.2 r2.2.2 := e4 hok
  have hok2 : r2.2.1 = .ok := by rw [← e2]; exact hok
  have hs1 : r1.2.2.hl.hdrs.size = scCap kh1 hd1 := by
    rw [hr1, sc_size_resumeRun, sc_size_init]
  have hs2 : r2.2.2.hl.hdrs.size = scCap kh2 hd2 := by
    rw [hr2, sc_size_resumeRun, sc_size_init]
  have hd1' : ScDone r1.2.2.hl := by
    have := (sc_resumeRun flags o _ l (ScMsg_init m0 len kh1 kc1 hd1 ct1)).2
    rw [← hr1] at this; exact this hok
  have hd2' : ScDone r2.2.2.hl := by
    have := (sc_resumeRun flags o _ l (ScMsg_init m0' len kh2 kc2 hd2 ct2)).2
    rw [← hr2] at this; exact this hok2
  have hn : r2.2.2.hl.n = r1.2.2.hl.n := (sc_msgDone_fields hD).2.2.2.2.2.n.symm
  refine ⟨e1.symm, hok2, hn, hs1, hs2, fun f1 f2 b => ?_, fun f1 f2 b => ?_⟩
  · exact sc_sig_fit r1.2.2 r2.2.2 b hD hd1' hd2' (by rw [hs1]; exact f1) (by rw [hs2, hn]; exact f2)
  · exact sc_sig_small r1.2.2 r2.2.2 b hD (by rw [hs1]; exact f1) (by rw [hs1, hs2]; exact f2)

/-! ### (1f) Reset of a reachable object is an Init object (contacts: entries above the one in progress untouched) -/

theorem sc_ct_setCur (c : PContacts) (pf : PFromBody) (h : TailZero c.vals {} c.n) :
    TailZero (c.setCur pf).vals {} c.n ∧ (c.setCur pf).n = c.n := by
  unfold PContacts.setCur
  split
  · exact ⟨tailZero_set _ _ _ _ h, rfl⟩
  · exact ⟨h, rfl⟩

theorem sc_ct_account (c : PContacts) (pf : PFromBody) :
    (c.account pf).vals = c.vals ∧ (c.account pf).n = c.n + 1 := by
  unfold PContacts.account
  simp only
  repeat' split
  all_goals exact ⟨rfl, rfl⟩

theorem sc_ct_contactsLoop (b : Buf) (offs : Nat) (c : PContacts) (h : TailZero c.vals {} c.n) :
    TailZero (contactsLoop b offs c).2.2.vals {} (contactsLoop b offs c).2.2.n := by
  induction hk : b.size - offs using Nat.strongRecOn generalizing offs c with
  | _ k ih =>
    rw [contactsLoop]
    simp only
    rcases hp : parseOneContact b offs c.cur with ⟨next, e, pf⟩
    obtain ⟨hs1, hs2⟩ := sc_ct_setCur c pf h
    obtain ⟨ha1, ha2⟩ := sc_ct_account (c.setCur pf) pf
    have hacc : TailZero ((c.setCur pf).account pf).vals {} ((c.setCur pf).account pf).n := by
      rw [ha1, ha2, hs2]; exact tailZero_mono _ _ _ _ (Nat.le_succ _) hs1
    cases e
    case ok => simp only; exact hacc
    case moreValues =>
      simp only
      split
      · apply ih (b.size - next) (by omega) next _ _ rfl
        split
        · exact hacc
        · exact hacc
      · simp only
        split
        · exact hacc
        · exact hacc
    case moreBytes => simp only; rw [hs2]; exact hs1
    all_goals
      simp only
      split
      · rw [hs2]; exact hs1
      · exact h

theorem sc_ct_parseAll (b : Buf) (offs : Nat) (c : PContacts) (h : TailZero c.vals {} c.n) :
    TailZero (parseAllContactValues b offs c).2.2.vals {} (parseAllContactValues b offs c).2.2.n := by
  unfold parseAllContactValues
  apply sc_ct_contactsLoop
  split <;> exact h

/-- the contacts of the header values (if any) satisfy the tail invariant -/
def ScHb (hb : Option PHdrVals) : Prop := ∀ hv, hb = some hv → TailZero hv.contacts.vals {} hv.contacts.n

theorem ScHb_some {hv : PHdrVals} (h : TailZero hv.contacts.vals {} hv.contacts.n) : ScHb (some hv) := by
  intro hv' hh; cases hh; exact h

theorem sc_ct_parseBody (b : Buf) (o : Nat) (h : Hdr) (hb : Option PHdrVals) (H : ScHb hb) :
    ScHb (parseBody b o h hb).2.2.2 := by
  unfold parseBody
  cases hb with
  | none => exact H
  | some hv =>
  have H0 : TailZero hv.contacts.vals {} hv.contacts.n := H hv rfl
  simp only
  by_cases h1 : (h.type == HdrFrom) = true
  · simp only [h1, ↓reduceIte]
    split
    · exact ScHb_some H0
    · exact H
  simp only [h1, Bool.false_eq_true, ↓reduceIte]
  by_cases h2 : (h.type == HdrTo) = true
  · simp only [h2, ↓reduceIte]
    split
    · exact ScHb_some H0
    · exact H
  simp only [h2, Bool.false_eq_true, ↓reduceIte]
  by_cases h3 : (h.type == HdrCallID) = true
  · simp only [h3, ↓reduceIte]
    split
    · exact ScHb_some H0
    · exact H
  simp only [h3, Bool.false_eq_true, ↓reduceIte]
  by_cases h4 : (h.type == HdrCSeq) = true
  · simp only [h4, ↓reduceIte]
    split
    · exact ScHb_some H0
    · exact H
  simp only [h4, Bool.false_eq_true, ↓reduceIte]
  by_cases h5 : (h.type == HdrCLen) = true
  · simp only [h5, ↓reduceIte]
    split
    · exact ScHb_some H0
    · exact H
  simp only [h5, Bool.false_eq_true, ↓reduceIte]
  by_cases h6 : (h.type == HdrContact) = true
  · simp only [h6, ↓reduceIte]
    apply ScHb_some
    apply sc_ct_parseAll
    split <;> exact H0
  simp only [h6, Bool.false_eq_true, ↓reduceIte]
  by_cases h7 : (h.type == HdrExpires) = true
  · simp only [h7, ↓reduceIte]
    split
    · exact ScHb_some H0
    · exact H
  simp only [h7, Bool.false_eq_true, ↓reduceIte]
  by_cases h8 : (h.type == HdrPAI) = true
  · simp only [h8, ↓reduceIte]
    exact ScHb_some H0
  simp only [h8, Bool.false_eq_true, ↓reduceIte]
  exact H

theorem sc_ct_hlAfterColon (b : Buf) (i : Nat) (h : Hdr) (hb : Option PHdrVals) (H : ScHb hb) :
    ScHb (scStepSt (hlAfterColon b i h hb)).2 := by
  unfold hlAfterColon
  split
  · exact H
  · rename_i nm _
    have hp := sc_ct_parseBody b i { h with type := getHdrType nm } hb H
    simp only
    split
    · exact hp
    · exact hp

theorem sc_ct_hlName (b : Buf) (i : Nat) (h : Hdr) (hb : Option PHdrVals) (H : ScHb hb) :
    ScHb (scStepSt (hlName b i h hb)).2 := by
  unfold hlName
  simp only
  split
  · exact H
  · split
    · split <;> exact H
    · split
      · split
        · exact H
        · exact sc_ct_hlAfterColon b _ _ hb H
      · exact H

theorem sc_ct_hlValEnd (b : Buf) (i : Nat) (h : Hdr) (hb : Option PHdrVals) (H : ScHb hb) :
    ScHb (scStepSt (hlValEnd b i h hb)).2 := by
  unfold hlValEnd
  rcases hsk : skipLWS b i 0 with ⟨n1, crl, e⟩
  cases e <;> simp only <;> exact H

theorem sc_ct_hlCont (b : Buf) (i : Nat) (h : Hdr) (hb : Option PHdrVals) (H : ScHb hb) :
    ScHb (scStepSt (hlCont b i h hb)).2 := by
  unfold hlCont
  cases hb with
  | none => exact H
  | some hv =>
    have H0 : TailZero hv.contacts.vals {} hv.contacts.n := H hv rfl
    simp only
    cases h.state <;> simp only
    case hContact => exact ScHb_some (sc_ct_parseAll b i hv.contacts H0)
    all_goals first | exact ScHb_some H0 | exact H

theorem sc_ct_hlStep (b : Buf) (i : Nat) (c : UInt8) (st : HLσ) (H : ScHb st.2) :
    ScHb (scStepSt (hlStep b i c st)).2 := by
  obtain ⟨h, hv⟩ := st
  unfold hlStep
  simp only
  cases h.state <;> simp only
  case init =>
    split
    · split
      · exact H
      · split <;> exact H
    · split
      · exact H
      · exact sc_ct_hlName b i _ hv H
  case name => exact sc_ct_hlName b i h hv H
  case nameEnd =>
    split
    · exact H
    · split
      · exact sc_ct_hlAfterColon b _ _ hv H
      · exact H
  case bodyStart =>
    rcases hsk : skipLWS b i 0 with ⟨n1, crl, e⟩
    cases e <;> simp only <;> exact H
  case val =>
    split
    · exact H
    · exact sc_ct_hlValEnd b _ _ hv H
  case valEnd => exact sc_ct_hlValEnd b i h hv H
  case fin => exact H
  all_goals exact sc_ct_hlCont b i h hv H

theorem sc_ct_parseHdrLine (b : Buf) (o : Nat) (h : Hdr) (hb : Option PHdrVals) (H : ScHb hb) :
    ScHb (parseHdrLine b o h hb).2.2.2 := by
  have key := runLoop_inv hlMachine b (fun _ st => ScHb st.2) (fun r => ScHb r.2.2.2)
    (by
      intro i c st i' st' _ hP hs
      have := sc_ct_hlStep b i c st hP
      rw [show hlMachine.step b i c st = hlStep b i c st from rfl] at hs
      rw [hs] at this
      exact ⟨fun _ => this, fun _ => this⟩)
    (by
      intro i c st o2 e2 st2 _ hP hs
      have := sc_ct_hlStep b i c st hP
      rw [show hlMachine.step b i c st = hlStep b i c st from rfl] at hs
      rw [hs] at this
      exact this)
    (by intro i st _ hP; exact hP)
    o (h, hb) H
  unfold parseHdrLine
  rcases hrl : runLoop hlMachine b o (h, hb) with ⟨o1, e1, h1, hb1⟩
  rw [hrl] at key
  exact key

theorem sc_ct_parseHeaders (b : Buf) (offs : Nat) (hl : HdrLst) (hb : Option PHdrVals) (H : ScHb hb) :
    ScHb (parseHeaders b offs hl hb).2.2.2 := by
  induction hk : b.size - offs using Nat.strongRecOn generalizing offs hl hb with
  | _ k ih =>
    rw [parseHeaders.eq_1 b offs hl hb]
    by_cases hlt : offs < b.size
    · rw [if_pos hlt]
      have hline := sc_ct_parseHdrLine b offs hl.cur hb H
      rcases hp1 : parseHdrLine b offs hl.cur hb with ⟨n1, e1, g1, v1⟩
      rw [hp1] at hline
      cases e1 <;> simp only
      case ok =>
        by_cases hg : offs < n1
        · rw [if_pos hg]
          exact ih (b.size - n1) (by omega) n1 _ v1 hline rfl
        · rw [if_neg hg]; exact hline
      case empty => split <;> exact hline
      all_goals exact hline
    · rw [if_neg hlt]; exact H

/-- the message-level contacts invariant -/
def ScCt (m : PSIPMsg) : Prop := TailZero m.pv.contacts.vals {} m.pv.contacts.n

theorem sc_pv_msgErr (m : PSIPMsg) (o : Nat) (e : Err) (flags : Nat) : (msgErr m o e flags).2.2.pv = m.pv := by
  unfold msgErr
  split
  · rfl
  · split <;> rfl

/-- **ParseSIPMsg preserves the contacts invariant** (any buffer, offset, flags, verdict) -/
theorem sc_ct_parseSIPMsg (b : Buf) (o : Nat) (m : PSIPMsg) (flags : Nat) (H : ScCt m) :
    ScCt (parseSIPMsg b o m flags).2.2 := by
  have hH : ∀ (o : Nat) (m : PSIPMsg), ScCt m → ScCt (msgHeaders b o m flags).2.2 := by
    intro o m H
    unfold msgHeaders
    have hs := sc_ct_parseHeaders b o m.hl (some m.pv) (ScHb_some H)
    rcases hp : parseHeaders b o m.hl (some m.pv) with ⟨o1, e1, hl1, hb1⟩
    rw [hp] at hs
    have hpv : TailZero (hb1.getD m.pv).contacts.vals {} (hb1.getD m.pv).contacts.n := by
      cases hb1 with
      | none => exact H
      | some hv => exact hs hv rfl
    cases e1 <;> simp only
    case ok => unfold ScCt; rw [(msgBody_done_pv b o1 _ flags).2]; exact hpv
    all_goals (unfold ScCt; rw [sc_pv_msgErr]; exact hpv)
  have hF : ∀ (o : Nat) (m : PSIPMsg), ScCt m → ScCt (msgFLine b o m flags).2.2 := by
    intro o m H
    unfold msgFLine
    rcases hp : parseFLine b o m.fl with ⟨o1, e1, fl1⟩
    cases e1 <;> simp only
    case ok => exact hH o1 _ H
    all_goals (unfold ScCt; rw [sc_pv_msgErr]; exact H)
  unfold parseSIPMsg
  cases hst : m.state <;> simp only
  case init => exact hF o _ H
  case fline => exact hF o m H
  case headers => exact hH o m H
  case body => unfold ScCt; rw [(msgBody_done_pv b o m flags).2]; exact H
  all_goals (unfold ScCt; rw [sc_pv_msgErr]; exact H)

theorem sc_map_const (a : Array Hdr) : a.map (fun _ => ({} : Hdr)) = Array.replicate a.size {} := by
  apply Array.ext
  · simp
  · intro i h1 h2; simp

/-- **Reset of an object that satisfies the contacts invariant is an Init object** with the same capacities -/
theorem sc_reset_eq_init (m : PSIPMsg) (H : ScCt m) :
    m.reset = ({} : PSIPMsg).init m.bufLen ((some ()).map fun _ => Array.replicate m.hl.hdrs.size {})
      ((some ()).map fun _ => Array.replicate m.pv.contacts.vals.size {}) := by
  have h1 : m.hl.reset.hdrs = Array.replicate m.hl.hdrs.size {} := sc_map_const m.hl.hdrs
  have h2 : m.pv.reset.contacts.vals = Array.replicate m.pv.contacts.vals.size {} :=
    clearUpToP_of_tailZero m.pv.contacts.vals {} m.pv.contacts.n H
  unfold PSIPMsg.reset
  rw [h1, h2]
  rfl

/-! ### (1g) any history -/

/-- the life of a message object: the zero value or Init (of anything, with cleared caller arrays or none), then any
    sequence of Reset and ParseSIPMsg calls — any buffer, offset and flags, whatever the verdict (complete,
    suspended, failed, called again after an error, on unrelated buffers, …) -/
inductive ScReach : PSIPMsg → Prop
  | new : ScReach {}
  | init (m0 : PSIPMsg) (len kh kc : Nat) (hdrs cts : Option Unit) :
      ScReach (m0.init len (hdrs.map fun _ => Array.replicate kh {}) (cts.map fun _ => Array.replicate kc {}))
  | reset {m : PSIPMsg} : ScReach m → ScReach m.reset
  | parse {m : PSIPMsg} (b : Buf) (o flags : Nat) : ScReach m → ScReach (parseSIPMsg b o m flags).2.2

theorem ScCt_init (m0 : PSIPMsg) (len kh kc : Nat) (hdrs cts : Option Unit) :
    ScCt (m0.init len (hdrs.map fun _ => Array.replicate kh {}) (cts.map fun _ => Array.replicate kc {})) := by
  cases cts with
  | none => exact tailZero_new ({} : PFromBody) 10 0
  | some _ => exact tailZero_new ({} : PFromBody) kc 0

/-- **both invariants hold at every point of every history** -/
theorem ScReach.inv {m : PSIPMsg} (h : ScReach m) : ScMsg m ∧ ScCt m := by
  induction h with
  | new =>
    refine ⟨ScMsg_of_tail (ScTail_new 0) ⟨(fun hh => by cases hh), (fun hh => by cases hh)⟩, ?_⟩
    intro k _ hk
    exact absurd hk (Nat.not_lt_zero _)
  | init m0 len kh kc hdrs cts => exact ⟨ScMsg_init m0 len kh kc hdrs cts, ScCt_init m0 len kh kc hdrs cts⟩
  | @reset m _ ih =>
    refine ⟨ScMsg_reset m, ?_⟩
    rw [sc_reset_eq_init m ih.2]
    exact ScCt_init _ _ _ _ _ _
  | parse b o flags _ ih => exact ⟨(sc_parseSIPMsg b o _ flags ih.1).1, sc_ct_parseSIPMsg b o _ flags ih.2⟩

/-- **after ANY history** that left the object legitimate for the next call (`msgOK2`, `MsgSafe`: a resumed call on
    an extension of the same buffer; for the first call after Init / Reset they hold, see below), a successful
    ParseSIPMsg is followed by a panic-free GetMsgSig -/
theorem sc_getMsgSig_safe_history (b : Buf) (o : Nat) (m : PSIPMsg) (flags : Nat) (hfit : b.size ≤ 65535)
    (hR : ScReach m) (hok : msgOK2 b o m) (H : MsgSafe b o m) {o' : Nat} {m' : PSIPMsg}
    (hr : parseSIPMsg b o m flags = (o', .ok, m')) : (getMsgSigCore m' b).2.2 = false :=
  sc_getMsgSig_safe b o m flags hfit hR.inv.1 hok H hr

/-- **Reset after any history gives an Init object** (so every theorem stated "from Init" applies after Reset) … -/
theorem sc_reset_after_history {m : PSIPMsg} (hR : ScReach m) :
    m.reset = ({} : PSIPMsg).init m.bufLen ((some ()).map fun _ => Array.replicate m.hl.hdrs.size {})
      ((some ()).map fun _ => Array.replicate m.pv.contacts.vals.size {}) :=
  sc_reset_eq_init m hR.inv.2

/-- … in particular it is legitimate for a first call at any offset inside any buffer -/
theorem sc_reset_legit {m : PSIPMsg} (hR : ScReach m) (b : Buf) (o : Nat) (ho : o ≤ b.size) :
    msgOK2 b o m.reset ∧ MsgSafe b o m.reset := by
  rw [sc_reset_after_history hR]
  exact ⟨msgOK2_init b o ho _ _ _ _ _ _, MsgSafe_init b o ho _ _ _ _ _ _⟩

/-- **any history, then Reset, then one successful call**: GetMsgSig does not panic (no legitimacy hypothesis left) -/
theorem sc_getMsgSig_safe_reset {m : PSIPMsg} (hR : ScReach m) (b : Buf) (o : Nat) (ho : o ≤ b.size) (flags : Nat)
    (hfit : b.size ≤ 65535) {o' : Nat} {m' : PSIPMsg} (hr : parseSIPMsg b o m.reset flags = (o', .ok, m')) :
    (getMsgSigCore m' b).2.2 = false :=
  sc_getMsgSig_safe b o m.reset flags hfit (ScMsg_reset m) (sc_reset_legit hR b o ho).1 (sc_reset_legit hR b o ho).2 hr

/-- **any history, then Reset, then any chunk schedule that ends with OK**: as `sc_getMsgSig_safe_schedule` -/
theorem sc_getMsgSig_safe_reset_schedule {m : PSIPMsg} (hR : ScReach m) (flags : Nat) (o : Nat)
    (l : List Buf) (hg : Growing l) (hfit : ∀ x ∈ l, x.size ≤ 65535) (hne : l ≠ []) (ho : ∀ b ∈ l, o ≤ b.size)
    {o' : Nat} {m' : PSIPMsg} (hr : resumeRun (C01.msgP flags) o m.reset l = (o', .ok, m')) :
    ∃ b ∈ l, parseSIPMsg b o m.reset flags = (o', .ok, m') ∧ m'.bufLen ≤ b.size ∧
      ∀ s, (getMsgSigCore m' (b ++ s)).2.2 = false := by
  rw [sc_reset_after_history hR] at hr ⊢
  exact sc_getMsgSig_safe_schedule flags o _ _ _ _ _ _ l hg hfit hne ho hr

end Sipsp

namespace Sipsp

/-! ### tests / non-vacuity (closed computations by `decide +kernel`; these are examples, not the general claims) -/

/-- test message: INVITE with Via, Subject, compact From, To, Call-ID, CSeq, a second Via, Content-Length (8 headers) -/
def scTestMsg : Buf := "INVITE sip:a@b SIP/2.0\r\nVia: SIP/2.0/UDP h;branch=z9hG4bK-a.b\r\nSubject: x\r\nf: <sip:a@b>;tag=a-1\r\nTo: <sip:c@d>\r\nCall-ID: x@1.2.3.4\r\nCSeq: 1 INVITE\r\nVia: SIP/2.0/UDP h2\r\nContent-Length: 0\r\n\r\n".toUTF8.data

/-- the object after Init with a header array of `k` entries (written as the theorems write it) -/
def scTestInit (k : Nat) : PSIPMsg :=
  ({} : PSIPMsg).init 0 ((some ()).map fun _ => Array.replicate k {}) ((none : Option Unit).map fun _ => Array.replicate 0 {})

theorem scTest_fit : scTestMsg.size ≤ 65535 := by decide +kernel

/-- test (1): the one-shot parse succeeds, so the hypotheses of `sc_getMsgSig_safe_init` are satisfiable … -/
theorem scTest_ok : (parseSIPMsg scTestMsg 0 (scTestInit 12) 0).2.1 = .ok := by decide +kernel

/-- … and its use -/
example : (getMsgSigCore (parseSIPMsg scTestMsg 0 (scTestInit 12) 0).2.2 scTestMsg).2.2 = false := by
  have he := scTest_ok
  generalize hp : parseSIPMsg scTestMsg 0 (scTestInit 12) 0 = r at he ⊢
  obtain ⟨o', e, m'⟩ := r
  simp only at he
  subst he
  exact sc_getMsgSig_safe_init scTestMsg 0 (Nat.zero_le _) {} 0 12 0 (some ()) none 0 scTest_fit hp

/-- test (1): the unfilled slots of the 12-entry array after the parse (`ScDone`, computed) -/
example : (parseSIPMsg scTestMsg 0 (scTestInit 12) 0).2.2.hl.n = 8 ∧
    ((parseSIPMsg scTestMsg 0 (scTestInit 12) 0).2.2.hl.hdrs.toList.drop 8).map (·.type) = [0, 0, 0, 0] := by
  decide +kernel

/-- test (2): the message cut after 40 and after 100 bytes; the hypotheses of `sc_sig_chunking_whole` hold -/
def scTestCuts : List Buf := [scTestMsg.extract 0 40, scTestMsg.extract 0 100, scTestMsg]

theorem scTestCuts_growing : Growing scTestCuts :=
  ⟨⟨scTestMsg.extract 40 100, by decide +kernel⟩, ⟨scTestMsg.extract 100 scTestMsg.size, by decide +kernel⟩, trivial⟩

theorem scTestCuts_fit : ∀ x ∈ scTestCuts, x.size ≤ 65535 := by decide +kernel

theorem scTestCuts_pre : ∀ x ∈ scTestCuts.dropLast, (parseSIPMsg x 0 (scTestInit 12) 0).2.1 = .moreBytes := by
  decide +kernel

theorem scTestCuts_ne : scTestCuts ≠ [] := List.cons_ne_nil _ _

theorem scTestCuts_getLast : scTestCuts.getLast scTestCuts_ne = scTestMsg := by
  simp [scTestCuts]

theorem scTestCuts_last : (parseSIPMsg (scTestCuts.getLast scTestCuts_ne) 0 (scTestInit 12) 0).2.1 = .ok := by
  rw [scTestCuts_getLast]; exact scTest_ok

/-- test (2): the chain of three resumed calls returns the result of the one call on the whole message -/
example : resumeRun (C01.msgP 0) 0 (scTestInit 12) scTestCuts = parseSIPMsg scTestMsg 0 (scTestInit 12) 0 := by
  have hpre := scTestCuts_pre
  have hlast := scTestCuts_last
  unfold scTestInit at hpre hlast ⊢
  have h := (sc_sig_chunking_whole 0 0 {} 0 12 0 (some ()) none scTestCuts scTestCuts_growing scTestCuts_fit
    scTestCuts_ne (by intro b hb; exact Nat.zero_le _) hpre hlast).1
  rw [scTestCuts_getLast] at h
  exact h

/-- test (2): the signature of the chunked parse, computed -/
example : getMsgSigCore (resumeRun (C01.msgP 0) 0 (scTestInit 12) scTestCuts).2.2 scTestMsg =
    ({ method := 2, cidSLen := 1, cidSig := 10, fromSig := 64, viaBSig := 80, hdrSig := [6, 11, 5, 0, 2] },
     .ok, false) := by decide +kernel

/-- test (3a): capacities 8 (exactly the header count) and 12: the same result -/
example : (parseSIPMsg scTestMsg 0 (scTestInit 8) 0).2.2.hl.n = 8 ∧
    getMsgSigCore (parseSIPMsg scTestMsg 0 (scTestInit 8) 0).2.2 scTestMsg =
      getMsgSigCore (parseSIPMsg scTestMsg 0 (scTestInit 12) 0).2.2 scTestMsg := by decide +kernel

/-- test (3b): capacity 3: truncated indication, with the entries of the stored part -/
example : getMsgSigCore (parseSIPMsg scTestMsg 0 (scTestInit 3) 0).2.2 scTestMsg =
    ({ method := 2, cidSLen := 1, cidSig := 10, fromSig := 64, viaBSig := 80, hdrSig := [6, 11] }, .trunc, false) := by
  decide +kernel

/-- test (3): the hypotheses of `sc_sig_capacity` for capacity 3 against capacity 12 on the one-chunk schedule -/
example : (resumeRun (fun b o m => parseSIPMsg b o m 0) 0 (scTestInit 3) [scTestMsg]).2.1 = .ok ∧
    scCap 3 (some ()) < (resumeRun (fun b o m => parseSIPMsg b o m 0) 0 (scTestInit 3) [scTestMsg]).2.2.hl.n ∧
    scCap 3 (some ()) ≤ scCap 12 (some ()) := by decide +kernel

/-- test message 2: the five fingerprinted headers first, then two others (7 headers) -/
def scTestMsg2 : Buf := "OPTIONS sip:a@b SIP/2.0\r\nVia: SIP/2.0/UDP h\r\nFrom: <sip:a@b>;tag=1\r\nTo: <sip:c@d>\r\nCall-ID: x\r\nCSeq: 1 OPTIONS\r\nSubject: x\r\nContent-Length: 0\r\n\r\n".toUTF8.data

/-- test (3c): a too small array (5 slots for 7 headers) that holds every flagged fingerprinted header before any other
    one: no truncated indication, the same result as with a large array (the "or else the same" branch of (3b)) -/
example : (parseSIPMsg scTestMsg2 0 (scTestInit 5) 0).2.2.hl.n = 7 ∧
    (getMsgSigCore (parseSIPMsg scTestMsg2 0 (scTestInit 5) 0).2.2 scTestMsg2).2.1 = .ok ∧
    getMsgSigCore (parseSIPMsg scTestMsg2 0 (scTestInit 5) 0).2.2 scTestMsg2 =
      getMsgSigCore (parseSIPMsg scTestMsg2 0 (scTestInit 12) 0).2.2 scTestMsg2 := by decide +kernel

/-- test (1g): an object that failed inside a header line, was used again in the error state (other buffer, offset,
    flags), then Reset: reachable; the parse of the test message on it succeeds, so the hypotheses of
    `sc_getMsgSig_safe_reset` are satisfiable -/
def scTestUsed : PSIPMsg :=
  (parseSIPMsg scTestMsg2 3
    (parseSIPMsg "INVITE sip:a SIP/2.0\r\nVia x\r\n\r\n".toUTF8.data 0 (scTestInit 2) 0).2.2 4).2.2

theorem scTestUsed_reach : ScReach scTestUsed :=
  ScReach.parse _ _ _ (ScReach.parse _ _ _ (ScReach.init {} 0 2 0 (some ()) none))

theorem scTestUsed_ok : (parseSIPMsg scTestMsg 0 scTestUsed.reset 0).2.1 = .ok ∧ scTestUsed.state = .err := by
  decide +kernel

example : (getMsgSigCore (parseSIPMsg scTestMsg 0 scTestUsed.reset 0).2.2 scTestMsg).2.2 = false := by
  have he := scTestUsed_ok.1
  generalize hp : parseSIPMsg scTestMsg 0 scTestUsed.reset 0 = r at he ⊢
  obtain ⟨o', e, m'⟩ := r
  simp only at he
  subst he
  exact sc_getMsgSig_safe_reset scTestUsed_reach scTestMsg 0 (Nat.zero_le _) 0 scTest_fit hp

end Sipsp
