/-
  Sipsp.Proofs.FLineSpec — what ParseFLine reports for a line of the request / reply grammar.
-/
import Sipsp.Proofs.Scan

namespace Sipsp

/-- the bytes at positions `[i, j)` are all present and none of them is SP / HT / CR / LF -/
def TokenRun (b : Buf) (i j : Nat) : Prop := ∀ k, i ≤ k → k < j → ∃ c, b[k]? = some c ∧ isLWSch c = false

/-- the bytes at positions `[i, j)` are all present and none of them is CR / LF -/
def LineRun (b : Buf) (i j : Nat) : Prop := ∀ k, i ≤ k → k < j → ∃ c, b[k]? = some c ∧ isCRLFch c = false

theorem skipToken_run (b : Buf) (i j : Nat) (hij : i ≤ j) (hr : TokenRun b i j) {c : UInt8}
    (hj : b[j]? = some c) (hc : isLWSch c = true) : skipToken b i = j := by
  induction hk : j - i generalizing i with
  | zero =>
    have : i = j := by omega
    subst this
    exact skipToken_eq_self hj hc
  | succ n ih =>
    obtain ⟨c0, h0, h1⟩ := hr i (Nat.le_refl _) (by omega)
    rw [skipToken_step h0 h1]
    exact ih (i + 1) (by omega) (fun k hk1 hk2 => hr k (by omega) hk2) (by omega)

theorem skipToEOL_run (b : Buf) (i j : Nat) (hij : i ≤ j) (hr : LineRun b i j) {c : UInt8}
    (hj : b[j]? = some c) (hc : isCRLFch c = true) : skipToEOL b i = j := by
  induction hk : j - i generalizing i with
  | zero =>
    have : i = j := by omega
    subst this
    exact skipToEOL_eq_self hj hc
  | succ n ih =>
    obtain ⟨c0, h0, h1⟩ := hr i (Nat.le_refl _) (by omega)
    rw [skipToEOL_step h0 h1]
    exact ih (i + 1) (by omega) (fun k hk1 hk2 => hr k (by omega) hk2) (by omega)

theorem trunc16_id {x : Nat} (h : x ≤ 65535) : trunc16 x = x := trunc16_of_lt (by omega)

theorem set_extend (i j : Nat) (hij : i ≤ j) (hj : j ≤ 65535) :
    (PField.set i i).extend j = ⟨i, j - i⟩ := by
  unfold PField.set PField.extend
  simp only [Nat.sub_self]
  rw [trunc16_id (by omega), trunc16_id hj]
  congr 1
  have : j + 65536 - i = (j - i) + 65536 := by omega
  rw [this, Nat.add_mod_right]
  exact Nat.mod_eq_of_lt (by omega)

theorem set_extendPanics (i j : Nat) (hij : i ≤ j) (hi : i ≤ 65535) : (PField.set i i).extendPanics j = false := by
  unfold PField.set PField.extendPanics
  simp only
  rw [trunc16_id hi]
  simp; omega

theorem field_get? (b : Buf) (i l : Nat) (h : i + l ≤ b.size) (hfit : b.size ≤ 65535) :
    PField.get? b ⟨i, l⟩ = some (b.extract i (i + l)) := by
  unfold PField.get? PField.endT
  simp only
  rw [trunc16_id (by omega)]
  rw [if_pos ⟨by omega, h⟩]

/-- **request line**: `method SP uri SP version EOL` -/
theorem parseFLine_request (b : Buf) (o m u v e crl : Nat) (hfit : b.size ≤ 65535)
    (hlen : ¬ b.size - o < 14)
    (hnr : (bcPrefix sipVerSP (b.extract o (o + 8)).toList).2 = false)
    (hm : TokenRun b o m) (hm0 : o < m) (hsp1 : b[m]? = some 32)
    (hu : TokenRun b (m + 1) u) (hu0 : m + 1 < u) (hsp2 : b[u]? = some 32)
    (hv : TokenRun b (u + 1) v) (hv0 : u + 1 < v) {c : UInt8} (hend : b[v]? = some c) (hc : c = 13 ∨ c = 10)
    (heol : skipCRLF b v = (e, crl, .ok)) :
    parseFLine b o {} =
      (e, .ok, { method := ⟨o, m - o⟩, uri := ⟨m + 1, u - (m + 1)⟩, version := ⟨u + 1, v - (u + 1)⟩,
                 methodNo := getMethodNo (b.extract o m), state := .fin }) := by
  have hvlt := get?_lt hend
  have hcl : isLWSch c = true := by rcases hc with rfl | rfl <;> decide
  have h32 : isLWSch (32 : UInt8) = true := by decide
  unfold parseFLine
  simp only
  rw [if_neg hlen]
  rcases hbp : bcPrefix sipVerSP (b.extract o (o + 8)).toList with ⟨l, ok⟩
  rw [hbp] at hnr
  simp only at hnr
  subst hnr
  simp only
  -- method
  unfold flReqMethod
  simp only
  rw [skipToken_run b o m (by omega) hm hsp1 h32, hsp1]
  simp only [show ((32 : UInt8) != 32) = false from rfl, Bool.false_eq_true, ↓reduceIte]
  rw [set_extend o m (by omega) (by omega), set_extendPanics o m (by omega) (by omega)]
  have hne1 : (PField.isEmpty ⟨o, m - o⟩) = false := by unfold PField.isEmpty; simp; omega
  simp only [hne1, Bool.false_eq_true, ↓reduceIte, Bool.or_false]
  rw [field_get? b o (m - o) (by omega) hfit]
  simp only
  have : o + (m - o) = m := by omega
  rw [this]
  -- uri
  unfold flReqURI
  simp only
  rw [skipToken_run b (m + 1) u (by omega) hu hsp2 h32, hsp2]
  simp only [show ((32 : UInt8) != 32) = false from rfl, Bool.false_eq_true, ↓reduceIte]
  rw [set_extend (m + 1) u (by omega) (by omega), set_extendPanics (m + 1) u (by omega) (by omega)]
  have hne2 : (PField.isEmpty ⟨m + 1, u - (m + 1)⟩) = false := by unfold PField.isEmpty; simp; omega
  simp only [hne2, Bool.false_eq_true, ↓reduceIte, Bool.or_false]
  -- version
  unfold flReqVer
  simp only
  rw [skipToken_run b (u + 1) v (by omega) hv hend hcl, hend]
  have hcc : (c != 13 && c != 10) = false := by rcases hc with rfl | rfl <;> decide
  simp only [hcc, Bool.false_eq_true, ↓reduceIte]
  rw [set_extend (u + 1) v (by omega) (by omega), set_extendPanics (u + 1) v (by omega) (by omega)]
  have hne3 : (PField.isEmpty ⟨u + 1, v - (u + 1)⟩) = false := by unfold PField.isEmpty; simp; omega
  simp only [hne3, Bool.false_eq_true, ↓reduceIte, Bool.or_false]
  unfold flCRLF
  rw [heol]

theorem set_eq (i j : Nat) (hij : i ≤ j) (hj : j ≤ 65535) : PField.set i j = ⟨i, j - i⟩ := by
  unfold PField.set
  rw [trunc16_id (by omega), trunc16_id (by omega)]

/-- **status line**: `SIP/2.0` (any letter case) `SP ddd SP reason EOL`, the reason possibly empty -/
theorem parseFLine_reply (b : Buf) (o v e crl l : Nat) (hfit : b.size ≤ 65535)
    (hlen : ¬ b.size - o < 14)
    (hpre : bcPrefix sipVerSP (b.extract o (o + 8)).toList = (l, true))
    {d0 d1 d2 : UInt8} (h0 : b[o + 8]? = some d0) (h1 : b[o + 9]? = some d1) (h2 : b[o + 10]? = some d2)
    (hd0 : isDigit d0 = true) (hd1 : isDigit d1 = true) (hd2 : isDigit d2 = true)
    (hsp : b[o + 11]? = some 32)
    (hr : LineRun b (o + 12) v) (hv0 : o + 12 ≤ v) {c : UInt8} (hend : b[v]? = some c) (hc : c = 13 ∨ c = 10)
    (heol : skipCRLF b v = (e, crl, .ok)) :
    parseFLine b o {} =
      (e, .ok, { version := ⟨o, 7⟩, statusCode := ⟨o + 8, 3⟩,
                 status := (d0.toNat - 48) * 100 + (d1.toNat - 48) * 10 + (d2.toNat - 48),
                 reason := ⟨o + 12, v - (o + 12)⟩, state := .fin }) := by
  have hvlt := get?_lt hend
  have hcl : isCRLFch c = true := by rcases hc with rfl | rfl <;> decide
  have hl : l = 8 := by
    have hsz : (b.extract o (o + 8)).toList.length = 8 := by simp; omega
    unfold bcPrefix at hpre
    have hle : sipVerSP.length ≤ (b.extract o (o + 8)).toList.length := by rw [hsz]; decide
    rw [if_neg (by omega)] at hpre
    have := prefixAux_true sipVerSP _ 0 l hle hpre
    simpa [sipVerSP] using this
  subst hl
  unfold parseFLine
  simp only
  rw [if_neg hlen, hpre]
  simp only
  unfold flReply
  simp only
  rw [show o + 8 + 1 = o + 9 from rfl, show o + 8 + 2 = o + 10 from rfl, show o + 8 + 3 = o + 11 from rfl,
    h0, h1, h2, hsp]
  simp only [show ((32 : UInt8) != 32) = false from rfl, hd0, hd1, hd2, Bool.and_self, Bool.not_true, Bool.or_self,
    Bool.false_eq_true, ↓reduceIte]
  unfold flRplReason skipLine
  rw [show o + 8 + 4 = o + 12 from rfl, skipToEOL_run b (o + 12) v hv0 hr hend hcl, heol]
  simp only
  have hrg := skipCRLF_range heol
  have hec : e - crl = v := by have := hrg.2.2.1 rfl; omega
  rw [hec, set_extend (o + 12) v hv0 (by omega), set_extendPanics (o + 12) v hv0 (by omega)]
  rw [set_eq o (o + 8 - 1) (by omega) (by omega), set_eq (o + 8) (o + 11) (by omega) (by omega)]
  have e1 : o + 8 - 1 - o = 7 := by omega
  have e2 : o + 11 - (o + 8) = 3 := by omega
  rw [e1, e2]
  rfl

/-! ### lines that violate the single-space grammar are rejected, not mis-split -/

/-- the method token is followed by HT, CR or LF instead of a single SP -/
theorem parseFLine_reject_sep1 (b : Buf) (o m : Nat) (hlen : ¬ b.size - o < 14)
    (hnr : (bcPrefix sipVerSP (b.extract o (o + 8)).toList).2 = false)
    (hm : TokenRun b o m) (hm0 : o ≤ m) {c : UInt8} (hsep : b[m]? = some c) (hc : c = 9 ∨ c = 13 ∨ c = 10) :
    (parseFLine b o {}).2.1 = .badChar ∧ (parseFLine b o {}).1 = m := by
  have hcl : isLWSch c = true := by rcases hc with rfl | rfl | rfl <;> decide
  have hne : (c != 32) = true := by rcases hc with rfl | rfl | rfl <;> decide
  unfold parseFLine
  simp only
  rw [if_neg hlen]
  rcases hbp : bcPrefix sipVerSP (b.extract o (o + 8)).toList with ⟨l, ok⟩
  rw [hbp] at hnr
  simp only at hnr
  subst hnr
  simp only
  unfold flReqMethod
  simp only
  rw [skipToken_run b o m hm0 hm hsep hcl, hsep]
  simp only [hne, ↓reduceIte, and_self]

/-- two spaces after the method (an empty request URI) -/
theorem parseFLine_reject_empty_uri (b : Buf) (o m : Nat) (hfit : b.size ≤ 65535) (hlen : ¬ b.size - o < 14)
    (hnr : (bcPrefix sipVerSP (b.extract o (o + 8)).toList).2 = false)
    (hm : TokenRun b o m) (hm0 : o < m) (hsp1 : b[m]? = some 32) (hsp2 : b[m + 1]? = some 32) :
    (parseFLine b o {}).2.1 = .badChar := by
  have h32 : isLWSch (32 : UInt8) = true := by decide
  have hmlt := get?_lt hsp2
  unfold parseFLine
  simp only
  rw [if_neg hlen]
  rcases hbp : bcPrefix sipVerSP (b.extract o (o + 8)).toList with ⟨l, ok⟩
  rw [hbp] at hnr
  simp only at hnr
  subst hnr
  simp only
  unfold flReqMethod
  simp only
  rw [skipToken_run b o m (by omega) hm hsp1 h32, hsp1]
  simp only [show ((32 : UInt8) != 32) = false from rfl, Bool.false_eq_true, ↓reduceIte]
  rw [set_extend o m (by omega) (by omega), set_extendPanics o m (by omega) (by omega)]
  have hne1 : (PField.isEmpty ⟨o, m - o⟩) = false := by unfold PField.isEmpty; simp; omega
  simp only [hne1, Bool.false_eq_true, ↓reduceIte, Bool.or_false]
  rw [field_get? b o (m - o) (by omega) hfit]
  simp only
  unfold flReqURI
  simp only
  rw [skipToken_eq_self hsp2 h32, hsp2]
  simp only [show ((32 : UInt8) != 32) = false from rfl, Bool.false_eq_true, ↓reduceIte]
  have : (PField.isEmpty ((PField.set (m + 1) (m + 1)).extend (m + 1))) = true := by
    rw [set_extend (m + 1) (m + 1) (Nat.le_refl _) (by omega)]
    unfold PField.isEmpty; simp
  simp only [this, ↓reduceIte]

/-- the status code is not three digits followed by SP -/
theorem parseFLine_reject_status (b : Buf) (o l : Nat) (hlen : ¬ b.size - o < 14)
    (hpre : bcPrefix sipVerSP (b.extract o (o + 8)).toList = (l, true))
    {d0 d1 d2 sp : UInt8} (h0 : b[o + 8]? = some d0) (h1 : b[o + 9]? = some d1) (h2 : b[o + 10]? = some d2)
    (hsp : b[o + 11]? = some sp)
    (hbad : sp ≠ 32 ∨ isDigit d0 = false ∨ isDigit d1 = false ∨ isDigit d2 = false) :
    (parseFLine b o {}).2.1 = .badChar := by
  have hl : l = 8 := by
    have hsz : (b.extract o (o + 8)).toList.length = 8 := by simp; omega
    unfold bcPrefix at hpre
    have hle : sipVerSP.length ≤ (b.extract o (o + 8)).toList.length := by rw [hsz]; decide
    rw [if_neg (by omega)] at hpre
    have := prefixAux_true sipVerSP _ 0 l hle hpre
    simpa [sipVerSP] using this
  subst hl
  unfold parseFLine
  simp only
  rw [if_neg hlen, hpre]
  simp only
  unfold flReply
  simp only
  rw [show o + 8 + 1 = o + 9 from rfl, show o + 8 + 2 = o + 10 from rfl, show o + 8 + 3 = o + 11 from rfl,
    h0, h1, h2, hsp]
  simp only
  have : (sp != 32 || !(isDigit d0 && isDigit d1 && isDigit d2)) = true := by
    rcases hbad with h | h | h | h
    · simp [h]
    · simp [h]
    · simp [h]
    · simp [h]
  rw [if_pos this]

end Sipsp
