/-
  Sipsp.Proofs.NameAddrL2 — L2 (resumption) for ParseNameAddrPVal.
-/
import Sipsp.Proofs.NameAddrL1b

namespace Sipsp

theorem setQ_soffs (pf : PFromBody) (val : List UInt8) : (setQ pf val).soffs = pf.soffs := by
  unfold setQ; dsimp only; repeat' split
  all_goals rfl

theorem setFromParamVal_soffs (b : Buf) (pf : PFromBody) : (setFromParamVal b pf).soffs = pf.soffs := by
  unfold setFromParamVal
  repeat' split
  all_goals first | rfl | (simp only [PFromBody.clearPV]; exact setQ_soffs _ _)

theorem naLWS_soffs (h : Nat) (b : Buf) (i : Nat) (pf : PFromBody) {i' : Nat} {st' : PFromBody}
    (hs : naLWS h b i pf = .cont i' st') : st'.soffs = pf.soffs := by
  unfold naLWS lwsStd at hs
  rcases hsk : skipLWS b i 0 with ⟨n, crl, e⟩
  rw [hsk] at hs
  cases e <;> simp only at hs <;> cases hs
  rfl

theorem naStepA_soffs (h : Nat) (b : Buf) (i : Nat) (c : UInt8) (pf : PFromBody) {i' : Nat} {st' : PFromBody}
    (hs : naStepA h b i c pf = .cont i' st') : st'.soffs = pf.soffs := by
  unfold naStepA at hs
  repeat' (split at hs)
  all_goals first
    | exact (naLWS_soffs h b i _ hs).trans rfl
    | exact absurd hs (naMoreValues_not_cont h b _ i)
    | (cases hs; rfl)
    | cases hs

theorem naStepQ_soffs (h : Nat) (b : Buf) (i : Nat) (c : UInt8) (pf : PFromBody) {i' : Nat} {st' : PFromBody}
    (hs : naStepQ h b i c pf = .cont i' st') : st'.soffs = pf.soffs := by
  unfold naStepQ at hs
  repeat' (split at hs)
  all_goals first
    | exact (naLWS_soffs h b i _ hs).trans rfl
    | (cases hs; rfl)
    | cases hs

theorem naStepU_soffs (i : Nat) (c : UInt8) (pf : PFromBody) {i' : Nat} {st' : PFromBody}
    (hs : naStepU i c pf = .cont i' st') : st'.soffs = pf.soffs := by
  unfold naStepU at hs
  repeat' (split at hs)
  all_goals first
    | (cases hs; rfl)
    | cases hs

theorem naStepUF_soffs (h : Nat) (b : Buf) (i : Nat) (c : UInt8) (pf : PFromBody) {i' : Nat} {st' : PFromBody}
    (hs : naStepUF h b i c pf = .cont i' st') : st'.soffs = pf.soffs := by
  unfold naStepUF at hs
  repeat' (split at hs)
  all_goals first
    | exact (naLWS_soffs h b i _ hs).trans rfl
    | exact absurd hs (naMoreValues_not_cont h b _ i)
    | (cases hs; rfl)
    | cases hs

theorem naStepStar_soffs (h : Nat) (b : Buf) (i : Nat) (c : UInt8) (pf : PFromBody) {i' : Nat} {st' : PFromBody}
    (hs : naStepStar h b i c pf = .cont i' st') : st'.soffs = pf.soffs := by
  unfold naStepStar at hs
  split at hs
  · exact (naLWS_soffs h b i _ hs).trans rfl
  · cases hs

theorem naNameWS_soffs (pf : PFromBody) (i : Nat) : (naNameWS pf i).soffs = pf.soffs := by
  unfold naNameWS; repeat' split
  all_goals rfl

theorem naValWS_soffs (pf : PFromBody) (i n : Nat) (ok : Bool) : (naValWS pf i n ok).soffs = pf.soffs := by
  unfold naValWS; repeat' split
  all_goals rfl

theorem naParam_soffs (pf : PFromBody) (i : Nat) : (naParamsOffs (naParamStart pf i) i).soffs = pf.soffs := by
  unfold naParamsOffs naParamStart; repeat' split
  all_goals rfl

theorem naStepP_soffs (h : Nat) (b : Buf) (i : Nat) (c : UInt8) (pf : PFromBody) {i' : Nat} {st' : PFromBody}
    (hs : naStepP h b i c pf = .cont i' st') : st'.soffs = pf.soffs := by
  unfold naStepP at hs
  split at hs
  · rcases hsk : skipLWS b i 0 with ⟨n, crl, e⟩
    rw [hsk] at hs
    cases e <;> simp only at hs <;> cases hs
    exact naNameWS_soffs pf i
  · repeat' (split at hs)
    all_goals first
      | exact absurd hs (naMoreValues_not_cont h b _ i)
      | (cases hs; exact (setFromParamVal_soffs b _).trans rfl)
      | (cases hs; exact naParam_soffs pf i)
      | (cases hs; rfl)
      | cases hs

theorem naStepPE_soffs (h : Nat) (b : Buf) (i : Nat) (c : UInt8) (pf : PFromBody) {i' : Nat} {st' : PFromBody}
    (hs : naStepPE h b i c pf = .cont i' st') : st'.soffs = pf.soffs := by
  unfold naStepPE at hs
  repeat' (split at hs)
  all_goals first
    | exact absurd hs (naCommaAfterWS_not_cont h b _ i _)
    | (cases hs; exact (setFromParamVal_soffs b _).trans rfl)
    | (cases hs; rfl)
    | cases hs

theorem naStepV_soffs (h : Nat) (b : Buf) (i : Nat) (c : UInt8) (pf : PFromBody) {i' : Nat} {st' : PFromBody}
    (hs : naStepV h b i c pf = .cont i' st') : st'.soffs = pf.soffs := by
  unfold naStepV at hs
  split at hs
  · rcases hsk : skipLWS b i 0 with ⟨n, crl, e⟩
    rw [hsk] at hs
    cases e <;> simp only at hs <;> cases hs
    exact naValWS_soffs pf i _ true
  · repeat' (split at hs)
    all_goals first
      | exact absurd hs (naMoreValues_not_cont h b _ i)
      | (cases hs; exact (setFromParamVal_soffs b _).trans rfl)
      | (cases hs; rfl)
      | cases hs

theorem naStepVE_soffs (h : Nat) (b : Buf) (i : Nat) (c : UInt8) (pf : PFromBody) {i' : Nat} {st' : PFromBody}
    (hs : naStepVE h b i c pf = .cont i' st') : st'.soffs = pf.soffs := by
  unfold naStepVE at hs
  repeat' (split at hs)
  all_goals first
    | exact absurd hs (naCommaAfterWS_not_cont h b _ i _)
    | (cases hs; exact (setFromParamVal_soffs b _).trans rfl)
    | (cases hs; rfl)
    | cases hs

/-- continuing steps never touch the saved offset -/
theorem na_soffs_cont (h : Nat) (b : Buf) (i : Nat) (c : UInt8) (pf : PFromBody) {i' : Nat} {st' : PFromBody}
    (hs : naStep h b i c pf = .cont i' st') : st'.soffs = pf.soffs := by
  unfold naStep at hs
  split at hs
  all_goals first
    | exact naStepA_soffs h b i c pf hs
    | exact naStepQ_soffs h b i c pf hs
    | exact naStepU_soffs i c pf hs
    | exact naStepUF_soffs h b i c pf hs
    | exact naStepP_soffs h b i c pf hs
    | exact naStepPE_soffs h b i c pf hs
    | exact naStepV_soffs h b i c pf hs
    | exact naStepVE_soffs h b i c pf hs
    | exact naStepStar_soffs h b i c pf hs
    | (cases hs; rfl)

end Sipsp

namespace Sipsp

/-- the states in which a white-space byte is handled by the plain `lwsStd` pattern -/
def naLwsState (st : FBState) : Prop :=
  st = .nameOrURIEnd ∨ st = .init ∨ st = .name ∨ st = .quoted ∨ st = .quotedVal ∨ st = .quotedPossibleVal ∨
  st = .uriFound ∨ st = .star

theorem naStep_lws (h : Nat) (b : Buf) (j : Nat) (c : UInt8) (pf : PFromBody) (hl : isLWSch c = true)
    (hs : naLwsState pf.state) : naStep h b j c pf = naLWS h b j pf := by
  have hc34 : (c == 34) = false := by
    simp only [isLWSch, Bool.or_eq_true, beq_iff_eq] at hl
    rcases hl with ((h | h) | h) | h <;> subst h <;> decide
  have hc92 : (c == 92) = false := by
    simp only [isLWSch, Bool.or_eq_true, beq_iff_eq] at hl
    rcases hl with ((h | h) | h) | h <;> subst h <;> decide
  unfold naStep
  rcases hs with h1 | h1 | h1 | h1 | h1 | h1 | h1 | h1 <;> rw [h1] <;> simp only
  · unfold naStepA; simp [hl, h1]
  · unfold naStepA; simp [hl, h1]
  · unfold naStepA; simp [hl, h1]
  · unfold naStepQ; simp [hl, hc34, hc92]
  · unfold naStepQ; simp [hl, hc34, hc92]
  · unfold naStepQ; simp [hl, hc34, hc92]
  · unfold naStepUF; simp [hl]
  · unfold naStepStar; simp [hl]

theorem naEOH_indep (h : Nat) (b : Buf) (pf : PFromBody) (hs : naLwsState pf.state) (j j' n crl : Nat) (r : Err) :
    naEOH h b pf j n crl r = naEOH h b pf j' n crl r := by
  unfold naEOH
  rcases hs with h1 | h1 | h1 | h1 | h1 | h1 | h1 | h1 <;> rw [h1]

theorem naEOH_ne_more (h : Nat) (b : Buf) (pf : PFromBody) (i n crl : Nat) (r : Err) (hr : r ≠ .moreBytes) :
    (naEOH h b pf i n crl r).2.1 ≠ Err.moreBytes := by
  unfold naEOH naFinish
  split <;> simp [hr]

theorem saveS_clear (pf : PFromBody) (h0 : pf.soffs = 0) : ({ pf.saveS with soffs := 0 } : PFromBody) = pf := by
  cases pf; simp only [PFromBody.saveS] at h0 ⊢; simp_all

/-- restart at a plain white-space site of the name-addr parser -/
theorem naLWS_restart (h : Nat) (b s : Buf) (i : Nat) (c : UInt8) (st1 : PFromBody) {o : Nat} {st' : PFromBody}
    (hb : b[i]? = some c) (hl : isLWSch c = true) (h0 : st1.soffs = 0) (hst : naLwsState st1.state)
    (hs : naLWS h b i st1 = .done o .moreBytes st') :
    runLoop (naMachine h) (b ++ s) o { st' with soffs := 0 } =
      runStep (naMachine h) (b ++ s) i (naLWS h (b ++ s) i st1) := by
  unfold naLWS lwsStd at hs
  rcases hsk : skipLWS b i 0 with ⟨n, crl, e⟩
  rw [hsk] at hs
  cases e with
  | moreBytes =>
    simp only [Step.done.injEq, true_and] at hs
    obtain ⟨rfl, rfl⟩ := hs
    rw [saveS_clear st1 h0]
    unfold naLWS
    exact lwsStd_restart' (naMachine h) b s i n crl st1 _ PFromBody.saveS hb hl hsk
      (fun j c' _ hl' => naStep_lws h _ j c' st1 hl' hst)
      (fun j j' n' crl' => naEOH_indep h _ st1 hst j j' n' crl' .ok)
      (fun _ => rfl)
  | eoh =>
    exfalso
    have hne := naEOH_ne_more h b st1 i n crl .ok (by simp)
    simp only at hs
    injection hs with _ h2 _
    exact hne h2
  | _ => cases hs

end Sipsp

namespace Sipsp

/-- how a step of the name-addr loop can suspend: either a pure restart (offset and object unchanged, only
    `soffs` saved) or through the plain white-space pattern in a state that handles white space that way -/
def NaSuspend (h : Nat) (b : Buf) (i : Nat) (c : UInt8) (pf : PFromBody) (step : Buf → Step PFromBody)
    (o : Nat) (st' : PFromBody) : Prop :=
  (o = i ∧ st' = pf.saveS) ∨
  (isLWSch c = true ∧ ∃ st1 : PFromBody, (st1.soffs = pf.soffs ∧ st1.pend = pf.pend ∧ st1.vend = pf.vend) ∧ naLwsState st1.state ∧
    naLWS h b i st1 = .done o .moreBytes st' ∧ ∀ B : Buf, step B = naLWS h B i st1)

theorem naMoreValues_ne_more (h : Nat) (b : Buf) (pf : PFromBody) (i : Nat) {o : Nat} {st' : PFromBody} :
    naMoreValues h b pf i ≠ .done o .moreBytes st' := by
  unfold naMoreValues
  intro hh
  simp only [Step.done.injEq] at hh
  exact naEOH_ne_more h b pf i i 1 .moreValues (by simp) hh.2.1

theorem naCommaAfterWS_ne_more (h : Nat) (b : Buf) (pf : PFromBody) (i e : Nat) {o : Nat} {st' : PFromBody} :
    naCommaAfterWS h b pf i e ≠ .done o .moreBytes st' := by
  unfold naCommaAfterWS
  intro hh
  split at hh
  · simp only [Step.done.injEq] at hh
    exact naEOH_ne_more h b pf e i 1 .moreValues (by simp) hh.2.1
  · cases hh

theorem naStepA_suspend (h : Nat) (b : Buf) (i : Nat) (c : UInt8) (pf : PFromBody)
    (hg : pf.state = .init ∨ pf.state = .name ∨ pf.state = .nameOrURI ∨ pf.state = .nameOrURIEnd)
    {o : Nat} {st' : PFromBody} (hs : naStepA h b i c pf = .done o .moreBytes st') :
    NaSuspend h b i c pf (fun B => naStepA h B i c pf) o st' := by
  unfold naStepA at hs
  by_cases hl : isLWSch c = true
  · simp only [hl, ↓reduceIte] at hs
    right
    refine ⟨hl, ?_⟩
    by_cases hst : (pf.state == FBState.nameOrURI) = true
    · simp only [hst, ↓reduceIte] at hs
      exact ⟨{ (pf.setURI pf.s i).extV i with state := .nameOrURIEnd }, ⟨rfl, rfl, rfl⟩, Or.inl rfl, hs,
        fun B => by unfold naStepA; simp only [hl, hst, ↓reduceIte]⟩
    · simp only [hst, Bool.false_eq_true, ↓reduceIte] at hs
      refine ⟨pf, ⟨rfl, rfl, rfl⟩, ?_, hs, fun B => by unfold naStepA; simp only [hl, hst, Bool.false_eq_true, ↓reduceIte]⟩
      have : pf.state ≠ .nameOrURI := by simpa using hst
      rcases hg with h1 | h1 | h1 | h1
      · exact Or.inr (Or.inl h1)
      · exact Or.inr (Or.inr (Or.inl h1))
      · exact absurd h1 this
      · exact Or.inl h1
  · simp only [hl, Bool.false_eq_true, ↓reduceIte] at hs
    exfalso
    repeat' (split at hs)
    all_goals first
      | exact naMoreValues_ne_more h b pf i hs
      | cases hs

theorem naStepQ_suspend (h : Nat) (b : Buf) (i : Nat) (c : UInt8) (pf : PFromBody)
    (hg : pf.state = .quoted ∨ pf.state = .quotedVal ∨ pf.state = .quotedPossibleVal)
    {o : Nat} {st' : PFromBody} (hs : naStepQ h b i c pf = .done o .moreBytes st') :
    NaSuspend h b i c pf (fun B => naStepQ h B i c pf) o st' := by
  unfold naStepQ at hs
  by_cases h34 : (c == 34) = true
  · simp only [h34, ↓reduceIte] at hs; exfalso; repeat' (split at hs)
    all_goals cases hs
  · simp only [h34, Bool.false_eq_true, ↓reduceIte] at hs
    by_cases h92 : (c == 92) = true
    · simp only [h92, ↓reduceIte] at hs
      split at hs
      · exfalso; split at hs <;> cases hs
      · simp only [Step.done.injEq, true_and] at hs
        exact Or.inl ⟨hs.1.symm, hs.2.symm⟩
    · simp only [h92, Bool.false_eq_true, ↓reduceIte] at hs
      by_cases hl : isLWSch c = true
      · simp only [hl, ↓reduceIte] at hs
        right
        refine ⟨hl, pf, ⟨rfl, rfl, rfl⟩, ?_, hs, fun B => by
          unfold naStepQ; simp only [h34, h92, hl, Bool.false_eq_true, ↓reduceIte]⟩
        rcases hg with h1 | h1 | h1
        · exact Or.inr (Or.inr (Or.inr (Or.inl h1)))
        · exact Or.inr (Or.inr (Or.inr (Or.inr (Or.inl h1))))
        · exact Or.inr (Or.inr (Or.inr (Or.inr (Or.inr (Or.inl h1)))))
      · simp only [hl, Bool.false_eq_true, ↓reduceIte] at hs; cases hs

theorem naStepUF_suspend (h : Nat) (b : Buf) (i : Nat) (c : UInt8) (pf : PFromBody) (hg : pf.state = .uriFound)
    {o : Nat} {st' : PFromBody} (hs : naStepUF h b i c pf = .done o .moreBytes st') :
    NaSuspend h b i c pf (fun B => naStepUF h B i c pf) o st' := by
  unfold naStepUF at hs
  by_cases hl : isLWSch c = true
  · simp only [hl, ↓reduceIte] at hs
    right
    exact ⟨hl, pf, ⟨rfl, rfl, rfl⟩, Or.inr (Or.inr (Or.inr (Or.inr (Or.inr (Or.inr (Or.inl hg)))))), hs,
      fun B => by unfold naStepUF; simp only [hl, ↓reduceIte]⟩
  · simp only [hl, Bool.false_eq_true, ↓reduceIte] at hs
    exfalso
    repeat' (split at hs)
    all_goals first
      | exact naMoreValues_ne_more h b pf i hs
      | cases hs

theorem naStepStar_suspend (h : Nat) (b : Buf) (i : Nat) (c : UInt8) (pf : PFromBody) (hg : pf.state = .star)
    {o : Nat} {st' : PFromBody} (hs : naStepStar h b i c pf = .done o .moreBytes st') :
    NaSuspend h b i c pf (fun B => naStepStar h B i c pf) o st' := by
  unfold naStepStar at hs
  by_cases hl : isLWSch c = true
  · simp only [hl, ↓reduceIte] at hs
    right
    exact ⟨hl, pf, ⟨rfl, rfl, rfl⟩, Or.inr (Or.inr (Or.inr (Or.inr (Or.inr (Or.inr (Or.inr hg)))))), hs,
      fun B => by unfold naStepStar; simp only [hl, ↓reduceIte]⟩
  · simp only [hl, Bool.false_eq_true, ↓reduceIte] at hs; cases hs

theorem naStepP_suspend (h : Nat) (b : Buf) (i : Nat) (c : UInt8) (pf : PFromBody)
    {o : Nat} {st' : PFromBody} (hs : naStepP h b i c pf = .done o .moreBytes st') :
    o = i ∧ st' = pf.saveS := by
  unfold naStepP at hs
  split at hs
  · rcases hsk : skipLWS b i 0 with ⟨n, crl, e⟩
    rw [hsk] at hs
    cases e <;> simp only at hs
    case moreBytes => simp only [Step.done.injEq, true_and] at hs; exact ⟨hs.1.symm, hs.2.symm⟩
    case eoh =>
      exfalso
      simp only [Step.done.injEq] at hs
      exact naEOH_ne_more h b _ i n crl .ok (by simp) hs.2.1
    all_goals cases hs
  · exfalso
    repeat' (split at hs)
    all_goals first
      | exact naMoreValues_ne_more h b pf i hs
      | cases hs

theorem naStepV_suspend (h : Nat) (b : Buf) (i : Nat) (c : UInt8) (pf : PFromBody)
    {o : Nat} {st' : PFromBody} (hs : naStepV h b i c pf = .done o .moreBytes st') :
    o = i ∧ st' = pf.saveS := by
  unfold naStepV at hs
  split at hs
  · rcases hsk : skipLWS b i 0 with ⟨n, crl, e⟩
    rw [hsk] at hs
    cases e <;> simp only at hs
    case moreBytes => simp only [Step.done.injEq, true_and] at hs; exact ⟨hs.1.symm, hs.2.symm⟩
    case eoh =>
      exfalso
      simp only [Step.done.injEq] at hs
      exact naEOH_ne_more h b _ i n crl .ok (by simp) hs.2.1
    all_goals cases hs
  · exfalso
    repeat' (split at hs)
    all_goals first
      | exact naMoreValues_ne_more h b pf i hs
      | cases hs

theorem naStepPE_no_more (h : Nat) (b : Buf) (i : Nat) (c : UInt8) (pf : PFromBody)
    {o : Nat} {st' : PFromBody} : naStepPE h b i c pf ≠ .done o .moreBytes st' := by
  unfold naStepPE; intro hs
  repeat' (split at hs)
  all_goals first
    | exact naCommaAfterWS_ne_more h b pf i _ hs
    | cases hs

theorem naStepVE_no_more (h : Nat) (b : Buf) (i : Nat) (c : UInt8) (pf : PFromBody)
    {o : Nat} {st' : PFromBody} : naStepVE h b i c pf ≠ .done o .moreBytes st' := by
  unfold naStepVE; intro hs
  repeat' (split at hs)
  all_goals first
    | exact naCommaAfterWS_ne_more h b pf i _ hs
    | cases hs

theorem naStepU_no_more (i : Nat) (c : UInt8) (pf : PFromBody)
    {o : Nat} {st' : PFromBody} : naStepU i c pf ≠ .done o .moreBytes st' := by
  unfold naStepU; intro hs
  repeat' (split at hs)
  all_goals cases hs

end Sipsp

namespace Sipsp

/-- loop invariant for resumption: the L1 invariant, and the (write-only) saved offset is clear -/
def naInv2 (b : Buf) (i : Nat) (pf : PFromBody) : Prop := naInv b i pf ∧ pf.soffs = 0

theorem na_invCont2 (h : Nat) (b : Buf) : InvCont (naMachine h) b (naInv2 b) := by
  intro i c pf i' st' hb hI hs hlt
  exact ⟨na_invCont h b i c pf i' st' hb hI.1 hs hlt, (na_soffs_cont h b i c pf hs).trans hI.2⟩

theorem na_stepStable2 (h : Nat) (b s : Buf) : StepStableI (naMachine h) b s (naInv2 b) :=
  fun i c pf hb hI hne => na_stepStable h b s i c pf hb hI.1 hne

/-- every way the loop body can suspend, classified -/
theorem naStep_suspend (h : Nat) (b : Buf) (i : Nat) (c : UInt8) (pf : PFromBody) {o : Nat} {st' : PFromBody}
    (hs : naStep h b i c pf = .done o .moreBytes st') :
    NaSuspend h b i c pf (fun B => naStep h B i c pf) o st' := by
  unfold naStep at hs
  cases hst : pf.state <;> rw [hst] at hs <;> simp only at hs
  all_goals first
    | (have := naStepA_suspend h b i c pf (by simp [hst]) hs
       rcases this with hp | ⟨hl, st1, h1, h2, h3, h4⟩
       · exact Or.inl hp
       · exact Or.inr ⟨hl, st1, h1, h2, h3, fun B => by unfold naStep; rw [hst]; exact h4 B⟩)
    | (have := naStepQ_suspend h b i c pf (by simp [hst]) hs
       rcases this with hp | ⟨hl, st1, h1, h2, h3, h4⟩
       · exact Or.inl hp
       · exact Or.inr ⟨hl, st1, h1, h2, h3, fun B => by unfold naStep; rw [hst]; exact h4 B⟩)
    | (have := naStepUF_suspend h b i c pf hst hs
       rcases this with hp | ⟨hl, st1, h1, h2, h3, h4⟩
       · exact Or.inl hp
       · exact Or.inr ⟨hl, st1, h1, h2, h3, fun B => by unfold naStep; rw [hst]; exact h4 B⟩)
    | (have := naStepStar_suspend h b i c pf hst hs
       rcases this with hp | ⟨hl, st1, h1, h2, h3, h4⟩
       · exact Or.inl hp
       · exact Or.inr ⟨hl, st1, h1, h2, h3, fun B => by unfold naStep; rw [hst]; exact h4 B⟩)
    | exact Or.inl (naStepP_suspend h b i c pf hs)
    | exact Or.inl (naStepV_suspend h b i c pf hs)
    | exact absurd hs (naStepPE_no_more h b i c pf)
    | exact absurd hs (naStepVE_no_more h b i c pf)
    | exact absurd hs (naStepU_no_more i c pf)
    | cases hs

theorem na_stepRestart (h : Nat) (b s : Buf) :
    ∀ i c pf o st', b[i]? = some c → naInv2 b i pf → (naMachine h).step b i c pf = .done o .moreBytes st' →
      runLoop (naMachine h) (b ++ s) o { st' with soffs := 0 } = runLoop (naMachine h) (b ++ s) i pf := by
  intro i c pf o st' hb hI hs
  change naStep h b i c pf = .done o .moreBytes st' at hs
  rcases naStep_suspend h b i c pf hs with ⟨rfl, rfl⟩ | ⟨hl, st1, h1, h2, h3, h4⟩
  · rw [saveS_clear pf hI.2]
  · rw [runLoop_eq_runStep (naMachine h) pf (get?_app hb)]
    show _ = runStep (naMachine h) (b ++ s) i (naStep h (b ++ s) i c pf)
    have h4' : naStep h (b ++ s) i c pf = naLWS h (b ++ s) i st1 := h4 (b ++ s)
    rw [h4']
    exact naLWS_restart h b s i c st1 hb hl (h1.1.trans hI.2) h2 h3

theorem na_eobRestart (h : Nat) (b s : Buf) :
    ∀ i pf o st', b[i]? = none → naInv2 b i pf → (naMachine h).eob b i pf = (o, Err.moreBytes, st') →
      runLoop (naMachine h) (b ++ s) o { st' with soffs := 0 } = runLoop (naMachine h) (b ++ s) i pf := by
  intro i pf o st' _ hI he
  simp only [naMachine, Prod.mk.injEq, true_and] at he
  obtain ⟨rfl, rfl⟩ := he
  rw [saveS_clear pf hI.2]

theorem setQ_state (pf : PFromBody) (val : List UInt8) : (setQ pf val).state = pf.state := by
  unfold setQ; dsimp only; repeat' split
  all_goals rfl

theorem setFromParamVal_state (b : Buf) (pf : PFromBody) : (setFromParamVal b pf).state = pf.state := by
  unfold setFromParamVal
  repeat' split
  all_goals first | rfl | (simp only [PFromBody.clearPV]; exact setQ_state _ _)

theorem naLWS_state (h : Nat) (b : Buf) (i : Nat) (pf : PFromBody) {i' : Nat} {st' : PFromBody}
    (hs : naLWS h b i pf = .cont i' st') : st'.state = pf.state := by
  unfold naLWS lwsStd at hs
  rcases hsk : skipLWS b i 0 with ⟨n, crl, e⟩
  rw [hsk] at hs
  cases e <;> simp only at hs <;> cases hs
  rfl

theorem naNameWS_nf (pf : PFromBody) (i : Nat) (hnf : pf.state ≠ .fin) : (naNameWS pf i).state ≠ .fin := by
  unfold naNameWS; repeat' split
  all_goals first | exact hnf | (intro hh; cases hh)

theorem naValWS_nf (pf : PFromBody) (i n : Nat) (ok : Bool) (hnf : pf.state ≠ .fin) :
    (naValWS pf i n ok).state ≠ .fin := by
  unfold naValWS; repeat' split
  all_goals first | exact hnf | (intro hh; cases hh)

theorem naParam_nf (pf : PFromBody) (i : Nat) (hnf : pf.state ≠ .fin) :
    (naParamsOffs (naParamStart pf i) i).state ≠ .fin := by
  unfold naParamsOffs naParamStart; repeat' split
  all_goals first | exact hnf | (intro hh; cases hh)

theorem naLWS_nf (h : Nat) (b : Buf) (i : Nat) (pf : PFromBody) (hnf : pf.state ≠ .fin) {i' : Nat} {st' : PFromBody}
    (hs : naLWS h b i pf = .cont i' st') : st'.state ≠ .fin := by
  rw [naLWS_state h b i pf hs]; exact hnf

theorem naStepA_nf (h : Nat) (b : Buf) (i : Nat) (c : UInt8) (pf : PFromBody) (hnf : pf.state ≠ .fin)
    {i' : Nat} {st' : PFromBody} (hs : naStepA h b i c pf = .cont i' st') : st'.state ≠ .fin := by
  unfold naStepA at hs
  repeat' (split at hs)
  all_goals first
    | exact naLWS_nf h b i _ (by first | exact hnf | (intro hh; cases hh)) hs
    | exact absurd hs (naMoreValues_not_cont h b _ i)
    | (cases hs; first | exact hnf | (intro hh; cases hh))
    | cases hs

theorem naStepQ_nf (h : Nat) (b : Buf) (i : Nat) (c : UInt8) (pf : PFromBody) (hnf : pf.state ≠ .fin)
    {i' : Nat} {st' : PFromBody} (hs : naStepQ h b i c pf = .cont i' st') : st'.state ≠ .fin := by
  unfold naStepQ at hs
  repeat' (split at hs)
  all_goals first
    | exact naLWS_nf h b i _ (by first | exact hnf | (intro hh; cases hh)) hs
    | (cases hs; first | exact hnf | (intro hh; cases hh))
    | cases hs

theorem naStepU_nf (i : Nat) (c : UInt8) (pf : PFromBody) (hnf : pf.state ≠ .fin)
    {i' : Nat} {st' : PFromBody} (hs : naStepU i c pf = .cont i' st') : st'.state ≠ .fin := by
  unfold naStepU at hs
  repeat' (split at hs)
  all_goals first
    | (cases hs; first | exact hnf | (intro hh; cases hh))
    | cases hs

theorem naStepUF_nf (h : Nat) (b : Buf) (i : Nat) (c : UInt8) (pf : PFromBody) (hnf : pf.state ≠ .fin)
    {i' : Nat} {st' : PFromBody} (hs : naStepUF h b i c pf = .cont i' st') : st'.state ≠ .fin := by
  unfold naStepUF at hs
  repeat' (split at hs)
  all_goals first
    | exact naLWS_nf h b i _ (by first | exact hnf | (intro hh; cases hh)) hs
    | exact absurd hs (naMoreValues_not_cont h b _ i)
    | (cases hs; first | exact hnf | (intro hh; cases hh))
    | cases hs

theorem naStepStar_nf (h : Nat) (b : Buf) (i : Nat) (c : UInt8) (pf : PFromBody) (hnf : pf.state ≠ .fin)
    {i' : Nat} {st' : PFromBody} (hs : naStepStar h b i c pf = .cont i' st') : st'.state ≠ .fin := by
  unfold naStepStar at hs
  split at hs
  · exact naLWS_nf h b i _ (by first | exact hnf | (intro hh; cases hh)) hs
  · cases hs

theorem naStepP_nf (h : Nat) (b : Buf) (i : Nat) (c : UInt8) (pf : PFromBody) (hnf : pf.state ≠ .fin)
    {i' : Nat} {st' : PFromBody} (hs : naStepP h b i c pf = .cont i' st') : st'.state ≠ .fin := by
  unfold naStepP at hs
  split at hs
  · rcases hsk : skipLWS b i 0 with ⟨n, crl, e⟩
    rw [hsk] at hs
    cases e <;> simp only at hs <;> cases hs
    exact naNameWS_nf pf i hnf
  · repeat' (split at hs)
    all_goals first
      | exact absurd hs (naMoreValues_not_cont h b _ i)
      | (cases hs; rw [setFromParamVal_state]; intro hh; cases hh)
      | (cases hs; exact naParam_nf pf i hnf)
      | (cases hs; first | exact hnf | (intro hh; cases hh))
      | cases hs

theorem naStepPE_nf (h : Nat) (b : Buf) (i : Nat) (c : UInt8) (pf : PFromBody) (hnf : pf.state ≠ .fin)
    {i' : Nat} {st' : PFromBody} (hs : naStepPE h b i c pf = .cont i' st') : st'.state ≠ .fin := by
  unfold naStepPE at hs
  repeat' (split at hs)
  all_goals first
    | exact absurd hs (naCommaAfterWS_not_cont h b _ i _)
    | (cases hs; rw [setFromParamVal_state]; intro hh; cases hh)
    | (cases hs; first | exact hnf | (intro hh; cases hh))
    | cases hs

theorem naStepV_nf (h : Nat) (b : Buf) (i : Nat) (c : UInt8) (pf : PFromBody) (hnf : pf.state ≠ .fin)
    {i' : Nat} {st' : PFromBody} (hs : naStepV h b i c pf = .cont i' st') : st'.state ≠ .fin := by
  unfold naStepV at hs
  split at hs
  · rcases hsk : skipLWS b i 0 with ⟨n, crl, e⟩
    rw [hsk] at hs
    cases e <;> simp only at hs <;> cases hs
    exact naValWS_nf pf i _ true hnf
  · repeat' (split at hs)
    all_goals first
      | exact absurd hs (naMoreValues_not_cont h b _ i)
      | (cases hs; rw [setFromParamVal_state]; intro hh; cases hh)
      | (cases hs; first | exact hnf | (intro hh; cases hh))
      | cases hs

theorem naStepVE_nf (h : Nat) (b : Buf) (i : Nat) (c : UInt8) (pf : PFromBody) (hnf : pf.state ≠ .fin)
    {i' : Nat} {st' : PFromBody} (hs : naStepVE h b i c pf = .cont i' st') : st'.state ≠ .fin := by
  unfold naStepVE at hs
  repeat' (split at hs)
  all_goals first
    | exact absurd hs (naCommaAfterWS_not_cont h b _ i _)
    | (cases hs; rw [setFromParamVal_state]; intro hh; cases hh)
    | (cases hs; first | exact hnf | (intro hh; cases hh))
    | cases hs

/-- a continuing step never enters the final state -/
theorem na_notfin_cont (h : Nat) (b : Buf) (i : Nat) (c : UInt8) (pf : PFromBody) (hnf : pf.state ≠ .fin)
    {i' : Nat} {st' : PFromBody} (hs : naStep h b i c pf = .cont i' st') : st'.state ≠ .fin := by
  unfold naStep at hs
  split at hs
  all_goals first
    | exact naStepA_nf h b i c pf hnf hs
    | exact naStepQ_nf h b i c pf hnf hs
    | exact naStepU_nf i c pf hnf hs
    | exact naStepUF_nf h b i c pf hnf hs
    | exact naStepP_nf h b i c pf hnf hs
    | exact naStepPE_nf h b i c pf hnf hs
    | exact naStepV_nf h b i c pf hnf hs
    | exact naStepVE_nf h b i c pf hnf hs
    | exact naStepStar_nf h b i c pf hnf hs
    | (cases hs; exact hnf)
    | cases hs

/-- a suspended run leaves a state that is not final, satisfies the invariant at the returned offset, and
    has its saved offset equal to the local `s` (it left through `moreBytes:`) -/
theorem na_more_inv (h : Nat) (b : Buf) (i : Nat) (pf : PFromBody) (h0 : naInv2 b i pf) (hnf : pf.state ≠ .fin)
    {o : Nat} {st' : PFromBody} (hr : runLoop (naMachine h) b i pf = (o, Err.moreBytes, st')) :
    naInv b o st' ∧ st'.state ≠ .fin ∧ st'.soffs = st'.s := by
  refine runLoop_moreI (naMachine h) b (fun i pf => naInv2 b i pf ∧ pf.state ≠ .fin)
    (fun o st' => naInv b o st' ∧ st'.state ≠ .fin ∧ st'.soffs = st'.s) ?_ ?_ ?_ i pf ⟨h0, hnf⟩ hr
  · intro i c pf i' st' hb hI hs hlt
    exact ⟨na_invCont2 h b i c pf i' st' hb hI.1 hs hlt, na_notfin_cont h b i c pf hI.2 hs⟩
  · intro i c pf o st' hb hI hs
    change naStep h b i c pf = .done o .moreBytes st' at hs
    rcases naStep_suspend h b i c pf hs with ⟨rfl, rfl⟩ | ⟨hl, st1, h1, h2, h3, h4⟩
    · exact ⟨hI.1.1, hI.2, rfl⟩
    · -- the plain white-space pattern: the state carried is st1, saved; the offset is where skipLWS stopped
      unfold naLWS lwsStd at h3
      rcases hsk : skipLWS b i 0 with ⟨n, crl, e⟩
      rw [hsk] at h3
      cases e with
      | moreBytes =>
        simp only [Step.done.injEq, true_and] at h3
        obtain ⟨rfl, rfl⟩ := h3
        have hrg := skipLWS_range b i 0 hsk
        obtain ⟨hi, hp, hv⟩ := hI.1.1
        refine ⟨⟨hrg.2 hi, ?_, ?_⟩, ?_, rfl⟩
        · show st1.pend ≤ _; rw [h1.2.1]; omega
        · show st1.vend ≤ _; rw [h1.2.2]; omega
        · show st1.state ≠ .fin
          rcases h2 with h2 | h2 | h2 | h2 | h2 | h2 | h2 | h2 <;> rw [h2] <;> intro hh <;> cases hh
      | eoh =>
        exfalso
        have hne := naEOH_ne_more h b st1 i n crl .ok (by simp)
        simp only at h3
        injection h3 with _ hh _
        exact hne hh
      | _ => cases h3
  · intro i pf o st' _ hI he
    simp only [naMachine, Prod.mk.injEq, true_and] at he
    obtain ⟨rfl, rfl⟩ := he
    exact ⟨hI.1.1, hI.2, rfl⟩

/-- what a caller can read of a name-addr object: everything except the saved restart offset (unexported,
    consulted only by the parser itself when it is re-entered after MoreBytes) -/
def PFromBody.obs (p : PFromBody) : PFromBody := { p with soffs := 0 }

theorem naExit_obs (e1 e2 : Nat) (e : Err) (p : PFromBody) : (naExit e1 e p).obs = (naExit e2 e p).obs := by
  unfold naExit PFromBody.obs; split <;> rfl

theorem naExit_nonerr (e1 e2 : Nat) (e : Err) (p : PFromBody)
    (he : e = .ok ∨ e = .moreBytes ∨ e = .moreValues) : naExit e1 e p = naExit e2 e p := by
  unfold naExit; rcases he with rfl | rfl | rfl <;> rfl

/-- **L2 for ParseNameAddrPVal** (all header kinds): after MoreBytes, the call on the extended buffer with the
    returned offset and the same object gives the offset and verdict of a fresh call, and the same object —
    exactly for the verdicts after which parsing goes on (OK, MoreBytes, MoreValues), and up to the saved
    restart offset after an error verdict. The legitimacy condition is re-established. -/
theorem parseNameAddrPVal_resume (h : Nat) (b s : Buf) (o : Nat) (pf : PFromBody) (hok : naOK b o pf)
    {o' : Nat} {pf' : PFromBody} (hr : parseNameAddrPVal h b o pf = (o', Err.moreBytes, pf')) :
    ∃ r : Nat × Err × PFromBody, ∃ k : Nat,
      parseNameAddrPVal h (b ++ s) o pf = (r.1, r.2.1, naExit pf.soffs r.2.1 r.2.2) ∧
      parseNameAddrPVal h (b ++ s) o' pf' = (r.1, r.2.1, naExit k r.2.1 r.2.2) ∧
      naOK (b ++ s) o' pf' := by
  unfold parseNameAddrPVal at hr
  split at hr
  · cases hr
  · rename_i hf
    rcases hok with hok | hok
    · exact absurd hok hf
    · simp only at hr
      rcases hrl : runLoop (naMachine h) b o { pf with s := pf.soffs, soffs := 0 } with ⟨o1, e1, p1⟩
      rw [hrl] at hr
      simp only [Prod.mk.injEq] at hr
      obtain ⟨rfl, rfl, rfl⟩ := hr
      have hI2 : naInv2 b o { pf with s := pf.soffs, soffs := 0 } := ⟨hok, rfl⟩
      have hm := na_more_inv h b o _ hI2 hf hrl
      have hres := runLoop_resumeG (naMachine h) b s (naInv2 b) (fun p => { p with soffs := 0 })
        (na_invCont2 h b) (na_stepStable2 h b s) (na_stepRestart h b s) (na_eobRestart h b s) o _ hI2 hrl
      refine ⟨runLoop (naMachine h) (b ++ s) o { pf with s := pf.soffs, soffs := 0 }, p1.s, ?_, ?_, ?_⟩
      · unfold parseNameAddrPVal; rw [if_neg hf]
      · have hf' : ¬ (naExit pf.soffs Err.moreBytes p1).state = .fin := hm.2.1
        unfold parseNameAddrPVal; rw [if_neg hf']
        have hst : ({ naExit pf.soffs Err.moreBytes p1 with
                       s := (naExit pf.soffs Err.moreBytes p1).soffs, soffs := 0 } : PFromBody) =
                   { p1 with soffs := 0 } := by
          show ({ p1 with s := p1.soffs, soffs := 0 } : PFromBody) = { p1 with soffs := 0 }
          rw [hm.2.2]
        simp only [hst]
        rw [hres]
        have : (naExit pf.soffs Err.moreBytes p1).soffs = p1.s := hm.2.2
        rw [this]
      · right
        obtain ⟨h1, h2, h3⟩ := hm.1
        exact ⟨by rw [Array.size_append]; omega, h2, h3⟩

end Sipsp
