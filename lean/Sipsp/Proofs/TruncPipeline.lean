/-
  Sipsp.Proofs.TruncPipeline — property C06 (framing), the pipeline clause when the LAST text of the buffer is complete
  only in the no-more-data mode (header block complete, body shorter than its Content-Length). Closes the item "NOT
  proved: pipelines containing a text that is complete only in no-more-data mode (truncated body)" of C06.

  Vocabulary (PipelineAlone): `smCat l` = the texts of `l` laid one after the other; `paAloneOK flags kh kc x` = the text
  `x`, parsed alone from an Init object with caller arrays of capacities `kh` / `kc`, gives OK exactly at its end in a
  framing-definite mode (in particular `flags` does not carry the no-more-data flag); `paAlone f kh kc x` = the object
  of that stand-alone parse; `paMoved … l` = the stand-alone objects, message `i` moved (`shMsg`) by the total size of
  the messages before it; `paParseAll b f o m` = the caller's loop "Reset, ParseSIPMsg at the current offset, continue at
  the returned offset". New here: `tpTruncated kh kc y h` = the text `y` alone has a first line that parses OK, a header
  block that parses OK and ends at `h`, a parsed Content-Length `n`, and `len(y) < h + n` (decidable on concrete
  inputs; `tpTruncated_elim` gives the ParseFLine / ParseHeaders form used by `clen_framing`). `flags'` is always a flag
  word that agrees with `flags` on skip-body and require-Content-Length (e.g. `flags ||| SIPMsgNoMoreDataF`).

  Final theorems (EXPORT C06), all for ALL buffers / texts / capacities / objects of any history (`ScReach`), buffers
  within the documented 65,535-byte limit:
  (1) `pipeline_last_truncated`: `k` complete framing-definite messages followed by a last text with a truncated body,
      body parsing on. The loop WITH the no-more-data flag returns the `k` moved stand-alone objects, then the
      stand-alone no-more-data object of the last text moved by its start (= what ONE call with the flag on that text
      alone returns: OK at its end, body `Set(h,h).Extend(len)`; the moved body read back from the pipeline buffer is
      exactly the bytes after the header block up to the end of the buffer), OK at the end of the buffer. The loop
      WITHOUT the flag returns the same `k` objects and stops with MoreBytes at the body start of the last text.
      Call level: `tp_turn_trunc_nmd`, `tp_turn_trunc_more`; stand-alone: `tp_trunc_alone_nmd`, `tp_trunc_alone_more`.
      `pipeline_last_complete_at_end` (generalisation of the first half): ANY last text that alone gives OK at its end
      under the loop's flag word (truncated body with the flag, or "body = rest of the buffer", or complete).
  (2) `pipeline_flag_irrelevant_before_last`: `k` complete framing-definite messages followed by ANY tail: the loop with
      the no-more-data flag and the loop without it return the same first `k` objects (the moved stand-alone ones);
      `tp_flag_irrelevant_call`: the two calls at the start of a complete message inside any buffer return the same
      triple. Engine: `tp_parseAll_prefix` (the loop consumes the complete messages whatever follows them).
  (3) `declared_length_rules`: a text that parses OK (flags without no-more-data, body parsing on) with a parsed
      Content-Length `n`: for ANY appended bytes and also WITH the no-more-data flag the call returns the same triple —
      OK at `h + n`, body = exactly `x[h : h+n]` (offset `h`, length `n`, read back from the longer buffer). This is
      `ok_with_content_length` + `msg_alone_then_followed` + `flags_switch` put together; the genuinely new part is
      `tp_clen_fit`: the Content-Length row of the body table for ParseSIPMsg itself for EVERY flag word with body
      parsing on (`clen_framing` assumed the no-more-data flag off), including the read-back `body.get?`.
  (4) chunk schedules, one message object:
      `tp_schedule_message`: a complete framing-definite message inside a buffer that arrives as ANY growing list of
      prefixes: the chain of resumed calls (from Reset) — `flags` throughout, or `flags'` on the last buffer — returns
      exactly the result of ONE call on the complete buffer (the moved stand-alone object);
      `tp_schedule_last_truncated`: the same for the truncated last text: with the flag on the last buffer OK with the
      moved stand-alone no-more-data object, with `flags` throughout MoreBytes at the body start;
      `tpStreamAll` = the caller's streaming loop (one chunk schedule per message), `pipeline_chunking_irrelevant`: over
      arbitrary schedules (`tpScheds`) it returns the list `parse_all_pipeline` returns on the complete buffer;
      `pipeline_chunking_irrelevant_truncated`: … and with a truncated last text what `pipeline_last_truncated` returns
      (both halves). Built on `schedule_msg_last_flags_one/_more`, `schedule_msg_more` (C01x, i.e. on `schedule_msg`).
  Tests at the end (`decide +kernel`, labelled): two / three small messages; all hypotheses are met by concrete inputs
  and the direct computations agree with the theorems.

  NOT proved here:
  * a last text whose HEADER BLOCK is incomplete or malformed (stand-alone verdict MoreBytes / Trunc / an error): only
    `pipeline_nth_message` (ShiftMsg) applies — same verdict and offset as the stand-alone call, moved;
  * a truncated text that is NOT the last one: it is not a pipeline in the sense of the property (the announced bytes
    are taken from the next text, test (b) of PipelineAlone);
  * the schedules of (4) use `flags` on all buffers but the last of each schedule; an earlier call that already carries
    the no-more-data flag stops the chain early (tests of MsgLastFlags) — covered only by the general
    `schedule_msg_last_flags`;
  * as in PipelineAlone: the stand-alone objects are those of an Init object with the capacities of the caller's
    object; caller arrays handed to Init are assumed cleared; buffers beyond 65,535 bytes.
-/
import Sipsp.Proofs.PipelineAlone
import Sipsp.Proofs.MsgLastFlags

namespace Sipsp

/-! ### the truncated text, parsed alone -/

/-- the result of ParseHeaders on the text `y` alone, called where ParseFLine stopped (new object, capacities `kh`, `kc`) -/
def tpHdrRes (kh kc : Nat) (y : Buf) : Nat × Err × HdrLst × Option PHdrVals :=
  parseHeaders y (parseFLine y 0 (paInit kh kc).fl).1 (paInit kh kc).hl (some (paInit kh kc).pv)

/-- **the text `y` has a complete header block ending at `h` and a body shorter than its Content-Length**: parsed alone
    from an Init object, ParseFLine says OK, ParseHeaders (called where the first line ended) says OK at `h`, a
    Content-Length header was parsed and its value `n` satisfies `len(y) < h + n`. (Stated on the components so that it
    is decidable on concrete inputs; `tpTruncated_elim` gives the usual form.) -/
def tpTruncated (kh kc : Nat) (y : Buf) (h : Nat) : Prop :=
  (parseFLine y 0 (paInit kh kc).fl).2.1 = .ok ∧ (tpHdrRes kh kc y).1 = h ∧ (tpHdrRes kh kc y).2.1 = .ok ∧
    (tpHdrRes kh kc y).2.2.2.map (fun hv => hv.clen.parsed && decide (y.size < h + hv.clen.uiVal)) = some true

instance (kh kc : Nat) (y : Buf) (h : Nat) : Decidable (tpTruncated kh kc y h) := by unfold tpTruncated; infer_instance

theorem tpTruncated_elim {kh kc : Nat} {y : Buf} {h : Nat} (H : tpTruncated kh kc y h) :
    ∃ o1 fl hl hv, parseFLine y 0 (paInit kh kc).fl = (o1, .ok, fl) ∧
      parseHeaders y o1 (paInit kh kc).hl (some (paInit kh kc).pv) = (h, .ok, hl, some hv) ∧
      hv.clen.parsed = true ∧ y.size < h + hv.clen.uiVal := by
  obtain ⟨h1, h2, h3, h4⟩ := H
  unfold tpHdrRes at h2 h3 h4
  rcases hf : parseFLine y 0 (paInit kh kc).fl with ⟨o1, e1, fl⟩
  rw [hf] at h1 h2 h3 h4
  simp only at h1 h2 h3 h4
  subst h1
  rcases hp : parseHeaders y o1 (paInit kh kc).hl (some (paInit kh kc).pv) with ⟨h', e2, hl, hb⟩
  rw [hp] at h2 h3 h4
  simp only at h2 h3 h4
  subst h2 h3
  cases hb with
  | none => simp at h4
  | some hv =>
    simp only [Option.map_some, Option.some.injEq, Bool.and_eq_true, decide_eq_true_eq] at h4
    exact ⟨o1, fl, hl, hv, rfl, hp, h4.1, h4.2⟩

/-- the Init object with recorded length `L` (what Reset leaves after any history, `sc_reset_after_history`) -/
def tpInitL (L kh kc : Nat) : PSIPMsg :=
  ({} : PSIPMsg).init L ((some ()).map fun _ => Array.replicate kh {}) ((some ()).map fun _ => Array.replicate kc {})

theorem tpInitL_zero (kh kc : Nat) : tpInitL 0 kh kc = paInit kh kc := rfl

/-- **alone, with the no-more-data flag**: OK at the end of the text, the body is `Set(h,h).Extend(len(y))` — the
    truncated body —, whatever length Init recorded -/
theorem tp_trunc_alone_nmd {kh kc : Nat} {y : Buf} {h : Nat} (H : tpTruncated kh kc y h) (f' : Nat)
    (hs : hasFlag f' SIPMsgSkipBodyF = false) (hn : hasFlag f' SIPMsgNoMoreDataF = true) (L : Nat) :
    parseSIPMsg y 0 (tpInitL L kh kc) f' = (y.size, .ok, paAlone f' kh kc y) ∧
    (paAlone f' kh kc y).body = (PField.set h h).extend y.size ∧ (paAlone f' kh kc y).state = .fin ∧
    (paAlone f' kh kc y).pv.clen.parsed = true ∧ y.size < h + (paAlone f' kh kc y).pv.clen.uiVal := by
  obtain ⟨o1, fl, hl, hv, hf, hh, hc, hshort⟩ := tpTruncated_elim H
  have htr := parseSIPMsg_clen_trunc y 0 o1 h (paInit kh kc) f' fl hl hv rfl hf hh hs hn hc hshort
  have h0 : parseSIPMsg y 0 (paInit kh kc) f' = (y.size, .ok, paAlone f' kh kc y) :=
    Prod.ext htr.1 (Prod.ext htr.2.1 rfl)
  have hpv : (paAlone f' kh kc y).pv = hv := htr.2.2.2.2
  refine ⟨?_, htr.2.2.1, htr.2.2.2.1, by rw [hpv]; exact hc, by rw [hpv]; exact hshort⟩
  exact pa_ok_bufLen y 0 (paInit kh kc) f' L h0

/-- **alone, without the flag**: MoreBytes at the body start `h` -/
theorem tp_trunc_alone_more {kh kc : Nat} {y : Buf} {h : Nat} (H : tpTruncated kh kc y h) (f : Nat)
    (hs : hasFlag f SIPMsgSkipBodyF = false) (hn : hasFlag f SIPMsgNoMoreDataF = false) (L : Nat) :
    (parseSIPMsg y 0 (tpInitL L kh kc) f).1 = h ∧ (parseSIPMsg y 0 (tpInitL L kh kc) f).2.1 = .moreBytes := by
  obtain ⟨o1, fl, hl, hv, hf, hh, hc, hshort⟩ := tpTruncated_elim H
  exact (parseSIPMsg_clen_framing y 0 o1 h (tpInitL L kh kc) f fl hl hv rfl hf hh hs hn hc).2.2 (by omega)

/-! ### one turn of the caller's loop at the start of the truncated text -/

/-- after any history, Reset + ParseSIPMsg WITH the no-more-data flag at the start of the truncated text `y` that is
    preceded by `pre` and ends the buffer: OK at the end of the buffer, the stand-alone no-more-data object moved -/
theorem tp_turn_trunc_nmd (pre y : Buf) {kh kc h : Nat} (H : tpTruncated kh kc y h) (f' : Nat)
    (hs : hasFlag f' SIPMsgSkipBodyF = false) (hn : hasFlag f' SIPMsgNoMoreDataF = true) {m : PSIPMsg}
    (hR : ScReach m) (hkh : m.hl.hdrs.size = kh) (hkc : m.pv.contacts.vals.size = kc)
    (hfit : (pre ++ y).size ≤ 65535) :
    parseSIPMsg (pre ++ y) pre.size m.reset f' = (pre.size + y.size, .ok, shMsg pre.size (paAlone f' kh kc y)) := by
  rw [sc_reset_after_history hR, hkh, hkc]
  rw [Array.size_append] at hfit
  exact pipeline_second_message_ok pre y f' {} m.bufLen kh kc (some ()) (some ()) hfit
    (tp_trunc_alone_nmd H f' hs hn m.bufLen).1

/-- … and WITHOUT the flag: MoreBytes at the body start of `y` (`pre.size + h`), nothing of the body consumed -/
theorem tp_turn_trunc_more (pre y : Buf) {kh kc h : Nat} (H : tpTruncated kh kc y h) (f : Nat)
    (hs : hasFlag f SIPMsgSkipBodyF = false) (hn : hasFlag f SIPMsgNoMoreDataF = false) {m : PSIPMsg}
    (hR : ScReach m) (hkh : m.hl.hdrs.size = kh) (hkc : m.pv.contacts.vals.size = kc)
    (hfit : (pre ++ y).size ≤ 65535) :
    (parseSIPMsg (pre ++ y) pre.size m.reset f).1 = pre.size + h ∧
    (parseSIPMsg (pre ++ y) pre.size m.reset f).2.1 = .moreBytes := by
  rw [sc_reset_after_history hR, hkh, hkc]
  rw [Array.size_append] at hfit
  have hsh := parseSIPMsg_shift_init pre y 0 (Nat.zero_le _) {} m.bufLen kh kc (some ()) (some ()) f hfit
  have hal := tp_trunc_alone_more H f hs hn m.bufLen
  obtain ⟨r1, r2, _⟩ := hsh
  rw [Nat.add_zero] at r1 r2
  exact ⟨by rw [r1]; show pre.size + (parseSIPMsg y 0 (tpInitL m.bufLen kh kc) f).1 = _; rw [hal.1],
    by rw [r2]; exact hal.2⟩

/-! ### the caller's loop over `k` complete messages followed by ANY tail -/

/-- the messages found so far, put in front of what the rest of the loop returns -/
def tpPre (ms : List PSIPMsg) (r : List PSIPMsg × Nat × Err) : List PSIPMsg × Nat × Err := (ms ++ r.1, r.2)

theorem tpPre_nil (r : List PSIPMsg × Nat × Err) : tpPre [] r = r := rfl

theorem tpPre_cons (x : PSIPMsg) (ms : List PSIPMsg) (r : List PSIPMsg × Nat × Err) :
    paCons x (tpPre ms r) = tpPre (x :: ms) r := rfl

/-- **the loop consumes the complete framing-definite messages whatever follows them**: on `pre ++ (smCat l ++ tail)`,
    started at `pre.size`, the loop returns the moved stand-alone objects of the texts of `l` and goes on at the start
    of `tail` with an object of some history and the same capacities. `tail` is arbitrary. The flag word `flags'` of
    the loop may carry the no-more-data flag (`flags` is the same word without it). -/
theorem tp_parseAll_prefix (l : List Buf) (tail : Buf) (flags flags' kh kc : Nat)
    (hs : hasFlag flags' SIPMsgSkipBodyF = hasFlag flags SIPMsgSkipBodyF)
    (hr : hasFlag flags' SIPMsgCLenReqF = hasFlag flags SIPMsgCLenReqF)
    (hall : ∀ x ∈ l, paAloneOK flags kh kc x) :
    ∀ (pre : Buf) (m : PSIPMsg), ScReach m → m.hl.hdrs.size = kh → m.pv.contacts.vals.size = kc →
      (pre ++ (smCat l ++ tail)).size ≤ 65535 →
      ∃ m', ScReach m' ∧ m'.hl.hdrs.size = kh ∧ m'.pv.contacts.vals.size = kc ∧
        paParseAll (pre ++ (smCat l ++ tail)) flags' pre.size m =
          tpPre (paMoved flags kh kc pre.size l)
            (paParseAll (pre ++ (smCat l ++ tail)) flags' (pre.size + (smCat l).size) m') := by
  induction l with
  | nil =>
    intro pre m hR hkh hkc _
    have : smCat ([] : List Buf) = #[] := rfl
    refine ⟨m, hR, hkh, hkc, ?_⟩
    rw [this]
    simp [paMoved, tpPre]
  | cons x xs ih =>
    intro pre m hR hkh hkc hfit
    have hx : paAloneOK flags m.hl.hdrs.size m.pv.contacts.vals.size x := by
      rw [hkh, hkc]; exact hall x (List.mem_cons_self ..)
    have hbuf : pre ++ (smCat (x :: xs) ++ tail) = pre ++ (x ++ (smCat xs ++ tail)) := by
      rw [pa_smCat_cons, Array.append_assoc]
    rw [hbuf] at hfit ⊢
    have ht := pa_turn pre x (smCat xs ++ tail) flags flags' hs hr hR hfit hx
    rw [hkh, hkc] at ht
    have hsz : 14 ≤ x.size := by
      have := pa_ok_size_ge x 0 (paInit kh kc) flags rfl rfl (pa_alone_eq (hall x (List.mem_cons_self ..)))
      omega
    have hR' : ScReach (shMsg pre.size (paAlone flags kh kc x)) := by
      have := ScReach.parse (pre ++ (x ++ (smCat xs ++ tail))) pre.size flags' (ScReach.reset hR)
      rw [ht] at this; exact this
    have hkh' : (shMsg pre.size (paAlone flags kh kc x)).hl.hdrs.size = kh := by
      have := sc_size_parseSIPMsg (pre ++ (x ++ (smCat xs ++ tail))) pre.size m.reset flags'
      rw [ht] at this
      rw [this, ← hkh]
      show (m.hl.reset.hdrs).size = _
      unfold HdrLst.reset; simp
    have hkc' : (shMsg pre.size (paAlone flags kh kc x)).pv.contacts.vals.size = kc := by
      have := pa_cap_parseSIPMsg (pre ++ (x ++ (smCat xs ++ tail))) pre.size m.reset flags'
      rw [ht] at this
      rw [this, sc_reset_after_history hR, ← hkc]
      show (Array.replicate m.pv.contacts.vals.size ({} : PFromBody)).size = _
      simp
    have hassoc : pre ++ (x ++ (smCat xs ++ tail)) = (pre ++ x) ++ (smCat xs ++ tail) := (Array.append_assoc ..).symm
    obtain ⟨m', hR2, hkh2, hkc2, hrec⟩ := ih (fun y hy => hall y (List.mem_cons_of_mem _ hy)) (pre ++ x) _ hR' hkh' hkc'
      (by rw [← hassoc]; exact hfit)
    rw [Array.size_append] at hrec
    refine ⟨m', hR2, hkh2, hkc2, ?_⟩
    rw [paParseAll]
    have hlt : pre.size < (pre ++ (x ++ (smCat xs ++ tail))).size := by
      rw [Array.size_append, Array.size_append]; omega
    have hle : pre.size + x.size ≤ (pre ++ (x ++ (smCat xs ++ tail))).size := by
      rw [Array.size_append, Array.size_append]; omega
    rw [if_pos hlt, ht]
    simp only [↓reduceIte]
    rw [dif_pos ⟨by omega, hle⟩]
    rw [hassoc, hrec, tpPre_cons, pa_smCat_cons, Array.size_append, Nat.add_assoc]
    rfl

/-- the loop at the end of the buffer returns nothing more -/
theorem tp_parseAll_end (b : Buf) (flags : Nat) (m : PSIPMsg) : paParseAll b flags b.size m = ([], b.size, .ok) := by
  rw [paParseAll, if_neg (Nat.lt_irrefl _)]

/-! ### (2) for the first `k` messages the no-more-data flag makes no difference -/

/-- **(2), call level**: in a buffer `pre ++ (x ++ rest)` where `x` is a complete framing-definite message (`pre`, `rest`
    arbitrary — e.g. a truncated last text in `rest`), the call at the start of `x` on a Reset object of any history
    returns the same triple with the no-more-data flag (`flags'`) as without it (`flags`): the moved stand-alone
    object of `x`, OK at the first byte after `x` (`flags_switch` of C01x at pipeline level) -/
theorem tp_flag_irrelevant_call (pre x rest : Buf) (flags flags' : Nat)
    (hs : hasFlag flags' SIPMsgSkipBodyF = hasFlag flags SIPMsgSkipBodyF)
    (hr : hasFlag flags' SIPMsgCLenReqF = hasFlag flags SIPMsgCLenReqF) {m : PSIPMsg} (hR : ScReach m)
    (hfit : (pre ++ (x ++ rest)).size ≤ 65535)
    (hx : paAloneOK flags m.hl.hdrs.size m.pv.contacts.vals.size x) :
    parseSIPMsg (pre ++ (x ++ rest)) pre.size m.reset flags' = parseSIPMsg (pre ++ (x ++ rest)) pre.size m.reset flags ∧
    parseSIPMsg (pre ++ (x ++ rest)) pre.size m.reset flags =
      (pre.size + x.size, .ok, shMsg pre.size (paAlone flags m.hl.hdrs.size m.pv.contacts.vals.size x)) := by
  have h1 := pa_turn pre x rest flags flags' hs hr hR hfit hx
  have h2 := pa_turn pre x rest flags flags rfl rfl hR hfit hx
  exact ⟨by rw [h1, h2], h2⟩

/-- **(2) `pipeline_flag_irrelevant_before_last`**: the buffer holds the complete framing-definite messages `l` followed by
    ANY last text `tail` (complete, truncated, garbage, empty). The caller's loop run with the no-more-data flag
    (`flags'`) and the loop run without it (`flags`) return the same first `k = l.length` objects: entry `i` is the
    stand-alone object of message `i` moved by the offset where message `i` starts. Whatever the flag changes, it
    changes it at `tail`. -/
theorem pipeline_flag_irrelevant_before_last (l : List Buf) (tail : Buf) (flags flags' : Nat)
    (hs : hasFlag flags' SIPMsgSkipBodyF = hasFlag flags SIPMsgSkipBodyF)
    (hr : hasFlag flags' SIPMsgCLenReqF = hasFlag flags SIPMsgCLenReqF) {m : PSIPMsg} (hR : ScReach m)
    (hfit : (smCat l ++ tail).size ≤ 65535)
    (hall : ∀ x ∈ l, paAloneOK flags m.hl.hdrs.size m.pv.contacts.vals.size x) :
    (paParseAll (smCat l ++ tail) flags' 0 m).1.take l.length =
      paMoved flags m.hl.hdrs.size m.pv.contacts.vals.size 0 l ∧
    (paParseAll (smCat l ++ tail) flags 0 m).1.take l.length =
      paMoved flags m.hl.hdrs.size m.pv.contacts.vals.size 0 l ∧
    ∀ (i : Nat) (hi : i < l.length),
      (paParseAll (smCat l ++ tail) flags' 0 m).1[i]? = (paParseAll (smCat l ++ tail) flags 0 m).1[i]? ∧
      (paParseAll (smCat l ++ tail) flags 0 m).1[i]? =
        some (shMsg (smCat (l.take i)).size (paAlone flags m.hl.hdrs.size m.pv.contacts.vals.size l[i])) := by
  have key : ∀ f', hasFlag f' SIPMsgSkipBodyF = hasFlag flags SIPMsgSkipBodyF →
      hasFlag f' SIPMsgCLenReqF = hasFlag flags SIPMsgCLenReqF →
      ∃ r, (paParseAll (smCat l ++ tail) f' 0 m).1 = paMoved flags m.hl.hdrs.size m.pv.contacts.vals.size 0 l ++ r := by
    intro f' hs' hr'
    obtain ⟨m', _, _, _, h⟩ := tp_parseAll_prefix l tail flags f' _ _ hs' hr' hall #[] m hR rfl rfl (by simpa using hfit)
    simp only [Array.empty_append, Array.size_empty] at h
    rw [h]
    exact ⟨_, rfl⟩
  obtain ⟨r1, h1⟩ := key flags' hs hr
  obtain ⟨r2, h2⟩ := key flags rfl rfl
  have hlen := paMoved_length flags m.hl.hdrs.size m.pv.contacts.vals.size 0 l
  refine ⟨by rw [h1, ← hlen, List.take_left], by rw [h2, ← hlen, List.take_left], fun i hi => ?_⟩
  have hg := paMoved_get flags m.hl.hdrs.size m.pv.contacts.vals.size 0 l i hi
  rw [Nat.zero_add] at hg
  have e1 : (paParseAll (smCat l ++ tail) flags' 0 m).1[i]? = (paMoved flags m.hl.hdrs.size m.pv.contacts.vals.size 0 l)[i]? := by
    rw [h1, List.getElem?_append_left (by rw [hlen]; exact hi)]
  have e2 : (paParseAll (smCat l ++ tail) flags 0 m).1[i]? = (paMoved flags m.hl.hdrs.size m.pv.contacts.vals.size 0 l)[i]? := by
    rw [h2, List.getElem?_append_left (by rw [hlen]; exact hi)]
  exact ⟨by rw [e1, e2], by rw [e2, hg]⟩

/-! ### (1) `k` complete messages, then a last text with a truncated body -/

/-- the truncated body of the last text, read back from the pipeline buffer: the bytes of `y` after its header block -/
theorem tp_moved_trunc_body_get (pre y : Buf) (h : Nat) (hh : h ≤ y.size) (hfit : (pre ++ y).size ≤ 65535) :
    (shF pre.size ((PField.set h h).extend y.size)).get? (pre ++ y) = some (y.extract h y.size) := by
  rw [Array.size_append] at hfit
  have e1 : trunc16 h = h := trunc16_of_lt (by omega)
  have e2 : trunc16 y.size = y.size := trunc16_of_lt (by omega)
  unfold PField.get? PField.endT PField.extend PField.set shF
  simp only [e1, e2]
  have e3 : (y.size + 65536 - h) % 65536 = y.size - h := by omega
  rw [e3]
  have e4 : h + pre.size + (y.size - h) = pre.size + y.size := by omega
  have e5 : trunc16 (pre.size + y.size) = pre.size + y.size := trunc16_of_lt (by omega)
  rw [e4, e5, if_pos ⟨by omega, by rw [Array.size_append]; omega⟩]
  congr 1
  rw [Array.extract_append]
  have a1 : pre.extract (h + pre.size) (pre.size + y.size) = #[] := by
    apply Array.ext'
    simp [Array.toList_extract]
  have a2 : h + pre.size - pre.size = h := by omega
  have a3 : pre.size + y.size - pre.size = y.size := by omega
  rw [a1, a2, a3, Array.empty_append]

/-- the header block of a truncated text ends inside the text -/
theorem tpTruncated_le {kh kc : Nat} {y : Buf} {h : Nat} (H : tpTruncated kh kc y h) : h ≤ y.size := by
  obtain ⟨o1, fl, hl, hv, hf, hh, _, _⟩ := tpTruncated_elim H
  exact mlf_headers_end_le y 0 o1 h (paInit kh kc) fl hl hv
    (msgOK_init y 0 (Nat.zero_le _) {} 0 kh kc (some ()) (some ())) hf hh

/-- a truncated text has at least 14 bytes (its first line parsed OK) -/
theorem tpTruncated_size {kh kc : Nat} {y : Buf} {h : Nat} (H : tpTruncated kh kc y h) : 14 ≤ y.size := by
  have h0 := (tp_trunc_alone_nmd H 4 (by decide) (by decide) 0).1
  have := pa_ok_size_ge y 0 (tpInitL 0 kh kc) 4 rfl rfl h0
  omega

/-- **(1) `pipeline_last_truncated`**: the buffer holds `k` complete framing-definite messages `l` (complete under
    `flags`, which does not carry the no-more-data flag) followed by a LAST text `y` whose header block is complete
    (ends at `h` inside `y`) and whose body is shorter than its Content-Length (`tpTruncated`); body parsing on.
    The caller's loop — Reset, ParseSIPMsg at the returned offset — started at 0 with an object of any history:
    * run WITH the no-more-data flag (`flags'` = `flags` plus the flag) it returns the `k` moved stand-alone objects
      and then, for the last text, the stand-alone no-more-data object of `y` moved by the start of `y`, and ends with
      OK at the end of the buffer; that stand-alone object is what ONE call with the flag on `y` alone returns (OK at
      `len(y)`), its body is `Set(h,h).Extend(len(y))`, and the moved body read back from the pipeline buffer is
      exactly the bytes of `y` after its header block: the truncated body reaches the end of the buffer;
    * run WITHOUT the flag it returns the same first `k` objects and stops with MoreBytes at the body start of the
      last text (`len(messages) + h`): nothing of the truncated body is consumed. -/
theorem pipeline_last_truncated (l : List Buf) (y : Buf) (h : Nat) (flags flags' : Nat)
    (hs : hasFlag flags' SIPMsgSkipBodyF = hasFlag flags SIPMsgSkipBodyF)
    (hr : hasFlag flags' SIPMsgCLenReqF = hasFlag flags SIPMsgCLenReqF)
    (hnf : hasFlag flags SIPMsgNoMoreDataF = false) (hn : hasFlag flags' SIPMsgNoMoreDataF = true)
    (hsk : hasFlag flags SIPMsgSkipBodyF = false) {m : PSIPMsg} (hR : ScReach m)
    (hfit : (smCat l ++ y).size ≤ 65535)
    (hall : ∀ x ∈ l, paAloneOK flags m.hl.hdrs.size m.pv.contacts.vals.size x)
    (hy : tpTruncated m.hl.hdrs.size m.pv.contacts.vals.size y h) :
    (paParseAll (smCat l ++ y) flags' 0 m =
        (paMoved flags m.hl.hdrs.size m.pv.contacts.vals.size 0 l ++
          [shMsg (smCat l).size (paAlone flags' m.hl.hdrs.size m.pv.contacts.vals.size y)],
         (smCat l ++ y).size, .ok) ∧
      parseSIPMsg y 0 (paInit m.hl.hdrs.size m.pv.contacts.vals.size) flags' =
        (y.size, .ok, paAlone flags' m.hl.hdrs.size m.pv.contacts.vals.size y) ∧
      (paAlone flags' m.hl.hdrs.size m.pv.contacts.vals.size y).body = (PField.set h h).extend y.size ∧
      (shMsg (smCat l).size (paAlone flags' m.hl.hdrs.size m.pv.contacts.vals.size y)).body.get? (smCat l ++ y) =
        some (y.extract h y.size)) ∧
    paParseAll (smCat l ++ y) flags 0 m =
      (paMoved flags m.hl.hdrs.size m.pv.contacts.vals.size 0 l, (smCat l).size + h, .moreBytes) := by
  have hsk' : hasFlag flags' SIPMsgSkipBodyF = false := by rw [hs]; exact hsk
  have hy14 := tpTruncated_size hy
  have hlt : (smCat l).size < (smCat l ++ y).size := by rw [Array.size_append]; omega
  have hal := tp_trunc_alone_nmd hy flags' hsk' hn 0
  refine ⟨⟨?_, hal.1, hal.2.1, ?_⟩, ?_⟩
  · obtain ⟨m', hR', hkh', hkc', hp⟩ := tp_parseAll_prefix l y flags flags' _ _ hs hr hall #[] m hR rfl rfl
      (by simpa using hfit)
    simp only [Array.empty_append, Array.size_empty, Nat.zero_add] at hp
    rw [hp]
    have ht := tp_turn_trunc_nmd (smCat l) y hy flags' hsk' hn hR' hkh' hkc' hfit
    rw [paParseAll, if_pos hlt, ht]
    simp only [↓reduceIte]
    rw [dif_pos ⟨by omega, by rw [Array.size_append]; omega⟩]
    have : (smCat l).size + y.size = (smCat l ++ y).size := by rw [Array.size_append]
    rw [this, tp_parseAll_end]
    rfl
  · have hb : (shMsg (smCat l).size (paAlone flags' m.hl.hdrs.size m.pv.contacts.vals.size y)).body =
        shF (smCat l).size ((PField.set h h).extend y.size) := by
      show shMb _ (paAlone flags' m.hl.hdrs.size m.pv.contacts.vals.size y).state _ = _
      rw [hal.2.2.1, hal.2.1]
      rfl
    rw [hb]
    exact tp_moved_trunc_body_get (smCat l) y h (tpTruncated_le hy) hfit
  · obtain ⟨m', hR', hkh', hkc', hp⟩ := tp_parseAll_prefix l y flags flags _ _ rfl rfl hall #[] m hR rfl rfl
      (by simpa using hfit)
    simp only [Array.empty_append, Array.size_empty, Nat.zero_add] at hp
    rw [hp]
    have ht := tp_turn_trunc_more (smCat l) y hy flags hsk hnf hR' hkh' hkc' hfit
    rw [paParseAll, if_pos hlt]
    have hne : ¬ ((parseSIPMsg (smCat l ++ y) (smCat l).size m'.reset flags).2.1 = .ok) := by
      rw [ht.2]; intro hh; cases hh
    rw [if_neg hne, ht.1, ht.2]
    simp [tpPre]

/-! ### (1'), generalisation: a last text that is complete at the end of the buffer in whatever mode -/

/-- **`pipeline_last_complete_at_end`**: `k` complete framing-definite messages `l` followed by a last text `y` which,
    parsed ALONE with the flag word `flags'` of the loop, gives OK exactly at its end with object `obj` — for whatever
    reason: a truncated body in the no-more-data mode (then this is the first half of `pipeline_last_truncated`), or
    "no Content-Length, body = rest of the buffer", or a complete framing-definite message. The caller's loop returns
    the `k` moved stand-alone objects, then `obj` moved by the start of `y`, and ends with OK at the end of the buffer. -/
theorem pipeline_last_complete_at_end (l : List Buf) (y : Buf) (flags flags' : Nat)
    (hs : hasFlag flags' SIPMsgSkipBodyF = hasFlag flags SIPMsgSkipBodyF)
    (hr : hasFlag flags' SIPMsgCLenReqF = hasFlag flags SIPMsgCLenReqF) {m : PSIPMsg} (hR : ScReach m)
    (hfit : (smCat l ++ y).size ≤ 65535)
    (hall : ∀ x ∈ l, paAloneOK flags m.hl.hdrs.size m.pv.contacts.vals.size x) {obj : PSIPMsg}
    (hy : parseSIPMsg y 0 (paInit m.hl.hdrs.size m.pv.contacts.vals.size) flags' = (y.size, .ok, obj)) :
    paParseAll (smCat l ++ y) flags' 0 m =
      (paMoved flags m.hl.hdrs.size m.pv.contacts.vals.size 0 l ++ [shMsg (smCat l).size obj],
       (smCat l ++ y).size, .ok) := by
  have hy14 : 14 ≤ y.size := by
    have := pa_ok_size_ge y 0 (paInit m.hl.hdrs.size m.pv.contacts.vals.size) flags' rfl rfl hy
    omega
  have hlt : (smCat l).size < (smCat l ++ y).size := by rw [Array.size_append]; omega
  obtain ⟨m', hR', hkh', hkc', hp⟩ := tp_parseAll_prefix l y flags flags' _ _ hs hr hall #[] m hR rfl rfl
    (by simpa using hfit)
  simp only [Array.empty_append, Array.size_empty, Nat.zero_add] at hp
  rw [hp]
  have ht : parseSIPMsg (smCat l ++ y) (smCat l).size m'.reset flags' =
      ((smCat l).size + y.size, .ok, shMsg (smCat l).size obj) := by
    rw [sc_reset_after_history hR', hkh', hkc']
    rw [Array.size_append] at hfit
    exact pipeline_second_message_ok (smCat l) y flags' {} m'.bufLen _ _ (some ()) (some ()) hfit
      (pa_ok_bufLen y 0 (paInit m.hl.hdrs.size m.pv.contacts.vals.size) flags' m'.bufLen hy)
  rw [paParseAll, if_pos hlt, ht]
  simp only [↓reduceIte]
  rw [dif_pos ⟨by omega, by rw [Array.size_append]; omega⟩]
  have : (smCat l).size + y.size = (smCat l ++ y).size := by rw [Array.size_append]
  rw [this, tp_parseAll_end]
  rfl

/-! ### (3) a declared length rules: with `n` bytes available the body is exactly those `n` bytes, in every mode -/

/-- the field `Set(h,h).Extend(h+n)` read back from any buffer that holds the `n` bytes: exactly `buf[h : h+n]` -/
theorem tp_body_get (B : Buf) (h n : Nat) (hfit : h + n ≤ B.size) (hlim : h + n ≤ 65535) :
    ((PField.set h h).extend (h + n)).get? B = some (B.extract h (h + n)) ∧
    ((PField.set h h).extend (h + n)).offs = h ∧ ((PField.set h h).extend (h + n)).len = n := by
  have e1 : trunc16 h = h := trunc16_of_lt (by omega)
  have e2 : trunc16 (h + n) = h + n := trunc16_of_lt (by omega)
  unfold PField.get? PField.endT PField.extend PField.set
  simp only [e1, e2]
  have e3 : (h + n + 65536 - h) % 65536 = n := by omega
  rw [e3, e2, if_pos ⟨by omega, hfit⟩]
  exact ⟨rfl, trivial, rfl⟩

/-- **the Content-Length row of the body table for ParseSIPMsg itself, for EVERY flag word with body parsing on** (the
    no-more-data flag may be set or not, `parseSIPMsg_clen_framing` has the case without it): first line OK, header
    block OK at `h` with a parsed Content-Length `n`, and `n` bytes available after `h`. Then the call says OK at
    `h + n`, the object is finished, carries the parsed values, and the body field is `Set(h,h).Extend(h+n)`; within
    the 16-bit limit it denotes exactly `buf[h : h+n]` — never more, never fewer, whatever follows. -/
theorem tp_clen_fit (b : Buf) (o o1 h : Nat) (m : PSIPMsg) (flags : Nat) (fl : PFLine) (hl : HdrLst)
    (hv : PHdrVals) (hst : m.state = .init) (hf : parseFLine b o m.fl = (o1, .ok, fl))
    (hh : parseHeaders b o1 m.hl (some m.pv) = (h, .ok, hl, some hv))
    (hs : hasFlag flags SIPMsgSkipBodyF = false) (hc : hv.clen.parsed = true)
    (hfit : h + hv.clen.uiVal ≤ b.size) :
    (parseSIPMsg b o m flags).1 = h + hv.clen.uiVal ∧ (parseSIPMsg b o m flags).2.1 = .ok ∧
    (parseSIPMsg b o m flags).2.2.body = (PField.set h h).extend (h + hv.clen.uiVal) ∧
    (parseSIPMsg b o m flags).2.2.state = .fin ∧ (parseSIPMsg b o m flags).2.2.pv = hv ∧
    (h + hv.clen.uiVal ≤ 65535 →
      (parseSIPMsg b o m flags).2.2.body.get? b = some (b.extract h (h + hv.clen.uiVal)) ∧
      (parseSIPMsg b o m flags).2.2.body.offs = h ∧ (parseSIPMsg b o m flags).2.2.body.len = hv.clen.uiVal) := by
  rw [parseSIPMsg_eq_msgBody b o o1 h m flags fl hl hv hst hf hh]
  have hc' : (afaBodyEntry m o fl hl hv).pv.clen.parsed = true := hc
  have hu : (afaBodyEntry m o fl hl hv).pv.clen.uiVal = hv.clen.uiVal := rfl
  have hng : ¬ (h + hv.clen.uiVal > b.size) := by omega
  have hb : msgBody b h (afaBodyEntry m o fl hl hv) flags =
      msgEnd { afaBodyEntry m o fl hl hv with body := PField.set h h } b (h + hv.clen.uiVal) := by
    unfold msgBody
    simp only [hs, hc', hu, hng, Bool.false_eq_true, ↓reduceIte]
  rw [hb]
  refine ⟨rfl, rfl, rfl, rfl, rfl, fun hlim => ?_⟩
  exact tp_body_get b h hv.clen.uiVal hfit hlim

theorem tp_extract_app_left (x rest : Buf) (i j : Nat) (hj : j ≤ x.size) :
    (x ++ rest).extract i j = x.extract i j := by
  rw [Array.extract_append]
  have a1 : rest.extract (i - x.size) (j - x.size) = #[] := by
    apply Array.ext'
    simp [Array.toList_extract]
    omega
  rw [a1, Array.append_empty]

/-- **(3) `declared_length_rules`**: body parsing on; the text `x`, parsed from a new / Init / Reset object at `o` with a
    flag word `flags` without the no-more-data flag, gives OK with a parsed Content-Length `n` (so, by
    `ok_with_content_length`, at least `n` bytes follow its header block). Then there is the offset `h` where the header
    block ended such that for ANY bytes `rest` appended and for the flag word `flags'` WITH (or without) the
    no-more-data flag, the call on `x ++ rest` returns exactly the same triple: OK at `h + n` with the same object,
    whose body is `Set(h,h).Extend(h+n)` = exactly the `n` bytes `x[h : h+n]` after the blank line — never more (the
    bytes of `rest`, or further bytes of `x`, are not taken, also when the caller says no more data will come) and
    never fewer. -/
theorem declared_length_rules (x rest : Buf) (o : Nat) (m : PSIPMsg) (flags flags' : Nat)
    (hs' : hasFlag flags' SIPMsgSkipBodyF = hasFlag flags SIPMsgSkipBodyF)
    (hr' : hasFlag flags' SIPMsgCLenReqF = hasFlag flags SIPMsgCLenReqF)
    (hok : msgOK x o m) (hst : m.state = .init) (hfit : x.size ≤ 65535)
    (hs : hasFlag flags SIPMsgSkipBodyF = false) (hn : hasFlag flags SIPMsgNoMoreDataF = false)
    {o' : Nat} {m' : PSIPMsg} (hr : parseSIPMsg x o m flags = (o', .ok, m')) (hc : m'.pv.clen.parsed = true) :
    ∃ h, h + m'.pv.clen.uiVal ≤ x.size ∧ o' = h + m'.pv.clen.uiVal ∧
      parseSIPMsg (x ++ rest) o m flags = (h + m'.pv.clen.uiVal, .ok, m') ∧
      parseSIPMsg (x ++ rest) o m flags' = (h + m'.pv.clen.uiVal, .ok, m') ∧
      parseSIPMsg x o m flags' = (h + m'.pv.clen.uiVal, .ok, m') ∧
      m'.body = (PField.set h h).extend (h + m'.pv.clen.uiVal) ∧
      m'.body.offs = h ∧ m'.body.len = m'.pv.clen.uiVal ∧
      m'.body.get? (x ++ rest) = some (x.extract h (h + m'.pv.clen.uiVal)) := by
  obtain ⟨o1, fl, h, hl, _, _, hle, ho', hbody, _⟩ := parseSIPMsg_ok_clen x o m flags hst hs hn hr hc
  subst ho'
  have hnb : ¬ bodyToEnd flags m' := fun hb => by rw [hb.2.1] at hc; cases hc
  have h1 := parseSIPMsg_stable x rest o m flags hok hfit hn hr (by decide) hnb
  have h2 := pa_ok_any_nomore (x ++ rest) o m flags flags' hs' hr' hn h1
  have h3 := pa_ok_any_nomore x o m flags flags' hs' hr' hn hr
  have hg := tp_body_get (x ++ rest) h m'.pv.clen.uiVal (by rw [Array.size_append]; omega) (by omega)
  refine ⟨h, hle, rfl, h1, h2, h3, hbody, ?_, ?_, ?_⟩
  · rw [hbody]; exact hg.2.1
  · rw [hbody]; exact hg.2.2
  · rw [hbody, hg.1, tp_extract_app_left x rest h _ hle]

/-! ### (4) every chunk schedule of the pipeline buffer, one message object -/

/-- every buffer of a growing list that ends with `B` is at most as long as `B` -/
theorem tp_growing_size_le {c : List Buf} (hg : Growing c) {B : Buf} (hB : c.getLast? = some B) :
    ∀ z ∈ c, z.size ≤ B.size := by
  intro z hz
  obtain ⟨t, ht⟩ := mlf_growing_last hg hB z hz
  rw [ht, Array.size_append]; omega

/-- **(4), a complete message inside the buffer, every schedule**: the buffer `B = pre ++ (x ++ rest)` arrives in
    pieces: `c` is ANY growing list of prefixes of `B` ending with `B` (any number of cuts, anywhere — inside `x`,
    inside `rest`, the last two buffers may be equal), the first of which reaches the start of `x`. The caller Resets
    its object (any history) and calls ParseSIPMsg at the start of `x` on each buffer in turn, resuming at the
    returned offset on the same object while the verdict is MoreBytes — with `flags` throughout (`resumeRun`), or with
    `flags'` (e.g. plus the no-more-data flag) on the last buffer (`resumeRunEnd`). If `x` is a complete
    framing-definite message, both chains return exactly what ONE call on `B` returns: OK at the first byte after `x`
    with the stand-alone object of `x` moved by `pre.size`. The chunking does not show in the result. -/
theorem tp_schedule_message (pre x rest : Buf) (flags flags' : Nat)
    (hs : hasFlag flags' SIPMsgSkipBodyF = hasFlag flags SIPMsgSkipBodyF)
    (hr : hasFlag flags' SIPMsgCLenReqF = hasFlag flags SIPMsgCLenReqF) {m : PSIPMsg} (hR : ScReach m)
    (hfit : (pre ++ (x ++ rest)).size ≤ 65535)
    (hx : paAloneOK flags m.hl.hdrs.size m.pv.contacts.vals.size x)
    (c : List Buf) (hg : Growing c) (hB : c.getLast? = some (pre ++ (x ++ rest)))
    (ho : ∀ b ∈ c.head?, pre.size ≤ b.size) :
    resumeRunEnd (mlfP flags) (mlfP flags') pre.size m.reset c =
      (pre.size + x.size, .ok, shMsg pre.size (paAlone flags m.hl.hdrs.size m.pv.contacts.vals.size x)) ∧
    resumeRun (mlfP flags) pre.size m.reset c =
      (pre.size + x.size, .ok, shMsg pre.size (paAlone flags m.hl.hdrs.size m.pv.contacts.vals.size x)) := by
  have hnf := hx.2.2.1
  have ht' := pa_turn pre x rest flags flags' hs hr hR hfit hx
  have ht := pa_turn pre x rest flags flags rfl rfl hR hfit hx
  have hfitc : ∀ z ∈ c, z.size ≤ 65535 := fun z hz => Nat.le_trans (tp_growing_size_le hg hB z hz) hfit
  have hM := sc_reset_after_history hR
  have h0 : ∀ b ∈ c.head?, msgOK2 b pre.size m.reset ∧ msgOK b pre.size m.reset := by
    rw [hM]; exact mlf_h0_init pre.size {} m.bufLen _ _ (some ()) (some ()) c ho
  have hst : m.reset.state = .init := rfl
  have hall := mlf_msgOK_all hg (fun b hb => (h0 b hb).2)
  have hside : ∀ z ∈ c.dropLast, (parseSIPMsg z pre.size m.reset flags).2.1 = .ok →
      ¬ bodyToEnd flags (parseSIPMsg z pre.size m.reset flags).2.2 := by
    intro z hz hok hbe
    have hzl : z ∈ c := List.dropLast_subset c hz
    obtain ⟨t, htz⟩ := mlf_growing_last hg hB z hzl
    rcases hp : parseSIPMsg z pre.size m.reset flags with ⟨o', e, m'⟩
    rw [hp] at hok hbe
    simp only at hok hbe
    subst hok
    rw [htz] at ht hfit
    have := (parseSIPMsg_bodyToEnd_rel z t pre.size m.reset flags (hall z hzl) hfit hnf hp hbe (Or.inl hst) ht).2.2.2
    exact ((paFramed_iff flags _).1 ((paFramed_shMsg flags pre.size _).2 hx.2.2)).2 this
  have k1 := schedule_msg_last_flags_one flags flags' pre.size m.reset c hg hfitc h0 hnf hs hr _ hB hside
  have k2 := schedule_msg_last_flags_one flags flags pre.size m.reset c hg hfitc h0 hnf rfl rfl _ hB hside
  rw [mlf_resumeRunEnd_same] at k2
  have e1 := k1.eq (by show Err.goesOn (parseSIPMsg _ _ _ flags').2.1; rw [ht']; exact Or.inl rfl)
  have e2 := k2.eq (by show Err.goesOn (parseSIPMsg _ _ _ flags).2.1; rw [ht]; exact Or.inl rfl)
  exact ⟨by rw [e1]; exact ht', by rw [e2]; exact ht⟩

/-- **(4), the truncated last text, every schedule**: `B = pre ++ y` where `y` has a complete header block (ending at
    `h`) and a body shorter than its Content-Length, body parsing on; `c` is any growing list of prefixes of `B` ending
    with `B` whose first buffer reaches the start of `y`. The chain of resumed calls from a Reset object with `flags`
    (no no-more-data flag) on all buffers but the last and `flags'` (with the flag) on the last returns exactly what
    ONE call with the flag returns: OK at the end of the buffer, the stand-alone no-more-data object of `y` moved by
    `pre.size`; the chain with `flags` throughout ends with MoreBytes at the body start `pre.size + h`. -/
theorem tp_schedule_last_truncated (pre y : Buf) (h : Nat) (flags flags' : Nat)
    (hs : hasFlag flags' SIPMsgSkipBodyF = hasFlag flags SIPMsgSkipBodyF)
    (hnf : hasFlag flags SIPMsgNoMoreDataF = false) (hn : hasFlag flags' SIPMsgNoMoreDataF = true)
    (hsk : hasFlag flags SIPMsgSkipBodyF = false) {m : PSIPMsg} (hR : ScReach m)
    (hfit : (pre ++ y).size ≤ 65535)
    (hy : tpTruncated m.hl.hdrs.size m.pv.contacts.vals.size y h)
    (c : List Buf) (hg : Growing c) (hB : c.getLast? = some (pre ++ y))
    (ho : ∀ b ∈ c.head?, pre.size ≤ b.size) :
    resumeRunEnd (mlfP flags) (mlfP flags') pre.size m.reset c =
      (pre.size + y.size, .ok, shMsg pre.size (paAlone flags' m.hl.hdrs.size m.pv.contacts.vals.size y)) ∧
    (resumeRun (mlfP flags) pre.size m.reset c).1 = pre.size + h ∧
    (resumeRun (mlfP flags) pre.size m.reset c).2.1 = .moreBytes := by
  have hsk' : hasFlag flags' SIPMsgSkipBodyF = false := by rw [hs]; exact hsk
  have ht' := tp_turn_trunc_nmd pre y hy flags' hsk' hn hR rfl rfl hfit
  have ht := tp_turn_trunc_more pre y hy flags hsk hnf hR rfl rfl hfit
  have hfitc : ∀ z ∈ c, z.size ≤ 65535 := fun z hz => Nat.le_trans (tp_growing_size_le hg hB z hz) hfit
  have hM := sc_reset_after_history hR
  have h0 : ∀ b ∈ c.head?, msgOK2 b pre.size m.reset ∧ msgOK b pre.size m.reset := by
    rw [hM]; exact mlf_h0_init pre.size {} m.bufLen _ _ (some ()) (some ()) c ho
  have k1 := schedule_msg_last_flags_more flags flags' pre.size m.reset c hg hfitc h0 hnf _ hB ht.2
  have k2 := schedule_msg_more flags pre.size m.reset c hg hfitc h0 hnf _ hB ht.2
  have e1 := k1.eq (by show Err.goesOn (parseSIPMsg _ _ _ flags').2.1; rw [ht']; exact Or.inl rfl)
  exact ⟨by rw [e1]; exact ht', by rw [k2]; exact ht.1, by rw [k2]; exact ht.2⟩

/-! ### (4) the whole pipeline arriving in chunks: the caller's streaming loop -/

/-- what the loop knows after a complete message: the returned object has some history and the capacities of `m` -/
theorem tp_turn_reach (pre x rest : Buf) (flags : Nat) {m : PSIPMsg} (hR : ScReach m)
    (hfit : (pre ++ (x ++ rest)).size ≤ 65535)
    (hx : paAloneOK flags m.hl.hdrs.size m.pv.contacts.vals.size x) :
    ScReach (shMsg pre.size (paAlone flags m.hl.hdrs.size m.pv.contacts.vals.size x)) ∧
    (shMsg pre.size (paAlone flags m.hl.hdrs.size m.pv.contacts.vals.size x)).hl.hdrs.size = m.hl.hdrs.size ∧
    (shMsg pre.size (paAlone flags m.hl.hdrs.size m.pv.contacts.vals.size x)).pv.contacts.vals.size =
      m.pv.contacts.vals.size := by
  have ht := pa_turn pre x rest flags flags rfl rfl hR hfit hx
  refine ⟨?_, ?_, ?_⟩
  · have := ScReach.parse (pre ++ (x ++ rest)) pre.size flags (ScReach.reset hR)
    rw [ht] at this; exact this
  · have := sc_size_parseSIPMsg (pre ++ (x ++ rest)) pre.size m.reset flags
    rw [ht] at this
    rw [this]
    show (m.hl.reset.hdrs).size = _
    unfold HdrLst.reset; simp
  · have := pa_cap_parseSIPMsg (pre ++ (x ++ rest)) pre.size m.reset flags
    rw [ht] at this
    rw [this, sc_reset_after_history hR]
    show (Array.replicate m.pv.contacts.vals.size ({} : PFromBody)).size = _
    simp

/-- **the caller's streaming loop**: one growing list of buffers ("chunk schedule") per message. For each schedule:
    Reset the object, call ParseSIPMsg at the current offset on the buffers of the schedule in turn, resuming at the
    returned offset on the same object while the verdict is MoreBytes (`flags` on all buffers but the last, `flags'`
    on the last: `resumeRunEnd`); on OK keep the object and go on with the next schedule at the returned offset,
    otherwise stop with that verdict. -/
def tpStreamAll (flags flags' : Nat) : List (List Buf) → Nat → PSIPMsg → List PSIPMsg × Nat × Err
  | [], o, _ => ([], o, .ok)
  | c :: cs, o, m =>
    if (resumeRunEnd (mlfP flags) (mlfP flags') o m.reset c).2.1 = .ok then
      paCons (resumeRunEnd (mlfP flags) (mlfP flags') o m.reset c).2.2
        (tpStreamAll flags flags' cs (resumeRunEnd (mlfP flags) (mlfP flags') o m.reset c).1
          (resumeRunEnd (mlfP flags) (mlfP flags') o m.reset c).2.2)
    else ([], (resumeRunEnd (mlfP flags) (mlfP flags') o m.reset c).1,
      (resumeRunEnd (mlfP flags) (mlfP flags') o m.reset c).2.1)

/-- `c` is a chunk schedule for the text `x` that starts after `pre`: a growing list of buffers, the first of which
    reaches the start of `x`, the last of which holds `pre`, all of `x` and possibly more (`rest`: any bytes, e.g. the
    beginning of the next messages), within the 65,535-byte limit -/
def tpSched (pre x : Buf) (c : List Buf) : Prop :=
  Growing c ∧ (∀ b ∈ c.head?, pre.size ≤ b.size) ∧
    ∃ rest, c.getLast? = some (pre ++ (x ++ rest)) ∧ (pre ++ (x ++ rest)).size ≤ 65535

/-- one schedule per text of `l`, text `i` starting after `pre` and the texts before it -/
def tpScheds : Buf → List Buf → List (List Buf) → Prop
  | _, [], [] => True
  | pre, x :: xs, c :: cs => tpSched pre x c ∧ tpScheds (pre ++ x) xs cs
  | _, _, _ => False

/-- **the streaming loop consumes the complete framing-definite messages however they were chunked** -/
theorem tp_streamAll_prefix (flags flags' kh kc : Nat)
    (hs : hasFlag flags' SIPMsgSkipBodyF = hasFlag flags SIPMsgSkipBodyF)
    (hr : hasFlag flags' SIPMsgCLenReqF = hasFlag flags SIPMsgCLenReqF) (cs' : List (List Buf)) :
    ∀ (l : List Buf) (cs : List (List Buf)) (pre : Buf) (m : PSIPMsg), (∀ x ∈ l, paAloneOK flags kh kc x) →
      tpScheds pre l cs → ScReach m → m.hl.hdrs.size = kh → m.pv.contacts.vals.size = kc →
      ∃ m', ScReach m' ∧ m'.hl.hdrs.size = kh ∧ m'.pv.contacts.vals.size = kc ∧
        tpStreamAll flags flags' (cs ++ cs') pre.size m =
          tpPre (paMoved flags kh kc pre.size l) (tpStreamAll flags flags' cs' (pre.size + (smCat l).size) m') := by
  intro l
  induction l with
  | nil =>
    intro cs pre m _ hsc hR hkh hkc
    cases cs with
    | nil =>
      have : smCat ([] : List Buf) = #[] := rfl
      exact ⟨m, hR, hkh, hkc, by rw [this]; simp [paMoved, tpPre]⟩
    | cons c cs => exact hsc.elim
  | cons x xs ih =>
    intro cs pre m hall hsc hR hkh hkc
    cases cs with
    | nil => exact hsc.elim
    | cons c cs =>
      obtain ⟨⟨hg, ho, rest, hB, hfit⟩, hsc'⟩ := hsc
      have hx : paAloneOK flags m.hl.hdrs.size m.pv.contacts.vals.size x := by
        rw [hkh, hkc]; exact hall x (List.mem_cons_self ..)
      have hrun := (tp_schedule_message pre x rest flags flags' hs hr hR hfit hx c hg hB ho).1
      obtain ⟨hR', hkh', hkc'⟩ := tp_turn_reach pre x rest flags hR hfit hx
      rw [hkh, hkc] at hrun hR' hkh' hkc'
      obtain ⟨m', hR2, hkh2, hkc2, hrec⟩ := ih cs (pre ++ x) _ (fun y hy => hall y (List.mem_cons_of_mem _ hy)) hsc' hR'
        hkh' hkc'
      rw [Array.size_append] at hrec
      refine ⟨m', hR2, hkh2, hkc2, ?_⟩
      rw [List.cons_append, tpStreamAll, hrun]
      simp only [↓reduceIte]
      rw [hrec, tpPre_cons, pa_smCat_cons, Array.size_append, Nat.add_assoc]
      rfl

/-- **(4) `pipeline_chunking_irrelevant`**: the buffer holds the complete framing-definite messages `l`; it arrives in
    chunks, and the caller works through it with ONE message object, message after message, each message over its own
    ARBITRARY chunk schedule (`tpScheds`: any cuts; the schedule of message `i` ends with any buffer that holds
    messages `0..i` and possibly more). The streaming loop returns exactly the moved stand-alone objects — the list
    that the loop over the complete buffer returns (`parse_all_pipeline`) — and ends at the end of the messages.
    Neither the chunking nor a no-more-data flag on the last call of each schedule (`flags'`) shows in the result. -/
theorem pipeline_chunking_irrelevant (l : List Buf) (cs : List (List Buf)) (flags flags' : Nat)
    (hs : hasFlag flags' SIPMsgSkipBodyF = hasFlag flags SIPMsgSkipBodyF)
    (hr : hasFlag flags' SIPMsgCLenReqF = hasFlag flags SIPMsgCLenReqF) {m : PSIPMsg} (hR : ScReach m)
    (hall : ∀ x ∈ l, paAloneOK flags m.hl.hdrs.size m.pv.contacts.vals.size x)
    (hsc : tpScheds #[] l cs) :
    tpStreamAll flags flags' cs 0 m =
      (paMoved flags m.hl.hdrs.size m.pv.contacts.vals.size 0 l, (smCat l).size, .ok) := by
  obtain ⟨m', _, _, _, h⟩ := tp_streamAll_prefix flags flags' _ _ hs hr [] l cs #[] m hall hsc hR rfl rfl
  simp only [List.append_nil, Array.size_empty, Nat.zero_add] at h
  rw [h]
  simp [tpStreamAll, tpPre]

/-- **(4) + (1) `pipeline_chunking_irrelevant_truncated`**: `k` complete framing-definite messages `l`, each over its own
    arbitrary chunk schedule, then a LAST text `y` with a complete header block (ending at `h`) and a body shorter
    than its Content-Length, over an arbitrary schedule `cy` ending with the whole buffer `smCat l ++ y`; body parsing
    on. With the no-more-data flag on the last call of each schedule (`flags'`) the streaming loop returns what the
    loop over the complete buffer returns (`pipeline_last_truncated`): the `k` moved stand-alone objects, then the
    stand-alone no-more-data object of `y` moved by the start of `y` (truncated body reaching the end of the buffer),
    OK at the end of the buffer. Without the flag (`flags` throughout) it returns the same first `k` objects and stops
    with MoreBytes at the body start of `y`. -/
theorem pipeline_chunking_irrelevant_truncated (l : List Buf) (cs : List (List Buf)) (y : Buf) (cy : List Buf)
    (h : Nat) (flags flags' : Nat)
    (hs : hasFlag flags' SIPMsgSkipBodyF = hasFlag flags SIPMsgSkipBodyF)
    (hr : hasFlag flags' SIPMsgCLenReqF = hasFlag flags SIPMsgCLenReqF)
    (hnf : hasFlag flags SIPMsgNoMoreDataF = false) (hn : hasFlag flags' SIPMsgNoMoreDataF = true)
    (hsk : hasFlag flags SIPMsgSkipBodyF = false) {m : PSIPMsg} (hR : ScReach m)
    (hfit : (smCat l ++ y).size ≤ 65535)
    (hall : ∀ x ∈ l, paAloneOK flags m.hl.hdrs.size m.pv.contacts.vals.size x)
    (hy : tpTruncated m.hl.hdrs.size m.pv.contacts.vals.size y h)
    (hsc : tpScheds #[] l cs) (hg : Growing cy) (hB : cy.getLast? = some (smCat l ++ y))
    (ho : ∀ b ∈ cy.head?, (smCat l).size ≤ b.size) :
    tpStreamAll flags flags' (cs ++ [cy]) 0 m =
      (paMoved flags m.hl.hdrs.size m.pv.contacts.vals.size 0 l ++
        [shMsg (smCat l).size (paAlone flags' m.hl.hdrs.size m.pv.contacts.vals.size y)],
       (smCat l ++ y).size, .ok) ∧
    tpStreamAll flags flags (cs ++ [cy]) 0 m =
      (paMoved flags m.hl.hdrs.size m.pv.contacts.vals.size 0 l, (smCat l).size + h, .moreBytes) := by
  constructor
  · obtain ⟨m', hR', hkh', hkc', hp⟩ := tp_streamAll_prefix flags flags' _ _ hs hr [cy] l cs #[] m hall hsc hR rfl rfl
    simp only [Array.size_empty, Nat.zero_add] at hp
    rw [hp]
    rw [← hkh', ← hkc'] at hy
    have hrun := (tp_schedule_last_truncated (smCat l) y h flags flags' hs hnf hn hsk hR' hfit hy cy hg hB ho).1
    rw [hkh', hkc'] at hrun
    rw [tpStreamAll, hrun]
    simp only [↓reduceIte]
    rw [Array.size_append]
    rfl
  · obtain ⟨m', hR', hkh', hkc', hp⟩ := tp_streamAll_prefix flags flags _ _ rfl rfl [cy] l cs #[] m hall hsc hR rfl rfl
    simp only [Array.size_empty, Nat.zero_add] at hp
    rw [hp]
    rw [← hkh', ← hkc'] at hy
    have hrun := (tp_schedule_last_truncated (smCat l) y h flags flags' hs hnf hn hsk hR' hfit hy cy hg hB ho).2
    rw [tpStreamAll]
    rw [mlf_resumeRunEnd_same]
    have hne : ¬ ((resumeRun (mlfP flags) (smCat l).size m'.reset cy).2.1 = .ok) := by
      rw [hrun.2]; intro hh; cases hh
    rw [if_neg hne, hrun.1, hrun.2]
    simp [tpPre]

/-! ### tests / non-vacuity (closed computations by `decide +kernel`; examples, not the general claims) -/

-- test texts of PipelineAlone: `paExReq` (108 bytes, Content-Length 2, body "hi"), `paExRpl` (empty body),
-- `paExShort` (65 bytes: header block ends at 63, Content-Length 5, only "hi" follows)

-- the hypothesis on the last text is satisfiable (and `h` is determined)
example : tpTruncated 10 10 paExShort 63 := by decide +kernel
example : ¬ tpTruncated 10 10 paExShort 62 := by decide +kernel
-- a complete message is not "truncated"
example : ¬ tpTruncated 10 10 paExReq 106 := by decide +kernel

/-- test buffer: one complete message followed by the truncated one -/
def tpExBuf : Buf := smCat [paExReq] ++ paExShort

-- an instance of (1): two complete messages, then the truncated text; object fresh from Init
example :
    paParseAll (smCat [paExReq, paExRpl] ++ paExShort) 4 0 (paInit 10 10) =
      (paMoved 0 10 10 0 [paExReq, paExRpl] ++ [shMsg (smCat [paExReq, paExRpl]).size (paAlone 4 10 10 paExShort)],
       (smCat [paExReq, paExRpl] ++ paExShort).size, .ok) ∧
    paParseAll (smCat [paExReq, paExRpl] ++ paExShort) 0 0 (paInit 10 10) =
      (paMoved 0 10 10 0 [paExReq, paExRpl], (smCat [paExReq, paExRpl]).size + 63, .moreBytes) := by
  have key := pipeline_last_truncated [paExReq, paExRpl] paExShort 63 0 4 (by decide) (by decide) (by decide) (by decide)
    (by decide) (ScReach.init {} 0 10 10 (some ()) (some ())) (by decide +kernel)
    (by intro x hx; simp only [List.mem_cons, List.not_mem_nil, or_false] at hx
        rcases hx with rfl | rfl <;> decide +kernel)
    (by decide +kernel)
  exact ⟨key.1.1, key.2⟩

-- the same kind of run computed directly (test of the definitions): with the flag two objects, the second one is the
-- truncated message: raw message = the whole of `paExShort`, body = its last 2 bytes, at the end of the buffer;
-- without the flag one object and MoreBytes at the body start of the second text (108 + 63)
example :
    (paParseAll tpExBuf 4 0 (paInit 10 10)).2 = (paExReq.size + paExShort.size, Err.ok) ∧
    ((paParseAll tpExBuf 4 0 (paInit 10 10)).1.map (fun m => (m.rawOffs, m.rawLen, m.body.offs, m.body.len))) =
      [(0, 108, 106, 2), (108, 65, 171, 2)] ∧
    ((paParseAll tpExBuf 4 0 (paInit 10 10)).1.map (fun m => m.body.get? tpExBuf)) =
      [some "hi".toUTF8.data, some "hi".toUTF8.data] ∧
    (paParseAll tpExBuf 0 0 (paInit 10 10)).2 = (171, Err.moreBytes) ∧
    ((paParseAll tpExBuf 0 0 (paInit 10 10)).1.map (fun m => (m.rawOffs, m.rawLen, m.body.offs, m.body.len))) =
      [(0, 108, 106, 2)] := by
  decide +kernel

-- (3) the declared length rules also in the no-more-data mode: the 2 announced bytes are the body although 65 more
-- bytes follow and the caller says that no more data will come
example :
    (parseSIPMsg tpExBuf 0 (paInit 10 10) 4).1 = 108 ∧ (parseSIPMsg tpExBuf 0 (paInit 10 10) 4).2.1 = Err.ok ∧
    (parseSIPMsg tpExBuf 0 (paInit 10 10) 4).2.2.body = ⟨106, 2⟩ := by
  decide +kernel

/-- test schedules: the first message cut inside its first line and delivered with 5 bytes of the next text … -/
def tpExC1 : List Buf := [tpExBuf.extract 0 30, tpExBuf.extract 0 113]
/-- … the last text continued from there: cut inside its Content-Length line, one byte before the end, complete,
    and once more (nothing arrived: the stream ended) -/
def tpExC2 : List Buf := [tpExBuf.extract 0 113, tpExBuf.extract 0 160, tpExBuf.extract 0 172, tpExBuf, tpExBuf]

-- the schedule hypotheses of (4) are satisfiable
example : tpScheds #[] [paExReq] [tpExC1] :=
  ⟨⟨⟨⟨tpExBuf.extract 30 113, by decide +kernel⟩, trivial⟩, (by intro b hb; simp),
    tpExBuf.extract 108 113, by decide +kernel, by decide +kernel⟩, trivial⟩

example : Growing tpExC2 :=
  ⟨⟨tpExBuf.extract 113 160, by decide +kernel⟩, ⟨tpExBuf.extract 160 172, by decide +kernel⟩,
   ⟨tpExBuf.extract 172 173, by decide +kernel⟩, ⟨#[], by decide +kernel⟩, trivial⟩

-- … and the streaming loop computed directly on them gives the objects of the loop over the complete buffer
example :
    (tpStreamAll 0 4 [tpExC1, tpExC2] 0 (paInit 10 10)).2 = (173, Err.ok) ∧
    ((tpStreamAll 0 4 [tpExC1, tpExC2] 0 (paInit 10 10)).1.map (fun m => (m.rawOffs, m.rawLen, m.body.offs, m.body.len))) =
      [(0, 108, 106, 2), (108, 65, 171, 2)] ∧
    (tpStreamAll 0 0 [tpExC1, tpExC2] 0 (paInit 10 10)).2 = (171, Err.moreBytes) ∧
    (tpStreamAll 0 0 [tpExC1, tpExC2] 0 (paInit 10 10)).1.length = 1 := by
  decide +kernel

-- an instance of `pipeline_last_complete_at_end` other than a truncated body: the last text has no Content-Length and
-- the loop runs with no flags, so its body is the rest of the buffer (here: empty)
example :
    paParseAll (smCat [paExReq] ++ paExNoCLen) 0 0 (paInit 10 10) =
      (paMoved 0 10 10 0 [paExReq] ++ [shMsg (smCat [paExReq]).size (paAlone 0 10 10 paExNoCLen)],
       (smCat [paExReq] ++ paExNoCLen).size, .ok) :=
  pipeline_last_complete_at_end [paExReq] paExNoCLen 0 0 rfl rfl (ScReach.init {} 0 10 10 (some ()) (some ()))
    (by decide +kernel)
    (by intro x hx; simp only [List.mem_cons, List.not_mem_nil, or_false] at hx
        rcases hx with rfl; decide +kernel)
    (Prod.ext (by decide +kernel) (Prod.ext (by decide +kernel) rfl))

end Sipsp
