/-
  Sipsp.Proofs.UriListsL — the stand-alone list parsers ParseTokenParam, ParseAllURIParams, ParseAllURIHdrs
  (properties C02 / C03 / C13 for them).  Everything is for option sets without `POptInputEndF`.

  Proved (final theorems):
  * L1 (C03)  `parseAllURIParams_stable`, `parseAllURIHdrs_stable` (+ loop versions `uriParamsLoop_stable`,
              `uriHdrsLoop_stable`): a definitive result (offset, number of values, verdict, list object) does not
              change when bytes are appended.
  * L2 (C02)  `parseTokenParam_resume`: for EVERY object and option set (including `POptTokSpTermF`, whose
              previous-byte test depends on the offset the call was started with) the resumed call returns exactly
              what the call from the original offset returns.  `parseAllURIParams_resume`,
              `parseAllURIHdrs_resume` (+ `uriParamsLoop_resume`, `uriHdrsLoop_resume`): same offset, verdict and
              list object, the per-call value counters add up, legitimacy is re-established at the suspension.
              Schedule forms: `parseTokenParam_schedule`, `parseAllURIParams_schedule`, `parseAllURIHdrs_schedule`.
  * C13       `parseAllURIParams_rel`, `parseAllURIHdrs_rel` (+ `uriParamsLoop_rel`, `uriHdrsLoop_rel`): two runs
              with arrays of different capacity return the same offset, number of values and verdict, and related
              objects (`PlRel` / `HlRel`: same `n`, type flags, panic flag, current element; stored elements agree
              wherever both arrays have room).  `PlRel_new`, `PlRel_reset`, `HlRel_new`, `HlRel_reset`.
  * every call (any verdict) returns a legitimate list and an offset in [offs, len]: `parseAllURIParams_post`,
              `parseAllURIHdrs_post`; for ParseTokenParam `parseTokenParam_post`, `parseTokenParam_range`.
  * legitimacy: `plOK` (URI parameters: clean unused slots + the current element's name field has a 16-bit offset and
              ends inside the buffer) / `hlClean` (URI headers); `plOK_new`, `plOK_reset`, `hlClean_new`,
              `hlClean_reset` for new / reset lists of any capacity.

  NOT proved here: anything with `POptInputEndF`; lists whose unused slots hold garbage (then the model's progress
  guard can fail, see `pl_guard`).
-/
import Sipsp.Proofs.TokParamL1
import Sipsp.Proofs.ProgressNA
import Sipsp.Proofs.Range
import Sipsp.Proofs.Schedule

namespace Sipsp

/-! ### generic: two machines that agree from some position on -/

theorem runLoop_congr_from {σ : Type} (m1 m2 : Machine σ) (b : Buf) (i0 : Nat)
    (hs : ∀ j c st, i0 ≤ j → b[j]? = some c → m1.step b j c st = m2.step b j c st)
    (he : ∀ j st, m1.eob b j st = m2.eob b j st) (i : Nat) (hi : i0 ≤ i) (st : σ) :
    runLoop m1 b i st = runLoop m2 b i st := by
  induction hk : b.size - i using Nat.strongRecOn generalizing i st with
  | _ k ih =>
    cases hb : b[i]? with
    | none => rw [runLoop_none m1 st hb, runLoop_none m2 st hb, he]
    | some c =>
      have hse := hs i c st hi hb
      cases hs1 : m1.step b i c st with
      | done o e st' =>
        rw [runLoop_done m1 hb hs1, runLoop_done m2 hb (hse ▸ hs1)]
      | cont i' st' =>
        rw [runLoop_cont m1 hb hs1, runLoop_cont m2 hb (hse ▸ hs1)]
        by_cases hlt : i < i'
        · rw [if_pos hlt, if_pos hlt]
          have := get?_lt hb
          exact ih (b.size - i') (by omega) i' (by omega) st' rfl
        · rw [if_neg hlt, if_neg hlt]

/-! ### SkipQuoted: ranges -/

theorem skipQuoted_range (b : Buf) (i : Nat) (hi : i ≤ b.size) {n : Nat} {e : Err}
    (h : skipQuoted b i = (n, e)) : i ≤ n ∧ n ≤ b.size := by
  unfold skipQuoted at h
  have key := runLoop_range sqMachine b sq_progress
    (by
      intro j c st o e st' hb hs
      have hj := get?_lt hb
      change sqStep b j c st = .done o e st' at hs
      unfold sqStep at hs
      repeat' (split at hs)
      all_goals first
        | (cases hs; omega)
        | cases hs)
    (by
      intro j c st j' st' hb hs
      have hj := get?_lt hb
      change sqStep b j c st = .cont j' st' at hs
      unfold sqStep at hs
      repeat' (split at hs)
      all_goals first
        | (cases hs; omega)
        | (cases hs; have := get?_lt (i := j + 1) (by assumption); omega)
        | cases hs)
    (by intro j st; rfl) i () hi
  simp only [Prod.mk.injEq] at h
  rw [h.1] at key
  exact key

/-- on `Ok` the byte before the returned offset is the closing quote -/
theorem skipQuoted_ok_prev (b : Buf) (i : Nat) {n : Nat} (h : skipQuoted b i = (n, Err.ok)) :
    b[n - 1]? = some 34 ∧ 1 ≤ n := by
  unfold skipQuoted at h
  have key : (runLoop sqMachine b i ()).2.1 = Err.ok →
      b[(runLoop sqMachine b i ()).1 - 1]? = some 34 ∧ 1 ≤ (runLoop sqMachine b i ()).1 := by
    apply runLoop_inv sqMachine b (fun _ _ => True) (fun r => r.2.1 = Err.ok → b[r.1 - 1]? = some 34 ∧ 1 ≤ r.1)
    · intro j c st j' st' hb hP hs
      exact ⟨fun _ => trivial, fun _ hh => by cases hh⟩
    · intro j c st o e st' hb hP hs he
      simp only at he; subst he
      change sqStep b j c st = .done o .ok st' at hs
      unfold sqStep at hs
      by_cases h34 : (c == 34) = true
      · simp only [h34, ↓reduceIte] at hs
        cases hs
        simp only [beq_iff_eq] at h34
        subst h34
        exact ⟨by simpa using hb, by omega⟩
      · simp only [h34, Bool.false_eq_true, ↓reduceIte] at hs
        repeat' (split at hs)
        all_goals cases hs
    · intro j st _ _ he; cases he
    · trivial
  rcases hr : runLoop sqMachine b i () with ⟨o, e, u⟩
  rw [hr] at h key
  simp only [Prod.mk.injEq] at h
  obtain ⟨rfl, rfl⟩ := h
  exact key rfl

/-! ### ParseTokenParam: what one loop iteration can do -/

theorem tpEOH_facts (p : PTokParam) (n crl : Nat) :
    (tpEOH p n crl).1 = n + crl ∧ (tpEOH p n crl).2.1 ≠ Err.moreBytes ∧ (tpEOH p n crl).2.2.name = p.name := by
  unfold tpEOH
  split <;> exact ⟨rfl, (fun h => by cases h), rfl⟩

/-- how the name field of the object can change in one iteration at position `i` -/
def NameStep (i : Nat) (p p' : PTokParam) : Prop :=
  p'.name = p.name ∨ p'.name = PField.set i i ∨ p'.name = p.name.extend i

theorem tpLWS_spec (b : Buf) (flags i : Nat) (c : UInt8) (p : PTokParam) (upd : PTokParam → PTokParam)
    (hf : hasFlag flags POptInputEndF = false) (hb : b[i]? = some c) (hl : isLWSch c = true) :
    (∀ n q, tpLWS b flags i p upd = .cont n q → q = upd p ∧ i < n ∧ n < b.size) ∧
    (∀ o e q, tpLWS b flags i p upd = .done o e q →
      (e = .moreBytes ∧ o = i ∧ q = p) ∨ (e ≠ .moreBytes ∧ i ≤ o ∧ o ≤ b.size ∧ q.name = (upd p).name)) := by
  unfold tpLWS
  have hi := get?_lt hb
  rcases hsk : skipLWS b i flags with ⟨n, crl, e⟩
  have hr := skipLWS_range b i flags hsk
  have hrn := hr.2 (by omega)
  cases e <;> simp only [stepOfRes, tpMoreBytes_noEnd b flags p i hf]
  case ok =>
    obtain ⟨_, c', hc', _⟩ := skipLWS_ok b i flags hsk
    refine ⟨fun n' q h => ?_, fun o e q h => by cases h⟩
    cases h
    exact ⟨rfl, skipLWS_ok_gt b i flags hb hl hsk, get?_lt hc'⟩
  case moreBytes =>
    refine ⟨(fun n' q h => by cases h), fun o e q h => ?_⟩
    cases h; exact Or.inl ⟨rfl, rfl, rfl⟩
  case eoh =>
    have he := skipLWS_eoh_range b i flags hsk hf
    have hfa := tpEOH_facts (upd p) n crl
    refine ⟨(fun n' q h => by cases h), fun o e q h => ?_⟩
    cases h
    exact Or.inr ⟨hfa.2.1, by rw [hfa.1]; omega, by rw [hfa.1]; omega, hfa.2.2⟩
  all_goals
    refine ⟨(fun n' q h => by cases h), fun o e q h => ?_⟩
    cases h
    exact Or.inr ⟨(fun h => by cases h), hr.1, hrn, rfl⟩

/-- the continuing iterations: progress, range, the states that can be reached, the name field -/
theorem tp_cont_facts (flags offs : Nat) (b : Buf) (i : Nat) (c : UInt8) (p : PTokParam)
    (hf : hasFlag flags POptInputEndF = false) (hb : b[i]? = some c) (hnf : p.state ≠ .fin)
    {i' : Nat} {p' : PTokParam} (hs : tpStep flags offs b i c p = .cont i' p') :
    i < i' ∧ i' ≤ b.size ∧ p'.state ≠ .fin ∧ (p'.state = .fEq → i' < b.size) ∧
    (p'.state = .fSep → i' < b.size ∨ ∃ c', b[i' - 1]? = some c' ∧ isLWSch c' = false) ∧ NameStep i p p' := by
  have hi := get?_lt hb
  unfold tpStep at hs
  simp only at hs
  cases hst : p.state <;> simp only [hst] at hs
  case fin => exact absurd hst hnf
  case err => cases hs; exact ⟨by omega, by omega, by simp [hst], by simp [hst], by simp [hst], Or.inl rfl⟩
  case quotedVal =>
    rcases hq : skipQuoted b i with ⟨n, e⟩
    rw [hq] at hs
    cases e <;> simp only [stepOfRes] at hs <;> try (cases hs; done)
    cases hs
    have h1 := skipQuoted_ok_gt b i hq
    have h2 := skipQuoted_range b i (by omega) hq
    have h3 := skipQuoted_ok_prev b i hq
    exact ⟨h1, h2.2, by simp, by simp, (fun _ => Or.inr ⟨34, h3.1, by decide⟩), Or.inl rfl⟩
  all_goals
    by_cases hl : isLWSch c = true
    · simp only [hl, ↓reduceIte] at hs
      obtain ⟨rfl, h1, h2⟩ := (tpLWS_spec b flags i c p _ hf hb hl).1 _ _ hs
      refine ⟨h1, by omega, by simp [hst], (fun _ => h2), (fun _ => Or.inl h2), ?_⟩
      first | exact Or.inl rfl | exact Or.inr (Or.inr rfl)
    · simp only [hl, Bool.false_eq_true, ↓reduceIte] at hs
      repeat' (split at hs)
      all_goals first
        | (cases hs
           refine ⟨by omega, by omega, by simp [hst], by simp [hst], by simp [hst], ?_⟩
           first | exact Or.inl rfl | exact Or.inr (Or.inl rfl) | exact Or.inr (Or.inr rfl))
        | (unfold tpSpTermEq at hs; split at hs <;> cases hs)
        | (unfold tpSpTermSep at hs; repeat' (split at hs)
           all_goals cases hs)
        | cases hs

/-- the final iterations: range of the returned offset, the name field, the two kinds of suspension -/
theorem tp_done_facts (flags offs : Nat) (b : Buf) (i : Nat) (c : UInt8) (p : PTokParam)
    (hf : hasFlag flags POptInputEndF = false) (hb : b[i]? = some c) (ho : offs ≤ i)
    {o : Nat} {e : Err} {p' : PTokParam} (hs : tpStep flags offs b i c p = .done o e p') :
    offs ≤ o ∧ o ≤ b.size ∧ NameStep i p p' ∧
    (e = .moreBytes → i ≤ o ∧ p' = p ∧ ((isLWSch c = true ∧ o = i) ∨ p.state = .quotedVal)) := by
  have hi := get?_lt hb
  unfold tpStep at hs
  simp only at hs
  cases hst : p.state <;> simp only [hst] at hs
  case fin => cases hs
  case err => cases hs
  case quotedVal =>
    rcases hq : skipQuoted b i with ⟨n, e1⟩
    rw [hq] at hs
    have h2 := skipQuoted_range b i (by omega) hq
    cases e1 <;> simp only [stepOfRes, tpMoreBytes_noEnd b flags p n hf] at hs
    case ok => cases hs
    case moreBytes =>
      cases hs
      exact ⟨by omega, h2.2, Or.inl rfl, fun _ => ⟨h2.1, rfl, Or.inr rfl⟩⟩
    case eoh =>
      have hfa := tpEOH_facts p n 0
      cases hs
      exact ⟨by rw [hfa.1]; omega, by rw [hfa.1]; omega, Or.inl hfa.2.2, fun h => absurd h hfa.2.1⟩
    all_goals
      cases hs
      exact ⟨by omega, h2.2, Or.inl rfl, (fun h => by cases h)⟩
  all_goals
    by_cases hl : isLWSch c = true
    · simp only [hl, ↓reduceIte] at hs
      rcases (tpLWS_spec b flags i c p _ hf hb hl).2 _ _ _ hs with ⟨h1, h2, h3⟩ | ⟨h1, h2, h3, h4⟩
      · subst h1; subst h2; subst h3
        exact ⟨ho, by omega, Or.inl rfl, fun _ => ⟨Nat.le_refl _, rfl, Or.inl ⟨hl, rfl⟩⟩⟩
      · refine ⟨by omega, h3, ?_, fun h => absurd h h1⟩
        first | exact Or.inl h4 | exact Or.inr (Or.inr h4)
    · simp only [hl, Bool.false_eq_true, ↓reduceIte] at hs
      repeat' (split at hs)
      all_goals first
        | (cases hs
           refine ⟨by omega, by omega, ?_, (fun h => by cases h)⟩
           first | exact Or.inl rfl | exact Or.inr (Or.inl rfl) | exact Or.inr (Or.inr rfl))
        | (unfold tpSpTermEq at hs; split at hs <;>
            (cases hs; exact ⟨by omega, by omega, Or.inl rfl, (fun h => by cases h)⟩))
        | (unfold tpSpTermSep at hs; repeat' (split at hs)
           all_goals (cases hs; exact ⟨by omega, by omega, Or.inl rfl, (fun h => by cases h)⟩))
        | cases hs

/-! ### ParseTokenParam: where a call can be suspended

The loop body looks at the offset the call was started with (the previous-byte test of `POptTokSpTermF`), so a
resumed call runs a different machine than the call it continues.  The two agree because a call is never
suspended at a place where that test could give a different answer. -/

/-- what holds at a suspension point `o'` (object `p'`) of a call started at `offs` -/
def TPSusp (B : Buf) (offs o' : Nat) (p' : PTokParam) : Prop :=
  offs ≤ o' ∧ p'.state ≠ .fin ∧
  (o' = offs ∨ (∃ c, B[o']? = some c ∧ isLWSch c = true) ∨
    (p'.state ≠ .fEq ∧ (p'.state = .fSep → ∃ c', B[o' - 1]? = some c' ∧ isLWSch c' = false)))

theorem TPSusp.grows {b : Buf} (s : Buf) {offs o' : Nat} {p' : PTokParam} (h : TPSusp b offs o' p') :
    TPSusp (b ++ s) offs o' p' := by
  obtain ⟨h1, h2, h3⟩ := h
  refine ⟨h1, h2, ?_⟩
  rcases h3 with h3 | ⟨c, hc, hl⟩ | ⟨h3, h4⟩
  · exact Or.inl h3
  · exact Or.inr (Or.inl ⟨c, get?_app hc, hl⟩)
  · refine Or.inr (Or.inr ⟨h3, fun hh => ?_⟩)
    obtain ⟨c', hc', hl'⟩ := h4 hh
    exact ⟨c', get?_app hc', hl'⟩

/-- loop invariant behind `TPSusp` -/
def TPInv (b : Buf) (offs i : Nat) (p : PTokParam) : Prop :=
  offs ≤ i ∧ p.state ≠ .fin ∧
  (i = offs ∨ ((p.state = .fEq → i < b.size) ∧
    (p.state = .fSep → i < b.size ∨ ∃ c', b[i - 1]? = some c' ∧ isLWSch c' = false)))

theorem tp_suspended (flags offs : Nat) (b : Buf) (p : PTokParam) (hf : hasFlag flags POptInputEndF = false)
    (hnf : p.state ≠ .fin) {o' : Nat} {p' : PTokParam}
    (h : runLoop (tpMachine flags offs) b offs p = (o', Err.moreBytes, p')) : TPSusp b offs o' p' := by
  have key : (runLoop (tpMachine flags offs) b offs p).2.1 = Err.moreBytes →
      TPSusp b offs (runLoop (tpMachine flags offs) b offs p).1 (runLoop (tpMachine flags offs) b offs p).2.2 := by
    apply runLoop_inv (tpMachine flags offs) b (TPInv b offs) (fun r => r.2.1 = Err.moreBytes → TPSusp b offs r.1 r.2.2)
    · intro i c st i' st' hb hP hs
      refine ⟨fun _ => ?_, fun _ hh => by cases hh⟩
      have hc := tp_cont_facts flags offs b i c st hf hb hP.2.1 hs
      exact ⟨by have := hP.1; omega, hc.2.2.1, Or.inr ⟨hc.2.2.2.1, hc.2.2.2.2.1⟩⟩
    · intro i c st o e st' hb hP hs he
      simp only at he; subst he
      have hd := tp_done_facts flags offs b i c st hf hb hP.1 hs
      obtain ⟨h1, h2, h3⟩ := hd.2.2.2 rfl
      subst h2
      refine ⟨hd.1, hP.2.1, ?_⟩
      rcases h3 with ⟨hl, rfl⟩ | hq
      · exact Or.inr (Or.inl ⟨c, hb, hl⟩)
      · exact Or.inr (Or.inr ⟨by rw [hq]; simp, by rw [hq]; simp⟩)
    · intro i st hb hP _
      have hge := get?_none_ge hb
      show TPSusp b offs (tpMoreBytes b flags st i).1 (tpMoreBytes b flags st i).2.2
      rw [tpMoreBytes_noEnd b flags st i hf]
      refine ⟨hP.1, hP.2.1, ?_⟩
      rcases hP.2.2 with h0 | ⟨h1, h2⟩
      · exact Or.inl h0
      · refine Or.inr (Or.inr ⟨fun hh => ?_, fun hh => ?_⟩)
        · have := h1 hh; omega
        · rcases h2 hh with h | h
          · omega
          · exact h
    · exact ⟨Nat.le_refl _, hnf, Or.inl rfl⟩
  rw [h] at key
  exact key rfl

/-! ### ParseTokenParam: changing the start offset of the machine -/

theorem tpStep_switch_later (flags offs o' : Nat) (B : Buf) (j : Nat) (c : UInt8) (p : PTokParam)
    (h1 : offs ≤ o') (h2 : o' < j) : tpStep flags o' B j c p = tpStep flags offs B j c p := by
  have e1 : tpSpTermEq o' j p = tpSpTermEq offs j p := by
    unfold tpSpTermEq
    rw [if_pos (by omega), if_pos (by omega)]
  have e2 : tpSpTermSep B o' j p = tpSpTermSep B offs j p := by
    unfold tpSpTermSep
    simp only
    rw [if_pos (by omega), if_pos (by omega)]
  unfold tpStep
  rw [e1, e2]

theorem tpStep_switch_first (flags offs o' : Nat) (B : Buf) (c : UInt8) (p : PTokParam)
    (hb : B[o']? = some c) (hs : TPSusp B offs o' p) : tpStep flags o' B o' c p = tpStep flags offs B o' c p := by
  obtain ⟨h1, _, h3⟩ := hs
  rcases h3 with h3 | ⟨c0, hc0, hl0⟩ | ⟨h3, h4⟩
  · rw [h3]
  · rw [hb] at hc0; cases hc0
    unfold tpStep
    cases hst : p.state <;> simp only [hl0, ↓reduceIte]
  · rcases Nat.lt_or_ge offs o' with hlt | hge
    · have e2 : p.state = .fSep → tpSpTermSep B o' o' p = tpSpTermSep B offs o' p := by
        intro hh
        obtain ⟨c', hc', hl'⟩ := h4 hh
        unfold tpSpTermSep
        simp only
        rw [if_neg (by omega), if_pos (by omega), hc']
        simp only [hl', Bool.false_eq_true, ↓reduceIte]
      unfold tpStep
      cases hst : p.state <;> simp only
      case fEq => exact absurd hst h3
      case fSep => rw [e2 hst]
    · have : o' = offs := by omega
      rw [this]

/-- a call that was suspended at `o'` may be continued by the machine of the original call -/
theorem tp_switch (flags offs o' : Nat) (B : Buf) (p : PTokParam) (hs : TPSusp B offs o' p) :
    runLoop (tpMachine flags o') B o' p = runLoop (tpMachine flags offs) B o' p := by
  have hle := hs.1
  cases hb : B[o']? with
  | none => rw [runLoop_none _ p hb, runLoop_none _ p hb]; rfl
  | some c =>
    have hse : (tpMachine flags o').step B o' c p = (tpMachine flags offs).step B o' c p :=
      tpStep_switch_first flags offs o' B c p hb hs
    cases hs1 : (tpMachine flags o').step B o' c p with
    | done o e st' => rw [runLoop_done _ hb hs1, runLoop_done _ hb (hse ▸ hs1)]
    | cont i' st' =>
      rw [runLoop_cont _ hb hs1, runLoop_cont _ hb (hse ▸ hs1)]
      by_cases hlt : o' < i'
      · rw [if_pos hlt, if_pos hlt]
        exact runLoop_congr_from (tpMachine flags o') (tpMachine flags offs) B (o' + 1)
          (fun j c st hj _ => tpStep_switch_later flags offs o' B j c st hle (by omega)) (fun _ _ => rfl) i' (by omega) st'
      · rw [if_neg hlt, if_neg hlt]

/-! ### ParseTokenParam: L2 -/

theorem tp_eobRestart (flags offs : Nat) (b s : Buf) (hf : hasFlag flags POptInputEndF = false) :
    EobRestart (tpMachine flags offs) b s := by
  intro i st o st' _ h
  change tpMoreBytes b flags st i = (o, Err.moreBytes, st') at h
  rw [tpMoreBytes_noEnd b flags st i hf] at h
  cases h; rfl

theorem tpStep_quoted_eq (flags offs : Nat) (B : Buf) (i n : Nat) (c c2 : UInt8) (p : PTokParam)
    (hst : p.state = .quotedVal) (hq : skipQuoted B n = skipQuoted B i) :
    tpStep flags offs B n c2 p = tpStep flags offs B i c p := by
  unfold tpStep
  simp only [hst]
  rw [hq]

theorem tp_stepRestart (flags offs : Nat) (b s : Buf) (hf : hasFlag flags POptInputEndF = false) :
    StepRestart (tpMachine flags offs) b s := by
  intro i c st o st' hb hs
  change tpStep flags offs b i c st = .done o .moreBytes st' at hs
  have hi := get?_lt hb
  unfold tpStep at hs
  simp only at hs
  cases hst : st.state <;> simp only [hst] at hs
  case fin => cases hs
  case err => cases hs
  case quotedVal =>
    rcases hq : skipQuoted b i with ⟨n, e1⟩
    rw [hq] at hs
    have h2 := skipQuoted_range b i (by omega) hq
    cases e1 <;> simp only [stepOfRes, tpMoreBytes_noEnd b flags st n hf] at hs
    case ok => cases hs
    case moreBytes =>
      simp only [Step.done.injEq, true_and] at hs
      obtain ⟨hno, hst'⟩ := hs
      subst hno; subst hst'
      have hres := skipQuoted_resume b s i hq
      have hbB := get?_app (s := s) hb
      cases hn : (b ++ s)[n]? with
      | none =>
        -- nothing new at the restart point: the quoted string is still open
        have hsq : skipQuoted (b ++ s) n = (n, Err.moreBytes) := by
          unfold skipQuoted
          rw [runLoop_none sqMachine () hn]; rfl
        rw [runLoop_none _ st hn]
        have hstep : tpStep flags offs (b ++ s) i c st = .done n .moreBytes st := by
          unfold tpStep
          simp only [hst]
          rw [← hres, hsq]
          simp only [stepOfRes, tpMoreBytes_noEnd (b ++ s) flags st n hf]
        rw [runLoop_done _ hbB hstep]
        show tpMoreBytes (b ++ s) flags st n = _
        rw [tpMoreBytes_noEnd (b ++ s) flags st n hf]
      | some c2 =>
        have hse : (tpMachine flags offs).step (b ++ s) n c2 st = (tpMachine flags offs).step (b ++ s) i c st :=
          tpStep_quoted_eq flags offs (b ++ s) i n c c2 st hst hres
        cases hs1 : (tpMachine flags offs).step (b ++ s) n c2 st with
        | done o2 e2 st2 => rw [runLoop_done _ hn hs1, runLoop_done _ hbB (hse ▸ hs1)]
        | cont i2 st2 =>
          rw [runLoop_cont _ hn hs1, runLoop_cont _ hbB (hse ▸ hs1)]
          have hp := tp_progress flags offs (b ++ s) n c2 st i2 st2 hn hs1
          rw [if_pos hp, if_pos (by omega)]
    case eoh =>
      have hfa := tpEOH_facts st n 0
      simp only [Step.done.injEq] at hs
      exact absurd hs.2.1 hfa.2.1
    all_goals cases hs
  all_goals
    by_cases hl : isLWSch c = true
    · simp only [hl, ↓reduceIte] at hs
      rcases (tpLWS_spec b flags i c st _ hf hb hl).2 _ _ _ hs with ⟨_, h2, h3⟩ | ⟨h1, _⟩
      · subst h2; subst h3; rfl
      · exact absurd rfl h1
    · simp only [hl, Bool.false_eq_true, ↓reduceIte] at hs
      repeat' (split at hs)
      all_goals first
        | cases hs
        | (unfold tpSpTermEq at hs; split at hs <;> cases hs)
        | (unfold tpSpTermSep at hs; repeat' (split at hs)
           all_goals cases hs)

/-- **L2 for ParseTokenParam**: every option combination without `POptInputEndF` (with `POptTokSpTermF` too), any
    object: after `MoreBytes` at `(o', p')`, calling again on the extended buffer with `(o', p')` gives exactly what
    the call on the extended buffer from `(o, p)` gives. -/
theorem parseTokenParam_resume (b s : Buf) (o : Nat) (p : PTokParam) (flags : Nat)
    (hf : hasFlag flags POptInputEndF = false) {o' : Nat} {p' : PTokParam}
    (h : parseTokenParam b o p flags = (o', Err.moreBytes, p')) :
    parseTokenParam (b ++ s) o' p' flags = parseTokenParam (b ++ s) o p flags := by
  unfold parseTokenParam at h ⊢
  by_cases hfin : p.state = .fin
  · rw [if_pos hfin] at h; cases h
  · rw [if_neg hfin] at h
    have hsu := tp_suspended flags o b p hf hfin h
    rw [if_neg hfin, if_neg hsu.2.1, tp_switch flags o o' (b ++ s) p' (hsu.grows s)]
    exact runLoop_resume (tpMachine flags o) b s (tp_stepStable flags o b s hf) (tp_stepRestart flags o b s hf)
      (tp_eobRestart flags o b s hf) o p h

/-- a suspended object is not finished, and the restart offset is not before the start offset -/
theorem parseTokenParam_more (b : Buf) (o : Nat) (p : PTokParam) (flags : Nat)
    (hf : hasFlag flags POptInputEndF = false) {o' : Nat} {p' : PTokParam}
    (h : parseTokenParam b o p flags = (o', Err.moreBytes, p')) : o ≤ o' ∧ p'.state ≠ .fin := by
  unfold parseTokenParam at h
  by_cases hfin : p.state = .fin
  · rw [if_pos hfin] at h; cases h
  · rw [if_neg hfin] at h
    have hsu := tp_suspended flags o b p hf hfin h
    exact ⟨hsu.1, hsu.2.1⟩

/-! ### ParseTokenParam: range of the result, the name field stays inside the buffer -/

/-- legitimacy of a token-parameter object for buffer `b`: the name field (which the URI-parameter list reads back
    from the buffer) has a 16-bit offset and ends inside the buffer.  New objects, and all objects returned by
    ParseTokenParam on a prefix of `b`, satisfy it. -/
def tpOK (b : Buf) (p : PTokParam) : Prop := p.name.offs < 65536 ∧ p.name.endT ≤ b.size

theorem tpOK_new (b : Buf) : tpOK b {} := ⟨by decide, Nat.zero_le _⟩

theorem tpOK_grows {b : Buf} (s : Buf) {p : PTokParam} (h : tpOK b p) : tpOK (b ++ s) p :=
  ⟨h.1, by rw [Array.size_append]; have := h.2; omega⟩

theorem tpOK_step {b : Buf} {i : Nat} {p p' : PTokParam} (hi : i ≤ b.size) (h : tpOK b p) (hn : NameStep i p p') :
    tpOK b p' := by
  unfold tpOK
  rcases hn with hn | hn | hn <;> rw [hn]
  · exact h
  · unfold PField.set PField.endT trunc16; simp only; omega
  · have h1 := h.1
    unfold PField.extend PField.endT trunc16; simp only; omega

theorem parseTokenParam_post (b : Buf) (o : Nat) (p : PTokParam) (flags : Nat)
    (hf : hasFlag flags POptInputEndF = false) (ho : o ≤ b.size) (hok : tpOK b p)
    {o' : Nat} {e : Err} {p' : PTokParam} (h : parseTokenParam b o p flags = (o', e, p')) :
    o ≤ o' ∧ o' ≤ b.size ∧ tpOK b p' := by
  unfold parseTokenParam at h
  by_cases hfin : p.state = .fin
  · rw [if_pos hfin] at h; cases h; exact ⟨Nat.le_refl _, ho, hok⟩
  · rw [if_neg hfin] at h
    have key := runLoop_inv (tpMachine flags o) b
      (fun i st => o ≤ i ∧ i ≤ b.size ∧ st.state ≠ .fin ∧ tpOK b st)
      (fun r => o ≤ r.1 ∧ r.1 ≤ b.size ∧ tpOK b r.2.2)
      (by
        intro i c st i' st' hb hP hs
        have hi := get?_lt hb
        have hc := tp_cont_facts flags o b i c st hf hb hP.2.2.1 hs
        exact ⟨fun _ => ⟨by have := hP.1; omega, hc.2.1, hc.2.2.1, tpOK_step (by omega) hP.2.2.2 hc.2.2.2.2.2⟩,
          fun hn => absurd hc.1 hn⟩)
      (by
        intro i c st o1 e1 st' hb hP hs
        have hi := get?_lt hb
        have hd := tp_done_facts flags o b i c st hf hb hP.1 hs
        exact ⟨hd.1, hd.2.1, tpOK_step (by omega) hP.2.2.2 hd.2.2.1⟩)
      (by
        intro i st hb hP
        show o ≤ (tpMoreBytes b flags st i).1 ∧ (tpMoreBytes b flags st i).1 ≤ b.size ∧ tpOK b (tpMoreBytes b flags st i).2.2
        rw [tpMoreBytes_noEnd b flags st i hf]
        exact ⟨hP.1, hP.2.1, hP.2.2.2⟩)
      o p ⟨Nat.le_refl _, ho, hfin, hok⟩
    rw [h] at key
    exact key

/-- the offset range alone needs no hypothesis on the object -/
theorem parseTokenParam_range (b : Buf) (o : Nat) (p : PTokParam) (flags : Nat)
    (hf : hasFlag flags POptInputEndF = false) (ho : o ≤ b.size)
    {o' : Nat} {e : Err} {p' : PTokParam} (h : parseTokenParam b o p flags = (o', e, p')) :
    o ≤ o' ∧ o' ≤ b.size := by
  unfold parseTokenParam at h
  by_cases hfin : p.state = .fin
  · rw [if_pos hfin] at h; cases h; exact ⟨Nat.le_refl _, ho⟩
  · rw [if_neg hfin] at h
    have key := runLoop_inv (tpMachine flags o) b
      (fun i st => o ≤ i ∧ i ≤ b.size ∧ st.state ≠ .fin)
      (fun r => o ≤ r.1 ∧ r.1 ≤ b.size)
      (by
        intro i c st i' st' hb hP hs
        have hc := tp_cont_facts flags o b i c st hf hb hP.2.2 hs
        exact ⟨fun _ => ⟨by have := hP.1; omega, hc.2.1, hc.2.2.1⟩, fun hn => absurd hc.1 hn⟩)
      (by
        intro i c st o1 e1 st' hb hP hs
        have hd := tp_done_facts flags o b i c st hf hb hP.1 hs
        exact ⟨hd.1, hd.2.1⟩)
      (by
        intro i st hb hP
        show o ≤ (tpMoreBytes b flags st i).1 ∧ (tpMoreBytes b flags st i).1 ≤ b.size
        rw [tpMoreBytes_noEnd b flags st i hf]
        exact ⟨hP.1, hP.2.1⟩)
      o p ⟨Nat.le_refl _, ho, hfin⟩
    rw [h] at key
    exact key

/-! ### ParseTokenParam: "more values" without progress only right after a separator -/

theorem skipLWS_ne_moreValues (b : Buf) (i flags : Nat) {n crl : Nat} :
    skipLWS b i flags ≠ (n, crl, Err.moreValues) := by
  intro h
  fun_induction skipLWS b i flags with
  | case1 i hb => cases h
  | case2 i c hb hws ih => exact ih h
  | case3 i c hb hws hcr n' crl' hs hb2 hfl => cases h
  | case4 i c hb hws hcr n' crl' hs hb2 hfl => cases h
  | case5 i c hb hws hcr n' crl' hs c2 hb2 hws2 ih => exact ih h
  | case6 i c hb hws hcr n' crl' hs c2 hb2 hws2 => cases h
  | case7 i c hb hws hcr n' crl' e' hne hs =>
    cases h
    rcases skipCRLF_verdicts hs with h1 | h1 | h1 <;> cases h1
  | case8 i c hb hws hcr => cases h

theorem skipQuoted_ne_moreValues (b : Buf) (i : Nat) {n : Nat} : skipQuoted b i ≠ (n, Err.moreValues) := by
  intro h
  unfold skipQuoted at h
  have key : (runLoop sqMachine b i ()).2.1 ≠ Err.moreValues := by
    apply runLoop_inv sqMachine b (fun _ _ => True) (fun r => r.2.1 ≠ Err.moreValues)
    · intro j c st j' st' hb hP hs
      exact ⟨fun _ => trivial, fun _ hh => by cases hh⟩
    · intro j c st o e st' hb hP hs he
      simp only at he; subst he
      change sqStep b j c st = .done o .moreValues st' at hs
      unfold sqStep at hs
      repeat' (split at hs)
      all_goals cases hs
    · intro j st _ _ he; cases he
    · trivial
  simp only [Prod.mk.injEq] at h
  exact key h.2

theorem tpLWS_ne_moreValues (b : Buf) (flags i : Nat) (p : PTokParam) (upd : PTokParam → PTokParam)
    (hf : hasFlag flags POptInputEndF = false) {o : Nat} {q : PTokParam} :
    tpLWS b flags i p upd ≠ .done o .moreValues q := by
  intro h
  unfold tpLWS at h
  rcases hsk : skipLWS b i flags with ⟨n, crl, e⟩
  rw [hsk] at h
  cases e <;> simp only [stepOfRes, tpMoreBytes_noEnd b flags p i hf] at h
  case moreValues => exact skipLWS_ne_moreValues b i flags hsk
  case eoh =>
    unfold tpEOH at h
    split at h <;> cases h
  all_goals cases h

theorem tp_done_mv (flags offs : Nat) (b : Buf) (i : Nat) (c : UInt8) (p : PTokParam)
    (hf : hasFlag flags POptInputEndF = false)
    {o : Nat} {p' : PTokParam} (hs : tpStep flags offs b i c p = .done o .moreValues p') :
    o = i ∧ p.state = .fNxt := by
  unfold tpStep at hs
  simp only at hs
  cases hst : p.state <;> simp only [hst] at hs
  case fin => cases hs
  case err => cases hs
  case quotedVal =>
    rcases hq : skipQuoted b i with ⟨n, e1⟩
    rw [hq] at hs
    cases e1 <;> simp only [stepOfRes, tpMoreBytes_noEnd b flags p n hf] at hs
    case moreValues => exact absurd hq (skipQuoted_ne_moreValues b i)
    case eoh =>
      unfold tpEOH at hs
      split at hs <;> cases hs
    all_goals cases hs
  all_goals
    by_cases hl : isLWSch c = true
    · simp only [hl, ↓reduceIte] at hs
      exact absurd hs (tpLWS_ne_moreValues b flags i p _ hf)
    · simp only [hl, Bool.false_eq_true, ↓reduceIte] at hs
      repeat' (split at hs)
      all_goals first
        | (cases hs; exact ⟨rfl, rfl⟩)
        | (cases hs; rename_i h; exact absurd h (by decide))
        | cases hs
        | (unfold tpSpTermEq at hs; split at hs <;> cases hs)
        | (unfold tpSpTermSep at hs; repeat' (split at hs)
           all_goals cases hs)

/-- "more values" at the very offset the call was started with: the object was waiting for the next element -/
theorem parseTokenParam_mv_start (b : Buf) (o : Nat) (p : PTokParam) (flags : Nat)
    (hf : hasFlag flags POptInputEndF = false) {p' : PTokParam}
    (h : parseTokenParam b o p flags = (o, Err.moreValues, p')) : p.state = .fNxt := by
  unfold parseTokenParam at h
  by_cases hfin : p.state = .fin
  · rw [if_pos hfin] at h; cases h
  · rw [if_neg hfin] at h
    have key := runLoop_inv (tpMachine flags o) b
      (fun i st => o ≤ i ∧ st.state ≠ .fin ∧ (i = o → st = p))
      (fun r => r.2.1 = Err.moreValues → r.1 = o → p.state = .fNxt)
      (by
        intro i c st i' st' hb hP hs
        have hc := tp_cont_facts flags o b i c st hf hb hP.2.1 hs
        exact ⟨fun _ => ⟨by have := hP.1; omega, hc.2.2.1, fun hh => by have := hP.1; omega⟩, fun hn => absurd hc.1 hn⟩)
      (by
        intro i c st o1 e1 st' hb hP hs he ho1
        simp only at he ho1; subst he
        have hm := tp_done_mv flags o b i c st hf hs
        rw [← hP.2.2 (by omega)]; exact hm.2)
      (by
        intro i st hb hP he
        change (tpMoreBytes b flags st i).2.1 = Err.moreValues at he
        rw [tpMoreBytes_noEnd b flags st i hf] at he; cases he)
      o p ⟨Nat.le_refl _, hfin, fun _ => rfl⟩
    rw [h] at key
    exact key rfl rfl

/-! ### the URI-parameter list object -/

theorem pSetCur_n (l : URIParamsLst) (p : URIParam) : (l.setCur p).n = l.n := by
  unfold URIParamsLst.setCur; split <;> rfl
theorem pSetCur_size (l : URIParamsLst) (p : URIParam) : (l.setCur p).params.size = l.params.size := by
  unfold URIParamsLst.setCur; split
  · simp
  · rfl
theorem pSetCur_types (l : URIParamsLst) (p : URIParam) : (l.setCur p).types = l.types := by
  unfold URIParamsLst.setCur; split <;> rfl
theorem pSetCur_pnc (l : URIParamsLst) (p : URIParam) : (l.setCur p).pnc = l.pnc := by
  unfold URIParamsLst.setCur; split <;> rfl
theorem pSetCur_get_ne (l : URIParamsLst) (p : URIParam) (k : Nat) (hk : l.n ≠ k) :
    (l.setCur p).params[k]! = l.params[k]! := by
  unfold URIParamsLst.setCur; split
  · simp [Array.getElem!_eq_getD, Array.getD_eq_getD_getElem?, Array.getElem?_setIfInBounds_ne hk]
  · rfl
theorem pSetCur_tmp_in (l : URIParamsLst) (p : URIParam) (h : l.n < l.params.size) : (l.setCur p).tmp = l.tmp := by
  unfold URIParamsLst.setCur; rw [if_pos h]
theorem pSetCur_tmp_out (l : URIParamsLst) (p : URIParam) (h : ¬ l.n < l.params.size) : (l.setCur p).tmp = p := by
  unfold URIParamsLst.setCur; rw [if_neg h]
theorem pSetCur_params_out (l : URIParamsLst) (p : URIParam) (h : ¬ l.n < l.params.size) :
    (l.setCur p).params = l.params := by
  unfold URIParamsLst.setCur; rw [if_neg h]

theorem pSetCur_cur (l : URIParamsLst) (p : URIParam) : (l.setCur p).cur = p := by
  unfold URIParamsLst.setCur URIParamsLst.cur
  split
  · rename_i h
    have h' : l.n < (l.params.set! l.n p).size := by simpa using h
    simp only [h', ↓reduceIte]
    simp [h]
  · rfl

theorem pSetCur_get_n (l : URIParamsLst) (p : URIParam) (h : l.n < l.params.size) :
    (l.setCur p).params[l.n]! = p := by
  have := pSetCur_cur l p
  unfold URIParamsLst.cur at this
  rw [pSetCur_n, pSetCur_size, if_pos h] at this
  exact this

theorem pSetCur_setCur (l : URIParamsLst) (p q : URIParam) : (l.setCur p).setCur q = l.setCur q := by
  unfold URIParamsLst.setCur
  split
  · rename_i h
    have h' : l.n < (l.params.set! l.n p).size := by simpa using h
    simp only [h', ↓reduceIte]
    simp [Array.setIfInBounds_setIfInBounds]
  · rfl

/-- the object the loop goes on with after a completed element -/
def URIParamsLst.next (l : URIParamsLst) (tp : PTokParam) (t : Nat) : URIParamsLst :=
  if l.n < l.params.size then
    { l.setCur { param := tp, t := t } with types := (l.setCur { param := tp, t := t }).types ||| t, n := (l.setCur { param := tp, t := t }).n + 1 }
  else
    { l.setCur { param := tp, t := t } with types := (l.setCur { param := tp, t := t }).types ||| t, n := (l.setCur { param := tp, t := t }).n + 1, tmp := {} }

theorem uriParamsLoop_eq (b : Buf) (offs : Nat) (l : URIParamsLst) (flags vNo : Nat) :
    uriParamsLoop b offs l flags vNo =
      match parseTokenParam b offs l.cur.param flags with
      | (next, e, tp) =>
        if e == .ok || e == .moreValues || e == .eoh then
          match tp.name.get? b with
          | none => (next, vNo, e, { l.setCur { l.cur with param := tp } with pnc := true })
          | some nm =>
            if e == .moreValues then
              if next ≤ b.size ∧ (offs < next ∨ (offs = next ∧ l.cur.param.state = .fNxt ∧
                  (l.next tp (uriParamResolve nm)).cur.param.state ≠ .fNxt)) then
                uriParamsLoop b next (l.next tp (uriParamResolve nm)) flags (vNo + 1)
              else (next, vNo + 1, .lbug, l.next tp (uriParamResolve nm))
            else (next, vNo + 1, e, l.next tp (uriParamResolve nm))
        else if e == .moreBytes then (next, vNo, e, l.setCur { l.cur with param := tp })
        else (next, vNo, e, l.setCur {}) := by
  rw [uriParamsLoop]
  unfold URIParamsLst.next
  by_cases h : l.n < l.params.size <;> simp only [h, ↓reduceIte] <;> rfl


section
variable {b : Buf} {offs : Nat} {l : URIParamsLst} {flags vNo next : Nat} {e : Err} {tp : PTokParam}

theorem uriParamsLoop_eq_more (hp : parseTokenParam b offs l.cur.param flags = (next, .moreBytes, tp)) :
    uriParamsLoop b offs l flags vNo = (next, vNo, .moreBytes, l.setCur { l.cur with param := tp }) := by
  rw [uriParamsLoop_eq, hp]; rfl

theorem uriParamsLoop_err (hp : parseTokenParam b offs l.cur.param flags = (next, e, tp))
    (h1 : e ≠ .ok) (h2 : e ≠ .moreValues) (h3 : e ≠ .eoh) (h4 : e ≠ .moreBytes) :
    uriParamsLoop b offs l flags vNo = (next, vNo, e, l.setCur {}) := by
  rw [uriParamsLoop_eq, hp]
  cases e <;> first | rfl | exact absurd rfl h1 | exact absurd rfl h2 | exact absurd rfl h3 | exact absurd rfl h4

theorem uriParamsLoop_panic (hp : parseTokenParam b offs l.cur.param flags = (next, e, tp))
    (he : e = .ok ∨ e = .moreValues ∨ e = .eoh) (hg : tp.name.get? b = none) :
    uriParamsLoop b offs l flags vNo = (next, vNo, e, { l.setCur { l.cur with param := tp } with pnc := true }) := by
  rw [uriParamsLoop_eq, hp]
  rcases he with rfl | rfl | rfl <;> simp only [hg] <;> rfl

theorem uriParamsLoop_eq_last {nm : Buf} (hp : parseTokenParam b offs l.cur.param flags = (next, e, tp))
    (he : e = .ok ∨ e = .eoh) (hg : tp.name.get? b = some nm) :
    uriParamsLoop b offs l flags vNo = (next, vNo + 1, e, l.next tp (uriParamResolve nm)) := by
  rw [uriParamsLoop_eq, hp]
  rcases he with rfl | rfl <;> simp only [hg] <;> rfl

theorem uriParamsLoop_mv {nm : Buf} (hp : parseTokenParam b offs l.cur.param flags = (next, .moreValues, tp))
    (hg : tp.name.get? b = some nm) :
    uriParamsLoop b offs l flags vNo =
      if next ≤ b.size ∧ (offs < next ∨ (offs = next ∧ l.cur.param.state = .fNxt ∧
          (l.next tp (uriParamResolve nm)).cur.param.state ≠ .fNxt)) then
        uriParamsLoop b next (l.next tp (uriParamResolve nm)) flags (vNo + 1)
      else (next, vNo + 1, .lbug, l.next tp (uriParamResolve nm)) := by
  rw [uriParamsLoop_eq, hp]
  simp only [hg]
  rfl

end

/-- induction along the elements of the list -/
theorem uriParamsLoop_induct (b : Buf) (flags : Nat) (motive : Nat → URIParamsLst → Nat → Prop)
    (step : ∀ offs l vNo,
      (∀ next tp nm, parseTokenParam b offs l.cur.param flags = (next, .moreValues, tp) → tp.name.get? b = some nm →
        next ≤ b.size ∧ (offs < next ∨ (offs = next ∧ l.cur.param.state = .fNxt ∧
          (l.next tp (uriParamResolve nm)).cur.param.state ≠ .fNxt)) →
        motive next (l.next tp (uriParamResolve nm)) (vNo + 1)) → motive offs l vNo)
    (offs : Nat) (l : URIParamsLst) (vNo : Nat) : motive offs l vNo := by
  apply uriParamsLoop.induct b flags motive
  · intro offs l vNo p next e tp hp he hg
    apply step; intro next' tp' nm' hp' hg' _
    rw [hp] at hp'; cases hp'; rw [hg] at hg'; cases hg'
  · intro offs l vNo inArr p next e tp hp he nm hg t l1 l2 l3 hmv hgd ih
    apply step; intro next' tp' nm' hp' hg' _
    rw [hp] at hp'; cases hp'; rw [hg] at hg'; cases hg'
    have : l.next tp (uriParamResolve nm) = l3 := by
      unfold URIParamsLst.next
      by_cases h : l.n < l.params.size
      · simp only [h, ↓reduceIte]; simp only [l3, inArr, h, ↓reduceDIte]; rfl
      · simp only [h, ↓reduceIte]; simp only [l3, inArr, h, ↓reduceDIte]; rfl
    rw [this]; exact ih
  · intro offs l vNo inArr p next e tp hp he nm hg t l1 l2 l3 hmv hgd
    apply step; intro next' tp' nm' hp' hg' hgd'
    rw [hp] at hp'; cases hp'; rw [hg] at hg'; cases hg'
    exfalso; apply hgd
    have : l.next tp (uriParamResolve nm) = l3 := by
      unfold URIParamsLst.next
      by_cases h : l.n < l.params.size
      · simp only [h, ↓reduceIte]; simp only [l3, inArr, h, ↓reduceDIte]; rfl
      · simp only [h, ↓reduceIte]; simp only [l3, inArr, h, ↓reduceDIte]; rfl
    rw [← this]; exact hgd'
  · intro offs l vNo p next e tp hp he nm hg hmv
    apply step; intro next' tp' nm' hp' hg' _
    rw [hp] at hp'; cases hp'; exact absurd rfl hmv
  · intro offs l vNo p next e tp hp he hmb
    apply step; intro next' tp' nm' hp' hg' _
    rw [hp] at hp'; cases hp'; exact absurd rfl he
  · intro offs l vNo p next e tp hp he hmb
    apply step; intro next' tp' nm' hp' hg' _
    rw [hp] at hp'; cases hp'; exact absurd rfl he


theorem pNext_n (l : URIParamsLst) (tp : PTokParam) (t : Nat) : (l.next tp t).n = l.n + 1 := by
  unfold URIParamsLst.next; split <;> simp only [pSetCur_n]
theorem pNext_size (l : URIParamsLst) (tp : PTokParam) (t : Nat) : (l.next tp t).params.size = l.params.size := by
  unfold URIParamsLst.next; split <;> simp only [pSetCur_size]
theorem pNext_types (l : URIParamsLst) (tp : PTokParam) (t : Nat) : (l.next tp t).types = l.types ||| t := by
  unfold URIParamsLst.next; split <;> simp only [pSetCur_types]
theorem pNext_pnc (l : URIParamsLst) (tp : PTokParam) (t : Nat) : (l.next tp t).pnc = l.pnc := by
  unfold URIParamsLst.next; split <;> simp only [pSetCur_pnc]
theorem pNext_params (l : URIParamsLst) (tp : PTokParam) (t : Nat) :
    (l.next tp t).params = (l.setCur { param := tp, t := t }).params := by
  unfold URIParamsLst.next; split <;> rfl
theorem pNext_tmp_in (l : URIParamsLst) (tp : PTokParam) (t : Nat) (h : l.n < l.params.size) :
    (l.next tp t).tmp = l.tmp := by
  unfold URIParamsLst.next; rw [if_pos h]; exact pSetCur_tmp_in l _ h
theorem pNext_tmp_out (l : URIParamsLst) (tp : PTokParam) (t : Nat) (h : ¬ l.n < l.params.size) :
    (l.next tp t).tmp = {} := by
  unfold URIParamsLst.next; rw [if_neg h]

theorem pNext_setCur (l : URIParamsLst) (p : URIParam) (tp : PTokParam) (t : Nat) :
    (l.setCur p).next tp t = l.next tp t := by
  unfold URIParamsLst.next
  rw [pSetCur_setCur, pSetCur_n, pSetCur_size]

/-- unused slots (and the scratch slot while the array is not full) hold zero values -/
def plClean (l : URIParamsLst) : Prop :=
  (∀ k, l.n < k → k < l.params.size → l.params[k]! = {}) ∧ (l.n < l.params.size → l.tmp = {})

theorem plClean_setCur {l : URIParamsLst} (p : URIParam) (h : plClean l) : plClean (l.setCur p) := by
  refine ⟨fun k h1 h2 => ?_, fun h1 => ?_⟩
  · rw [pSetCur_n] at h1; rw [pSetCur_size] at h2
    rw [pSetCur_get_ne l p k (by omega)]; exact h.1 k h1 h2
  · rw [pSetCur_n, pSetCur_size] at h1
    rw [pSetCur_tmp_in l p h1]; exact h.2 h1

theorem plClean_pnc {l : URIParamsLst} (v : Bool) (h : plClean l) : plClean { l with pnc := v } := h

theorem plClean_next {l : URIParamsLst} (tp : PTokParam) (t : Nat) (h : plClean l) :
    plClean (l.next tp t) ∧ (l.next tp t).cur = {} := by
  have hget : ∀ k, l.n < k → k < l.params.size → (l.next tp t).params[k]! = {} := by
    intro k h1 h2
    rw [pNext_params, pSetCur_get_ne l _ k (by omega)]; exact h.1 k h1 h2
  have htmp : l.n + 1 ≥ l.params.size → (l.next tp t).tmp = {} := by
    intro hge
    by_cases hin : l.n < l.params.size
    · rw [pNext_tmp_in l tp t hin]; exact h.2 hin
    · exact pNext_tmp_out l tp t hin
  refine ⟨⟨fun k h1 h2 => ?_, fun h1 => ?_⟩, ?_⟩
  · rw [pNext_n] at h1; rw [pNext_size] at h2; exact hget k (by omega) h2
  · rw [pNext_n, pNext_size] at h1
    rw [pNext_tmp_in l tp t (by omega)]; exact h.2 (by omega)
  · unfold URIParamsLst.cur
    rw [pNext_n, pNext_size]
    split
    · rename_i hin; exact hget _ (by omega) hin
    · rename_i hin; exact htmp (by omega)

/-- legitimacy of a URI-parameter list for buffer `b`: clean, and the current element is a legitimate
    token-parameter object -/
def plOK (b : Buf) (l : URIParamsLst) : Prop := tpOK b l.cur.param ∧ plClean l

theorem plOK_grows {b : Buf} (s : Buf) {l : URIParamsLst} (h : plOK b l) : plOK (b ++ s) l :=
  ⟨tpOK_grows s h.1, h.2⟩

/-- with a clean list the loop's progress guard always holds -/
theorem pl_guard {b : Buf} {offs : Nat} {l : URIParamsLst} {flags next : Nat} {tp : PTokParam}
    (hf : hasFlag flags POptInputEndF = false) (hcl : plClean l) (ho : offs ≤ b.size)
    (hp : parseTokenParam b offs l.cur.param flags = (next, .moreValues, tp)) (t : Nat) :
    next ≤ b.size ∧ (offs < next ∨ (offs = next ∧ l.cur.param.state = .fNxt ∧
      (l.next tp t).cur.param.state ≠ .fNxt)) := by
  have hr := parseTokenParam_range b offs l.cur.param flags hf ho hp
  refine ⟨hr.2, ?_⟩
  rcases Nat.lt_or_ge offs next with h | h
  · exact Or.inl h
  · have : next = offs := by omega
    subst this
    refine Or.inr ⟨rfl, parseTokenParam_mv_start b next l.cur.param flags hf hp, ?_⟩
    rw [(plClean_next tp t hcl).2]
    intro hh; cases hh

theorem uriParamsLoop_mv' {b : Buf} {offs : Nat} {l : URIParamsLst} {flags vNo next : Nat} {tp : PTokParam} {nm : Buf}
    (hf : hasFlag flags POptInputEndF = false) (hcl : plClean l) (ho : offs ≤ b.size)
    (hp : parseTokenParam b offs l.cur.param flags = (next, .moreValues, tp)) (hg : tp.name.get? b = some nm) :
    uriParamsLoop b offs l flags vNo = uriParamsLoop b next (l.next tp (uriParamResolve nm)) flags (vNo + 1) := by
  rw [uriParamsLoop_mv hp hg, if_pos (pl_guard hf hcl ho hp _)]

/-- **L1 for the URI-parameter loop** -/
theorem uriParamsLoop_stable (b s : Buf) (flags : Nat) (hf : hasFlag flags POptInputEndF = false)
    (offs : Nat) (l : URIParamsLst) (vNo : Nat) (hok : plOK b l) (ho : offs ≤ b.size)
    {o' n' : Nat} {e : Err} {l' : URIParamsLst}
    (hr : uriParamsLoop b offs l flags vNo = (o', n', e, l')) (he : e ≠ .moreBytes) :
    uriParamsLoop (b ++ s) offs l flags vNo = (o', n', e, l') := by
  revert hok ho hr
  induction offs, l, vNo using uriParamsLoop_induct b flags with
  | step offs l vNo ih =>
    intro hok ho hr
    have hoB : offs ≤ (b ++ s).size := by rw [Array.size_append]; omega
    rcases hp : parseTokenParam b offs l.cur.param flags with ⟨next, e1, tp⟩
    have hpost := parseTokenParam_post b offs l.cur.param flags hf ho hok.1 hp
    by_cases hm : e1 = .moreBytes
    · subst hm
      rw [uriParamsLoop_eq_more hp] at hr; cases hr; exact absurd rfl he
    · have hpB := parseTokenParam_stable b s offs l.cur.param flags hf hp hm
      have hgB : tp.name.get? (b ++ s) = tp.name.get? b := PField.get?_app _ b s hpost.2.2.2
      by_cases hc : e1 = .ok ∨ e1 = .moreValues ∨ e1 = .eoh
      · cases hg : tp.name.get? b with
        | none =>
          rw [uriParamsLoop_panic hp hc hg] at hr
          rw [uriParamsLoop_panic hpB hc (hgB.trans hg)]; exact hr
        | some nm =>
          rcases hc with rfl | rfl | rfl
          · rw [uriParamsLoop_eq_last hp (Or.inl rfl) hg] at hr
            rw [uriParamsLoop_eq_last hpB (Or.inl rfl) (hgB.trans hg)]; exact hr
          · have hgd := pl_guard hf hok.2 ho hp (uriParamResolve nm)
            rw [uriParamsLoop_mv' hf hok.2 ho hp hg] at hr
            rw [uriParamsLoop_mv' hf hok.2 hoB hpB (hgB.trans hg)]
            have hcn := plClean_next tp (uriParamResolve nm) hok.2
            exact ih next tp nm hp hg hgd ⟨by rw [hcn.2]; exact tpOK_new b, hcn.1⟩ hgd.1 hr
          · rw [uriParamsLoop_eq_last hp (Or.inr rfl) hg] at hr
            rw [uriParamsLoop_eq_last hpB (Or.inr rfl) (hgB.trans hg)]; exact hr
      · have h1 : e1 ≠ .ok := fun h => hc (Or.inl h)
        have h2 : e1 ≠ .moreValues := fun h => hc (Or.inr (Or.inl h))
        have h3 : e1 ≠ .eoh := fun h => hc (Or.inr (Or.inr h))
        rw [uriParamsLoop_err hp h1 h2 h3 hm] at hr
        rw [uriParamsLoop_err hpB h1 h2 h3 hm]; exact hr


theorem hasFlag_semiSep (flags : Nat) :
    hasFlag (flags ||| POptParamSemiSepF) POptInputEndF = hasFlag flags POptInputEndF := by
  unfold hasFlag POptParamSemiSepF POptInputEndF
  rw [Nat.and_or_distrib_right]
  simp

theorem hasFlag_uriHdr (flags : Nat) :
    hasFlag (flags ||| POptParamAmpSepF ||| POptTokURIHdrF) POptInputEndF = hasFlag flags POptInputEndF := by
  unfold hasFlag POptParamAmpSepF POptTokURIHdrF POptInputEndF
  rw [Nat.and_or_distrib_right, Nat.and_or_distrib_right]
  simp

/-- **L1 for ParseAllURIParams**: a definitive result (offset, number of values, verdict, list object) does not
    change when bytes are appended -/
theorem parseAllURIParams_stable (b s : Buf) (offs : Nat) (l : URIParamsLst) (flags : Nat)
    (hf : hasFlag flags POptInputEndF = false) (hok : plOK b l) (ho : offs ≤ b.size)
    {o' n' : Nat} {e : Err} {l' : URIParamsLst}
    (hr : parseAllURIParams b offs l flags = (o', n', e, l')) (he : e ≠ .moreBytes) :
    parseAllURIParams (b ++ s) offs l flags = (o', n', e, l') := by
  unfold parseAllURIParams at hr ⊢
  exact uriParamsLoop_stable b s _ (by rw [hasFlag_semiSep]; exact hf) offs l 0 hok ho hr he

/-! ### legitimate list objects: new and reset lists of any capacity -/

theorem clearFold_spec {α : Type} [Inhabited α] (z : α) (m : Nat) (a : Array α) :
    ((List.range m).foldl (fun acc i => acc.setIfInBounds i z) a).size = a.size ∧
    ∀ k, ((List.range m).foldl (fun acc i => acc.setIfInBounds i z) a)[k]! =
      if k < m ∧ k < a.size then z else a[k]! := by
  induction m with
  | zero => simp
  | succ m ih =>
    rw [List.range_succ, List.foldl_append]
    simp only [List.foldl_cons, List.foldl_nil]
    refine ⟨by rw [Array.size_setIfInBounds]; exact ih.1, fun k => ?_⟩
    by_cases hk : m = k
    · subst hk
      by_cases hs : m < a.size
      · rw [if_pos ⟨by omega, hs⟩]
        simp [ih.1, hs]
      · have h1 : ¬ (m < m + 1 ∧ m < a.size) := fun h => hs h.2
        rw [if_neg h1]
        simp [ih.1, hs]
    · have := ih.2 k
      simp only [Array.getElem!_eq_getD, Array.getD_eq_getD_getElem?,
        Array.getElem?_setIfInBounds_ne hk] at this ⊢
      rw [this]
      by_cases h1 : k < m ∧ k < a.size
      · rw [if_pos h1, if_pos ⟨by omega, h1.2⟩]
      · rw [if_neg h1, if_neg (fun h => h1 ⟨by omega, h.2⟩)]

theorem clearUpToP_size {α : Type} [Inhabited α] (a : Array α) (z : α) (n : Nat) : (clearUpToP a z n).size = a.size :=
  (clearFold_spec z _ a).1

theorem clearUpToP_get {α : Type} [Inhabited α] (a : Array α) (z : α) (n k : Nat) (hk : k < a.size) :
    (clearUpToP a z n)[k]! = if k ≤ n then z else a[k]! := by
  have hspec : (clearUpToP a z n)[k]! = _ := (clearFold_spec z (min (n + 1) a.size) a).2 k
  rw [hspec]
  by_cases h : k ≤ n
  · rw [if_pos h, if_pos ⟨by omega, hk⟩]
  · rw [if_neg h, if_neg (fun hh => by omega)]

theorem plOK_new (b : Buf) (k : Nat) : plOK b ({ params := Array.replicate k {} } : URIParamsLst) := by
  have hget : ∀ j, j < k → (Array.replicate k ({} : URIParam))[j]! = {} := by
    intro j hj; simp [hj]
  refine ⟨?_, ⟨fun j _ hj => ?_, fun _ => rfl⟩⟩
  · unfold URIParamsLst.cur
    split
    · rename_i h; simp only [Array.size_replicate] at h; rw [hget _ h]; exact tpOK_new b
    · exact tpOK_new b
  · simp only [Array.size_replicate] at hj; exact hget j hj

/-- `Reset()` of a clean list (whatever it holds in the used slots) is a legitimate empty list -/
theorem plOK_reset (b : Buf) {l : URIParamsLst} (h : plClean l) : plOK b l.reset ∧ l.reset.n = 0 := by
  have hsz : l.reset.params.size = l.params.size := clearUpToP_size _ _ _
  have hget : ∀ k, k < l.params.size → l.reset.params[k]! = {} := by
    intro k hk
    show (clearUpToP l.params {} l.n)[k]! = {}
    rw [clearUpToP_get _ _ _ _ hk]
    split
    · rfl
    · exact h.1 k (by omega) hk
  refine ⟨⟨?_, ⟨fun k _ hk => ?_, fun _ => rfl⟩⟩, rfl⟩
  · unfold URIParamsLst.cur
    split
    · rename_i hin
      rw [hsz] at hin
      have : l.reset.n = 0 := rfl
      rw [hget _ hin]; exact tpOK_new b
    · exact tpOK_new b
  · rw [hsz] at hk; exact hget k hk


/-! ### URI-parameter list: L2 -/

/-- re-entering the loop with the suspended element in place: the first token-parameter call decides -/
theorem uriParamsLoop_reenter (B : Buf) (flags : Nat) (hf : hasFlag flags POptInputEndF = false)
    (offs o' : Nat) (l : URIParamsLst) (tp : PTokParam) (vNo : Nat) (hcl : plClean l)
    (ho : offs ≤ B.size) (ho' : o' ≤ B.size)
    (hpe : parseTokenParam B o' tp flags = parseTokenParam B offs l.cur.param flags) :
    uriParamsLoop B o' (l.setCur { l.cur with param := tp }) flags vNo = uriParamsLoop B offs l flags vNo := by
  rcases h2 : parseTokenParam B offs l.cur.param flags with ⟨n2, e2, tp2⟩
  have hcur : (l.setCur { l.cur with param := tp }).cur.param = tp := by rw [pSetCur_cur]
  have h1 : parseTokenParam B o' (l.setCur { l.cur with param := tp }).cur.param flags = (n2, e2, tp2) := by
    rw [hcur, hpe, h2]
  have hcl' := plClean_setCur { l.cur with param := tp } hcl
  have hobj : ({ (l.setCur { l.cur with param := tp }).cur with param := tp2 } : URIParam) = { l.cur with param := tp2 } := by
    rw [pSetCur_cur]
  by_cases hm : e2 = .moreBytes
  · subst hm
    rw [uriParamsLoop_eq_more h1, uriParamsLoop_eq_more h2, pSetCur_setCur, hobj]
  · by_cases hc : e2 = .ok ∨ e2 = .moreValues ∨ e2 = .eoh
    · cases hg : tp2.name.get? B with
      | none => rw [uriParamsLoop_panic h1 hc hg, uriParamsLoop_panic h2 hc hg, pSetCur_setCur, hobj]
      | some nm =>
        rcases hc with rfl | rfl | rfl
        · rw [uriParamsLoop_eq_last h1 (Or.inl rfl) hg, uriParamsLoop_eq_last h2 (Or.inl rfl) hg, pNext_setCur]
        · rw [uriParamsLoop_mv' hf hcl' ho' h1 hg, uriParamsLoop_mv' hf hcl ho h2 hg, pNext_setCur]
        · rw [uriParamsLoop_eq_last h1 (Or.inr rfl) hg, uriParamsLoop_eq_last h2 (Or.inr rfl) hg, pNext_setCur]
    · have e1 : e2 ≠ .ok := fun h => hc (Or.inl h)
      have e3 : e2 ≠ .moreValues := fun h => hc (Or.inr (Or.inl h))
      have e4 : e2 ≠ .eoh := fun h => hc (Or.inr (Or.inr h))
      rw [uriParamsLoop_err h1 e1 e3 e4 hm, uriParamsLoop_err h2 e1 e3 e4 hm, pSetCur_setCur]

/-- **L2 for the URI-parameter loop**: exact equality of the results (offset, number of values, verdict, object);
    the suspended object is legitimate again -/
theorem uriParamsLoop_resume (b s : Buf) (flags : Nat) (hf : hasFlag flags POptInputEndF = false)
    (offs : Nat) (l : URIParamsLst) (vNo : Nat) (hok : plOK b l) (ho : offs ≤ b.size)
    {o' n' : Nat} {l' : URIParamsLst}
    (hr : uriParamsLoop b offs l flags vNo = (o', n', Err.moreBytes, l')) :
    uriParamsLoop (b ++ s) o' l' flags n' = uriParamsLoop (b ++ s) offs l flags vNo ∧
      plOK (b ++ s) l' ∧ offs ≤ o' ∧ o' ≤ b.size ∧ l'.cur.param.state ≠ .fin := by
  revert hok ho hr
  induction offs, l, vNo using uriParamsLoop_induct b flags with
  | step offs l vNo ih =>
    intro hok ho hr
    have hsz : b.size ≤ (b ++ s).size := by rw [Array.size_append]; omega
    have hoB : offs ≤ (b ++ s).size := by omega
    rcases hp : parseTokenParam b offs l.cur.param flags with ⟨next, e1, tp⟩
    have hpost := parseTokenParam_post b offs l.cur.param flags hf ho hok.1 hp
    by_cases hm : e1 = .moreBytes
    · subst hm
      rw [uriParamsLoop_eq_more hp] at hr
      simp only [Prod.mk.injEq, true_and] at hr
      obtain ⟨rfl, rfl, rfl⟩ := hr
      have hres := parseTokenParam_resume b s offs l.cur.param flags hf hp
      have hmore := parseTokenParam_more b offs l.cur.param flags hf hp
      refine ⟨uriParamsLoop_reenter (b ++ s) flags hf offs next l tp vNo hok.2 hoB (by omega) hres, ?_, hpost.1,
        hpost.2.1, ?_⟩
      · exact ⟨by rw [pSetCur_cur]; exact tpOK_grows s hpost.2.2, plClean_setCur _ hok.2⟩
      · rw [pSetCur_cur]; exact hmore.2
    · have hpB := parseTokenParam_stable b s offs l.cur.param flags hf hp hm
      have hgB : tp.name.get? (b ++ s) = tp.name.get? b := PField.get?_app _ b s hpost.2.2.2
      by_cases hc : e1 = .ok ∨ e1 = .moreValues ∨ e1 = .eoh
      · cases hg : tp.name.get? b with
        | none =>
          rw [uriParamsLoop_panic hp hc hg] at hr
          simp only [Prod.mk.injEq] at hr
          exact absurd hr.2.2.1 hm
        | some nm =>
          rcases hc with rfl | rfl | rfl
          · rw [uriParamsLoop_eq_last hp (Or.inl rfl) hg] at hr; cases hr
          · have hgd := pl_guard hf hok.2 ho hp (uriParamResolve nm)
            rw [uriParamsLoop_mv' hf hok.2 ho hp hg] at hr
            have hcn := plClean_next tp (uriParamResolve nm) hok.2
            have := ih next tp nm hp hg hgd ⟨by rw [hcn.2]; exact tpOK_new b, hcn.1⟩ hgd.1 hr
            refine ⟨?_, this.2.1, by have := this.2.2.1; omega, this.2.2.2.1, this.2.2.2.2⟩
            rw [uriParamsLoop_mv' hf hok.2 hoB hpB (hgB.trans hg)]
            exact this.1
          · rw [uriParamsLoop_eq_last hp (Or.inr rfl) hg] at hr; cases hr
      · have h1 : e1 ≠ .ok := fun h => hc (Or.inl h)
        have h2 : e1 ≠ .moreValues := fun h => hc (Or.inr (Or.inl h))
        have h3 : e1 ≠ .eoh := fun h => hc (Or.inr (Or.inr h))
        rw [uriParamsLoop_err hp h1 h2 h3 hm] at hr
        simp only [Prod.mk.injEq] at hr
        exact absurd hr.2.2.1 hm

/-- the counter of values is only passed along -/
theorem uriParamsLoop_vNo (b : Buf) (flags offs : Nat) (l : URIParamsLst) (vNo : Nat) :
    uriParamsLoop b offs l flags vNo =
      ((uriParamsLoop b offs l flags 0).1, vNo + (uriParamsLoop b offs l flags 0).2.1,
       (uriParamsLoop b offs l flags 0).2.2) := by
  have key : ∀ offs l vNo, ∀ k, uriParamsLoop b offs l flags (vNo + k) =
      ((uriParamsLoop b offs l flags vNo).1, (uriParamsLoop b offs l flags vNo).2.1 + k,
       (uriParamsLoop b offs l flags vNo).2.2) := by
    intro offs l vNo
    induction offs, l, vNo using uriParamsLoop_induct b flags with
    | step offs l vNo ih =>
      intro k
      rcases hp : parseTokenParam b offs l.cur.param flags with ⟨next, e1, tp⟩
      by_cases hm : e1 = .moreBytes
      · subst hm; rw [uriParamsLoop_eq_more hp, uriParamsLoop_eq_more hp]
      · by_cases hc : e1 = .ok ∨ e1 = .moreValues ∨ e1 = .eoh
        · cases hg : tp.name.get? b with
          | none => rw [uriParamsLoop_panic hp hc hg, uriParamsLoop_panic hp hc hg]
          | some nm =>
            rcases hc with rfl | rfl | rfl
            · rw [uriParamsLoop_eq_last hp (Or.inl rfl) hg, uriParamsLoop_eq_last hp (Or.inl rfl) hg]
              simp only [Prod.mk.injEq, true_and, and_true]; omega
            · rw [uriParamsLoop_mv hp hg, uriParamsLoop_mv hp hg]
              split
              · rename_i hgd
                have := ih next tp nm hp hg hgd k
                rw [show vNo + k + 1 = vNo + 1 + k by omega]
                exact this
              · simp only [Prod.mk.injEq, true_and, and_true]; omega
            · rw [uriParamsLoop_eq_last hp (Or.inr rfl) hg, uriParamsLoop_eq_last hp (Or.inr rfl) hg]
              simp only [Prod.mk.injEq, true_and, and_true]; omega
        · have h1 : e1 ≠ .ok := fun h => hc (Or.inl h)
          have h2 : e1 ≠ .moreValues := fun h => hc (Or.inr (Or.inl h))
          have h3 : e1 ≠ .eoh := fun h => hc (Or.inr (Or.inr h))
          rw [uriParamsLoop_err hp h1 h2 h3 hm, uriParamsLoop_err hp h1 h2 h3 hm]
  have := key offs l 0 vNo
  rw [Nat.zero_add] at this
  rw [this, Nat.add_comm]

/-- **L2 for ParseAllURIParams**: after `MoreBytes` (with `n'` values parsed so far) at `(o', l')`, the call on the
    extended buffer with `(o', l')` returns the offset, the verdict and the very list object of the call on the
    extended buffer from `(offs, l)`; the numbers of values parsed add up. -/
theorem parseAllURIParams_resume (b s : Buf) (offs : Nat) (l : URIParamsLst) (flags : Nat)
    (hf : hasFlag flags POptInputEndF = false) (hok : plOK b l) (ho : offs ≤ b.size)
    {o' n' : Nat} {l' : URIParamsLst}
    (hr : parseAllURIParams b offs l flags = (o', n', Err.moreBytes, l')) :
    ((parseAllURIParams (b ++ s) o' l' flags).1 = (parseAllURIParams (b ++ s) offs l flags).1 ∧
     n' + (parseAllURIParams (b ++ s) o' l' flags).2.1 = (parseAllURIParams (b ++ s) offs l flags).2.1 ∧
     (parseAllURIParams (b ++ s) o' l' flags).2.2 = (parseAllURIParams (b ++ s) offs l flags).2.2) ∧
    plOK (b ++ s) l' ∧ offs ≤ o' ∧ o' ≤ b.size ∧ l'.cur.param.state ≠ .fin := by
  unfold parseAllURIParams at hr ⊢
  have := uriParamsLoop_resume b s _ (by rw [hasFlag_semiSep]; exact hf) offs l 0 hok ho hr
  refine ⟨?_, this.2⟩
  rw [← this.1, uriParamsLoop_vNo (b ++ s) _ o' l' n']
  exact ⟨rfl, rfl, rfl⟩


/-! ### URI-parameter list: the capacity of the array does not influence the parse -/

/-- two list objects (with possibly different capacities) that went through the same parse -/
structure PlRel (l1 l2 : URIParamsLst) : Prop where
  n : l1.n = l2.n
  types : l1.types = l2.types
  pnc : l1.pnc = l2.pnc
  cur : l1.cur = l2.cur
  agree : ∀ k, k < l1.n → k < l1.params.size → k < l2.params.size → l1.params[k]! = l2.params[k]!
  clean1 : plClean l1
  clean2 : plClean l2

theorem PlRel.setCur {l1 l2 : URIParamsLst} (h : PlRel l1 l2) (p : URIParam) : PlRel (l1.setCur p) (l2.setCur p) := by
  refine ⟨by rw [pSetCur_n, pSetCur_n, h.n], by rw [pSetCur_types, pSetCur_types, h.types],
    by rw [pSetCur_pnc, pSetCur_pnc, h.pnc], by rw [pSetCur_cur, pSetCur_cur], ?_, plClean_setCur p h.clean1,
    plClean_setCur p h.clean2⟩
  intro k hk h1 h2
  rw [pSetCur_n] at hk
  rw [pSetCur_get_ne l1 p k (by omega), pSetCur_get_ne l2 p k (by rw [← h.n]; omega)]
  rw [pSetCur_size] at h1 h2
  exact h.agree k hk h1 h2

theorem PlRel.setPnc {l1 l2 : URIParamsLst} (h : PlRel l1 l2) (v : Bool) :
    PlRel { l1 with pnc := v } { l2 with pnc := v } :=
  ⟨h.n, h.types, rfl, h.cur, h.agree, h.clean1, h.clean2⟩

theorem PlRel.next {l1 l2 : URIParamsLst} (h : PlRel l1 l2) (tp : PTokParam) (t : Nat) :
    PlRel (l1.next tp t) (l2.next tp t) := by
  have c1 := plClean_next tp t h.clean1
  have c2 := plClean_next tp t h.clean2
  refine ⟨by rw [pNext_n, pNext_n, h.n], by rw [pNext_types, pNext_types, h.types],
    by rw [pNext_pnc, pNext_pnc, h.pnc], by rw [c1.2, c2.2], ?_, c1.1, c2.1⟩
  intro k hk h1 h2
  rw [pNext_n] at hk
  rw [pNext_size] at h1 h2
  rw [pNext_params, pNext_params]
  by_cases hkn : k = l1.n
  · subst hkn
    rw [pSetCur_get_n l1 _ h1]
    have hn : l1.n = l2.n := h.n
    rw [hn] at h2 ⊢
    rw [pSetCur_get_n l2 _ h2]
  · rw [pSetCur_get_ne l1 _ k (by omega), pSetCur_get_ne l2 _ k (by rw [← h.n]; omega)]
    exact h.agree k (by omega) h1 h2

/-- **the URI-parameter loop does the same whatever the capacity**: same offset, same number of values, same
    verdict, and the objects stay related (same `n`, same type flags, same current element, the stored elements
    agree wherever both arrays have room) -/
theorem uriParamsLoop_rel (b : Buf) (flags offs : Nat) (l1 l2 : URIParamsLst) (vNo : Nat) (h : PlRel l1 l2) :
    (uriParamsLoop b offs l1 flags vNo).1 = (uriParamsLoop b offs l2 flags vNo).1 ∧
    (uriParamsLoop b offs l1 flags vNo).2.1 = (uriParamsLoop b offs l2 flags vNo).2.1 ∧
    (uriParamsLoop b offs l1 flags vNo).2.2.1 = (uriParamsLoop b offs l2 flags vNo).2.2.1 ∧
    PlRel (uriParamsLoop b offs l1 flags vNo).2.2.2 (uriParamsLoop b offs l2 flags vNo).2.2.2 := by
  revert l2
  induction offs, l1, vNo using uriParamsLoop_induct b flags with
  | step offs l1 vNo ih =>
    intro l2 h
    rcases hp : parseTokenParam b offs l1.cur.param flags with ⟨next, e1, tp⟩
    have hp2 : parseTokenParam b offs l2.cur.param flags = (next, e1, tp) := by rw [← h.cur]; exact hp
    by_cases hm : e1 = .moreBytes
    · subst hm
      rw [uriParamsLoop_eq_more hp, uriParamsLoop_eq_more hp2, ← h.cur]
      exact ⟨rfl, rfl, rfl, h.setCur _⟩
    · by_cases hc : e1 = .ok ∨ e1 = .moreValues ∨ e1 = .eoh
      · cases hg : tp.name.get? b with
        | none =>
          rw [uriParamsLoop_panic hp hc hg, uriParamsLoop_panic hp2 hc hg, ← h.cur]
          exact ⟨rfl, rfl, rfl, (h.setCur _).setPnc true⟩
        | some nm =>
          rcases hc with rfl | rfl | rfl
          · rw [uriParamsLoop_eq_last hp (Or.inl rfl) hg, uriParamsLoop_eq_last hp2 (Or.inl rfl) hg]
            exact ⟨rfl, rfl, rfl, h.next _ _⟩
          · rw [uriParamsLoop_mv hp hg, uriParamsLoop_mv hp2 hg, ← h.cur,
              (plClean_next tp (uriParamResolve nm) h.clean1).2, (plClean_next tp (uriParamResolve nm) h.clean2).2]
            split
            · rename_i hgd
              rw [← (plClean_next tp (uriParamResolve nm) h.clean1).2] at hgd
              exact ih next tp nm hp hg hgd _ (h.next _ _)
            · exact ⟨rfl, rfl, rfl, h.next _ _⟩
          · rw [uriParamsLoop_eq_last hp (Or.inr rfl) hg, uriParamsLoop_eq_last hp2 (Or.inr rfl) hg]
            exact ⟨rfl, rfl, rfl, h.next _ _⟩
      · have h1 : e1 ≠ .ok := fun h => hc (Or.inl h)
        have h2 : e1 ≠ .moreValues := fun h => hc (Or.inr (Or.inl h))
        have h3 : e1 ≠ .eoh := fun h => hc (Or.inr (Or.inr h))
        rw [uriParamsLoop_err hp h1 h2 h3 hm, uriParamsLoop_err hp2 h1 h2 h3 hm]
        exact ⟨rfl, rfl, rfl, h.setCur _⟩

/-- **capacity independence of ParseAllURIParams** -/
theorem parseAllURIParams_rel (b : Buf) (offs : Nat) (l1 l2 : URIParamsLst) (flags : Nat) (h : PlRel l1 l2) :
    (parseAllURIParams b offs l1 flags).1 = (parseAllURIParams b offs l2 flags).1 ∧
    (parseAllURIParams b offs l1 flags).2.1 = (parseAllURIParams b offs l2 flags).2.1 ∧
    (parseAllURIParams b offs l1 flags).2.2.1 = (parseAllURIParams b offs l2 flags).2.2.1 ∧
    PlRel (parseAllURIParams b offs l1 flags).2.2.2 (parseAllURIParams b offs l2 flags).2.2.2 :=
  uriParamsLoop_rel b _ offs l1 l2 0 h

/-- new lists of any two capacities are related -/
theorem PlRel_new (k1 k2 : Nat) :
    PlRel ({ params := Array.replicate k1 {} } : URIParamsLst) ({ params := Array.replicate k2 {} } : URIParamsLst) := by
  have hcur : ∀ k, (({ params := Array.replicate k {} } : URIParamsLst)).cur = {} := by
    intro k; unfold URIParamsLst.cur; split
    · rename_i h; simp at h; simp [h]
    · rfl
  exact ⟨rfl, rfl, rfl, by rw [hcur k1, hcur k2], (fun k hk => by cases hk), (plOK_new #[] k1).2, (plOK_new #[] k2).2⟩

/-- ... and so are reset lists -/
theorem PlRel_reset {l1 l2 : URIParamsLst} (h1 : plClean l1) (h2 : plClean l2) : PlRel l1.reset l2.reset := by
  have hcur : ∀ l : URIParamsLst, plClean l → l.reset.cur = {} := by
    intro l hl
    have hsz : l.reset.params.size = l.params.size := clearUpToP_size _ _ _
    unfold URIParamsLst.cur
    split
    · rename_i hin
      rw [hsz] at hin
      have hin' : 0 < l.params.size := hin
      show (clearUpToP l.params {} l.n)[0]! = {}
      rw [clearUpToP_get _ _ _ _ hin', if_pos (Nat.zero_le _)]
    · rfl
  exact ⟨rfl, rfl, rfl, by rw [hcur l1 h1, hcur l2 h2], (fun k hk => by cases hk), (plOK_reset #[] h1).1.2,
    (plOK_reset #[] h2).1.2⟩

/-! ### the URI-header list object -/

theorem hSetCur_n (l : URIHdrsLst) (p : PTokParam) : (l.setCur p).n = l.n := by
  unfold URIHdrsLst.setCur; split <;> rfl
theorem hSetCur_size (l : URIHdrsLst) (p : PTokParam) : (l.setCur p).hdrs.size = l.hdrs.size := by
  unfold URIHdrsLst.setCur; split
  · simp
  · rfl
theorem hSetCur_get_ne (l : URIHdrsLst) (p : PTokParam) (k : Nat) (hk : l.n ≠ k) :
    (l.setCur p).hdrs[k]! = l.hdrs[k]! := by
  unfold URIHdrsLst.setCur; split
  · simp [Array.getElem!_eq_getD, Array.getD_eq_getD_getElem?, Array.getElem?_setIfInBounds_ne hk]
  · rfl
theorem hSetCur_tmp_in (l : URIHdrsLst) (p : PTokParam) (h : l.n < l.hdrs.size) : (l.setCur p).tmp = l.tmp := by
  unfold URIHdrsLst.setCur; rw [if_pos h]

theorem hSetCur_cur (l : URIHdrsLst) (p : PTokParam) : (l.setCur p).cur = p := by
  unfold URIHdrsLst.setCur URIHdrsLst.cur
  split
  · rename_i h
    have h' : l.n < (l.hdrs.set! l.n p).size := by simpa using h
    simp only [h', ↓reduceIte]
    simp [h]
  · rfl

theorem hSetCur_get_n (l : URIHdrsLst) (p : PTokParam) (h : l.n < l.hdrs.size) :
    (l.setCur p).hdrs[l.n]! = p := by
  have := hSetCur_cur l p
  unfold URIHdrsLst.cur at this
  rw [hSetCur_n, hSetCur_size, if_pos h] at this
  exact this

theorem hSetCur_setCur (l : URIHdrsLst) (p q : PTokParam) : (l.setCur p).setCur q = l.setCur q := by
  unfold URIHdrsLst.setCur
  split
  · rename_i h
    have h' : l.n < (l.hdrs.set! l.n p).size := by simpa using h
    simp only [h', ↓reduceIte]
    simp [Array.setIfInBounds_setIfInBounds]
  · rfl

/-- the object the loop goes on with after a completed element -/
def URIHdrsLst.next (l : URIHdrsLst) (tp : PTokParam) : URIHdrsLst :=
  if l.n < l.hdrs.size then { l.setCur tp with n := (l.setCur tp).n + 1 }
  else { l.setCur tp with n := (l.setCur tp).n + 1, tmp := {} }

theorem uriHdrsLoop_eq (b : Buf) (offs : Nat) (l : URIHdrsLst) (flags vNo : Nat) :
    uriHdrsLoop b offs l flags vNo =
      match parseTokenParam b offs l.cur flags with
      | (next, e, tp) =>
        if e == .ok || e == .moreValues || e == .eoh then
          if e == .moreValues then
            if next ≤ b.size ∧ (offs < next ∨ (offs = next ∧ l.cur.state = .fNxt ∧ (l.next tp).cur.state ≠ .fNxt)) then
              uriHdrsLoop b next (l.next tp) flags (vNo + 1)
            else (next, vNo + 1, .lbug, l.next tp)
          else (next, vNo + 1, e, l.next tp)
        else if e == .moreBytes then (next, vNo, e, l.setCur tp)
        else (next, vNo, e, l.setCur {}) := by
  rw [uriHdrsLoop]
  unfold URIHdrsLst.next
  by_cases h : l.n < l.hdrs.size <;> simp only [h, ↓reduceIte] <;> rfl

section
variable {b : Buf} {offs : Nat} {l : URIHdrsLst} {flags vNo next : Nat} {e : Err} {tp : PTokParam}

theorem uriHdrsLoop_eq_more (hp : parseTokenParam b offs l.cur flags = (next, .moreBytes, tp)) :
    uriHdrsLoop b offs l flags vNo = (next, vNo, .moreBytes, l.setCur tp) := by
  rw [uriHdrsLoop_eq, hp]; rfl

theorem uriHdrsLoop_err (hp : parseTokenParam b offs l.cur flags = (next, e, tp))
    (h1 : e ≠ .ok) (h2 : e ≠ .moreValues) (h3 : e ≠ .eoh) (h4 : e ≠ .moreBytes) :
    uriHdrsLoop b offs l flags vNo = (next, vNo, e, l.setCur {}) := by
  rw [uriHdrsLoop_eq, hp]
  cases e <;> first | rfl | exact absurd rfl h1 | exact absurd rfl h2 | exact absurd rfl h3 | exact absurd rfl h4

theorem uriHdrsLoop_eq_last (hp : parseTokenParam b offs l.cur flags = (next, e, tp)) (he : e = .ok ∨ e = .eoh) :
    uriHdrsLoop b offs l flags vNo = (next, vNo + 1, e, l.next tp) := by
  rw [uriHdrsLoop_eq, hp]
  rcases he with rfl | rfl <;> rfl

theorem uriHdrsLoop_mv (hp : parseTokenParam b offs l.cur flags = (next, .moreValues, tp)) :
    uriHdrsLoop b offs l flags vNo =
      if next ≤ b.size ∧ (offs < next ∨ (offs = next ∧ l.cur.state = .fNxt ∧ (l.next tp).cur.state ≠ .fNxt)) then
        uriHdrsLoop b next (l.next tp) flags (vNo + 1)
      else (next, vNo + 1, .lbug, l.next tp) := by
  rw [uriHdrsLoop_eq, hp]
  rfl

end

/-- induction along the elements of the list -/
theorem uriHdrsLoop_induct (b : Buf) (flags : Nat) (motive : Nat → URIHdrsLst → Nat → Prop)
    (step : ∀ offs l vNo,
      (∀ next tp, parseTokenParam b offs l.cur flags = (next, .moreValues, tp) →
        next ≤ b.size ∧ (offs < next ∨ (offs = next ∧ l.cur.state = .fNxt ∧ (l.next tp).cur.state ≠ .fNxt)) →
        motive next (l.next tp) (vNo + 1)) → motive offs l vNo)
    (offs : Nat) (l : URIHdrsLst) (vNo : Nat) : motive offs l vNo := by
  apply uriHdrsLoop.induct b flags motive
  · intro offs l vNo inArr next e tp hp he l1 l2 l3 hmv hgd ih
    apply step; intro next' tp' hp' _
    rw [hp] at hp'; cases hp'
    have : l.next tp = l3 := by
      unfold URIHdrsLst.next
      by_cases h : l.n < l.hdrs.size
      · simp only [h, ↓reduceIte]; simp only [l3, inArr, h, ↓reduceDIte]; rfl
      · simp only [h, ↓reduceIte]; simp only [l3, inArr, h, ↓reduceDIte]; rfl
    rw [this]; exact ih
  · intro offs l vNo inArr next e tp hp he l1 l2 l3 hmv hgd
    apply step; intro next' tp' hp' hgd'
    rw [hp] at hp'; cases hp'
    exfalso; apply hgd
    have : l.next tp = l3 := by
      unfold URIHdrsLst.next
      by_cases h : l.n < l.hdrs.size
      · simp only [h, ↓reduceIte]; simp only [l3, inArr, h, ↓reduceDIte]; rfl
      · simp only [h, ↓reduceIte]; simp only [l3, inArr, h, ↓reduceDIte]; rfl
    rw [← this]; exact hgd'
  · intro offs l vNo next e tp hp he hmv
    apply step; intro next' tp' hp' _
    rw [hp] at hp'; cases hp'; exact absurd rfl hmv
  · intro offs l vNo next e tp hp he hmb
    apply step; intro next' tp' hp' _
    rw [hp] at hp'; cases hp'; exact absurd rfl he
  · intro offs l vNo next e tp hp he hmb
    apply step; intro next' tp' hp' _
    rw [hp] at hp'; cases hp'; exact absurd rfl he

theorem hNext_n (l : URIHdrsLst) (tp : PTokParam) : (l.next tp).n = l.n + 1 := by
  unfold URIHdrsLst.next; split <;> simp only [hSetCur_n]
theorem hNext_size (l : URIHdrsLst) (tp : PTokParam) : (l.next tp).hdrs.size = l.hdrs.size := by
  unfold URIHdrsLst.next; split <;> simp only [hSetCur_size]
theorem hNext_hdrs (l : URIHdrsLst) (tp : PTokParam) : (l.next tp).hdrs = (l.setCur tp).hdrs := by
  unfold URIHdrsLst.next; split <;> rfl
theorem hNext_tmp_in (l : URIHdrsLst) (tp : PTokParam) (h : l.n < l.hdrs.size) : (l.next tp).tmp = l.tmp := by
  unfold URIHdrsLst.next; rw [if_pos h]; exact hSetCur_tmp_in l _ h
theorem hNext_tmp_out (l : URIHdrsLst) (tp : PTokParam) (h : ¬ l.n < l.hdrs.size) : (l.next tp).tmp = {} := by
  unfold URIHdrsLst.next; rw [if_neg h]

theorem hNext_setCur (l : URIHdrsLst) (p tp : PTokParam) : (l.setCur p).next tp = l.next tp := by
  unfold URIHdrsLst.next
  rw [hSetCur_setCur, hSetCur_n, hSetCur_size]

/-- legitimacy of a URI-header list: unused slots (and the scratch slot while the array is not full) hold zero
    values.  (The header list never reads the buffer back, so nothing is asked of the current element.) -/
def hlClean (l : URIHdrsLst) : Prop :=
  (∀ k, l.n < k → k < l.hdrs.size → l.hdrs[k]! = {}) ∧ (l.n < l.hdrs.size → l.tmp = {})

theorem hlClean_setCur {l : URIHdrsLst} (p : PTokParam) (h : hlClean l) : hlClean (l.setCur p) := by
  refine ⟨fun k h1 h2 => ?_, fun h1 => ?_⟩
  · rw [hSetCur_n] at h1; rw [hSetCur_size] at h2
    rw [hSetCur_get_ne l p k (by omega)]; exact h.1 k h1 h2
  · rw [hSetCur_n, hSetCur_size] at h1
    rw [hSetCur_tmp_in l p h1]; exact h.2 h1

theorem hlClean_next {l : URIHdrsLst} (tp : PTokParam) (h : hlClean l) :
    hlClean (l.next tp) ∧ (l.next tp).cur = {} := by
  have hget : ∀ k, l.n < k → k < l.hdrs.size → (l.next tp).hdrs[k]! = {} := by
    intro k h1 h2
    rw [hNext_hdrs, hSetCur_get_ne l _ k (by omega)]; exact h.1 k h1 h2
  have htmp : l.n + 1 ≥ l.hdrs.size → (l.next tp).tmp = {} := by
    intro hge
    by_cases hin : l.n < l.hdrs.size
    · rw [hNext_tmp_in l tp hin]; exact h.2 hin
    · exact hNext_tmp_out l tp hin
  refine ⟨⟨fun k h1 h2 => ?_, fun h1 => ?_⟩, ?_⟩
  · rw [hNext_n] at h1; rw [hNext_size] at h2; exact hget k (by omega) h2
  · rw [hNext_n, hNext_size] at h1
    rw [hNext_tmp_in l tp (by omega)]; exact h.2 (by omega)
  · unfold URIHdrsLst.cur
    rw [hNext_n, hNext_size]
    split
    · rename_i hin; exact hget _ (by omega) hin
    · rename_i hin; exact htmp (by omega)

/-- with a clean list the loop's progress guard always holds -/
theorem hl_guard {b : Buf} {offs : Nat} {l : URIHdrsLst} {flags next : Nat} {tp : PTokParam}
    (hf : hasFlag flags POptInputEndF = false) (hcl : hlClean l) (ho : offs ≤ b.size)
    (hp : parseTokenParam b offs l.cur flags = (next, .moreValues, tp)) :
    next ≤ b.size ∧ (offs < next ∨ (offs = next ∧ l.cur.state = .fNxt ∧ (l.next tp).cur.state ≠ .fNxt)) := by
  have hr := parseTokenParam_range b offs l.cur flags hf ho hp
  refine ⟨hr.2, ?_⟩
  rcases Nat.lt_or_ge offs next with h | h
  · exact Or.inl h
  · have : next = offs := by omega
    subst this
    refine Or.inr ⟨rfl, parseTokenParam_mv_start b next l.cur flags hf hp, ?_⟩
    rw [(hlClean_next tp hcl).2]
    intro hh; cases hh

theorem uriHdrsLoop_mv' {b : Buf} {offs : Nat} {l : URIHdrsLst} {flags vNo next : Nat} {tp : PTokParam}
    (hf : hasFlag flags POptInputEndF = false) (hcl : hlClean l) (ho : offs ≤ b.size)
    (hp : parseTokenParam b offs l.cur flags = (next, .moreValues, tp)) :
    uriHdrsLoop b offs l flags vNo = uriHdrsLoop b next (l.next tp) flags (vNo + 1) := by
  rw [uriHdrsLoop_mv hp, if_pos (hl_guard hf hcl ho hp)]

/-- **L1 for the URI-header loop** -/
theorem uriHdrsLoop_stable (b s : Buf) (flags : Nat) (hf : hasFlag flags POptInputEndF = false)
    (offs : Nat) (l : URIHdrsLst) (vNo : Nat) (hok : hlClean l) (ho : offs ≤ b.size)
    {o' n' : Nat} {e : Err} {l' : URIHdrsLst}
    (hr : uriHdrsLoop b offs l flags vNo = (o', n', e, l')) (he : e ≠ .moreBytes) :
    uriHdrsLoop (b ++ s) offs l flags vNo = (o', n', e, l') := by
  revert hok ho hr
  induction offs, l, vNo using uriHdrsLoop_induct b flags with
  | step offs l vNo ih =>
    intro hok ho hr
    have hoB : offs ≤ (b ++ s).size := by rw [Array.size_append]; omega
    rcases hp : parseTokenParam b offs l.cur flags with ⟨next, e1, tp⟩
    by_cases hm : e1 = .moreBytes
    · subst hm
      rw [uriHdrsLoop_eq_more hp] at hr; cases hr; exact absurd rfl he
    · have hpB := parseTokenParam_stable b s offs l.cur flags hf hp hm
      by_cases hc : e1 = .ok ∨ e1 = .moreValues ∨ e1 = .eoh
      · rcases hc with rfl | rfl | rfl
        · rw [uriHdrsLoop_eq_last hp (Or.inl rfl)] at hr
          rw [uriHdrsLoop_eq_last hpB (Or.inl rfl)]; exact hr
        · have hgd := hl_guard hf hok ho hp
          rw [uriHdrsLoop_mv' hf hok ho hp] at hr
          rw [uriHdrsLoop_mv' hf hok hoB hpB]
          exact ih next tp hp hgd (hlClean_next tp hok).1 hgd.1 hr
        · rw [uriHdrsLoop_eq_last hp (Or.inr rfl)] at hr
          rw [uriHdrsLoop_eq_last hpB (Or.inr rfl)]; exact hr
      · have h1 : e1 ≠ .ok := fun h => hc (Or.inl h)
        have h2 : e1 ≠ .moreValues := fun h => hc (Or.inr (Or.inl h))
        have h3 : e1 ≠ .eoh := fun h => hc (Or.inr (Or.inr h))
        rw [uriHdrsLoop_err hp h1 h2 h3 hm] at hr
        rw [uriHdrsLoop_err hpB h1 h2 h3 hm]; exact hr

/-- **L1 for ParseAllURIHdrs** -/
theorem parseAllURIHdrs_stable (b s : Buf) (offs : Nat) (l : URIHdrsLst) (flags : Nat)
    (hf : hasFlag flags POptInputEndF = false) (hok : hlClean l) (ho : offs ≤ b.size)
    {o' n' : Nat} {e : Err} {l' : URIHdrsLst}
    (hr : parseAllURIHdrs b offs l flags = (o', n', e, l')) (he : e ≠ .moreBytes) :
    parseAllURIHdrs (b ++ s) offs l flags = (o', n', e, l') := by
  unfold parseAllURIHdrs at hr ⊢
  exact uriHdrsLoop_stable b s _ (by rw [hasFlag_uriHdr]; exact hf) offs l 0 hok ho hr he

theorem hlClean_new (k : Nat) : hlClean ({ hdrs := Array.replicate k {} } : URIHdrsLst) := by
  refine ⟨fun j _ hj => ?_, fun _ => rfl⟩
  simp only [Array.size_replicate] at hj; simp [hj]

/-- `Reset()` of a clean list is a legitimate empty list -/
theorem hlClean_reset {l : URIHdrsLst} (h : hlClean l) : hlClean l.reset ∧ l.reset.n = 0 ∧ l.reset.cur = {} := by
  have hsz : l.reset.hdrs.size = l.hdrs.size := clearUpToP_size _ _ _
  have hget : ∀ k, k < l.hdrs.size → l.reset.hdrs[k]! = {} := by
    intro k hk
    show (clearUpToP l.hdrs {} l.n)[k]! = {}
    rw [clearUpToP_get _ _ _ _ hk]
    split
    · rfl
    · exact h.1 k (by omega) hk
  refine ⟨⟨fun k _ hk => ?_, fun _ => rfl⟩, rfl, ?_⟩
  · rw [hsz] at hk; exact hget k hk
  · unfold URIHdrsLst.cur
    split
    · rename_i hin
      rw [hsz] at hin
      have hin' : 0 < l.hdrs.size := hin
      exact hget 0 hin'
    · rfl


/-! ### URI-header list: L2 -/

/-- re-entering the loop with the suspended element in place: the first token-parameter call decides -/
theorem uriHdrsLoop_reenter (B : Buf) (flags : Nat) (hf : hasFlag flags POptInputEndF = false)
    (offs o' : Nat) (l : URIHdrsLst) (tp : PTokParam) (vNo : Nat) (hcl : hlClean l)
    (ho : offs ≤ B.size) (ho' : o' ≤ B.size)
    (hpe : parseTokenParam B o' tp flags = parseTokenParam B offs l.cur flags) :
    uriHdrsLoop B o' (l.setCur tp) flags vNo = uriHdrsLoop B offs l flags vNo := by
  rcases h2 : parseTokenParam B offs l.cur flags with ⟨n2, e2, tp2⟩
  have h1 : parseTokenParam B o' (l.setCur tp).cur flags = (n2, e2, tp2) := by
    rw [hSetCur_cur, hpe, h2]
  have hcl' := hlClean_setCur tp hcl
  by_cases hm : e2 = .moreBytes
  · subst hm
    rw [uriHdrsLoop_eq_more h1, uriHdrsLoop_eq_more h2, hSetCur_setCur]
  · by_cases hc : e2 = .ok ∨ e2 = .moreValues ∨ e2 = .eoh
    · rcases hc with rfl | rfl | rfl
      · rw [uriHdrsLoop_eq_last h1 (Or.inl rfl), uriHdrsLoop_eq_last h2 (Or.inl rfl), hNext_setCur]
      · rw [uriHdrsLoop_mv' hf hcl' ho' h1, uriHdrsLoop_mv' hf hcl ho h2, hNext_setCur]
      · rw [uriHdrsLoop_eq_last h1 (Or.inr rfl), uriHdrsLoop_eq_last h2 (Or.inr rfl), hNext_setCur]
    · have e1 : e2 ≠ .ok := fun h => hc (Or.inl h)
      have e3 : e2 ≠ .moreValues := fun h => hc (Or.inr (Or.inl h))
      have e4 : e2 ≠ .eoh := fun h => hc (Or.inr (Or.inr h))
      rw [uriHdrsLoop_err h1 e1 e3 e4 hm, uriHdrsLoop_err h2 e1 e3 e4 hm, hSetCur_setCur]

/-- **L2 for the URI-header loop**: exact equality of the results; the suspended object is legitimate again -/
theorem uriHdrsLoop_resume (b s : Buf) (flags : Nat) (hf : hasFlag flags POptInputEndF = false)
    (offs : Nat) (l : URIHdrsLst) (vNo : Nat) (hok : hlClean l) (ho : offs ≤ b.size)
    {o' n' : Nat} {l' : URIHdrsLst}
    (hr : uriHdrsLoop b offs l flags vNo = (o', n', Err.moreBytes, l')) :
    uriHdrsLoop (b ++ s) o' l' flags n' = uriHdrsLoop (b ++ s) offs l flags vNo ∧
      hlClean l' ∧ offs ≤ o' ∧ o' ≤ b.size ∧ l'.cur.state ≠ .fin := by
  revert hok ho hr
  induction offs, l, vNo using uriHdrsLoop_induct b flags with
  | step offs l vNo ih =>
    intro hok ho hr
    have hsz : b.size ≤ (b ++ s).size := by rw [Array.size_append]; omega
    have hoB : offs ≤ (b ++ s).size := by omega
    rcases hp : parseTokenParam b offs l.cur flags with ⟨next, e1, tp⟩
    have hrg := parseTokenParam_range b offs l.cur flags hf ho hp
    by_cases hm : e1 = .moreBytes
    · subst hm
      rw [uriHdrsLoop_eq_more hp] at hr
      simp only [Prod.mk.injEq, true_and] at hr
      obtain ⟨rfl, rfl, rfl⟩ := hr
      have hres := parseTokenParam_resume b s offs l.cur flags hf hp
      have hmore := parseTokenParam_more b offs l.cur flags hf hp
      refine ⟨uriHdrsLoop_reenter (b ++ s) flags hf offs next l tp vNo hok hoB (by omega) hres,
        hlClean_setCur _ hok, hrg.1, hrg.2, ?_⟩
      rw [hSetCur_cur]; exact hmore.2
    · have hpB := parseTokenParam_stable b s offs l.cur flags hf hp hm
      by_cases hc : e1 = .ok ∨ e1 = .moreValues ∨ e1 = .eoh
      · rcases hc with rfl | rfl | rfl
        · rw [uriHdrsLoop_eq_last hp (Or.inl rfl)] at hr; cases hr
        · have hgd := hl_guard hf hok ho hp
          rw [uriHdrsLoop_mv' hf hok ho hp] at hr
          have := ih next tp hp hgd (hlClean_next tp hok).1 hgd.1 hr
          refine ⟨?_, this.2.1, by have := this.2.2.1; omega, this.2.2.2.1, this.2.2.2.2⟩
          rw [uriHdrsLoop_mv' hf hok hoB hpB]
          exact this.1
        · rw [uriHdrsLoop_eq_last hp (Or.inr rfl)] at hr; cases hr
      · have h1 : e1 ≠ .ok := fun h => hc (Or.inl h)
        have h2 : e1 ≠ .moreValues := fun h => hc (Or.inr (Or.inl h))
        have h3 : e1 ≠ .eoh := fun h => hc (Or.inr (Or.inr h))
        rw [uriHdrsLoop_err hp h1 h2 h3 hm] at hr
        simp only [Prod.mk.injEq] at hr
        exact absurd hr.2.2.1 hm

/-- the counter of values is only passed along -/
theorem uriHdrsLoop_vNo (b : Buf) (flags offs : Nat) (l : URIHdrsLst) (vNo : Nat) :
    uriHdrsLoop b offs l flags vNo =
      ((uriHdrsLoop b offs l flags 0).1, vNo + (uriHdrsLoop b offs l flags 0).2.1,
       (uriHdrsLoop b offs l flags 0).2.2) := by
  have key : ∀ offs l vNo, ∀ k, uriHdrsLoop b offs l flags (vNo + k) =
      ((uriHdrsLoop b offs l flags vNo).1, (uriHdrsLoop b offs l flags vNo).2.1 + k,
       (uriHdrsLoop b offs l flags vNo).2.2) := by
    intro offs l vNo
    induction offs, l, vNo using uriHdrsLoop_induct b flags with
    | step offs l vNo ih =>
      intro k
      rcases hp : parseTokenParam b offs l.cur flags with ⟨next, e1, tp⟩
      by_cases hm : e1 = .moreBytes
      · subst hm; rw [uriHdrsLoop_eq_more hp, uriHdrsLoop_eq_more hp]
      · by_cases hc : e1 = .ok ∨ e1 = .moreValues ∨ e1 = .eoh
        · rcases hc with rfl | rfl | rfl
          · rw [uriHdrsLoop_eq_last hp (Or.inl rfl), uriHdrsLoop_eq_last hp (Or.inl rfl)]
            simp only [Prod.mk.injEq, true_and, and_true]; omega
          · rw [uriHdrsLoop_mv hp, uriHdrsLoop_mv hp]
            split
            · rename_i hgd
              have := ih next tp hp hgd k
              rw [show vNo + k + 1 = vNo + 1 + k by omega]
              exact this
            · simp only [Prod.mk.injEq, true_and, and_true]; omega
          · rw [uriHdrsLoop_eq_last hp (Or.inr rfl), uriHdrsLoop_eq_last hp (Or.inr rfl)]
            simp only [Prod.mk.injEq, true_and, and_true]; omega
        · have h1 : e1 ≠ .ok := fun h => hc (Or.inl h)
          have h2 : e1 ≠ .moreValues := fun h => hc (Or.inr (Or.inl h))
          have h3 : e1 ≠ .eoh := fun h => hc (Or.inr (Or.inr h))
          rw [uriHdrsLoop_err hp h1 h2 h3 hm, uriHdrsLoop_err hp h1 h2 h3 hm]
  have := key offs l 0 vNo
  rw [Nat.zero_add] at this
  rw [this, Nat.add_comm]

/-- **L2 for ParseAllURIHdrs**: after `MoreBytes` (with `n'` values parsed so far) at `(o', l')`, the call on the
    extended buffer with `(o', l')` returns the offset, the verdict and the very list object of the call on the
    extended buffer from `(offs, l)`; the numbers of values parsed add up. -/
theorem parseAllURIHdrs_resume (b s : Buf) (offs : Nat) (l : URIHdrsLst) (flags : Nat)
    (hf : hasFlag flags POptInputEndF = false) (hok : hlClean l) (ho : offs ≤ b.size)
    {o' n' : Nat} {l' : URIHdrsLst}
    (hr : parseAllURIHdrs b offs l flags = (o', n', Err.moreBytes, l')) :
    ((parseAllURIHdrs (b ++ s) o' l' flags).1 = (parseAllURIHdrs (b ++ s) offs l flags).1 ∧
     n' + (parseAllURIHdrs (b ++ s) o' l' flags).2.1 = (parseAllURIHdrs (b ++ s) offs l flags).2.1 ∧
     (parseAllURIHdrs (b ++ s) o' l' flags).2.2 = (parseAllURIHdrs (b ++ s) offs l flags).2.2) ∧
    hlClean l' ∧ offs ≤ o' ∧ o' ≤ b.size ∧ l'.cur.state ≠ .fin := by
  unfold parseAllURIHdrs at hr ⊢
  have := uriHdrsLoop_resume b s _ (by rw [hasFlag_uriHdr]; exact hf) offs l 0 hok ho hr
  refine ⟨?_, this.2⟩
  rw [← this.1, uriHdrsLoop_vNo (b ++ s) _ o' l' n']
  exact ⟨rfl, rfl, rfl⟩

/-! ### URI-header list: the capacity of the array does not influence the parse -/

/-- two list objects (with possibly different capacities) that went through the same parse -/
structure HlRel (l1 l2 : URIHdrsLst) : Prop where
  n : l1.n = l2.n
  cur : l1.cur = l2.cur
  agree : ∀ k, k < l1.n → k < l1.hdrs.size → k < l2.hdrs.size → l1.hdrs[k]! = l2.hdrs[k]!
  clean1 : hlClean l1
  clean2 : hlClean l2

theorem HlRel.setCur {l1 l2 : URIHdrsLst} (h : HlRel l1 l2) (p : PTokParam) : HlRel (l1.setCur p) (l2.setCur p) := by
  refine ⟨by rw [hSetCur_n, hSetCur_n, h.n], by rw [hSetCur_cur, hSetCur_cur], ?_, hlClean_setCur p h.clean1,
    hlClean_setCur p h.clean2⟩
  intro k hk h1 h2
  rw [hSetCur_n] at hk
  rw [hSetCur_get_ne l1 p k (by omega), hSetCur_get_ne l2 p k (by rw [← h.n]; omega)]
  rw [hSetCur_size] at h1 h2
  exact h.agree k hk h1 h2

theorem HlRel.next {l1 l2 : URIHdrsLst} (h : HlRel l1 l2) (tp : PTokParam) : HlRel (l1.next tp) (l2.next tp) := by
  have c1 := hlClean_next tp h.clean1
  have c2 := hlClean_next tp h.clean2
  refine ⟨by rw [hNext_n, hNext_n, h.n], by rw [c1.2, c2.2], ?_, c1.1, c2.1⟩
  intro k hk h1 h2
  rw [hNext_n] at hk
  rw [hNext_size] at h1 h2
  rw [hNext_hdrs, hNext_hdrs]
  by_cases hkn : k = l1.n
  · subst hkn
    rw [hSetCur_get_n l1 _ h1]
    have hn : l1.n = l2.n := h.n
    rw [hn] at h2 ⊢
    rw [hSetCur_get_n l2 _ h2]
  · rw [hSetCur_get_ne l1 _ k (by omega), hSetCur_get_ne l2 _ k (by rw [← h.n]; omega)]
    exact h.agree k (by omega) h1 h2

/-- **the URI-header loop does the same whatever the capacity** -/
theorem uriHdrsLoop_rel (b : Buf) (flags offs : Nat) (l1 l2 : URIHdrsLst) (vNo : Nat) (h : HlRel l1 l2) :
    (uriHdrsLoop b offs l1 flags vNo).1 = (uriHdrsLoop b offs l2 flags vNo).1 ∧
    (uriHdrsLoop b offs l1 flags vNo).2.1 = (uriHdrsLoop b offs l2 flags vNo).2.1 ∧
    (uriHdrsLoop b offs l1 flags vNo).2.2.1 = (uriHdrsLoop b offs l2 flags vNo).2.2.1 ∧
    HlRel (uriHdrsLoop b offs l1 flags vNo).2.2.2 (uriHdrsLoop b offs l2 flags vNo).2.2.2 := by
  revert l2
  induction offs, l1, vNo using uriHdrsLoop_induct b flags with
  | step offs l1 vNo ih =>
    intro l2 h
    rcases hp : parseTokenParam b offs l1.cur flags with ⟨next, e1, tp⟩
    have hp2 : parseTokenParam b offs l2.cur flags = (next, e1, tp) := by rw [← h.cur]; exact hp
    by_cases hm : e1 = .moreBytes
    · subst hm
      rw [uriHdrsLoop_eq_more hp, uriHdrsLoop_eq_more hp2]
      exact ⟨rfl, rfl, rfl, h.setCur _⟩
    · by_cases hc : e1 = .ok ∨ e1 = .moreValues ∨ e1 = .eoh
      · rcases hc with rfl | rfl | rfl
        · rw [uriHdrsLoop_eq_last hp (Or.inl rfl), uriHdrsLoop_eq_last hp2 (Or.inl rfl)]
          exact ⟨rfl, rfl, rfl, h.next _⟩
        · rw [uriHdrsLoop_mv hp, uriHdrsLoop_mv hp2, ← h.cur,
            (hlClean_next tp h.clean1).2, (hlClean_next tp h.clean2).2]
          split
          · rename_i hgd
            rw [← (hlClean_next tp h.clean1).2] at hgd
            exact ih next tp hp hgd _ (h.next _)
          · exact ⟨rfl, rfl, rfl, h.next _⟩
        · rw [uriHdrsLoop_eq_last hp (Or.inr rfl), uriHdrsLoop_eq_last hp2 (Or.inr rfl)]
          exact ⟨rfl, rfl, rfl, h.next _⟩
      · have h1 : e1 ≠ .ok := fun h => hc (Or.inl h)
        have h2 : e1 ≠ .moreValues := fun h => hc (Or.inr (Or.inl h))
        have h3 : e1 ≠ .eoh := fun h => hc (Or.inr (Or.inr h))
        rw [uriHdrsLoop_err hp h1 h2 h3 hm, uriHdrsLoop_err hp2 h1 h2 h3 hm]
        exact ⟨rfl, rfl, rfl, h.setCur _⟩

/-- **capacity independence of ParseAllURIHdrs** -/
theorem parseAllURIHdrs_rel (b : Buf) (offs : Nat) (l1 l2 : URIHdrsLst) (flags : Nat) (h : HlRel l1 l2) :
    (parseAllURIHdrs b offs l1 flags).1 = (parseAllURIHdrs b offs l2 flags).1 ∧
    (parseAllURIHdrs b offs l1 flags).2.1 = (parseAllURIHdrs b offs l2 flags).2.1 ∧
    (parseAllURIHdrs b offs l1 flags).2.2.1 = (parseAllURIHdrs b offs l2 flags).2.2.1 ∧
    HlRel (parseAllURIHdrs b offs l1 flags).2.2.2 (parseAllURIHdrs b offs l2 flags).2.2.2 :=
  uriHdrsLoop_rel b _ offs l1 l2 0 h

/-- new lists of any two capacities are related -/
theorem HlRel_new (k1 k2 : Nat) :
    HlRel ({ hdrs := Array.replicate k1 {} } : URIHdrsLst) ({ hdrs := Array.replicate k2 {} } : URIHdrsLst) := by
  have hcur : ∀ k, (({ hdrs := Array.replicate k {} } : URIHdrsLst)).cur = {} := by
    intro k; unfold URIHdrsLst.cur; split
    · rename_i h; simp at h; simp [h]
    · rfl
  exact ⟨rfl, by rw [hcur k1, hcur k2], (fun k hk => by cases hk), hlClean_new k1, hlClean_new k2⟩

/-- ... and so are reset lists -/
theorem HlRel_reset {l1 l2 : URIHdrsLst} (h1 : hlClean l1) (h2 : hlClean l2) : HlRel l1.reset l2.reset :=
  ⟨rfl, by rw [(hlClean_reset h1).2.2, (hlClean_reset h2).2.2], (fun k hk => by cases hk), (hlClean_reset h1).1,
    (hlClean_reset h2).1⟩

/-! ### every call returns a legitimate list object (whatever the verdict) -/

theorem uriParamsLoop_post (b : Buf) (flags : Nat) (hf : hasFlag flags POptInputEndF = false)
    (offs : Nat) (l : URIParamsLst) (vNo : Nat) (hok : plOK b l) (ho : offs ≤ b.size) :
    plOK b (uriParamsLoop b offs l flags vNo).2.2.2 ∧ offs ≤ (uriParamsLoop b offs l flags vNo).1 ∧
      (uriParamsLoop b offs l flags vNo).1 ≤ b.size := by
  revert hok ho
  induction offs, l, vNo using uriParamsLoop_induct b flags with
  | step offs l vNo ih =>
    intro hok ho
    rcases hp : parseTokenParam b offs l.cur.param flags with ⟨next, e1, tp⟩
    have hpost := parseTokenParam_post b offs l.cur.param flags hf ho hok.1 hp
    have hset : plOK b (l.setCur { l.cur with param := tp }) :=
      ⟨by rw [pSetCur_cur]; exact hpost.2.2, plClean_setCur _ hok.2⟩
    by_cases hm : e1 = .moreBytes
    · subst hm
      rw [uriParamsLoop_eq_more hp]
      exact ⟨hset, hpost.1, hpost.2.1⟩
    · by_cases hc : e1 = .ok ∨ e1 = .moreValues ∨ e1 = .eoh
      · cases hg : tp.name.get? b with
        | none =>
          rw [uriParamsLoop_panic hp hc hg]
          exact ⟨⟨hset.1, hset.2⟩, hpost.1, hpost.2.1⟩
        | some nm =>
          have hcn := plClean_next tp (uriParamResolve nm) hok.2
          have hnx : plOK b (l.next tp (uriParamResolve nm)) := ⟨by rw [hcn.2]; exact tpOK_new b, hcn.1⟩
          rcases hc with rfl | rfl | rfl
          · rw [uriParamsLoop_eq_last hp (Or.inl rfl) hg]; exact ⟨hnx, hpost.1, hpost.2.1⟩
          · have hgd := pl_guard hf hok.2 ho hp (uriParamResolve nm)
            rw [uriParamsLoop_mv' hf hok.2 ho hp hg]
            have := ih next tp nm hp hg hgd hnx hgd.1
            exact ⟨this.1, by have := this.2.1; have := hpost.1; omega, this.2.2⟩
          · rw [uriParamsLoop_eq_last hp (Or.inr rfl) hg]; exact ⟨hnx, hpost.1, hpost.2.1⟩
      · have h1 : e1 ≠ .ok := fun h => hc (Or.inl h)
        have h2 : e1 ≠ .moreValues := fun h => hc (Or.inr (Or.inl h))
        have h3 : e1 ≠ .eoh := fun h => hc (Or.inr (Or.inr h))
        rw [uriParamsLoop_err hp h1 h2 h3 hm]
        exact ⟨⟨by rw [pSetCur_cur]; exact tpOK_new b, plClean_setCur _ hok.2⟩, hpost.1, hpost.2.1⟩

/-- ParseAllURIParams keeps the list legitimate and returns an offset in `[offs, len(buf)]` -/
theorem parseAllURIParams_post (b : Buf) (offs : Nat) (l : URIParamsLst) (flags : Nat)
    (hf : hasFlag flags POptInputEndF = false) (hok : plOK b l) (ho : offs ≤ b.size) :
    plOK b (parseAllURIParams b offs l flags).2.2.2 ∧ offs ≤ (parseAllURIParams b offs l flags).1 ∧
      (parseAllURIParams b offs l flags).1 ≤ b.size :=
  uriParamsLoop_post b _ (by rw [hasFlag_semiSep]; exact hf) offs l 0 hok ho

theorem uriHdrsLoop_post (b : Buf) (flags : Nat) (hf : hasFlag flags POptInputEndF = false)
    (offs : Nat) (l : URIHdrsLst) (vNo : Nat) (hok : hlClean l) (ho : offs ≤ b.size) :
    hlClean (uriHdrsLoop b offs l flags vNo).2.2.2 ∧ offs ≤ (uriHdrsLoop b offs l flags vNo).1 ∧
      (uriHdrsLoop b offs l flags vNo).1 ≤ b.size := by
  revert hok ho
  induction offs, l, vNo using uriHdrsLoop_induct b flags with
  | step offs l vNo ih =>
    intro hok ho
    rcases hp : parseTokenParam b offs l.cur flags with ⟨next, e1, tp⟩
    have hrg := parseTokenParam_range b offs l.cur flags hf ho hp
    by_cases hm : e1 = .moreBytes
    · subst hm
      rw [uriHdrsLoop_eq_more hp]
      exact ⟨hlClean_setCur _ hok, hrg.1, hrg.2⟩
    · by_cases hc : e1 = .ok ∨ e1 = .moreValues ∨ e1 = .eoh
      · rcases hc with rfl | rfl | rfl
        · rw [uriHdrsLoop_eq_last hp (Or.inl rfl)]; exact ⟨(hlClean_next tp hok).1, hrg.1, hrg.2⟩
        · have hgd := hl_guard hf hok ho hp
          rw [uriHdrsLoop_mv' hf hok ho hp]
          have := ih next tp hp hgd (hlClean_next tp hok).1 hgd.1
          exact ⟨this.1, by have := this.2.1; have := hrg.1; omega, this.2.2⟩
        · rw [uriHdrsLoop_eq_last hp (Or.inr rfl)]; exact ⟨(hlClean_next tp hok).1, hrg.1, hrg.2⟩
      · have h1 : e1 ≠ .ok := fun h => hc (Or.inl h)
        have h2 : e1 ≠ .moreValues := fun h => hc (Or.inr (Or.inl h))
        have h3 : e1 ≠ .eoh := fun h => hc (Or.inr (Or.inr h))
        rw [uriHdrsLoop_err hp h1 h2 h3 hm]
        exact ⟨hlClean_setCur _ hok, hrg.1, hrg.2⟩

/-- ParseAllURIHdrs keeps the list legitimate and returns an offset in `[offs, len(buf)]` -/
theorem parseAllURIHdrs_post (b : Buf) (offs : Nat) (l : URIHdrsLst) (flags : Nat)
    (hf : hasFlag flags POptInputEndF = false) (hok : hlClean l) (ho : offs ≤ b.size) :
    hlClean (parseAllURIHdrs b offs l flags).2.2.2 ∧ offs ≤ (parseAllURIHdrs b offs l flags).1 ∧
      (parseAllURIHdrs b offs l flags).1 ≤ b.size :=
  uriHdrsLoop_post b _ (by rw [hasFlag_uriHdr]; exact hf) offs l 0 hok ho

/-! ### chunk schedules -/

/-- ParseTokenParam is resumable in the sense of `Schedule.lean` -/
theorem parseTokenParam_resumable (flags : Nat) (hf : hasFlag flags POptInputEndF = false) :
    Resumable (fun b o p => parseTokenParam b o p flags) :=
  fun b s o st _ _ h => parseTokenParam_resume b s o st flags hf h

/-- **ParseTokenParam under every chunk schedule**: the chain of resumed calls returns what fresh one-shot calls on
    the same prefixes return (offset, verdict, object) -/
theorem parseTokenParam_schedule (flags : Nat) (hf : hasFlag flags POptInputEndF = false) (o : Nat) (p : PTokParam)
    (bs : List Buf) (hg : Growing bs) :
    resumeRun (fun b o p => parseTokenParam b o p flags) o p bs =
      oneShotRun (fun b o p => parseTokenParam b o p flags) o p bs :=
  resumeRun_eq_oneShot _ (parseTokenParam_resumable flags hf) o p bs hg

/-- ParseAllURIParams as a streaming parser: the object is the list together with the number of values parsed by
    the calls made so far -/
def uriParamsParser (flags : Nat) : Parser (Nat × URIParamsLst) := fun b o st =>
  ((parseAllURIParams b o st.2 flags).1, (parseAllURIParams b o st.2 flags).2.2.1,
   (st.1 + (parseAllURIParams b o st.2 flags).2.1, (parseAllURIParams b o st.2 flags).2.2.2))

theorem uriParamsParser_resumable (flags : Nat) (hf : hasFlag flags POptInputEndF = false) :
    ResumableI (uriParamsParser flags) (fun b o st => plOK b st.2 ∧ o ≤ b.size) := by
  intro b s o st o' st' hI hP
  rcases hr : parseAllURIParams b o st.2 flags with ⟨a, n, e, l'⟩
  unfold uriParamsParser at hP
  rw [hr] at hP
  simp only [Prod.mk.injEq] at hP
  obtain ⟨rfl, rfl, rfl⟩ := hP
  have := parseAllURIParams_resume b s o st.2 flags hf hI.1 hI.2 hr
  obtain ⟨⟨h1, h2, h3⟩, h4, _, h6, _⟩ := this
  refine ⟨?_, h4, by rw [Array.size_append]; omega⟩
  unfold uriParamsParser
  simp only
  rw [h1, ← h2, h3, Nat.add_assoc]

/-- **ParseAllURIParams under every chunk schedule**: offset, verdict, total number of values and list object of
    the chain of resumed calls are those of fresh one-shot calls on the same prefixes -/
theorem parseAllURIParams_schedule (flags : Nat) (hf : hasFlag flags POptInputEndF = false) (o : Nat)
    (l : URIParamsLst) (bs : List Buf) (hg : Growing bs) (h0 : ∀ b ∈ bs.head?, plOK b l ∧ o ≤ b.size) :
    resumeRun (uriParamsParser flags) o (0, l) bs = oneShotRun (uriParamsParser flags) o (0, l) bs :=
  resumeRun_eq_oneShotI _ _ (uriParamsParser_resumable flags hf)
    (fun b s o st h => ⟨plOK_grows s h.1, by rw [Array.size_append]; have := h.2; omega⟩) o (0, l) bs hg h0

/-- ParseAllURIHdrs as a streaming parser -/
def uriHdrsParser (flags : Nat) : Parser (Nat × URIHdrsLst) := fun b o st =>
  ((parseAllURIHdrs b o st.2 flags).1, (parseAllURIHdrs b o st.2 flags).2.2.1,
   (st.1 + (parseAllURIHdrs b o st.2 flags).2.1, (parseAllURIHdrs b o st.2 flags).2.2.2))

theorem uriHdrsParser_resumable (flags : Nat) (hf : hasFlag flags POptInputEndF = false) :
    ResumableI (uriHdrsParser flags) (fun b o st => hlClean st.2 ∧ o ≤ b.size) := by
  intro b s o st o' st' hI hP
  rcases hr : parseAllURIHdrs b o st.2 flags with ⟨a, n, e, l'⟩
  unfold uriHdrsParser at hP
  rw [hr] at hP
  simp only [Prod.mk.injEq] at hP
  obtain ⟨rfl, rfl, rfl⟩ := hP
  have := parseAllURIHdrs_resume b s o st.2 flags hf hI.1 hI.2 hr
  obtain ⟨⟨h1, h2, h3⟩, h4, _, h6, _⟩ := this
  refine ⟨?_, h4, by rw [Array.size_append]; omega⟩
  unfold uriHdrsParser
  simp only
  rw [h1, ← h2, h3, Nat.add_assoc]

/-- **ParseAllURIHdrs under every chunk schedule** -/
theorem parseAllURIHdrs_schedule (flags : Nat) (hf : hasFlag flags POptInputEndF = false) (o : Nat)
    (l : URIHdrsLst) (bs : List Buf) (hg : Growing bs) (h0 : ∀ b ∈ bs.head?, hlClean l ∧ o ≤ b.size) :
    resumeRun (uriHdrsParser flags) o (0, l) bs = oneShotRun (uriHdrsParser flags) o (0, l) bs :=
  resumeRun_eq_oneShotI _ _ (uriHdrsParser_resumable flags hf)
    (fun b s o st h => ⟨h.1, by rw [Array.size_append]; have := h.2; omega⟩) o (0, l) bs hg h0

/-! ### tests / non-vacuity (closed computations, `decide +kernel`) -/

/-- test: a call with `POptTokSpTermF` is suspended inside the white space after a value ... -/
example : parseTokenParam "a=b ".toUTF8.data 0 {} POptTokSpTermF =
    (3, .moreBytes, { all := ⟨0, 2⟩, name := ⟨0, 1⟩, val := ⟨2, 0⟩, state := .val }) := by decide +kernel
/-- ... and the resumed call (start offset 3) and the one-shot call (start offset 0) both end the parameter at the
    white space, through the previous-byte test of `POptTokSpTermF` (instance of `parseTokenParam_resume`) -/
example : parseTokenParam "a=b c".toUTF8.data 3 { all := ⟨0, 2⟩, name := ⟨0, 1⟩, val := ⟨2, 0⟩, state := .val }
      POptTokSpTermF = parseTokenParam "a=b c".toUTF8.data 0 {} POptTokSpTermF ∧
    (parseTokenParam "a=b c".toUTF8.data 0 {} POptTokSpTermF).1 = 3 ∧
    (parseTokenParam "a=b c".toUTF8.data 0 {} POptTokSpTermF).2.1 = .ok := by decide +kernel
/-- test: suspension right after a closing quote (state "find separator" at the end of the buffer): the resumed
    call starts exactly on the new token and skips the previous-byte test, the one-shot call makes it and sees the
    quote; both return offset 5 -/
example : (parseTokenParam "a=\"x\"".toUTF8.data 0 {} POptTokSpTermF).1 = 5 ∧
    (parseTokenParam "a=\"x\"".toUTF8.data 0 {} POptTokSpTermF).2.1 = .moreBytes ∧
    parseTokenParam "a=\"x\"c".toUTF8.data 5 (parseTokenParam "a=\"x\"".toUTF8.data 0 {} POptTokSpTermF).2.2
      POptTokSpTermF = parseTokenParam "a=\"x\"c".toUTF8.data 0 {} POptTokSpTermF ∧
    (parseTokenParam "a=\"x\"c".toUTF8.data 0 {} POptTokSpTermF).1 = 5 := by decide +kernel
/-- test: the hypotheses of the list theorems hold for new lists (`plOK_new`, `hlClean_new`, `PlRel_new`,
    `HlRel_new`); a run that is suspended in the third element with capacity 1 and capacity 3 -/
example : (parseAllURIParams "lr;transport=udp;x=1?".toUTF8.data 0 { params := Array.replicate 1 {} } 0).1 = 21 ∧
    (parseAllURIParams "lr;transport=udp;x=1?".toUTF8.data 0 { params := Array.replicate 1 {} } 0).2.1 = 2 ∧
    (parseAllURIParams "lr;transport=udp;x=1?".toUTF8.data 0 { params := Array.replicate 1 {} } 0).2.2.1 = .moreBytes ∧
    (parseAllURIParams "lr;transport=udp;x=1?".toUTF8.data 0 { params := Array.replicate 3 {} } 0).1 = 21 ∧
    (parseAllURIParams "lr;transport=udp;x=1?".toUTF8.data 0 { params := Array.replicate 3 {} } 0).2.2.2.types = 33 ∧
    (parseAllURIParams "lr;transport=udp;x=1?".toUTF8.data 0 { params := Array.replicate 1 {} } 0).2.2.2.types = 33 := by
  decide +kernel
/-- test: URI headers, capacity 2, suspended in the third element -/
example : (parseAllURIHdrs "a=1&b=2&c".toUTF8.data 0 { hdrs := Array.replicate 2 {} } 0).1 = 9 ∧
    (parseAllURIHdrs "a=1&b=2&c".toUTF8.data 0 { hdrs := Array.replicate 2 {} } 0).2.1 = 2 ∧
    (parseAllURIHdrs "a=1&b=2&c".toUTF8.data 0 { hdrs := Array.replicate 2 {} } 0).2.2.1 = .moreBytes := by
  decide +kernel

end Sipsp
