/-
  Sipsp.Proofs.MsgLastFlags — property C01 at schedule level when the flags of the LAST call differ from the flags
  of the earlier calls ("final chunk with the no-more-data flag").

  `resumeRunEnd (mlfP f) (mlfP f') o m l` (`resumeRunEnd` of TokParamEnd) is the caller's loop: ParseSIPMsg with flag
  word `f` on every buffer of `l` but the last while the verdict is MoreBytes, each call resuming at the offset
  returned by the previous one on the same object; ParseSIPMsg with flag word `f'` on the last buffer. `l` is ANY
  growing list of buffers (`Growing`: each one is the previous one plus some — possibly no — bytes; so the last two
  may be equal: nothing more arrived, the caller just learnt that the stream ended), each within 65,535 bytes.
  `mlfOneShotEnd` is the reference: FRESH calls from the original (offset, object) on the same buffers, `f` on all but
  the last (first definitive verdict wins — as `oneShotRun` in `schedule_msg`), `f'` on the last.

  Proved (all for every byte string, every cut, every start offset inside the first buffer, every legitimate object —
  every Init object with zeroed caller arrays of any capacity qualifies: `mlf_h0_init`):
  (1) `schedule_msg_last_flags` (+ `_init`, `_verdict`, `_object`, `_same`): for EVERY `f` and EVERY `f'` (no hypothesis
      on either) the chain returns what the fresh calls return: offset, verdict, the very same object when the verdict
      is not an error, the same `msgObs` observation after an error (`RR msgObs`, exactly as `schedule_msg`).
      Generic form for any pair of parsers: `mlf_resumeRunEnd_RR`.
      In terms of ONE call with `f'` on the last buffer `B` (`f` without the no-more-data flag from here on):
      * `schedule_msg_last_flags_more` (+ `_init`): if one call with `f` on `B` says MoreBytes (the stream ended while the
        parser wanted more — the situation in which a caller sets the flag), then for EVERY `f'` the chain returns what
        one call with `f'` on `B` returns;  `schedule_msg_more`: and the chain with `f` alone returns exactly what one
        call with `f` on `B` returns (MoreBytes).
      * `schedule_msg_last_flags_one`, `schedule_msg_last_nmd` (+ `_init`, `_framed`): for `f'` with the same body-mode
        flags as `f` (e.g. `f' = f ||| SIPMsgNoMoreDataF`), whatever one call with `f` on `B` says — provided no
        EARLIER buffer is already a complete message whose body is "the rest of the buffer" (`bodyToEnd`; void with
        skip-body or Content-Length-required): chain = one call with `f'` on `B`.
      Ingredients of independent interest: `parseSIPMsg_definitive_grows` / `parseSIPMsg_more_prefix` (MoreBytes on the
      whole input ⇒ MoreBytes on every prefix), `parseSIPMsg_flags_switch` (a definitive result of a call without the
      no-more-data flag is the result with the flag: the flag is read only where the call would say MoreBytes).
  (2) `schedule_msg_truncated_body`: a message whose body is shorter than its Content-Length, fed in pieces: with the
      flag on the final call the chain returns exactly what ONE call with the flag on the whole input returns — OK at
      the end of the input, object finished, body = the bytes from the end of the header block to the end of the input
      (`parseSIPMsg_clen_trunc`: that row of the C06 body table for ParseSIPMsg itself, `mlf_trunc_body_get`) — and
      WITHOUT the flag the chain ends with MoreBytes at the body start, as one call does.
  Tests (end of file, `decide +kernel`): all hypotheses of (2) hold of a concrete message cut in six; the hypothesis
  "earlier calls do not carry the no-more-data flag" is needed (with it the chain stops at the first call: Trunc, or
  OK with a one-byte body, where one call on the whole input says OK with three); the `bodyToEnd` side condition of
  the ONE-call forms is needed. Neither is a violation of C01: in both tests the chain still equals the fresh calls on
  the same buffers (general form (1)).

  NOT proved: the ONE-call forms when an earlier call carries the no-more-data flag or an earlier buffer is a complete
  `bodyToEnd` message (false, see the tests; the general form covers these schedules); objects outside `msgOK2`
  (`msgOK` in addition for the ONE-call forms); buffers beyond 65,535 bytes; the stand-alone ParseHeaders /
  ParseHdrLine (they take no flags).  The one-step law used is `parseSIPMsg_resume` (MsgL2).
-/
import Sipsp.Proofs.AuditFixA

namespace Sipsp

/-! ### generic part: two parsers, the second one used for the last call only -/

section generic
variable {σ τ : Type}

/-- what FRESH calls on the same prefixes give: `P` on every prefix but the last — the first definitive verdict
    wins —, `Pe` on the last buffer -/
def mlfOneShotEnd (P Pe : Parser σ) (o : Nat) (st : σ) : List Buf → Nat × Err × σ
  | [] => (o, Err.moreBytes, st)
  | [b] => Pe b o st
  | b :: b' :: rest =>
    match P b o st with
    | (_, Err.moreBytes, _) => mlfOneShotEnd P Pe o st (b' :: rest)
    | r => r

/-- with one parser it is `oneShotRun` -/
theorem mlfOneShotEnd_same (P : Parser σ) (o : Nat) (st : σ) (l : List Buf) :
    mlfOneShotEnd P P o st l = oneShotRun P o st l := by
  induction l with
  | nil => rfl
  | cons b rest ih =>
    cases rest with
    | nil => rfl
    | cons b' rest' =>
      simp only [mlfOneShotEnd, oneShotRun]
      rcases hp : P b o st with ⟨o1, e1, s1⟩
      cases e1 <;> simp only [ih]

/-- with one parser `resumeRunEnd` is `resumeRun` -/
theorem mlf_resumeRunEnd_same (P : Parser σ) (o : Nat) (st : σ) (l : List Buf) :
    resumeRunEnd P P o st l = resumeRun P o st l := by
  induction l generalizing o st with
  | nil => rfl
  | cons b rest ih =>
    cases rest with
    | nil => rfl
    | cons b' rest' =>
      simp only [resumeRunEnd, resumeRun]
      rcases hp : P b o st with ⟨o1, e1, s1⟩
      cases e1 <;> simp only [ih]

theorem mlfOneShotEnd_congr (P Pe : Parser σ) (obs : σ → τ) (o o' : Nat) (st st' : σ) (l : List Buf) (hl : l ≠ [])
    (h : ∀ x ∈ l, RR obs (P x o' st') (P x o st) ∧ RR obs (Pe x o' st') (Pe x o st)) :
    RR obs (mlfOneShotEnd P Pe o' st' l) (mlfOneShotEnd P Pe o st l) := by
  induction l with
  | nil => exact absurd rfl hl
  | cons b rest ih =>
    cases rest with
    | nil => simp only [mlfOneShotEnd]; exact (h b (List.mem_cons_self)).2
    | cons b' rest' =>
      simp only [mlfOneShotEnd]
      have hb := (h b List.mem_cons_self).1
      rcases hp : P b o st with ⟨o1, e1, s1⟩
      rcases hp' : P b o' st' with ⟨o2, e2, s2⟩
      rw [hp, hp'] at hb
      have he : e2 = e1 := hb.2.1
      subst he
      have ih' := ih (by simp) (fun x hx => h x (List.mem_cons_of_mem _ hx))
      cases e2 <;> first | exact hb | exact ih'

/-- **schedule theorem, other parser at the last call (generic)**: from the one-step law for both parsers at the
    resumed call, the chain of resumed calls returns what fresh calls on the same prefixes return — offset,
    verdict, the object itself when the verdict is not an error, the observable object after an error. -/
theorem mlf_resumeRunEnd_RR (P Pe : Parser σ) (Inv : Buf → Nat → σ → Prop) (obs : σ → τ) (C : Buf → Prop)
    (hP : ∀ b s o st o' st', C b → Inv b o st → P b o st = (o', Err.moreBytes, st') →
      RR obs (P (b ++ s) o' st') (P (b ++ s) o st) ∧ RR obs (Pe (b ++ s) o' st') (Pe (b ++ s) o st) ∧
        Inv (b ++ s) o' st')
    (o : Nat) (st : σ) (l : List Buf) (hg : Growing l) (hC : ∀ x ∈ l, C x) (h0 : ∀ b ∈ l.head?, Inv b o st) :
    RR obs (resumeRunEnd P Pe o st l) (mlfOneShotEnd P Pe o st l) := by
  induction l generalizing o st with
  | nil => exact RR.refl _ _
  | cons b rest ih =>
    cases rest with
    | nil => exact RR.refl _ _
    | cons b' rest' =>
      simp only [resumeRunEnd, mlfOneShotEnd]
      have hI : Inv b o st := h0 b (by simp)
      have hCb : C b := hC b List.mem_cons_self
      rcases hp : P b o st with ⟨o1, e1, s1⟩
      cases e1 <;> simp only <;> try exact RR.refl _ _
      have hext := growing_ext hg
      obtain ⟨s', hs'⟩ := hext b' List.mem_cons_self
      have hI' : Inv b' o1 s1 := by rw [hs']; exact (hP b s' o st o1 s1 hCb hI hp).2.2
      refine RR.trans (ih o1 s1 (growing_tail hg) (fun x hx => hC x (List.mem_cons_of_mem _ hx))
        (by intro x hx; simp at hx; subst hx; exact hI')) ?_
      apply mlfOneShotEnd_congr P Pe obs o o1 st s1 (b' :: rest') (by simp)
      intro x hx
      obtain ⟨s, rfl⟩ := hext x hx
      exact ⟨(hP b s o st o1 s1 hCb hI hp).1, (hP b s o st o1 s1 hCb hI hp).2.1⟩

/-- the fresh calls reduce to ONE call of `Pe` on the last buffer when every definitive verdict of `P` on an
    earlier prefix is what `Pe` returns on the last buffer (in particular when `P` says MoreBytes on all of them) -/
theorem mlfOneShotEnd_last (P Pe : Parser σ) (o : Nat) (st : σ) (l : List Buf) (B : Buf)
    (hB : l.getLast? = some B)
    (hst : ∀ x ∈ l.dropLast, (P x o st).2.1 ≠ .moreBytes → P x o st = Pe B o st) :
    mlfOneShotEnd P Pe o st l = Pe B o st := by
  induction l with
  | nil => cases hB
  | cons b rest ih =>
    cases rest with
    | nil =>
      simp only [List.getLast?_singleton, Option.some.injEq] at hB
      subst hB; rfl
    | cons b' rest' =>
      have hB' : (b' :: rest').getLast? = some B := by
        rw [List.getLast?_cons_cons] at hB; exact hB
      have hd : (b :: b' :: rest').dropLast = b :: (b' :: rest').dropLast := rfl
      have ih' := ih hB' (fun x hx => hst x (by rw [hd]; exact List.mem_cons_of_mem _ hx))
      have hb := hst b (by rw [hd]; exact List.mem_cons_self)
      simp only [mlfOneShotEnd]
      rcases hp : P b o st with ⟨o1, e1, s1⟩
      rw [hp] at hb
      cases e1 <;> first | exact ih' | exact hb (fun h => by cases h)

/-- in a growing list every buffer is a prefix of the last one -/
theorem mlf_growing_last {l : List Buf} (hg : Growing l) {B : Buf} (hB : l.getLast? = some B) :
    ∀ x ∈ l, ∃ t, B = x ++ t := by
  induction l with
  | nil => cases hB
  | cons b rest ih =>
    cases rest with
    | nil =>
      simp only [List.getLast?_singleton, Option.some.injEq] at hB
      subst hB
      intro x hx
      simp only [List.mem_singleton] at hx
      subst hx
      exact ⟨#[], by simp⟩
    | cons b' rest' =>
      have hB' : (b' :: rest').getLast? = some B := by
        rw [List.getLast?_cons_cons] at hB; exact hB
      intro x hx
      rcases List.mem_cons.1 hx with rfl | hx
      · exact growing_ext hg B (List.mem_of_getLast? hB')
      · exact ih (growing_tail hg) hB' x hx

/-- … and an extension of the first one -/
theorem mlf_growing_head {b : Buf} {l : List Buf} (hg : Growing (b :: l)) : ∀ x ∈ b :: l, ∃ s, x = b ++ s := by
  intro x hx
  rcases List.mem_cons.1 hx with rfl | hx
  · exact ⟨#[], by simp⟩
  · exact growing_ext hg x hx

end generic

/-! ### ParseSIPMsg: every schedule, flag word `f` before the last call, `f'` at the last call -/

/-- the message parser with a fixed flag word, as a streaming parser (the function `C01.msgP`) -/
def mlfP (flags : Nat) : Parser PSIPMsg := fun b o m => parseSIPMsg b o m flags

/-- **C01, the flags of the last call differ (general form)**: for EVERY growing sequence of prefixes (each within the
    65,535-byte limit), EVERY flag word `f` for the calls before the last and EVERY flag word `f'` for the last
    call, from any legitimate object: the chain of resumed calls returns what FRESH calls on the same prefixes return
    (`f` on the prefixes before the last — the first definitive verdict wins, as in `schedule_msg` —, `f'` on the last
    buffer): same offset, same verdict, the very same object when the verdict is not an error and the same `msgObs`
    observation after an error. No hypothesis on `f` or `f'`. -/
theorem schedule_msg_last_flags (f f' : Nat) (o : Nat) (m : PSIPMsg) (l : List Buf) (hg : Growing l)
    (hfit : ∀ x ∈ l, x.size ≤ 65535) (h0 : ∀ b ∈ l.head?, msgOK2 b o m) :
    RR msgObs (resumeRunEnd (mlfP f) (mlfP f') o m l) (mlfOneShotEnd (mlfP f) (mlfP f') o m l) :=
  mlf_resumeRunEnd_RR (mlfP f) (mlfP f') msgOK2 msgObs (fun b => b.size ≤ 65535)
    (fun b s o st _ _ hC hI hr =>
      ⟨(parseSIPMsg_resume b s o st f f hI hC hr).1, (parseSIPMsg_resume b s o st f f' hI hC hr).1,
        (parseSIPMsg_resume b s o st f f' hI hC hr).2.1⟩)
    o m l hg hfit h0

/-- … from any object produced by Init: any previous contents, zeroed caller arrays of any capacity (or none) -/
theorem schedule_msg_last_flags_init (f f' : Nat) (o : Nat) (m0 : PSIPMsg) (len kh kc : Nat)
    (hdrs cts : Option Unit) (l : List Buf) (hg : Growing l) (hfit : ∀ x ∈ l, x.size ≤ 65535)
    (ho : ∀ b ∈ l.head?, o ≤ b.size) :
    let m := m0.init len (hdrs.map fun _ => Array.replicate kh {}) (cts.map fun _ => Array.replicate kc {})
    RR msgObs (resumeRunEnd (mlfP f) (mlfP f') o m l) (mlfOneShotEnd (mlfP f) (mlfP f') o m l) :=
  schedule_msg_last_flags f f' o _ l hg hfit (fun b hb => msgOK2_init b o (ho b hb) m0 len kh kc hdrs cts)

/-! ### a definitive verdict stays definitive when bytes are appended; MoreBytes on the whole ⇒ MoreBytes on every prefix -/

theorem mlf_msgBody_definitive (b s : Buf) (o : Nat) (m : PSIPMsg) (f : Nat) (ho : o ≤ b.size)
    (hnf : hasFlag f SIPMsgNoMoreDataF = false) (he : (msgBody b o m f).2.1 ≠ .moreBytes) :
    (msgBody (b ++ s) o m f).2.1 ≠ .moreBytes := by
  by_cases hx : bodyToEnd f m
  · obtain ⟨h1, h2, h3⟩ := hx
    unfold msgBody
    simp only [h1, h2, h3, Bool.false_eq_true, ↓reduceIte, msgEnd]
    intro h; cases h
  · rw [msgBody_stable b s o m f ho hnf hx he]; exact he

theorem mlf_msgHeaders_definitive (b s : Buf) (o : Nat) (m : PSIPMsg) (f : Nat)
    (hok1 : hlsOK b m.hl) (hok2 : hvOK b o m.pv) (hnf : hasFlag f SIPMsgNoMoreDataF = false)
    (he : (msgHeaders b o m f).2.1 ≠ .moreBytes) : (msgHeaders (b ++ s) o m f).2.1 ≠ .moreBytes := by
  unfold msgHeaders at he ⊢
  rcases hp : parseHeaders b o m.hl (some m.pv) with ⟨o1, e1, hl1, hb1⟩
  rw [hp] at he
  by_cases hm : e1 = .moreBytes
  · subst hm
    simp only at he
    rw [msgErr_verdict _ _ _ _ hnf] at he
    exact absurd rfl he
  · rw [parseHeaders_stable b s o m.hl (some m.pv) hok1 hok2 hp hm]
    cases e1 <;> simp only at he ⊢
    case ok =>
      have hpost := parseHeaders_post b o m.hl (some m.pv) hok1 hok2 hp
      exact mlf_msgBody_definitive b s o1 _ f hpost.1 hnf he
    case moreBytes => exact absurd rfl hm
    all_goals exact he

theorem mlf_msgFLine_definitive (b s : Buf) (o : Nat) (m : PSIPMsg) (f : Nat) (hok : msgOK b o m)
    (hfit : b.size ≤ 65535) (hnf : hasFlag f SIPMsgNoMoreDataF = false)
    (he : (msgFLine b o m f).2.1 ≠ .moreBytes) : (msgFLine (b ++ s) o m f).2.1 ≠ .moreBytes := by
  obtain ⟨ho, hfl, hls, hvs⟩ := hok
  unfold msgFLine at he ⊢
  rcases hp : parseFLine b o m.fl with ⟨o1, e1, fl1⟩
  rw [hp] at he
  by_cases hm : e1 = .moreBytes
  · subst hm
    simp only at he
    rw [msgErr_verdict _ _ _ _ hnf] at he
    exact absurd rfl he
  · rw [parseFLine_stable b s o m.fl hfl hfit hp hm]
    cases e1 <;> simp only at he ⊢
    case ok =>
      have hrg := parseFLine_range b o m.fl ho
      rw [hp] at hrg
      have hrg' := hrg rfl
      exact mlf_msgHeaders_definitive b s o1 _ f hls (hvOK_mono hvs hrg'.1 hrg'.2) hnf he
    case moreBytes => exact absurd rfl hm
    all_goals exact he

/-- a definitive verdict (anything but MoreBytes) of a call without the no-more-data flag is never taken back:
    on every extension of the buffer the verdict is definitive again (not necessarily the same object: a body that
    extends to the end of the buffer grows) -/
theorem parseSIPMsg_definitive_grows (b s : Buf) (o : Nat) (m : PSIPMsg) (f : Nat) (hok : msgOK b o m)
    (hfit : b.size ≤ 65535) (hnf : hasFlag f SIPMsgNoMoreDataF = false)
    (he : (parseSIPMsg b o m f).2.1 ≠ .moreBytes) : (parseSIPMsg (b ++ s) o m f).2.1 ≠ .moreBytes := by
  unfold parseSIPMsg at he ⊢
  cases hst : m.state <;> simp only [hst] at he ⊢
  case init => exact mlf_msgFLine_definitive b s o _ f hok hfit hnf he
  case fline => exact mlf_msgFLine_definitive b s o m f hok hfit hnf he
  case headers => exact mlf_msgHeaders_definitive b s o m f hok.2.2.1 hok.2.2.2 hnf he
  case body => exact mlf_msgBody_definitive b s o m f hok.1 hnf he
  all_goals exact he

/-- **MoreBytes on the whole input ⇒ MoreBytes on every prefix** (calls without the no-more-data flag) -/
theorem parseSIPMsg_more_prefix (b s : Buf) (o : Nat) (m : PSIPMsg) (f : Nat) (hok : msgOK b o m)
    (hfit : b.size ≤ 65535) (hnf : hasFlag f SIPMsgNoMoreDataF = false)
    (hm : (parseSIPMsg (b ++ s) o m f).2.1 = .moreBytes) : (parseSIPMsg b o m f).2.1 = .moreBytes := by
  cases he : (parseSIPMsg b o m f).2.1 with
  | moreBytes => rfl
  | _ => exact absurd hm (parseSIPMsg_definitive_grows b s o m f hok hfit hnf (by rw [he]; intro h; cases h))

/-! ### a definitive result does not depend on the no-more-data flag -/

theorem mlf_msgErr_switch (m : PSIPMsg) (o : Nat) (e : Err) (f f' : Nat)
    (hnf : hasFlag f SIPMsgNoMoreDataF = false) (he : (msgErr m o e f).2.1 ≠ .moreBytes) :
    msgErr m o e f' = msgErr m o e f := by
  by_cases hm : e = .moreBytes
  · subst hm
    rw [msgErr_more m o f hnf] at he
    exact absurd rfl he
  · rw [msgErr_stable m o e f hm, msgErr_stable m o e f' hm]

theorem mlf_msgBody_switch (b : Buf) (o : Nat) (m : PSIPMsg) (f f' : Nat)
    (hnf : hasFlag f SIPMsgNoMoreDataF = false)
    (hs : hasFlag f' SIPMsgSkipBodyF = hasFlag f SIPMsgSkipBodyF)
    (hc : hasFlag f' SIPMsgCLenReqF = hasFlag f SIPMsgCLenReqF)
    (he : (msgBody b o m f).2.1 ≠ .moreBytes) : msgBody b o m f' = msgBody b o m f := by
  unfold msgBody at he ⊢
  simp only [hs, hc] at he ⊢
  by_cases h1 : hasFlag f SIPMsgSkipBodyF = true
  · simp only [h1, ↓reduceIte]
  · simp only [h1, Bool.false_eq_true, ↓reduceIte] at he ⊢
    by_cases h2 : m.pv.clen.parsed = true
    · simp only [h2, ↓reduceIte] at he ⊢
      by_cases h3 : o + m.pv.clen.uiVal > b.size
      · simp only [h3, ↓reduceIte, hnf, Bool.false_eq_true] at he
        exact absurd rfl he
      · simp only [h3, ↓reduceIte]
    · simp only [h2, Bool.false_eq_true, ↓reduceIte]

theorem mlf_msgHeaders_switch (b : Buf) (o : Nat) (m : PSIPMsg) (f f' : Nat)
    (hnf : hasFlag f SIPMsgNoMoreDataF = false)
    (hs : hasFlag f' SIPMsgSkipBodyF = hasFlag f SIPMsgSkipBodyF)
    (hc : hasFlag f' SIPMsgCLenReqF = hasFlag f SIPMsgCLenReqF)
    (he : (msgHeaders b o m f).2.1 ≠ .moreBytes) : msgHeaders b o m f' = msgHeaders b o m f := by
  unfold msgHeaders at he ⊢
  rcases hp : parseHeaders b o m.hl (some m.pv) with ⟨o1, e1, hl1, hb1⟩
  rw [hp] at he
  cases e1 <;> simp only at he ⊢
  case ok => exact mlf_msgBody_switch b o1 _ f f' hnf hs hc he
  all_goals exact mlf_msgErr_switch _ _ _ f f' hnf he

theorem mlf_msgFLine_switch (b : Buf) (o : Nat) (m : PSIPMsg) (f f' : Nat)
    (hnf : hasFlag f SIPMsgNoMoreDataF = false)
    (hs : hasFlag f' SIPMsgSkipBodyF = hasFlag f SIPMsgSkipBodyF)
    (hc : hasFlag f' SIPMsgCLenReqF = hasFlag f SIPMsgCLenReqF)
    (he : (msgFLine b o m f).2.1 ≠ .moreBytes) : msgFLine b o m f' = msgFLine b o m f := by
  unfold msgFLine at he ⊢
  rcases hp : parseFLine b o m.fl with ⟨o1, e1, fl1⟩
  rw [hp] at he
  cases e1 <;> simp only at he ⊢
  case ok => exact mlf_msgHeaders_switch b o1 _ f f' hnf hs hc he
  all_goals exact mlf_msgErr_switch _ _ _ f f' hnf he

/-- **the no-more-data flag is only read where the call would otherwise say MoreBytes**: a definitive result of a call
    without the flag is the result of the call with any flag word `f'` that agrees with `f` on the two body-mode
    flags (in particular `f' = f ||| SIPMsgNoMoreDataF`), on the same buffer — any object, any buffer -/
theorem parseSIPMsg_flags_switch (b : Buf) (o : Nat) (m : PSIPMsg) (f f' : Nat)
    (hnf : hasFlag f SIPMsgNoMoreDataF = false)
    (hs : hasFlag f' SIPMsgSkipBodyF = hasFlag f SIPMsgSkipBodyF)
    (hc : hasFlag f' SIPMsgCLenReqF = hasFlag f SIPMsgCLenReqF)
    (he : (parseSIPMsg b o m f).2.1 ≠ .moreBytes) : parseSIPMsg b o m f' = parseSIPMsg b o m f := by
  unfold parseSIPMsg at he ⊢
  cases hst : m.state <;> simp only [hst] at he ⊢
  case init => exact mlf_msgFLine_switch b o _ f f' hnf hs hc he
  case fline => exact mlf_msgFLine_switch b o m f f' hnf hs hc he
  case headers => exact mlf_msgHeaders_switch b o m f f' hnf hs hc he
  case body => exact mlf_msgBody_switch b o m f f' hnf hs hc he
  all_goals exact mlf_msgErr_switch _ _ _ f f' hnf he

theorem mlf_hasFlag_or_nmd (f k : Nat) (hk : SIPMsgNoMoreDataF &&& k = 0) :
    hasFlag (f ||| SIPMsgNoMoreDataF) k = hasFlag f k := by
  unfold hasFlag
  rw [Nat.and_or_distrib_right, hk, Nat.or_zero]

theorem mlf_hasFlag_nmd (f : Nat) : hasFlag (f ||| SIPMsgNoMoreDataF) SIPMsgNoMoreDataF = true := by
  unfold hasFlag
  rw [Nat.and_or_distrib_right]
  have : SIPMsgNoMoreDataF &&& SIPMsgNoMoreDataF = 4 := by decide
  rw [this]
  simp only [bne_iff_ne, ne_eq, Nat.or_eq_zero_iff, not_and]
  intro _ h; cases h

/-! ### when the fresh calls reduce to ONE call with `f'` on the last buffer -/

theorem mlf_msgOK_all {o : Nat} {m : PSIPMsg} {l : List Buf} (hg : Growing l) (h0 : ∀ b ∈ l.head?, msgOK b o m) :
    ∀ x ∈ l, msgOK x o m := by
  cases l with
  | nil => intro x hx; cases hx
  | cons b rest =>
    intro x hx
    obtain ⟨s, rfl⟩ := mlf_growing_head hg x hx
    exact msgOK_grows s (h0 b (by simp))

/-- **C01, the stream ended while the parser was still asking for more**: `f` any flag word without the no-more-data
    flag, `f'` ANY flag word (in particular `f ||| SIPMsgNoMoreDataF`). If one call with `f` on the last buffer `B`
    says MoreBytes (equivalently, by `schedule_msg`: the chain with `f` alone ends with MoreBytes), then the chain —
    `f` before the last call, `f'` at the last call on `B` — returns what ONE call with `f'` on `B` returns on the
    original object. The last two buffers may be equal (nothing more arrived: the caller just learnt that the
    stream ended and calls again on the same bytes with the flag). -/
theorem schedule_msg_last_flags_more (f f' : Nat) (o : Nat) (m : PSIPMsg) (l : List Buf) (hg : Growing l)
    (hfit : ∀ x ∈ l, x.size ≤ 65535) (h0 : ∀ b ∈ l.head?, msgOK2 b o m ∧ msgOK b o m)
    (hnf : hasFlag f SIPMsgNoMoreDataF = false) (B : Buf) (hB : l.getLast? = some B)
    (hmore : (parseSIPMsg B o m f).2.1 = .moreBytes) :
    RR msgObs (resumeRunEnd (mlfP f) (mlfP f') o m l) (parseSIPMsg B o m f') := by
  have h := schedule_msg_last_flags f f' o m l hg hfit (fun b hb => (h0 b hb).1)
  have hall := mlf_msgOK_all hg (fun b hb => (h0 b hb).2)
  rw [mlfOneShotEnd_last (mlfP f) (mlfP f') o m l B hB (by
    intro x hx hne
    have hxl : x ∈ l := List.dropLast_subset l hx
    obtain ⟨t, rfl⟩ := mlf_growing_last hg hB x hxl
    exact absurd (parseSIPMsg_more_prefix x t o m f (hall x hxl) (hfit x hxl) hnf hmore) hne)] at h
  exact h

/-- **C01, the no-more-data flag at the last call, in terms of ONE call**: `f` without the no-more-data flag, `f'`
    with the same body-mode flags (`f' = f ||| SIPMsgNoMoreDataF`: `schedule_msg_last_nmd`). Provided no earlier
    prefix already holds a complete message whose body is "the rest of the buffer" (`bodyToEnd`: no Content-Length,
    neither skip-body nor Content-Length-required — there the chain stops early, with the shorter body, by
    definition of that mode; see the test below), the chain returns what ONE call with `f'` on the last buffer
    returns: offset, verdict, object (`msgObs` after an error). -/
theorem schedule_msg_last_flags_one (f f' : Nat) (o : Nat) (m : PSIPMsg) (l : List Buf) (hg : Growing l)
    (hfit : ∀ x ∈ l, x.size ≤ 65535) (h0 : ∀ b ∈ l.head?, msgOK2 b o m ∧ msgOK b o m)
    (hnf : hasFlag f SIPMsgNoMoreDataF = false)
    (hs : hasFlag f' SIPMsgSkipBodyF = hasFlag f SIPMsgSkipBodyF)
    (hc : hasFlag f' SIPMsgCLenReqF = hasFlag f SIPMsgCLenReqF)
    (B : Buf) (hB : l.getLast? = some B)
    (hx : ∀ x ∈ l.dropLast, (parseSIPMsg x o m f).2.1 = .ok → ¬ bodyToEnd f (parseSIPMsg x o m f).2.2) :
    RR msgObs (resumeRunEnd (mlfP f) (mlfP f') o m l) (parseSIPMsg B o m f') := by
  have h := schedule_msg_last_flags f f' o m l hg hfit (fun b hb => (h0 b hb).1)
  have hall := mlf_msgOK_all hg (fun b hb => (h0 b hb).2)
  rw [mlfOneShotEnd_last (mlfP f) (mlfP f') o m l B hB (by
    intro x hxd hne
    have hxl : x ∈ l := List.dropLast_subset l hxd
    obtain ⟨t, rfl⟩ := mlf_growing_last hg hB x hxl
    show parseSIPMsg x o m f = parseSIPMsg (x ++ t) o m f'
    rcases hr : parseSIPMsg x o m f with ⟨o', e, m'⟩
    have hne' : e ≠ .moreBytes := by
      have : (parseSIPMsg x o m f).2.1 ≠ .moreBytes := hne
      rw [hr] at this; exact this
    have hst := parseSIPMsg_stable_all x t o m f (hall x hxl) (hfit x hxl) hnf hr hne' (by
      intro he
      have := hx x hxd (by rw [hr]; exact he)
      rw [hr] at this; exact this)
    rw [parseSIPMsg_flags_switch (x ++ t) o m f f' hnf hs hc (by rw [hst]; exact hne'), hst])] at h
  exact h

/-- … for `f' = f ||| SIPMsgNoMoreDataF` -/
theorem schedule_msg_last_nmd (f : Nat) (o : Nat) (m : PSIPMsg) (l : List Buf) (hg : Growing l)
    (hfit : ∀ x ∈ l, x.size ≤ 65535) (h0 : ∀ b ∈ l.head?, msgOK2 b o m ∧ msgOK b o m)
    (hnf : hasFlag f SIPMsgNoMoreDataF = false) (B : Buf) (hB : l.getLast? = some B)
    (hx : ∀ x ∈ l.dropLast, (parseSIPMsg x o m f).2.1 = .ok → ¬ bodyToEnd f (parseSIPMsg x o m f).2.2) :
    RR msgObs (resumeRunEnd (mlfP f) (mlfP (f ||| SIPMsgNoMoreDataF)) o m l)
      (parseSIPMsg B o m (f ||| SIPMsgNoMoreDataF)) :=
  schedule_msg_last_flags_one f _ o m l hg hfit h0 hnf (mlf_hasFlag_or_nmd f _ (by decide))
    (mlf_hasFlag_or_nmd f _ (by decide)) B hB hx

/-- … from any Init object (any previous contents, zeroed caller arrays of any capacity, or none) -/
theorem schedule_msg_last_nmd_init (f : Nat) (o : Nat) (m0 : PSIPMsg) (len kh kc : Nat) (hdrs cts : Option Unit)
    (l : List Buf) (hg : Growing l) (hfit : ∀ x ∈ l, x.size ≤ 65535) (ho : ∀ b ∈ l.head?, o ≤ b.size)
    (hnf : hasFlag f SIPMsgNoMoreDataF = false) (B : Buf) (hB : l.getLast? = some B) :
    let m := m0.init len (hdrs.map fun _ => Array.replicate kh {}) (cts.map fun _ => Array.replicate kc {})
    (∀ x ∈ l.dropLast, (parseSIPMsg x o m f).2.1 = .ok → ¬ bodyToEnd f (parseSIPMsg x o m f).2.2) →
    RR msgObs (resumeRunEnd (mlfP f) (mlfP (f ||| SIPMsgNoMoreDataF)) o m l)
      (parseSIPMsg B o m (f ||| SIPMsgNoMoreDataF)) := by
  intro m hx
  exact schedule_msg_last_nmd f o m l hg hfit
    (fun b hb => ⟨msgOK2_init b o (ho b hb) m0 len kh kc hdrs cts, msgOK_init b o (ho b hb) m0 len kh kc hdrs cts⟩)
    hnf B hB hx

/-- in the two modes with a definite message end (skip-body, Content-Length required) the side condition is void -/
theorem schedule_msg_last_nmd_framed (f : Nat) (o : Nat) (m : PSIPMsg) (l : List Buf) (hg : Growing l)
    (hfit : ∀ x ∈ l, x.size ≤ 65535) (h0 : ∀ b ∈ l.head?, msgOK2 b o m ∧ msgOK b o m)
    (hnf : hasFlag f SIPMsgNoMoreDataF = false)
    (hfr : hasFlag f SIPMsgSkipBodyF = true ∨ hasFlag f SIPMsgCLenReqF = true)
    (B : Buf) (hB : l.getLast? = some B) :
    RR msgObs (resumeRunEnd (mlfP f) (mlfP (f ||| SIPMsgNoMoreDataF)) o m l)
      (parseSIPMsg B o m (f ||| SIPMsgNoMoreDataF)) :=
  schedule_msg_last_nmd f o m l hg hfit h0 hnf B hB (by
    intro x _ _ hbe
    rcases hfr with h | h
    · rw [hbe.1] at h; cases h
    · rw [hbe.2.2] at h; cases h)

/-- the chain with ONE flag word (`schedule_msg`) in terms of one call: if one call on the last buffer says MoreBytes,
    so does the chain, at the same offset with the same object -/
theorem schedule_msg_more (f : Nat) (o : Nat) (m : PSIPMsg) (l : List Buf) (hg : Growing l)
    (hfit : ∀ x ∈ l, x.size ≤ 65535) (h0 : ∀ b ∈ l.head?, msgOK2 b o m ∧ msgOK b o m)
    (hnf : hasFlag f SIPMsgNoMoreDataF = false) (B : Buf) (hB : l.getLast? = some B)
    (hmore : (parseSIPMsg B o m f).2.1 = .moreBytes) :
    resumeRun (mlfP f) o m l = parseSIPMsg B o m f := by
  have h := schedule_msg_last_flags_more f f o m l hg hfit h0 hnf B hB hmore
  rw [mlf_resumeRunEnd_same] at h
  exact h.eq (by rw [hmore]; exact Or.inr (Or.inl rfl))

/-! ### (2) a body shorter than its Content-Length, the stream ends -/

/-- ONE call with the no-more-data flag on an input whose body is shorter than its Content-Length (body parsing on;
    the first line is OK at `o1`, ParseHeaders says OK at `h` with values `hv` holding Content-Length
    `n = hv.clen.uiVal`, and `h + n > len(buf)`): OK at the end of the buffer, the body field is `Set(h,h)` extended to
    the end of the buffer — the truncated body —, the object is finished and carries `hv`. (The row of the C06 body
    table for ParseSIPMsg itself; `parseSIPMsg_clen_framing` is the row without the flag.) -/
theorem parseSIPMsg_clen_trunc (b : Buf) (o o1 h : Nat) (m : PSIPMsg) (flags : Nat) (fl : PFLine) (hl : HdrLst)
    (hv : PHdrVals) (hst : m.state = .init) (hf : parseFLine b o m.fl = (o1, .ok, fl))
    (hh : parseHeaders b o1 m.hl (some m.pv) = (h, .ok, hl, some hv))
    (hs : hasFlag flags SIPMsgSkipBodyF = false) (hn : hasFlag flags SIPMsgNoMoreDataF = true)
    (hc : hv.clen.parsed = true) (hshort : b.size < h + hv.clen.uiVal) :
    (parseSIPMsg b o m flags).1 = b.size ∧ (parseSIPMsg b o m flags).2.1 = .ok ∧
    (parseSIPMsg b o m flags).2.2.body = (PField.set h h).extend b.size ∧
    (parseSIPMsg b o m flags).2.2.state = .fin ∧ (parseSIPMsg b o m flags).2.2.pv = hv := by
  rw [parseSIPMsg_eq_msgBody b o o1 h m flags fl hl hv hst hf hh]
  have hc' : (afaBodyEntry m o fl hl hv).pv.clen.parsed = true := hc
  have hu : (afaBodyEntry m o fl hl hv).pv.clen.uiVal = hv.clen.uiVal := rfl
  have hg : h + hv.clen.uiVal > b.size := hshort
  have hb : msgBody b h (afaBodyEntry m o fl hl hv) flags =
      msgEnd { afaBodyEntry m o fl hl hv with body := PField.set h h } b b.size := by
    unfold msgBody
    simp only [hs, hc', hu, hg, hn, Bool.false_eq_true, ↓reduceIte]
  rw [hb]
  exact ⟨rfl, rfl, rfl, rfl, rfl⟩

/-- the truncated body, read back: the bytes from the end of the header block to the end of the buffer -/
theorem mlf_trunc_body_get (b : Buf) (h : Nat) (hh : h ≤ b.size) (hfit : b.size ≤ 65535) :
    ((PField.set h h).extend b.size).get? b = some (b.extract h b.size) := by
  have e1 : trunc16 h = h := trunc16_of_lt (by omega)
  have e2 : trunc16 b.size = b.size := trunc16_of_lt (by omega)
  unfold PField.get? PField.endT PField.extend PField.set
  simp only [e1, e2]
  have e3 : (b.size + 65536 - h) % 65536 = b.size - h := by omega
  rw [e3]
  have e4 : h + (b.size - h) = b.size := by omega
  rw [e4, e2, if_pos ⟨hh, Nat.le_refl _⟩]

/-- where the header block ends lies inside the buffer -/
theorem mlf_headers_end_le (b : Buf) (o o1 h : Nat) (m : PSIPMsg) (fl : PFLine) (hl : HdrLst) (hv : PHdrVals)
    (hok : msgOK b o m) (hf : parseFLine b o m.fl = (o1, .ok, fl))
    (hh : parseHeaders b o1 m.hl (some m.pv) = (h, .ok, hl, some hv)) : h ≤ b.size := by
  obtain ⟨ho, _, hls, hvs⟩ := hok
  have hrg := parseFLine_range b o m.fl ho
  rw [hf] at hrg
  have hrg' := hrg rfl
  exact (parseHeaders_post b o1 m.hl (some m.pv) hls (hvOK_mono hvs hrg'.1 hrg'.2) hh).1

/-- **(2) the corollary a user cares about.** The whole input `B` is a message whose body is shorter than its
    Content-Length (hypotheses as in `parseSIPMsg_clen_framing`, on `B`: first line OK, header block OK at `h` with a
    parsed Content-Length `n`, `h + n > len(B)`), body parsing on, `f` without the no-more-data flag. It is fed as ANY
    growing sequence of prefixes ending with `B` (the last two may be equal), from a new / Init / Reset object:
    * with the no-more-data flag on the final call the chain returns exactly (offset, verdict, whole object) what ONE
      call with the flag on `B` returns: OK at `len(B)`, finished, the parsed values `hv`, and the body is the
      truncated body `B[h:]`;
    * WITHOUT the flag the chain ends with MoreBytes at `h` (the body start), exactly as one call on `B`. -/
theorem schedule_msg_truncated_body (f : Nat) (o : Nat) (m : PSIPMsg) (l : List Buf) (hg : Growing l)
    (hfit : ∀ x ∈ l, x.size ≤ 65535) (h0 : ∀ b ∈ l.head?, msgOK2 b o m ∧ msgOK b o m)
    (hnf : hasFlag f SIPMsgNoMoreDataF = false) (hs : hasFlag f SIPMsgSkipBodyF = false)
    (B : Buf) (hB : l.getLast? = some B) (o1 h : Nat) (fl : PFLine) (hl : HdrLst) (hv : PHdrVals)
    (hst : m.state = .init) (hf : parseFLine B o m.fl = (o1, .ok, fl))
    (hh : parseHeaders B o1 m.hl (some m.pv) = (h, .ok, hl, some hv))
    (hc : hv.clen.parsed = true) (hshort : B.size < h + hv.clen.uiVal) :
    (resumeRunEnd (mlfP f) (mlfP (f ||| SIPMsgNoMoreDataF)) o m l = parseSIPMsg B o m (f ||| SIPMsgNoMoreDataF) ∧
      (resumeRunEnd (mlfP f) (mlfP (f ||| SIPMsgNoMoreDataF)) o m l).1 = B.size ∧
      (resumeRunEnd (mlfP f) (mlfP (f ||| SIPMsgNoMoreDataF)) o m l).2.1 = .ok ∧
      (resumeRunEnd (mlfP f) (mlfP (f ||| SIPMsgNoMoreDataF)) o m l).2.2.state = .fin ∧
      (resumeRunEnd (mlfP f) (mlfP (f ||| SIPMsgNoMoreDataF)) o m l).2.2.pv = hv ∧
      (resumeRunEnd (mlfP f) (mlfP (f ||| SIPMsgNoMoreDataF)) o m l).2.2.body = (PField.set h h).extend B.size ∧
      (resumeRunEnd (mlfP f) (mlfP (f ||| SIPMsgNoMoreDataF)) o m l).2.2.body.get? B = some (B.extract h B.size)) ∧
    (resumeRun (mlfP f) o m l = parseSIPMsg B o m f ∧
      (resumeRun (mlfP f) o m l).1 = h ∧ (resumeRun (mlfP f) o m l).2.1 = .moreBytes) := by
  have hBl : B ∈ l := List.mem_of_getLast? hB
  have hokB : msgOK B o m := mlf_msgOK_all hg (fun b hb => (h0 b hb).2) B hBl
  have hfr := (parseSIPMsg_clen_framing B o o1 h m f fl hl hv hst hf hh hs hnf hc).2.2 (by omega)
  have htr := parseSIPMsg_clen_trunc B o o1 h m (f ||| SIPMsgNoMoreDataF) fl hl hv hst hf hh
    (by rw [mlf_hasFlag_or_nmd f _ (by decide)]; exact hs) (mlf_hasFlag_nmd f) hc hshort
  have hle := mlf_headers_end_le B o o1 h m fl hl hv hokB hf hh
  have hrun : resumeRunEnd (mlfP f) (mlfP (f ||| SIPMsgNoMoreDataF)) o m l =
      parseSIPMsg B o m (f ||| SIPMsgNoMoreDataF) :=
    (schedule_msg_last_flags_more f _ o m l hg hfit h0 hnf B hB hfr.2).eq (by rw [htr.2.1]; exact Or.inl rfl)
  have hrun2 := schedule_msg_more f o m l hg hfit h0 hnf B hB hfr.2
  refine ⟨⟨hrun, ?_, ?_, ?_, ?_, ?_, ?_⟩, hrun2, ?_, ?_⟩
  · rw [hrun]; exact htr.1
  · rw [hrun]; exact htr.2.1
  · rw [hrun]; exact htr.2.2.2.1
  · rw [hrun]; exact htr.2.2.2.2
  · rw [hrun]; exact htr.2.2.1
  · rw [hrun, htr.2.2.1]; exact mlf_trunc_body_get B h hle (hfit B hBl)
  · rw [hrun2]; exact hfr.1
  · rw [hrun2]; exact hfr.2

/-! ### Init objects; projections -/

/-- every object produced by Init (any previous contents, zeroed caller arrays of any capacity, or none) meets the
    legitimacy hypothesis `h0` of the theorems above, whatever the first buffer is -/
theorem mlf_h0_init (o : Nat) (m0 : PSIPMsg) (len kh kc : Nat) (hdrs cts : Option Unit) (l : List Buf)
    (ho : ∀ b ∈ l.head?, o ≤ b.size) :
    ∀ b ∈ l.head?,
      msgOK2 b o (m0.init len (hdrs.map fun _ => Array.replicate kh {}) (cts.map fun _ => Array.replicate kc {})) ∧
      msgOK b o (m0.init len (hdrs.map fun _ => Array.replicate kh {}) (cts.map fun _ => Array.replicate kc {})) :=
  fun b hb => ⟨msgOK2_init b o (ho b hb) m0 len kh kc hdrs cts, msgOK_init b o (ho b hb) m0 len kh kc hdrs cts⟩

/-- `schedule_msg_last_flags_more` from any Init object -/
theorem schedule_msg_last_flags_more_init (f f' : Nat) (o : Nat) (m0 : PSIPMsg) (len kh kc : Nat)
    (hdrs cts : Option Unit) (l : List Buf) (hg : Growing l) (hfit : ∀ x ∈ l, x.size ≤ 65535)
    (ho : ∀ b ∈ l.head?, o ≤ b.size) (hnf : hasFlag f SIPMsgNoMoreDataF = false) (B : Buf)
    (hB : l.getLast? = some B) :
    let m := m0.init len (hdrs.map fun _ => Array.replicate kh {}) (cts.map fun _ => Array.replicate kc {})
    (parseSIPMsg B o m f).2.1 = .moreBytes →
    RR msgObs (resumeRunEnd (mlfP f) (mlfP f') o m l) (parseSIPMsg B o m f') := by
  intro m hmore
  exact schedule_msg_last_flags_more f f' o m l hg hfit (mlf_h0_init o m0 len kh kc hdrs cts l ho) hnf B hB hmore

/-- the verdict and the offset of the chain are those of the fresh calls … -/
theorem schedule_msg_last_flags_verdict (f f' : Nat) (o : Nat) (m : PSIPMsg) (l : List Buf) (hg : Growing l)
    (hfit : ∀ x ∈ l, x.size ≤ 65535) (h0 : ∀ b ∈ l.head?, msgOK2 b o m) :
    (resumeRunEnd (mlfP f) (mlfP f') o m l).1 = (mlfOneShotEnd (mlfP f) (mlfP f') o m l).1 ∧
    (resumeRunEnd (mlfP f) (mlfP f') o m l).2.1 = (mlfOneShotEnd (mlfP f) (mlfP f') o m l).2.1 :=
  let h := schedule_msg_last_flags f f' o m l hg hfit h0; ⟨h.1, h.2.1⟩

/-- … and on success (or any other non-error verdict) the whole result is the same -/
theorem schedule_msg_last_flags_object (f f' : Nat) (o : Nat) (m : PSIPMsg) (l : List Buf) (hg : Growing l)
    (hfit : ∀ x ∈ l, x.size ≤ 65535) (h0 : ∀ b ∈ l.head?, msgOK2 b o m)
    (hv : Err.goesOn (mlfOneShotEnd (mlfP f) (mlfP f') o m l).2.1) :
    resumeRunEnd (mlfP f) (mlfP f') o m l = mlfOneShotEnd (mlfP f) (mlfP f') o m l :=
  (schedule_msg_last_flags f f' o m l hg hfit h0).eq hv

/-- with `f' = f` the statement is `schedule_msg` (C01) -/
theorem schedule_msg_last_flags_same (f : Nat) (o : Nat) (m : PSIPMsg) (l : List Buf) :
    resumeRunEnd (mlfP f) (mlfP f) o m l = resumeRun (mlfP f) o m l ∧
    mlfOneShotEnd (mlfP f) (mlfP f) o m l = oneShotRun (mlfP f) o m l :=
  ⟨mlf_resumeRunEnd_same _ o m l, mlfOneShotEnd_same _ o m l⟩

/-! ### tests / non-vacuity (closed computations by `decide +kernel`; labelled as tests, not as general claims) -/

/-- "A B C\r\nl:5\r\n\r\nxyz": Content-Length 5, only 3 body bytes -/
def mlfMsg : Buf := #[65, 32, 66, 32, 67, 13, 10, 108, 58, 53, 13, 10, 13, 10, 120, 121, 122]
/-- "A B C\r\ni:x\r\n\r\nxyz": no Content-Length -/
def mlfNoCL : Buf := #[65, 32, 66, 32, 67, 13, 10, 105, 58, 120, 13, 10, 13, 10, 120, 121, 122]
def mlfInit : PSIPMsg := ({} : PSIPMsg).init 0 none none
/-- cut inside the first line, inside the Content-Length line, inside the blank line, inside the body; the whole
    input; and the whole input once more (nothing arrived, the stream ended) -/
def mlfCuts : List Buf :=
  [mlfMsg.extract 0 3, mlfMsg.extract 0 9, mlfMsg.extract 0 13, mlfMsg.extract 0 15, mlfMsg, mlfMsg]

theorem mlf_triple_eta {α β γ : Type} (r : α × β × γ) {a : α} {b : β} (h1 : r.1 = a) (h2 : r.2.1 = b) :
    r = (a, b, r.2.2) := by
  obtain ⟨x, y, z⟩ := r
  simp only at h1 h2
  subst h1 h2; rfl

theorem mlfCuts_growing : Growing mlfCuts :=
  ⟨⟨mlfMsg.extract 3 9, by decide +kernel⟩, ⟨mlfMsg.extract 9 13, by decide +kernel⟩,
   ⟨mlfMsg.extract 13 15, by decide +kernel⟩, ⟨mlfMsg.extract 15 17, by decide +kernel⟩,
   ⟨#[], by decide +kernel⟩, trivial⟩

/-- test / non-vacuity of `schedule_msg_truncated_body`: ALL its hypotheses hold of a concrete message (Content-Length 5,
    three body bytes) fed in six pieces, and its conclusion instantiates to: OK at 17 with body "xyz" when the last
    call carries the flag, MoreBytes at 14 when it does not -/
example :
    (resumeRunEnd (mlfP 0) (mlfP (0 ||| SIPMsgNoMoreDataF)) 0 mlfInit mlfCuts).1 = 17 ∧
    (resumeRunEnd (mlfP 0) (mlfP (0 ||| SIPMsgNoMoreDataF)) 0 mlfInit mlfCuts).2.1 = .ok ∧
    (resumeRunEnd (mlfP 0) (mlfP (0 ||| SIPMsgNoMoreDataF)) 0 mlfInit mlfCuts).2.2.body.get? mlfMsg =
      some #[120, 121, 122] ∧
    (resumeRun (mlfP 0) 0 mlfInit mlfCuts).1 = 14 ∧ (resumeRun (mlfP 0) 0 mlfInit mlfCuts).2.1 = .moreBytes := by
  have hf := mlf_triple_eta (parseFLine mlfMsg 0 mlfInit.fl) (a := 7) (b := Err.ok) (by decide +kernel)
    (by decide +kernel)
  have hh1 : (parseHeaders mlfMsg 7 mlfInit.hl (some mlfInit.pv)).1 = 14 := by decide +kernel
  have hh2 : (parseHeaders mlfMsg 7 mlfInit.hl (some mlfInit.pv)).2.1 = .ok := by decide +kernel
  rcases hp : parseHeaders mlfMsg 7 mlfInit.hl (some mlfInit.pv) with ⟨h, e, hl, hb⟩
  obtain ⟨hv, rfl⟩ := afa_parseHeaders_some mlfMsg 7 mlfInit.hl mlfInit.pv hp
  have hc1 : ((parseHeaders mlfMsg 7 mlfInit.hl (some mlfInit.pv)).2.2.2.map (·.clen.parsed)) = some true := by
    decide +kernel
  have hc2 : ((parseHeaders mlfMsg 7 mlfInit.hl (some mlfInit.pv)).2.2.2.map (·.clen.uiVal)) = some 5 := by
    decide +kernel
  rw [hp] at hh1 hh2 hc1 hc2
  simp only [Option.map_some, Option.some.injEq] at hh1 hh2 hc1 hc2
  subst hh1 hh2
  have key := schedule_msg_truncated_body 0 0 mlfInit mlfCuts mlfCuts_growing (by decide +kernel)
    (fun b _ => ⟨msgOK2_init b 0 (Nat.zero_le _) {} 0 0 0 none none, msgOK_init b 0 (Nat.zero_le _) {} 0 0 0 none none⟩)
    (by decide) (by decide) mlfMsg (by decide +kernel) 7 14 _ hl hv rfl hf hp hc1
    (by rw [hc2]; decide)
  obtain ⟨⟨_, k1, k2, _, _, _, k3⟩, _, k4, k5⟩ := key
  refine ⟨k1, k2, ?_, k4, k5⟩
  rw [k3]
  decide +kernel

/-- test: the same numbers by direct computation -/
example : (resumeRunEnd (mlfP 0) (mlfP 4) 0 mlfInit mlfCuts).1 = 17 ∧
    (resumeRunEnd (mlfP 0) (mlfP 4) 0 mlfInit mlfCuts).2.1 = .ok ∧
    (resumeRunEnd (mlfP 0) (mlfP 4) 0 mlfInit mlfCuts).2.2.body = ⟨14, 3⟩ ∧
    (parseSIPMsg mlfMsg 0 mlfInit 4).1 = 17 ∧ (parseSIPMsg mlfMsg 0 mlfInit 4).2.1 = .ok ∧
    (resumeRun (mlfP 0) 0 mlfInit mlfCuts).1 = 14 ∧ (resumeRun (mlfP 0) 0 mlfInit mlfCuts).2.1 = .moreBytes := by
  refine ⟨by decide +kernel, by decide +kernel, by decide +kernel, by decide +kernel, by decide +kernel,
    by decide +kernel, by decide +kernel⟩

/-- test: the hypothesis "the calls before the last do not carry the no-more-data flag" of
    `schedule_msg_last_flags_more` / `_one` / `schedule_msg_last_nmd` is NEEDED. With the flag already on the first
    call the chain stops there — with the error Trunc when the cut lies in the header block, with OK and a body of one
    byte when it lies in the body — while one call with the flag on the whole input says OK at 17.
    (The general form `schedule_msg_last_flags` covers these schedules too: it compares with fresh calls on the same
    prefixes, and the fresh call on the first prefix gives that same early verdict.) -/
example :
    (resumeRunEnd (mlfP 4) (mlfP 4) 0 mlfInit [mlfMsg.extract 0 9, mlfMsg]).2.1 = .trunc ∧
    (resumeRunEnd (mlfP 4) (mlfP 4) 0 mlfInit [mlfMsg.extract 0 15, mlfMsg]).1 = 15 ∧
    (resumeRunEnd (mlfP 4) (mlfP 4) 0 mlfInit [mlfMsg.extract 0 15, mlfMsg]).2.1 = .ok ∧
    (parseSIPMsg mlfMsg 0 mlfInit 4).1 = 17 ∧ (parseSIPMsg mlfMsg 0 mlfInit 4).2.1 = .ok := by
  refine ⟨by decide +kernel, by decide +kernel, by decide +kernel, by decide +kernel, by decide +kernel⟩

/-- test: the side condition `hx` of `schedule_msg_last_flags_one` / `schedule_msg_last_nmd` (no earlier prefix is
    already a complete message whose body is "the rest of the buffer") is NEEDED: without Content-Length and with
    flags 0 the chain stops at the first prefix that contains the blank line (OK at 15, body "x"), one call with the
    flag on the whole input says OK at 17; the general form gives the former (fresh call on the first prefix);
    with "Content-Length required" (flags 2 / 6) both say OK at 14. -/
example :
    (resumeRunEnd (mlfP 0) (mlfP 4) 0 mlfInit [mlfNoCL.extract 0 15, mlfNoCL]).1 = 15 ∧
    (resumeRunEnd (mlfP 0) (mlfP 4) 0 mlfInit [mlfNoCL.extract 0 15, mlfNoCL]).2.1 = .ok ∧
    (mlfOneShotEnd (mlfP 0) (mlfP 4) 0 mlfInit [mlfNoCL.extract 0 15, mlfNoCL]).1 = 15 ∧
    (parseSIPMsg mlfNoCL 0 mlfInit 4).1 = 17 ∧ (parseSIPMsg mlfNoCL 0 mlfInit 4).2.1 = .ok ∧
    bodyToEnd 0 (parseSIPMsg (mlfNoCL.extract 0 15) 0 mlfInit 0).2.2 ∧
    (resumeRunEnd (mlfP 2) (mlfP 6) 0 mlfInit [mlfNoCL.extract 0 15, mlfNoCL]).1 = 14 ∧
    (parseSIPMsg mlfNoCL 0 mlfInit 6).1 = 14 := by
  refine ⟨by decide +kernel, by decide +kernel, by decide +kernel, by decide +kernel, by decide +kernel,
    ⟨by decide, by decide +kernel, by decide⟩, by decide +kernel, by decide +kernel⟩

end Sipsp
