/-
  Sipsp.Proofs.ParamSpec — a grammar of parameter lists (`name[=value]` items, optional linear white space around
  names, `=` and separators, token / quoted / empty / missing values, the ways a parameter can end) and the proof
  that ParseTokenParam decomposes every parameter of that grammar exactly as written; rejection of bytes outside
  the allowed set; the allowed set and the separator / terminator selection pinned to the documentation; quoted
  strings; the white-space terminator; the list wrappers ParseAllURIParams / ParseAllURIHdrs on parameter lists of
  the grammar. Only calls on objects in their initial state are treated (no suspension / resumption).
-/
import Sipsp.Proofs.HdrSpec
import Sipsp.Proofs.SkipQuoted
import Sipsp.Proofs.ProgressNA
import Sipsp.Proofs.Bytes

namespace Sipsp

/-! ### linear white space, any option flags -/

/-- `skipLWS_of_lws` for any option flags -/
theorem skipLWS_lws {b : Buf} {i n : Nat} (f : Nat) (h : Lws b i n) {c : UInt8} (hn : b[n]? = some c)
    (hc : isLWSch c = false) : skipLWS b i f = (n, 0, .ok) := by
  induction h with
  | nil i => exact skipLWS_other hn (lws_split hc).1 (lws_split hc).2
  | ws i n c1 h1 hw _ ih => rw [skipLWS_ws h1 hw]; exact ih hn
  | fold i e n c2 he h2 hw2 _ ih =>
    obtain ⟨c0, h0, hw0, hcr0, _⟩ := he.first
    rw [skipLWS_crlf_ws h0 hw0 hcr0 he.skipCRLF h2 hw2]; exact ih hn

/-- `skipLWS_of_lws_eol` for any option flags -/
theorem skipLWS_lws_eol {b : Buf} {i p e : Nat} (f : Nat) (h : Lws b i p) (he : Eol b p e) {c2 : UInt8}
    (h2 : b[e]? = some c2) (hw2 : isWS c2 = false) : skipLWS b i f = (p, e - p, .eoh) := by
  induction h with
  | nil i =>
    obtain ⟨c0, h0, hw0, hcr0, _⟩ := he.first
    exact skipLWS_crlf_eoh h0 hw0 hcr0 he.skipCRLF h2 hw2
  | ws i n c1 h1 hw _ ih => rw [skipLWS_ws h1 hw]; exact ih he
  | fold i e' n c3 he' h3 hw3 _ ih =>
    obtain ⟨c0, h0, hw0, hcr0, _⟩ := he'.first
    rw [skipLWS_crlf_ws h0 hw0 hcr0 he'.skipCRLF h3 hw3]; exact ih he

/-- the input ends at `p`: nothing left, a lone CR or LF as the last byte, or CR LF as the last two bytes -/
inductive EndTail (b : Buf) : Nat → Prop
  | none (p : Nat) : b[p]? = none → EndTail b p
  | one (p : Nat) (c : UInt8) : b[p]? = some c → isCRLFch c = true → b[p + 1]? = none → EndTail b p
  | crlf (p : Nat) : b[p]? = some 13 → b[p + 1]? = some 10 → b[p + 2]? = none → EndTail b p

theorem crlf_not_ws {c : UInt8} (h : isCRLFch c = true) : isWS c = false := by
  unfold isCRLFch at h; unfold isWS
  simp only [Bool.or_eq_true, beq_iff_eq] at h
  rcases h with h | h <;> (rw [h]; decide)

/-- at the end of the input `skipLWS` asks for more bytes or — with the end-of-input option — reports the end of
    the header at the end of the buffer -/
theorem skipLWS_lws_end {b : Buf} {i p : Nat} (f : Nat) (h : Lws b i p) (he : EndTail b p)
    (hf : hasFlag f POptInputEndF = true) :
    (∃ n crl, skipLWS b i f = (n, crl, .moreBytes)) ∨ skipLWS b i f = (b.size, 0, .eoh) := by
  induction h with
  | nil i =>
    cases he with
    | none h0 => exact Or.inl ⟨i, 0, skipLWS_none h0⟩
    | one c h0 hcr h1 =>
      left
      have hs : skipCRLF b i = (i, 0, .moreBytes) := by
        unfold skipCRLF; rw [h1, h0]; simp only
        unfold isCRLFch at hcr
        simp only [Bool.or_eq_true, beq_iff_eq] at hcr
        rcases hcr with hcr | hcr <;> (rw [hcr]; rfl)
      exact ⟨i, 0, skipLWS_crlf_err h0 (crlf_not_ws hcr) hcr hs (by intro h; cases h)⟩
    | crlf h0 h1 h2 =>
      right
      have hs : skipCRLF b i = (i + 2, 2, .ok) := by
        unfold skipCRLF; rw [h1, h0]; rfl
      rw [skipLWS_crlf_end h0 (by decide) (by decide) hs h2, if_pos hf]
      have h3 := get?_lt h1
      have h4 := get?_none_ge h2
      have : i + 2 = b.size := by omega
      rw [this]
  | ws i n c1 h1 hw _ ih => rw [skipLWS_ws h1 hw]; exact ih he
  | fold i e' n c3 he' h3 hw3 _ ih =>
    obtain ⟨c0, h0, hw0, hcr0, _⟩ := he'.first
    rw [skipLWS_crlf_ws h0 hw0 hcr0 he'.skipCRLF h3 hw3]; exact ih he

/-! ### character classes of ParseTokenParam -/

theorem tpSep_cases (flags : Nat) : tpSep flags = 38 ∨ tpSep flags = 59 := by
  unfold tpSep; split
  · exact Or.inl rfl
  · exact Or.inr rfl

theorem tpTerm_cases (flags : Nat) : tpTerm flags = 63 ∨ tpTerm flags = 44 ∨ tpTerm flags = 0 := by
  unfold tpTerm; split
  · exact Or.inl rfl
  · split
    · exact Or.inr (Or.inl rfl)
    · exact Or.inr (Or.inr rfl)

/-- the facts the step function tests about a byte, in the order it tests them -/
structure ChFacts (flags : Nat) (c : UInt8) (lws eq qt term sep : Bool) : Prop where
  hl : isLWSch c = lws
  h61 : (c == 61) = eq
  h34 : (c == 34) = qt
  ht : (c == tpTerm flags && tpTerm flags != 0) = term
  hs : (c == tpSep flags) = sep

theorem sep_facts (flags : Nat) : ChFacts flags (tpSep flags) false false false false true := by
  rcases tpSep_cases flags with h | h <;> rcases tpTerm_cases flags with h' | h' | h' <;>
    (constructor <;> (rw [h]; try rw [h']) <;> decide)

theorem term_facts (flags : Nat) (hne : tpTerm flags ≠ 0) : ChFacts flags (tpTerm flags) false false false true false := by
  rcases tpSep_cases flags with h | h <;> rcases tpTerm_cases flags with h' | h' | h' <;>
    first
    | exact absurd h' hne
    | (constructor <;> (rw [h']; try rw [h]) <;> decide)

theorem allowed_range {c : UInt8} {f : Nat} (h : tokAllowedChar c f = true) : ¬ (c ≤ 32) ∧ ¬ (c ≥ 127) := by
  unfold tokAllowedChar at h
  by_cases h1 : (decide (c ≤ 32) || decide (c ≥ 127)) = true
  · simp only [h1, if_true] at h; cases h
  · simp only [Bool.or_eq_true, decide_eq_true_eq, not_or] at h1; exact h1

theorem allowed_not_lws {c : UInt8} {f : Nat} (h : tokAllowedChar c f = true) : isLWSch c = false := by
  have h1 := (allowed_range h).1
  cases hl : isLWSch c with
  | false => rfl
  | true =>
    unfold isLWSch at hl
    simp only [Bool.or_eq_true, beq_iff_eq] at hl
    rcases hl with ((hl | hl) | hl) | hl <;> (subst hl; exact absurd (by decide) h1)

theorem not_allowed_61 (f : Nat) : tokAllowedChar 61 f = false := by
  unfold tokAllowedChar; simp

theorem not_allowed_34 (f : Nat) : tokAllowedChar 34 f = false := by
  unfold tokAllowedChar; simp

/-- a byte that continues a name or a token value: allowed, not the separator, not the terminator -/
def PChar (flags : Nat) (c : UInt8) : Prop :=
  tokAllowedChar c flags = true ∧ c ≠ tpSep flags ∧ c ≠ tpTerm flags

theorem PChar.facts {flags : Nat} {c : UInt8} (h : PChar flags c) : ChFacts flags c false false false false false := by
  obtain ⟨ha, hs, ht⟩ := h
  refine ⟨allowed_not_lws ha, ?_, ?_, ?_, ?_⟩
  · cases h : c == 61 with
    | false => rfl
    | true => rw [beq_iff_eq] at h; subst h; rw [not_allowed_61] at ha; cases ha
  · cases h : c == 34 with
    | false => rfl
    | true => rw [beq_iff_eq] at h; subst h; rw [not_allowed_34] at ha; cases ha
  · have : (c == tpTerm flags) = false := by simpa using ht
    rw [this]; rfl
  · simpa using hs

/-- the bytes at `[i, j)` are present and continue a name / token value -/
def PRun (b : Buf) (flags i j : Nat) : Prop := ∀ k, i ≤ k → k < j → ∃ c, b[k]? = some c ∧ PChar flags c

/-! ### the white-space pattern -/

theorem tpLWS_ok {b : Buf} {flags i n crl : Nat} (p : PTokParam) (upd : PTokParam → PTokParam)
    (h : skipLWS b i flags = (n, crl, .ok)) : tpLWS b flags i p upd = .cont n (upd p) := by
  unfold tpLWS; rw [h]

theorem tpLWS_eoh {b : Buf} {flags i n crl : Nat} (p : PTokParam) (upd : PTokParam → PTokParam)
    (h : skipLWS b i flags = (n, crl, .eoh)) : tpLWS b flags i p upd = stepOfRes (tpEOH (upd p) n crl) := by
  unfold tpLWS; rw [h]

theorem tpLWS_more {b : Buf} {flags i n crl : Nat} (p : PTokParam) (upd : PTokParam → PTokParam)
    (h : skipLWS b i flags = (n, crl, .moreBytes)) : tpLWS b flags i p upd = stepOfRes (tpMoreBytes b flags p i) := by
  unfold tpLWS; rw [h]

/-! ### one equation per state and byte class -/

section steps
variable {flags offs : Nat} {b : Buf} {i : Nat} {c : UInt8} {p : PTokParam}

/-- the states in which a parameter has not started yet -/
def TPState.isStart (s : TPState) : Prop := s = .init ∨ s = .initNxtVal ∨ s = .fNxt

theorem tpStep_start_lws (hst : p.state.isStart) (hl : isLWSch c = true) :
    tpStep flags offs b i c p = tpLWS b flags i p id := by
  unfold tpStep
  rcases hst with h | h | h <;> simp only [h, hl, ↓reduceIte]

theorem tpStep_start_sep (hst : p.state.isStart) (hl : isLWSch c = false) (hs : (c == tpSep flags) = true) :
    tpStep flags offs b i c p = .cont (i + 1) p := by
  unfold tpStep
  rcases hst with h | h | h <;> simp only [h, hl, hs, Bool.false_eq_true, ↓reduceIte]

theorem fNxt_ne_init : (TPState.init == TPState.fNxt) = false := by decide
theorem fNxt_ne_initNxt : (TPState.initNxtVal == TPState.fNxt) = false := by decide

theorem tpStep_start_bad (hst : p.state = .init ∨ p.state = .initNxtVal) (hl : isLWSch c = false)
    (hs : (c == tpSep flags) = false) (ha : tokAllowedChar c flags = false) :
    tpStep flags offs b i c p = .done i .badChar { p with state := .err } := by
  unfold tpStep
  rcases hst with h | h <;>
    simp only [h, hl, hs, ha, fNxt_ne_init, fNxt_ne_initNxt, Bool.false_and, Bool.not_false, Bool.false_eq_true,
      ↓reduceIte]

/-- after a separator a byte that is neither allowed nor the terminator is rejected -/
theorem tpStep_fNxt_bad (hst : p.state = .fNxt) (hl : isLWSch c = false) (hs : (c == tpSep flags) = false)
    (ht : (c == tpTerm flags && tpTerm flags != 0) = false) (ha : tokAllowedChar c flags = false) :
    tpStep flags offs b i c p = .done i .badChar { p with state := .err } := by
  unfold tpStep
  simp only [hst, hl, hs, ht, ha, beq_self_eq_true, Bool.true_and, Bool.not_false, Bool.false_eq_true, ↓reduceIte]

/-- after a separator the terminator ends the list: the empty item before it is skipped -/
theorem tpStep_fNxt_term (hst : p.state = .fNxt) (hl : isLWSch c = false) (hs : (c == tpSep flags) = false)
    (ht : (c == tpTerm flags && tpTerm flags != 0) = true) :
    tpStep flags offs b i c p = .done i .ok { p with state := .fin } := by
  unfold tpStep
  simp only [hst, hl, hs, ht, beq_self_eq_true, Bool.true_and, Bool.false_eq_true, ↓reduceIte]

theorem tpStep_fNxt_char (hst : p.state = .fNxt) (hl : isLWSch c = false) (hs : (c == tpSep flags) = false)
    (ht : (c == tpTerm flags && tpTerm flags != 0) = false) (ha : tokAllowedChar c flags = true) :
    tpStep flags offs b i c p = .done i .moreValues { p with state := .initNxtVal } := by
  unfold tpStep
  simp only [hst, hl, hs, ht, ha, Bool.not_true, Bool.false_eq_true, ↓reduceIte, beq_self_eq_true, Bool.true_and]

theorem tpStep_init_char (hst : p.state = .init ∨ p.state = .initNxtVal) (hl : isLWSch c = false)
    (hs : (c == tpSep flags) = false) (ha : tokAllowedChar c flags = true) :
    tpStep flags offs b i c p =
      .cont (i + 1) { p with state := .name, name := PField.set i i, all := PField.set i i } := by
  unfold tpStep
  rcases hst with h | h <;>
    simp only [h, hl, hs, ha, fNxt_ne_init, fNxt_ne_initNxt, Bool.false_and, Bool.not_true, Bool.false_eq_true,
      ↓reduceIte] <;> rfl

/-! name -/

theorem tpStep_name_lws (hst : p.state = .name) (hl : isLWSch c = true) :
    tpStep flags offs b i c p = tpLWS b flags i p (fun p => { (p.extName i).extAll i with state := .fEq }) := by
  unfold tpStep; simp only [hst, hl, ↓reduceIte]

theorem tpStep_name_eq (hst : p.state = .name) (hl : isLWSch c = false) (h61 : (c == 61) = true) :
    tpStep flags offs b i c p = .cont (i + 1) { (p.extName i).extAll (i + 1) with state := .fVal } := by
  unfold tpStep; simp only [hst, hl, h61, Bool.false_eq_true, ↓reduceIte]

theorem tpStep_name_term (hst : p.state = .name) (hl : isLWSch c = false) (h61 : (c == 61) = false)
    (ht : (c == tpTerm flags && tpTerm flags != 0) = true) :
    tpStep flags offs b i c p = .done i .ok { (p.extName i).extAll i with state := .fin } := by
  unfold tpStep; simp only [hst, hl, h61, ht, Bool.false_eq_true, ↓reduceIte]

theorem tpStep_name_sep (hst : p.state = .name) (hl : isLWSch c = false) (h61 : (c == 61) = false)
    (ht : (c == tpTerm flags && tpTerm flags != 0) = false) (hs : (c == tpSep flags) = true) :
    tpStep flags offs b i c p = .cont (i + 1) { (p.extName i).extAll i with state := .fNxt } := by
  unfold tpStep; simp only [hst, hl, h61, ht, hs, Bool.false_eq_true, ↓reduceIte]

theorem tpStep_name_bad (hst : p.state = .name) (hl : isLWSch c = false) (h61 : (c == 61) = false)
    (ht : (c == tpTerm flags && tpTerm flags != 0) = false) (hs : (c == tpSep flags) = false)
    (ha : tokAllowedChar c flags = false) :
    tpStep flags offs b i c p = .done i .badChar { p with state := .err } := by
  unfold tpStep; simp only [hst, hl, h61, ht, hs, ha, Bool.not_false, Bool.false_eq_true, ↓reduceIte]

theorem tpStep_name_char (hst : p.state = .name) (hl : isLWSch c = false) (h61 : (c == 61) = false)
    (ht : (c == tpTerm flags && tpTerm flags != 0) = false) (hs : (c == tpSep flags) = false)
    (ha : tokAllowedChar c flags = true) :
    tpStep flags offs b i c p = .cont (i + 1) p := by
  unfold tpStep; simp only [hst, hl, h61, ht, hs, ha, Bool.not_true, Bool.false_eq_true, ↓reduceIte]

/-! after the name, before `=` -/

theorem tpStep_fEq_lws (hst : p.state = .fEq) (hl : isLWSch c = true) :
    tpStep flags offs b i c p = tpLWS b flags i p id := by
  unfold tpStep; simp only [hst, hl, ↓reduceIte]

theorem tpStep_fEq_eq (hst : p.state = .fEq) (hl : isLWSch c = false) (h61 : (c == 61) = true) :
    tpStep flags offs b i c p = .cont (i + 1) { p with state := .fVal } := by
  unfold tpStep; simp only [hst, hl, h61, Bool.false_eq_true, ↓reduceIte]

theorem tpStep_fEq_term (hst : p.state = .fEq) (hl : isLWSch c = false) (h61 : (c == 61) = false)
    (ht : (c == tpTerm flags && tpTerm flags != 0) = true) :
    tpStep flags offs b i c p = .done i .ok { p with state := .fin } := by
  unfold tpStep; simp only [hst, hl, h61, ht, Bool.false_eq_true, ↓reduceIte]

theorem tpStep_fEq_sep (hst : p.state = .fEq) (hl : isLWSch c = false) (h61 : (c == 61) = false)
    (ht : (c == tpTerm flags && tpTerm flags != 0) = false) (hs : (c == tpSep flags) = true) :
    tpStep flags offs b i c p = .cont (i + 1) { p with state := .fNxt } := by
  unfold tpStep; simp only [hst, hl, h61, ht, hs, Bool.false_eq_true, ↓reduceIte]

theorem tpStep_fEq_bad (hst : p.state = .fEq) (hl : isLWSch c = false) (h61 : (c == 61) = false)
    (ht : (c == tpTerm flags && tpTerm flags != 0) = false) (hs : (c == tpSep flags) = false)
    (ha : tokAllowedChar c flags = false) :
    tpStep flags offs b i c p = .done i .badChar { p with state := .err } := by
  unfold tpStep; simp only [hst, hl, h61, ht, hs, ha, Bool.not_false, Bool.false_eq_true, ↓reduceIte]

theorem tpStep_fEq_char (hst : p.state = .fEq) (hl : isLWSch c = false) (h61 : (c == 61) = false)
    (ht : (c == tpTerm flags && tpTerm flags != 0) = false) (hs : (c == tpSep flags) = false)
    (ha : tokAllowedChar c flags = true) :
    tpStep flags offs b i c p =
      if hasFlag flags POptTokSpTermF then tpSpTermEq offs i p else .done i .badChar { p with state := .err } := by
  unfold tpStep; simp only [hst, hl, h61, ht, hs, ha, Bool.not_true, Bool.false_eq_true, ↓reduceIte]

/-! after `=` -/

theorem tpStep_fVal_lws (hst : p.state = .fVal) (hl : isLWSch c = true) :
    tpStep flags offs b i c p = tpLWS b flags i p id := by
  unfold tpStep; simp only [hst, hl, ↓reduceIte]

theorem tpStep_fVal_quote (hst : p.state = .fVal) (hl : isLWSch c = false) (h34 : (c == 34) = true) :
    tpStep flags offs b i c p =
      .cont (i + 1) { ({ p with val := PField.set i i }).extAll i with state := .quotedVal } := by
  unfold tpStep; simp only [hst, hl, h34, Bool.false_eq_true, ↓reduceIte]

theorem tpStep_fVal_term (hst : p.state = .fVal) (hl : isLWSch c = false) (h34 : (c == 34) = false)
    (ht : (c == tpTerm flags && tpTerm flags != 0) = true) :
    tpStep flags offs b i c p = .done i .ok { p with val := PField.set i i, state := .fin } := by
  unfold tpStep; simp only [hst, hl, h34, ht, Bool.false_eq_true, ↓reduceIte]

theorem tpStep_fVal_sep (hst : p.state = .fVal) (hl : isLWSch c = false) (h34 : (c == 34) = false)
    (ht : (c == tpTerm flags && tpTerm flags != 0) = false) (hs : (c == tpSep flags) = true) :
    tpStep flags offs b i c p =
      .cont (i + 1) { ({ p with val := PField.set i i }).extAll i with state := .fNxt } := by
  unfold tpStep; simp only [hst, hl, h34, ht, hs, Bool.false_eq_true, ↓reduceIte]

theorem tpStep_fVal_bad (hst : p.state = .fVal) (hl : isLWSch c = false) (h34 : (c == 34) = false)
    (ht : (c == tpTerm flags && tpTerm flags != 0) = false) (hs : (c == tpSep flags) = false)
    (ha : tokAllowedChar c flags = false) :
    tpStep flags offs b i c p = .done i .badChar { p with state := .err } := by
  unfold tpStep; simp only [hst, hl, h34, ht, hs, ha, Bool.not_false, Bool.false_eq_true, ↓reduceIte]

theorem tpStep_fVal_char (hst : p.state = .fVal) (hl : isLWSch c = false) (h34 : (c == 34) = false)
    (ht : (c == tpTerm flags && tpTerm flags != 0) = false) (hs : (c == tpSep flags) = false)
    (ha : tokAllowedChar c flags = true) :
    tpStep flags offs b i c p =
      .cont (i + 1) { ({ p with val := PField.set i i }).extAll i with state := .val } := by
  unfold tpStep; simp only [hst, hl, h34, ht, hs, ha, Bool.not_true, Bool.false_eq_true, ↓reduceIte]

/-! token value -/

theorem tpStep_val_lws (hst : p.state = .val) (hl : isLWSch c = true) :
    tpStep flags offs b i c p = tpLWS b flags i p (fun p => { (p.extVal i).extAll i with state := .fSep }) := by
  unfold tpStep; simp only [hst, hl, ↓reduceIte]

theorem tpStep_val_term (hst : p.state = .val) (hl : isLWSch c = false)
    (ht : (c == tpTerm flags && tpTerm flags != 0) = true) :
    tpStep flags offs b i c p = .done i .ok { (p.extVal i).extAll i with state := .fin } := by
  unfold tpStep; simp only [hst, hl, ht, Bool.false_eq_true, ↓reduceIte]

theorem tpStep_val_sep (hst : p.state = .val) (hl : isLWSch c = false)
    (ht : (c == tpTerm flags && tpTerm flags != 0) = false) (hs : (c == tpSep flags) = true) :
    tpStep flags offs b i c p = .cont (i + 1) { (p.extVal i).extAll i with state := .fNxt } := by
  unfold tpStep; simp only [hst, hl, ht, hs, Bool.false_eq_true, ↓reduceIte]

theorem tpStep_val_bad (hst : p.state = .val) (hl : isLWSch c = false)
    (ht : (c == tpTerm flags && tpTerm flags != 0) = false) (hs : (c == tpSep flags) = false)
    (ha : tokAllowedChar c flags = false) :
    tpStep flags offs b i c p = .done i .badChar { p with state := .err } := by
  unfold tpStep; simp only [hst, hl, ht, hs, ha, Bool.not_false, Bool.false_eq_true, ↓reduceIte]

theorem tpStep_val_char (hst : p.state = .val) (hl : isLWSch c = false)
    (ht : (c == tpTerm flags && tpTerm flags != 0) = false) (hs : (c == tpSep flags) = false)
    (ha : tokAllowedChar c flags = true) :
    tpStep flags offs b i c p = .cont (i + 1) p := by
  unfold tpStep; simp only [hst, hl, ht, hs, ha, Bool.not_true, Bool.false_eq_true, ↓reduceIte]

/-! after the value -/

theorem tpStep_fSep_lws (hst : p.state = .fSep) (hl : isLWSch c = true) :
    tpStep flags offs b i c p = tpLWS b flags i p id := by
  unfold tpStep; simp only [hst, hl, ↓reduceIte]

theorem tpStep_fSep_term (hst : p.state = .fSep) (hl : isLWSch c = false)
    (ht : (c == tpTerm flags && tpTerm flags != 0) = true) :
    tpStep flags offs b i c p = .done i .ok { p with state := .fin } := by
  unfold tpStep; simp only [hst, hl, ht, Bool.false_eq_true, ↓reduceIte]

theorem tpStep_fSep_sep (hst : p.state = .fSep) (hl : isLWSch c = false)
    (ht : (c == tpTerm flags && tpTerm flags != 0) = false) (hs : (c == tpSep flags) = true) :
    tpStep flags offs b i c p = .cont (i + 1) { p with state := .fNxt } := by
  unfold tpStep; simp only [hst, hl, ht, hs, Bool.false_eq_true, ↓reduceIte]

theorem tpStep_fSep_bad (hst : p.state = .fSep) (hl : isLWSch c = false)
    (ht : (c == tpTerm flags && tpTerm flags != 0) = false) (hs : (c == tpSep flags) = false)
    (ha : tokAllowedChar c flags = false) :
    tpStep flags offs b i c p = .done i .badChar { p with state := .err } := by
  unfold tpStep; simp only [hst, hl, ht, hs, ha, Bool.not_false, Bool.false_eq_true, ↓reduceIte]

theorem tpStep_fSep_char (hst : p.state = .fSep) (hl : isLWSch c = false)
    (ht : (c == tpTerm flags && tpTerm flags != 0) = false) (hs : (c == tpSep flags) = false)
    (ha : tokAllowedChar c flags = true) :
    tpStep flags offs b i c p =
      if hasFlag flags POptTokSpTermF then tpSpTermSep b offs i p else .done i .badChar { p with state := .err } := by
  unfold tpStep; simp only [hst, hl, ht, hs, ha, Bool.not_true, Bool.false_eq_true, ↓reduceIte]

/-! quoted value -/

theorem tpStep_quoted_ok (hst : p.state = .quotedVal) {n : Nat} (hq : skipQuoted b i = (n, .ok)) :
    tpStep flags offs b i c p = .cont n { (p.extVal n).extAll n with state := .fSep } := by
  unfold tpStep; simp only [hst]; rw [hq]

end steps

/-! ### the grammar: empty items, what follows a separator, how a parameter ends -/

/-- empty list items: any number of separators, each optionally preceded by linear white space -/
inductive Pad (b : Buf) (sep : UInt8) : Nat → Nat → Prop
  | nil (i : Nat) : Pad b sep i i
  | item (i s n : Nat) : Lws b i s → b[s]? = some sep → Pad b sep (s + 1) n → Pad b sep i n

theorem Pad.le {b : Buf} {sep : UInt8} {i n : Nat} (h : Pad b sep i n) : i ≤ n := by
  induction h with
  | nil i => exact Nat.le_refl _
  | item i s n hl _ _ ih => have := hl.le; omega

/-- what follows a separator (`i` is the offset after it): more empty items and white space, then either the first
    byte of the next parameter (`MoreValues`, offset of that byte; that byte is not the terminator), the terminator
    (`OK`, offset of the terminator: the empty item before it is skipped), the end of the header, or the end of the
    input (end-of-input option). The last three arguments are the offset, verdict and final state reported. -/
inductive AfterSep (b : Buf) (flags : Nat) : Nat → Nat → Err → TPState → Prop
  | more (i t u : Nat) (c : UInt8) : Pad b (tpSep flags) i t → Lws b t u → b[u]? = some c →
      tokAllowedChar c flags = true → c ≠ tpSep flags → c ≠ tpTerm flags →
      AfterSep b flags i u .moreValues .initNxtVal
  | term (i t u : Nat) : Pad b (tpSep flags) i t → Lws b t u → b[u]? = some (tpTerm flags) → tpTerm flags ≠ 0 →
      AfterSep b flags i u .ok .fin
  | eoh (i t p e : Nat) (c2 : UInt8) : Pad b (tpSep flags) i t → Lws b t p → Eol b p e → b[e]? = some c2 →
      isWS c2 = false → AfterSep b flags i e .eoh .fin
  | inputEnd (i t p : Nat) : hasFlag flags POptInputEndF = true → Pad b (tpSep flags) i t → Lws b t p →
      EndTail b p → AfterSep b flags i b.size .eoh .fin

/-- the ways a parameter can end after its name or value (`i` is the end of the name / value): optional linear
    white space, then the separator (and what follows it), the configured terminator (`OK`, offset of the
    terminator), the end of the header (`EOH`, offset after the line end) or the end of the input. -/
inductive Ending (b : Buf) (flags : Nat) : Nat → Nat → Err → TPState → Prop
  | sep (i s o : Nat) (e : Err) (st : TPState) : Lws b i s → b[s]? = some (tpSep flags) →
      AfterSep b flags (s + 1) o e st → Ending b flags i o e st
  | term (i t : Nat) : Lws b i t → b[t]? = some (tpTerm flags) → tpTerm flags ≠ 0 → Ending b flags i t .ok .fin
  | eoh (i p e : Nat) (c2 : UInt8) : Lws b i p → Eol b p e → b[e]? = some c2 → isWS c2 = false →
      Ending b flags i e .eoh .fin
  | inputEnd (i p : Nat) : hasFlag flags POptInputEndF = true → Lws b i p → EndTail b p →
      Ending b flags i b.size .eoh .fin

/-! ### walking the loop -/

/-- the states in which `endOfHdr` finishes the parameter -/
def TPState.isOpen (s : TPState) : Prop := s = .fNxt ∨ s = .name ∨ s = .fEq ∨ s = .fVal ∨ s = .val ∨ s = .fSep

theorem tpEOH_open {p : PTokParam} (h : p.state.isOpen) (n crl : Nat) :
    tpEOH p n crl = (n + crl, .eoh, { p with state := .fin }) := by
  unfold tpEOH
  rcases h with h | h | h | h | h | h <;> simp only [h]

theorem EndTail.first {b : Buf} {p : Nat} (h : EndTail b p) {c : UInt8} (hc : b[p]? = some c) : isLWSch c = true := by
  cases h with
  | none h0 => rw [h0] at hc; cases hc
  | one c' h0 hcr _ =>
    rw [h0] at hc; cases hc
    unfold isCRLFch at hcr; unfold isLWSch
    simp only [Bool.or_eq_true] at hcr ⊢
    rcases hcr with h | h
    · exact Or.inl (Or.inr h)
    · exact Or.inr h
  | crlf h0 _ _ => rw [h0] at hc; cases hc; decide

section phases
variable (flags offs : Nat) (b : Buf)

/-- linear white space followed by a byte of another kind: the loop continues there with the updated object -/
theorem tp_lws_ok {i n : Nat} (hl : Lws b i n) (hin : i < n) {c : UInt8} (hn : b[n]? = some c)
    (hc : isLWSch c = false) (p : PTokParam) (upd : PTokParam → PTokParam)
    (hstep : ∀ c, isLWSch c = true → tpStep flags offs b i c p = tpLWS b flags i p upd) :
    runLoop (tpMachine flags offs) b i p = runLoop (tpMachine flags offs) b n (upd p) := by
  obtain ⟨c0, h0, hl0⟩ := hl.first hin
  have hs : (tpMachine flags offs).step b i c0 p = .cont n (upd p) :=
    (hstep c0 hl0).trans (tpLWS_ok p upd (skipLWS_lws flags hl hn hc))
  rw [runLoop_cont (tpMachine flags offs) h0 hs, if_pos hin]

/-- linear white space followed by a line end that is not a fold: `endOfHdr` -/
theorem tp_lws_eoh {i q e : Nat} (hl : Lws b i q) (he : Eol b q e) {c2 : UInt8} (h2 : b[e]? = some c2)
    (hw2 : isWS c2 = false) (p : PTokParam) (upd : PTokParam → PTokParam)
    (hstep : ∀ c, isLWSch c = true → tpStep flags offs b i c p = tpLWS b flags i p upd) :
    runLoop (tpMachine flags offs) b i p = tpEOH (upd p) q (e - q) := by
  have hfirst : ∃ c0, b[i]? = some c0 ∧ isLWSch c0 = true := by
    by_cases h1 : i < q
    · exact hl.first h1
    · have := hl.le
      have : i = q := by omega
      subst this
      obtain ⟨c0, h0, _, _, h4⟩ := he.first; exact ⟨c0, h0, h4⟩
  obtain ⟨c0, h0, hl0⟩ := hfirst
  have hs : (tpMachine flags offs).step b i c0 p =
      .done (tpEOH (upd p) q (e - q)).1 (tpEOH (upd p) q (e - q)).2.1 (tpEOH (upd p) q (e - q)).2.2 :=
    (hstep c0 hl0).trans (tpLWS_eoh p upd (skipLWS_lws_eol flags hl he h2 hw2))
  rw [runLoop_done (tpMachine flags offs) h0 hs]

/-- linear white space up to the end of the input, end-of-input option -/
theorem tp_lws_end {i q : Nat} (hl : Lws b i q) (he : EndTail b q) (hf : hasFlag flags POptInputEndF = true)
    (p : PTokParam) (upd : PTokParam → PTokParam)
    (hstep : ∀ c, isLWSch c = true → tpStep flags offs b i c p = tpLWS b flags i p upd)
    (hmb : tpMoreBytes b flags p i = tpEOH (upd p) b.size 0) :
    runLoop (tpMachine flags offs) b i p = tpEOH (upd p) b.size 0 := by
  cases hb : b[i]? with
  | none => rw [runLoop_none (tpMachine flags offs) p hb]; exact hmb
  | some c0 =>
    have hl0 : isLWSch c0 = true := by
      by_cases h1 : i < q
      · obtain ⟨c1, h1', h2⟩ := hl.first h1
        rw [hb] at h1'; cases h1'; exact h2
      · have := hl.le
        have : i = q := by omega
        subst this
        exact he.first hb
    rcases skipLWS_lws_end flags hl he hf with ⟨n, crl, hm⟩ | hm
    · have hs : (tpMachine flags offs).step b i c0 p =
          .done (tpEOH (upd p) b.size 0).1 (tpEOH (upd p) b.size 0).2.1 (tpEOH (upd p) b.size 0).2.2 := by
        have := (hstep c0 hl0).trans (tpLWS_more p upd hm)
        rw [hmb] at this; exact this
      rw [runLoop_done (tpMachine flags offs) hb hs]
    · have hs : (tpMachine flags offs).step b i c0 p =
          .done (tpEOH (upd p) b.size 0).1 (tpEOH (upd p) b.size 0).2.1 (tpEOH (upd p) b.size 0).2.2 :=
        (hstep c0 hl0).trans (tpLWS_eoh p upd hm)
      rw [runLoop_done (tpMachine flags offs) hb hs]

theorem tpMoreBytes_end_id {p : PTokParam} (hf : hasFlag flags POptInputEndF = true)
    (hst : p.state.isStart ∨ p.state = .fSep ∨ p.state = .fVal ∨ p.state = .fEq) (i : Nat) :
    tpMoreBytes b flags p i = tpEOH p b.size 0 := by
  unfold tpMoreBytes
  rw [if_pos hf]
  rcases hst with (h | h | h) | h | h | h <;> simp only [h]

/-- empty list items are skipped -/
theorem tp_pad {i t : Nat} (H : Pad b (tpSep flags) i t) (p : PTokParam) (hst : p.state.isStart) :
    runLoop (tpMachine flags offs) b i p = runLoop (tpMachine flags offs) b t p := by
  induction H with
  | nil i => rfl
  | item i s n hl hs _ ih =>
    have hf := sep_facts flags
    have h1 : runLoop (tpMachine flags offs) b i p = runLoop (tpMachine flags offs) b s p := by
      by_cases hlt : i < s
      · exact tp_lws_ok flags offs b hl hlt hs hf.hl p id (fun c hc => tpStep_start_lws hst hc)
      · have := hl.le
        have : i = s := by omega
        subst this; rfl
    have hstep : (tpMachine flags offs).step b s (tpSep flags) p = .cont (s + 1) p :=
      tpStep_start_sep hst hf.hl hf.hs
    rw [h1, runLoop_cont (tpMachine flags offs) hs hstep, if_pos (by omega)]
    exact ih

/-- after a separator -/
theorem tp_afterSep {i o : Nat} {e : Err} {st : TPState} (H : AfterSep b flags i o e st) (p : PTokParam)
    (hst : p.state = .fNxt) :
    runLoop (tpMachine flags offs) b i p = (o, e, { p with state := st }) := by
  have hstart : p.state.isStart := Or.inr (Or.inr hst)
  have hopen : p.state.isOpen := Or.inl hst
  cases H with
  | term t u hp hl hc hne0 =>
    rw [tp_pad flags offs b hp p hstart]
    have hf := term_facts flags hne0
    have h1 : runLoop (tpMachine flags offs) b t p = runLoop (tpMachine flags offs) b o p := by
      by_cases hlt : t < o
      · exact tp_lws_ok flags offs b hl hlt hc hf.hl p id (fun c hc => tpStep_start_lws hstart hc)
      · have := hl.le
        have : t = o := by omega
        subst this; rfl
    have hstep : (tpMachine flags offs).step b o (tpTerm flags) p = .done o .ok { p with state := .fin } :=
      tpStep_fNxt_term hst hf.hl hf.hs hf.ht
    rw [h1, runLoop_done (tpMachine flags offs) hc hstep]
  | more t u c hp hl hc ha hne hnt =>
    rw [tp_pad flags offs b hp p hstart]
    have hcl := allowed_not_lws ha
    have h1 : runLoop (tpMachine flags offs) b t p = runLoop (tpMachine flags offs) b o p := by
      by_cases hlt : t < o
      · exact tp_lws_ok flags offs b hl hlt hc hcl p id (fun c hc => tpStep_start_lws hstart hc)
      · have := hl.le
        have : t = o := by omega
        subst this; rfl
    have hstep : (tpMachine flags offs).step b o c p = .done o .moreValues { p with state := .initNxtVal } :=
      tpStep_fNxt_char hst hcl (by simpa using hne)
        (by
          have : (c == tpTerm flags) = false := by simpa using hnt
          rw [this]; rfl) ha
    rw [h1, runLoop_done (tpMachine flags offs) hc hstep]
  | eoh t q e' c2 hp hl he h2 hw2 =>
    rw [tp_pad flags offs b hp p hstart,
      tp_lws_eoh flags offs b hl he h2 hw2 p id (fun c hc => tpStep_start_lws hstart hc)]
    show tpEOH p q (o - q) = _
    rw [tpEOH_open hopen]
    have := he.gt
    have : q + (o - q) = o := by omega
    rw [this]
  | inputEnd t q hf hp hl he =>
    rw [tp_pad flags offs b hp p hstart,
      tp_lws_end flags offs b hl he hf p id (fun c hc => tpStep_start_lws hstart hc)
        (tpMoreBytes_end_id flags b hf (Or.inl hstart) t)]
    show tpEOH p b.size 0 = _
    rw [tpEOH_open hopen]; rfl

theorem tpStep_closed_sep {p : PTokParam} {i : Nat} (hst : p.state = .fEq ∨ p.state = .fSep) :
    tpStep flags offs b i (tpSep flags) p = .cont (i + 1) { p with state := .fNxt } := by
  have hf := sep_facts flags
  rcases hst with h | h
  · exact tpStep_fEq_sep h hf.hl hf.h61 hf.ht hf.hs
  · exact tpStep_fSep_sep h hf.hl hf.ht hf.hs

theorem tpStep_closed_term {p : PTokParam} {i : Nat} (hst : p.state = .fEq ∨ p.state = .fSep)
    (hne : tpTerm flags ≠ 0) :
    tpStep flags offs b i (tpTerm flags) p = .done i .ok { p with state := .fin } := by
  have hf := term_facts flags hne
  rcases hst with h | h
  · exact tpStep_fEq_term h hf.hl hf.h61 hf.ht
  · exact tpStep_fSep_term h hf.hl hf.ht

/-- **the end of a parameter**, generic in the state the loop is in at the end `j` of the name / value: `upd` is
    the update that state applies to the object when the name / value ends (identity in the two states after
    white space). -/
theorem tp_ending (j : Nat) (p : PTokParam) (upd : PTokParam → PTokParam)
    (hu : (upd p).state = .fEq ∨ (upd p).state = .fSep)
    (hlws : ∀ c, isLWSch c = true → tpStep flags offs b j c p = tpLWS b flags j p upd)
    (hsep : tpStep flags offs b j (tpSep flags) p = .cont (j + 1) { upd p with state := .fNxt })
    (hterm : tpTerm flags ≠ 0 → tpStep flags offs b j (tpTerm flags) p = .done j .ok { upd p with state := .fin })
    (hmb : hasFlag flags POptInputEndF = true → tpMoreBytes b flags p j = tpEOH (upd p) b.size 0)
    {o : Nat} {e : Err} {st : TPState} (H : Ending b flags j o e st) :
    runLoop (tpMachine flags offs) b j p = (o, e, { upd p with state := st }) := by
  have hopen : (upd p).state.isOpen := by
    rcases hu with h | h
    · exact Or.inr (Or.inr (Or.inl h))
    · exact Or.inr (Or.inr (Or.inr (Or.inr (Or.inr h))))
  cases H with
  | sep s o' e' st' hl hs ha =>
    have hf := sep_facts flags
    have h1 : runLoop (tpMachine flags offs) b j p =
        runLoop (tpMachine flags offs) b (s + 1) { upd p with state := .fNxt } := by
      by_cases hlt : j < s
      · rw [tp_lws_ok flags offs b hl hlt hs hf.hl p upd hlws]
        have hstep : (tpMachine flags offs).step b s (tpSep flags) (upd p) =
            .cont (s + 1) { upd p with state := .fNxt } := tpStep_closed_sep flags offs b hu
        rw [runLoop_cont (tpMachine flags offs) hs hstep, if_pos (by omega)]
      · have := hl.le
        have : j = s := by omega
        subst this
        have hstep : (tpMachine flags offs).step b j (tpSep flags) p =
            .cont (j + 1) { upd p with state := .fNxt } := hsep
        rw [runLoop_cont (tpMachine flags offs) hs hstep, if_pos (by omega)]
    rw [h1, tp_afterSep flags offs b ha _ rfl]
  | term t hl ht hne =>
    have hf := term_facts flags hne
    by_cases hlt : j < o
    · rw [tp_lws_ok flags offs b hl hlt ht hf.hl p upd hlws]
      have hstep : (tpMachine flags offs).step b o (tpTerm flags) (upd p) =
          .done o .ok { upd p with state := .fin } := tpStep_closed_term flags offs b hu hne
      rw [runLoop_done (tpMachine flags offs) ht hstep]
    · have := hl.le
      have : j = o := by omega
      subst this
      have hstep : (tpMachine flags offs).step b j (tpTerm flags) p =
          .done j .ok { upd p with state := .fin } := hterm hne
      rw [runLoop_done (tpMachine flags offs) ht hstep]
  | eoh q e' c2 hl he h2 hw2 =>
    rw [tp_lws_eoh flags offs b hl he h2 hw2 p upd hlws, tpEOH_open hopen]
    have := he.gt
    have : q + (o - q) = o := by omega
    rw [this]
  | inputEnd q hf hl he =>
    rw [tp_lws_end flags offs b hl he hf p upd hlws (hmb hf), tpEOH_open hopen]; rfl

end phases

/-! ### the object: extensions without wrap-around -/

theorem extName_eq (p : PTokParam) (j : Nat) (h : p.name.offs ≤ j) (hj : j ≤ 65535) :
    p.extName j = { p with name := ⟨p.name.offs, j - p.name.offs⟩ } := by
  unfold PTokParam.extName PField.extendPanics
  have : decide (j < p.name.offs) = false := by simp; omega
  rw [extend_eq p.name j h hj, this, Bool.or_false]

theorem extAll_eq (p : PTokParam) (j : Nat) (h : p.all.offs ≤ j) (hj : j ≤ 65535) :
    p.extAll j = { p with all := ⟨p.all.offs, j - p.all.offs⟩ } := by
  unfold PTokParam.extAll PField.extendPanics
  have : decide (j < p.all.offs) = false := by simp; omega
  rw [extend_eq p.all j h hj, this, Bool.or_false]

theorem extVal_eq (p : PTokParam) (j : Nat) (h : p.val.offs ≤ j) (hj : j ≤ 65535) :
    p.extVal j = { p with val := ⟨p.val.offs, j - p.val.offs⟩ } := by
  unfold PTokParam.extVal PField.extendPanics
  have : decide (j < p.val.offs) = false := by simp; omega
  rw [extend_eq p.val j h hj, this, Bool.or_false]

theorem set_self (i : Nat) (hi : i ≤ 65535) : PField.set i i = ⟨i, 0⟩ := by
  rw [set_eq i i (Nat.le_refl _) hi, Nat.sub_self]

/-- a closing quote found by `SkipQuoted` lies inside the buffer -/
theorem skipQuoted_ok_le (b : Buf) (i : Nat) {n : Nat} (h : skipQuoted b i = (n, Err.ok)) : n ≤ b.size := by
  unfold skipQuoted at h
  have key : (runLoop sqMachine b i ()).2.1 = Err.ok → (runLoop sqMachine b i ()).1 ≤ b.size := by
    apply runLoop_inv sqMachine b (fun _ _ => True) (fun r => r.2.1 = Err.ok → r.1 ≤ b.size)
    · intro j c st j' st' hb hP hs
      exact ⟨fun _ => trivial, fun _ hh => by cases hh⟩
    · intro j c st o e st' hb hP hs he
      simp only at he; subst he
      have := get?_lt hb
      change sqStep b j c st = .done o .ok st' at hs
      unfold sqStep at hs
      repeat' (split at hs)
      all_goals first
        | (cases hs; simp only; omega)
        | cases hs
    · intro j st _ _ he; cases he
    · trivial
  rcases hr : runLoop sqMachine b i () with ⟨o, e, u⟩
  rw [hr] at h key
  simp only [Prod.mk.injEq] at h
  obtain ⟨rfl, rfl⟩ := h
  exact key rfl

theorem skipQuoted_ok_first (b : Buf) (i : Nat) {n : Nat} (h : skipQuoted b i = (n, Err.ok)) :
    ∃ c, b[i]? = some c := by
  cases hb : b[i]? with
  | some c => exact ⟨c, rfl⟩
  | none =>
    unfold skipQuoted at h
    rw [runLoop_none sqMachine () hb] at h
    simp only [sqMachine, Prod.mk.injEq] at h
    exact absurd h.2 (by decide)

/-! ### the phases of one parameter -/

section main
variable (flags offs : Nat) (b : Buf)

theorem tp_name_run {i j : Nat} (hij : i ≤ j) (hr : PRun b flags i j) (p : PTokParam) (hst : p.state = .name) :
    runLoop (tpMachine flags offs) b i p = runLoop (tpMachine flags offs) b j p := by
  induction hk : j - i generalizing i with
  | zero =>
    have : i = j := by omega
    subst this; rfl
  | succ k ih =>
    obtain ⟨c, hc, hp⟩ := hr i (Nat.le_refl _) (by omega)
    have hf := hp.facts
    have hstep : (tpMachine flags offs).step b i c p = .cont (i + 1) p :=
      tpStep_name_char hst hf.hl hf.h61 hf.ht hf.hs hp.1
    rw [runLoop_cont (tpMachine flags offs) hc hstep, if_pos (by omega)]
    exact ih (by omega) (fun k' h1 h2 => hr k' (by omega) h2) (by omega)

theorem tp_val_run {i j : Nat} (hij : i ≤ j) (hr : PRun b flags i j) (p : PTokParam) (hst : p.state = .val) :
    runLoop (tpMachine flags offs) b i p = runLoop (tpMachine flags offs) b j p := by
  induction hk : j - i generalizing i with
  | zero =>
    have : i = j := by omega
    subst this; rfl
  | succ k ih =>
    obtain ⟨c, hc, hp⟩ := hr i (Nat.le_refl _) (by omega)
    have hf := hp.facts
    have hstep : (tpMachine flags offs).step b i c p = .cont (i + 1) p :=
      tpStep_val_char hst hf.hl hf.ht hf.hs hp.1
    rw [runLoop_cont (tpMachine flags offs) hc hstep, if_pos (by omega)]
    exact ih (by omega) (fun k' h1 h2 => hr k' (by omega) h2) (by omega)

/-- a non-empty run of name / value bytes ends inside the buffer -/
theorem PRun.le_size {b : Buf} {flags i j : Nat} (hr : PRun b flags i j) (hij : i < j) : j ≤ b.size := by
  obtain ⟨c, hc, _⟩ := hr (j - 1) (by omega) (by omega)
  have := get?_lt hc
  omega

/-- **start of a parameter**: empty items and white space are skipped, the name starts at its first byte `n0`
    and the loop walks to its end `n1` -/
theorem tp_start {o t n0 n1 : Nat} (hfit : b.size ≤ 65535) (hp : Pad b (tpSep flags) o t) (hl : Lws b t n0)
    (hr : PRun b flags n0 n1) (hn : n0 < n1) (p : PTokParam) (hst : p.state = .init ∨ p.state = .initNxtVal) :
    runLoop (tpMachine flags offs) b o p =
      runLoop (tpMachine flags offs) b n1 { p with state := .name, name := ⟨n0, 0⟩, all := ⟨n0, 0⟩ } := by
  have hstart : p.state.isStart := by
    rcases hst with h | h
    · exact Or.inl h
    · exact Or.inr (Or.inl h)
  obtain ⟨c, hc, hpc⟩ := hr n0 (Nat.le_refl _) hn
  have hf := hpc.facts
  have hsz := hr.le_size hn
  have h1 : runLoop (tpMachine flags offs) b t p = runLoop (tpMachine flags offs) b n0 p := by
    by_cases hlt : t < n0
    · exact tp_lws_ok flags offs b hl hlt hc hf.hl p id (fun c hc => tpStep_start_lws hstart hc)
    · have := hl.le
      have : t = n0 := by omega
      subst this; rfl
  have hstep : (tpMachine flags offs).step b n0 c p =
      .cont (n0 + 1) { p with state := .name, name := ⟨n0, 0⟩, all := ⟨n0, 0⟩ } := by
    have := tpStep_init_char (flags := flags) (offs := offs) (b := b) (i := n0) hst hf.hl hf.hs hpc.1
    rw [set_self n0 (by omega)] at this
    exact this
  rw [tp_pad flags offs b hp p hstart, h1, runLoop_cont (tpMachine flags offs) hc hstep, if_pos (by omega)]
  exact tp_name_run flags offs b (by omega) (fun k h1 h2 => hr k (by omega) h2) _ rfl

/-- **end of a parameter after its name** (no value) -/
theorem tp_name_ending {j o : Nat} {e : Err} {st : TPState} (p : PTokParam) (hst : p.state = .name)
    (h1 : p.name.offs ≤ j) (h2 : p.all.offs ≤ j) (hj : j ≤ 65535) (H : Ending b flags j o e st) :
    runLoop (tpMachine flags offs) b j p =
      (o, e, { p with name := ⟨p.name.offs, j - p.name.offs⟩, all := ⟨p.all.offs, j - p.all.offs⟩, state := st }) := by
  have hfs := sep_facts flags
  have hobj : (p.extName j).extAll j =
      { p with name := ⟨p.name.offs, j - p.name.offs⟩, all := ⟨p.all.offs, j - p.all.offs⟩ } := by
    rw [extAll_eq (p.extName j) j (by exact h2) hj, extName_eq p j h1 hj]
  have := tp_ending flags offs b j p (fun p => { (p.extName j).extAll j with state := .fEq }) (Or.inl rfl)
    (fun c hc => tpStep_name_lws hst hc)
    (tpStep_name_sep hst hfs.hl hfs.h61 hfs.ht hfs.hs)
    (fun hne => tpStep_name_term hst (term_facts flags hne).hl (term_facts flags hne).h61 (term_facts flags hne).ht)
    (by
      intro hf
      unfold tpMoreBytes
      rw [if_pos hf]
      simp only [hst]
      rw [tpEOH_open (p := (p.extName j).extAll j) (Or.inr (Or.inl hst)),
        tpEOH_open (p := { (p.extName j).extAll j with state := .fEq }) (Or.inr (Or.inr (Or.inl rfl)))])
    H
  rw [this]
  simp only [hobj]

/-- **end of a parameter after a token value** -/
theorem tp_val_ending {j o : Nat} {e : Err} {st : TPState} (p : PTokParam) (hst : p.state = .val)
    (h1 : p.val.offs ≤ j) (h2 : p.all.offs ≤ j) (hj : j ≤ 65535) (H : Ending b flags j o e st) :
    runLoop (tpMachine flags offs) b j p =
      (o, e, { p with val := ⟨p.val.offs, j - p.val.offs⟩, all := ⟨p.all.offs, j - p.all.offs⟩, state := st }) := by
  have hfs := sep_facts flags
  have hobj : (p.extVal j).extAll j =
      { p with val := ⟨p.val.offs, j - p.val.offs⟩, all := ⟨p.all.offs, j - p.all.offs⟩ } := by
    rw [extAll_eq (p.extVal j) j (by exact h2) hj, extVal_eq p j h1 hj]
  have := tp_ending flags offs b j p (fun p => { (p.extVal j).extAll j with state := .fSep }) (Or.inr rfl)
    (fun c hc => tpStep_val_lws hst hc)
    (tpStep_val_sep hst hfs.hl hfs.ht hfs.hs)
    (fun hne => tpStep_val_term hst (term_facts flags hne).hl (term_facts flags hne).ht)
    (by
      intro hf
      unfold tpMoreBytes
      rw [if_pos hf]
      simp only [hst]
      rw [tpEOH_open (p := (p.extVal j).extAll j) (Or.inr (Or.inr (Or.inr (Or.inr (Or.inl hst))))),
        tpEOH_open (p := { (p.extVal j).extAll j with state := .fSep })
          (Or.inr (Or.inr (Or.inr (Or.inr (Or.inr rfl)))))])
    H
  rw [this]
  simp only [hobj]

/-- **end of a parameter in the state after a complete value** (a quoted string) -/
theorem tp_fSep_ending {j o : Nat} {e : Err} {st : TPState} (p : PTokParam) (hst : p.state = .fSep)
    (H : Ending b flags j o e st) :
    runLoop (tpMachine flags offs) b j p = (o, e, { p with state := st }) :=
  tp_ending flags offs b j p id (Or.inr hst) (fun _ hc => tpStep_fSep_lws hst hc)
    (tpStep_closed_sep flags offs b (Or.inr hst)) (fun hne => tpStep_closed_term flags offs b (Or.inr hst) hne)
    (fun hf => tpMoreBytes_end_id flags b hf (Or.inr (Or.inl hst)) j) H

theorem parseTokenParam_run (o : Nat) (p : PTokParam) (hst : p.state ≠ .fin) :
    parseTokenParam b o p flags = runLoop (tpMachine flags o) b o p := by
  unfold parseTokenParam; rw [if_neg hst]

/-- **a parameter without a value**: `name` then one of the endings -/
theorem parseTokenParam_no_value {o t n0 n1 o' : Nat} {e : Err} {st : TPState} (hfit : b.size ≤ 65535)
    (p : PTokParam) (hst : p.state = .init) (hpad : Pad b (tpSep flags) o t) (hl : Lws b t n0)
    (hr : PRun b flags n0 n1) (hn : n0 < n1) (H : Ending b flags n1 o' e st) :
    parseTokenParam b o p flags =
      (o', e, { p with name := ⟨n0, n1 - n0⟩, all := ⟨n0, n1 - n0⟩, state := st }) := by
  have hsz := hr.le_size hn
  rw [parseTokenParam_run flags b o p (by rw [hst]; decide),
    tp_start flags o b hfit hpad hl hr hn p (Or.inl hst),
    tp_name_ending flags o b _ rfl (by show n0 ≤ n1; omega) (by show n0 ≤ n1; omega) (by omega) H]

/-- **from the end of the name over `=`**: optional white space, the `=` at `q`; `all` then ends after the `=`
    when it follows the name directly, and at the end of the name otherwise -/
theorem tp_name_eq {n1 q : Nat} (p : PTokParam) (hst : p.state = .name) (h1 : p.name.offs ≤ n1)
    (h2 : p.all.offs ≤ n1) (hq : q + 1 ≤ 65535) (hl : Lws b n1 q) (h61 : b[q]? = some 61) :
    runLoop (tpMachine flags offs) b n1 p =
      runLoop (tpMachine flags offs) b (q + 1)
        { p with name := ⟨p.name.offs, n1 - p.name.offs⟩,
                 all := ⟨p.all.offs, (if n1 = q then q + 1 else n1) - p.all.offs⟩, state := .fVal } := by
  have hle := hl.le
  by_cases hlt : n1 < q
  · rw [tp_lws_ok flags offs b hl hlt h61 (by decide) p _ (fun c hc => tpStep_name_lws hst hc)]
    have hstep : (tpMachine flags offs).step b q 61 { (p.extName n1).extAll n1 with state := .fEq } =
        .cont (q + 1) { (p.extName n1).extAll n1 with state := .fVal } := by
      exact tpStep_fEq_eq (flags := flags) (offs := offs) (b := b) (i := q) (c := 61)
        (p := { (p.extName n1).extAll n1 with state := .fEq }) rfl (by decide) (by decide)
    rw [runLoop_cont (tpMachine flags offs) h61 hstep, if_pos (by omega), if_neg (by omega),
      extAll_eq (p.extName n1) n1 (by exact h2) (by omega), extName_eq p n1 h1 (by omega)]
  · have : n1 = q := by omega
    subst this
    have hstep : (tpMachine flags offs).step b n1 61 p =
        .cont (n1 + 1) { (p.extName n1).extAll (n1 + 1) with state := .fVal } :=
      tpStep_name_eq hst (by decide) (by decide)
    rw [runLoop_cont (tpMachine flags offs) h61 hstep, if_pos (by omega), if_pos rfl,
      extAll_eq (p.extName n1) (n1 + 1) (by show p.all.offs ≤ n1 + 1; omega) (by omega),
      extName_eq p n1 h1 (by omega)]

/-- white space after `=` -/
theorem tp_fVal_lws {i v0 : Nat} {c : UInt8} (hl : Lws b i v0) (hc : b[v0]? = some c) (hcl : isLWSch c = false)
    (p : PTokParam) (hst : p.state = .fVal) :
    runLoop (tpMachine flags offs) b i p = runLoop (tpMachine flags offs) b v0 p := by
  by_cases hlt : i < v0
  · exact tp_lws_ok flags offs b hl hlt hc hcl p id (fun c hc => tpStep_fVal_lws hst hc)
  · have := hl.le
    have : i = v0 := by omega
    subst this; rfl

/-- **a token value** `[v0, v1)` and the end of the parameter -/
theorem tp_token_val {v0 v1 o : Nat} {e : Err} {st : TPState} (p : PTokParam) (hst : p.state = .fVal)
    (ha : p.all.offs ≤ v0) (hr : PRun b flags v0 v1) (hv : v0 < v1) (hv1 : v1 ≤ 65535)
    (H : Ending b flags v1 o e st) :
    runLoop (tpMachine flags offs) b v0 p =
      (o, e, { p with val := ⟨v0, v1 - v0⟩, all := ⟨p.all.offs, v1 - p.all.offs⟩, state := st }) := by
  obtain ⟨c, hc, hpc⟩ := hr v0 (Nat.le_refl _) hv
  have hf := hpc.facts
  have hstep : (tpMachine flags offs).step b v0 c p =
      .cont (v0 + 1) { p with val := ⟨v0, 0⟩, all := ⟨p.all.offs, v0 - p.all.offs⟩, state := .val } := by
    have := tpStep_fVal_char (flags := flags) (offs := offs) (b := b) (i := v0) hst hf.hl hf.h34 hf.ht hf.hs hpc.1
    rw [set_self v0 (by omega), extAll_eq _ v0 (by exact ha) (by omega)] at this
    exact this
  rw [runLoop_cont (tpMachine flags offs) hc hstep, if_pos (by omega),
    tp_val_run flags offs b (by omega) (fun k h1 h2 => hr k (by omega) h2) _ rfl,
    tp_val_ending flags offs b _ rfl (by show v0 ≤ v1; omega) (by show p.all.offs ≤ v1; omega) hv1 H]

/-- **a quoted value**: the opening quote at `v0`, `SkipQuoted` finds the end `qe` (after the closing quote) -/
theorem tp_quoted_val {v0 qe o : Nat} {e : Err} {st : TPState} (hfit : b.size ≤ 65535) (p : PTokParam)
    (hst : p.state = .fVal) (ha : p.all.offs ≤ v0) (h34 : b[v0]? = some 34)
    (hq : skipQuoted b (v0 + 1) = (qe, .ok)) (H : Ending b flags qe o e st) :
    runLoop (tpMachine flags offs) b v0 p =
      (o, e, { p with val := ⟨v0, qe - v0⟩, all := ⟨p.all.offs, qe - p.all.offs⟩, state := st }) := by
  have hgt := skipQuoted_ok_gt b (v0 + 1) hq
  have hle := skipQuoted_ok_le b (v0 + 1) hq
  obtain ⟨c1, hc1⟩ := skipQuoted_ok_first b (v0 + 1) hq
  have hstep : (tpMachine flags offs).step b v0 34 p =
      .cont (v0 + 1) { p with val := ⟨v0, 0⟩, all := ⟨p.all.offs, v0 - p.all.offs⟩, state := .quotedVal } := by
    have := tpStep_fVal_quote (flags := flags) (offs := offs) (b := b) (i := v0) (c := 34) hst (by decide) (by decide)
    rw [set_self v0 (by omega), extAll_eq _ v0 (by exact ha) (by omega)] at this
    exact this
  have hstep2 : (tpMachine flags offs).step b (v0 + 1) c1
      { p with val := ⟨v0, 0⟩, all := ⟨p.all.offs, v0 - p.all.offs⟩, state := .quotedVal } =
      .cont qe { p with val := ⟨v0, qe - v0⟩, all := ⟨p.all.offs, qe - p.all.offs⟩, state := .fSep } := by
    have := tpStep_quoted_ok (flags := flags) (offs := offs) (c := c1)
      (p := { p with val := ⟨v0, 0⟩, all := ⟨p.all.offs, v0 - p.all.offs⟩, state := .quotedVal }) rfl hq
    rw [extAll_eq _ qe (by show p.all.offs ≤ qe; omega) (by omega),
      extVal_eq _ qe (by show v0 ≤ qe; omega) (by omega)] at this
    exact this
  rw [runLoop_cont (tpMachine flags offs) h34 hstep, if_pos (by omega),
    runLoop_cont (tpMachine flags offs) hc1 hstep2, if_pos hgt,
    tp_fSep_ending flags offs b _ rfl H]

/-- **an empty value** followed by the separator at `s` -/
theorem tp_empty_sep {s o : Nat} {e : Err} {st : TPState} (hfit : b.size ≤ 65535) (p : PTokParam)
    (hst : p.state = .fVal) (ha : p.all.offs ≤ s) (hs : b[s]? = some (tpSep flags))
    (H : AfterSep b flags (s + 1) o e st) :
    runLoop (tpMachine flags offs) b s p =
      (o, e, { p with val := ⟨s, 0⟩, all := ⟨p.all.offs, s - p.all.offs⟩, state := st }) := by
  have hf := sep_facts flags
  have hlt := get?_lt hs
  have hstep : (tpMachine flags offs).step b s (tpSep flags) p =
      .cont (s + 1) { p with val := ⟨s, 0⟩, all := ⟨p.all.offs, s - p.all.offs⟩, state := .fNxt } := by
    have := tpStep_fVal_sep (flags := flags) (offs := offs) (b := b) (i := s) hst hf.hl hf.h34 hf.ht hf.hs
    rw [set_self s (by omega), extAll_eq _ s (by exact ha) (by omega)] at this
    exact this
  rw [runLoop_cont (tpMachine flags offs) hs hstep, if_pos (by omega), tp_afterSep flags offs b H _ rfl]

/-- **an empty value** followed by the terminator at `t` -/
theorem tp_empty_term {t : Nat} (hfit : b.size ≤ 65535) (p : PTokParam) (hst : p.state = .fVal)
    (ht : b[t]? = some (tpTerm flags)) (hne : tpTerm flags ≠ 0) :
    runLoop (tpMachine flags offs) b t p = (t, .ok, { p with val := ⟨t, 0⟩, state := .fin }) := by
  have hf := term_facts flags hne
  have hlt := get?_lt ht
  have hstep : (tpMachine flags offs).step b t (tpTerm flags) p =
      .done t .ok { p with val := ⟨t, 0⟩, state := .fin } := by
    have := tpStep_fVal_term (flags := flags) (offs := offs) (b := b) (i := t) hst hf.hl hf.h34 hf.ht
    rw [set_self t (by omega)] at this
    exact this
  rw [runLoop_done (tpMachine flags offs) ht hstep]

/-- **no value after `=`** before the end of the header: the value field is left as it was -/
theorem tp_empty_eoh {i q e : Nat} {c2 : UInt8} (p : PTokParam) (hst : p.state = .fVal) (hl : Lws b i q)
    (he : Eol b q e) (h2 : b[e]? = some c2) (hw2 : isWS c2 = false) :
    runLoop (tpMachine flags offs) b i p = (e, .eoh, { p with state := .fin }) := by
  rw [tp_lws_eoh flags offs b hl he h2 hw2 p id (fun c hc => tpStep_fVal_lws hst hc)]
  show tpEOH p q (e - q) = _
  rw [tpEOH_open (Or.inr (Or.inr (Or.inr (Or.inl hst))))]
  have := he.gt
  have : q + (e - q) = e := by omega
  rw [this]

/-- **no value after `=`** before the end of the input (end-of-input option) -/
theorem tp_empty_end {i q : Nat} (p : PTokParam) (hst : p.state = .fVal) (hf : hasFlag flags POptInputEndF = true)
    (hl : Lws b i q) (he : EndTail b q) :
    runLoop (tpMachine flags offs) b i p = (b.size, .eoh, { p with state := .fin }) := by
  rw [tp_lws_end flags offs b hl he hf p id (fun c hc => tpStep_fVal_lws hst hc)
    (tpMoreBytes_end_id flags b hf (Or.inr (Or.inr (Or.inl hst))) i)]
  show tpEOH p b.size 0 = _
  rw [tpEOH_open (Or.inr (Or.inr (Or.inr (Or.inl hst))))]; rfl

/-- the object after `name [LWS] =` -/
def afterEq (p : PTokParam) (n0 n1 q : Nat) : PTokParam :=
  { p with name := ⟨n0, n1 - n0⟩, all := ⟨n0, (if n1 = q then q + 1 else n1) - n0⟩, state := .fVal }

/-- **from the start of the call over `name [LWS] =`** -/
theorem tp_head_eq {o t n0 n1 q : Nat} (hfit : b.size ≤ 65535) (p : PTokParam)
    (hst : p.state = .init ∨ p.state = .initNxtVal) (hpad : Pad b (tpSep flags) o t) (hl : Lws b t n0)
    (hr : PRun b flags n0 n1) (hn : n0 < n1) (hlq : Lws b n1 q) (h61 : b[q]? = some 61) :
    runLoop (tpMachine flags offs) b o p = runLoop (tpMachine flags offs) b (q + 1) (afterEq p n0 n1 q) := by
  have hsz := hr.le_size hn
  have hq := get?_lt h61
  rw [tp_start flags offs b hfit hpad hl hr hn p hst,
    tp_name_eq flags offs b _ rfl (by show n0 ≤ n1; omega) (by show n0 ≤ n1; omega) (by omega) hlq h61]
  rfl

/-- **`name = token`** with optional linear white space around the name, the `=` and the value -/
theorem parseTokenParam_token_value {o t n0 n1 q v0 v1 o' : Nat} {e : Err} {st : TPState} (hfit : b.size ≤ 65535)
    (p : PTokParam) (hst : p.state = .init) (hpad : Pad b (tpSep flags) o t) (hl : Lws b t n0)
    (hr : PRun b flags n0 n1) (hn : n0 < n1) (hlq : Lws b n1 q) (h61 : b[q]? = some 61)
    (hlv : Lws b (q + 1) v0) (hrv : PRun b flags v0 v1) (hv : v0 < v1) (H : Ending b flags v1 o' e st) :
    parseTokenParam b o p flags =
      (o', e, { p with name := ⟨n0, n1 - n0⟩, val := ⟨v0, v1 - v0⟩, all := ⟨n0, v1 - n0⟩, state := st }) := by
  have hsz := hrv.le_size hv
  have h1 := hlq.le
  have h2 := hlv.le
  obtain ⟨c, hc, hpc⟩ := hrv v0 (Nat.le_refl _) hv
  rw [parseTokenParam_run flags b o p (by rw [hst]; decide),
    tp_head_eq flags o b hfit p (Or.inl hst) hpad hl hr hn hlq h61,
    tp_fVal_lws flags o b hlv hc hpc.facts.hl _ rfl,
    tp_token_val flags o b _ rfl (by show n0 ≤ v0; omega) hrv hv (by omega) H]
  rfl

/-- **`name = "quoted"`**: the value is the quoted string found by `SkipQuoted`, quotes included -/
theorem parseTokenParam_quoted_value {o t n0 n1 q v0 qe o' : Nat} {e : Err} {st : TPState} (hfit : b.size ≤ 65535)
    (p : PTokParam) (hst : p.state = .init) (hpad : Pad b (tpSep flags) o t) (hl : Lws b t n0)
    (hr : PRun b flags n0 n1) (hn : n0 < n1) (hlq : Lws b n1 q) (h61 : b[q]? = some 61)
    (hlv : Lws b (q + 1) v0) (h34 : b[v0]? = some 34) (hq : skipQuoted b (v0 + 1) = (qe, .ok))
    (H : Ending b flags qe o' e st) :
    parseTokenParam b o p flags =
      (o', e, { p with name := ⟨n0, n1 - n0⟩, val := ⟨v0, qe - v0⟩, all := ⟨n0, qe - n0⟩, state := st }) := by
  have h1 := hlq.le
  have h2 := hlv.le
  rw [parseTokenParam_run flags b o p (by rw [hst]; decide),
    tp_head_eq flags o b hfit p (Or.inl hst) hpad hl hr hn hlq h61,
    tp_fVal_lws flags o b hlv h34 (by decide) _ rfl,
    tp_quoted_val flags o b hfit _ rfl (by show n0 ≤ v0; omega) h34 hq H]
  rfl

/-- **`name =` and the separator**: an empty value at the separator -/
theorem parseTokenParam_empty_value_sep {o t n0 n1 q s o' : Nat} {e : Err} {st : TPState} (hfit : b.size ≤ 65535)
    (p : PTokParam) (hst : p.state = .init) (hpad : Pad b (tpSep flags) o t) (hl : Lws b t n0)
    (hr : PRun b flags n0 n1) (hn : n0 < n1) (hlq : Lws b n1 q) (h61 : b[q]? = some 61)
    (hlv : Lws b (q + 1) s) (hs : b[s]? = some (tpSep flags)) (H : AfterSep b flags (s + 1) o' e st) :
    parseTokenParam b o p flags =
      (o', e, { p with name := ⟨n0, n1 - n0⟩, val := ⟨s, 0⟩, all := ⟨n0, s - n0⟩, state := st }) := by
  have h1 := hlq.le
  have h2 := hlv.le
  rw [parseTokenParam_run flags b o p (by rw [hst]; decide),
    tp_head_eq flags o b hfit p (Or.inl hst) hpad hl hr hn hlq h61,
    tp_fVal_lws flags o b hlv hs (sep_facts flags).hl _ rfl,
    tp_empty_sep flags o b hfit _ rfl (by show n0 ≤ s; omega) hs H]
  rfl

/-- **`name =` and the terminator**: an empty value at the terminator; `all` is what `afterEq` left -/
theorem parseTokenParam_empty_value_term {o t n0 n1 q u : Nat} (hfit : b.size ≤ 65535)
    (p : PTokParam) (hst : p.state = .init) (hpad : Pad b (tpSep flags) o t) (hl : Lws b t n0)
    (hr : PRun b flags n0 n1) (hn : n0 < n1) (hlq : Lws b n1 q) (h61 : b[q]? = some 61)
    (hlv : Lws b (q + 1) u) (hu : b[u]? = some (tpTerm flags)) (hne : tpTerm flags ≠ 0) :
    parseTokenParam b o p flags =
      (u, .ok, { p with name := ⟨n0, n1 - n0⟩, val := ⟨u, 0⟩,
                        all := ⟨n0, (if n1 = q then q + 1 else n1) - n0⟩, state := .fin }) := by
  rw [parseTokenParam_run flags b o p (by rw [hst]; decide),
    tp_head_eq flags o b hfit p (Or.inl hst) hpad hl hr hn hlq h61,
    tp_fVal_lws flags o b hlv hu (term_facts flags hne).hl _ rfl,
    tp_empty_term flags o b hfit _ rfl hu hne]
  rfl

/-- **`name =` and the end of the header**: no value is recorded -/
theorem parseTokenParam_empty_value_eoh {o t n0 n1 q x e : Nat} {c2 : UInt8} (hfit : b.size ≤ 65535)
    (p : PTokParam) (hst : p.state = .init) (hpad : Pad b (tpSep flags) o t) (hl : Lws b t n0)
    (hr : PRun b flags n0 n1) (hn : n0 < n1) (hlq : Lws b n1 q) (h61 : b[q]? = some 61)
    (hlv : Lws b (q + 1) x) (he : Eol b x e) (h2 : b[e]? = some c2) (hw2 : isWS c2 = false) :
    parseTokenParam b o p flags =
      (e, .eoh, { p with name := ⟨n0, n1 - n0⟩,
                         all := ⟨n0, (if n1 = q then q + 1 else n1) - n0⟩, state := .fin }) := by
  rw [parseTokenParam_run flags b o p (by rw [hst]; decide),
    tp_head_eq flags o b hfit p (Or.inl hst) hpad hl hr hn hlq h61,
    tp_empty_eoh flags o b _ rfl hlv he h2 hw2]
  rfl

/-- **`name =` and the end of the input** (end-of-input option): no value is recorded -/
theorem parseTokenParam_empty_value_end {o t n0 n1 q x : Nat} (hfit : b.size ≤ 65535)
    (p : PTokParam) (hst : p.state = .init) (hpad : Pad b (tpSep flags) o t) (hl : Lws b t n0)
    (hr : PRun b flags n0 n1) (hn : n0 < n1) (hlq : Lws b n1 q) (h61 : b[q]? = some 61)
    (hf : hasFlag flags POptInputEndF = true) (hlv : Lws b (q + 1) x) (he : EndTail b x) :
    parseTokenParam b o p flags =
      (b.size, .eoh, { p with name := ⟨n0, n1 - n0⟩,
                              all := ⟨n0, (if n1 = q then q + 1 else n1) - n0⟩, state := .fin }) := by
  rw [parseTokenParam_run flags b o p (by rw [hst]; decide),
    tp_head_eq flags o b hfit p (Or.inl hst) hpad hl hr hn hlq h61,
    tp_empty_end flags o b _ rfl hf hlv he]
  rfl

/-! ### rejection -/

/-- a byte that is neither allowed in a name / token value nor has a role of its own: not white space or a line
    end, not the separator, not the (configured) terminator -/
def BadCh (flags : Nat) (c : UInt8) : Prop :=
  tokAllowedChar c flags = false ∧ isLWSch c = false ∧ c ≠ tpSep flags ∧ (c = tpTerm flags → tpTerm flags = 0)

theorem BadCh.ht {flags : Nat} {c : UInt8} (h : BadCh flags c) :
    (c == tpTerm flags && tpTerm flags != 0) = false := by
  obtain ⟨_, _, _, h4⟩ := h
  cases hc : c == tpTerm flags with
  | false => rfl
  | true =>
    rw [beq_iff_eq] at hc
    rw [h4 hc]; rfl

theorem BadCh.hs {flags : Nat} {c : UInt8} (h : BadCh flags c) : (c == tpSep flags) = false := by
  simpa using h.2.2.1

/-- a byte that cannot start a parameter is rejected where it stands -/
theorem parseTokenParam_bad_start {o t n0 : Nat} {c : UInt8} (p : PTokParam) (hst : p.state = .init)
    (hpad : Pad b (tpSep flags) o t) (hl : Lws b t n0) (hc : b[n0]? = some c)
    (ha : tokAllowedChar c flags = false) (hcl : isLWSch c = false) (hcs : c ≠ tpSep flags) :
    parseTokenParam b o p flags = (n0, .badChar, { p with state := .err }) := by
  have hstart : p.state.isStart := Or.inl hst
  have h1 : runLoop (tpMachine flags o) b t p = runLoop (tpMachine flags o) b n0 p := by
    by_cases hlt : t < n0
    · exact tp_lws_ok flags o b hl hlt hc hcl p id (fun c hc => tpStep_start_lws hstart hc)
    · have := hl.le
      have : t = n0 := by omega
      subst this; rfl
  have hstep : (tpMachine flags o).step b n0 c p = .done n0 .badChar { p with state := .err } :=
    tpStep_start_bad (Or.inl hst) hcl (by simpa using hcs) ha
  rw [parseTokenParam_run flags b o p (by rw [hst]; decide), tp_pad flags o b hpad p hstart, h1,
    runLoop_done (tpMachine flags o) hc hstep]

/-- a bad byte inside or right after a name is rejected at its position (`=` is not bad there) -/
theorem parseTokenParam_bad_name {o t n0 j : Nat} {c : UInt8} (hfit : b.size ≤ 65535) (p : PTokParam)
    (hst : p.state = .init) (hpad : Pad b (tpSep flags) o t) (hl : Lws b t n0) (hr : PRun b flags n0 j)
    (hn : n0 < j) (hc : b[j]? = some c) (hbad : BadCh flags c) (h61 : c ≠ 61) :
    parseTokenParam b o p flags =
      (j, .badChar, { p with name := ⟨n0, 0⟩, all := ⟨n0, 0⟩, state := .err }) := by
  have hstep : (tpMachine flags o).step b j c { p with state := .name, name := ⟨n0, 0⟩, all := ⟨n0, 0⟩ } =
      .done j .badChar { p with name := ⟨n0, 0⟩, all := ⟨n0, 0⟩, state := .err } := by
    exact tpStep_name_bad (offs := o) (p := { p with state := .name, name := ⟨n0, 0⟩, all := ⟨n0, 0⟩ }) rfl hbad.2.1
      (by simpa using h61) hbad.ht hbad.hs hbad.1
  rw [parseTokenParam_run flags b o p (by rw [hst]; decide),
    tp_start flags o b hfit hpad hl hr hn p (Or.inl hst), runLoop_done (tpMachine flags o) hc hstep]

/-- a bad byte where a value should start is rejected at its position (`"` is not bad there) -/
theorem parseTokenParam_bad_value_start {o t n0 n1 q v0 : Nat} {c : UInt8} (hfit : b.size ≤ 65535)
    (p : PTokParam) (hst : p.state = .init) (hpad : Pad b (tpSep flags) o t) (hl : Lws b t n0)
    (hr : PRun b flags n0 n1) (hn : n0 < n1) (hlq : Lws b n1 q) (h61 : b[q]? = some 61)
    (hlv : Lws b (q + 1) v0) (hc : b[v0]? = some c) (hbad : BadCh flags c) (h34 : c ≠ 34) :
    parseTokenParam b o p flags =
      (v0, .badChar, { p with name := ⟨n0, n1 - n0⟩, all := ⟨n0, (if n1 = q then q + 1 else n1) - n0⟩,
                              state := .err }) := by
  have hstep : (tpMachine flags o).step b v0 c (afterEq p n0 n1 q) =
      .done v0 .badChar { afterEq p n0 n1 q with state := .err } := by
    exact tpStep_fVal_bad (offs := o) (p := afterEq p n0 n1 q) rfl hbad.2.1 (by simpa using h34) hbad.ht hbad.hs hbad.1
  rw [parseTokenParam_run flags b o p (by rw [hst]; decide),
    tp_head_eq flags o b hfit p (Or.inl hst) hpad hl hr hn hlq h61,
    tp_fVal_lws flags o b hlv hc hbad.2.1 _ rfl, runLoop_done (tpMachine flags o) hc hstep]
  rfl

/-- a bad byte inside or right after a token value is rejected at its position -/
theorem parseTokenParam_bad_value {o t n0 n1 q v0 j : Nat} {c : UInt8} (hfit : b.size ≤ 65535)
    (p : PTokParam) (hst : p.state = .init) (hpad : Pad b (tpSep flags) o t) (hl : Lws b t n0)
    (hr : PRun b flags n0 n1) (hn : n0 < n1) (hlq : Lws b n1 q) (h61 : b[q]? = some 61)
    (hlv : Lws b (q + 1) v0) (hrv : PRun b flags v0 j) (hv : v0 < j) (hc : b[j]? = some c)
    (hbad : BadCh flags c) :
    parseTokenParam b o p flags =
      (j, .badChar, { p with name := ⟨n0, n1 - n0⟩, val := ⟨v0, 0⟩, all := ⟨n0, v0 - n0⟩, state := .err }) := by
  have hsz := hrv.le_size hv
  have h1 := hlq.le
  have h2 := hlv.le
  obtain ⟨c0, hc0, hpc⟩ := hrv v0 (Nat.le_refl _) hv
  have hf := hpc.facts
  have hstep0 : (tpMachine flags o).step b v0 c0 (afterEq p n0 n1 q) =
      .cont (v0 + 1) { p with name := ⟨n0, n1 - n0⟩, val := ⟨v0, 0⟩, all := ⟨n0, v0 - n0⟩, state := .val } := by
    have := tpStep_fVal_char (flags := flags) (offs := o) (b := b) (i := v0) (p := afterEq p n0 n1 q) rfl
      hf.hl hf.h34 hf.ht hf.hs hpc.1
    rw [set_self v0 (by omega), extAll_eq _ v0 (by show n0 ≤ v0; omega) (by omega)] at this
    exact this
  have hstep : (tpMachine flags o).step b j c
      { p with name := ⟨n0, n1 - n0⟩, val := ⟨v0, 0⟩, all := ⟨n0, v0 - n0⟩, state := .val } =
      .done j .badChar { p with name := ⟨n0, n1 - n0⟩, val := ⟨v0, 0⟩, all := ⟨n0, v0 - n0⟩, state := .err } := by
    exact tpStep_val_bad (offs := o) (p := { p with name := ⟨n0, n1 - n0⟩, val := ⟨v0, 0⟩, all := ⟨n0, v0 - n0⟩, state := .val })
      rfl hbad.2.1 hbad.ht hbad.hs hbad.1
  rw [parseTokenParam_run flags b o p (by rw [hst]; decide),
    tp_head_eq flags o b hfit p (Or.inl hst) hpad hl hr hn hlq h61,
    tp_fVal_lws flags o b hlv hc0 hf.hl _ rfl,
    runLoop_cont (tpMachine flags o) hc0 hstep0, if_pos (by omega),
    tp_val_run flags o b (by omega) (fun k h1 h2 => hrv k (by omega) h2) _ rfl,
    runLoop_done (tpMachine flags o) hc hstep]

end main

/-! ### the option flags: which separator, which terminator, which bytes -/

theorem hasFlag_or (f a c : Nat) : hasFlag f (a ||| c) = (hasFlag f a || hasFlag f c) := by
  unfold hasFlag
  rw [Nat.and_or_distrib_left]
  cases h1 : (f &&& a) != 0 <;> cases h2 : (f &&& c) != 0 <;> simp_all

theorem tpSep_semi {flags : Nat} (h1 : hasFlag flags POptParamAmpSepF = false)
    (h2 : hasFlag flags POptTokURIHdrF = false) : tpSep flags = 59 := by
  unfold tpSep; rw [hasFlag_or, h1, h2]; rfl

theorem tpSep_amp {flags : Nat} (h : hasFlag flags POptParamAmpSepF = true ∨ hasFlag flags POptTokURIHdrF = true) :
    tpSep flags = 38 := by
  unfold tpSep; rw [hasFlag_or]
  rcases h with h | h <;> simp [h]

theorem tpTerm_qm {flags : Nat} (h : hasFlag flags POptTokQmTermF = true ∨ hasFlag flags POptTokURIParamF = true) :
    tpTerm flags = 63 := by
  unfold tpTerm; rw [hasFlag_or]
  rcases h with h | h <;> simp [h]

theorem tpTerm_comma {flags : Nat} (h1 : hasFlag flags POptTokQmTermF = false)
    (h2 : hasFlag flags POptTokURIParamF = false) (h3 : hasFlag flags POptTokCommaTermF = true) :
    tpTerm flags = 44 := by
  unfold tpTerm; rw [hasFlag_or, h1, h2, h3]; rfl

theorem tpTerm_none {flags : Nat} (h1 : hasFlag flags POptTokQmTermF = false)
    (h2 : hasFlag flags POptTokURIParamF = false) (h3 : hasFlag flags POptTokCommaTermF = false) :
    tpTerm flags = 0 := by
  unfold tpTerm; rw [hasFlag_or, h1, h2, h3]; rfl

/-- the documented character set of names and token values: letters, digits, the marks `-_.!~*'()`, `%`,
    `[]/:+$`, plus `&` in URI-parameter mode (`u = true`) and `?` otherwise -/
def docAllowed (c : UInt8) (u : Bool) : Bool :=
  ("abcdefghijklmnopqrstuvwxyzABCDEFGHIJKLMNOPQRSTUVWXYZ0123456789-_.!~*'()%[]/:+$".toUTF8.data.contains c) ||
  (u && c == 38) || (!u && c == 63)

/-- `tokAllowedChar` with the only flag it looks at made explicit -/
def tokAllowedB (c : UInt8) (u : Bool) : Bool :=
  if c ≤ 32 || c ≥ 127 then false
  else if (48 ≤ c && c ≤ 57) || (65 ≤ c && c ≤ 90) || (97 ≤ c && c ≤ 122) then true
  else if c == 45 || c == 95 || c == 46 || c == 33 || c == 126 || c == 42 || c == 39 ||
          c == 40 || c == 41 || c == 37 then true
  else if c == 91 || c == 93 || c == 47 || c == 58 || c == 43 || c == 36 then true
  else if c == 38 then u
  else if c == 63 then !u
  else false

/-- exhaustive check over the 256 byte values and the two modes -/
theorem tokAllowedB_doc : ∀ (i : Fin 256) (u : Bool),
    tokAllowedB (UInt8.ofNat i.val) u = docAllowed (UInt8.ofNat i.val) u := by
  decide +kernel

/-- **the allowed bytes are exactly the documented ones**, for every byte and every option word -/
theorem tokAllowedChar_doc (c : UInt8) (flags : Nat) :
    tokAllowedChar c flags = docAllowed c (hasFlag flags POptTokURIParamF) := by
  have h := tokAllowedB_doc ⟨c.toNat, UInt8.toNat_lt c⟩ (hasFlag flags POptTokURIParamF)
  simp only [UInt8.ofNat_toNat] at h
  exact h

/-! ### quoted strings -/

/-- a byte that may stand unescaped inside a quoted string -/
def QPlain (c : UInt8) : Prop :=
  c ≠ 34 ∧ c ≠ 92 ∧ c ≠ 10 ∧ c ≠ 13 ∧ c ≠ 127 ∧ (c < 33 → c = 32 ∨ c = 9)

/-- the rest of a quoted string from `i` (after the opening quote) to `e` (after the closing quote): plain
    bytes and escape pairs `\x` (x not CR / LF), then the closing quote -/
inductive QBody (b : Buf) : Nat → Nat → Prop
  | close (i : Nat) : b[i]? = some 34 → QBody b i (i + 1)
  | plain (i e : Nat) (c : UInt8) : b[i]? = some c → QPlain c → QBody b (i + 1) e → QBody b i e
  | esc (i e : Nat) (c1 : UInt8) : b[i]? = some 92 → b[i + 1]? = some c1 → isCRLFch c1 = false →
      QBody b (i + 2) e → QBody b i e

theorem sqStep_plain {b : Buf} {i : Nat} {c : UInt8} (h : QPlain c) : sqStep b i c () = .cont (i + 1) () := by
  obtain ⟨h1, h2, h3, h4, h5, h6⟩ := h
  unfold sqStep
  have e1 : (c == 34) = false := by simpa using h1
  have e2 : (c == 92) = false := by simpa using h2
  have e3 : (c == 10 || c == 13 || c == 127) = false := by simp [h3, h4, h5]
  have e4 : (decide (c < 33) && c != 32 && c != 9) = false := by
    by_cases hc : c < 33
    · rcases h6 hc with h | h <;> (subst h; decide)
    · simp [hc]
  simp only [e1, e2, e3, e4, Bool.false_eq_true, ↓reduceIte]

/-- **`SkipQuoted` honours escapes**: on a well-formed quoted string it returns the offset after the closing
    quote -/
theorem skipQuoted_of_qbody {b : Buf} {i e : Nat} (h : QBody b i e) : skipQuoted b i = (e, .ok) := by
  have key : runLoop sqMachine b i () = (e, .ok, ()) := by
    induction h with
    | close i h0 =>
      exact runLoop_done sqMachine h0 (by show sqStep b i 34 () = _; unfold sqStep; simp)
    | plain i e c h0 hq _ ih =>
      rw [runLoop_cont sqMachine h0 (by exact sqStep_plain hq), if_pos (by omega)]; exact ih
    | esc i e c1 h0 h1 hcr _ ih =>
      have hs : sqMachine.step b i 92 () = .cont (i + 2) () := by
        show sqStep b i 92 () = _
        unfold sqStep
        rw [h1]
        simp [hcr]
      rw [runLoop_cont sqMachine h0 hs, if_pos (by omega)]; exact ih
  unfold skipQuoted; rw [key]

/-! ### the white-space terminator (`POptTokSpTermF`) -/

theorem ws_lws {c : UInt8} (h : isWS c = true) : isLWSch c = true := by
  unfold isWS at h; unfold isLWSch
  simp only [Bool.or_eq_true] at h ⊢
  rcases h with h | h
  · exact Or.inl (Or.inl (Or.inl h))
  · exact Or.inl (Or.inl (Or.inr h))

/-- the last byte of a non-empty stretch of linear white space is a space or tab -/
theorem Lws.last {b : Buf} {i u : Nat} (h : Lws b i u) (hlt : i < u) : ∃ c, b[u - 1]? = some c ∧ isWS c = true := by
  induction h with
  | nil i => omega
  | ws i n c hc hw hrest ih =>
    by_cases h1 : i + 1 < n
    · exact ih h1
    · have := hrest.le
      have : n - 1 = i := by omega
      rw [this]; exact ⟨c, hc, hw⟩
  | fold i e n c2 he h2 hw2 hrest ih =>
    by_cases h1 : e + 1 < n
    · exact ih h1
    · have := hrest.le
      have : n - 1 = e := by omega
      rw [this]; exact ⟨c2, h2, hw2⟩

section spterm
variable (flags offs : Nat) (b : Buf)

/-- white space and then a new token end the parameter when `POptTokSpTermF` is set: `OK`, and the offset
    returned is the one of the last white-space byte before the token -/
theorem tp_spterm (j u : Nat) {c : UInt8} (p : PTokParam) (upd : PTokParam → PTokParam)
    (hu : (upd p).state = .fEq ∨ (upd p).state = .fSep)
    (hlws : ∀ c, isLWSch c = true → tpStep flags offs b j c p = tpLWS b flags j p upd)
    (hf : hasFlag flags POptTokSpTermF = true) (hl : Lws b j u) (hju : j < u) (hoff : offs + 1 ≤ u)
    (hc : b[u]? = some c) (hpc : PChar flags c) :
    runLoop (tpMachine flags offs) b j p = (u - 1, .ok, { upd p with state := .fin }) := by
  have hfc := hpc.facts
  obtain ⟨cl, hcl, hwl⟩ := hl.last hju
  rw [tp_lws_ok flags offs b hl hju hc hfc.hl p upd hlws]
  have hstep : (tpMachine flags offs).step b u c (upd p) = .done (u - 1) .ok { upd p with state := .fin } := by
    show tpStep flags offs b u c (upd p) = _
    rcases hu with h | h
    · rw [tpStep_fEq_char h hfc.hl hfc.h61 hfc.ht hfc.hs hpc.1, if_pos hf]
      unfold tpSpTermEq
      rw [if_pos (by omega)]
    · rw [tpStep_fSep_char h hfc.hl hfc.ht hfc.hs hpc.1, if_pos hf]
      unfold tpSpTermSep
      simp only
      rw [if_pos (by omega), hcl]
      simp only [ws_lws hwl, if_true]
  rw [runLoop_done (tpMachine flags offs) hc hstep]

/-- `name LWS token` with the white-space terminator -/
theorem parseTokenParam_no_value_spterm {o t n0 n1 u : Nat} {c : UInt8} (hfit : b.size ≤ 65535)
    (p : PTokParam) (hst : p.state = .init) (hpad : Pad b (tpSep flags) o t) (hl : Lws b t n0)
    (hr : PRun b flags n0 n1) (hn : n0 < n1) (hf : hasFlag flags POptTokSpTermF = true)
    (hlu : Lws b n1 u) (hnu : n1 < u) (hc : b[u]? = some c) (hpc : PChar flags c) :
    parseTokenParam b o p flags =
      (u - 1, .ok, { p with name := ⟨n0, n1 - n0⟩, all := ⟨n0, n1 - n0⟩, state := .fin }) := by
  have hsz := hr.le_size hn
  have h1 := hpad.le
  have h2 := hl.le
  rw [parseTokenParam_run flags b o p (by rw [hst]; decide),
    tp_start flags o b hfit hpad hl hr hn p (Or.inl hst),
    tp_spterm flags o b n1 u _ (fun p => { (p.extName n1).extAll n1 with state := .fEq }) (Or.inl rfl)
      (fun c hc => tpStep_name_lws rfl hc) hf hlu hnu (by omega) hc hpc,
    extAll_eq _ n1 (by show n0 ≤ n1; omega) (by omega), extName_eq _ n1 (by show n0 ≤ n1; omega) (by omega)]

/-- `name = token LWS token` with the white-space terminator -/
theorem parseTokenParam_token_value_spterm {o t n0 n1 q v0 v1 u : Nat} {c : UInt8} (hfit : b.size ≤ 65535)
    (p : PTokParam) (hst : p.state = .init) (hpad : Pad b (tpSep flags) o t) (hl : Lws b t n0)
    (hr : PRun b flags n0 n1) (hn : n0 < n1) (hlq : Lws b n1 q) (h61 : b[q]? = some 61)
    (hlv : Lws b (q + 1) v0) (hrv : PRun b flags v0 v1) (hv : v0 < v1)
    (hf : hasFlag flags POptTokSpTermF = true)
    (hlu : Lws b v1 u) (hvu : v1 < u) (hc : b[u]? = some c) (hpc : PChar flags c) :
    parseTokenParam b o p flags =
      (u - 1, .ok, { p with name := ⟨n0, n1 - n0⟩, val := ⟨v0, v1 - v0⟩, all := ⟨n0, v1 - n0⟩, state := .fin }) := by
  have hsz := hrv.le_size hv
  have h1 := hpad.le
  have h2 := hl.le
  have h3 := hlq.le
  have h4 := hlv.le
  obtain ⟨c0, hc0, hpc0⟩ := hrv v0 (Nat.le_refl _) hv
  have hf0 := hpc0.facts
  have hstep0 : (tpMachine flags o).step b v0 c0 (afterEq p n0 n1 q) =
      .cont (v0 + 1) { p with name := ⟨n0, n1 - n0⟩, val := ⟨v0, 0⟩, all := ⟨n0, v0 - n0⟩, state := .val } := by
    have := tpStep_fVal_char (flags := flags) (offs := o) (b := b) (i := v0) (p := afterEq p n0 n1 q) rfl
      hf0.hl hf0.h34 hf0.ht hf0.hs hpc0.1
    rw [set_self v0 (by omega), extAll_eq _ v0 (by show n0 ≤ v0; omega) (by omega)] at this
    exact this
  rw [parseTokenParam_run flags b o p (by rw [hst]; decide),
    tp_head_eq flags o b hfit p (Or.inl hst) hpad hl hr hn hlq h61,
    tp_fVal_lws flags o b hlv hc0 hf0.hl _ rfl,
    runLoop_cont (tpMachine flags o) hc0 hstep0, if_pos (by omega),
    tp_val_run flags o b (by omega) (fun k h1 h2 => hrv k (by omega) h2) _ rfl,
    tp_spterm flags o b v1 u _ (fun p => { (p.extVal v1).extAll v1 with state := .fSep }) (Or.inr rfl)
      (fun c hc => tpStep_val_lws rfl hc) hf hlu hvu (by omega) hc hpc,
    extAll_eq _ v1 (by show n0 ≤ v1; omega) (by omega), extVal_eq _ v1 (by show v0 ≤ v1; omega) (by omega)]

end spterm

/-! ### the list wrapper ParseAllURIParams -/

/-- what the wrapper does with one parsed parameter: store it in the current slot (or drop it when the array is
    full), accumulate its type flag, count it -/
def URIParamsLst.push (l : URIParamsLst) (x : URIParam) : URIParamsLst :=
  if l.n < l.params.size then { l with params := l.params.set! l.n x, types := l.types ||| x.t, n := l.n + 1 }
  else { l with tmp := {}, types := l.types ||| x.t, n := l.n + 1 }

/-- the slots the wrapper uses next are in their reset state -/
def URIParamsLst.Fresh (l : URIParamsLst) : Prop :=
  (∀ i x, l.n ≤ i → l.params[i]? = some x → x = {}) ∧ l.tmp = {}

theorem URIParamsLst.Fresh.cur {l : URIParamsLst} (h : l.Fresh) : l.cur = {} := by
  unfold URIParamsLst.cur
  split
  · rename_i hlt
    have : l.params[l.n]? = some l.params[l.n] := Array.getElem?_eq_getElem hlt
    rw [getElem!_def, this]
    exact h.1 l.n _ (Nat.le_refl _) this
  · exact h.2

theorem URIParamsLst.push_n (l : URIParamsLst) (x : URIParam) : (l.push x).n = l.n + 1 := by
  unfold URIParamsLst.push; split <;> rfl

theorem URIParamsLst.push_types (l : URIParamsLst) (x : URIParam) : (l.push x).types = l.types ||| x.t := by
  unfold URIParamsLst.push; split <;> rfl

theorem URIParamsLst.push_pnc (l : URIParamsLst) (x : URIParam) : (l.push x).pnc = l.pnc := by
  unfold URIParamsLst.push; split <;> rfl

theorem URIParamsLst.push_size (l : URIParamsLst) (x : URIParam) : (l.push x).params.size = l.params.size := by
  unfold URIParamsLst.push; split
  · simp [Array.set!]
  · rfl

theorem URIParamsLst.push_get_ne (l : URIParamsLst) (x : URIParam) (j : Nat) (h : j ≠ l.n) :
    (l.push x).params[j]? = l.params[j]? := by
  unfold URIParamsLst.push; split
  · simp only [Array.set!]; exact Array.getElem?_setIfInBounds_ne (Ne.symm h)
  · rfl

theorem URIParamsLst.push_get_self (l : URIParamsLst) (x : URIParam) (h : l.n < l.params.size) :
    (l.push x).params[l.n]? = some x := by
  unfold URIParamsLst.push; rw [if_pos h]
  simp only [Array.set!, Array.getElem?_setIfInBounds, if_true, h]

theorem URIParamsLst.Fresh.push {l : URIParamsLst} (h : l.Fresh) (x : URIParam) : (l.push x).Fresh := by
  constructor
  · intro i y hi hy
    rw [URIParamsLst.push_n] at hi
    rw [URIParamsLst.push_get_ne l x i (by omega)] at hy
    exact h.1 i y (by omega) hy
  · unfold URIParamsLst.push; split
    · exact h.2
    · rfl

theorem uriParamsLoop_more (b : Buf) (o : Nat) (l : URIParamsLst) (flags vNo next : Nat) (tp : PTokParam) (nm : Buf)
    (hp : parseTokenParam b o l.cur.param flags = (next, .moreValues, tp)) (hnm : tp.name.get? b = some nm)
    (hlt : o < next) (hle : next ≤ b.size) :
    uriParamsLoop b o l flags vNo =
      uriParamsLoop b next (l.push { param := tp, t := uriParamResolve nm }) flags (vNo + 1) := by
  rw [uriParamsLoop]
  simp only [hp, hnm]
  rw [if_pos (by decide), if_pos (by decide), if_pos ⟨hle, Or.inl hlt⟩]
  unfold URIParamsLst.push URIParamsLst.setCur
  by_cases hin : l.n < l.params.size
  · simp only [hin, ↓reduceIte]
  · simp only [hin, ↓reduceIte]

theorem uriParamsLoop_last (b : Buf) (o : Nat) (l : URIParamsLst) (flags vNo next : Nat) (e : Err) (tp : PTokParam)
    (nm : Buf) (hp : parseTokenParam b o l.cur.param flags = (next, e, tp)) (he : e = .ok ∨ e = .eoh)
    (hnm : tp.name.get? b = some nm) :
    uriParamsLoop b o l flags vNo = (next, vNo + 1, e, l.push { param := tp, t := uriParamResolve nm }) := by
  rw [uriParamsLoop]
  simp only [hp, hnm]
  unfold URIParamsLst.push URIParamsLst.setCur
  rcases he with rfl | rfl
  · rw [if_pos (by decide), if_neg (by decide)]
    by_cases hin : l.n < l.params.size
    · simp only [hin, ↓reduceIte]
    · simp only [hin, ↓reduceIte]
  · rw [if_pos (by decide), if_neg (by decide)]
    by_cases hin : l.n < l.params.size
    · simp only [hin, ↓reduceIte]
    · simp only [hin, ↓reduceIte]

/-- a list of parameters as ParseTokenParam sees it: every item but the last is reported with `MoreValues` (and
    the offset moves forward, inside the buffer), the last one with `OK` or `EOH`; each name lies inside the buffer.
    The list collects the parsed parameters with the type of their names. -/
inductive ParamSeq (b : Buf) (flags : Nat) : Nat → List URIParam → Nat → Err → Prop
  | last (o next : Nat) (e : Err) (tp : PTokParam) (nm : Buf) : parseTokenParam b o {} flags = (next, e, tp) →
      (e = .ok ∨ e = .eoh) → tp.name.get? b = some nm →
      ParamSeq b flags o [{ param := tp, t := uriParamResolve nm }] next e
  | cons (o next : Nat) (tp : PTokParam) (nm : Buf) (rest : List URIParam) (o' : Nat) (e : Err) :
      parseTokenParam b o {} flags = (next, .moreValues, tp) → tp.name.get? b = some nm → o < next →
      next ≤ b.size → ParamSeq b flags next rest o' e →
      ParamSeq b flags o ({ param := tp, t := uriParamResolve nm } :: rest) o' e

/-- **the wrapper loop on a parameter list**: offset and verdict of the last parameter, one more value counted per
    parameter, every parameter pushed in order -/
theorem uriParamsLoop_seq {b : Buf} {flags o o' : Nat} {e : Err} {items : List URIParam}
    (H : ParamSeq b flags o items o' e) :
    ∀ (l : URIParamsLst) (vNo : Nat), l.Fresh →
      uriParamsLoop b o l flags vNo = (o', vNo + items.length, e, items.foldl URIParamsLst.push l) := by
  induction H with
  | last o next e tp nm hp he hnm =>
    intro l vNo hf
    have hcur : l.cur.param = {} := by rw [hf.cur]
    rw [uriParamsLoop_last b o l flags vNo next e tp nm (by rw [hcur]; exact hp) he hnm]
    rfl
  | cons o next tp nm rest o' e hp hnm hlt hle _ ih =>
    intro l vNo hf
    have hcur : l.cur.param = {} := by rw [hf.cur]
    rw [uriParamsLoop_more b o l flags vNo next tp nm (by rw [hcur]; exact hp) hnm hlt hle,
      ih _ _ (hf.push _)]
    simp only [List.length_cons, List.foldl_cons]
    have : vNo + 1 + rest.length = vNo + (rest.length + 1) := by omega
    rw [this]

/-! what the pushed list looks like -/

theorem foldl_push_n (items : List URIParam) (l : URIParamsLst) :
    (items.foldl URIParamsLst.push l).n = l.n + items.length := by
  induction items generalizing l with
  | nil => rfl
  | cons x xs ih => simp only [List.foldl_cons, List.length_cons, ih, URIParamsLst.push_n]; omega

theorem foldl_push_types (items : List URIParam) (l : URIParamsLst) :
    (items.foldl URIParamsLst.push l).types = items.foldl (fun a x => a ||| x.t) l.types := by
  induction items generalizing l with
  | nil => rfl
  | cons x xs ih => simp only [List.foldl_cons, ih, URIParamsLst.push_types]

theorem foldl_push_size (items : List URIParam) (l : URIParamsLst) :
    (items.foldl URIParamsLst.push l).params.size = l.params.size := by
  induction items generalizing l with
  | nil => rfl
  | cons x xs ih => simp only [List.foldl_cons, ih, URIParamsLst.push_size]

theorem foldl_push_pnc (items : List URIParam) (l : URIParamsLst) :
    (items.foldl URIParamsLst.push l).pnc = l.pnc := by
  induction items generalizing l with
  | nil => rfl
  | cons x xs ih => simp only [List.foldl_cons, ih, URIParamsLst.push_pnc]

theorem foldl_push_get_lt (items : List URIParam) (l : URIParamsLst) (j : Nat) (h : j < l.n) :
    (items.foldl URIParamsLst.push l).params[j]? = l.params[j]? := by
  induction items generalizing l with
  | nil => rfl
  | cons x xs ih =>
    simp only [List.foldl_cons]
    rw [ih (l.push x) (by rw [URIParamsLst.push_n]; omega), URIParamsLst.push_get_ne l x j (by omega)]

/-- the `i`-th parameter of the list is stored in slot `l.n + i` (when the array has such a slot) -/
theorem foldl_push_get (items : List URIParam) (l : URIParamsLst) (i : Nat) (x : URIParam)
    (hi : items[i]? = some x) (hcap : l.n + i < l.params.size) :
    (items.foldl URIParamsLst.push l).params[l.n + i]? = some x := by
  induction items generalizing l i with
  | nil => simp at hi
  | cons y ys ih =>
    simp only [List.foldl_cons]
    cases i with
    | zero =>
      simp only [List.getElem?_cons_zero, Option.some.injEq] at hi
      subst hi
      rw [Nat.add_zero, foldl_push_get_lt ys (l.push y) l.n (by rw [URIParamsLst.push_n]; omega),
        URIParamsLst.push_get_self l y (by omega)]
    | succ k =>
      simp only [List.getElem?_cons_succ] at hi
      have := ih (l.push y) k hi (by rw [URIParamsLst.push_n, URIParamsLst.push_size]; omega)
      rw [URIParamsLst.push_n] at this
      have e : l.n + (k + 1) = l.n + 1 + k := by omega
      rw [e]; exact this

/-! ### URIParamResolve is a case-insensitive table look-up -/

/-- the table, on lower-cased names -/
def uriParamOfLower (s : List UInt8) : Nat :=
  if s = sTransport then URIParamTransportF
  else if s = sLr then URIParamLRF
  else if s = sMaddr then URIParamMaddrF
  else if s = sUser then URIParamUserF
  else if s = sMethod then URIParamMethodF
  else if s = sTtl then URIParamTTLF
  else URIParamOtherF

theorem cmpEqL_lower (nm : Buf) (s : List UInt8) (hs : lowerL s = s) :
    cmpEqL nm s = decide (lowerL nm.toList = s) := by
  cases h : cmpEqL nm s with
  | true => rw [cmpEqL_iff, hs] at h; simp [h]
  | false =>
    have : ¬ lowerL nm.toList = s := by
      intro h'
      have := (cmpEqL_iff nm s).2 (by rw [hs]; exact h')
      rw [h] at this; cases this
    simp [this]

/-- **classification ignores letter case**: the type of a name is the table entry of its lower-cased form -/
theorem uriParamResolve_lower (nm : Buf) : uriParamResolve nm = uriParamOfLower (lowerL nm.toList) := by
  unfold uriParamResolve uriParamOfLower
  rw [cmpEqL_lower nm sTransport (by decide), cmpEqL_lower nm sLr (by decide), cmpEqL_lower nm sMaddr (by decide),
    cmpEqL_lower nm sUser (by decide), cmpEqL_lower nm sMethod (by decide), cmpEqL_lower nm sTtl (by decide)]
  simp only [decide_eq_true_eq]

/-- a parameter reported with `MoreValues` moves the offset forward, to a byte inside the buffer -/
theorem Ending.more_range {b : Buf} {flags j o : Nat} {st : TPState} (H : Ending b flags j o .moreValues st) :
    j < o ∧ o < b.size := by
  cases H with
  | sep s o' e' st' hl hs ha =>
    cases ha with
    | more t u c hp hl2 hc _ _ _ =>
      have h1 := hl.le
      have h2 := hp.le
      have h3 := hl2.le
      have h4 := get?_lt hc
      omega

/-! ### the list wrapper ParseAllURIHdrs -/

/-- what the header-list wrapper does with one parsed header: store it in the current slot (or drop it when the
    array is full) and count it -/
def URIHdrsLst.push (l : URIHdrsLst) (x : PTokParam) : URIHdrsLst :=
  if l.n < l.hdrs.size then { l with hdrs := l.hdrs.set! l.n x, n := l.n + 1 }
  else { l with tmp := {}, n := l.n + 1 }

/-- the slots the wrapper uses next are in their reset state -/
def URIHdrsLst.Fresh (l : URIHdrsLst) : Prop :=
  (∀ i x, l.n ≤ i → l.hdrs[i]? = some x → x = {}) ∧ l.tmp = {}

theorem URIHdrsLst.Fresh.cur {l : URIHdrsLst} (h : l.Fresh) : l.cur = {} := by
  unfold URIHdrsLst.cur
  split
  · rename_i hlt
    have : l.hdrs[l.n]? = some l.hdrs[l.n] := Array.getElem?_eq_getElem hlt
    rw [getElem!_def, this]
    exact h.1 l.n _ (Nat.le_refl _) this
  · exact h.2

theorem URIHdrsLst.push_n (l : URIHdrsLst) (x : PTokParam) : (l.push x).n = l.n + 1 := by
  unfold URIHdrsLst.push; split <;> rfl

theorem URIHdrsLst.push_size (l : URIHdrsLst) (x : PTokParam) : (l.push x).hdrs.size = l.hdrs.size := by
  unfold URIHdrsLst.push; split
  · simp [Array.set!]
  · rfl

theorem URIHdrsLst.push_get_ne (l : URIHdrsLst) (x : PTokParam) (j : Nat) (h : j ≠ l.n) :
    (l.push x).hdrs[j]? = l.hdrs[j]? := by
  unfold URIHdrsLst.push; split
  · simp only [Array.set!]; exact Array.getElem?_setIfInBounds_ne (Ne.symm h)
  · rfl

theorem URIHdrsLst.push_get_self (l : URIHdrsLst) (x : PTokParam) (h : l.n < l.hdrs.size) :
    (l.push x).hdrs[l.n]? = some x := by
  unfold URIHdrsLst.push; rw [if_pos h]
  simp only [Array.set!, Array.getElem?_setIfInBounds, if_true, h]

theorem URIHdrsLst.Fresh.push {l : URIHdrsLst} (h : l.Fresh) (x : PTokParam) : (l.push x).Fresh := by
  constructor
  · intro i y hi hy
    rw [URIHdrsLst.push_n] at hi
    rw [URIHdrsLst.push_get_ne l x i (by omega)] at hy
    exact h.1 i y (by omega) hy
  · unfold URIHdrsLst.push; split
    · exact h.2
    · rfl

theorem uriHdrsLoop_more (b : Buf) (o : Nat) (l : URIHdrsLst) (flags vNo next : Nat) (tp : PTokParam)
    (hp : parseTokenParam b o l.cur flags = (next, .moreValues, tp)) (hlt : o < next) (hle : next ≤ b.size) :
    uriHdrsLoop b o l flags vNo = uriHdrsLoop b next (l.push tp) flags (vNo + 1) := by
  rw [uriHdrsLoop]
  simp only [hp]
  rw [if_pos (by decide), if_pos (by decide), if_pos ⟨hle, Or.inl hlt⟩]
  unfold URIHdrsLst.push URIHdrsLst.setCur
  by_cases hin : l.n < l.hdrs.size
  · simp only [hin, ↓reduceIte]
  · simp only [hin, ↓reduceIte]

theorem uriHdrsLoop_last (b : Buf) (o : Nat) (l : URIHdrsLst) (flags vNo next : Nat) (e : Err) (tp : PTokParam)
    (hp : parseTokenParam b o l.cur flags = (next, e, tp)) (he : e = .ok ∨ e = .eoh) :
    uriHdrsLoop b o l flags vNo = (next, vNo + 1, e, l.push tp) := by
  rw [uriHdrsLoop]
  simp only [hp]
  unfold URIHdrsLst.push URIHdrsLst.setCur
  rcases he with rfl | rfl
  · rw [if_pos (by decide), if_neg (by decide)]
    by_cases hin : l.n < l.hdrs.size
    · simp only [hin, ↓reduceIte]
    · simp only [hin, ↓reduceIte]
  · rw [if_pos (by decide), if_neg (by decide)]
    by_cases hin : l.n < l.hdrs.size
    · simp only [hin, ↓reduceIte]
    · simp only [hin, ↓reduceIte]

/-- a list of URI headers as ParseTokenParam sees it (see `ParamSeq`) -/
inductive HdrSeq (b : Buf) (flags : Nat) : Nat → List PTokParam → Nat → Err → Prop
  | last (o next : Nat) (e : Err) (tp : PTokParam) : parseTokenParam b o {} flags = (next, e, tp) →
      (e = .ok ∨ e = .eoh) → HdrSeq b flags o [tp] next e
  | cons (o next : Nat) (tp : PTokParam) (rest : List PTokParam) (o' : Nat) (e : Err) :
      parseTokenParam b o {} flags = (next, .moreValues, tp) → o < next → next ≤ b.size →
      HdrSeq b flags next rest o' e → HdrSeq b flags o (tp :: rest) o' e

theorem uriHdrsLoop_seq {b : Buf} {flags o o' : Nat} {e : Err} {items : List PTokParam}
    (H : HdrSeq b flags o items o' e) :
    ∀ (l : URIHdrsLst) (vNo : Nat), l.Fresh →
      uriHdrsLoop b o l flags vNo = (o', vNo + items.length, e, items.foldl URIHdrsLst.push l) := by
  induction H with
  | last o next e tp hp he =>
    intro l vNo hf
    rw [uriHdrsLoop_last b o l flags vNo next e tp (by rw [hf.cur]; exact hp) he]
    rfl
  | cons o next tp rest o' e hp hlt hle _ ih =>
    intro l vNo hf
    rw [uriHdrsLoop_more b o l flags vNo next tp (by rw [hf.cur]; exact hp) hlt hle, ih _ _ (hf.push _)]
    simp only [List.length_cons, List.foldl_cons]
    have : vNo + 1 + rest.length = vNo + (rest.length + 1) := by omega
    rw [this]

theorem foldl_hpush_n (items : List PTokParam) (l : URIHdrsLst) :
    (items.foldl URIHdrsLst.push l).n = l.n + items.length := by
  induction items generalizing l with
  | nil => rfl
  | cons x xs ih => simp only [List.foldl_cons, List.length_cons, ih, URIHdrsLst.push_n]; omega

theorem foldl_hpush_size (items : List PTokParam) (l : URIHdrsLst) :
    (items.foldl URIHdrsLst.push l).hdrs.size = l.hdrs.size := by
  induction items generalizing l with
  | nil => rfl
  | cons x xs ih => simp only [List.foldl_cons, ih, URIHdrsLst.push_size]

theorem foldl_hpush_get_lt (items : List PTokParam) (l : URIHdrsLst) (j : Nat) (h : j < l.n) :
    (items.foldl URIHdrsLst.push l).hdrs[j]? = l.hdrs[j]? := by
  induction items generalizing l with
  | nil => rfl
  | cons x xs ih =>
    simp only [List.foldl_cons]
    rw [ih (l.push x) (by rw [URIHdrsLst.push_n]; omega), URIHdrsLst.push_get_ne l x j (by omega)]

theorem foldl_hpush_get (items : List PTokParam) (l : URIHdrsLst) (i : Nat) (x : PTokParam)
    (hi : items[i]? = some x) (hcap : l.n + i < l.hdrs.size) :
    (items.foldl URIHdrsLst.push l).hdrs[l.n + i]? = some x := by
  induction items generalizing l i with
  | nil => simp at hi
  | cons y ys ih =>
    simp only [List.foldl_cons]
    cases i with
    | zero =>
      simp only [List.getElem?_cons_zero, Option.some.injEq] at hi
      subst hi
      rw [Nat.add_zero, foldl_hpush_get_lt ys (l.push y) l.n (by rw [URIHdrsLst.push_n]; omega),
        URIHdrsLst.push_get_self l y (by omega)]
    | succ k =>
      simp only [List.getElem?_cons_succ] at hi
      have := ih (l.push y) k hi (by rw [URIHdrsLst.push_n, URIHdrsLst.push_size]; omega)
      rw [URIHdrsLst.push_n] at this
      have e : l.n + (k + 1) = l.n + 1 + k := by omega
      rw [e]; exact this

/-! ### parameter lists of the grammar -/

/-- one parameter of the grammar starting at `o` (skipped empty items and white space included), with what
    ParseTokenParam reports for it: offset, verdict, object. Four shapes: no value, token value, quoted value,
    empty value before a separator. -/
inductive GParam (b : Buf) (flags : Nat) : Nat → Nat → Err → PTokParam → Prop
  | noValue (o t n0 n1 o' : Nat) (e : Err) (st : TPState) : Pad b (tpSep flags) o t → Lws b t n0 →
      PRun b flags n0 n1 → n0 < n1 → Ending b flags n1 o' e st →
      GParam b flags o o' e { name := ⟨n0, n1 - n0⟩, all := ⟨n0, n1 - n0⟩, state := st }
  | token (o t n0 n1 q v0 v1 o' : Nat) (e : Err) (st : TPState) : Pad b (tpSep flags) o t → Lws b t n0 →
      PRun b flags n0 n1 → n0 < n1 → Lws b n1 q → b[q]? = some 61 → Lws b (q + 1) v0 → PRun b flags v0 v1 →
      v0 < v1 → Ending b flags v1 o' e st →
      GParam b flags o o' e { name := ⟨n0, n1 - n0⟩, val := ⟨v0, v1 - v0⟩, all := ⟨n0, v1 - n0⟩, state := st }
  | quoted (o t n0 n1 q v0 qe o' : Nat) (e : Err) (st : TPState) : Pad b (tpSep flags) o t → Lws b t n0 →
      PRun b flags n0 n1 → n0 < n1 → Lws b n1 q → b[q]? = some 61 → Lws b (q + 1) v0 → b[v0]? = some 34 →
      QBody b (v0 + 1) qe → Ending b flags qe o' e st →
      GParam b flags o o' e { name := ⟨n0, n1 - n0⟩, val := ⟨v0, qe - v0⟩, all := ⟨n0, qe - n0⟩, state := st }
  | emptyVal (o t n0 n1 q s o' : Nat) (e : Err) (st : TPState) : Pad b (tpSep flags) o t → Lws b t n0 →
      PRun b flags n0 n1 → n0 < n1 → Lws b n1 q → b[q]? = some 61 → Lws b (q + 1) s →
      b[s]? = some (tpSep flags) → AfterSep b flags (s + 1) o' e st →
      GParam b flags o o' e { name := ⟨n0, n1 - n0⟩, val := ⟨s, 0⟩, all := ⟨n0, s - n0⟩, state := st }

/-- ParseTokenParam reports each parameter of the grammar as written -/
theorem GParam.parse {b : Buf} {flags o o' : Nat} {e : Err} {tp : PTokParam} (hfit : b.size ≤ 65535)
    (H : GParam b flags o o' e tp) : parseTokenParam b o {} flags = (o', e, tp) := by
  cases H with
  | noValue t n0 n1 o'' e' st hpad hl hr hn hE =>
    exact parseTokenParam_no_value flags b hfit {} rfl hpad hl hr hn hE
  | token t n0 n1 q v0 v1 o'' e' st hpad hl hr hn hlq h61 hlv hrv hv hE =>
    exact parseTokenParam_token_value flags b hfit {} rfl hpad hl hr hn hlq h61 hlv hrv hv hE
  | quoted t n0 n1 q v0 qe o'' e' st hpad hl hr hn hlq h61 hlv h34 hq hE =>
    exact parseTokenParam_quoted_value flags b hfit {} rfl hpad hl hr hn hlq h61 hlv h34 (skipQuoted_of_qbody hq) hE
  | emptyVal t n0 n1 q s o'' e' st hpad hl hr hn hlq h61 hlv hs hA =>
    exact parseTokenParam_empty_value_sep flags b hfit {} rfl hpad hl hr hn hlq h61 hlv hs hA

/-- the text of the name of a parsed parameter -/
def nameOf (b : Buf) (tp : PTokParam) : Buf := b.extract tp.name.offs (tp.name.offs + tp.name.len)

/-- the name of a parameter of the grammar lies inside the buffer -/
theorem GParam.name_get {b : Buf} {flags o o' : Nat} {e : Err} {tp : PTokParam} (hfit : b.size ≤ 65535)
    (H : GParam b flags o o' e tp) : tp.name.get? b = some (nameOf b tp) := by
  have key : ∀ n0 n1, PRun b flags n0 n1 → n0 < n1 →
      PField.get? b ⟨n0, n1 - n0⟩ = some (b.extract n0 (n0 + (n1 - n0))) := by
    intro n0 n1 hr hn
    have := hr.le_size hn
    exact field_get? b n0 (n1 - n0) (by omega) hfit
  cases H with
  | noValue t n0 n1 o'' e' st hpad hl hr hn hE => exact key n0 n1 hr hn
  | token t n0 n1 q v0 v1 o'' e' st hpad hl hr hn hlq h61 hlv hrv hv hE => exact key n0 n1 hr hn
  | quoted t n0 n1 q v0 qe o'' e' st hpad hl hr hn hlq h61 hlv h34 hq hE => exact key n0 n1 hr hn
  | emptyVal t n0 n1 q s o'' e' st hpad hl hr hn hlq h61 hlv hs hA => exact key n0 n1 hr hn

theorem AfterSep.more_range {b : Buf} {flags i o : Nat} {st : TPState} (H : AfterSep b flags i o .moreValues st) :
    i ≤ o ∧ o < b.size := by
  cases H with
  | more t u c hp hl2 hc _ _ _ =>
    have h2 := hp.le
    have h3 := hl2.le
    have h4 := get?_lt hc
    omega

theorem QBody.lt {b : Buf} {i e : Nat} (h : QBody b i e) : i < e := by
  induction h with
  | close i _ => omega
  | plain i e c _ _ _ ih => omega
  | esc i e c1 _ _ _ _ ih => omega

/-- a parameter reported with `MoreValues` moves the offset forward and leaves it inside the buffer -/
theorem GParam.more_range {b : Buf} {flags o o' : Nat} {tp : PTokParam} (H : GParam b flags o o' .moreValues tp) :
    o < o' ∧ o' ≤ b.size := by
  cases H with
  | noValue t n0 n1 o'' e' st hpad hl hr hn hE =>
    have := hE.more_range; have := hpad.le; have := hl.le; omega
  | token t n0 n1 q v0 v1 o'' e' st hpad hl hr hn hlq h61 hlv hrv hv hE =>
    have := hE.more_range; have := hpad.le; have := hl.le; have := hlq.le; have := hlv.le; omega
  | quoted t n0 n1 q v0 qe o'' e' st hpad hl hr hn hlq h61 hlv h34 hq hE =>
    have := hE.more_range; have := hpad.le; have := hl.le; have := hlq.le; have := hlv.le; have := hq.lt; omega
  | emptyVal t n0 n1 q s o'' e' st hpad hl hr hn hlq h61 hlv hs hA =>
    have := hA.more_range; have := hpad.le; have := hl.le; have := hlq.le; have := hlv.le; omega

/-- a parameter list of the grammar: parameters that end with a separator followed by the next parameter, and a
    last one that ends with the terminator (`OK`) or the end of the header / input (`EOH`) -/
inductive GList (b : Buf) (flags : Nat) : Nat → List PTokParam → Nat → Err → Prop
  | last (o o' : Nat) (e : Err) (tp : PTokParam) : GParam b flags o o' e tp → (e = .ok ∨ e = .eoh) →
      GList b flags o [tp] o' e
  | cons (o next : Nat) (tp : PTokParam) (rest : List PTokParam) (o' : Nat) (e : Err) :
      GParam b flags o next .moreValues tp → GList b flags next rest o' e → GList b flags o (tp :: rest) o' e

/-- a parsed parameter with the type of its name -/
def typed (b : Buf) (tp : PTokParam) : URIParam := { param := tp, t := uriParamResolve (nameOf b tp) }

theorem GList.paramSeq {b : Buf} {flags o o' : Nat} {e : Err} {tps : List PTokParam} (hfit : b.size ≤ 65535)
    (H : GList b flags o tps o' e) : ParamSeq b flags o (tps.map (typed b)) o' e := by
  induction H with
  | last o o' e tp hg he => exact ParamSeq.last o o' e tp _ (hg.parse hfit) he (hg.name_get hfit)
  | cons o next tp rest o' e hg _ ih =>
    exact ParamSeq.cons o next tp _ _ o' e (hg.parse hfit) (hg.name_get hfit) hg.more_range.1 hg.more_range.2 ih

theorem GList.hdrSeq {b : Buf} {flags o o' : Nat} {e : Err} {tps : List PTokParam} (hfit : b.size ≤ 65535)
    (H : GList b flags o tps o' e) : HdrSeq b flags o tps o' e := by
  induction H with
  | last o o' e tp hg he => exact HdrSeq.last o o' e tp (hg.parse hfit) he
  | cons o next tp rest o' e hg _ ih =>
    exact HdrSeq.cons o next tp _ o' e (hg.parse hfit) hg.more_range.1 hg.more_range.2 ih

end Sipsp
