/-
  Sipsp.Proofs.NaNumRun — property C10 at run level for the Contact `expires` and `q` parameters
  (ParseNameAddrPVal): every number reported after a whole name-addr parse is the exact (or saturated) value of a
  parameter text of the consumed input; never a wrapped or truncated number.  Soundness direction, ANY input (no
  grammar assumption, any verdict), one call on a new object and resumed calls.

  How the model (and the Go code) converts a parameter value: nothing is accumulated byte by byte.  The automaton only
  records the four work offsets `pstart, pend, vstart, vend`; when a parameter ends (at `;`, at the `,` that ends the
  value, or at the end of the header) it calls `setFromParamVal`, which slices name and value out of the buffer and
  converts the value text with `pUInt64Val` (`setExpires`, `setQ`).

  Sections
  A  `expires`, ANY value text (`nr_setExpires_any`): HasExpires is set and Expires = min (value of the LEADING DIGITS)
     (2^32-1); all of the text when it is a digit string of any length.
  C  `NrNum` (HasExpires, Expires, Q, ParamErr, ErrOffs), `nrEffect` = the effect of one parameter span on them, and the
     frame theorem `nr_sfp_num`: `setFromParamVal` acts on these fields as `nrEffect`, reading nothing else.
  C2 white-space runs of `skipLWS` (`nr_skipLWS_run`), `NrGap` = "white space, one `=`, white space".
  D  the loop invariant `NrInv` (numeric fields = fold `nrAll` of `nrEffect` over recorded spans `NrSpanOk`; the work
     offsets by automaton state), one lemma per `case` group of the loop body (`nr_stepA … nr_stepVE`, `nr_eoh` for
     label endOfHdr), `nr_step`, `nr_runLoop` (via `runLoop_inv`), `nr_parse` (ParseNameAddrPVal, any header kind),
     `nr_entry_new`.
  E  `expires` from the fold: the last `expires` span decides (`nr_all_exp_last`, `NrOut.expires`).
  F  `q`, ANY value text: `NrQOk` (accepted shapes and their value), `nr_setQ_cases` (accepted: Q := exact value;
     otherwise Q untouched and ParamErr set), converse of the 64-bit parser spec `nr_pUInt64Val_ok`.
  G  `q` from the fold (`nr_all_q_last`, `nr_all_q_bad`, `nr_all_perr_keep`, `NrOut.q`, `NrOut.q_flag`).
  H  more bytes: `NrInv.app`, `nr_parse_resume`.
  I  one call on a new object, any header kind: `nr_new_expires`, `nr_new_q`, `nr_new_q_le`;
     Contact: `nr_contact_expires`, `nr_contact_q`, `nr_contact_q_flag`.
  J  non-vacuity and tests.

  What the statements do NOT say (model behaviour, same in the Go code, see the tests in J):
  * the `expires` value text need not consist of digits: `expires=12abc` is reported as set with value 12 and nothing
    is flagged, `expires=abc` and `expires="12"` give 0 — hence "leading digits";
  * the accepted `q` shapes are wider than `0[.ddd]` / `1[.000]`: empty integer part (`.5`, `.`), leading zeros
    (`00000001` = 1000);
  * there is no "q is set" flag in the object: "unset" means Q keeps its previous value;
  * the gap claim `NrGap` between name and value is made for header kinds with comma-separated values (Contact …):
    in From / To the automaton skips commas in front of an unquoted value (`;tag=,abc` gives the tag `abc`);
  * NOT proved here: that every `expires` / `q` parameter of the text is among the recorded spans (completeness: that is
    the grammar-level theorem of C09, Proofs/NameAddrSpec), nor what the bytes of the name / value spans are beyond
    their position and the gap.
-/
import Sipsp.Proofs.NameAddrSpec

namespace Sipsp

/-! ### A. `expires`: any value text -/

/-- is the byte a decimal digit (the test of `pUInt64Val`) -/
def nrIsDig (c : UInt8) : Bool := !(c < 48 || c > 57)

/-- the leading digits of a text -/
def nrDigPre (l : List UInt8) : List UInt8 := l.takeWhile nrIsDig

theorem nrIsDig_iff (c : UInt8) : nrIsDig c = true ↔ IsDigitB c := by
  unfold nrIsDig IsDigitB
  simp only [Bool.not_eq_true', Bool.or_eq_false_iff, decide_eq_false_iff_not, UInt8.lt_iff_toNat_lt, gt_iff_lt]
  have h48 : (48 : UInt8).toNat = 48 := rfl
  have h57 : (57 : UInt8).toNat = 57 := rfl
  rw [h48, h57]
  omega

theorem nrDigPre_digits (l : List UInt8) : AllDigits (nrDigPre l) := by
  induction l with
  | nil => intro c hc; cases hc
  | cons a as ih =>
    unfold nrDigPre at ih ⊢
    rw [List.takeWhile_cons]
    split
    · rename_i ha
      intro c hc
      rcases List.mem_cons.1 hc with h | h
      · rw [h]; exact (nrIsDig_iff a).1 ha
      · exact ih c h
    · intro c hc; cases hc

theorem nrDigPre_of_digits (l : List UInt8) (h : AllDigits l) : nrDigPre l = l := by
  induction l with
  | nil => rfl
  | cons a as ih =>
    unfold nrDigPre at ih ⊢
    rw [List.takeWhile_cons, if_pos ((nrIsDig_iff a).2 (h a List.mem_cons_self)),
      ih (fun x hx => h x (List.mem_cons_of_mem _ hx))]

/-- the number returned by `pUInt64Val` depends on the leading digits only -/
theorem nr_pUInt64Aux_pre (l : List UInt8) (n : Nat) (e : Err) :
    (pUInt64Aux l n e).1 = (pUInt64Aux (nrDigPre l) n e).1 := by
  induction l generalizing n e with
  | nil => rfl
  | cons c cs ih =>
    by_cases hc : nrIsDig c = true
    · have hp : nrDigPre (c :: cs) = c :: nrDigPre cs := by
        unfold nrDigPre; rw [List.takeWhile_cons, if_pos hc]
      have hd := (nrIsDig_iff c).1 hc
      rw [hp, pUInt64Aux_cons c cs n e hd, pUInt64Aux_cons c (nrDigPre cs) n e hd]
      split
      · exact ih _ _
      · exact ih _ _
    · have hp : nrDigPre (c :: cs) = [] := by
        unfold nrDigPre; rw [List.takeWhile_cons, if_neg hc]
      have hc' : (c < 48 || c > 57) = true := by
        cases hx : (c < 48 || c > 57) with
        | true => rfl
        | false => exact absurd (by unfold nrIsDig; rw [hx]; rfl) hc
      rw [hp]
      simp only [pUInt64Aux, hc', if_true]

/-- **`expires` with ANY value text**: the has-expires flag is set and the number is the decimal value of the leading
    digits of the text (all of it when it is a digit string; the empty string counts 0), saturated at 2^32-1.  No
    length bound; never a wrapped value. -/
theorem nr_setExpires_any (pf : PFromBody) (val : List UInt8) :
    (setExpires pf val).hasExpires = true ∧ (setExpires pf val).expires = min (decOf (nrDigPre val)) 4294967295 := by
  have hs := setExpires_spec pf (nrDigPre val) (nrDigPre_digits val)
  refine ⟨rfl, ?_⟩
  rw [← hs.1]
  unfold setExpires pUInt64Val
  simp only
  rw [nr_pUInt64Aux_pre val 0 .ok]

theorem nr_setExpires_digits (pf : PFromBody) (val : List UInt8) (hd : AllDigits val) :
    (setExpires pf val).expires = min (decOf val) 4294967295 := by
  rw [(nr_setExpires_any pf val).2, nrDigPre_of_digits val hd]

/-! ### C. the numeric fields and the effect of one parameter on them -/

/-- the fields of the object that the `expires` and `q` parameters may change -/
structure NrNum where
  hasExpires : Bool := false
  expires : Nat := 0
  q : Nat := 0
  paramErr : Err := .ok
  errOffs : Nat := 0
  deriving DecidableEq, Repr, Inhabited

def PFromBody.nrNum (pf : PFromBody) : NrNum := ⟨pf.hasExpires, pf.expires, pf.q, pf.paramErr, pf.errOffs⟩

/-- an otherwise empty object carrying the numeric fields and the value offsets (all that `setQ` reads) -/
def nrOfNum (m : NrNum) (vs ve : Nat) : PFromBody :=
  { hasExpires := m.hasExpires, expires := m.expires, q := m.q, paramErr := m.paramErr, errOffs := m.errOffs, vstart := vs, vend := ve }

/-- the `q` branch of `setFromParamVal` on the numeric fields (characterised in section E) -/
def nrSetQ (m : NrNum) (vs ve : Nat) (val : List UInt8) : NrNum := (setQ (nrOfNum m vs ve) val).nrNum

/-- what a parameter with name `[ps, pe)` and value `[vs, ve)` does to the numeric fields -/
def nrEffect (b : Buf) (ps pe vs ve : Nat) (m : NrNum) : NrNum :=
  if ps < pe ∧ vs < ve then
    if cmpEqL (b.extract ps pe) sExpires then
      { m with hasExpires := true, expires := min (decOf (nrDigPre (b.extract vs ve).toList)) 4294967295 }
    else if cmpEqL (b.extract ps pe) sQ then nrSetQ m vs ve (b.extract vs ve).toList
    else m
  else if ps < pe ∧ vs = ve then m
  else { m with paramErr := .valBad, errOffs := trunc16 vs }

theorem NrNum.ext' {x y : NrNum} (h1 : x.hasExpires = y.hasExpires) (h2 : x.expires = y.expires) (h3 : x.q = y.q)
    (h4 : x.paramErr = y.paramErr) (h5 : x.errOffs = y.errOffs) : x = y := by
  cases x; cases y; simp_all

theorem nr_setQ_num (pf : PFromBody) (val : List UInt8) :
    (setQ pf val).nrNum = nrSetQ pf.nrNum pf.vstart pf.vend val := by
  obtain ⟨e1, e2, e3⟩ := setQ_congr pf (nrOfNum pf.nrNum pf.vstart pf.vend) val rfl rfl rfl rfl rfl
  obtain ⟨_, _, o3, o4⟩ := setQ_other pf val
  obtain ⟨_, _, p3, p4⟩ := setQ_other (nrOfNum pf.nrNum pf.vstart pf.vend) val
  exact NrNum.ext' (o3.trans p3.symm) (o4.trans p4.symm) e1 e2 e3

/-- **frame**: the numeric fields after `setFromParamVal` are `nrEffect` of the numeric fields before (name and value
    inside the buffer, so that Go does not panic); nothing else of the object is read -/
theorem nr_sfp_num (b : Buf) (pf : PFromBody) (h1 : pf.pend ≤ b.size) (h2 : pf.vend ≤ b.size) :
    (setFromParamVal b pf).nrNum = nrEffect b pf.pstart pf.pend pf.vstart pf.vend pf.nrNum := by
  unfold setFromParamVal nrEffect
  by_cases c1 : pf.pstart < pf.pend ∧ pf.vstart < pf.vend
  · have c1' : (decide (pf.pstart < pf.pend) && decide (pf.vstart < pf.vend)) = true := by simp [c1.1, c1.2]
    rw [if_pos c1', if_pos c1]
    rw [slice?_some b pf.pstart pf.pend (by omega) (by omega), slice?_some b pf.vstart pf.vend (by omega) (by omega)]
    simp only
    by_cases t1 : cmpEqL (b.extract pf.pstart pf.pend) sTag = true
    · have hl := cmpEqL_len t1
      have t2 : cmpEqL (b.extract pf.pstart pf.pend) sExpires = false := cmpEqL_false_of_len (by rw [hl]; decide)
      have t3 : cmpEqL (b.extract pf.pstart pf.pend) sQ = false := cmpEqL_false_of_len (by rw [hl]; decide)
      simp only [t1, t2, t3, Bool.false_eq_true, ↓reduceIte]; rfl
    · simp only [t1, Bool.false_eq_true, ↓reduceIte]
      by_cases t2 : cmpEqL (b.extract pf.pstart pf.pend) sExpires = true
      · simp only [t2, ↓reduceIte]
        have he := nr_setExpires_any pf (b.extract pf.vstart pf.vend).toList
        exact NrNum.ext' he.1 he.2 rfl rfl rfl
      · simp only [t2, Bool.false_eq_true, ↓reduceIte]
        by_cases t3 : cmpEqL (b.extract pf.pstart pf.pend) sQ = true
        · simp only [t3, ↓reduceIte]
          exact nr_setQ_num pf _
        · simp only [t3, Bool.false_eq_true, ↓reduceIte]
          by_cases t4 : cmpEqL (b.extract pf.pstart pf.pend) sLr = true
          · simp only [t4, ↓reduceIte]; rfl
          · simp only [t4, Bool.false_eq_true, ↓reduceIte]; rfl
  · have c1' : (decide (pf.pstart < pf.pend) && decide (pf.vstart < pf.vend)) = false := by
      cases hx : (decide (pf.pstart < pf.pend) && decide (pf.vstart < pf.vend)) with
      | false => rfl
      | true => simp only [Bool.and_eq_true, decide_eq_true_eq] at hx; exact absurd hx c1
    rw [c1', if_neg c1]
    simp only [Bool.false_eq_true, ↓reduceIte]
    by_cases c2 : pf.pstart < pf.pend ∧ pf.vstart = pf.vend
    · have c2' : (decide (pf.pstart < pf.pend) && pf.vstart == pf.vend) = true := by simp [c2.1, c2.2]
      rw [if_pos c2', if_pos c2]
      rw [slice?_some b pf.pstart pf.pend (by omega) (by omega)]
      simp only
      split <;> rfl
    · have c2' : (decide (pf.pstart < pf.pend) && pf.vstart == pf.vend) = false := by
        cases hx : (decide (pf.pstart < pf.pend) && pf.vstart == pf.vend) with
        | false => rfl
        | true => simp only [Bool.and_eq_true, decide_eq_true_eq, beq_iff_eq] at hx; exact absurd hx c2
      rw [c2', if_neg c2]
      simp only [Bool.false_eq_true, ↓reduceIte]; rfl

/-! ### C2. white space runs; the gap between a parameter name and its value -/

theorem nr_run_empty (P : UInt8 → Bool) (b : Buf) (i : Nat) : Run P b i i := fun k h1 h2 => by omega

theorem nr_run_append {P : UInt8 → Bool} {b : Buf} {i j k : Nat} (h1 : Run P b i j) (h2 : Run P b j k) : Run P b i k := by
  intro x hx1 hx2
  rcases Nat.lt_or_ge x j with h | h
  · exact h1 x hx1 h
  · exact h2 x h hx2

theorem nr_run_one {P : UInt8 → Bool} {b : Buf} {i : Nat} {c : UInt8} (hb : b[i]? = some c) (hc : P c = true) :
    Run P b i (i + 1) := by
  intro x hx1 hx2
  have : x = i := by omega
  subst this; exact ⟨c, hb, hc⟩

theorem nr_run_app {P : UInt8 → Bool} {b : Buf} {i j : Nat} (h : Run P b i j) (s : Buf) : Run P (b ++ s) i j := by
  intro x hx1 hx2
  obtain ⟨c, hc, hp⟩ := h x hx1 hx2
  exact ⟨c, get?_app hc, hp⟩

/-- the bytes of a line end accepted by `skipCRLF` are CR / LF -/
theorem nr_skipCRLF_run {b : Buf} {i n crl : Nat} (h : skipCRLF b i = (n, crl, .ok)) : Run isLWSch b i n := by
  unfold skipCRLF at h
  cases h1 : b[i+1]? with
  | none =>
    rw [h1] at h
    simp only at h
    split at h
    · split at h <;> cases h
    · cases h
  | some c1 =>
    rw [h1] at h
    simp only at h
    split at h
    · cases h
    · rename_i c0 h0
      split at h
      · rename_i hc0
        have hl0 : isLWSch c0 = true := by
          have : c0 = 13 := by simpa using hc0
          rw [this]; decide
        split at h
        · rename_i hc1
          cases h
          have hl1 : isLWSch c1 = true := by
            have : c1 = 10 := by simpa using hc1
            rw [this]; decide
          exact nr_run_append (nr_run_one h0 hl0) (nr_run_one h1 hl1)
        · cases h; exact nr_run_one h0 hl0
      · split at h
        · rename_i hc0
          cases h
          have hl0 : isLWSch c0 = true := by
            have : c0 = 10 := by simpa using hc0
            rw [this]; decide
          exact nr_run_one h0 hl0
        · cases h

theorem nr_isWS_lws {c : UInt8} (h : isWS c = true) : isLWSch c = true := by
  unfold isWS at h; unfold isLWSch
  simp only [Bool.or_eq_true] at h ⊢
  rcases h with h | h
  · exact Or.inl (Or.inl (Or.inl h))
  · exact Or.inl (Or.inl (Or.inr h))

/-- everything `skipLWS` skips before it stops with Ok is white space or line-end bytes -/
theorem nr_skipLWS_run (b : Buf) (i flags : Nat) {n crl : Nat} (h : skipLWS b i flags = (n, crl, .ok)) :
    Run isLWSch b i n := by
  fun_induction skipLWS b i flags with
  | case1 i hb => cases h
  | case2 i c hb hws ih => exact nr_run_append (nr_run_one hb (nr_isWS_lws hws)) (ih h)
  | case3 i c hb hws hcr n' crl' hs hb2 hfl => cases h
  | case4 i c hb hws hcr n' crl' hs hb2 hfl => cases h
  | case5 i c hb hws hcr n' crl' hs c2 hb2 hws2 ih =>
    exact nr_run_append (nr_run_append (nr_skipCRLF_run hs) (nr_run_one hb2 (nr_isWS_lws hws2))) (ih h)
  | case6 i c hb hws hcr n' crl' hs c2 hb2 hws2 => cases h
  | case7 i c hb hws hcr n' crl' e' hne hs => cases h; exact (hne rfl).elim
  | case8 i c hb hws hcr => cases h; exact nr_run_empty _ _ _

/-- between the end of a parameter name and the start of its value: white space, one `=`, white space -/
def NrGap (b : Buf) (pe vs : Nat) : Prop :=
  ∃ eq, pe ≤ eq ∧ eq < vs ∧ Run isLWSch b pe eq ∧ b[eq]? = some 61 ∧ Run isLWSch b (eq + 1) vs

theorem nr_gap_eq {b : Buf} {pe i : Nat} {c : UInt8} (hr : Run isLWSch b pe i) (hpe : pe ≤ i) (hb : b[i]? = some c)
    (hc : (c == 61) = true) : NrGap b pe (i + 1) := by
  have : c = 61 := by simpa using hc
  subst this
  exact ⟨i, hpe, by omega, hr, hb, nr_run_empty _ _ _⟩

theorem NrGap.extend {b : Buf} {pe i n : Nat} (h : NrGap b pe i) (hr : Run isLWSch b i n) (hin : i ≤ n) : NrGap b pe n := by
  obtain ⟨eq, h1, h2, h3, h4, h5⟩ := h
  exact ⟨eq, h1, by omega, h3, h4, nr_run_append h5 hr⟩

theorem NrGap.app {b : Buf} {pe vs : Nat} (h : NrGap b pe vs) (s : Buf) : NrGap (b ++ s) pe vs := by
  obtain ⟨eq, h1, h2, h3, h4, h5⟩ := h
  exact ⟨eq, h1, h2, nr_run_app h3 s, get?_app h4, nr_run_app h5 s⟩

/-- the gap claim is made for the header kinds whose values are separated by `,` (Contact, …): in the other kinds
    (From, To, …) the automaton silently skips commas in front of an unquoted parameter value -/
def nrGapM (mv : Bool) (b : Buf) (pe vs : Nat) : Prop := match mv with | true => NrGap b pe vs | false => True

def nrEqM (mv : Bool) (vs i : Nat) : Prop := match mv with | true => vs = i | false => True

theorem nrGapM.app {mv : Bool} {b : Buf} {pe vs : Nat} (h : nrGapM mv b pe vs) (s : Buf) : nrGapM mv (b ++ s) pe vs := by
  cases mv
  · trivial
  · exact NrGap.app h s

/-! ### D. the loop invariant: the numeric fields are the fold of `nrEffect` over recorded spans -/

/-- a recorded parameter span: the name `[ps, pe)` is not empty and starts at or after `o`; either there is no value
    text (`vs = ve`) or the value `[vs, ve)` is not empty, lies after the name, and between the two there is nothing but
    white space and exactly one `=`; everything ends at or before `lim` -/
def NrSpanOk (mv : Bool) (b : Buf) (o lim : Nat) (x : PSpan) : Prop :=
  o ≤ x.ps ∧ x.ps < x.pe ∧ x.pe ≤ lim ∧ (x.vs = x.ve ∨ (x.pe < x.vs ∧ x.vs < x.ve ∧ x.ve ≤ lim ∧ nrGapM mv b x.pe x.vs))

theorem NrSpanOk.mono {mv : Bool} {b : Buf} {o i j : Nat} {x : PSpan} (h : NrSpanOk mv b o i x) (hij : i ≤ j) : NrSpanOk mv b o j x := by
  obtain ⟨h1, h2, h3, h4⟩ := h
  refine ⟨h1, h2, by omega, ?_⟩
  rcases h4 with h4 | h4
  · exact Or.inl h4
  · exact Or.inr ⟨h4.1, h4.2.1, by have := h4.2.2.1; omega, h4.2.2.2⟩

variable {mv : Bool}

/-- the numeric fields after all parameters of the list, in order -/
def nrAll (b : Buf) (L : List PSpan) (m : NrNum) : NrNum := L.foldl (fun m x => nrEffect b x.ps x.pe x.vs x.ve m) m

/-- the numeric fields `m` are what the parameters at the spans `L` (in order) do to `m0` -/
def NrAcc (mv : Bool) (b : Buf) (m0 : NrNum) (o lim : Nat) (m : NrNum) : Prop :=
  ∃ L : List PSpan, m = nrAll b L m0 ∧ ∀ x ∈ L, NrSpanOk mv b o lim x

theorem NrAcc.mono {b : Buf} {m0 m : NrNum} {o i j : Nat} (h : NrAcc mv b m0 o i m) (hij : i ≤ j) : NrAcc mv b m0 o j m := by
  obtain ⟨L, h1, h2⟩ := h
  exact ⟨L, h1, fun x hx => (h2 x hx).mono hij⟩

theorem nr_all_snoc (b : Buf) (L : List PSpan) (x : PSpan) (m : NrNum) :
    nrAll b (L ++ [x]) m = nrEffect b x.ps x.pe x.vs x.ve (nrAll b L m) := by
  unfold nrAll
  rw [List.foldl_append]
  rfl

theorem NrAcc.snoc {b : Buf} {m0 m : NrNum} {o i : Nat} (h : NrAcc mv b m0 o i m) (x : PSpan) (hx : NrSpanOk mv b o i x) :
    NrAcc mv b m0 o i (nrEffect b x.ps x.pe x.vs x.ve m) := by
  obtain ⟨L, h1, h2⟩ := h
  refine ⟨L ++ [x], by rw [nr_all_snoc, h1], ?_⟩
  intro y hy
  rcases List.mem_append.1 hy with hy | hy
  · exact h2 y hy
  · rw [List.mem_singleton.1 hy]; exact hx

/-- what a returned object satisfies -/
def NrOut (mv : Bool) (b : Buf) (m0 : NrNum) (o lim : Nat) (pf : PFromBody) : Prop :=
  lim ≤ b.size ∧ NrAcc mv b m0 o lim pf.nrNum

theorem NrOut.mono {b : Buf} {m0 : NrNum} {o i j : Nat} {pf : PFromBody} (h : NrOut mv b m0 o i pf) (hij : i ≤ j)
    (hj : j ≤ b.size) : NrOut mv b m0 o j pf := ⟨hj, h.2.mono hij⟩

/-- the four work offsets, by automaton state -/
def nrPend (mv : Bool) (b : Buf) (o i : Nat) (st : FBState) (ps pe vs ve : Nat) : Prop :=
  match st with
  | .paramName | .possibleParamName => o ≤ ps ∧ ps < i ∧ vs = ve
  | .paramNameEnd | .possibleParamNameEnd => o ≤ ps ∧ ps < pe ∧ vs = ve ∧ Run isLWSch b pe i
  | .newParamVal | .newPossibleVal => o ≤ ps ∧ ps < pe ∧ pe < vs ∧ vs ≤ i ∧ nrEqM mv vs i ∧ nrGapM mv b pe i
  | .paramVal | .possibleVal | .quotedVal | .quotedPossibleVal => o ≤ ps ∧ ps < pe ∧ pe < vs ∧ vs < i ∧ nrGapM mv b pe vs
  | .paramValEnd | .possibleValEnd => o ≤ ps ∧ ps < pe ∧ pe < vs ∧ vs < ve ∧ nrGapM mv b pe vs
  | _ => pe ≤ ps ∧ vs = ve

/-- the states whose facts mention the current position exactly (the scan stands right after white space) -/
def nrAtPos (st : FBState) : Prop :=
  st = .paramNameEnd ∨ st = .possibleParamNameEnd ∨ st = .newParamVal ∨ st = .newPossibleVal

theorem nrPend_mono {b : Buf} {o i j : Nat} {st : FBState} {ps pe vs ve : Nat} (h : nrPend mv b o i st ps pe vs ve) (hij : i ≤ j)
    (hst : ¬ nrAtPos st) : nrPend mv b o j st ps pe vs ve := by
  unfold nrAtPos at hst
  cases st <;> simp only [nrPend] at h ⊢ <;>
    first
      | omega
      | exact absurd (Or.inl rfl) hst
      | exact absurd (Or.inr (Or.inl rfl)) hst
      | exact absurd (Or.inr (Or.inr (Or.inl rfl))) hst
      | exact absurd (Or.inr (Or.inr (Or.inr rfl))) hst
      | exact ⟨h.1, h.2.1, h.2.2.1, by have := h.2.2.2.1; omega, h.2.2.2.2⟩

/-- **the loop invariant** -/
structure NrInv (mv : Bool) (b : Buf) (m0 : NrNum) (o i : Nat) (pf : PFromBody) : Prop where
  oi : o ≤ i
  hi : i ≤ b.size
  pend : pf.pend ≤ i
  vend : pf.vend ≤ i
  pk : nrPend mv b o i pf.state pf.pstart pf.pend pf.vstart pf.vend
  acc : NrAcc mv b m0 o i pf.nrNum

theorem NrInv.mono {b : Buf} {m0 : NrNum} {o i j : Nat} {pf : PFromBody} (h : NrInv mv b m0 o i pf) (hij : i ≤ j)
    (hj : j ≤ b.size) (hst : ¬ nrAtPos pf.state) : NrInv mv b m0 o j pf :=
  ⟨by have := h.oi; omega, hj, by have := h.pend; omega, by have := h.vend; omega, nrPend_mono h.pk hij hst, h.acc.mono hij⟩

theorem NrInv.out {b : Buf} {m0 : NrNum} {o i : Nat} {pf : PFromBody} (h : NrInv mv b m0 o i pf) : NrOut mv b m0 o i pf :=
  ⟨h.hi, h.acc⟩

/-- the invariant only looks at the state, the work offsets and the parameter-dependent fields -/
theorem NrInv.congr {b : Buf} {m0 : NrNum} {o i : Nat} {pf pf' : PFromBody} (h : NrInv mv b m0 o i pf)
    (h1 : pf'.state = pf.state) (h2 : pf'.pstart = pf.pstart) (h3 : pf'.pend = pf.pend) (h4 : pf'.vstart = pf.vstart)
    (h5 : pf'.vend = pf.vend) (h6 : pf'.nrNum = pf.nrNum) : NrInv mv b m0 o i pf' :=
  ⟨h.oi, h.hi, by rw [h3]; exact h.pend, by rw [h5]; exact h.vend, by rw [h1, h2, h3, h4, h5]; exact h.pk,
   by rw [h6]; exact h.acc⟩

theorem NrOut.congr {b : Buf} {m0 : NrNum} {o i : Nat} {pf pf' : PFromBody} (h : NrOut mv b m0 o i pf)
    (h6 : pf'.nrNum = pf.nrNum) : NrOut mv b m0 o i pf' := ⟨h.1, by rw [h6]; exact h.2⟩

/-! #### `setFromParamVal` under the invariant -/

theorem nr_sfp_acc (b : Buf) (pf : PFromBody) (h1 : pf.pend ≤ b.size) (h2 : pf.vend ≤ b.size) :
    (setFromParamVal b pf).nrNum = nrEffect b pf.pstart pf.pend pf.vstart pf.vend pf.nrNum ∧
    (setFromParamVal b pf).state = pf.state ∧ (setFromParamVal b pf).pstart = 0 ∧ (setFromParamVal b pf).pend = 0 ∧
    (setFromParamVal b pf).vstart = 0 ∧ (setFromParamVal b pf).vend = 0 := by
  refine ⟨nr_sfp_num b pf h1 h2, ?_⟩
  rw [setFromParamVal_eq b pf h1 h2]
  exact ⟨rfl, rfl, rfl, rfl, rfl⟩

/-- storing a parameter: the span joins the list -/
theorem nr_sfp_out {b : Buf} {m0 : NrNum} {o i : Nat} (pf : PFromBody) (hi : i ≤ b.size) (hpe : pf.pend ≤ i)
    (hve : pf.vend ≤ i) (hsp : NrSpanOk mv b o i ⟨pf.pstart, pf.pend, pf.vstart, pf.vend⟩) (hacc : NrAcc mv b m0 o i pf.nrNum) :
    NrOut mv b m0 o i (setFromParamVal b pf) := by
  have h := nr_sfp_acc b pf (by omega) (by omega)
  refine ⟨hi, ?_⟩
  rw [h.1]
  exact hacc.snoc ⟨pf.pstart, pf.pend, pf.vstart, pf.vend⟩ hsp

theorem nr_sfp_inv {b : Buf} {m0 : NrNum} {o i j : Nat} (pf : PFromBody) (hoi : o ≤ i) (hi : i ≤ b.size) (hpe : pf.pend ≤ i)
    (hve : pf.vend ≤ i) (hsp : NrSpanOk mv b o i ⟨pf.pstart, pf.pend, pf.vstart, pf.vend⟩) (hacc : NrAcc mv b m0 o i pf.nrNum)
    (hst : pf.state = .newParam ∨ pf.state = .newPossibleParam) (hij : i ≤ j) (hj : j ≤ b.size) :
    NrInv mv b m0 o j (setFromParamVal b pf) := by
  have h := nr_sfp_acc b pf (by omega) (by omega)
  have ho := nr_sfp_out pf hi hpe hve hsp hacc
  refine ⟨by omega, hj, by rw [h.2.2.2.1]; omega, by rw [h.2.2.2.2.2]; omega, ?_, ho.2.mono hij⟩
  rw [h.2.1, h.2.2.1, h.2.2.2.1, h.2.2.2.2.1, h.2.2.2.2.2]
  rcases hst with g | g <;> rw [g] <;> exact ⟨Nat.le_refl _, rfl⟩

/-! #### the end-of-value code -/

def nrPf1 (pf : PFromBody) (e : Nat) : PFromBody :=
  if pf.state == .paramName || pf.state == .possibleParamName then { pf with pend := e } else pf

def nrPf2 (b : Buf) (pf : PFromBody) (e : Nat) : PFromBody :=
  if (nrPf1 pf e).pstart < (nrPf1 pf e).pend then setFromParamVal b (nrPf1 pf e) else nrPf1 pf e

theorem nr_eohPN_acc (b : Buf) (pf : PFromBody) (e : Nat) : (naEOHParamName b pf e).nrNum = (nrPf2 b pf e).nrNum := by
  show ((if (nrPf2 b pf e).params.offs != 0 then (nrPf2 b pf e).extParams e else nrPf2 b pf e).extV e).nrNum = _
  generalize nrPf2 b pf e = pf2
  split <;> rfl

/-- parameter-name states at the end of the value -/
theorem nr_eohPN {b : Buf} {m0 : NrNum} {o i : Nat} {pf : PFromBody} (hI : NrInv mv b m0 o i pf) (e : Nat)
    (hst : pf.state = .newParam ∨ pf.state = .newPossibleParam ∨ ((pf.state = .paramName ∨ pf.state = .possibleParamName) ∧ e = i) ∨
      pf.state = .paramNameEnd ∨ pf.state = .possibleParamNameEnd) :
    NrOut mv b m0 o i (naEOHParamName b pf e) := by
  obtain ⟨h1, h2, h3, h4, h5, h6⟩ := hI
  refine NrOut.congr (pf := nrPf2 b pf e) ?_ (nr_eohPN_acc b pf e)
  unfold nrPf2 nrPf1
  rcases hst with g | g | ⟨g | g, rfl⟩ | g | g <;> simp +decide only [g, ↓reduceIte] <;> simp only [g, nrPend] at h5
  · rw [if_neg (by omega)]; exact ⟨h2, h6⟩
  · rw [if_neg (by omega)]; exact ⟨h2, h6⟩
  · rw [if_pos (by show pf.pstart < e; omega)]
    exact nr_sfp_out _ h2 (Nat.le_refl _) h4 ⟨h5.1, h5.2.1, Nat.le_refl _, Or.inl h5.2.2⟩ h6
  · rw [if_pos (by show pf.pstart < e; omega)]
    exact nr_sfp_out _ h2 (Nat.le_refl _) h4 ⟨h5.1, h5.2.1, Nat.le_refl _, Or.inl h5.2.2⟩ h6
  · rw [if_pos h5.2.1]
    exact nr_sfp_out _ h2 h3 h4 ⟨h5.1, h5.2.1, h3, Or.inl h5.2.2.1⟩ h6
  · rw [if_pos h5.2.1]
    exact nr_sfp_out _ h2 h3 h4 ⟨h5.1, h5.2.1, h3, Or.inl h5.2.2.1⟩ h6

/-- value states at the end of the value (the value ends at the current position) -/
theorem nr_eohPV {b : Buf} {m0 : NrNum} {o i : Nat} {pf : PFromBody} (hI : NrInv mv b m0 o i pf)
    (hst : pf.state = .paramVal ∨ pf.state = .possibleVal) : NrOut mv b m0 o i (naEOHVal b pf i) := by
  obtain ⟨h1, h2, h3, h4, h5, h6⟩ := hI
  refine NrOut.congr (pf := setFromParamVal b { pf with vend := i }) ?_ rfl
  have h5' : o ≤ pf.pstart ∧ pf.pstart < pf.pend ∧ pf.pend < pf.vstart ∧ pf.vstart < i ∧ nrGapM mv b pf.pend pf.vstart := by
    rcases hst with g | g <;> simpa only [g, nrPend] using h5
  exact nr_sfp_out _ h2 h3 (Nat.le_refl _)
    ⟨h5'.1, h5'.2.1, h3, Or.inr ⟨h5'.2.2.1, h5'.2.2.2.1, Nat.le_refl _, h5'.2.2.2.2⟩⟩ h6

theorem nr_eohNV {b : Buf} {m0 : NrNum} {o i : Nat} {pf : PFromBody} (hI : NrInv mv b m0 o i pf)
    (hst : pf.state = .newParamVal ∨ pf.state = .newPossibleVal) :
    NrOut mv b m0 o i (naEOHVal b { pf with vstart := i } i) := by
  obtain ⟨h1, h2, h3, h4, h5, h6⟩ := hI
  refine NrOut.congr (pf := setFromParamVal b { pf with vstart := i, vend := i }) ?_ rfl
  have h5' : o ≤ pf.pstart ∧ pf.pstart < pf.pend ∧ pf.pend < pf.vstart ∧ pf.vstart ≤ i ∧ nrEqM mv pf.vstart i ∧
      nrGapM mv b pf.pend i := by
    rcases hst with g | g <;> simpa only [g, nrPend] using h5
  exact nr_sfp_out _ h2 h3 (Nat.le_refl _) ⟨h5'.1, h5'.2.1, h3, Or.inl rfl⟩ h6

theorem nr_eohPVE {b : Buf} {m0 : NrNum} {o i : Nat} {pf : PFromBody} (hI : NrInv mv b m0 o i pf) (e : Nat)
    (hst : pf.state = .paramValEnd ∨ pf.state = .possibleValEnd) :
    NrOut mv b m0 o i (((setFromParamVal b pf).extParams e).extV e) := by
  obtain ⟨h1, h2, h3, h4, h5, h6⟩ := hI
  refine NrOut.congr (pf := setFromParamVal b pf) ?_ rfl
  have h5' : o ≤ pf.pstart ∧ pf.pstart < pf.pend ∧ pf.pend < pf.vstart ∧ pf.vstart < pf.vend ∧ nrGapM mv b pf.pend pf.vstart := by
    rcases hst with g | g <;> simpa only [g, nrPend] using h5
  exact nr_sfp_out _ h2 h3 h4 ⟨h5'.1, h5'.2.1, h3, Or.inr ⟨h5'.2.2.1, h5'.2.2.2.1, h4, h5'.2.2.2.2⟩⟩ h6

/-- **label `endOfHdr`**: whatever the state, the returned object satisfies `NrOut`.  `e` is the end of the value: the
    current position, or (new `,` case after white space) the saved end of the last name / value. -/
theorem nr_eoh (h : Nat) {b : Buf} {m0 : NrNum} {o i : Nat} {pf : PFromBody} (hI : NrInv mv b m0 o i pf) (e n crl : Nat) (r : Err)
    (he : e = i ∨ pf.state = .paramNameEnd ∨ pf.state = .possibleParamNameEnd ∨ pf.state = .paramValEnd ∨
      pf.state = .possibleValEnd) (hin : i ≤ n + crl) (hn : n + crl ≤ b.size) :
    NrOut mv b m0 o (naEOH h b pf e n crl r).1 (naEOH h b pf e n crl r).2.2 := by
  rw [naEOH_fst]
  refine NrOut.mono (i := i) ?_ hin hn
  have fin_out : ∀ p : PFromBody, NrOut mv b m0 o i p → NrOut mv b m0 o i { p with state := .fin, soffs := 0, type := h } :=
    fun p hp => hp.congr rfl
  unfold naEOH
  cases hst : pf.state <;> simp only [naFinish]
  all_goals first
    | exact fin_out _ hI.out
    | exact hI.out
    | exact fin_out _ (hI.out.congr rfl)
    | exact fin_out _ (nr_eohPN hI e (Or.inl hst))
    | exact fin_out _ (nr_eohPN hI e (Or.inr (Or.inl hst)))
    | exact fin_out _ (nr_eohPN hI e (Or.inr (Or.inr (Or.inr (Or.inl hst)))))
    | exact fin_out _ (nr_eohPN hI e (Or.inr (Or.inr (Or.inr (Or.inr hst)))))
    | exact fin_out _ (nr_eohPVE hI e (Or.inl hst))
    | exact fin_out _ (nr_eohPVE hI e (Or.inr hst))
    | (have hE : e = i := by
         rcases he with he | he | he | he | he <;> first | exact he | (rw [hst] at he; cases he)
       subst hE
       first
         | exact fin_out _ (nr_eohPN hI e (Or.inr (Or.inr (Or.inl ⟨Or.inl hst, rfl⟩))))
         | exact fin_out _ (nr_eohPN hI e (Or.inr (Or.inr (Or.inl ⟨Or.inr hst, rfl⟩))))
         | exact fin_out _ (nr_eohPV hI (Or.inl hst))
         | exact fin_out _ (nr_eohPV hI (Or.inr hst))
         | (rw [← hst]; exact fin_out _ (nr_eohNV hI (Or.inl hst)))
         | (rw [← hst]; exact fin_out _ (nr_eohNV hI (Or.inr hst))))

/-! #### one step of the loop body -/

/-- what one step guarantees: a continuing step and a MoreBytes exit keep the invariant, every exit satisfies `NrOut` -/
def nrStepOk (mv : Bool) (b : Buf) (m0 : NrNum) (o : Nat) : Step PFromBody → Prop
  | .cont i' st' => NrInv mv b m0 o i' st'
  | .done p e st' => NrOut mv b m0 o p st' ∧ (e = .moreBytes → NrInv mv b m0 o p st')

theorem nr_ok_cont {b : Buf} {m0 : NrNum} {o i' : Nat} {st' : PFromBody} (hI : NrInv mv b m0 o i' st') :
    nrStepOk mv b m0 o (.cont i' st') := hI

theorem nr_ok_err {b : Buf} {m0 : NrNum} {o p : Nat} {e : Err} {st' : PFromBody} (hout : NrOut mv b m0 o p st')
    (he : e ≠ .moreBytes) : nrStepOk mv b m0 o (.done p e st') := ⟨hout, fun hh => absurd hh he⟩

theorem nr_ok_more {b : Buf} {m0 : NrNum} {o p : Nat} {e : Err} {st' : PFromBody} (hI : NrInv mv b m0 o p st') :
    nrStepOk mv b m0 o (.done p e st') := ⟨hI.out, fun _ => hI⟩

theorem NrInv.saveS {b : Buf} {m0 : NrNum} {o i : Nat} {pf : PFromBody} (h : NrInv mv b m0 o i pf) : NrInv mv b m0 o i pf.saveS :=
  h.congr rfl rfl rfl rfl rfl rfl

theorem nr_eoh_ok (h : Nat) {b : Buf} {m0 : NrNum} {o i : Nat} {pf : PFromBody} (hI : NrInv mv b m0 o i pf) (e n crl : Nat) (r : Err)
    (hr : r ≠ .moreBytes)
    (he : e = i ∨ pf.state = .paramNameEnd ∨ pf.state = .possibleParamNameEnd ∨ pf.state = .paramValEnd ∨
      pf.state = .possibleValEnd) (hin : i ≤ n + crl) (hn : n + crl ≤ b.size) :
    nrStepOk mv b m0 o (.done (naEOH h b pf e n crl r).1 (naEOH h b pf e n crl r).2.1 (naEOH h b pf e n crl r).2.2) :=
  nr_ok_err (nr_eoh h hI e n crl r he hin hn) (naEOH_ne_more h b pf e n crl r hr)

theorem nr_moreValues (h : Nat) {b : Buf} {m0 : NrNum} {o i : Nat} {pf : PFromBody} (hI : NrInv mv b m0 o i pf) (hlt : i < b.size) :
    nrStepOk mv b m0 o (naMoreValues h b pf i) :=
  nr_eoh_ok h hI i i 1 .moreValues (by decide) (Or.inl rfl) (by omega) (by omega)

theorem nr_commaAfterWS (h : Nat) {b : Buf} {m0 : NrNum} {o i : Nat} {pf : PFromBody} (hI : NrInv mv b m0 o i pf) (hlt : i < b.size)
    (e : Nat) (hst : pf.state = .paramNameEnd ∨ pf.state = .possibleParamNameEnd ∨ pf.state = .paramValEnd ∨
      pf.state = .possibleValEnd) : nrStepOk mv b m0 o (naCommaAfterWS h b pf i e) := by
  unfold naCommaAfterWS
  split
  · exact nr_eoh_ok h hI e i 1 .moreValues (by decide) (Or.inr hst) (by omega) (by omega)
  · exact nr_ok_err hI.out (by decide)

theorem nr_naLWS (h : Nat) {b : Buf} {m0 : NrNum} {o i : Nat} {pf : PFromBody} (hI : NrInv mv b m0 o i pf)
    (hne : ¬ nrAtPos pf.state) : nrStepOk mv b m0 o (naLWS h b i pf) := by
  unfold naLWS lwsStd
  rcases hsk : skipLWS b i 0 with ⟨n, crl, e1⟩
  have hr := skipLWS_range b i 0 hsk
  have hv := skipLWS_verdicts b i 0 hsk
  rcases hv with rfl | rfl | rfl | rfl <;> simp only
  · exact hI.mono hr.1 (hr.2 hI.hi) hne
  · have hrg := skipLWS_eoh_range b i 0 hsk (by decide)
    exact nr_eoh_ok h hI i n crl .ok (by decide) (Or.inl rfl) (by omega) (by omega)
  · exact nr_ok_err (hI.out.mono hr.1 (hr.2 hI.hi)) (by decide)
  · exact nr_ok_more (hI.mono hr.1 (hr.2 hI.hi) hne).saveS

/-- splits a conjunction of (in)equalities, white-space runs and gaps and closes each part; `h5` is the (simplified)
    `nrPend` fact of the object before the step -/
macro "nr_arith" h5:ident : tactic =>
  `(tactic| ((repeat' apply And.intro) <;>
      first
        | trivial
        | omega
        | assumption
        | exact nr_run_empty _ _ _
        | (simp only [$h5:ident]; done)
        | exact nr_gap_eq (nr_run_empty _ _ _) (Nat.le_refl _) (by assumption) (by assumption)
        | exact nr_gap_eq (by simp only [$h5:ident]) (by omega) (by assumption) (by assumption)
        | (refine NrGap.extend ?_ (by assumption) (by omega); simp only [$h5:ident]; done)))

/-- closes `NrInv … pf'` for an explicitly updated object from the destructured invariant of `pf` (`h5`, its `nrPend`
    fact, already simplified with the state equation `g`; `h6` its `NrAcc` fact) -/
macro "nr_close" g:ident h5:ident h6:ident : tactic =>
  `(tactic| (refine ⟨?_, ?_, ?_, ?_, ?_, NrAcc.mono $h6 (by omega)⟩
             · omega
             · omega
             · first | omega | (dsimp only [PFromBody.setURI, PFromBody.setName, PFromBody.setV, PFromBody.extV,
                 PFromBody.extParams, PFromBody.resetUPT]; omega)
             · first | omega | (dsimp only [PFromBody.setURI, PFromBody.setName, PFromBody.setV, PFromBody.extV,
                 PFromBody.extParams, PFromBody.resetUPT]; omega)
             · (simp only [nrPend, nrGapM, nrEqM, $g:ident, PFromBody.setURI, PFromBody.setName, PFromBody.setV, PFromBody.extV,
                 PFromBody.extParams, PFromBody.resetUPT]; nr_arith $h5)))

theorem nr_stepA (h : Nat) {b : Buf} {m0 : NrNum} {o i : Nat} {pf : PFromBody} (c : UInt8) (hb : b[i]? = some c)
    (hI : NrInv mv b m0 o i pf)
    (hg : pf.state = .init ∨ pf.state = .name ∨ pf.state = .nameOrURI ∨ pf.state = .nameOrURIEnd) :
    nrStepOk mv b m0 o (naStepA h b i c pf) := by
  have hib := get?_lt hb
  have hI' := hI
  obtain ⟨h1, h2, h3, h4, h5, h6⟩ := hI
  unfold naStepA
  rcases hg with g | g | g | g <;> simp only [nrPend, nrGapM, nrEqM, g] at h5 <;> simp +decide only [g, Bool.false_eq_true, ↓reduceIte] <;> repeat' split
  all_goals first
    | exact nr_naLWS h hI' (by simp [nrAtPos, g])
    | exact nr_moreValues h hI' hib
    | exact nr_ok_err hI'.out (by decide)
    | (refine nr_naLWS h ?_ ?_ <;> first | nr_close g h5 h6 | simp [nrAtPos])
    | (refine nr_ok_cont ?_; nr_close g h5 h6)

theorem nr_stepQ (h : Nat) {b : Buf} {m0 : NrNum} {o i : Nat} {pf : PFromBody} (c : UInt8) (hb : b[i]? = some c)
    (hI : NrInv mv b m0 o i pf)
    (hg : pf.state = .quoted ∨ pf.state = .quotedVal ∨ pf.state = .quotedPossibleVal) :
    nrStepOk mv b m0 o (naStepQ h b i c pf) := by
  have hib := get?_lt hb
  have hI' := hI
  obtain ⟨h1, h2, h3, h4, h5, h6⟩ := hI
  unfold naStepQ
  rcases hg with g | g | g <;> simp only [nrPend, nrGapM, nrEqM, g] at h5 <;> simp +decide only [g, Bool.false_eq_true, ↓reduceIte] <;> repeat' split
  all_goals first
    | exact nr_naLWS h hI' (by simp [nrAtPos, g])
    | exact nr_ok_more hI'.saveS
    | (have hq := get?_lt (by assumption : b[i + 1]? = some _)
       first
         | exact nr_ok_err (hI'.out.mono (by omega) (by omega)) (by decide)
         | exact nr_ok_cont (hI'.mono (by omega) (by omega) (by simp [nrAtPos, g])))
    | (refine nr_ok_cont ?_; nr_close g h5 h6)

theorem nr_stepU {b : Buf} {m0 : NrNum} {o i : Nat} {pf : PFromBody} (c : UInt8) (hb : b[i]? = some c)
    (hI : NrInv mv b m0 o i pf) (g : pf.state = .uri) : nrStepOk mv b m0 o (naStepU i c pf) := by
  have hib := get?_lt hb
  have hI' := hI
  obtain ⟨h1, h2, h3, h4, h5, h6⟩ := hI
  simp only [nrPend, g] at h5
  unfold naStepU
  repeat' split
  all_goals first
    | exact nr_ok_err hI'.out (by decide)
    | (refine nr_ok_cont ?_; nr_close g h5 h6)

theorem nr_stepUF (h : Nat) {b : Buf} {m0 : NrNum} {o i : Nat} {pf : PFromBody} (c : UInt8) (hb : b[i]? = some c)
    (hI : NrInv mv b m0 o i pf) (g : pf.state = .uriFound) : nrStepOk mv b m0 o (naStepUF h b i c pf) := by
  have hib := get?_lt hb
  have hI' := hI
  obtain ⟨h1, h2, h3, h4, h5, h6⟩ := hI
  simp only [nrPend, g] at h5
  unfold naStepUF
  repeat' split
  all_goals first
    | exact nr_naLWS h hI' (by simp [nrAtPos, g])
    | exact nr_moreValues h hI' hib
    | (refine nr_ok_cont ?_; nr_close g h5 h6)

theorem nr_stepStar (h : Nat) {b : Buf} {m0 : NrNum} {o i : Nat} {pf : PFromBody} (c : UInt8)
    (hI : NrInv mv b m0 o i pf) (g : pf.state = .star) : nrStepOk mv b m0 o (naStepStar h b i c pf) := by
  unfold naStepStar
  split
  · exact nr_naLWS h hI (by simp [nrAtPos, g])
  · exact nr_ok_err hI.out (by decide)

/-! #### parameter names -/

/-- a parameter without value text ends at `;` -/
theorem nr_sfp_flag {b : Buf} {m0 : NrNum} {o i : Nat} (pf : PFromBody) (hoi : o ≤ i) (hib : i < b.size)
    (h1 : o ≤ pf.pstart) (h2 : pf.pstart < pf.pend) (h3 : pf.pend ≤ i) (h4 : pf.vend ≤ i) (h5 : pf.vstart = pf.vend)
    (hacc : NrAcc mv b m0 o i pf.nrNum) (hst : pf.state = .newParam ∨ pf.state = .newPossibleParam) :
    NrInv mv b m0 o (i + 1) (setFromParamVal b pf) :=
  nr_sfp_inv pf hoi (by omega) h3 h4 ⟨h1, h2, h3, Or.inl h5⟩ hacc hst (by omega) (by omega)

/-- a parameter with `=` ends at `;` (the value text may be empty) -/
theorem nr_sfp_val {b : Buf} {m0 : NrNum} {o i : Nat} (pf : PFromBody) (hoi : o ≤ i) (hib : i < b.size)
    (h1 : o ≤ pf.pstart) (h2 : pf.pstart < pf.pend) (h3 : pf.pend < pf.vstart) (h4 : pf.vstart ≤ pf.vend) (h5 : pf.vend ≤ i)
    (hgap : nrGapM mv b pf.pend pf.vstart)
    (hacc : NrAcc mv b m0 o i pf.nrNum) (hst : pf.state = .newParam ∨ pf.state = .newPossibleParam) :
    NrInv mv b m0 o (i + 1) (setFromParamVal b pf) := by
  refine nr_sfp_inv pf hoi (by omega) (by omega) h5 ⟨h1, h2, by show pf.pend ≤ i; omega, ?_⟩ hacc hst (by omega) (by omega)
  rcases Nat.lt_or_ge pf.vstart pf.vend with hlt | hge
  · exact Or.inr ⟨h3, hlt, h5, hgap⟩
  · exact Or.inl (by show pf.vstart = pf.vend; omega)

/-- white space after a parameter name (`n` = where the white space ends) -/
theorem nr_nameWS {b : Buf} {m0 : NrNum} {o i n : Nat} {pf : PFromBody} (hI : NrInv mv b m0 o i pf)
    (hg : pf.state = .newParam ∨ pf.state = .newPossibleParam ∨ pf.state = .paramName ∨ pf.state = .possibleParamName)
    (hin : i ≤ n) (hn : n ≤ b.size) (hrun : Run isLWSch b i n) : NrInv mv b m0 o n (naNameWS pf i) := by
  obtain ⟨h1, h2, h3, h4, h5, h6⟩ := hI
  unfold naNameWS
  rcases hg with g | g | g | g <;> simp only [nrPend, nrGapM, nrEqM, g] at h5 <;> simp +decide only [g, Bool.false_eq_true, ↓reduceIte] <;> nr_close g h5 h6

theorem nr_paramStart {b : Buf} {m0 : NrNum} {o i : Nat} {pf : PFromBody} (hI : NrInv mv b m0 o i pf) (hib : i < b.size)
    (hg : pf.state = .newParam ∨ pf.state = .newPossibleParam ∨ pf.state = .paramName ∨ pf.state = .possibleParamName) :
    NrInv mv b m0 o (i + 1) (naParamsOffs (naParamStart pf i) i) := by
  obtain ⟨h1, h2, h3, h4, h5, h6⟩ := hI
  unfold naParamsOffs naParamStart
  rcases hg with g | g | g | g <;> simp only [nrPend, nrGapM, nrEqM, g] at h5 <;> simp +decide only [g, Bool.false_eq_true, ↓reduceIte] <;> split <;>
    nr_close g h5 h6

/-- `case fbNewParam, fbNewPossibleParam, fbParamName, fbPossibleParamName:` -/
theorem nr_stepP (h : Nat) {b : Buf} {m0 : NrNum} {o i : Nat} {pf : PFromBody} (c : UInt8) (hb : b[i]? = some c)
    (hmv : multipleValsOk h = mv) (hI : NrInv mv b m0 o i pf)
    (hg : pf.state = .newParam ∨ pf.state = .newPossibleParam ∨ pf.state = .paramName ∨ pf.state = .possibleParamName) :
    nrStepOk mv b m0 o (naStepP h b i c pf) := by
  have hib := get?_lt hb
  have hI' := hI
  have hW := nr_nameWS hI hg (Nat.le_refl _) hI.hi (nr_run_empty _ _ _)
  have hS := nr_paramStart hI hib hg
  obtain ⟨h1, h2, h3, h4, h5, h6⟩ := hI
  unfold naStepP
  split
  · rcases hsk : skipLWS b i 0 with ⟨n, crl, e1⟩
    have hr := skipLWS_range b i 0 hsk
    have hv := skipLWS_verdicts b i 0 hsk
    rcases hv with rfl | rfl | rfl | rfl <;> simp only
    · exact nr_ok_cont (nr_nameWS hI' hg hr.1 (hr.2 h2) (nr_skipLWS_run b i 0 hsk))
    · have hrg := skipLWS_eoh_range b i 0 hsk (by decide)
      exact nr_eoh_ok h hW i n crl .ok (by decide) (Or.inl rfl) (by omega) (by omega)
    · exact nr_ok_err (hW.out.mono hr.1 (hr.2 h2)) (by decide)
    · exact nr_ok_more hI'.saveS
  · rcases hg with g | g | g | g <;> cases mv <;> simp only [nrPend, nrGapM, nrEqM, g] at h5 <;> simp +decide only [g, hmv, Bool.false_eq_true, ↓reduceIte] <;> repeat' split
    all_goals first
      | exact nr_moreValues h hI' hib
      | exact nr_ok_err hI'.out (by decide)
      | exact nr_ok_cont hS
      | (refine nr_ok_cont (nr_sfp_flag _ h1 hib ?_ ?_ ?_ ?_ ?_ h6 (by first | exact Or.inl rfl | exact Or.inr rfl)) <;>
           first | omega | (dsimp only; omega))
      | (refine nr_ok_cont ?_; nr_close g h5 h6)

/-- `case fbParamNameEnd, fbPossibleParamNameEnd:` -/
theorem nr_stepPE (h : Nat) {b : Buf} {m0 : NrNum} {o i : Nat} {pf : PFromBody} (c : UInt8) (hb : b[i]? = some c)
    (hI : NrInv mv b m0 o i pf) (hg : pf.state = .paramNameEnd ∨ pf.state = .possibleParamNameEnd) :
    nrStepOk mv b m0 o (naStepPE h b i c pf) := by
  have hib := get?_lt hb
  have hI' := hI
  have hC := nr_commaAfterWS h hI hib pf.pend (by rcases hg with g | g <;> simp [g])
  obtain ⟨h1, h2, h3, h4, h5, h6⟩ := hI
  unfold naStepPE
  rcases hg with g | g <;> cases mv <;> simp only [nrPend, nrGapM, nrEqM, g] at h5 <;> simp +decide only [g, Bool.false_eq_true, ↓reduceIte] <;> repeat' split
  all_goals first
    | exact hC
    | exact nr_ok_err hI'.out (by decide)
    | (refine nr_ok_cont (nr_sfp_flag _ h1 hib ?_ ?_ ?_ ?_ ?_ h6 (by first | exact Or.inl rfl | exact Or.inr rfl)) <;>
         first | omega | (dsimp only; omega))
    | (refine nr_ok_cont ?_; nr_close g h5 h6)

/-! #### parameter values -/

theorem nr_valWS_true {b : Buf} {m0 : NrNum} {o i n : Nat} {pf : PFromBody} (hI : NrInv mv b m0 o i pf) (hin : i ≤ n)
    (hn : n ≤ b.size) (hrun : Run isLWSch b i n)
    (hg : pf.state = .newParamVal ∨ pf.state = .newPossibleVal ∨ pf.state = .paramVal ∨ pf.state = .possibleVal) :
    NrInv mv b m0 o n (naValWS pf i n true) := by
  obtain ⟨h1, h2, h3, h4, h5, h6⟩ := hI
  unfold naValWS
  rcases hg with g | g | g | g <;> cases mv <;> simp only [nrPend, nrGapM, nrEqM, g] at h5 <;> simp +decide only [g, Bool.false_eq_true, ↓reduceIte] <;> nr_close g h5 h6

theorem nr_valWS_false {b : Buf} {m0 : NrNum} {o i n : Nat} {pf : PFromBody} (hI : NrInv mv b m0 o i pf)
    (hg : pf.state = .newParamVal ∨ pf.state = .newPossibleVal ∨ pf.state = .paramVal ∨ pf.state = .possibleVal) :
    NrInv mv b m0 o i (naValWS pf i n false) := by
  obtain ⟨h1, h2, h3, h4, h5, h6⟩ := hI
  unfold naValWS
  rcases hg with g | g | g | g <;> simp only [nrPend, nrGapM, nrEqM, g] at h5 <;> simp +decide only [g, Bool.false_eq_true, ↓reduceIte] <;> nr_close g h5 h6

/-- `case fbNewParamVal, fbNewPossibleVal, fbParamVal, fbPossibleVal:` -/
theorem nr_stepV (h : Nat) {b : Buf} {m0 : NrNum} {o i : Nat} {pf : PFromBody} (c : UInt8) (hb : b[i]? = some c)
    (hmv : multipleValsOk h = mv) (hI : NrInv mv b m0 o i pf)
    (hg : pf.state = .newParamVal ∨ pf.state = .newPossibleVal ∨ pf.state = .paramVal ∨ pf.state = .possibleVal) :
    nrStepOk mv b m0 o (naStepV h b i c pf) := by
  have hib := get?_lt hb
  have hI' := hI
  obtain ⟨h1, h2, h3, h4, h5, h6⟩ := hI
  unfold naStepV
  split
  · rcases hsk : skipLWS b i 0 with ⟨n, crl, e1⟩
    have hr := skipLWS_range b i 0 hsk
    have hv := skipLWS_verdicts b i 0 hsk
    have hF := nr_valWS_false (n := n) hI' hg
    rcases hv with rfl | rfl | rfl | rfl <;> simp only
    · exact nr_ok_cont (nr_valWS_true hI' hr.1 (hr.2 h2) (nr_skipLWS_run b i 0 hsk) hg)
    · have hrg := skipLWS_eoh_range b i 0 hsk (by decide)
      exact nr_eoh_ok h hF i n crl .ok (by decide) (Or.inl rfl) (by omega) (by omega)
    · exact nr_ok_err (hF.out.mono hr.1 (hr.2 h2)) (by decide)
    · exact nr_ok_more hI'.saveS
  · rcases hg with g | g | g | g <;> cases mv <;> simp only [nrPend, nrGapM, nrEqM, g] at h5 <;> simp +decide only [g, hmv, Bool.false_eq_true, ↓reduceIte] <;> repeat' split
    all_goals first
      | exact nr_moreValues h hI' hib
      | exact nr_ok_err hI'.out (by decide)
      | (refine nr_ok_cont (nr_sfp_flag _ h1 hib ?_ ?_ ?_ ?_ ?_ h6 (by first | exact Or.inl rfl | exact Or.inr rfl)) <;>
           first | omega | (dsimp only; omega))
      | (refine nr_ok_cont (nr_sfp_val _ h1 hib ?_ ?_ ?_ ?_ ?_ ?_ h6 (by first | exact Or.inl rfl | exact Or.inr rfl)) <;>
           first | omega | (dsimp only; omega) | (dsimp only; simp only [nrGapM, h5]; done))
      | (refine nr_ok_cont ?_; nr_close g h5 h6)

/-- `case fbParamValEnd, fbPossibleValEnd:` -/
theorem nr_stepVE (h : Nat) {b : Buf} {m0 : NrNum} {o i : Nat} {pf : PFromBody} (c : UInt8) (hb : b[i]? = some c)
    (hI : NrInv mv b m0 o i pf) (hg : pf.state = .paramValEnd ∨ pf.state = .possibleValEnd) :
    nrStepOk mv b m0 o (naStepVE h b i c pf) := by
  have hib := get?_lt hb
  have hI' := hI
  have hC := nr_commaAfterWS h hI hib pf.vend (by rcases hg with g | g <;> simp [g])
  obtain ⟨h1, h2, h3, h4, h5, h6⟩ := hI
  unfold naStepVE
  rcases hg with g | g <;> simp only [nrPend, nrGapM, nrEqM, g] at h5 <;> simp +decide only [g, Bool.false_eq_true, ↓reduceIte] <;> repeat' split
  all_goals first
    | exact hC
    | exact nr_ok_err hI'.out (by decide)
    | (refine nr_ok_cont (nr_sfp_val _ h1 hib ?_ ?_ ?_ ?_ ?_ ?_ h6 (by first | exact Or.inl rfl | exact Or.inr rfl)) <;>
         first | omega | (dsimp only; omega) | (dsimp only; simp only [nrGapM, h5]; done))
    | (refine nr_ok_cont ?_; nr_close g h5 h6)

/-- **every step of the loop body**: a continuing step and a MoreBytes exit keep the invariant, every exit satisfies `NrOut` -/
theorem nr_step (h : Nat) {b : Buf} {m0 : NrNum} {o i : Nat} {pf : PFromBody} (c : UInt8) (hb : b[i]? = some c)
    (hI : NrInv (multipleValsOk h) b m0 o i pf) : nrStepOk (multipleValsOk h) b m0 o (naStep h b i c pf) := by
  have hib := get?_lt hb
  unfold naStep
  cases hst : pf.state <;> simp only
  all_goals first
    | exact nr_stepA h c hb hI (by simp only [hst]; decide)
    | exact nr_stepQ h c hb hI (by simp only [hst]; decide)
    | exact nr_stepU c hb hI hst
    | exact nr_stepUF h c hb hI hst
    | exact nr_stepP h c hb rfl hI (by simp only [hst]; decide)
    | exact nr_stepPE h c hb hI (by simp only [hst]; decide)
    | exact nr_stepV h c hb rfl hI (by simp only [hst]; decide)
    | exact nr_stepVE h c hb hI (by simp only [hst]; decide)
    | exact nr_stepStar h c hI hst
    | exact nr_ok_cont (hI.mono (by omega) (by omega) (by simp [nrAtPos, hst]))

/-! ### the loop and ParseNameAddrPVal -/

theorem nr_runLoop (h : Nat) (b : Buf) (m0 : NrNum) (o i : Nat) (pf : PFromBody) (hI : NrInv (multipleValsOk h) b m0 o i pf) :
    NrOut (multipleValsOk h) b m0 o (runLoop (naMachine h) b i pf).1 (runLoop (naMachine h) b i pf).2.2 ∧
    ((runLoop (naMachine h) b i pf).2.1 = .moreBytes →
      NrInv (multipleValsOk h) b m0 o (runLoop (naMachine h) b i pf).1 (runLoop (naMachine h) b i pf).2.2) := by
  refine runLoop_inv (naMachine h) b (NrInv (multipleValsOk h) b m0 o)
    (fun r => NrOut (multipleValsOk h) b m0 o r.1 r.2.2 ∧ (r.2.1 = .moreBytes → NrInv (multipleValsOk h) b m0 o r.1 r.2.2)) ?_ ?_ ?_ i pf hI
  · intro i c st i' st' hb hP hs
    have hk := nr_step h c hb hP
    change naStep h b i c st = .cont i' st' at hs
    rw [hs] at hk
    exact ⟨fun _ => hk, fun hn => absurd (na_progress h b i c st i' st' hb hs) hn⟩
  · intro i c st o1 e1 st1 hb hP hs
    have hk := nr_step h c hb hP
    change naStep h b i c st = .done o1 e1 st1 at hs
    rw [hs] at hk
    exact hk
  · intro i st _ hP
    exact ⟨hP.saveS.out, fun _ => hP.saveS⟩

/-- **ParseNameAddrPVal, any header kind, any buffer, any verdict**: if the object passed in satisfies the invariant
    (a new object does, `nr_entry_new`; so does an object returned with MoreBytes), the numeric fields of the returned
    object are the fold of `nrEffect` over a list of parameter spans lying in `[o, o')`; after MoreBytes the object
    satisfies the invariant again. -/
theorem nr_parse (h : Nat) (b : Buf) (m0 : NrNum) (o offs : Nat) (pf : PFromBody) (hE : NrInv (multipleValsOk h) b m0 o offs pf)
    {o' : Nat} {e : Err} {pf' : PFromBody} (hr : parseNameAddrPVal h b offs pf = (o', e, pf')) :
    NrOut (multipleValsOk h) b m0 o o' pf' ∧ (e = .moreBytes → NrInv (multipleValsOk h) b m0 o o' pf') := by
  unfold parseNameAddrPVal at hr
  split at hr
  · cases hr
    exact ⟨hE.out, fun hh => by cases hh⟩
  · simp only [Prod.mk.injEq] at hr
    obtain ⟨rfl, rfl, rfl⟩ := hr
    have key := nr_runLoop h b m0 o offs { pf with s := pf.soffs, soffs := 0 } (hE.congr rfl rfl rfl rfl rfl rfl)
    have hx : ∀ (e : Err) (p : PFromBody), (naExit pf.soffs e p).nrNum = p.nrNum ∧ (naExit pf.soffs e p).state = p.state ∧
        (naExit pf.soffs e p).pstart = p.pstart ∧ (naExit pf.soffs e p).pend = p.pend ∧
        (naExit pf.soffs e p).vstart = p.vstart ∧ (naExit pf.soffs e p).vend = p.vend := by
      intro e p; unfold naExit; split <;> exact ⟨rfl, rfl, rfl, rfl, rfl, rfl⟩
    obtain ⟨x1, x2, x3, x4, x5, x6⟩ := hx (runLoop (naMachine h) b offs { pf with s := pf.soffs, soffs := 0 }).2.1
      (runLoop (naMachine h) b offs { pf with s := pf.soffs, soffs := 0 }).2.2
    exact ⟨key.1.congr x1, fun hm => (key.2 hm).congr x2 x3 x4 x5 x6 x1⟩

/-- a new object may be passed at any offset inside the buffer -/
theorem nr_entry_new (b : Buf) (o : Nat) (ho : o ≤ b.size) : NrInv mv b {} o o {} :=
  ⟨Nat.le_refl _, ho, Nat.zero_le _, Nat.zero_le _, ⟨Nat.le_refl _, rfl⟩, ⟨[], rfl, fun x hx => by cases hx⟩⟩

/-! ### E. what the fold says about `expires` -/

/-- the span is an `expires` parameter (name in any letter case) with a non-empty value text -/
def nrIsExp (b : Buf) (x : PSpan) : Prop :=
  x.ps < x.pe ∧ x.vs < x.ve ∧ cmpEqL (b.extract x.ps x.pe) sExpires = true

theorem nr_effect_exp_set (b : Buf) (x : PSpan) (m : NrNum) (hx : nrIsExp b x) :
    nrEffect b x.ps x.pe x.vs x.ve m =
      { m with hasExpires := true, expires := min (decOf (nrDigPre (b.extract x.vs x.ve).toList)) 4294967295 } := by
  unfold nrEffect
  rw [if_pos ⟨hx.1, hx.2.1⟩, if_pos hx.2.2]

theorem nr_setQ_keep (m : NrNum) (vs ve : Nat) (val : List UInt8) :
    (nrSetQ m vs ve val).hasExpires = m.hasExpires ∧ (nrSetQ m vs ve val).expires = m.expires := by
  obtain ⟨_, _, o3, o4⟩ := setQ_other (nrOfNum m vs ve) val
  exact ⟨o3, o4⟩

theorem nr_effect_exp_keep (b : Buf) (x : PSpan) (m : NrNum) (hx : ¬ nrIsExp b x) :
    (nrEffect b x.ps x.pe x.vs x.ve m).hasExpires = m.hasExpires ∧ (nrEffect b x.ps x.pe x.vs x.ve m).expires = m.expires := by
  unfold nrEffect
  split
  · rename_i hc
    split
    · rename_i hn; exact absurd ⟨hc.1, hc.2, hn⟩ hx
    · split
      · exact nr_setQ_keep m _ _ _
      · exact ⟨rfl, rfl⟩
  · split <;> exact ⟨rfl, rfl⟩

/-- no `expires` parameter among the spans: the two fields keep their initial values -/
theorem nr_all_exp_none (b : Buf) (L : List PSpan) (m0 : NrNum) (hn : ∀ x ∈ L, ¬ nrIsExp b x) :
    (nrAll b L m0).hasExpires = m0.hasExpires ∧ (nrAll b L m0).expires = m0.expires := by
  induction L generalizing m0 with
  | nil => exact ⟨rfl, rfl⟩
  | cons x L ih =>
    have h1 := nr_effect_exp_keep b x m0 (hn x List.mem_cons_self)
    have h2 := ih (nrEffect b x.ps x.pe x.vs x.ve m0) (fun y hy => hn y (List.mem_cons_of_mem _ hy))
    exact ⟨h2.1.trans h1.1, h2.2.trans h1.2⟩

theorem nr_all_append (b : Buf) (L1 L2 : List PSpan) (m : NrNum) : nrAll b (L1 ++ L2) m = nrAll b L2 (nrAll b L1 m) := by
  unfold nrAll; rw [List.foldl_append]

theorem nr_all_cons (b : Buf) (x : PSpan) (L : List PSpan) (m : NrNum) :
    nrAll b (x :: L) m = nrAll b L (nrEffect b x.ps x.pe x.vs x.ve m) := rfl

/-- the last `expires` parameter among the spans decides -/
theorem nr_all_exp_last (b : Buf) (L1 L2 : List PSpan) (x : PSpan) (m0 : NrNum) (hx : nrIsExp b x)
    (hn : ∀ y ∈ L2, ¬ nrIsExp b y) :
    (nrAll b (L1 ++ x :: L2) m0).hasExpires = true ∧
    (nrAll b (L1 ++ x :: L2) m0).expires = min (decOf (nrDigPre (b.extract x.vs x.ve).toList)) 4294967295 := by
  have h2 := nr_all_exp_none b L2 (nrEffect b x.ps x.pe x.vs x.ve (nrAll b L1 m0)) hn
  rw [nr_all_append, nr_all_cons]
  rw [nr_effect_exp_set b x _ hx] at h2 ⊢
  exact ⟨h2.1, h2.2⟩

/-- a list of spans either has no `expires` parameter or splits at its last one -/
theorem nr_split_last (P : PSpan → Prop) (L : List PSpan) :
    (∀ x ∈ L, ¬ P x) ∨ ∃ L1 x L2, L = L1 ++ x :: L2 ∧ P x ∧ ∀ y ∈ L2, ¬ P y := by
  induction L with
  | nil => exact Or.inl (fun x hx => by cases hx)
  | cons a L ih =>
    rcases ih with ih | ⟨L1, x, L2, h1, h2, h3⟩
    · by_cases ha : P a
      · exact Or.inr ⟨[], a, L, rfl, ha, ih⟩
      · refine Or.inl (fun x hx => ?_)
        rcases List.mem_cons.1 hx with hx | hx
        · rw [hx]; exact ha
        · exact ih x hx
    · exact Or.inr ⟨a :: L1, x, L2, by rw [h1]; rfl, h2, h3⟩

/-- **(a) `expires` at run level**, for every object satisfying `NrOut` (= every object returned by ParseNameAddrPVal
    started from an object whose `HasExpires` was false): if `HasExpires` is reported, then there is an `expires`
    parameter in the consumed text — name `[ps, pe)` matched case-insensitively, followed by a non-empty value text
    `[vs, ve)` — and `Expires` is the decimal value of the LEADING DIGITS of that text, saturated at 2^32-1 (digit
    strings of any length); when the text consists of digits only it is `min (value) (2^32-1)`.  If `HasExpires` is
    not reported, `Expires` still has its initial value. -/
theorem NrOut.expires {b : Buf} {m0 : NrNum} {o lim : Nat} {pf : PFromBody} (hO : NrOut mv b m0 o lim pf)
    (h0 : m0.hasExpires = false) :
    (pf.hasExpires = false ∧ pf.expires = m0.expires) ∨
    (pf.hasExpires = true ∧ ∃ ps pe vs ve, o ≤ ps ∧ ps < pe ∧ pe < vs ∧ vs < ve ∧ ve ≤ lim ∧ lim ≤ b.size ∧
      nrGapM mv b pe vs ∧ cmpEqL (b.extract ps pe) sExpires = true ∧
      pf.expires = min (decOf (nrDigPre (b.extract vs ve).toList)) 4294967295 ∧
      (AllDigits (b.extract vs ve).toList → pf.expires = min (decOf (b.extract vs ve).toList) 4294967295)) := by
  obtain ⟨hlim, L, hacc, hL⟩ := hO
  have e1 : pf.hasExpires = (nrAll b L m0).hasExpires := congrArg NrNum.hasExpires hacc
  have e2 : pf.expires = (nrAll b L m0).expires := congrArg NrNum.expires hacc
  rcases nr_split_last (nrIsExp b) L with hn | ⟨L1, x, L2, hsp, hx, hn⟩
  · have := nr_all_exp_none b L m0 hn
    exact Or.inl ⟨by rw [e1, this.1, h0], by rw [e2, this.2]⟩
  · have hk := nr_all_exp_last b L1 L2 x m0 hx hn
    rw [← hsp] at hk
    have hxo := hL x (by rw [hsp]; exact List.mem_append_right _ List.mem_cons_self)
    obtain ⟨s1, s2, s3, s4⟩ := hxo
    have hv : x.pe < x.vs ∧ x.vs < x.ve ∧ x.ve ≤ lim ∧ nrGapM mv b x.pe x.vs := by
      rcases s4 with s4 | s4
      · have := hx.2.1; omega
      · exact s4
    refine Or.inr ⟨by rw [e1, hk.1], x.ps, x.pe, x.vs, x.ve, s1, s2, hv.1, hv.2.1, hv.2.2.1, hlim, hv.2.2.2, hx.2.2,
      by rw [e2, hk.2], ?_⟩
    intro hd
    rw [e2, hk.2, nrDigPre_of_digits _ hd]

/-! ### F. `q`: ANY value text -/

/-- converse of `pUInt64Aux_spec`: the 64-bit parser reports no error only on digit strings, with the exact value -/
theorem nr_pUInt64Aux_ok (l : List UInt8) (n : Nat) (e : Err) (m : Nat) (h : pUInt64Aux l n e = (m, .ok)) :
    e = .ok ∧ AllDigits l ∧ m = decFrom n l := by
  induction l generalizing n e with
  | nil =>
    rw [pUInt64Aux] at h
    cases h
    exact ⟨rfl, (fun c hc => by cases hc), by rw [decFrom_nil]⟩
  | cons c cs ih =>
    by_cases hc : nrIsDig c = true
    · have hd := (nrIsDig_iff c).1 hc
      rw [pUInt64Aux_cons c cs n e hd] at h
      split at h
      · have := (ih _ _ h).1; cases this
      · obtain ⟨h1, h2, h3⟩ := ih _ _ h
        refine ⟨h1, ?_, by rw [decFrom_cons]; exact h3⟩
        intro x hx
        rcases List.mem_cons.1 hx with hx | hx
        · rw [hx]; exact hd
        · exact h2 x hx
    · have hc' : (c < 48 || c > 57) = true := by
        cases hx : (c < 48 || c > 57) with
        | true => rfl
        | false => exact absurd (by unfold nrIsDig; rw [hx]; rfl) hc
      simp only [pUInt64Aux, hc', if_true] at h
      cases h

theorem nr_pUInt64Val_ok (l : List UInt8) (m : Nat) (h : pUInt64Val l = (m, .ok)) : AllDigits l ∧ m = decOf l := by
  have := nr_pUInt64Aux_ok l 0 .ok m h
  exact ⟨this.2.1, this.2.2⟩

/-- a text splits at its first `.` -/
theorem nr_split_dot (val : List UInt8) :
    ((val.takeWhile (· != 46)).length = val.length ∧ val.take (val.takeWhile (· != 46)).length = val) ∨
    ((val.takeWhile (· != 46)).length < val.length ∧
      val = val.take (val.takeWhile (· != 46)).length ++ 46 :: val.drop ((val.takeWhile (· != 46)).length + 1)) := by
  induction val with
  | nil => exact Or.inl ⟨rfl, rfl⟩
  | cons c cs ih =>
    by_cases hc : (c != 46) = true
    · simp only [List.takeWhile_cons, hc, ↓reduceIte, List.length_cons, List.take_succ_cons, List.drop_succ_cons]
      rcases ih with ih | ih
      · exact Or.inl ⟨by rw [ih.1], by rw [ih.2]⟩
      · refine Or.inr ⟨by omega, ?_⟩
        rw [List.cons_append, ← ih.2]
    · have h46 : c = 46 := by simpa using hc
      have hc' : (c != 46) = false := by simpa using h46
      simp only [List.takeWhile_cons, hc', Bool.false_eq_true, ↓reduceIte, List.length_nil, List.length_cons, List.take_zero,
        List.nil_append]
      exact Or.inr ⟨by omega, by rw [h46]; rfl⟩


/-- `setQ` with the two conversions named -/
theorem nr_setQ_eq (pf : PFromBody) (val : List UInt8) (u d : Nat) (e1 e2 : Err)
    (hu : pUInt64Val (val.take (val.takeWhile (· != 46)).length) = (u, e1))
    (hd : (if (e1 == .ok && decide ((val.takeWhile (· != 46)).length < val.length)) = true
            then pUInt64Val (val.drop ((val.takeWhile (· != 46)).length + 1)) else (0, e1)) = (d, e2)) :
    setQ pf val =
      if val.length - (val.takeWhile (· != 46)).length ≤ 4 then
        if e2 == .ok then
          if u > 1 || d > 999 || (u == 1 && d > 0) then { pf with paramErr := .valBad, errOffs := trunc16 pf.vstart }
          else
            { pf with q := (u * 1000 + (if (val.takeWhile (· != 46)).length < val.length &&
                val.length - ((val.takeWhile (· != 46)).length + 1) == 1 then d * 100
              else if (val.takeWhile (· != 46)).length < val.length &&
                val.length - ((val.takeWhile (· != 46)).length + 1) == 2 then d * 10 else d)) % 65536 }
        else { pf with paramErr := e2, errOffs := trunc16 pf.vstart }
      else { pf with paramErr := .valTooLong, errOffs := trunc16 pf.vend } := by
  unfold setQ
  simp only [hu, hd]


/-- the texts accepted as a `q` value, with their value in thousandths: an integer part of digits (any number of
    leading zeros; may be empty) worth 0 or 1, optionally followed by `.` and at most three digits, which must be zeros
    when the integer part is 1 -/
def NrQOk (val : List UInt8) (v : Nat) : Prop :=
  ∃ ip fp, AllDigits ip ∧ AllDigits fp ∧ fp.length ≤ 3 ∧ decOf ip ≤ 1 ∧ (decOf ip = 1 → decOf fp = 0) ∧
    ((val = ip ∧ fp = []) ∨ val = ip ++ 46 :: fp) ∧ v = qValue ip fp

theorem nr_allDigits_nil : AllDigits [] := fun c hc => by cases hc

theorem nr_decOf_nil : decOf [] = 0 := by unfold decOf; rw [decFrom_nil]

theorem nr_setQ_of_ok (pf : PFromBody) (val : List UInt8) (v : Nat) (h : NrQOk val v) : setQ pf val = { pf with q := v } := by
  obtain ⟨ip, fp, hi, hf, hl, hu, hone, hsh, rfl⟩ := h
  rcases hsh with ⟨rfl, rfl⟩ | rfl
  · rw [setQ_int pf val hi hu]
    have : qValue val [] = decOf val * 1000 := by unfold qValue; rw [nr_decOf_nil]; omega
    rw [this]
  · exact setQ_frac pf ip fp hi hf hl hu hone

/-- **`setQ` on ANY text**: either the text is an accepted `q` value and `q` becomes exactly its value in thousandths,
    or `q` is left alone and the parameter error is set (to something other than "no error") -/
theorem nr_setQ_cases (pf : PFromBody) (val : List UInt8) :
    (∃ v, NrQOk val v ∧ setQ pf val = { pf with q := v }) ∨
    (∃ e eo, e ≠ Err.ok ∧ setQ pf val = { pf with paramErr := e, errOffs := eo }) := by
  rcases hu : pUInt64Val (val.take (val.takeWhile (· != 46)).length) with ⟨u, e1⟩
  rcases hd : (if (e1 == .ok && decide ((val.takeWhile (· != 46)).length < val.length)) = true
            then pUInt64Val (val.drop ((val.takeWhile (· != 46)).length + 1)) else (0, e1)) with ⟨d, e2⟩
  have hS := nr_setQ_eq pf val u d e1 e2 hu hd
  by_cases hlen : val.length - (val.takeWhile (· != 46)).length ≤ 4
  · rw [if_pos hlen] at hS
    by_cases he2 : e2 = .ok
    · subst he2
      simp only [beq_self_eq_true, if_true] at hS
      by_cases hr : (decide (u > 1) || decide (d > 999) || (u == 1 && decide (d > 0))) = true
      · rw [if_pos hr] at hS
        exact Or.inr ⟨.valBad, _, by decide, hS⟩
      · have hr1 : u ≤ 1 := by
          rcases Nat.lt_or_ge 1 u with hh | hh
          · exact absurd (by simp [hh]) hr
          · exact hh
        have hr2 : u = 1 → d = 0 := by
          intro h1
          rcases Nat.eq_zero_or_pos d with hh | hh
          · exact hh
          · exact absurd (by simp [h1, hh]) hr
        have e1ok : e1 = .ok := by
          by_cases hh : e1 = .ok
          · exact hh
          · have : (e1 == Err.ok) = false := by simpa using hh
            rw [this] at hd
            simp only [Bool.false_and, Bool.false_eq_true, if_false, Prod.mk.injEq] at hd
            exact hd.2
        subst e1ok
        obtain ⟨hip, hu'⟩ := nr_pUInt64Val_ok _ _ hu
        left
        rcases nr_split_dot val with ⟨hk, htk⟩ | ⟨hk, hsplit⟩
        · have hOk : NrQOk val (qValue val []) := by
            rw [htk] at hip hu'
            exact ⟨val, [], hip, nr_allDigits_nil, by simp, by omega, (fun _ => nr_decOf_nil), Or.inl ⟨rfl, rfl⟩, rfl⟩
          exact ⟨_, hOk, nr_setQ_of_ok pf val _ hOk⟩
        · have hc : (Err.ok == Err.ok && decide ((val.takeWhile (· != 46)).length < val.length)) = true := by simp [hk]
          rw [if_pos hc] at hd
          obtain ⟨hfp, hd'⟩ := nr_pUInt64Val_ok _ _ hd
          have hOk : NrQOk val (qValue (val.take (val.takeWhile (· != 46)).length)
              (val.drop ((val.takeWhile (· != 46)).length + 1))) :=
            ⟨_, _, hip, hfp, by rw [List.length_drop]; omega, by omega, (fun h1 => by rw [← hd']; exact hr2 (by omega)),
              Or.inr hsplit, rfl⟩
          exact ⟨_, hOk, nr_setQ_of_ok pf val _ hOk⟩
    · have : (e2 == Err.ok) = false := by simpa using he2
      rw [this] at hS
      simp only [Bool.false_eq_true, if_false] at hS
      exact Or.inr ⟨e2, _, he2, hS⟩
  · rw [if_neg hlen] at hS
    exact Or.inr ⟨.valTooLong, _, by decide, hS⟩


theorem nr_qok_unique {val : List UInt8} {v v' : Nat} (h : NrQOk val v) (h' : NrQOk val v') : v = v' := by
  have e1 := nr_setQ_of_ok {} val v h
  have e2 := nr_setQ_of_ok {} val v' h'
  rw [e1] at e2
  exact congrArg PFromBody.q e2

theorem nr_setQnum_ok (m : NrNum) (vs ve : Nat) (val : List UInt8) (v : Nat) (h : NrQOk val v) :
    nrSetQ m vs ve val = { m with q := v } := by
  unfold nrSetQ
  rw [nr_setQ_of_ok _ val v h]
  rfl

theorem nr_setQnum_bad (m : NrNum) (vs ve : Nat) (val : List UInt8) (h : ¬ ∃ v, NrQOk val v) :
    ∃ e eo, e ≠ Err.ok ∧ nrSetQ m vs ve val = { m with paramErr := e, errOffs := eo } := by
  rcases nr_setQ_cases (nrOfNum m vs ve) val with ⟨v, hv, _⟩ | ⟨e, eo, he, hs⟩
  · exact absurd ⟨v, hv⟩ h
  · refine ⟨e, eo, he, ?_⟩
    unfold nrSetQ
    rw [hs]
    rfl

/-! ### G. what the fold says about `q` -/

/-- the span is a `q` parameter (name in any letter case) with a non-empty value text -/
def nrIsQ (b : Buf) (x : PSpan) : Prop :=
  x.ps < x.pe ∧ x.vs < x.ve ∧ cmpEqL (b.extract x.ps x.pe) sQ = true

/-- … whose text is an accepted `q` value worth `v` thousandths -/
def nrIsQGood (b : Buf) (x : PSpan) (v : Nat) : Prop := nrIsQ b x ∧ NrQOk (b.extract x.vs x.ve).toList v

/-- … whose text is not an accepted `q` value -/
def nrIsQBad (b : Buf) (x : PSpan) : Prop := nrIsQ b x ∧ ¬ ∃ v, NrQOk (b.extract x.vs x.ve).toList v

theorem nr_effect_q (b : Buf) (x : PSpan) (m : NrNum) (hx : nrIsQ b x) :
    nrEffect b x.ps x.pe x.vs x.ve m = nrSetQ m x.vs x.ve (b.extract x.vs x.ve).toList := by
  have hl := cmpEqL_len hx.2.2
  have t2 : cmpEqL (b.extract x.ps x.pe) sExpires = false := cmpEqL_false_of_len (by rw [hl]; decide)
  unfold nrEffect
  rw [if_pos ⟨hx.1, hx.2.1⟩, t2, if_neg (by decide), if_pos hx.2.2]

theorem nr_effect_q_good (b : Buf) (x : PSpan) (m : NrNum) (v : Nat) (hx : nrIsQGood b x v) :
    nrEffect b x.ps x.pe x.vs x.ve m = { m with q := v } := by
  rw [nr_effect_q b x m hx.1, nr_setQnum_ok m _ _ _ v hx.2]

theorem nr_effect_q_bad (b : Buf) (x : PSpan) (m : NrNum) (hx : nrIsQBad b x) :
    ∃ e eo, e ≠ Err.ok ∧ nrEffect b x.ps x.pe x.vs x.ve m = { m with paramErr := e, errOffs := eo } := by
  rw [nr_effect_q b x m hx.1]
  exact nr_setQnum_bad m _ _ _ hx.2

/-- a span that is not a `q` parameter with an accepted text leaves `q` alone -/
theorem nr_effect_q_keep (b : Buf) (x : PSpan) (m : NrNum) (hx : ¬ ∃ v, nrIsQGood b x v) :
    (nrEffect b x.ps x.pe x.vs x.ve m).q = m.q := by
  by_cases hq : nrIsQ b x
  · obtain ⟨e, eo, _, hs⟩ := nr_effect_q_bad b x m ⟨hq, fun ⟨v, hv⟩ => hx ⟨v, hq, hv⟩⟩
    rw [hs]
  · unfold nrEffect
    split
    · rename_i hc
      split
      · rfl
      · split
        · rename_i hn; exact absurd ⟨hc.1, hc.2, hn⟩ hq
        · rfl
    · split <;> rfl

/-- the parameter error, once set, stays set -/
theorem nr_effect_perr (b : Buf) (x : PSpan) (m : NrNum) (hm : m.paramErr ≠ .ok) :
    (nrEffect b x.ps x.pe x.vs x.ve m).paramErr ≠ .ok := by
  by_cases hq : nrIsQ b x
  · by_cases hg : ∃ v, NrQOk (b.extract x.vs x.ve).toList v
    · obtain ⟨v, hv⟩ := hg
      rw [nr_effect_q_good b x m v ⟨hq, hv⟩]; exact hm
    · obtain ⟨e, eo, he, hs⟩ := nr_effect_q_bad b x m ⟨hq, hg⟩
      rw [hs]; exact he
  · unfold nrEffect
    split
    · rename_i hc
      split
      · exact hm
      · split
        · rename_i hn; exact absurd ⟨hc.1, hc.2, hn⟩ hq
        · exact hm
    · split
      · exact hm
      · exact (by decide : Err.valBad ≠ Err.ok)

theorem nr_all_perr (b : Buf) (L : List PSpan) (m : NrNum) (hm : m.paramErr ≠ .ok) : (nrAll b L m).paramErr ≠ .ok := by
  induction L generalizing m with
  | nil => exact hm
  | cons x L ih => rw [nr_all_cons]; exact ih _ (nr_effect_perr b x m hm)

/-- no `q` parameter with an accepted text among the spans: `q` keeps its initial value -/
theorem nr_all_q_none (b : Buf) (L : List PSpan) (m0 : NrNum) (hn : ∀ x ∈ L, ¬ ∃ v, nrIsQGood b x v) :
    (nrAll b L m0).q = m0.q := by
  induction L generalizing m0 with
  | nil => rfl
  | cons x L ih =>
    rw [nr_all_cons, ih _ (fun y hy => hn y (List.mem_cons_of_mem _ hy))]
    exact nr_effect_q_keep b x m0 (hn x List.mem_cons_self)

/-- the last `q` parameter with an accepted text decides, and `q` is exactly its value -/
theorem nr_all_q_last (b : Buf) (L1 L2 : List PSpan) (x : PSpan) (v : Nat) (m0 : NrNum) (hx : nrIsQGood b x v)
    (hn : ∀ y ∈ L2, ¬ ∃ v, nrIsQGood b y v) : (nrAll b (L1 ++ x :: L2) m0).q = v := by
  rw [nr_all_append, nr_all_cons, nr_all_q_none b L2 _ hn, nr_effect_q_good b x _ v hx]

/-- a `q` parameter whose text is not accepted is flagged: the parameter error is set at the end -/
theorem nr_all_q_bad (b : Buf) (L : List PSpan) (m0 : NrNum) (x : PSpan) (hx : x ∈ L) (hb : nrIsQBad b x) :
    (nrAll b L m0).paramErr ≠ .ok := by
  obtain ⟨L1, L2, rfl⟩ := List.append_of_mem hx
  rw [nr_all_append, nr_all_cons]
  apply nr_all_perr
  obtain ⟨e, eo, he, hs⟩ := nr_effect_q_bad b x (nrAll b L1 m0) hb
  rw [hs]; exact he

/-- a well-located span that is not a `q` parameter with a rejected text leaves the parameter error alone -/
theorem nr_effect_perr_keep (b : Buf) (x : PSpan) (m : NrNum) {o lim : Nat} (hs : NrSpanOk mv b o lim x) (hx : ¬ nrIsQBad b x) :
    (nrEffect b x.ps x.pe x.vs x.ve m).paramErr = m.paramErr := by
  by_cases hq : nrIsQ b x
  · by_cases hg : ∃ v, NrQOk (b.extract x.vs x.ve).toList v
    · obtain ⟨v, hv⟩ := hg
      rw [nr_effect_q_good b x m v ⟨hq, hv⟩]
    · exact absurd ⟨hq, hg⟩ hx
  · unfold nrEffect
    split
    · rename_i hc
      split
      · rfl
      · split
        · rename_i hn; exact absurd ⟨hc.1, hc.2, hn⟩ hq
        · rfl
    · rename_i hc
      split
      · rfl
      · rename_i hc2
        obtain ⟨_, s2, _, s4⟩ := hs
        rcases s4 with s4 | s4
        · exact absurd ⟨s2, s4⟩ hc2
        · exact absurd ⟨s2, s4.2.1⟩ hc

/-- the parameter error is set only because of a `q` parameter with a rejected text -/
theorem nr_all_perr_keep (b : Buf) (L : List PSpan) (m0 : NrNum) {o lim : Nat} (hs : ∀ x ∈ L, NrSpanOk mv b o lim x)
    (hn : ∀ x ∈ L, ¬ nrIsQBad b x) : (nrAll b L m0).paramErr = m0.paramErr := by
  induction L generalizing m0 with
  | nil => rfl
  | cons x L ih =>
    rw [nr_all_cons, ih _ (fun y hy => hs y (List.mem_cons_of_mem _ hy)) (fun y hy => hn y (List.mem_cons_of_mem _ hy))]
    exact nr_effect_perr_keep b x m0 (hs x List.mem_cons_self) (hn x List.mem_cons_self)

/-- **(b) `q` at run level**, for every object satisfying `NrOut`: `Q` either still has its initial value, or it is
    EXACTLY the value in thousandths of the text of a `q` parameter of the consumed input whose text has an accepted
    shape; never a wrapped or truncated number. -/
theorem NrOut.q {b : Buf} {m0 : NrNum} {o lim : Nat} {pf : PFromBody} (hO : NrOut mv b m0 o lim pf) :
    pf.q = m0.q ∨
    ∃ ps pe vs ve, o ≤ ps ∧ ps < pe ∧ pe < vs ∧ vs < ve ∧ ve ≤ lim ∧ lim ≤ b.size ∧ nrGapM mv b pe vs ∧
      cmpEqL (b.extract ps pe) sQ = true ∧ NrQOk (b.extract vs ve).toList pf.q := by
  obtain ⟨hlim, L, hacc, hL⟩ := hO
  have e1 : pf.q = (nrAll b L m0).q := congrArg NrNum.q hacc
  rcases nr_split_last (fun x => ∃ v, nrIsQGood b x v) L with hn | ⟨L1, x, L2, hsp, ⟨v, hx⟩, hn⟩
  · exact Or.inl (by rw [e1, nr_all_q_none b L m0 hn])
  · have hk := nr_all_q_last b L1 L2 x v m0 hx hn
    rw [← hsp] at hk
    obtain ⟨s1, s2, s3, s4⟩ := hL x (by rw [hsp]; exact List.mem_append_right _ List.mem_cons_self)
    have hv : x.pe < x.vs ∧ x.vs < x.ve ∧ x.ve ≤ lim ∧ nrGapM mv b x.pe x.vs := by
      rcases s4 with s4 | s4
      · have := hx.1.2.1; omega
      · exact s4
    refine Or.inr ⟨x.ps, x.pe, x.vs, x.ve, s1, s2, hv.1, hv.2.1, hv.2.2.1, hlim, hv.2.2.2, hx.1.2.2, ?_⟩
    rw [e1, hk]; exact hx.2

/-- **(b), the flag**: the recorded spans `L` can be chosen such that, besides `NrOut`, (1) `Q` is the value of the last
    `q` parameter of `L` with an accepted text (initial value if there is none), (2) if some `q` parameter of `L` has a
    rejected text then `ParamErr` is set, and (3) if no `q` parameter of `L` has a rejected text `ParamErr` has its
    initial value. -/
theorem NrOut.q_flag {b : Buf} {m0 : NrNum} {o lim : Nat} {pf : PFromBody} (hO : NrOut mv b m0 o lim pf) :
    ∃ L : List PSpan, pf.nrNum = nrAll b L m0 ∧ (∀ x ∈ L, NrSpanOk mv b o lim x) ∧
      (((∀ x ∈ L, ¬ ∃ v, nrIsQGood b x v) ∧ pf.q = m0.q) ∨
        ∃ L1 x L2, L = L1 ++ x :: L2 ∧ nrIsQGood b x pf.q ∧ ∀ y ∈ L2, ¬ ∃ v, nrIsQGood b y v) ∧
      ((∃ x ∈ L, nrIsQBad b x) → pf.paramErr ≠ .ok) ∧
      ((∀ x ∈ L, ¬ nrIsQBad b x) → pf.paramErr = m0.paramErr) := by
  obtain ⟨hlim, L, hacc, hL⟩ := hO
  have e1 : pf.q = (nrAll b L m0).q := congrArg NrNum.q hacc
  have e2 : pf.paramErr = (nrAll b L m0).paramErr := congrArg NrNum.paramErr hacc
  refine ⟨L, hacc, hL, ?_, ?_, ?_⟩
  · rcases nr_split_last (fun x => ∃ v, nrIsQGood b x v) L with hn | ⟨L1, x, L2, hsp, ⟨v, hx⟩, hn⟩
    · exact Or.inl ⟨hn, by rw [e1, nr_all_q_none b L m0 hn]⟩
    · have hk := nr_all_q_last b L1 L2 x v m0 hx hn
      rw [← hsp] at hk
      exact Or.inr ⟨L1, x, L2, hsp, by rw [e1, hk]; exact hx, hn⟩
  · rintro ⟨x, hx, hb⟩
    rw [e2]; exact nr_all_q_bad b L m0 x hx hb
  · intro hn
    rw [e2]; exact nr_all_perr_keep b L m0 hL hn

/-! ### H. more bytes: the invariant survives the extension of the buffer -/

theorem nr_effect_app (b s : Buf) (x : PSpan) (m : NrNum) {o lim : Nat} (hx : NrSpanOk mv b o lim x) (hlim : lim ≤ b.size) :
    nrEffect (b ++ s) x.ps x.pe x.vs x.ve m = nrEffect b x.ps x.pe x.vs x.ve m := by
  obtain ⟨_, s2, s3, s4⟩ := hx
  unfold nrEffect
  by_cases c1 : x.ps < x.pe ∧ x.vs < x.ve
  · have hve : x.ve ≤ b.size := by
      rcases s4 with s4 | s4
      · have := c1.2; omega
      · have := s4.2.2.1; omega
    rw [if_pos c1, if_pos c1, extract_app b s x.ps x.pe (by omega), extract_app b s x.vs x.ve hve]
  · rw [if_neg c1, if_neg c1]

theorem nr_all_app (b s : Buf) (L : List PSpan) (m : NrNum) {o lim : Nat} (hL : ∀ x ∈ L, NrSpanOk mv b o lim x)
    (hlim : lim ≤ b.size) : nrAll (b ++ s) L m = nrAll b L m := by
  induction L generalizing m with
  | nil => rfl
  | cons x L ih =>
    rw [nr_all_cons, nr_all_cons, nr_effect_app b s x m (hL x List.mem_cons_self) hlim]
    exact ih _ (fun y hy => hL y (List.mem_cons_of_mem _ hy))

theorem NrSpanOk.app {b : Buf} {o lim : Nat} {x : PSpan} (h : NrSpanOk mv b o lim x) (s : Buf) :
    NrSpanOk mv (b ++ s) o lim x := by
  obtain ⟨h1, h2, h3, h4⟩ := h
  refine ⟨h1, h2, h3, ?_⟩
  rcases h4 with h4 | h4
  · exact Or.inl h4
  · exact Or.inr ⟨h4.1, h4.2.1, h4.2.2.1, h4.2.2.2.app s⟩

theorem nrPend_app {b : Buf} {o i : Nat} {st : FBState} {ps pe vs ve : Nat} (h : nrPend mv b o i st ps pe vs ve) (s : Buf) :
    nrPend mv (b ++ s) o i st ps pe vs ve := by
  cases st <;> simp only [nrPend] at h ⊢ <;>
    first
      | exact h
      | exact ⟨h.1, h.2.1, h.2.2.1, nr_run_app h.2.2.2 s⟩
      | exact ⟨h.1, h.2.1, h.2.2.1, h.2.2.2.1, h.2.2.2.2.1, h.2.2.2.2.2.app s⟩
      | exact ⟨h.1, h.2.1, h.2.2.1, h.2.2.2.1, h.2.2.2.2.app s⟩

theorem NrInv.app {b : Buf} {m0 : NrNum} {o i : Nat} {pf : PFromBody} (h : NrInv mv b m0 o i pf) (s : Buf) :
    NrInv mv (b ++ s) m0 o i pf := by
  obtain ⟨h1, h2, h3, h4, h5, L, h6, h7⟩ := h
  refine ⟨h1, by rw [Array.size_append]; omega, h3, h4, nrPend_app h5 s, L, ?_, fun x hx => (h7 x hx).app s⟩
  rw [nr_all_app b s L m0 h7 h2]; exact h6

/-- **resumed call**: a call that asked for more bytes, followed by a call on the extended buffer from the returned
    offset with the returned object (and so on: the hypothesis of the second call is the conclusion of the first) -/
theorem nr_parse_resume (h : Nat) (b s : Buf) (m0 : NrNum) (o offs : Nat) (pf : PFromBody) (hE : NrInv (multipleValsOk h) b m0 o offs pf)
    {o1 : Nat} {pf1 : PFromBody} (hr1 : parseNameAddrPVal h b offs pf = (o1, .moreBytes, pf1))
    {o' : Nat} {e : Err} {pf' : PFromBody} (hr2 : parseNameAddrPVal h (b ++ s) o1 pf1 = (o', e, pf')) :
    NrOut (multipleValsOk h) (b ++ s) m0 o o' pf' ∧ (e = .moreBytes → NrInv (multipleValsOk h) (b ++ s) m0 o o' pf') :=
  nr_parse h (b ++ s) m0 o o1 pf1 (((nr_parse h b m0 o offs pf hE hr1).2 rfl).app s) hr2

/-! ### I. ParseNameAddrPVal on a new object (any header kind; `parseOneContact` is the Contact instance) -/

/-- **C10 (a), run level, one call on a new object**: whatever the verdict, `HasExpires` is reported only when the
    consumed text `[offs, o')` contains an `expires` parameter — name `[ps, pe)` matched case-insensitively, non-empty
    value text `[vs, ve)` after it — and then `Expires` is the decimal value of the leading digits of that text (all of
    it when the text is a digit string, of ANY length), saturated at 2^32-1; never a wrapped value. -/
theorem nr_new_expires (h : Nat) (b : Buf) (offs : Nat) (ho : offs ≤ b.size)
    {o' : Nat} {e : Err} {pf' : PFromBody} (hr : parseNameAddrPVal h b offs {} = (o', e, pf')) :
    (pf'.hasExpires = false ∧ pf'.expires = 0) ∨
    (pf'.hasExpires = true ∧ ∃ ps pe vs ve, offs ≤ ps ∧ ps < pe ∧ pe < vs ∧ vs < ve ∧ ve ≤ o' ∧ o' ≤ b.size ∧
      nrGapM (multipleValsOk h) b pe vs ∧ cmpEqL (b.extract ps pe) sExpires = true ∧
      pf'.expires = min (decOf (nrDigPre (b.extract vs ve).toList)) 4294967295 ∧
      (AllDigits (b.extract vs ve).toList → pf'.expires = min (decOf (b.extract vs ve).toList) 4294967295)) :=
  (nr_parse h b {} offs offs {} (nr_entry_new b offs ho) hr).1.expires rfl

/-- **C10 (b), run level, one call on a new object**: `Q` is 0 (never set) or EXACTLY the value in thousandths of the
    text of a `q` parameter of the consumed input, the text being of an accepted shape (`NrQOk`) -/
theorem nr_new_q (h : Nat) (b : Buf) (offs : Nat) (ho : offs ≤ b.size)
    {o' : Nat} {e : Err} {pf' : PFromBody} (hr : parseNameAddrPVal h b offs {} = (o', e, pf')) :
    pf'.q = 0 ∨
    ∃ ps pe vs ve, offs ≤ ps ∧ ps < pe ∧ pe < vs ∧ vs < ve ∧ ve ≤ o' ∧ o' ≤ b.size ∧
      nrGapM (multipleValsOk h) b pe vs ∧ cmpEqL (b.extract ps pe) sQ = true ∧ NrQOk (b.extract vs ve).toList pf'.q :=
  (nr_parse h b {} offs offs {} (nr_entry_new b offs ho) hr).1.q

theorem nr_frac_le (fp : List UInt8) (hf : AllDigits fp) (hl : fp.length ≤ 3) : decOf fp * 10 ^ (3 - fp.length) ≤ 999 := by
  match fp, hf, hl with
  | [], _, _ => rw [nr_decOf_nil]; simp
  | [a], hf, _ =>
    have ha := dval_le a (hf a (by simp))
    have : decOf [a] = dval a := by unfold decOf; rw [decFrom_cons, decFrom_nil]; omega
    rw [this]
    show dval a * 100 ≤ 999
    omega
  | [a, c], hf, _ =>
    have ha := dval_le a (hf a (by simp)); have hc := dval_le c (hf c (by simp))
    have : decOf [a, c] = dval a * 10 + dval c := by unfold decOf; rw [decFrom_cons, decFrom_cons, decFrom_nil]; omega
    rw [this]
    show (dval a * 10 + dval c) * 10 ≤ 999
    omega
  | [a, c, d], hf, hl =>
    have := decOf_le3 [a, c, d] hf hl
    show decOf [a, c, d] * 1 ≤ 999
    omega

/-- the accepted shapes never give more than 1000 -/
theorem nr_qok_le {val : List UInt8} {v : Nat} (h : NrQOk val v) : v ≤ 1000 := by
  obtain ⟨ip, fp, hi, hf, hl, hu, hone, _, rfl⟩ := h
  have hd := nr_frac_le fp hf hl
  unfold qValue
  rcases Nat.lt_or_ge (decOf ip) 1 with h0 | h1
  · have : decOf ip = 0 := by omega
    rw [this]; omega
  · have h1' : decOf ip = 1 := by omega
    rw [h1', hone h1']; omega

theorem nr_new_q_le (h : Nat) (b : Buf) (offs : Nat) (ho : offs ≤ b.size)
    {o' : Nat} {e : Err} {pf' : PFromBody} (hr : parseNameAddrPVal h b offs {} = (o', e, pf')) : pf'.q ≤ 1000 := by
  rcases nr_new_q h b offs ho hr with h0 | ⟨_, _, _, _, _, _, _, _, _, _, _, _, hq⟩
  · rw [h0]; omega
  · exact nr_qok_le hq

/-! ### Contact -/

theorem nr_mv_contact : multipleValsOk HdrContact = true := by decide +kernel

/-- **C10 (a) for one Contact value** (one call of `parseOneContact` = ParseNameAddrPVal(HdrContact, …) on a new
    object, any buffer, any offset inside it, any verdict — in particular OK and MoreValues): if `HasExpires` is
    reported there are offsets `offs ≤ ps < pe ≤ eq < vs < ve ≤ o' ≤ len(buf)` such that `buf[ps:pe]` is `expires` in
    any letter case, `buf[pe:eq]` and `buf[eq+1:vs]` are white space, `buf[eq]` is `=`, and `Expires` is the decimal
    value of the leading digits of `buf[vs:ve]` saturated at 2^32-1 — of all of `buf[vs:ve]` when it consists of
    digits, whatever their number; otherwise `Expires` is 0. -/
theorem nr_contact_expires (b : Buf) (offs : Nat) (ho : offs ≤ b.size)
    {o' : Nat} {e : Err} {pf' : PFromBody} (hr : parseOneContact b offs {} = (o', e, pf')) :
    (pf'.hasExpires = false ∧ pf'.expires = 0) ∨
    (pf'.hasExpires = true ∧ ∃ ps pe vs ve, offs ≤ ps ∧ ps < pe ∧ pe < vs ∧ vs < ve ∧ ve ≤ o' ∧ o' ≤ b.size ∧
      NrGap b pe vs ∧ cmpEqL (b.extract ps pe) sExpires = true ∧
      pf'.expires = min (decOf (nrDigPre (b.extract vs ve).toList)) 4294967295 ∧
      (AllDigits (b.extract vs ve).toList → pf'.expires = min (decOf (b.extract vs ve).toList) 4294967295)) := by
  have h := nr_new_expires HdrContact b offs ho hr
  rw [nr_mv_contact] at h
  exact h

/-- **C10 (b) for one Contact value**: `Q` is 0 (never set) or exactly the value in thousandths of the text of a `q`
    parameter (located as in `nr_contact_expires`) whose text has an accepted shape; in particular `Q ≤ 1000`. -/
theorem nr_contact_q (b : Buf) (offs : Nat) (ho : offs ≤ b.size)
    {o' : Nat} {e : Err} {pf' : PFromBody} (hr : parseOneContact b offs {} = (o', e, pf')) :
    pf'.q ≤ 1000 ∧
    (pf'.q = 0 ∨
      ∃ ps pe vs ve, offs ≤ ps ∧ ps < pe ∧ pe < vs ∧ vs < ve ∧ ve ≤ o' ∧ o' ≤ b.size ∧
        NrGap b pe vs ∧ cmpEqL (b.extract ps pe) sQ = true ∧ NrQOk (b.extract vs ve).toList pf'.q) := by
  have h := nr_new_q HdrContact b offs ho hr
  rw [nr_mv_contact] at h
  exact ⟨nr_new_q_le HdrContact b offs ho hr, h⟩

/-- **C10 (b), the flag, for one Contact value**: there is a list `L` of parameter spans of the consumed text
    (`NrSpanOk`), the numeric fields being the fold of `nrEffect` over it, such that `Q` is the value of the last `q`
    parameter of `L` with an accepted text (0 if none), `ParamErr` is set when some `q` parameter of `L` has a rejected
    text, and is not set otherwise. -/
theorem nr_contact_q_flag (b : Buf) (offs : Nat) (ho : offs ≤ b.size)
    {o' : Nat} {e : Err} {pf' : PFromBody} (hr : parseOneContact b offs {} = (o', e, pf')) :
    ∃ L : List PSpan, pf'.nrNum = nrAll b L {} ∧ (∀ x ∈ L, NrSpanOk true b offs o' x) ∧
      (((∀ x ∈ L, ¬ ∃ v, nrIsQGood b x v) ∧ pf'.q = 0) ∨
        ∃ L1 x L2, L = L1 ++ x :: L2 ∧ nrIsQGood b x pf'.q ∧ ∀ y ∈ L2, ¬ ∃ v, nrIsQGood b y v) ∧
      ((∃ x ∈ L, nrIsQBad b x) → pf'.paramErr ≠ .ok) ∧
      ((∀ x ∈ L, ¬ nrIsQBad b x) → pf'.paramErr = .ok) := by
  have h := (nr_parse HdrContact b {} offs offs {} (nr_entry_new b offs ho) hr).1.q_flag
  rw [nr_mv_contact] at h
  exact h

/-! ### J. non-vacuity and tests (closed computations, `decide +kernel`) -/

/-- non-vacuity of `NrQOk`: the text `0.5` is worth 500 thousandths -/
example : NrQOk [48, 46, 53] 500 := by
  refine ⟨[48], [53], ?_, ?_, by decide, ?_, ?_, Or.inr rfl, ?_⟩
  · intro c hc; simp only [List.mem_cons, List.not_mem_nil, or_false] at hc; subst hc; unfold IsDigitB; decide
  · intro c hc; simp only [List.mem_cons, List.not_mem_nil, or_false] at hc; subst hc; unfold IsDigitB; decide
  · simp only [decOf, decFrom_cons, decFrom_nil, dval_def]; decide
  · simp only [decOf, decFrom_cons, decFrom_nil, dval_def]; decide
  · simp only [qValue, decOf, decFrom_cons, decFrom_nil, dval_def]; decide

/-- test: both parameters, as written -/
example : (parseOneContact "<sip:a@b>;expires=3600;q=0.5\r\nX".toUTF8.data 0 {}).2.1 = Err.ok ∧
    (parseOneContact "<sip:a@b>;expires=3600;q=0.5\r\nX".toUTF8.data 0 {}).2.2.hasExpires = true ∧
    (parseOneContact "<sip:a@b>;expires=3600;q=0.5\r\nX".toUTF8.data 0 {}).2.2.expires = 3600 ∧
    (parseOneContact "<sip:a@b>;expires=3600;q=0.5\r\nX".toUTF8.data 0 {}).2.2.q = 500 := by decide +kernel

/-- test: saturation of a 23-digit value; upper-case name -/
example : (parseOneContact "<sip:a@b>;EXPIRES=99999999999999999999999\r\nX".toUTF8.data 0 {}).2.2.expires = 4294967295 := by
  decide +kernel

/-- test (the reason why `nr_new_expires` speaks of the LEADING DIGITS): `expires=12abc` is accepted, reported as set,
    worth 12, and nothing is flagged; `expires=abc` is reported as set and worth 0.  (Same in the Go code.) -/
example : (parseOneContact "<sip:a@b>;expires=12abc\r\nX".toUTF8.data 0 {}).2.1 = Err.ok ∧
    (parseOneContact "<sip:a@b>;expires=12abc\r\nX".toUTF8.data 0 {}).2.2.hasExpires = true ∧
    (parseOneContact "<sip:a@b>;expires=12abc\r\nX".toUTF8.data 0 {}).2.2.expires = 12 ∧
    (parseOneContact "<sip:a@b>;expires=12abc\r\nX".toUTF8.data 0 {}).2.2.paramErr = Err.ok ∧
    (parseOneContact "<sip:a@b>;expires=abc\r\nX".toUTF8.data 0 {}).2.2.hasExpires = true ∧
    (parseOneContact "<sip:a@b>;expires=abc\r\nX".toUTF8.data 0 {}).2.2.expires = 0 := by decide +kernel

/-- test (why the gap claim is restricted to comma-separated header kinds): in From the commas in front of an
    unquoted value are skipped -/
example : (parseFromVal "<sip:a@b>;expires=,,5\r\nX".toUTF8.data 0 {}).2.1 = Err.ok ∧
    (parseFromVal "<sip:a@b>;expires=,,5\r\nX".toUTF8.data 0 {}).2.2.expires = 5 ∧
    (parseFromVal "<sip:a@b>;tag=,abc\r\nX".toUTF8.data 0 {}).2.2.tag = ⟨15, 3⟩ := by decide +kernel

/-- test (accepted `q` shapes beyond `0[.ddd]` / `1[.000]`): empty integer part, leading zeros -/
example : (parseOneContact "<sip:a@b>;q=.5\r\nX".toUTF8.data 0 {}).2.2.q = 500 ∧
    (parseOneContact "<sip:a@b>;q=.5\r\nX".toUTF8.data 0 {}).2.2.paramErr = Err.ok ∧
    (parseOneContact "<sip:a@b>;q=00000001\r\nX".toUTF8.data 0 {}).2.2.q = 1000 := by decide +kernel

/-- test: rejected `q` texts leave `q` alone and set the parameter error (the verdict stays OK) -/
example : (parseOneContact "<sip:a@b>;q=1.001\r\nX".toUTF8.data 0 {}).2.2.q = 0 ∧
    (parseOneContact "<sip:a@b>;q=1.001\r\nX".toUTF8.data 0 {}).2.2.paramErr = Err.valBad ∧
    (parseOneContact "<sip:a@b>;q=18446744073709551617\r\nX".toUTF8.data 0 {}).2.2.q = 0 ∧
    (parseOneContact "<sip:a@b>;q=18446744073709551617\r\nX".toUTF8.data 0 {}).2.2.paramErr = Err.valTooLong ∧
    (parseOneContact "<sip:a@b>;q=0.5;q=abc\r\nX".toUTF8.data 0 {}).2.2.q = 500 ∧
    (parseOneContact "<sip:a@b>;q=0.5;q=abc\r\nX".toUTF8.data 0 {}).2.2.paramErr = Err.valNotNumber := by decide +kernel

end Sipsp
