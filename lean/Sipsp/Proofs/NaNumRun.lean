/-
  Sipsp.Proofs.NaNumRun — property C10 at run level for the Contact `expires` and `q` parameters
  (ParseNameAddrPVal).

  How the model (and the Go code) converts a parameter value: nothing is accumulated byte by byte.  The automaton only
  records the four work offsets `pstart, pend, vstart, vend`; when a parameter ends (at `;`, at the `,` that ends the
  value, or at the end of the header) it calls `setFromParamVal`, which slices name and value out of the buffer and
  converts the value text with `pUInt64Val` (`setExpires`, `setQ`).  So the run-level statement is: the
  parameter-dependent fields of the returned object are the left fold (`accAll`) of `paramEffect` over a list of
  parameter spans of the buffer, every span being a parameter as written (`NnWf`), and `paramEffect` is characterised
  completely for `expires` and `q` (sections A, B).
-/
import Sipsp.Proofs.NameAddrSpec

namespace Sipsp

/-! ### A. `expires`: any value text -/

/-- is the byte a decimal digit (the test of `pUInt64Val`) -/
def nnIsDig (c : UInt8) : Bool := !(c < 48 || c > 57)

/-- the leading digits of a text -/
def nnDigPre (l : List UInt8) : List UInt8 := l.takeWhile nnIsDig

theorem nnIsDig_iff (c : UInt8) : nnIsDig c = true ↔ IsDigitB c := by
  unfold nnIsDig IsDigitB
  simp only [Bool.not_eq_true', Bool.or_eq_false_iff, decide_eq_false_iff_not, UInt8.lt_iff_toNat_lt, gt_iff_lt]
  have h48 : (48 : UInt8).toNat = 48 := rfl
  have h57 : (57 : UInt8).toNat = 57 := rfl
  rw [h48, h57]
  omega

theorem nnDigPre_digits (l : List UInt8) : AllDigits (nnDigPre l) := by
  induction l with
  | nil => intro c hc; cases hc
  | cons a as ih =>
    unfold nnDigPre at ih ⊢
    rw [List.takeWhile_cons]
    split
    · rename_i ha
      intro c hc
      rcases List.mem_cons.1 hc with h | h
      · rw [h]; exact (nnIsDig_iff a).1 ha
      · exact ih c h
    · intro c hc; cases hc

theorem nnDigPre_of_digits (l : List UInt8) (h : AllDigits l) : nnDigPre l = l := by
  induction l with
  | nil => rfl
  | cons a as ih =>
    unfold nnDigPre at ih ⊢
    rw [List.takeWhile_cons, if_pos ((nnIsDig_iff a).2 (h a List.mem_cons_self)),
      ih (fun x hx => h x (List.mem_cons_of_mem _ hx))]

/-- the number returned by `pUInt64Val` depends on the leading digits only -/
theorem nn_pUInt64Aux_pre (l : List UInt8) (n : Nat) (e : Err) :
    (pUInt64Aux l n e).1 = (pUInt64Aux (nnDigPre l) n e).1 := by
  induction l generalizing n e with
  | nil => rfl
  | cons c cs ih =>
    by_cases hc : nnIsDig c = true
    · have hp : nnDigPre (c :: cs) = c :: nnDigPre cs := by
        unfold nnDigPre; rw [List.takeWhile_cons, if_pos hc]
      have hd := (nnIsDig_iff c).1 hc
      rw [hp, pUInt64Aux_cons c cs n e hd, pUInt64Aux_cons c (nnDigPre cs) n e hd]
      split
      · exact ih _ _
      · exact ih _ _
    · have hp : nnDigPre (c :: cs) = [] := by
        unfold nnDigPre; rw [List.takeWhile_cons, if_neg hc]
      have hc' : (c < 48 || c > 57) = true := by
        cases hx : (c < 48 || c > 57) with
        | true => rfl
        | false => exact absurd (by unfold nnIsDig; rw [hx]; rfl) hc
      rw [hp]
      simp only [pUInt64Aux, hc', if_true]

/-- **`expires` with ANY value text**: the has-expires flag is set and the number is the decimal value of the leading
    digits of the text (all of it when it is a digit string; the empty string counts 0), saturated at 2^32-1.  No
    length bound; never a wrapped value. -/
theorem nn_setExpires_any (pf : PFromBody) (val : List UInt8) :
    (setExpires pf val).hasExpires = true ∧ (setExpires pf val).expires = min (decOf (nnDigPre val)) 4294967295 := by
  have hs := setExpires_spec pf (nnDigPre val) (nnDigPre_digits val)
  refine ⟨rfl, ?_⟩
  rw [← hs.1]
  unfold setExpires pUInt64Val
  simp only
  rw [nn_pUInt64Aux_pre val 0 .ok]

theorem nn_setExpires_digits (pf : PFromBody) (val : List UInt8) (hd : AllDigits val) :
    (setExpires pf val).expires = min (decOf val) 4294967295 := by
  rw [(nn_setExpires_any pf val).2, nnDigPre_of_digits val hd]

end Sipsp
