/-
  Sipsp.Proofs.RunLoop — generic theorems about the loop driver `runLoop` (DESIGN §5.3): all induction
  over buffer positions is done here once; the per-parser obligations are about the non-recursive `step`.
-/
import Sipsp.Proofs.Lex

namespace Sipsp

variable {σ : Type}

theorem runLoop_none (m : Machine σ) {b : Buf} {i : Nat} (st : σ) (h : b[i]? = none) :
    runLoop m b i st = m.eob b i st := by
  rw [runLoop]; split
  · rfl
  · rename_i c hc; rw [h] at hc; cases hc

theorem runLoop_done (m : Machine σ) {b : Buf} {i : Nat} {c : UInt8} {st st' : σ} {o : Nat} {e : Err}
    (h : b[i]? = some c) (hs : m.step b i c st = .done o e st') : runLoop m b i st = (o, e, st') := by
  rw [runLoop]; split
  · rename_i hc; rw [h] at hc; cases hc
  · rename_i c' hc; rw [h] at hc; cases hc; rw [hs]

theorem runLoop_cont (m : Machine σ) {b : Buf} {i i' : Nat} {c : UInt8} {st st' : σ}
    (h : b[i]? = some c) (hs : m.step b i c st = .cont i' st') :
    runLoop m b i st = if i < i' then runLoop m b i' st' else (i, Err.lbug, st') := by
  rw [runLoop]; split
  · rename_i hc; rw [h] at hc; cases hc
  · rename_i c' hc; rw [h] at hc; cases hc; rw [hs]

/-- invariant principle: `P` is a loop invariant (on entry of an iteration), `Q` a post-condition. -/
theorem runLoop_inv (m : Machine σ) (b : Buf) (P : Nat → σ → Prop) (Q : Nat × Err × σ → Prop)
    (hcont : ∀ i c st i' st', b[i]? = some c → P i st → m.step b i c st = .cont i' st' →
      (i < i' → P i' st') ∧ (¬ i < i' → Q (i, Err.lbug, st')))
    (hdone : ∀ i c st o e st', b[i]? = some c → P i st → m.step b i c st = .done o e st' → Q (o, e, st'))
    (heob : ∀ i st, b[i]? = none → P i st → Q (m.eob b i st))
    (i : Nat) (st : σ) (hP : P i st) : Q (runLoop m b i st) := by
  induction hk : b.size - i using Nat.strongRecOn generalizing i st with
  | _ k ih =>
    cases hb : b[i]? with
    | none => rw [runLoop_none m st hb]; exact heob i st hb hP
    | some c =>
      cases hs : m.step b i c st with
      | done o e st' => rw [runLoop_done m hb hs]; exact hdone i c st o e st' hb hP hs
      | cont i' st' =>
        rw [runLoop_cont m hb hs]
        have hc := hcont i c st i' st' hb hP hs
        split
        · rename_i hlt
          have := get?_lt hb
          exact ih (b.size - i') (by omega) i' st' (hc.1 hlt) rfl
        · rename_i hnl; exact hc.2 hnl

/-- a machine makes progress: every `cont` moves forward -/
def Progress (m : Machine σ) : Prop :=
  ∀ b i c st i' st', b[i]? = some c → m.step b i c st = .cont i' st' → i < i'

/-- the step at `(i, c, st)` gives the same result on every extension of the buffer, unless it asked for
    more bytes -/
def StepStable (m : Machine σ) (b s : Buf) : Prop :=
  ∀ i c st, b[i]? = some c → (∀ o st', m.step b i c st ≠ .done o .moreBytes st') →
    m.step (b ++ s) i c st = m.step b i c st

/-- the end-of-buffer exit always asks for more bytes -/
def EobMore (m : Machine σ) (b : Buf) : Prop := ∀ i st, (m.eob b i st).2.1 = Err.moreBytes

/-- **L1 (generic)**: a definitive result does not change when more bytes arrive. -/
theorem runLoop_stable (m : Machine σ) (b s : Buf) (hst : StepStable m b s) (heob : EobMore m b)
    (i : Nat) (st : σ) {o : Nat} {e : Err} {st' : σ}
    (h : runLoop m b i st = (o, e, st')) (he : e ≠ .moreBytes) : runLoop m (b ++ s) i st = (o, e, st') := by
  induction hk : b.size - i using Nat.strongRecOn generalizing i st with
  | _ k ih =>
    cases hb : b[i]? with
    | none =>
      rw [runLoop_none m st hb] at h
      have := heob i st; rw [h] at this; exact absurd this he
    | some c =>
      cases hs : m.step b i c st with
      | done o1 e1 st1 =>
        rw [runLoop_done m hb hs] at h; cases h
        have := hst i c st hb (by intro o' s' hh; rw [hs] at hh; cases hh; exact he rfl)
        exact runLoop_done m (get?_app hb) (this.trans hs)
      | cont i' st1 =>
        rw [runLoop_cont m hb hs] at h
        have hsB := (hst i c st hb (by intro o' s' hh; rw [hs] at hh; cases hh)).trans hs
        rw [runLoop_cont m (get?_app hb) hsB]
        split at h
        · rename_i hlt
          rw [if_pos hlt]
          have := get?_lt hb
          exact ih (b.size - i') (by omega) i' st1 h rfl
        · rename_i hnl; rw [if_neg hnl]; exact h

/-- the two kinds of suspension sites restart correctly on the extended buffer -/
def StepRestart (m : Machine σ) (b s : Buf) : Prop :=
  ∀ i c st o st', b[i]? = some c → m.step b i c st = .done o .moreBytes st' →
    runLoop m (b ++ s) o st' = runLoop m (b ++ s) i st

def EobRestart (m : Machine σ) (b s : Buf) : Prop :=
  ∀ i st o st', b[i]? = none → m.eob b i st = (o, Err.moreBytes, st') →
    runLoop m (b ++ s) o st' = runLoop m (b ++ s) i st

/-- **L2 (generic)**: resuming from the returned offset with the saved state, on the extended buffer, gives
    what a fresh run on the extended buffer gives. -/
theorem runLoop_resume (m : Machine σ) (b s : Buf) (hst : StepStable m b s) (hre : StepRestart m b s)
    (hee : EobRestart m b s) (i : Nat) (st : σ) {o : Nat} {st' : σ}
    (h : runLoop m b i st = (o, Err.moreBytes, st')) :
    runLoop m (b ++ s) o st' = runLoop m (b ++ s) i st := by
  induction hk : b.size - i using Nat.strongRecOn generalizing i st with
  | _ k ih =>
    cases hb : b[i]? with
    | none =>
      rw [runLoop_none m st hb] at h
      exact hee i st o st' hb h
    | some c =>
      cases hs : m.step b i c st with
      | done o1 e1 st1 =>
        rw [runLoop_done m hb hs] at h; cases h
        exact hre i c st o st' hb hs
      | cont i' st1 =>
        rw [runLoop_cont m hb hs] at h
        have hsB := (hst i c st hb (by intro o' s' hh; rw [hs] at hh; cases hh)).trans hs
        rw [runLoop_cont m (get?_app hb) hsB]
        split at h
        · rename_i hlt
          rw [if_pos hlt]
          have := get?_lt hb
          exact ih (b.size - i') (by omega) i' st1 h rfl
        · cases h

/-- with progress, the loop artefact `lbug` never shows up -/
theorem runLoop_no_lbug (m : Machine σ) (hp : Progress m) (b : Buf) (i : Nat) (st : σ)
    (hd : ∀ i c st o e st', m.step b i c st = .done o e st' → e ≠ Err.lbug)
    (he : ∀ i st, (m.eob b i st).2.1 ≠ Err.lbug) : (runLoop m b i st).2.1 ≠ Err.lbug := by
  apply runLoop_inv m b (fun _ _ => True) (fun r => r.2.1 ≠ Err.lbug)
  · intro i c st i' st' hb _ hs
    exact ⟨fun _ => trivial, fun hn => absurd (hp b i c st i' st' hb hs) hn⟩
  · intro i c st o e st' _ _ hs; exact hd i c st o e st' hs
  · intro i st _ _; exact he i st
  · trivial

end Sipsp
