/-
  Sipsp.Proofs.Num — decimal accumulators: exact or rejected / saturated, never wrapped.
-/
import Sipsp.Model.NameAddr
import Sipsp.Model.URI

namespace Sipsp

/-- digit value of a byte (irreducible: defeq checks must not try to evaluate `c.toNat - 48`) -/
@[irreducible] def dval (c : UInt8) : Nat := c.toNat - 48

theorem dval_def (c : UInt8) : dval c = c.toNat - 48 := by unfold dval; rfl

def IsDigitB (c : UInt8) : Prop := 48 ≤ c.toNat ∧ c.toNat ≤ 57

def AllDigits (l : List UInt8) : Prop := ∀ c ∈ l, IsDigitB c

/-- the (unbounded) decimal value of `l` continuing from the value `n` -/
def decFrom (n : Nat) : List UInt8 → Nat
  | [] => n
  | c :: cs => decFrom (n * 10 + dval c) cs

/-- the decimal value of a digit string -/
def decOf (l : List UInt8) : Nat := decFrom 0 l

theorem decFrom_nil (n : Nat) : decFrom n [] = n := by rw [decFrom]
theorem decFrom_cons (n : Nat) (c : UInt8) (cs : List UInt8) :
    decFrom n (c :: cs) = decFrom (n * 10 + dval c) cs := by rw [decFrom]

theorem decFrom_ge (n : Nat) (l : List UInt8) : n ≤ decFrom n l := by
  induction l generalizing n with
  | nil => rw [decFrom_nil]; exact Nat.le_refl _
  | cons c cs ih => rw [decFrom_cons]; exact Nat.le_trans (by omega) (ih (n * 10 + dval c))

theorem decFrom_mono (n m : Nat) (l : List UInt8) (h : n ≤ m) : decFrom n l ≤ decFrom m l := by
  induction l generalizing n m with
  | nil => rw [decFrom_nil, decFrom_nil]; exact h
  | cons c cs ih => rw [decFrom_cons, decFrom_cons]; exact ih _ _ (by omega)

theorem digit_cond (c : UInt8) (h : IsDigitB c) : (c < 48 || c > 57) = false := by
  have h1 : ¬ c < 48 := by rw [UInt8.lt_iff_toNat_lt]; have := h.1; simp; omega
  have h2 : ¬ c > 57 := by rw [gt_iff_lt, UInt8.lt_iff_toNat_lt]; have := h.2; simp; omega
  simp [h1, h2]

theorem dval_le (c : UInt8) (h : IsDigitB c) : dval c ≤ 9 := by rw [dval_def]; have := h.2; omega

theorem pUInt64Aux_cons (c : UInt8) (cs : List UInt8) (n : Nat) (e : Err) (hc : IsDigitB c) :
    pUInt64Aux (c :: cs) n e =
      if n > (maxU64 - dval c) / 10 then pUInt64Aux cs maxU64 Err.valTooLong
      else pUInt64Aux cs (n * 10 + dval c) e := by
  rw [pUInt64Aux, digit_cond c hc]
  simp only [Bool.false_eq_true, if_false, dval_def]

/-- the overflow test is exact: `n > (M - d)/10  ↔  n*10 + d > M` -/
theorem ovf_iff (n d : Nat) (hd : d ≤ 9) :
    n > (18446744073709551615 - d) / 10 ↔ n * 10 + d > 18446744073709551615 := by
  omega

/-- **pUInt64Val**: on a digit string the result is the exact value, or — when it does not fit in 64
    bits — the saturated value together with an error; never a wrapped value. (Any length.) -/
theorem pUInt64Aux_spec (l : List UInt8) (n : Nat) (e : Err) (hd : AllDigits l) (hn : n ≤ maxU64) :
    (decFrom n l ≤ maxU64 → pUInt64Aux l n e = (decFrom n l, e)) ∧
    (decFrom n l > maxU64 → pUInt64Aux l n e = (maxU64, Err.valTooLong)) := by
  induction l generalizing n e with
  | nil =>
    rw [decFrom_nil]
    exact ⟨fun _ => by rw [pUInt64Aux], fun h => absurd hn (by omega)⟩
  | cons c cs ih =>
    have hc : IsDigitB c := hd c List.mem_cons_self
    have hcs : AllDigits cs := fun x hx => hd x (List.mem_cons_of_mem _ hx)
    rw [pUInt64Aux_cons c cs n e hc]
    rw [decFrom_cons]
    have h9 := dval_le c hc
    have hge := decFrom_ge (n * 10 + dval c) cs
    by_cases hov : n > (maxU64 - dval c) / 10
    · rw [if_pos hov]
      have hbig : n * 10 + dval c > maxU64 := (ovf_iff n (dval c) h9).1 hov
      have ihm := ih maxU64 Err.valTooLong hcs (Nat.le_refl _)
      have hgm := decFrom_ge maxU64 cs
      constructor
      · intro h; omega
      · intro _
        by_cases hq : decFrom maxU64 cs ≤ maxU64
        · have : decFrom maxU64 cs = maxU64 := by omega
          rw [ihm.1 hq, this]
        · exact ihm.2 (by omega)
    · rw [if_neg hov]
      have hfit : n * 10 + dval c ≤ maxU64 := by
        have h := ovf_iff n (dval c) h9
        unfold maxU64 at hov ⊢
        rcases Nat.lt_or_ge 18446744073709551615 (n * 10 + dval c) with h' | h'
        · exact absurd (h.2 h') hov
        · exact h'
      exact ih _ _ hcs hfit

theorem pUInt64Val_spec (l : List UInt8) (hd : AllDigits l) :
    (decOf l ≤ maxU64 → pUInt64Val l = (decOf l, Err.ok)) ∧
    (decOf l > maxU64 → pUInt64Val l = (maxU64, Err.valTooLong)) :=
  pUInt64Aux_spec l 0 .ok hd (Nat.zero_le _)

/-- **Contact `expires` parameter saturates at 2^32-1**, exact below that, for digit strings of any length -/
theorem setExpires_spec (pf : PFromBody) (val : List UInt8) (hd : AllDigits val) :
    (setExpires pf val).expires = min (decOf val) 4294967295 ∧ (setExpires pf val).hasExpires = true := by
  unfold setExpires
  have hs := pUInt64Val_spec val hd
  by_cases hfit : decOf val ≤ maxU64
  · rw [hs.1 hfit]
    simp only
    refine ⟨?_, trivial⟩
    split <;> omega
  · rw [hs.2 (by omega)]
    simp only
    refine ⟨?_, trivial⟩
    have h1 : ¬ (maxU64 < 4294967295) := by unfold maxU64; omega
    rw [if_neg h1]
    unfold maxU64 at hfit; omega

/-- the 32-bit header accumulator (`v := uint64(old)*10 + digit; if v > 2^32-1 → reject`), as a function of
    the digits consumed so far: `none` = rejected -/
def accU32 (n : Nat) : List UInt8 → Option Nat
  | [] => some n
  | c :: cs => let v := n * 10 + dval c; if v > 4294967295 then none else accU32 v cs

/-- **exact or rejected**: the accumulator holds the exact decimal value as long as it fits in 32 bits and
    rejects as soon as it does not (digit strings of any length) -/
theorem accU32_spec (l : List UInt8) (n : Nat) (hn : n ≤ 4294967295) :
    (decFrom n l ≤ 4294967295 → accU32 n l = some (decFrom n l)) ∧
    (decFrom n l > 4294967295 → accU32 n l = none) := by
  induction l generalizing n with
  | nil => rw [decFrom_nil]; exact ⟨fun _ => by rw [accU32], fun h => absurd hn (by omega)⟩
  | cons c cs ih =>
    rw [decFrom_cons, accU32]
    have hge := decFrom_ge (n * 10 + dval c) cs
    by_cases hv : n * 10 + dval c > 4294967295
    · rw [if_pos hv]
      exact ⟨fun h => by omega, fun _ => rfl⟩
    · rw [if_neg hv]
      exact ih _ (by omega)

/-- the URI port accumulator: exact while ≤ 65535, and once above it stays above (so it is rejected) -/
theorem accPort_spec (p : Nat) (c : UInt8) :
    (p ≤ 65535 → accPort p c = p * 10 + dval c) ∧ (p > 65535 → accPort p c = p) := by
  unfold accPort
  rw [dval_def]
  constructor
  · intro h; rw [if_pos h]
  · intro h; rw [if_neg (by omega)]

def accPortL (p : Nat) : List UInt8 → Nat
  | [] => p
  | c :: cs => accPortL (accPort p c) cs

theorem accPortL_spec (l : List UInt8) (p : Nat) :
    (decFrom p l ≤ 65535 → accPortL p l = decFrom p l) ∧ (decFrom p l > 65535 → accPortL p l > 65535) := by
  induction l generalizing p with
  | nil => rw [decFrom_nil, accPortL]; exact ⟨fun _ => rfl, fun h => h⟩
  | cons c cs ih =>
    rw [decFrom_cons, accPortL]
    have hs := accPort_spec p c
    by_cases hp : p ≤ 65535
    · rw [hs.1 hp]; exact ih _
    · rw [hs.2 (by omega)]
      have h1 := decFrom_ge (p * 10 + dval c) cs
      have h2 := decFrom_ge p cs
      constructor
      · intro h; omega
      · intro _
        have := (ih p).2
        by_cases hq : decFrom p cs > 65535
        · exact this hq
        · omega

end Sipsp
