/-
  Sipsp.Proofs.CapacityPAI — capacity independence of the P-Asserted-Identity value list (as Capacity.lean).
-/
import Sipsp.Proofs.Capacity

namespace Sipsp

def PPAIs.wrap (c : PPAIs) : PPAIs :=
  if c.n ≥ c.vals.size && c.last.parsed then { c with last := {} } else c

def PaClean (c : PPAIs) : Prop :=
  (∀ k, c.n < k → k < c.vals.size → c.vals[k]! = {}) ∧ (c.n < c.vals.size → c.last = {})

structure PaRel (c1 c2 : PPAIs) : Prop where
  n : c1.n = c2.n
  hNo : c1.hNo = c2.hNo
  lhv : c1.lastHVal = c2.lastHVal
  pnc : c1.pnc = c2.pnc
  cur : c1.cur = c2.cur
  agree : ∀ k, k < c1.n → k < c1.vals.size → k < c2.vals.size → c1.vals[k]! = c2.vals[k]!
  clean1 : PaClean c1
  clean2 : PaClean c2

theorem paSetCur_get_n (c : PPAIs) (pf : PFromBody) (h : c.n < c.vals.size) : (c.setCur pf).vals[c.n]! = pf := by
  have := paSetCur_cur c pf
  unfold PPAIs.cur at this
  rw [paSetCur_n, paSetCur_size, if_pos h] at this
  exact this

theorem paAccount_lhv (c : PPAIs) (pf : PFromBody) :
    (c.account pf).lastHVal = if c.lastHVal.isEmpty then pf.v else c.lastHVal.extend pf.v.endT := by
  unfold PPAIs.account; dsimp only
  by_cases h1 : c.lastHVal.isEmpty = true <;> simp only [h1, ↓reduceIte, Bool.false_eq_true]

theorem paAccount_pnc (c : PPAIs) (pf : PFromBody) :
    (c.account pf).pnc = if c.lastHVal.isEmpty then c.pnc else (c.pnc || c.lastHVal.extendPanics pf.v.endT) := by
  unfold PPAIs.account; dsimp only
  by_cases h1 : c.lastHVal.isEmpty = true <;> simp only [h1, ↓reduceIte, Bool.false_eq_true]

theorem paAccount_hNo (c : PPAIs) (pf : PFromBody) : (c.account pf).hNo = c.hNo := by
  unfold PPAIs.account; dsimp only; split <;> rfl

theorem paSetCur_scalars (c : PPAIs) (pf : PFromBody) :
    (c.setCur pf).hNo = c.hNo ∧ (c.setCur pf).lastHVal = c.lastHVal ∧ (c.setCur pf).pnc = c.pnc := by
  unfold PPAIs.setCur; split <;> exact ⟨rfl, rfl, rfl⟩

/-- scalars of `(c.setCur pf).account pf` as functions of the scalars of `c` -/
theorem paStep_scalars (c1 c2 : PPAIs) (pf : PFromBody) (hn : c1.n = c2.n) (hh : c1.hNo = c2.hNo)
    (h3 : c1.lastHVal = c2.lastHVal) (h4 : c1.pnc = c2.pnc) :
    ((c1.setCur pf).account pf).n = ((c2.setCur pf).account pf).n ∧
    ((c1.setCur pf).account pf).hNo = ((c2.setCur pf).account pf).hNo ∧
    ((c1.setCur pf).account pf).lastHVal = ((c2.setCur pf).account pf).lastHVal ∧
    ((c1.setCur pf).account pf).pnc = ((c2.setCur pf).account pf).pnc := by
  have s1 := paSetCur_scalars c1 pf
  have s2 := paSetCur_scalars c2 pf
  refine ⟨by rw [paAccount_n, paAccount_n, paSetCur_n, paSetCur_n, hn],
    by rw [paAccount_hNo, paAccount_hNo, s1.1, s2.1, hh],
    by rw [paAccount_lhv, paAccount_lhv, s1.2.1, s2.2.1, h3],
    by rw [paAccount_pnc, paAccount_pnc, s1.2.1, s2.2.1, s1.2.2, s2.2.2, h3, h4]⟩

def PPAIs.next (c : PPAIs) (pf : PFromBody) : PPAIs :=
  if c.n < c.vals.size then (c.setCur pf).account pf else { (c.setCur pf).account pf with last := {} }

theorem paNext_n (c : PPAIs) (pf : PFromBody) : (c.next pf).n = c.n + 1 := by
  unfold PPAIs.next; split <;> simp [paAccount_n, paSetCur_n]

theorem paNext_vals (c : PPAIs) (pf : PFromBody) : (c.next pf).vals = (c.setCur pf).vals := by
  unfold PPAIs.next; split <;> simp [paAccount_vals]

theorem paNext_scalars (c : PPAIs) (pf : PFromBody) :
    (c.next pf).hNo = ((c.setCur pf).account pf).hNo ∧ (c.next pf).lastHVal = ((c.setCur pf).account pf).lastHVal ∧
    (c.next pf).pnc = ((c.setCur pf).account pf).pnc := by
  unfold PPAIs.next; split <;> exact ⟨rfl, rfl, rfl⟩

theorem paNext_clean (c : PPAIs) (pf : PFromBody) (h : PaClean c) : PaClean (c.next pf) ∧ (c.next pf).cur = {} := by
  have hv := paNext_vals c pf
  have hn := paNext_n c pf
  have hsz : (c.next pf).vals.size = c.vals.size := by rw [hv, paSetCur_size]
  have hget : ∀ k, c.n < k → k < c.vals.size → (c.next pf).vals[k]! = {} := by
    intro k h1 h2
    rw [hv, paSetCur_vals_ne c pf k (by omega)]; exact h.1 k h1 h2
  have hlast : ¬ c.n < c.vals.size → (c.next pf).last = {} := by
    intro hin; unfold PPAIs.next; rw [if_neg hin]
  have hlast2 : c.n < c.vals.size → (c.next pf).last = {} := by
    intro hin
    unfold PPAIs.next; rw [if_pos hin, paAccount_last, paSetCur_last_in c pf hin]; exact h.2 hin
  refine ⟨⟨fun k h1 h2 => ?_, fun h1 => ?_⟩, ?_⟩
  · rw [hn] at h1; rw [hsz] at h2; exact hget k (by omega) h2
  · rw [hn, hsz] at h1; exact hlast2 (by omega)
  · unfold PPAIs.cur
    rw [hn, hsz]
    split
    · rename_i hin; exact hget _ (by omega) hin
    · by_cases hin : c.n < c.vals.size
      · exact hlast2 hin
      · exact hlast hin

theorem paAgree_step {c1 c2 : PPAIs} (h : PaRel c1 c2) (pf : PFromBody) :
    ∀ k, k < c1.n + 1 → k < c1.vals.size → k < c2.vals.size → (c1.setCur pf).vals[k]! = (c2.setCur pf).vals[k]! := by
  intro k hk h1 h2
  by_cases hkn : k = c1.n
  · subst hkn
    rw [paSetCur_get_n c1 pf h1]
    have : c1.n = c2.n := h.n
    rw [this] at h2 ⊢
    rw [paSetCur_get_n c2 pf h2]
  · rw [paSetCur_vals_ne c1 pf k (by omega), paSetCur_vals_ne c2 pf k (by rw [← h.n]; omega)]
    exact h.agree k (by omega) h1 h2

theorem PaRel.next {c1 c2 : PPAIs} (h : PaRel c1 c2) (pf : PFromBody) : PaRel (c1.next pf) (c2.next pf) := by
  have hs := paStep_scalars c1 c2 pf h.n h.hNo h.lhv h.pnc
  have k1 := paNext_scalars c1 pf; have k2 := paNext_scalars c2 pf
  have c1' := paNext_clean c1 pf h.clean1
  have c2' := paNext_clean c2 pf h.clean2
  refine ⟨by rw [paNext_n, paNext_n, h.n], by rw [k1.1, k2.1, hs.2.1], by rw [k1.2.1, k2.2.1, hs.2.2.1],
    by rw [k1.2.2, k2.2.2, hs.2.2.2], by rw [c1'.2, c2'.2], ?_, c1'.1, c2'.1⟩
  intro k hk h1 h2
  rw [paNext_n] at hk
  rw [paNext_vals, paSetCur_size] at h1 h2
  rw [paNext_vals, paNext_vals]
  exact paAgree_step h pf k hk h1 h2

structure PaDone (c1 c2 : PPAIs) : Prop where
  n : c1.n = c2.n
  hNo : c1.hNo = c2.hNo
  lhv : c1.lastHVal = c2.lastHVal
  pnc : c1.pnc = c2.pnc
  agree : ∀ k, k < c1.n → k < c1.vals.size → k < c2.vals.size → c1.vals[k]! = c2.vals[k]!
  wrapCur : c1.wrap.cur = {} ∧ c2.wrap.cur = {}
  clean1 : PaClean c1.wrap
  clean2 : PaClean c2.wrap

theorem paWrap_scalars (c : PPAIs) :
    c.wrap.n = c.n ∧ c.wrap.vals = c.vals ∧ c.wrap.hNo = c.hNo ∧ c.wrap.lastHVal = c.lastHVal ∧ c.wrap.pnc = c.pnc := by
  unfold PPAIs.wrap; split <;> exact ⟨rfl, rfl, rfl, rfl, rfl⟩

theorem paDone_facts (c : PPAIs) (pf : PFromBody) (h : PaClean c) (hf : pf.state = .fin) :
    let c' := (c.setCur pf).account pf
    c'.wrap.cur = {} ∧ PaClean c'.wrap := by
  intro c'
  have hn : c'.n = c.n + 1 := by show ((c.setCur pf).account pf).n = _; rw [paAccount_n, paSetCur_n]
  have hv : c'.vals = (c.setCur pf).vals := paAccount_vals _ _
  have hsz : c'.vals.size = c.vals.size := by rw [hv, paSetCur_size]
  have hl : c'.last = (c.setCur pf).last := paAccount_last _ _
  obtain ⟨w1, w2, _⟩ := paWrap_scalars c'
  have hget : ∀ k, c.n < k → k < c.vals.size → c'.vals[k]! = {} := by
    intro k h1 h2
    rw [hv, paSetCur_vals_ne c pf k (by omega)]; exact h.1 k h1 h2
  have hwl : c.n + 1 ≥ c.vals.size → c'.wrap.last = {} := by
    intro hge
    unfold PPAIs.wrap
    by_cases hin : c.n < c.vals.size
    · have : c'.last = {} := by rw [hl, paSetCur_last_in c pf hin]; exact h.2 hin
      split
      · rfl
      · exact this
    · have : c'.last = pf := by rw [hl, paSetCur_last_out c pf hin]
      have hp : (decide (c'.n ≥ c'.vals.size) && c'.last.parsed) = true := by
        rw [this]; simp [PFromBody.parsed, hf, hn, hsz]; omega
      rw [if_pos hp]
  refine ⟨?_, ⟨fun k h1 h2 => ?_, fun h1 => ?_⟩⟩
  · unfold PPAIs.cur
    rw [w1, w2, hn, hsz]
    split
    · rename_i hin; exact hget _ (by omega) hin
    · rename_i hin; exact hwl (by omega)
  · rw [w1, hn] at h1; rw [w2, hsz] at h2; rw [w2]; exact hget k (by omega) h2
  · rw [w1, w2, hn, hsz] at h1
    unfold PPAIs.wrap
    have hin : c.n < c.vals.size := by omega
    have : c'.last = {} := by rw [hl, paSetCur_last_in c pf hin]; exact h.2 hin
    split
    · rfl
    · exact this

/-- ParseOnePAI leaves a finished value after OK / MoreValues -/
theorem parseOnePAI_fin (b : Buf) (o : Nat) (pf : PFromBody) {n : Nat} {e : Err} {pf' : PFromBody}
    (h : parseOnePAI b o pf = (n, e, pf')) (hc : e = .ok ∨ e = .moreValues) : pf'.state = .fin := by
  obtain ⟨e0, h0, he0⟩ := parseOnePAI_inv h
  have : e0 = .ok ∨ e0 = .moreValues := by
    split at he0
    · rcases hc with rfl | rfl <;> cases he0
    · rw [← he0]; exact hc
  exact (parseNameAddrPVal_post HdrPAI b o pf h0 this).1

theorem paisLoop_rel (b : Buf) (offs : Nat) (c1 c2 : PPAIs) (h : PaRel c1 c2) :
    (paisLoop b offs c1).1 = (paisLoop b offs c2).1 ∧
    (paisLoop b offs c1).2.1 = (paisLoop b offs c2).2.1 ∧
    ((paisLoop b offs c1).2.1 = .moreBytes → PaRel (paisLoop b offs c1).2.2 (paisLoop b offs c2).2.2) ∧
    ((paisLoop b offs c1).2.1 = .ok → PaDone (paisLoop b offs c1).2.2 (paisLoop b offs c2).2.2) := by
  induction hk : b.size - offs using Nat.strongRecOn generalizing offs c1 c2 with
  | _ k ih =>
    rw [paisLoop.eq_1 b offs c1, paisLoop.eq_1 b offs c2, ← h.cur]
    rcases hp : parseOnePAI b offs c1.cur with ⟨next, e1, pf⟩
    cases e1 <;> simp only
    case ok =>
      refine ⟨(by first | rfl | trivial), (by first | rfl | trivial), (fun hh => by cases hh), fun _ => ?_⟩
      have hf := parseOnePAI_fin b offs c1.cur hp (Or.inl rfl)
      have hs := paStep_scalars c1 c2 pf h.n h.hNo h.lhv h.pnc
      have d1 := paDone_facts c1 pf h.clean1 hf
      have d2 := paDone_facts c2 pf h.clean2 hf
      refine ⟨hs.1, hs.2.1, hs.2.2.1, hs.2.2.2, ?_, ⟨d1.1, d2.1⟩, d1.2, d2.2⟩
      intro k hk h1 h2
      rw [paAccount_n, paSetCur_n] at hk
      rw [paAccount_vals, paSetCur_size] at h1 h2
      rw [paAccount_vals, paAccount_vals]
      exact paAgree_step h pf k hk h1 h2
    case moreValues =>
      by_cases hg : offs < next ∧ next ≤ b.size
      · rw [if_pos hg, if_pos hg]
        exact ih (b.size - next) (by omega) next (c1.next pf) (c2.next pf) (h.next pf) rfl
      · rw [if_neg hg, if_neg hg]
        exact ⟨(by first | rfl | trivial), (by first | rfl | trivial), (fun hh => by cases hh), (fun hh => by cases hh)⟩
    case moreBytes =>
      refine ⟨(by first | rfl | trivial), (by first | rfl | trivial), fun _ => ?_, (fun hh => by cases hh)⟩
      have s1 := paSetCur_scalars c1 pf
      have s2 := paSetCur_scalars c2 pf
      refine ⟨by rw [paSetCur_n, paSetCur_n, h.n], by rw [s1.1, s2.1, h.hNo], by rw [s1.2.1, s2.2.1, h.lhv],
        by rw [s1.2.2, s2.2.2, h.pnc], by rw [paSetCur_cur, paSetCur_cur], ?_, ?_, ?_⟩
      · intro k hk h1 h2
        rw [paSetCur_n] at hk
        rw [paSetCur_size] at h1 h2
        rw [paSetCur_vals_ne c1 pf k (by omega), paSetCur_vals_ne c2 pf k (by rw [← h.n]; omega)]
        exact h.agree k hk h1 h2
      · refine ⟨fun k h1 h2 => ?_, fun h1 => ?_⟩
        · rw [paSetCur_n] at h1; rw [paSetCur_size] at h2
          rw [paSetCur_vals_ne c1 pf k (by omega)]; exact h.clean1.1 k h1 h2
        · rw [paSetCur_n, paSetCur_size] at h1
          rw [paSetCur_last_in c1 pf h1]; exact h.clean1.2 h1
      · refine ⟨fun k h1 h2 => ?_, fun h1 => ?_⟩
        · rw [paSetCur_n] at h1; rw [paSetCur_size] at h2
          rw [paSetCur_vals_ne c2 pf k (by omega)]; exact h.clean2.1 k h1 h2
        · rw [paSetCur_n, paSetCur_size] at h1
          rw [paSetCur_last_in c2 pf h1]; exact h.clean2.2 h1
    all_goals exact ⟨(by first | rfl | trivial), (by first | rfl | trivial), (fun hh => by cases hh), (fun hh => by cases hh)⟩

def PaW (c1 c2 : PPAIs) : Prop := PaRel c1.wrap c2.wrap

theorem parseAllPAIValues_eq_wrap (b : Buf) (offs : Nat) (c : PPAIs) :
    parseAllPAIValues b offs c = paisLoop b offs c.wrap := rfl

theorem PaDone.toW {c1 c2 : PPAIs} (h : PaDone c1 c2) : PaW c1 c2 := by
  obtain ⟨a1, a2, a3, a4, a5⟩ := paWrap_scalars c1
  obtain ⟨b1, b2, b3, b4, b5⟩ := paWrap_scalars c2
  refine ⟨by rw [a1, b1, h.n], by rw [a3, b3, h.hNo], by rw [a4, b4, h.lhv], by rw [a5, b5, h.pnc],
    by rw [h.wrapCur.1, h.wrapCur.2], ?_, h.clean1, h.clean2⟩
  intro k hk h1 h2
  rw [a1] at hk; rw [a2] at h1 ⊢; rw [b2] at h2 ⊢
  exact h.agree k hk h1 h2

theorem paWrap_id_of_pending (c : PPAIs) (h : c.cur.state ≠ .fin) : c.wrap = c := by
  unfold PPAIs.wrap
  split
  · rename_i hc
    exfalso
    simp only [Bool.and_eq_true, decide_eq_true_eq] at hc
    have hcur : c.cur = c.last := by unfold PPAIs.cur; rw [if_neg (by omega)]
    rw [hcur] at h
    exact h (by simpa [PFromBody.parsed] using hc.2)
  · rfl

theorem PaRel.toW {c1 c2 : PPAIs} (h : PaRel c1 c2) (hnf : c1.cur.state ≠ .fin) : PaW c1 c2 := by
  unfold PaW
  rw [paWrap_id_of_pending c1 hnf, paWrap_id_of_pending c2 (by rw [← h.cur]; exact hnf)]
  exact h

theorem PaW.bump {c1 c2 : PPAIs} (h : PaW c1 c2) :
    PaW { c1 with hNo := c1.hNo + 1, lastHVal := {} } { c2 with hNo := c2.hNo + 1, lastHVal := {} } := by
  unfold PaW at h ⊢
  have key : ∀ c : PPAIs, ({ c with hNo := c.hNo + 1, lastHVal := {} } : PPAIs).wrap =
      { c.wrap with hNo := c.wrap.hNo + 1, lastHVal := {} } := by
    intro c; unfold PPAIs.wrap; split <;> rfl
  rw [key c1, key c2]
  exact ⟨h.n, by show c1.wrap.hNo + 1 = c2.wrap.hNo + 1; rw [h.hNo], rfl, h.pnc, h.cur, h.agree, h.clean1, h.clean2⟩

theorem parseAllPAIValues_rel (b : Buf) (offs : Nat) (c1 c2 : PPAIs) (h : PaW c1 c2) :
    (parseAllPAIValues b offs c1).1 = (parseAllPAIValues b offs c2).1 ∧
    (parseAllPAIValues b offs c1).2.1 = (parseAllPAIValues b offs c2).2.1 ∧
    ((parseAllPAIValues b offs c1).2.1 = .moreBytes →
      PaRel (parseAllPAIValues b offs c1).2.2 (parseAllPAIValues b offs c2).2.2) ∧
    ((parseAllPAIValues b offs c1).2.1 = .ok →
      PaDone (parseAllPAIValues b offs c1).2.2 (parseAllPAIValues b offs c2).2.2) := by
  rw [parseAllPAIValues_eq_wrap, parseAllPAIValues_eq_wrap]
  exact paisLoop_rel b offs c1.wrap c2.wrap h

end Sipsp
