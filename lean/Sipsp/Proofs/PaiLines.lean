/-
  Sipsp.Proofs.PaiLines — what was still open for the Contact / P-Asserted-Identity value LISTS.

  (1) EXPORT C09: the stored VALUES of several P-Asserted-Identity header lines (mirror of `ht_htLines_stored`, which is
      about Contact).  All statements are about `PPAIs.htLines` (the object after any number of P-Asserted-Identity lines,
      each a `ValList` of the C09 grammar, parsed with one values object: `ht_pai_values`, `HtBlock.contacts`), for ANY
      lists of values, any number of lines, any object the lines are parsed into:
      * `pl_lines_stored`: the stored identities are the values of ALL lines, in order, those that fit the array (the Go
        type has a fixed array of two); `pl_lines_size`, `pl_lines_keep` (capacity unchanged, earlier values untouched);
        `pl_lines_more`: `More()` ⇔ old `N` + number of values > capacity; `pl_lines_getPAI`: `GetPAI k` on an object that
        held nothing = the `k`-th value of all lines for `k < min (N, capacity)`, nil beyond; `pl_lines_ready`;
        one line: `pl_line_stored`, `pl_line_keep`, `pl_line_size`; one value list: `pl_acceptAll_stored / _keep / _size`.
      * `pl_new_lines` (the new Go object, two slots): `N` = total number of values, `HNo` = number of lines,
        `More()` ⇔ more than two values, `GetPAI k` for every `k`; `pl_new_getPAI0`, `pl_new_getPAI1` (the second value,
        whether it stands on the first line or on a later one), `pl_new_getPAI_none`.
      * inside ParseHeaders blocks: `HtBlock.pl_pais` (identity list new at the start of the block: the four facts of
        `pl_new_lines` for the P-Asserted-Identity lines of the block, whatever headers stand between them),
        `HtBlock.pl_pais_stored` (any identity list object), `HtBlock.pl_pa_ne`.
      Non-vacuity: `plEx_block` (a block with two P-Asserted-Identity lines, three values, a Via line between them) and
      the example after it.
  (2) EXPORT C05, message level, for EVERY input within the 65,535-byte limit (no grammar assumption):
      * `pn_value_nonempty`: whenever ParseNameAddrPVal, started on a new object, says OK or "more values", the reported
        value span `V` has at least one byte (loop invariant `PnI` over the 33-state automaton, `pn_cont` / `pn_done`).
        Hence the exception "values with an empty `V`" of `svc_contact_line` / `svc_pai_line` never applies:
        `pl_contact_line_ne`, `pl_pai_line_ne`.
      * `pl_contactsLoop_keep`, `pl_paisLoop_keep`, `pl_contact_line_keep`, `pl_pai_line_keep` (no hypothesis at all): the
        value-list loops never touch the values counted before, and keep the capacity.
      * `pl_parseBody`, `pl_parseHdrLine` (`PlEff2`): what ONE header line, parsed from a new header object with both value
        lists idle, does to the two lists: nothing; or the accepted header has the type of the list, the old values are
        untouched, and every value stored from the line has a non-empty `V` that lies inside the header's `val`.
      * `PlAssoc`, `PlAssoc.next`, `PlAssoc.setCur`, `PlInv`, `pl_parseHeaders`: the invariant carried through ParseHeaders —
        a map from the values to the counted header lines, in message order.
      * `pl_parseSIPMsg`, `pl_values_in_headers_init` (one successful ParseSIPMsg call on an object produced by Init, any
        capacities), `pl_values_in_headers_schedule_init` (every chain of resumed calls over growing prefixes, through
        the one-shot equivalence `C01.schedule_msg_init`): `PlMsg m'` — spelled out in `PlMsg.meaning` / `PlMsg.some_header`:
        there is a map `f` from the Contact values to the counted header lines (`f k < HdrLst.N`), monotone, such that for
        every STORED value `k` (`k < min (N, capacity)`) whose header `f k` is itself stored (`f k` < header capacity),
        header `f k` has type Contact, and the value's `V` is not empty and lies inside that header's `val`; the same for
        the P-Asserted-Identity values.
      Non-vacuity / tests: `plTest_msg` and the tests after it.
  NOT proved here: the message-level statement for objects suspended in the middle of a header line other than through
  the one-shot equivalence (so the schedule form needs growing prefixes within the size limit; arbitrary buffer lists
  as in `shortcut_values_eq_schedule_init` are not covered); that `f k` is exactly the `HNo`-th header of that type;
  the converse (every stored Contact header has a value); min / max expires over several P-Asserted-Identity lines do
  not exist in the Go type (no such fields).
-/
import Sipsp.Proofs.HdrTyped
import Sipsp.Proofs.SigCovered

namespace Sipsp

/-! ### (1) several P-Asserted-Identity lines: the stored values (mirror of `ht_htLines_stored`) -/

theorem pl_acceptAll_size (c : PPAIs) (rs : List PFromBody) : (c.acceptAll rs).vals.size = c.vals.size := by
  induction rs generalizing c with
  | nil => rfl
  | cons r rs ih =>
    cases rs with
    | nil => show ((c.setCur r).account r).vals.size = _; rw [paAccount_vals, paSetCur_size]
    | cons r2 rs' =>
      show ((c.next r).acceptAll (r2 :: rs')).vals.size = _
      rw [ih, paNext_vals, paSetCur_size]

theorem pl_acceptAll_keep (c : PPAIs) (rs : List PFromBody) (j : Nat) (hj : j < c.n) :
    (c.acceptAll rs).vals[j]! = c.vals[j]! := by
  induction rs generalizing c with
  | nil => rfl
  | cons r rs ih =>
    cases rs with
    | nil => show ((c.setCur r).account r).vals[j]! = _; rw [paAccount_vals, paSetCur_vals_ne c r j (by omega)]
    | cons r2 rs' =>
      show ((c.next r).acceptAll (r2 :: rs')).vals[j]! = _
      rw [ih _ (by rw [paNext_n]; omega), paNext_vals, paSetCur_vals_ne c r j (by omega)]

/-- the stored values of one line are its values, in order (those that fit the two slots) -/
theorem pl_acceptAll_stored (c : PPAIs) (rs : List PFromBody) (k : Nat) (hk : k < rs.length)
    (hin : c.n + k < c.vals.size) : (c.acceptAll rs).vals[c.n + k]! = rs[k] := by
  induction rs generalizing c k with
  | nil => cases hk
  | cons r rs ih =>
    cases rs with
    | nil =>
      have : k = 0 := by simpa using hk
      subst this
      show ((c.setCur r).account r).vals[c.n + 0]! = r
      rw [paAccount_vals]; exact paSetCur_get_n c r (by omega)
    | cons r2 rs' =>
      show ((c.next r).acceptAll (r2 :: rs')).vals[c.n + k]! = (r :: r2 :: rs')[k]
      cases k with
      | zero =>
        show ((c.next r).acceptAll (r2 :: rs')).vals[c.n]! = r
        rw [pl_acceptAll_keep _ _ c.n (by rw [paNext_n]; omega), paNext_vals]
        exact paSetCur_get_n c r (by omega)
      | succ k =>
        have := ih (c.next r) k (by simpa using hk) (by rw [paNext_n, paNext_vals, paSetCur_size]; omega)
        rw [paNext_n] at this
        have e : c.n + (k + 1) = c.n + 1 + k := by omega
        rw [e, this]; rfl

theorem pl_line_size (c : PPAIs) (rs : List PFromBody) : (c.htLine rs).vals.size = c.vals.size := by
  rw [ht_paLine_eq, pl_acceptAll_size]
  show c.wrap.vals.size = _
  rw [(paWrap_scalars c).2.1]

theorem pl_line_keep (c : PPAIs) (rs : List PFromBody) (j : Nat) (hj : j < c.n) :
    (c.htLine rs).vals[j]! = c.vals[j]! := by
  rw [ht_paLine_eq, pl_acceptAll_keep _ _ j (by show j < c.wrap.n; rw [(paWrap_scalars c).1]; exact hj)]
  show c.wrap.vals[j]! = _
  rw [(paWrap_scalars c).2.1]

theorem pl_line_stored (c : PPAIs) (rs : List PFromBody) (k : Nat) (hk : k < rs.length)
    (hin : c.n + k < c.vals.size) : (c.htLine rs).vals[c.n + k]! = rs[k] := by
  have hw := paWrap_scalars c
  rw [ht_paLine_eq]
  have := pl_acceptAll_stored c.wrap.htBump rs k hk (by show c.wrap.n + k < c.wrap.vals.size; rw [hw.1, hw.2.1]; exact hin)
  have e : c.wrap.htBump.n = c.n := hw.1
  rw [e] at this
  exact this

theorem pl_lines_cons (c : PPAIs) (rs : List PFromBody) (rss : List (List PFromBody)) :
    c.htLines (rs :: rss) = (c.htLine rs).htLines rss := rfl

theorem pl_lines_size (c : PPAIs) (rss : List (List PFromBody)) : (c.htLines rss).vals.size = c.vals.size := by
  induction rss generalizing c with
  | nil => rfl
  | cons rs rss ih => rw [pl_lines_cons, ih, pl_line_size]

theorem pl_lines_keep (c : PPAIs) (rss : List (List PFromBody)) (j : Nat) (hj : j < c.n) :
    (c.htLines rss).vals[j]! = c.vals[j]! := by
  induction rss generalizing c with
  | nil => rfl
  | cons rs rss ih =>
    rw [pl_lines_cons, ih _ (by rw [ht_paLine_n]; omega), pl_line_keep c rs j hj]

/-- **the stored identities are the values of ALL P-Asserted-Identity lines, in order** (those that fit the array: the
    Go type has a fixed array of two) — for any object the lines are parsed into, whatever it already holds -/
theorem pl_lines_stored (c : PPAIs) (rss : List (List PFromBody)) (k : Nat) (hk : k < rss.flatten.length)
    (hin : c.n + k < c.vals.size) : (c.htLines rss).vals[c.n + k]! = rss.flatten[k] := by
  induction rss generalizing c k with
  | nil => simp at hk
  | cons rs rss ih =>
    rw [pl_lines_cons]
    simp only [List.flatten_cons]
    by_cases h1 : k < rs.length
    · rw [pl_lines_keep _ _ _ (by rw [ht_paLine_n]; omega), pl_line_stored c rs k h1 hin,
        List.getElem_append_left h1]
    · have hk' : k - rs.length < rss.flatten.length := by
        simp only [List.flatten_cons, List.length_append] at hk; omega
      have := ih (c.htLine rs) (k - rs.length) hk' (by rw [ht_paLine_n, pl_line_size]; omega)
      rw [ht_paLine_n] at this
      have e : c.n + rs.length + (k - rs.length) = c.n + k := by omega
      rw [e] at this
      rw [this, List.getElem_append_right (by omega)]

theorem pl_lines_ready (c : PPAIs) (rss : List (List PFromBody)) (hr : HtPaReady c)
    (hne : ∀ rs ∈ rss, rs ≠ []) (hfin : ∀ rs ∈ rss, ∀ r ∈ rs, r.state = .fin) : HtPaReady (c.htLines rss) := by
  induction rss generalizing c with
  | nil => exact hr
  | cons rs rss ih =>
    rw [pl_lines_cons]
    exact ih _ (ht_paLine_ready c rs hr (hne rs List.mem_cons_self) (hfin rs List.mem_cons_self))
      (fun x hx => hne x (List.mem_cons_of_mem _ hx)) (fun x hx => hfin x (List.mem_cons_of_mem _ hx))

/-- **`More()`** ⇔ the lines carry more values than the array holds -/
theorem pl_lines_more (c : PPAIs) (rss : List (List PFromBody)) :
    (c.htLines rss).more = true ↔ c.n + rss.flatten.length > c.vals.size := by
  unfold PPAIs.more
  rw [ht_paLines_n, pl_lines_size]
  simp

/-- **`GetPAI(k)`** after the lines, on an object that held no value before: the `k`-th value of all lines, for `k`
    below the capacity; nil from `min (N, capacity)` on -/
theorem pl_lines_getPAI (c : PPAIs) (hn : c.n = 0) (rss : List (List PFromBody)) (k : Nat) :
    (c.htLines rss).getPAI k =
      if h : k < rss.flatten.length ∧ k < c.vals.size then some (rss.flatten[k]'h.1) else none := by
  unfold PPAIs.getPAI PPAIs.vNo
  rw [ht_paLines_n, pl_lines_size, hn, Nat.zero_add]
  by_cases h : k < rss.flatten.length ∧ k < c.vals.size
  · rw [dif_pos h]
    have hv : (if rss.flatten.length > c.vals.size then c.vals.size else rss.flatten.length) > k := by
      split <;> omega
    rw [if_pos hv]
    have hsz : k < (c.htLines rss).vals.size := by rw [pl_lines_size]; exact h.2
    have := pl_lines_stored c rss k h.1 (by rw [hn]; omega)
    rw [hn, Nat.zero_add] at this
    rw [← this, getElem!_pos _ k hsz]
    exact Array.getElem?_eq_getElem hsz
  · rw [dif_neg h]
    have hv : ¬ (if rss.flatten.length > c.vals.size then c.vals.size else rss.flatten.length) > k := by
      split <;> omega
    rw [if_neg hv]

/-! #### the Go object: a fixed array of two -/

/-- **a new P-Asserted-Identity object (two slots) after any number of lines**: `GetPAI 0` / `GetPAI 1` are the first
    two values of ALL lines in order, `More()` ⇔ more than two values, `N` counts every value, `HNo` every line -/
theorem pl_new_lines (rss : List (List PFromBody)) :
    (({} : PPAIs).htLines rss).n = rss.flatten.length ∧
    (({} : PPAIs).htLines rss).hNo = rss.length ∧
    ((({} : PPAIs).htLines rss).more = true ↔ rss.flatten.length > 2) ∧
    (∀ k, (({} : PPAIs).htLines rss).getPAI k =
      if h : k < rss.flatten.length ∧ k < 2 then some (rss.flatten[k]'h.1) else none) := by
  refine ⟨by rw [ht_paLines_n]; exact Nat.zero_add _, by rw [ht_paLines_hNo]; exact Nat.zero_add _, ?_, fun k => ?_⟩
  · rw [pl_lines_more]; show 0 + _ > 2 ↔ _; omega
  · exact pl_lines_getPAI {} rfl rss k

/-- the first value of all lines -/
theorem pl_new_getPAI0 (rss : List (List PFromBody)) (h : 0 < rss.flatten.length) :
    (({} : PPAIs).htLines rss).getPAI 0 = some rss.flatten[0] := by
  rw [(pl_new_lines rss).2.2.2 0, dif_pos ⟨h, by omega⟩]

/-- the second value of all lines (whether it stands on the first line or on a later one) -/
theorem pl_new_getPAI1 (rss : List (List PFromBody)) (h : 1 < rss.flatten.length) :
    (({} : PPAIs).htLines rss).getPAI 1 = some rss.flatten[1] := by
  rw [(pl_new_lines rss).2.2.2 1, dif_pos ⟨h, by omega⟩]

/-- nothing beyond the two slots, however many values the lines carry -/
theorem pl_new_getPAI_none (rss : List (List PFromBody)) (k : Nat) (hk : 2 ≤ k) :
    (({} : PPAIs).htLines rss).getPAI k = none := by
  rw [(pl_new_lines rss).2.2.2 k, dif_neg (by omega)]

/-! #### inside ParseHeaders blocks -/

/-- every P-Asserted-Identity line of a block has at least one value, and all its values are finished -/
theorem HtBlock.pl_pa_ne {b : Buf} {o e : Nat} {hv hv' : PHdrVals} {hs : List Hdr} {evs : List HtEv}
    (H : HtBlock b o hv hs evs e hv') : (∀ rs ∈ htPaOf evs, rs ≠ []) ∧ ∀ rs ∈ htPaOf evs, ∀ r ∈ rs, r.state = .fin := by
  induction H with
  | nil o e hv _ => exact ⟨(fun rs hrs => by cases hrs), (fun rs hrs => by cases hrs)⟩
  | cons o e1 e hv hv1 hv' h hs ev evs hline _ ih =>
    cases hline with
    | pai n c _ rs' hn ht hval =>
      refine ⟨fun rs hrs => ?_, fun rs hrs => ?_⟩
      · rcases List.mem_cons.1 hrs with h1 | h1
        · rw [h1]; exact hval.ne_nil
        · exact ih.1 rs h1
      · rcases List.mem_cons.1 hrs with h1 | h1
        · rw [h1]; exact ht_vallist_fin hval
        · exact ih.2 rs h1
    | _ => exact ih

/-- **the P-Asserted-Identity values of a whole header block** parsed by ParseHeaders with a values object whose
    identity list is new: whatever other headers stand between the P-Asserted-Identity lines, `HNo` = their number,
    `N` = the total number of their values, `GetPAI 0 / 1` = the first two values of all of them in order, `More()` ⇔
    more than two values -/
theorem HtBlock.pl_pais {b : Buf} {o e : Nat} {hv hv' : PHdrVals} {hs : List Hdr} {evs : List HtEv}
    (H : HtBlock b o hv hs evs e hv') (hnew : hv.pais = {}) :
    hv'.pais.n = (htPaOf evs).flatten.length ∧ hv'.pais.hNo = (htPaOf evs).length ∧
    (hv'.pais.more = true ↔ (htPaOf evs).flatten.length > 2) ∧
    (∀ k, hv'.pais.getPAI k =
      if h : k < (htPaOf evs).flatten.length ∧ k < 2 then some ((htPaOf evs).flatten[k]'h.1) else none) := by
  rw [H.contacts.2, hnew]
  exact pl_new_lines (htPaOf evs)

/-- … and for ANY identity list object the block is parsed into (values of earlier blocks / lines are kept): the
    values stored by the block are the values of its P-Asserted-Identity lines, in order, after the old ones -/
theorem HtBlock.pl_pais_stored {b : Buf} {o e : Nat} {hv hv' : PHdrVals} {hs : List Hdr} {evs : List HtEv}
    (H : HtBlock b o hv hs evs e hv') (k : Nat) (hk : k < (htPaOf evs).flatten.length)
    (hin : hv.pais.n + k < hv.pais.vals.size) :
    hv'.pais.vals[hv.pais.n + k]! = (htPaOf evs).flatten[k] ∧ hv'.pais.vals.size = hv.pais.vals.size ∧
    (hv'.pais.more = true ↔ hv.pais.n + (htPaOf evs).flatten.length > hv.pais.vals.size) := by
  rw [H.contacts.2]
  exact ⟨pl_lines_stored hv.pais _ k hk hin, pl_lines_size _ _, pl_lines_more _ _⟩

/-! ### (2) [C05] message level: every stored Contact / P-Asserted-Identity value lies inside the `val` of the header
  line it came from -/

/-- a value list after some parsing: same capacity, at least as many values, the old values untouched -/
def PlKeep (vals : Array PFromBody) (n : Nat) (vals' : Array PFromBody) (n' : Nat) : Prop :=
  vals'.size = vals.size ∧ n ≤ n' ∧ ∀ j, j < n → vals'[j]! = vals[j]!

theorem PlKeep.refl (vals : Array PFromBody) (n : Nat) : PlKeep vals n vals n := ⟨rfl, Nat.le_refl _, fun _ _ => rfl⟩

theorem PlKeep.trans {v1 v2 v3 : Array PFromBody} {n1 n2 n3 : Nat} (h1 : PlKeep v1 n1 v2 n2) (h2 : PlKeep v2 n2 v3 n3) :
    PlKeep v1 n1 v3 n3 :=
  ⟨h2.1.trans h1.1, Nat.le_trans h1.2.1 h2.2.1, fun j hj => (h2.2.2 j (by have := h1.2.1; omega)).trans (h1.2.2 j hj)⟩

/-- **the loop of ParseAllPAIValues never touches the values counted before** (any object, input, verdict) -/
theorem pl_paisLoop_keep (b : Buf) (offs : Nat) (c : PPAIs) :
    PlKeep c.vals c.n (paisLoop b offs c).2.2.vals (paisLoop b offs c).2.2.n := by
  induction hk : b.size - offs using Nat.strongRecOn generalizing offs c with
  | _ k ih =>
    rw [paisLoop]
    rcases hp : parseOnePAI b offs c.cur with ⟨next, e1, pf⟩
    have hset : PlKeep c.vals c.n (c.setCur pf).vals (c.setCur pf).n :=
      ⟨paSetCur_size c pf, by rw [paSetCur_n]; exact Nat.le_refl _, fun j hj => paSetCur_vals_ne c pf j (by omega)⟩
    have hacc : PlKeep c.vals c.n ((c.setCur pf).account pf).vals ((c.setCur pf).account pf).n :=
      ⟨by rw [paAccount_vals]; exact paSetCur_size c pf, by rw [paAccount_n, paSetCur_n]; omega,
        fun j hj => by rw [paAccount_vals]; exact paSetCur_vals_ne c pf j (by omega)⟩
    cases e1 <;> simp only
    case ok => exact hacc
    case moreValues =>
      have hnx : (if c.n < c.vals.size then (c.setCur pf).account pf
          else { (c.setCur pf).account pf with last := {} }) = c.next pf := rfl
      rw [hnx]
      have hL : PlKeep c.vals c.n (c.next pf).vals (c.next pf).n := by
        unfold PPAIs.next; split
        · exact hacc
        · exact hacc
      by_cases hg : offs < next ∧ next ≤ b.size
      · rw [if_pos hg]
        exact hL.trans (ih (b.size - next) (by omega) next (c.next pf) rfl)
      · rw [if_neg hg]; exact hL
    case moreBytes => exact hset
    all_goals
      split
      · exact hset
      · exact PlKeep.refl _ _

/-- **the loop of ParseAllContactValues never touches the values counted before** -/
theorem pl_contactsLoop_keep (b : Buf) (offs : Nat) (c : PContacts) :
    PlKeep c.vals c.n (contactsLoop b offs c).2.2.vals (contactsLoop b offs c).2.2.n := by
  induction hk : b.size - offs using Nat.strongRecOn generalizing offs c with
  | _ k ih =>
    rw [contactsLoop]
    rcases hp : parseOneContact b offs c.cur with ⟨next, e1, pf⟩
    have hset : PlKeep c.vals c.n (c.setCur pf).vals (c.setCur pf).n :=
      ⟨setCur_size c pf, by rw [setCur_n]; exact Nat.le_refl _, fun j hj => setCur_vals_ne c pf j (by omega)⟩
    have hacc : PlKeep c.vals c.n ((c.setCur pf).account pf).vals ((c.setCur pf).account pf).n :=
      ⟨by rw [account_vals]; exact setCur_size c pf, by rw [account_n, setCur_n]; omega,
        fun j hj => by rw [account_vals]; exact setCur_vals_ne c pf j (by omega)⟩
    cases e1 <;> simp only
    case ok => exact hacc
    case moreValues =>
      have hnx : (if c.n < c.vals.size then (c.setCur pf).account pf
          else { (c.setCur pf).account pf with last := {} }) = c.next pf := rfl
      rw [hnx]
      have hL : PlKeep c.vals c.n (c.next pf).vals (c.next pf).n := by
        unfold PContacts.next; split
        · exact hacc
        · exact hacc
      by_cases hg : offs < next ∧ next ≤ b.size
      · rw [if_pos hg]
        exact hL.trans (ih (b.size - next) (by omega) next (c.next pf) rfl)
      · rw [if_neg hg]; exact hL
    case moreBytes => exact hset
    all_goals
      split
      · exact hset
      · exact PlKeep.refl _ _

/-- ParseAllPAIValues for a new header line (header count and running value reset by the dispatch) -/
theorem pl_pai_line_keep (b : Buf) (o : Nat) (c : PPAIs) (k : Nat) :
    PlKeep c.vals c.n (parseAllPAIValues b o { c with hNo := k, lastHVal := {} }).2.2.vals
      (parseAllPAIValues b o { c with hNo := k, lastHVal := {} }).2.2.n := by
  rw [parseAllPAIValues_eq_wrap, paBump_wrap]
  have := pl_paisLoop_keep b o { c.wrap with hNo := k, lastHVal := {} }
  have e1 : ({ c.wrap with hNo := k, lastHVal := {} } : PPAIs).vals = c.vals := (paWrap_scalars c).2.1
  have e2 : ({ c.wrap with hNo := k, lastHVal := {} } : PPAIs).n = c.n := (paWrap_scalars c).1
  rw [e1, e2] at this
  exact this

theorem pl_contact_line_keep (b : Buf) (o : Nat) (c : PContacts) (k : Nat) :
    PlKeep c.vals c.n (parseAllContactValues b o { c with hNo := k, lastHVal := {} }).2.2.vals
      (parseAllContactValues b o { c with hNo := k, lastHVal := {} }).2.2.n := by
  rw [parseAllContactValues_eq_wrap, bump_wrap]
  have := pl_contactsLoop_keep b o { c.wrap with hNo := k, lastHVal := {} }
  have e1 : ({ c.wrap with hNo := k, lastHVal := {} } : PContacts).vals = c.vals := (wrap_scalars c).2.1
  have e2 : ({ c.wrap with hNo := k, lastHVal := {} } : PContacts).n = c.n := (wrap_scalars c).1
  rw [e1, e2] at this
  exact this

/-! #### a completed name-addr value is never empty (loop invariant over the 33-state automaton) -/

/-- the value field `V` of a name-addr object in the course of a parse -/
structure PnI (i : Nat) (pf : PFromBody) : Prop where
  lt : pf.state ≠ .init → pf.v.offs < i
  ne : (pf.state = .uriFound ∨ pf.state = .nameOrURIEnd ∨ pf.state = .star) → 0 < pf.v.len
  endP : (pf.state = .paramNameEnd ∨ pf.state = .possibleParamNameEnd) → pf.v.offs < pf.pend ∧ pf.pend < 65536
  endV : (pf.state = .paramValEnd ∨ pf.state = .possibleValEnd) → pf.v.offs < pf.vend ∧ pf.vend < 65536

theorem PnI.mono {i j : Nat} {pf : PFromBody} (h : PnI i pf) (hij : i ≤ j) : PnI j pf :=
  ⟨fun hh => by have := h.lt hh; omega, h.ne, h.endP, h.endV⟩

theorem pn_naLWS {h : Nat} {b : Buf} {i : Nat} {pf : PFromBody} (hI : PnI i pf) {i' : Nat} {st' : PFromBody}
    (hii : i ≤ i') (hs : naLWS h b i pf = .cont i' st') : PnI i' st' := by
  unfold naLWS at hs
  rw [lwsStd_cont_state b i pf _ _ hs]; exact hI.mono hii

macro "pn_leaf" hI:ident : tactic =>
  `(tactic| (have h1 := ($hI).lt; have h2 := ($hI).ne; have h3 := ($hI).endP; have h4 := ($hI).endV
             refine ⟨fun hh => ?_, fun hh => ?_, fun hh => ?_, fun hh => ?_⟩ <;>
             simp only [PFromBody.setURI, PFromBody.setName, PFromBody.setV, PFromBody.extV, PFromBody.extParams,
                 PFromBody.resetUPT, PField.set, PField.extend, trunc16, setFromParamVal_v, setFromParamVal_state] at * <;>
             first
               | (exfalso; simp_all; done)
               | omega
               | (have := h1 (by simp_all); omega)
               | (have := h1 (by simp_all); have := h3 (by simp_all); omega)
               | (have := h1 (by simp_all); have := h4 (by simp_all); omega)
               | (have := h1 (by simp_all); have := h2 (by simp_all); omega)))

theorem pn_A (h : Nat) {b : Buf} {i : Nat} {pf : PFromBody} (c : UInt8) (hfit : i < 65535)
    (hI : PnI i pf) {i' : Nat} {st' : PFromBody} (hii : i < i') (hs : naStepA h b i c pf = .cont i' st') : PnI i' st' := by
  unfold naStepA at hs
  repeat' split at hs
  all_goals first
    | exact pn_naLWS hI (by omega) hs
    | exact absurd hs (naMoreValues_not_cont h b _ i)
    | (cases hs; done)
    | (refine pn_naLWS ?_ (by omega) hs; pn_leaf hI)
    | (cases hs; exact hI.mono (by omega))
    | (cases hs; pn_leaf hI)

theorem pn_Q (h : Nat) {b : Buf} {i : Nat} {pf : PFromBody} (c : UInt8)
    (hg : pf.state = .quoted ∨ pf.state = .quotedVal ∨ pf.state = .quotedPossibleVal)
    (hI : PnI i pf) {i' : Nat} {st' : PFromBody} (hii : i < i') (hs : naStepQ h b i c pf = .cont i' st') : PnI i' st' := by
  unfold naStepQ at hs
  repeat' split at hs
  all_goals first
    | exact pn_naLWS hI (by omega) hs
    | (cases hs; done)
    | (cases hs; exact hI.mono (by omega))
    | (cases hs; pn_leaf hI)

theorem pn_U {i : Nat} {pf : PFromBody} (c : UInt8) (hfit : i < 65535) (g : pf.state = .uri)
    (hI : PnI i pf) {i' : Nat} {st' : PFromBody} (hii : i < i') (hs : naStepU i c pf = .cont i' st') : PnI i' st' := by
  unfold naStepU at hs
  repeat' split at hs
  all_goals first
    | (cases hs; done)
    | (cases hs; exact hI.mono (by omega))
    | (cases hs; pn_leaf hI)

theorem pn_UF (h : Nat) {b : Buf} {i : Nat} {pf : PFromBody} (c : UInt8) (g : pf.state = .uriFound)
    (hI : PnI i pf) {i' : Nat} {st' : PFromBody} (hii : i < i') (hs : naStepUF h b i c pf = .cont i' st') : PnI i' st' := by
  unfold naStepUF at hs
  repeat' split at hs
  all_goals first
    | exact pn_naLWS hI (by omega) hs
    | exact absurd hs (naMoreValues_not_cont h b _ i)
    | (cases hs; done)
    | (cases hs; exact hI.mono (by omega))
    | (cases hs; pn_leaf hI)

theorem pn_Star (h : Nat) {b : Buf} {i : Nat} {pf : PFromBody} (c : UInt8)
    (hI : PnI i pf) {i' : Nat} {st' : PFromBody} (hii : i < i') (hs : naStepStar h b i c pf = .cont i' st') : PnI i' st' := by
  unfold naStepStar at hs
  split at hs
  · exact pn_naLWS hI (by omega) hs
  · cases hs

theorem pn_nameWS {i : Nat} {pf : PFromBody} (hI : PnI i pf) (hfit : i < 65535) : PnI i (naNameWS pf i) := by
  unfold naNameWS
  repeat' split
  all_goals first | exact hI | pn_leaf hI

theorem pn_param {i : Nat} {pf : PFromBody} (hI : PnI i pf) (hni : pf.state ≠ .init) :
    PnI (i + 1) (naParamsOffs (naParamStart pf i) i) := by
  unfold naParamsOffs naParamStart
  repeat' split
  all_goals first | exact hI.mono (by omega) | pn_leaf hI

theorem pn_valWS {i n : Nat} {pf : PFromBody} (ok : Bool) (hI : PnI i pf) (hfit : i < 65535) : PnI i (naValWS pf i n ok) := by
  unfold naValWS
  repeat' split
  all_goals first | exact hI | pn_leaf hI

theorem pn_P (h : Nat) {b : Buf} {i : Nat} {pf : PFromBody} (c : UInt8) (hfit : i < 65535)
    (hg : pf.state = .newParam ∨ pf.state = .newPossibleParam ∨ pf.state = .paramName ∨ pf.state = .possibleParamName)
    (hI : PnI i pf) {i' : Nat} {st' : PFromBody} (hii : i < i') (hs : naStepP h b i c pf = .cont i' st') : PnI i' st' := by
  have hni : pf.state ≠ .init := by rcases hg with g | g | g | g <;> rw [g] <;> decide
  unfold naStepP at hs
  split at hs
  · rcases hsk : skipLWS b i 0 with ⟨n, crl, e⟩
    rw [hsk] at hs
    cases e <;> simp only at hs <;> cases hs
    exact (pn_nameWS hI hfit).mono (by omega)
  · repeat' split at hs
    all_goals first
      | exact absurd hs (naMoreValues_not_cont h b _ i)
      | (cases hs; done)
      | (cases hs; exact hI.mono (by omega))
      | (cases hs; exact pn_param hI hni)
      | (cases hs; pn_leaf hI)

theorem pn_PE (h : Nat) {b : Buf} {i : Nat} {pf : PFromBody} (c : UInt8)
    (hg : pf.state = .paramNameEnd ∨ pf.state = .possibleParamNameEnd)
    (hI : PnI i pf) {i' : Nat} {st' : PFromBody} (hii : i < i') (hs : naStepPE h b i c pf = .cont i' st') : PnI i' st' := by
  have hni : pf.state ≠ .init := by rcases hg with g | g <;> rw [g] <;> decide
  unfold naStepPE at hs
  repeat' split at hs
  all_goals first
    | exact absurd hs (naCommaAfterWS_not_cont h b _ i _)
    | (cases hs; done)
    | (cases hs; pn_leaf hI)

theorem pn_V (h : Nat) {b : Buf} {i : Nat} {pf : PFromBody} (c : UInt8) (hfit : i < 65535)
    (hg : pf.state = .newParamVal ∨ pf.state = .newPossibleVal ∨ pf.state = .paramVal ∨ pf.state = .possibleVal)
    (hI : PnI i pf) {i' : Nat} {st' : PFromBody} (hii : i < i') (hs : naStepV h b i c pf = .cont i' st') : PnI i' st' := by
  have hni : pf.state ≠ .init := by rcases hg with g | g | g | g <;> rw [g] <;> decide
  unfold naStepV at hs
  split at hs
  · rcases hsk : skipLWS b i 0 with ⟨n, crl, e⟩
    rw [hsk] at hs
    cases e <;> simp only at hs <;> cases hs
    exact (pn_valWS true hI hfit).mono (by omega)
  · repeat' split at hs
    all_goals first
      | exact absurd hs (naMoreValues_not_cont h b _ i)
      | (cases hs; done)
      | (cases hs; exact hI.mono (by omega))
      | (cases hs; pn_leaf hI)

theorem pn_VE (h : Nat) {b : Buf} {i : Nat} {pf : PFromBody} (c : UInt8)
    (hg : pf.state = .paramValEnd ∨ pf.state = .possibleValEnd)
    (hI : PnI i pf) {i' : Nat} {st' : PFromBody} (hii : i < i') (hs : naStepVE h b i c pf = .cont i' st') : PnI i' st' := by
  have hni : pf.state ≠ .init := by rcases hg with g | g <;> rw [g] <;> decide
  unfold naStepVE at hs
  repeat' split at hs
  all_goals first
    | exact absurd hs (naCommaAfterWS_not_cont h b _ i _)
    | (cases hs; done)
    | (cases hs; pn_leaf hI)

theorem pn_cont (h : Nat) {b : Buf} {i : Nat} {pf : PFromBody} (c : UInt8) (hfit : i < 65535)
    (hI : PnI i pf) {i' : Nat} {st' : PFromBody} (hii : i < i') (hs : naStep h b i c pf = .cont i' st') :
    PnI i' st' := by
  unfold naStep at hs
  split at hs
  all_goals first
    | exact pn_A h c hfit hI hii hs
    | exact pn_Q h c (by simp [*]) hI hii hs
    | exact pn_U c hfit (by assumption) hI hii hs
    | exact pn_UF h c (by assumption) hI hii hs
    | exact pn_P h c hfit (by simp [*]) hI hii hs
    | exact pn_PE h c (by simp [*]) hI hii hs
    | exact pn_V h c hfit (by simp [*]) hI hii hs
    | exact pn_VE h c (by simp [*]) hI hii hs
    | exact pn_Star h c hI hii hs
    | (cases hs; exact hI.mono (by omega))

/-! #### exits -/

def PnDone (e : Err) (st' : PFromBody) : Prop := (e = .ok ∨ e = .moreValues) → 0 < st'.v.len

theorem pn_d_err {e : Err} {st' : PFromBody} (h1 : e ≠ .ok) (h2 : e ≠ .moreValues) : PnDone e st' := by
  intro hh; rcases hh with hh | hh
  · exact absurd hh h1
  · exact absurd hh h2

theorem pn_eohPN (b : Buf) (pf : PFromBody) (i : Nat) : (naEOHParamName b pf i).v = pf.v.extend i := by
  unfold naEOHParamName
  simp only [PFromBody.extV, PFromBody.extParams]
  repeat' split
  all_goals first | rfl | (rw [(setFromParamVal_vp _ _).1])

theorem pn_eohV (b : Buf) (pf : PFromBody) (i : Nat) : (naEOHVal b pf i).v = pf.v.extend i := by
  unfold naEOHVal
  simp only [PFromBody.extV, PFromBody.extParams]
  rw [(setFromParamVal_vp _ _).1]

/-- the value reported at the end: the one in the object (in the three states where nothing is added), or that one
    extended to the end position `e` -/
theorem pn_eoh (h : Nat) (b : Buf) (pf : PFromBody) (e n crl : Nat) (r : Err)
    (hc : (naEOH h b pf e n crl r).2.1 = .ok ∨ (naEOH h b pf e n crl r).2.1 = .moreValues) :
    pf.state ≠ .init ∧
    (((pf.state = .uriFound ∨ pf.state = .nameOrURIEnd ∨ pf.state = .star) ∧ (naEOH h b pf e n crl r).2.2.v = pf.v) ∨
      (naEOH h b pf e n crl r).2.2.v = pf.v.extend e) := by
  unfold naEOH naFinish at hc ⊢
  cases hst : pf.state <;> simp only [hst] at hc ⊢
  all_goals first
    | (exfalso; (rcases hc with hc | hc <;> cases hc); done)
    | (refine ⟨by decide, ?_⟩
       first
         | (left; simp; done)
         | (right; rfl)
         | (right; exact pn_eohPN b pf e)
         | (right; exact pn_eohV b _ e)
         | (right
            simp only [PFromBody.extV, PFromBody.extParams]
            first | rfl | rw [(setFromParamVal_vp _ _).1]))

theorem pn_d_eoh (h : Nat) {b : Buf} {i : Nat} (pf : PFromBody) (e n crl : Nat) (r : Err) (hI : PnI i pf)
    (hpre : pf.state ≠ .init → pf.v.offs < e) (he : e < 65536) :
    PnDone (naEOH h b pf e n crl r).2.1 (naEOH h b pf e n crl r).2.2 := by
  intro hc
  obtain ⟨h1, h2⟩ := pn_eoh h b pf e n crl r hc
  rcases h2 with ⟨hs, hv⟩ | hv
  · rw [hv]; exact hI.ne hs
  · rw [hv]
    have := hpre h1
    show 0 < (trunc16 e + 65536 - pf.v.offs) % 65536
    unfold trunc16
    omega

theorem pn_d_lws (h : Nat) {b : Buf} {i : Nat} {pf : PFromBody} (hfit : i < 65535) (hI : PnI i pf)
    {o' : Nat} {e : Err} {st' : PFromBody} (hs : naLWS h b i pf = .done o' e st') : PnDone e st' := by
  unfold naLWS lwsStd at hs
  rcases hsk : skipLWS b i 0 with ⟨n, crl, e1⟩
  rw [hsk] at hs
  rcases skipLWS_verdicts b i 0 hsk with rfl | rfl | rfl | rfl <;> simp only at hs
  · cases hs
  · simp only [Step.done.injEq] at hs
    obtain ⟨rfl, rfl, rfl⟩ := hs
    exact pn_d_eoh h pf i n crl .ok hI hI.lt (by omega)
  · cases hs; exact pn_d_err (by decide) (by decide)
  · cases hs; exact pn_d_err (by decide) (by decide)

theorem pn_d_mv (h : Nat) {b : Buf} {i : Nat} {pf : PFromBody} (hfit : i < 65535) (hI : PnI i pf)
    {o' : Nat} {e : Err} {st' : PFromBody} (hs : naMoreValues h b pf i = .done o' e st') : PnDone e st' := by
  unfold naMoreValues at hs
  simp only [Step.done.injEq] at hs
  obtain ⟨rfl, rfl, rfl⟩ := hs
  exact pn_d_eoh h pf i i 1 .moreValues hI hI.lt (by omega)

theorem pn_d_cws (h : Nat) {b : Buf} {i : Nat} {pf : PFromBody} (x : Nat) (hI : PnI i pf)
    (hx : pf.v.offs < x ∧ x < 65536)
    {o' : Nat} {e : Err} {st' : PFromBody} (hs : naCommaAfterWS h b pf i x = .done o' e st') : PnDone e st' := by
  unfold naCommaAfterWS at hs
  split at hs
  · simp only [Step.done.injEq] at hs
    obtain ⟨rfl, rfl, rfl⟩ := hs
    exact pn_d_eoh h pf x i 1 .moreValues hI (fun _ => hx.1) hx.2
  · cases hs; exact pn_d_err (by decide) (by decide)

theorem pn_d_A (h : Nat) {b : Buf} {i : Nat} {pf : PFromBody} (c : UInt8) (hfit : i < 65535) (hI : PnI i pf)
    {o' : Nat} {e : Err} {st' : PFromBody} (hs : naStepA h b i c pf = .done o' e st') : PnDone e st' := by
  unfold naStepA at hs
  repeat' (split at hs)
  all_goals first
    | exact pn_d_lws h hfit hI hs
    | (refine pn_d_lws h hfit ?_ hs; pn_leaf hI)
    | exact pn_d_mv h hfit hI hs
    | (cases hs <;> exact pn_d_err (by decide) (by decide))

theorem pn_d_Q (h : Nat) {b : Buf} {i : Nat} {pf : PFromBody} (c : UInt8) (hfit : i < 65535) (hI : PnI i pf)
    {o' : Nat} {e : Err} {st' : PFromBody} (hs : naStepQ h b i c pf = .done o' e st') : PnDone e st' := by
  unfold naStepQ at hs
  repeat' (split at hs)
  all_goals first
    | exact pn_d_lws h hfit hI hs
    | (cases hs <;> exact pn_d_err (by decide) (by decide))

theorem pn_d_U {i : Nat} {pf : PFromBody} (c : UInt8)
    {o' : Nat} {e : Err} {st' : PFromBody} (hs : naStepU i c pf = .done o' e st') : PnDone e st' := by
  unfold naStepU at hs
  repeat' (split at hs)
  all_goals (cases hs <;> exact pn_d_err (by decide) (by decide))

theorem pn_d_UF (h : Nat) {b : Buf} {i : Nat} {pf : PFromBody} (c : UInt8) (hfit : i < 65535) (hI : PnI i pf)
    {o' : Nat} {e : Err} {st' : PFromBody} (hs : naStepUF h b i c pf = .done o' e st') : PnDone e st' := by
  unfold naStepUF at hs
  repeat' (split at hs)
  all_goals first
    | exact pn_d_lws h hfit hI hs
    | exact pn_d_mv h hfit hI hs
    | (cases hs <;> exact pn_d_err (by decide) (by decide))

theorem pn_d_Star (h : Nat) {b : Buf} {i : Nat} {pf : PFromBody} (c : UInt8) (hfit : i < 65535) (hI : PnI i pf)
    {o' : Nat} {e : Err} {st' : PFromBody} (hs : naStepStar h b i c pf = .done o' e st') : PnDone e st' := by
  unfold naStepStar at hs
  split at hs
  · exact pn_d_lws h hfit hI hs
  · cases hs; exact pn_d_err (by decide) (by decide)

theorem pn_d_P (h : Nat) {b : Buf} {i : Nat} {pf : PFromBody} (c : UInt8) (hfit : i < 65535)
    (hI : PnI i pf)
    {o' : Nat} {e : Err} {st' : PFromBody} (hs : naStepP h b i c pf = .done o' e st') : PnDone e st' := by
  unfold naStepP at hs
  split at hs
  · rcases hsk : skipLWS b i 0 with ⟨n, crl, e1⟩
    rw [hsk] at hs
    have hX : PnI i (naNameWS pf i) := pn_nameWS hI hfit
    rcases skipLWS_verdicts b i 0 hsk with rfl | rfl | rfl | rfl <;> simp only at hs
    · cases hs
    · simp only [Step.done.injEq] at hs
      obtain ⟨rfl, rfl, rfl⟩ := hs
      exact pn_d_eoh h _ i n crl .ok hX hX.lt (by omega)
    · cases hs; exact pn_d_err (by decide) (by decide)
    · cases hs; exact pn_d_err (by decide) (by decide)
  · repeat' (split at hs)
    all_goals first
      | exact pn_d_mv h hfit hI hs
      | (cases hs <;> exact pn_d_err (by decide) (by decide))

theorem pn_d_V (h : Nat) {b : Buf} {i : Nat} {pf : PFromBody} (c : UInt8) (hfit : i < 65535)
    (hI : PnI i pf)
    {o' : Nat} {e : Err} {st' : PFromBody} (hs : naStepV h b i c pf = .done o' e st') : PnDone e st' := by
  unfold naStepV at hs
  split at hs
  · rcases hsk : skipLWS b i 0 with ⟨n, crl, e1⟩
    rw [hsk] at hs
    have hX : PnI i (naValWS pf i n false) := pn_valWS false hI hfit
    rcases skipLWS_verdicts b i 0 hsk with rfl | rfl | rfl | rfl <;> simp only at hs
    · cases hs
    · simp only [Step.done.injEq] at hs
      obtain ⟨rfl, rfl, rfl⟩ := hs
      exact pn_d_eoh h _ i n crl .ok hX hX.lt (by omega)
    · cases hs; exact pn_d_err (by decide) (by decide)
    · cases hs; exact pn_d_err (by decide) (by decide)
  · repeat' (split at hs)
    all_goals first
      | exact pn_d_mv h hfit hI hs
      | (cases hs <;> exact pn_d_err (by decide) (by decide))

theorem pn_d_PE (h : Nat) {b : Buf} {i : Nat} {pf : PFromBody} (c : UInt8)
    (hg : pf.state = .paramNameEnd ∨ pf.state = .possibleParamNameEnd) (hI : PnI i pf)
    {o' : Nat} {e : Err} {st' : PFromBody} (hs : naStepPE h b i c pf = .done o' e st') : PnDone e st' := by
  unfold naStepPE at hs
  repeat' (split at hs)
  all_goals first
    | exact pn_d_cws h _ hI (hI.endP hg) hs
    | (cases hs <;> exact pn_d_err (by decide) (by decide))

theorem pn_d_VE (h : Nat) {b : Buf} {i : Nat} {pf : PFromBody} (c : UInt8)
    (hg : pf.state = .paramValEnd ∨ pf.state = .possibleValEnd) (hI : PnI i pf)
    {o' : Nat} {e : Err} {st' : PFromBody} (hs : naStepVE h b i c pf = .done o' e st') : PnDone e st' := by
  unfold naStepVE at hs
  repeat' (split at hs)
  all_goals first
    | exact pn_d_cws h _ hI (hI.endV hg) hs
    | (cases hs <;> exact pn_d_err (by decide) (by decide))

theorem pn_done (h : Nat) {b : Buf} {i : Nat} {pf : PFromBody} (c : UInt8) (hfit : i < 65535) (hI : PnI i pf)
    {o' : Nat} {e : Err} {st' : PFromBody} (hs : naStep h b i c pf = .done o' e st') : PnDone e st' := by
  unfold naStep at hs
  split at hs
  all_goals first
    | exact pn_d_A h c hfit hI hs
    | exact pn_d_Q h c hfit hI hs
    | exact pn_d_U c hs
    | exact pn_d_UF h c hfit hI hs
    | exact pn_d_P h c hfit hI hs
    | exact pn_d_PE h c (by simp [*]) hI hs
    | exact pn_d_V h c hfit hI hs
    | exact pn_d_VE h c (by simp [*]) hI hs
    | exact pn_d_Star h c hfit hI hs
    | cases hs

/-- **a completed name-addr value is never empty**: whenever ParseNameAddrPVal, started on a new object, says OK or
    "more values", the reported value span `V` has at least one byte — every header kind, EVERY input within the
    65,535-byte limit -/
theorem pn_value_nonempty (h : Nat) (b : Buf) (o : Nat) (hfit : b.size ≤ 65535)
    {o' : Nat} {e : Err} {pf' : PFromBody} (hp : parseNameAddrPVal h b o {} = (o', e, pf'))
    (hc : e = .ok ∨ e = .moreValues) : 0 < pf'.v.len := by
  unfold parseNameAddrPVal at hp
  rw [if_neg (by decide)] at hp
  simp only [Prod.mk.injEq] at hp
  obtain ⟨rfl, rfl, rfl⟩ := hp
  have h0 : PnI o { ({} : PFromBody) with s := ({} : PFromBody).soffs, soffs := 0 } :=
    ⟨fun hh => absurd rfl hh, (fun hh => by rcases hh with hh | hh | hh <;> cases hh),
     (fun hh => by rcases hh with hh | hh <;> cases hh), (fun hh => by rcases hh with hh | hh <;> cases hh)⟩
  have key := runLoop_inv (naMachine h) b (fun i st => PnI i st)
    (fun r => PnDone r.2.1 r.2.2)
    (by
      intro i c st i' st' hb hP hs
      have hlt := get?_lt hb
      refine ⟨fun hlt' => pn_cont h c (by omega) hP hlt' hs, fun _ => ?_⟩
      exact pn_d_err (e := Err.lbug) (by decide) (by decide))
    (by
      intro i c st o1 e1 st1 hb hP hs
      have hlt := get?_lt hb
      exact pn_done h c (by omega) hP hs)
    (by
      intro i st _ _
      exact pn_d_err (e := Err.moreBytes) (by decide) (by decide))
    o _ h0
  rcases hrl : runLoop (naMachine h) b o { ({} : PFromBody) with s := ({} : PFromBody).soffs, soffs := 0 } with ⟨o1, e1, p1⟩
  rw [hrl] at key hc
  have := key hc
  unfold naExit
  split <;> exact this

/-! #### the values stored from one header line have a non-empty `V` -/

/-- the values stored from index `n0` on have a non-empty `V` -/
def PlNeCt (c : PContacts) (n0 : Nat) : Prop :=
  ∀ i, n0 ≤ i → i < c.n → i < c.vals.size → 0 < c.vals[i]!.v.len

theorem pl_contactsLoop_ne (b : Buf) (offs : Nat) (c : PContacts) (hfit : b.size ≤ 65535)
    (hcl : CtClean c) (hcur : c.cur = {}) (n0 : Nat) (h : PlNeCt c n0) :
    (contactsLoop b offs c).2.1 = .ok → PlNeCt (contactsLoop b offs c).2.2 n0 := by
  induction hk : b.size - offs using Nat.strongRecOn generalizing offs c with
  | _ k ih =>
    rw [contactsLoop]
    rcases hp : parseOneContact b offs c.cur with ⟨next, e1, pf⟩
    have hp' : parseNameAddrPVal HdrContact b offs {} = (next, e1, pf) := by rw [hcur] at hp; exact hp
    have hacc : Err.complete e1 → PlNeCt ((c.setCur pf).account pf) n0 := by
      intro hc i hn hi hs
      rw [account_n, setCur_n] at hi
      rw [account_vals, setCur_size] at hs
      rw [account_vals]
      by_cases hin : i = c.n
      · subst hin
        rw [setCur_get_n c pf hs]
        exact pn_value_nonempty HdrContact b offs hfit hp' hc
      · rw [setCur_vals_ne c pf i (by omega)]
        exact h i hn (by omega) hs
    cases e1 <;> simp only
    case ok => exact fun _ => hacc (Or.inl rfl)
    case moreValues =>
      have hnx : (if c.n < c.vals.size then (c.setCur pf).account pf
          else { (c.setCur pf).account pf with last := {} }) = c.next pf := rfl
      rw [hnx]
      have hcl' := next_clean c pf hcl
      have hL : PlNeCt (c.next pf) n0 := by
        have := hacc (Or.inr rfl)
        unfold PContacts.next; split
        · exact this
        · exact this
      by_cases hg : offs < next ∧ next ≤ b.size
      · rw [if_pos hg]
        exact ih (b.size - next) (by omega) next (c.next pf) hcl'.1 hcl'.2 hL rfl
      · rw [if_neg hg]; exact fun hh => by cases hh
    all_goals exact fun hh => by cases hh

/-- **one Contact header line** (value list object idle, any capacity): after OK every value stored from this line has a
    non-empty `V` -/
theorem pl_contact_line_ne (b : Buf) (o : Nat) (c : PContacts) (k : Nat) (hfit : b.size ≤ 65535)
    (hcl : CtClean c.wrap) (hcur : c.wrap.cur = {}) {o' : Nat} {c' : PContacts}
    (hr : parseAllContactValues b o { c with hNo := k, lastHVal := {} } = (o', .ok, c')) :
    ∀ i, c.n ≤ i → i < c'.n → i < c'.vals.size → 0 < c'.vals[i]!.v.len := by
  rw [parseAllContactValues_eq_wrap, bump_wrap] at hr
  have h0 : PlNeCt ({ c.wrap with hNo := k, lastHVal := {} } : PContacts) c.n :=
    fun i hn hi _ => by
      have hi' : i < c.wrap.n := hi
      rw [(wrap_scalars c).1] at hi'; omega
  have := pl_contactsLoop_ne b o { c.wrap with hNo := k, lastHVal := {} } hfit hcl hcur c.n h0
  rw [hr] at this
  exact this rfl

def PlNePa (c : PPAIs) (n0 : Nat) : Prop :=
  ∀ i, n0 ≤ i → i < c.n → i < c.vals.size → 0 < c.vals[i]!.v.len

theorem pl_paisLoop_ne (b : Buf) (offs : Nat) (c : PPAIs) (hfit : b.size ≤ 65535)
    (hcl : PaClean c) (hcur : c.cur = {}) (n0 : Nat) (h : PlNePa c n0) :
    (paisLoop b offs c).2.1 = .ok → PlNePa (paisLoop b offs c).2.2 n0 := by
  induction hk : b.size - offs using Nat.strongRecOn generalizing offs c with
  | _ k ih =>
    rw [paisLoop]
    rcases hp : parseOnePAI b offs c.cur with ⟨next, e1, pf⟩
    obtain ⟨e0, hp0, hok0, hmv0, _⟩ := parseOnePAI_under b offs c.cur hp
    have hp' : parseNameAddrPVal HdrPAI b offs {} = (next, e0, pf) := by rw [hcur] at hp0; exact hp0
    have hacc : Err.complete e0 → PlNePa ((c.setCur pf).account pf) n0 := by
      intro hc i hn hi hs
      rw [paAccount_n, paSetCur_n] at hi
      rw [paAccount_vals, paSetCur_size] at hs
      rw [paAccount_vals]
      by_cases hin : i = c.n
      · subst hin
        rw [paSetCur_get_n c pf hs]
        exact pn_value_nonempty HdrPAI b offs hfit hp' hc
      · rw [paSetCur_vals_ne c pf i (by omega)]
        exact h i hn (by omega) hs
    cases e1 <;> simp only
    case ok => exact fun _ => hacc (Or.inl (hok0 rfl))
    case moreValues =>
      have hnx : (if c.n < c.vals.size then (c.setCur pf).account pf
          else { (c.setCur pf).account pf with last := {} }) = c.next pf := rfl
      rw [hnx]
      have hcl' := paNext_clean c pf hcl
      have hL : PlNePa (c.next pf) n0 := by
        have := hacc (Or.inr (hmv0 rfl))
        unfold PPAIs.next; split
        · exact this
        · exact this
      by_cases hg : offs < next ∧ next ≤ b.size
      · rw [if_pos hg]
        exact ih (b.size - next) (by omega) next (c.next pf) hcl'.1 hcl'.2 hL rfl
      · rw [if_neg hg]; exact fun hh => by cases hh
    all_goals exact fun hh => by cases hh

/-- **one P-Asserted-Identity header line**: after OK every identity stored from this line has a non-empty `V` -/
theorem pl_pai_line_ne (b : Buf) (o : Nat) (c : PPAIs) (k : Nat) (hfit : b.size ≤ 65535)
    (hcl : PaClean c.wrap) (hcur : c.wrap.cur = {}) {o' : Nat} {c' : PPAIs}
    (hr : parseAllPAIValues b o { c with hNo := k, lastHVal := {} } = (o', .ok, c')) :
    ∀ i, c.n ≤ i → i < c'.n → i < c'.vals.size → 0 < c'.vals[i]!.v.len := by
  rw [parseAllPAIValues_eq_wrap, paBump_wrap] at hr
  have h0 : PlNePa ({ c.wrap with hNo := k, lastHVal := {} } : PPAIs) c.n :=
    fun i hn hi _ => by
      have hi' : i < c.wrap.n := hi
      rw [(paWrap_scalars c).1] at hi'; omega
  have := pl_paisLoop_ne b o { c.wrap with hNo := k, lastHVal := {} } hfit hcl hcur c.n h0
  rw [hr] at this
  exact this rfl

/-- `v` is not empty and lies inside the span `L` -/
def PlIn (L v : PField) : Prop := 0 < v.len ∧ svInside L v

/-- what one header line did to a value list of the header type `ty` (`vals`, `n` before, `vals'`, `n'` after; `t`, `V` =
    type and value of the header of that line): nothing; or the header has type `ty`, the old values are untouched and
    every value stored from the line lies inside `V` -/
def PlEff (ty : Nat) (vals : Array PFromBody) (n : Nat) (vals' : Array PFromBody) (n' : Nat) (t : Nat) (V : PField) : Prop :=
  (vals' = vals ∧ n' = n) ∨
  (t = ty ∧ PlKeep vals n vals' n' ∧ ∀ j, n ≤ j → j < n' → j < vals'.size → PlIn V vals'[j]!.v)

/-- … to the Contact list and to the P-Asserted-Identity list of a values object -/
def PlEff2 (hv hv' : PHdrVals) (t : Nat) (V : PField) : Prop :=
  PlEff HdrContact hv.contacts.vals hv.contacts.n hv'.contacts.vals hv'.contacts.n t V ∧
  PlEff HdrPAI hv.pais.vals hv.pais.n hv'.pais.vals hv'.pais.n t V

theorem PlEff2.same (hv : PHdrVals) (t : Nat) (V : PField) : PlEff2 hv hv t V :=
  ⟨Or.inl ⟨rfl, rfl⟩, Or.inl ⟨rfl, rfl⟩⟩

/-- **the header-value dispatch** for a header in the "body start" state, both value lists idle: the values object is
    there, the type of the header is unchanged, and on OK the two lists changed as `PlEff2` says -/
theorem pl_parseBody (b : Buf) (o : Nat) (h : Hdr) (hv : PHdrVals) (hfit : b.size ≤ 65535) (ho : o ≤ b.size)
    (hst : h.state = .bodyStart) (hct : CtIdle b hv.contacts) (hpa : PaIdle b hv.pais)
    {n : Nat} {e : Err} {h2 : Hdr} {hb2 : Option PHdrVals} (hr : parseBody b o h (some hv) = (n, e, h2, hb2)) :
    ∃ hv2, hb2 = some hv2 ∧ h2.type = h.type ∧ (e = .ok → PlEff2 hv hv2 h2.type h2.val) := by
  by_cases htc : h.type = HdrContact
  · have hs : h.state ≠ .hContact := by rw [hst]; decide
    rw [svc_parseBody_contact b o h hv htc hs] at hr
    rcases hq : parseAllContactValues b o { hv.contacts with hNo := hv.contacts.hNo + 1, lastHVal := {} } with ⟨n1, e1, c1⟩
    have hk := pl_contact_line_keep b o hv.contacts (hv.contacts.hNo + 1)
    rw [hq] at hr hk
    simp only [Prod.mk.injEq] at hr
    obtain ⟨rfl, rfl, rfl, rfl⟩ := hr
    refine ⟨_, rfl, rfl, fun he => ?_⟩
    subst he
    have hin := (svc_contact_line b o hv.contacts _ hfit ho hct.clean hct.cur hq).2
    have hne := pl_contact_line_ne b o hv.contacts _ hfit hct.clean hct.cur hq
    refine ⟨Or.inr ⟨htc, hk, fun j h1 h2 h3 => ?_⟩, Or.inl ⟨rfl, rfl⟩⟩
    have hp := hne j h1 h2 h3
    rcases hin j h1 h2 h3 with h0 | h0
    · omega
    · exact ⟨hp, h0⟩
  by_cases htp : h.type = HdrPAI
  · have hs : h.state ≠ .hPAI := by rw [hst]; decide
    rw [svc_parseBody_pai b o h hv htp hs] at hr
    rcases hq : parseAllPAIValues b o { hv.pais with hNo := hv.pais.hNo + 1, lastHVal := {} } with ⟨n1, e1, c1⟩
    have hk := pl_pai_line_keep b o hv.pais (hv.pais.hNo + 1)
    rw [hq] at hr hk
    simp only [Prod.mk.injEq] at hr
    obtain ⟨rfl, rfl, rfl, rfl⟩ := hr
    refine ⟨_, rfl, rfl, fun he => ?_⟩
    subst he
    have hin := (svc_pai_line b o hv.pais _ hfit ho hpa.clean hpa.cur hq).2
    have hne := pl_pai_line_ne b o hv.pais _ hfit hpa.clean hpa.cur hq
    refine ⟨Or.inl ⟨rfl, rfl⟩, Or.inr ⟨htp, hk, fun j h1 h2 h3 => ?_⟩⟩
    have hp := hne j h1 h2 h3
    rcases hin j h1 h2 h3 with h0 | h0
    · omega
    · exact ⟨hp, h0⟩
  have h_contacts : (h.type == HdrContact) = false := by simpa using htc
  have h_pais : (h.type == HdrPAI) = false := by simpa using htp
  have hskip : ∀ {n : Nat} {e : Err} {h2 : Hdr} {hb2 : Option PHdrVals},
      (o, Err.ok, h, some hv) = (n, e, h2, hb2) →
      ∃ hv2, hb2 = some hv2 ∧ h2.type = h.type ∧ (e = .ok → PlEff2 hv hv2 h2.type h2.val) := by
    intro n e h2 hb2 hh
    simp only [Prod.mk.injEq] at hh
    obtain ⟨rfl, rfl, rfl, rfl⟩ := hh
    exact ⟨hv, rfl, rfl, fun _ => PlEff2.same hv _ _⟩
  unfold parseBody at hr
  simp only at hr
  by_cases h_from_ : (h.type == HdrFrom) = true
  · simp only [h_from_, ↓reduceIte] at hr
    by_cases hp : (!hv.from_.parsed) = true
    · simp only [hp, ↓reduceIte, Prod.mk.injEq] at hr
      obtain ⟨_, _, rfl, rfl⟩ := hr
      exact ⟨_, rfl, rfl, fun _ => ⟨Or.inl ⟨rfl, rfl⟩, Or.inl ⟨rfl, rfl⟩⟩⟩
    · simp only [hp, Bool.false_eq_true, ↓reduceIte] at hr
      exact hskip hr
  simp only [h_from_, Bool.false_eq_true, ↓reduceIte] at hr
  by_cases h_to : (h.type == HdrTo) = true
  · simp only [h_to, ↓reduceIte] at hr
    by_cases hp : (!hv.to.parsed) = true
    · simp only [hp, ↓reduceIte, Prod.mk.injEq] at hr
      obtain ⟨_, _, rfl, rfl⟩ := hr
      exact ⟨_, rfl, rfl, fun _ => ⟨Or.inl ⟨rfl, rfl⟩, Or.inl ⟨rfl, rfl⟩⟩⟩
    · simp only [hp, Bool.false_eq_true, ↓reduceIte] at hr
      exact hskip hr
  simp only [h_to, Bool.false_eq_true, ↓reduceIte] at hr
  by_cases h_callid : (h.type == HdrCallID) = true
  · simp only [h_callid, ↓reduceIte] at hr
    by_cases hp : (!hv.callid.parsed) = true
    · simp only [hp, ↓reduceIte, Prod.mk.injEq] at hr
      obtain ⟨_, _, rfl, rfl⟩ := hr
      exact ⟨_, rfl, rfl, fun _ => ⟨Or.inl ⟨rfl, rfl⟩, Or.inl ⟨rfl, rfl⟩⟩⟩
    · simp only [hp, Bool.false_eq_true, ↓reduceIte] at hr
      exact hskip hr
  simp only [h_callid, Bool.false_eq_true, ↓reduceIte] at hr
  by_cases h_cseq : (h.type == HdrCSeq) = true
  · simp only [h_cseq, ↓reduceIte] at hr
    by_cases hp : (!hv.cseq.parsed) = true
    · simp only [hp, ↓reduceIte, Prod.mk.injEq] at hr
      obtain ⟨_, _, rfl, rfl⟩ := hr
      exact ⟨_, rfl, rfl, fun _ => ⟨Or.inl ⟨rfl, rfl⟩, Or.inl ⟨rfl, rfl⟩⟩⟩
    · simp only [hp, Bool.false_eq_true, ↓reduceIte] at hr
      exact hskip hr
  simp only [h_cseq, Bool.false_eq_true, ↓reduceIte] at hr
  by_cases h_clen : (h.type == HdrCLen) = true
  · simp only [h_clen, ↓reduceIte] at hr
    by_cases hp : (!hv.clen.parsed) = true
    · simp only [hp, ↓reduceIte, Prod.mk.injEq] at hr
      obtain ⟨_, _, rfl, rfl⟩ := hr
      exact ⟨_, rfl, rfl, fun _ => ⟨Or.inl ⟨rfl, rfl⟩, Or.inl ⟨rfl, rfl⟩⟩⟩
    · simp only [hp, Bool.false_eq_true, ↓reduceIte] at hr
      exact hskip hr
  simp only [h_clen, h_contacts, Bool.false_eq_true, ↓reduceIte] at hr
  by_cases h_expires : (h.type == HdrExpires) = true
  · simp only [h_expires, ↓reduceIte] at hr
    by_cases hp : (!hv.expires.parsed) = true
    · simp only [hp, ↓reduceIte, Prod.mk.injEq] at hr
      obtain ⟨_, _, rfl, rfl⟩ := hr
      exact ⟨_, rfl, rfl, fun _ => ⟨Or.inl ⟨rfl, rfl⟩, Or.inl ⟨rfl, rfl⟩⟩⟩
    · simp only [hp, Bool.false_eq_true, ↓reduceIte] at hr
      exact hskip hr
  simp only [h_expires, h_pais, Bool.false_eq_true, ↓reduceIte] at hr
  exact hskip hr

/-! #### one header line, from a new header object -/

/-- the states of a header object without a value parser in progress -/
def PlGen (s : HState) : Prop :=
  s = .init ∨ s = .name ∨ s = .nameEnd ∨ s = .bodyStart ∨ s = .val ∨ s = .valEnd

/-- while the line is being read the values object is still the one the line started with -/
def PlS (hv : PHdrVals) : Nat → HLσ → Prop := fun _ st => st.2 = some hv ∧ PlGen st.1.state

/-- when the line ends: an "empty line" left the values object alone; an accepted header changed the two value
    lists as `PlEff2` says, relative to the type and value of that header -/
def PlT (hv : PHdrVals) : Nat → Err → HLσ → Prop := fun _ e st =>
  ∃ hv', st.2 = some hv' ∧ (e = .empty → hv' = hv) ∧ (e = .ok → PlEff2 hv hv' st.1.type st.1.val)

theorem pl_T_same (hv : PHdrVals) (n : Nat) (e : Err) (h : Hdr) : PlT hv n e (h, some hv) :=
  ⟨hv, rfl, fun _ => rfl, fun _ => PlEff2.same hv _ _⟩

theorem pl_hlAfterColon (b : Buf) (i : Nat) (h : Hdr) (hv : PHdrVals) (hfit : b.size ≤ 65535) (hi : i ≤ b.size)
    (hst : h.state = .bodyStart) (hct : CtIdle b hv.contacts) (hpa : PaIdle b hv.pais) :
    StepAll2 (PlS hv) (PlT hv) (hlAfterColon b i h (some hv)) := by
  unfold hlAfterColon
  split
  · exact pl_T_same hv 0 _ _
  · rename_i nm _
    simp only
    rcases hp : parseBody b i { h with type := getHdrType nm } (some hv) with ⟨n, e, h2, hb2⟩
    obtain ⟨hv2, rfl, hty, hok⟩ := pl_parseBody b i { h with type := getHdrType nm } hv hfit hi hst hct hpa hp
    simp only
    by_cases hs2 : h2.state = .bodyStart
    · obtain ⟨_, _, _, hb2e⟩ := parseBody_keep b i _ (some hv) hp hs2
      cases hb2e
      have hne : ((h2.state != HState.bodyStart) = true) = False := by rw [hs2]; simp
      simp only [hne, ↓reduceIte]
      exact ⟨rfl, Or.inr (Or.inr (Or.inr (Or.inl hs2)))⟩
    · have hne1 : (h2.state != HState.bodyStart) = true := by simpa using hs2
      simp only [hne1, ↓reduceIte]
      have hne : e ≠ .empty := by
        have := parseBody_ne_empty b i { h with type := getHdrType nm } (some hv)
        rw [hp] at this; exact this
      refine ⟨hv2, rfl, fun he => absurd he hne, fun he => ?_⟩
      subst he
      simp only [flo_beq_ok, ↓reduceIte]
      exact hok rfl

theorem pl_hlName (b : Buf) (i : Nat) (h : Hdr) (hv : PHdrVals) (hfit : b.size ≤ 65535)
    (hct : CtIdle b hv.contacts) (hpa : PaIdle b hv.pais) :
    StepAll2 (PlS hv) (PlT hv) (hlName b i h (some hv)) := by
  unfold hlName
  simp only
  split
  · exact pl_T_same hv 0 _ _
  · rename_i c hj
    have hjl := get?_lt hj
    split
    · split
      · exact pl_T_same hv 0 _ _
      · exact ⟨rfl, Or.inr (Or.inr (Or.inl rfl))⟩
    · split
      · split
        · exact pl_T_same hv 0 _ _
        · exact pl_hlAfterColon b _ _ hv hfit (by omega) rfl hct hpa
      · exact pl_T_same hv 0 _ _

theorem pl_hlValEnd (b : Buf) (i : Nat) (h : Hdr) (hv : PHdrVals) :
    StepAll2 (PlS hv) (PlT hv) (hlValEnd b i h (some hv)) := by
  unfold hlValEnd
  rcases hsk : skipLWS b i 0 with ⟨n, crl, e⟩
  cases e <;> simp only
  case ok => exact ⟨rfl, Or.inr (Or.inr (Or.inr (Or.inr (Or.inl rfl))))⟩
  all_goals exact pl_T_same hv 0 _ _

theorem pl_hlStep (b : Buf) (i : Nat) (c : UInt8) (st : HLσ) (hv : PHdrVals) (hfit : b.size ≤ 65535)
    (hb : b[i]? = some c) (hct : CtIdle b hv.contacts) (hpa : PaIdle b hv.pais) (H : PlS hv i st) :
    StepAll2 (PlS hv) (PlT hv) (hlStep b i c st) := by
  obtain ⟨h, hb0⟩ := st
  obtain ⟨hq, hg⟩ := H
  simp only at hq hg
  subst hq
  have hlt := get?_lt hb
  unfold hlStep
  simp only
  cases hst : h.state <;> simp only
  case init =>
    split
    · split
      · exact pl_T_same hv 0 _ _
      · split
        · exact pl_T_same hv 0 _ _
        · exact pl_T_same hv 0 _ _
    · split
      · exact pl_T_same hv 0 _ _
      · exact pl_hlName b i _ hv hfit hct hpa
  case name => exact pl_hlName b i h hv hfit hct hpa
  case nameEnd =>
    split
    · exact pl_T_same hv 0 _ _
    · rename_i c1 hj
      have hjl := get?_lt hj
      split
      · exact pl_hlAfterColon b _ _ hv hfit (by omega) rfl hct hpa
      · exact pl_T_same hv 0 _ _
  case bodyStart =>
    rcases hsk : skipLWS b i 0 with ⟨n, crl, e⟩
    cases e <;> simp only
    case ok => exact ⟨rfl, Or.inr (Or.inr (Or.inr (Or.inr (Or.inl rfl))))⟩
    all_goals exact pl_T_same hv 0 _ _
  case val =>
    split
    · exact pl_T_same hv 0 _ _
    · exact pl_hlValEnd b _ _ hv
  case valEnd => exact pl_hlValEnd b i h hv
  all_goals
    (exfalso
     simp only [hst] at hg
     rcases hg with hh | hh | hh | hh | hh | hh <;> cases hh)

/-- **one header line** (buffers within the 65,535-byte limit; header object without a value parser in progress — in
    particular a new one; both value lists idle): an "empty line" leaves the values object alone, an accepted header
    changed the Contact and P-Asserted-Identity lists as `PlEff2` says -/
theorem pl_parseHdrLine (b : Buf) (o : Nat) (h : Hdr) (hv : PHdrVals) (hfit : b.size ≤ 65535) (hst : PlGen h.state)
    (hct : CtIdle b hv.contacts) (hpa : PaIdle b hv.pais)
    {o' : Nat} {e : Err} {h' : Hdr} {hb' : Option PHdrVals} (hr : parseHdrLine b o h (some hv) = (o', e, h', hb')) :
    ∃ hv', hb' = some hv' ∧ (e = .empty → hv' = hv) ∧ (e = .ok → PlEff2 hv hv' h'.type h'.val) := by
  unfold parseHdrLine at hr
  rcases hrl : runLoop hlMachine b o (h, some hv) with ⟨o1, e1, h1, hb1⟩
  rw [hrl] at hr
  simp only [Prod.mk.injEq] at hr
  obtain ⟨rfl, rfl, rfl, rfl⟩ := hr
  have := runLoop_safe2 hlMachine b (PlS hv) (PlT hv) hl_progress
    (fun i c st hb' hS => pl_hlStep b i c st hv hfit hb' hct hpa hS)
    (fun i st hS => ⟨hv, hS.1, (fun hh => by cases hh), (fun hh => by cases hh)⟩) o (h, some hv) ⟨rfl, hst⟩
  rw [hrl] at this
  exact this

/-! #### the header block -/

/-- **the association**: a map `f` from the values of the list (`vals`, `n`) to the counted header lines, in message
    order (a later value comes from the same or a later line); if the value `k` is stored and the header `f k` is itself
    stored (`f k` below the capacity of the header array), that header has the type `ty` and the value lies inside its
    `val` -/
def PlAssoc (ty : Nat) (hl : HdrLst) (vals : Array PFromBody) (n : Nat) : Prop :=
  ∃ f : Nat → Nat, (∀ k k', k ≤ k' → k' < n → f k ≤ f k') ∧
    ∀ k, k < n → f k < hl.n ∧
      (k < vals.size → f k < hl.hdrs.size → hl.hdrs[f k]!.type = ty ∧ PlIn hl.hdrs[f k]!.val vals[k]!.v)

theorem PlAssoc.setCur {ty : Nat} {hl : HdrLst} {vals : Array PFromBody} {n : Nat} (H : PlAssoc ty hl vals n) (g : Hdr) :
    PlAssoc ty (hl.setCur g) vals n := by
  obtain ⟨f, hm, hf⟩ := H
  refine ⟨f, hm, fun k hk => ?_⟩
  obtain ⟨hj, hh⟩ := hf k hk
  refine ⟨by rw [hlSetCur_n]; exact hj, fun hs hjs => ?_⟩
  rw [hlSetCur_size] at hjs
  rw [hlSetCur_ne hl g (f k) (by omega)]
  exact hh hs hjs

theorem PlAssoc.next {ty : Nat} {hl : HdrLst} {vals vals' : Array PFromBody} {n n' : Nat} (H : PlAssoc ty hl vals n)
    (g : Hdr) (E : PlEff ty vals n vals' n' g.type g.val) : PlAssoc ty ((hl.setCur g).accept g) vals' n' := by
  have hn : ((hl.setCur g).accept g).n = hl.n + 1 := by rw [accept_n, hlSetCur_n]
  have hs : ((hl.setCur g).accept g).hdrs.size = hl.hdrs.size := by rw [accept_hdrs, hlSetCur_size]
  have hget : ∀ j, j < hl.n → ((hl.setCur g).accept g).hdrs[j]! = hl.hdrs[j]! := fun j hj => by
    rw [accept_hdrs]; exact hlSetCur_ne hl g j (by omega)
  have hgetn : hl.n < hl.hdrs.size → ((hl.setCur g).accept g).hdrs[hl.n]! = g := fun hin => by
    rw [accept_hdrs]; exact hlSetCur_get_n hl g hin
  obtain ⟨f, hm, hf⟩ := H
  rcases E with ⟨rfl, rfl⟩ | ⟨ht, hK, hin⟩
  · refine ⟨f, hm, fun k hk => ?_⟩
    obtain ⟨hj, hh⟩ := hf k hk
    exact ⟨by omega, fun hsz hjs => by rw [hs] at hjs; rw [hget (f k) hj]; exact hh hsz hjs⟩
  · refine ⟨fun k => if k < n then f k else hl.n, fun k k' hkk hk' => ?_, fun k hk => ?_⟩
    · show (if k < n then f k else hl.n) ≤ (if k' < n then f k' else hl.n)
      by_cases h1 : k' < n
      · have h2 : k < n := by omega
        rw [if_pos h1, if_pos h2]; exact hm k k' hkk h1
      · rw [if_neg h1]
        by_cases h2 : k < n
        · rw [if_pos h2]; have := (hf k h2).1; omega
        · rw [if_neg h2]; exact Nat.le_refl _
    · by_cases hkn : k < n
      · simp only [hkn, ↓reduceIte]
        obtain ⟨hj, hh⟩ := hf k hkn
        refine ⟨by omega, fun hsz hjs => ?_⟩
        rw [hs] at hjs
        rw [hget (f k) hj, hK.2.2 k hkn]
        exact hh (by rw [← hK.1]; exact hsz) hjs
      · simp only [hkn, ↓reduceIte]
        refine ⟨by omega, fun hsz hjs => ?_⟩
        rw [hs] at hjs; rw [hgetn hjs]
        exact ⟨ht, hin k (by omega) hk hsz⟩

/-- the association for both lists of a values object -/
def PlInv (hl : HdrLst) (hb : Option PHdrVals) : Prop :=
  ∀ hv, hb = some hv → PlAssoc HdrContact hl hv.contacts.vals hv.contacts.n ∧ PlAssoc HdrPAI hl hv.pais.vals hv.pais.n

/-- **header block** (same hypotheses as `parseHeaders_nn`: a legitimate list whose current slot is new, i.e. one call of
    ParseHeaders from the start of the block): ParseHeaders keeps / establishes the association -/
theorem pl_parseHeaders (b : Buf) (offs : Nat) (hl : HdrLst) (hb : Option PHdrVals) (hfit : b.size ≤ 65535)
    (hok1 : hlsOK b hl) (hok2 : hbOK b offs hb) (hpe : hlsPend hl hb) (ho : offs ≤ b.size)
    (H : HlsSafe b offs hl hb) (hcur : hl.cur = {}) (hsome : hb ≠ none) (G : PlInv hl hb) :
    (parseHeaders b offs hl hb).2.1 = .ok → PlInv (parseHeaders b offs hl hb).2.2.1 (parseHeaders b offs hl hb).2.2.2 := by
  induction hk : b.size - offs using Nat.strongRecOn generalizing offs hl hb with
  | _ k ih =>
    rw [parseHeaders.eq_1 b offs hl hb]
    by_cases hlt : offs < b.size
    · rw [if_pos hlt]
      have hI : hlOK b offs hl.cur hb := ⟨by omega, hlsOK_cur hok1, hok2⟩
      cases hb with
      | none => exact absurd rfl hsome
      | some hv =>
      rcases hp1 : parseHdrLine b offs hl.cur (some hv) with ⟨n1, e1, g1, v1⟩
      obtain ⟨hO, hS, hF, hN, hE⟩ := parseHdrLine_safe b offs hl.cur (some hv) hfit H.cur hI hp1
      have Hv := H.cur.hv hv rfl
      rw [hcur] at Hv
      have hct : CtIdle b hv.contacts := Hv.ctI (fun hq => by cases hq)
      have hpa : PaIdle b hv.pais := Hv.paI (fun hq => by cases hq)
      obtain ⟨hv1, rfl, hemp, hokE⟩ := pl_parseHdrLine b offs hl.cur hv hfit (by rw [hcur]; exact Or.inl rfl) hct hpa hp1
      obtain ⟨G1, G2⟩ := G hv rfl
      cases e1 <;> simp only
      case ok =>
        have hpost := parseHdrLine_post b offs hl.cur (some hv) hI hp1 (Or.inl rfl)
        have hg : offs < n1 := parseHdrLine_ok_gt b offs hl.cur (some hv) hI hpe.1 hp1
        rw [if_pos hg]
        obtain ⟨E1, E2⟩ := hokE rfl
        exact ih (b.size - n1) (by omega) n1 _ (some hv1) (hlsOK_next g1 hok1) hpost.2
          (hlsPend_next g1 (some hv1) hpe) hpost.1 (H.next g1 (hS (Or.inl rfl)) (hF rfl) (by omega))
          (flo_next_cur hl g1 H.clean) (by intro hh; cases hh)
          (fun hv' hh => by cases hh; exact ⟨G1.next g1 E1, G2.next g1 E2⟩) rfl
      case empty =>
        have := hemp rfl
        subst this
        split
        · intro _ hv' hh; cases hh; exact ⟨G1.setCur g1, G2.setCur g1⟩
        · intro hh; cases hh
      all_goals (intro hh; cases hh)
    · rw [if_neg hlt]
      intro hh; cases hh

/-! #### the message -/

/-- **message, one call from the initial state** (same hypotheses as `parseSIPMsg_nn`) -/
theorem pl_parseSIPMsg (b : Buf) (o : Nat) (m : PSIPMsg) (flags : Nat) (hfit : b.size ≤ 65535)
    (hok : msgOK2 b o m) (H : MsgSafe b o m) (hst : m.state = .init) (hcur : m.hl.cur = {})
    (G : PlInv m.hl (some m.pv)) {o' : Nat} {m' : PSIPMsg} (hr : parseSIPMsg b o m flags = (o', .ok, m')) :
    PlInv m'.hl (some m'.pv) := by
  obtain ⟨ho, _, hrest⟩ := hok
  obtain ⟨hls, hvs, hpe⟩ := hrest (by rw [hst]; decide)
  have h1 : parseSIPMsg b o m flags = msgFLine b o { m with offs := o, state := .fline } flags := by
    unfold parseSIPMsg; rw [hst]
  rw [h1] at hr
  unfold msgFLine at hr
  simp only at hr
  have hF := parseFLine_safe b o m.fl hfit (H.flS (Or.inl hst))
  have hge := parseFLine_ge b o m.fl
  rcases hp : parseFLine b o m.fl with ⟨o1, e1, fl1⟩
  rw [hp] at hr hF hge
  simp only at hF hge
  cases e1 <;> simp only at hr
  case ok =>
    rw [msgHeaders_eq] at hr
    simp only at hr
    have hHls : HlsSafe b o1 m.hl (some m.pv) := (H.hls (Or.inl hst)).mono hge hF.ho
    have hNn := pl_parseHeaders b o1 m.hl (some m.pv) hfit hls (hvOK_mono hvs hge hF.ho) hpe hF.ho hHls hcur
      (by intro hh; cases hh) G
    have hsome := parseHeaders_isSome b o1 m.hl m.pv
    rcases hp2 : parseHeaders b o1 m.hl (some m.pv) with ⟨o2, e2, hl2, hb2⟩
    rw [hp2] at hr hNn hsome
    cases hb2 with
    | none => cases hsome
    | some pv2 =>
      unfold afterHeaders at hr
      cases e2 <;> simp only [Option.getD_some] at hr
      case ok =>
        obtain ⟨k1, k2, k3⟩ := flo_msgBody_keeps b o2 { m with offs := o, fl := fl1, hl := hl2, pv := pv2, state := .body } flags
        rw [hr] at k1 k2 k3
        rw [k2, k3]; exact hNn rfl
      all_goals (exfalso; have hq := congrArg (fun r => r.2.1) hr; simp only at hq; exact flo_msgErr_ne_ok _ _ _ _ (by decide) hq)
  all_goals (exfalso; have hq := congrArg (fun r => r.2.1) hr; simp only at hq; exact flo_msgErr_ne_ok _ _ _ _ (by decide) hq)

theorem PlInv_init (m : PSIPMsg) (len kh kc : Nat) (hdrs : Option Unit) (cts : Option Unit) :
    let m1 := m.init len (hdrs.map fun _ => Array.replicate kh {}) (cts.map fun _ => Array.replicate kc {})
    PlInv m1.hl (some m1.pv) := by
  have key : ∀ k k', PlInv (initObj len k k').hl (some (initObj len k k').pv) := by
    intro k k' hv hh
    cases hh
    exact ⟨⟨fun _ => 0, (fun _ _ _ hk => by cases hk), (fun _ hk => by cases hk)⟩,
      ⟨fun _ => 0, (fun _ _ _ hk => by cases hk), (fun _ hk => by cases hk)⟩⟩
  cases hdrs <;> cases cts
  · exact key 10 10
  · exact key 10 kc
  · exact key kh 10
  · exact key kh kc

/-- the statement about one message object: there is a map `f` from the Contact values to the counted header lines,
    in message order, such that for every stored value `k` whose header `f k` is stored, that header is a Contact header
    and the value's span `V` is not empty and lies inside its `val` (`PlIn`); likewise for the P-Asserted-Identity
    values (spelled out in `PlMsg.meaning`) -/
def PlMsg (m : PSIPMsg) : Prop :=
  PlAssoc HdrContact m.hl m.pv.contacts.vals m.pv.contacts.n ∧ PlAssoc HdrPAI m.hl m.pv.pais.vals m.pv.pais.n

/-- **[C05] message level, one call on an object produced by Init** (any previous contents, caller arrays of any
    capacity or none; EVERY input within the 65,535-byte limit) -/
theorem pl_values_in_headers_init (b : Buf) (o : Nat) (m0 : PSIPMsg) (len kh kc : Nat) (hdrs cts : Option Unit)
    (flags : Nat) (hfit : b.size ≤ 65535) (ho : o ≤ b.size) {o' : Nat} {m' : PSIPMsg}
    (hr : parseSIPMsg b o (m0.init len (hdrs.map fun _ => Array.replicate kh {}) (cts.map fun _ => Array.replicate kc {}))
      flags = (o', .ok, m')) : PlMsg m' := by
  obtain ⟨_, q2, q3⟩ := MsgLo_init o m0 len kh kc hdrs cts
  exact pl_parseSIPMsg b o _ flags hfit (msgOK2_init b o ho m0 len kh kc hdrs cts)
    (MsgSafe_init b o ho m0 len kh kc hdrs cts) q3 q2 (PlInv_init m0 len kh kc hdrs cts) hr m'.pv rfl

/-- **[C05] … under every chunk schedule, from Init**: if the chain of resumed calls over growing prefixes ends with
    OK, the final object satisfies the same statement -/
theorem pl_values_in_headers_schedule_init (flags : Nat) (o : Nat) (m0 : PSIPMsg) (len kh kc : Nat)
    (hdrs cts : Option Unit) (l : List Buf) (hg : Growing l) (hfit : ∀ x ∈ l, x.size ≤ 65535) (hne : l ≠ [])
    (ho : ∀ b ∈ l, o ≤ b.size) {o' : Nat} {m' : PSIPMsg}
    (hr : resumeRun (C01.msgP flags) o
      (m0.init len (hdrs.map fun _ => Array.replicate kh {}) (cts.map fun _ => Array.replicate kc {})) l = (o', .ok, m')) :
    PlMsg m' := by
  obtain ⟨b, hb, h⟩ := flo_schedule_init flags o m0 len kh kc hdrs cts l hg hfit hne ho hr
  exact pl_values_in_headers_init b o m0 len kh kc hdrs cts flags (hfit b hb) (ho b hb) h

/-- **`PlMsg`, spelled out**: there is a map `f` from value indices to header-line indices (`f k < HdrLst.N`), monotone
    on the values counted (`k ≤ k' < N` ⇒ `f k ≤ f k'`: values are associated with header lines in message order), such
    that for every stored Contact value `k` (`k < min (N, capacity)`), if header `f k` is stored (`f k` below the capacity
    of the header array) then header `f k` is a Contact header, the value's `V` has at least one byte, starts at or after
    the start of the header's `val` and ends at or before its end; likewise for the stored P-Asserted-Identity values -/
theorem PlMsg.meaning {m : PSIPMsg} (h : PlMsg m) :
    (∃ f : Nat → Nat, (∀ k k', k ≤ k' → k' < m.pv.contacts.n → f k ≤ f k') ∧
      ∀ k, k < m.pv.contacts.n → f k < m.hl.n ∧ (k < m.pv.contacts.vals.size → f k < m.hl.hdrs.size →
        m.hl.hdrs[f k]!.type = HdrContact ∧ 0 < m.pv.contacts.vals[k]!.v.len ∧
        m.hl.hdrs[f k]!.val.offs ≤ m.pv.contacts.vals[k]!.v.offs ∧
        m.pv.contacts.vals[k]!.v.offs + m.pv.contacts.vals[k]!.v.len ≤
          m.hl.hdrs[f k]!.val.offs + m.hl.hdrs[f k]!.val.len)) ∧
    (∃ f : Nat → Nat, (∀ k k', k ≤ k' → k' < m.pv.pais.n → f k ≤ f k') ∧
      ∀ k, k < m.pv.pais.n → f k < m.hl.n ∧ (k < m.pv.pais.vals.size → f k < m.hl.hdrs.size →
        m.hl.hdrs[f k]!.type = HdrPAI ∧ 0 < m.pv.pais.vals[k]!.v.len ∧
        m.hl.hdrs[f k]!.val.offs ≤ m.pv.pais.vals[k]!.v.offs ∧
        m.pv.pais.vals[k]!.v.offs + m.pv.pais.vals[k]!.v.len ≤
          m.hl.hdrs[f k]!.val.offs + m.hl.hdrs[f k]!.val.len)) := by
  obtain ⟨⟨f, hm, hf⟩, ⟨g, gm, hg⟩⟩ := h
  refine ⟨⟨f, hm, fun k hk => ⟨(hf k hk).1, fun h1 h2 => ?_⟩⟩, ⟨g, gm, fun k hk => ⟨(hg k hk).1, fun h1 h2 => ?_⟩⟩⟩
  · have := (hf k hk).2 h1 h2
    exact ⟨this.1, this.2.1, this.2.2.1, this.2.2.2⟩
  · have := (hg k hk).2 h1 h2
    exact ⟨this.1, this.2.1, this.2.2.1, this.2.2.2⟩

/-- the plain form: every stored Contact (P-Asserted-Identity) value lies inside the `val` of some counted header line
    of that type, provided that header is stored -/
theorem PlMsg.some_header {m : PSIPMsg} (h : PlMsg m) :
    (∀ k, k < m.pv.contacts.n → k < m.pv.contacts.vals.size →
      ∃ j, j < m.hl.n ∧ (j < m.hl.hdrs.size →
        m.hl.hdrs[j]!.type = HdrContact ∧ PlIn m.hl.hdrs[j]!.val m.pv.contacts.vals[k]!.v)) ∧
    (∀ k, k < m.pv.pais.n → k < m.pv.pais.vals.size →
      ∃ j, j < m.hl.n ∧ (j < m.hl.hdrs.size →
        m.hl.hdrs[j]!.type = HdrPAI ∧ PlIn m.hl.hdrs[j]!.val m.pv.pais.vals[k]!.v)) := by
  obtain ⟨⟨f, _, hf⟩, ⟨g, _, hg⟩⟩ := h
  exact ⟨fun k h1 h2 => ⟨f k, (hf k h1).1, (hf k h1).2 h2⟩, fun k h1 h2 => ⟨g k, (hg k h1).1, (hg k h1).2 h2⟩⟩

/-! ### non-vacuity and tests (closed computations by `decide` / `decide +kernel`: examples, not the general claims) -/

theorem pl_nameRun_of_check {b : Buf} {i j : Nat}
    (h : runCheck (fun c => !isLWSch c && c != 58) b i j = true) : NameRun b i j := by
  intro k h1 h2
  obtain ⟨c, hc, hp⟩ := run_of_check h k h1 h2
  simp only [Bool.and_eq_true, Bool.not_eq_true', bne_iff_ne, ne_eq] at hp
  exact ⟨c, hc, hp.1, hp.2⟩

/-- the block used below: two P-Asserted-Identity lines with a Via line (compact `v`) between them; three values -/
abbrev plExB : Buf := "P-Asserted-Identity:<a>\r\nv:x\r\nP-Asserted-Identity:<b>,<c>\r\n\r\n".toUTF8.data

/-- `<x>` at `[o, o + 3)` as a name-addr value -/
theorem plEx_angle (h : Nat) (o o' : Nat) (e' : Err) (h0 : plExB[o]? = some 60)
    (h1 : runCheck isURIch plExB (o + 1) (o + 2) = true) (h2 : plExB[o + 2]? = some 62) (T : Term h plExB (o + 2 + 1) o' e') :
    NAValue h plExB o o' e' (naResult h {} ⟨o + 1, o + 2 - (o + 1)⟩ {} ⟨o, o + 2 + 1 - o⟩ {}) :=
  Or.inl ⟨o, o, o + 2, {}, .nil o, .none h0, run_of_check h1, by omega, h2, T, rfl⟩

/-- **the hypotheses of `HtBlock.pl_pais` are satisfiable** (non-vacuity): the block above is an `HtBlock` with a
    P-Asserted-Identity line of one value, a generic line, and a P-Asserted-Identity line of two values -/
theorem plEx_block : ∃ hs hv', HtBlock plExB 0 htExHv hs [.pai
      [naResult HdrPAI {} ⟨21, 1⟩ {} ⟨20, 3⟩ {}], .other,
      .pai [naResult HdrPAI {} ⟨51, 1⟩ {} ⟨50, 3⟩ {}, naResult HdrPAI {} ⟨55, 1⟩ {} ⟨54, 3⟩ {}]] 61 hv' ∧
    hs.length = 3 := by
  have nm : ∀ o : Nat, runCheck (fun c => !isLWSch c && c != 58) plExB o (o + 19) = true → plExB[o + 19]? = some 58 →
      HtName plExB o (o + 19) (o + 19) := by
    intro o h1 h2
    exact ⟨pl_nameRun_of_check h1, by omega, fun k hk1 hk2 => by omega, Nat.le_refl _, h2⟩
  have l1 : HtLine plExB 0 htExHv 25 _ _ (.pai [naResult HdrPAI {} ⟨21, 1⟩ {} ⟨20, 3⟩ {}]) :=
    .pai 19 19 25 _ (nm 0 (by decide) (by decide)) (by decide +kernel)
      (.last 20 25 _ (plEx_angle HdrPAI 20 25 .ok (by decide) (by decide) (by decide)
        (.eol 23 25 118 (.nil 23) (.crlf 23 (by decide) (by decide)) (by decide) (by decide))))
  have l2 : ∀ hv, HtLine plExB 25 hv 30 (hdrAt (getHdrType (plExB.extract 25 26)) 25 26 ⟨27, 28 - 27⟩ .fin) hv .other := by
    intro hv
    refine .generic 30 _ (Or.inl ⟨26, 26, 27, 28, 28, 80, ?_, by decide, fun k h1 h2 => by omega, by decide, by decide,
      .nil 27, ?_, .crlf 28 (by decide) (by decide), by decide, by decide, rfl⟩) (Or.inl ?_)
    · exact pl_nameRun_of_check (by decide)
    · refine .last 27 28 28 (fun k h1 h2 => ?_) (by decide) (.nil 28)
      have : k = 27 := by omega
      subst this; exact ⟨120, by decide, by decide⟩
    · show IsOther (getHdrType (plExB.extract 25 26))
      have ht : getHdrType (plExB.extract 25 26) = HdrVia := by decide +kernel
      rw [ht]; unfold IsOther; decide
  have l3 : ∀ hv : PHdrVals, HtLine plExB 30 hv 59
      (hdrAt HdrPAI 30 49 (htSpan [naResult HdrPAI {} ⟨51, 1⟩ {} ⟨50, 3⟩ {}, naResult HdrPAI {} ⟨55, 1⟩ {} ⟨54, 3⟩ {}]) .fin)
      { hv with pais := hv.pais.htLine [naResult HdrPAI {} ⟨51, 1⟩ {} ⟨50, 3⟩ {}, naResult HdrPAI {} ⟨55, 1⟩ {} ⟨54, 3⟩ {}] }
      (.pai [naResult HdrPAI {} ⟨51, 1⟩ {} ⟨50, 3⟩ {}, naResult HdrPAI {} ⟨55, 1⟩ {} ⟨54, 3⟩ {}]) := by
    intro hv
    exact .pai 49 49 59 _ (nm 30 (by decide) (by decide)) (by decide +kernel)
      (.cons 50 54 59 _ _ (plEx_angle HdrPAI 50 54 .moreValues (by decide) (by decide) (by decide)
          (.comma 53 (.nil 53) (by decide) (by decide)))
        (.last 54 59 _ (plEx_angle HdrPAI 54 59 .ok (by decide) (by decide) (by decide)
          (.eol 57 59 13 (.nil 57) (.crlf 57 (by decide) (by decide)) (by decide) (by decide)))))
  exact ⟨_, _, .cons 0 25 61 _ _ _ _ _ _ _ l1 (.cons 25 30 61 _ _ _ _ _ _ _ (l2 _) (.cons 30 59 61 _ _ _ _ _ _ _ (l3 _)
    (.nil 59 61 _ (.crlf 59 (by decide) (by decide))))), rfl⟩

/-- … and what the theorems say about it: ParseHeaders returns OK at offset 61; the identity list has seen two
    P-Asserted-Identity lines and three values; `GetPAI 0` is the value of the first line, `GetPAI 1` the FIRST value of
    the second line, the third value is counted but not stored: `More()` is true and `GetPAI 2` is nil -/
example : ∃ hl' hv', parseHeaders plExB 0 { hdrs := Array.replicate 4 {} } (some htExHv) = (61, .ok, hl', some hv') ∧
    hv'.pais.hNo = 2 ∧ hv'.pais.n = 3 ∧ hv'.pais.more = true ∧
    hv'.pais.getPAI 0 = some (naResult HdrPAI {} ⟨21, 1⟩ {} ⟨20, 3⟩ {}) ∧
    hv'.pais.getPAI 1 = some (naResult HdrPAI {} ⟨51, 1⟩ {} ⟨50, 3⟩ {}) ∧
    hv'.pais.getPAI 2 = none := by
  obtain ⟨hs, hv', hb, hlen⟩ := plEx_block
  have hnew := ht_new_list_ok 4
  obtain ⟨hp, _⟩ := ht_parseHeaders_block plExB (by decide) hb _ hnew.1 hnew.2 htExHv_ready
  have hn : (({ hdrs := Array.replicate 4 {} } : HdrLst).acceptAll hs).n = 3 := by rw [acceptAll_n, hlen]
  obtain ⟨q1, q2, q3, q4⟩ := hb.pl_pais rfl
  refine ⟨_, hv', by rw [hp, hn]; rfl, by rw [q2]; rfl, by rw [q1]; rfl, q3.2 (by decide), ?_, ?_, ?_⟩
  · rw [q4 0]; rfl
  · rw [q4 1]; rfl
  · rw [q4 2]; rfl

/-- test message: two Contact lines (three values; the second line uses the compact name `m`), two
    P-Asserted-Identity lines (three identities), other headers between them -/
def plTestMsg : Buf := "REGISTER sip:a@b SIP/2.0\r\nContact: <sip:a@b>;expires=5 , \"N\" <sip:c@d>\r\nVia: x\r\nP-Asserted-Identity: <sip:p@q>, <tel:1>\r\nm: <sip:e@f>\r\nP-Asserted-Identity: <sip:r@s>\r\nCall-ID: x\r\nCSeq: 1 REGISTER\r\n\r\n".toUTF8.data

/-- the parsed message object: header array of `kh` entries, contact array of `kc` entries -/
def plTestM (kh kc : Nat) : PSIPMsg :=
  (parseSIPMsg plTestMsg 0 (({} : PSIPMsg).init 0 ((some ()).map fun _ => Array.replicate kh {})
    ((some ()).map fun _ => Array.replicate kc {})) 0).2.2

/-- **the hypothesis of `pl_values_in_headers_init` is satisfiable** and the theorem applies to the test message
    (header capacity 8, contact capacity 2) -/
theorem plTest_msg : PlMsg (plTestM 8 2) := by
  have h : (parseSIPMsg plTestMsg 0 (({} : PSIPMsg).init 0 ((some ()).map fun _ => Array.replicate 8 {})
      ((some ()).map fun _ => Array.replicate 2 {})) 0).2.1 = .ok := by decide +kernel
  unfold plTestM
  rcases hp : parseSIPMsg plTestMsg 0 (({} : PSIPMsg).init 0 ((some ()).map fun _ => Array.replicate 8 {})
      ((some ()).map fun _ => Array.replicate 2 {})) 0 with ⟨o', e', m'⟩
  rw [hp] at h
  simp only at h
  subst h
  exact pl_values_in_headers_init plTestMsg 0 {} 0 8 2 (some ()) (some ()) 0 (by decide +kernel) (Nat.zero_le _) hp

/-- test: what the object looks like — 7 headers (Contact, Via, PAI, Contact, PAI, Call-ID, CSeq); 3 contact values of
    which 2 are stored, both from header 0 (`val` = `[35, 70)`: `V` = `[35, 54)` and `[57, 70)`); 3 identities of which 2
    are stored, both from header 2 (`val` = `[101, 119)`: `V` = `[101, 110)` and `[112, 119)`) -/
example : (plTestM 8 2).hl.n = 7 ∧
    ((plTestM 8 2).hl.hdrs.toList.map (fun h => (h.type, h.val.offs, h.val.len))).take 5 =
      [(HdrContact, 35, 35), (HdrVia, 77, 1), (HdrPAI, 101, 18), (HdrContact, 124, 9), (HdrPAI, 156, 9)] ∧
    (plTestM 8 2).pv.contacts.n = 3 ∧
    (plTestM 8 2).pv.contacts.vals.toList.map (fun f => (f.v.offs, f.v.len)) = [(35, 19), (57, 13)] ∧
    (plTestM 8 2).pv.pais.n = 3 ∧
    (plTestM 8 2).pv.pais.vals.toList.map (fun f => (f.v.offs, f.v.len)) = [(101, 9), (112, 7)] := by decide +kernel

/-- test: with a header array of ONE entry the two stored identities come from header line 2, which is counted
    (`n = 7`) but not stored — the case the clause "if that header is stored" is there for -/
example : (plTestM 1 2).hl.n = 7 ∧ (plTestM 1 2).hl.hdrs.size = 1 ∧ (plTestM 1 2).pv.pais.n = 3 ∧
    (plTestM 1 2).pv.pais.vals.toList.map (fun f => (f.v.offs, f.v.len)) = [(101, 9), (112, 7)] := by decide +kernel

/-- tests for `pn_value_nonempty`: the texts that would give a value without a single byte are rejected (leading comma,
    two commas in a row, comma before the line end: verdict "bad"); `<>` is accepted with `V` = the two brackets -/
example :
    (parseAllContactValues ",<a>\r\n\r\n".toUTF8.data 0 { vals := Array.replicate 3 {} }).2.1 = .bad ∧
    (parseAllContactValues "<a>,,<b>\r\n\r\n".toUTF8.data 0 { vals := Array.replicate 3 {} }).2.1 = .bad ∧
    (parseAllContactValues "<a>,\r\n\r\n".toUTF8.data 0 { vals := Array.replicate 3 {} }).2.1 = .bad ∧
    (parseAllContactValues "<>\r\n\r\n".toUTF8.data 0 { vals := Array.replicate 3 {} }).2.1 = .ok ∧
    (parseAllContactValues "<>\r\n\r\n".toUTF8.data 0 { vals := Array.replicate 3 {} }).2.2.vals[0]!.v = ⟨0, 2⟩ := by
  decide +kernel

end Sipsp
