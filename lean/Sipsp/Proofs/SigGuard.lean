/-
  Sipsp.Proofs.SigGuard — `GetMsgSig` = completeness guard + core.

  Since the library repair F24 (a9207f6) `GetMsgSig` answers "empty" without reading anything for a message object whose
  parse has not completed (`msg.Buf` is set only at the end; before the repair the function sliced the unset `Buf` and
  panicked).  In the model `getMsgSig` is that guard in front of `getMsgSigCore` (the former definition, about which all
  the signature theorems are stated).  This file gives the bridge both ways.
-/
import Sipsp.Model.Sig

namespace Sipsp

/-- on a completely parsed message (final state, or the "Content-Length required but missing" end state) the signature
    function is its core -/
theorem getMsgSig_complete (m : PSIPMsg) (b : Buf) (h : m.state = .fin ∨ m.state = .noCLen) :
    getMsgSig m b = getMsgSigCore m b := by
  unfold getMsgSig
  by_cases hr : m.request = true
  · have hc : (m.state == .fin || m.state == .noCLen) = true := by
      rcases h with h | h <;> rw [h] <;> decide
    simp only [hr, Bool.not_true, Bool.false_eq_true, if_false, hc]
  · have hr' : m.request = false := by simpa using hr
    unfold getMsgSigCore
    simp only [hr', Bool.not_false, if_true]

/-- before completion (any other state: new, suspended in the first line / header block / body, failed) there is no
    signature, nothing is read, nothing can panic -/
theorem getMsgSig_incomplete (m : PSIPMsg) (b : Buf) (h1 : m.state ≠ .fin) (h2 : m.state ≠ .noCLen) :
    getMsgSig m b = ({}, .empty, false) := by
  unfold getMsgSig
  by_cases hr : m.request = true
  · have hc : (m.state == .fin || m.state == .noCLen) = false := by
      cases hs : m.state <;> simp_all
    simp only [hr, Bool.not_true, Bool.false_eq_true, if_false, hc, Bool.not_false, if_true]
  · have hr' : m.request = false := by simpa using hr
    simp only [hr', Bool.not_false, if_true]

/-- a reply never has a signature -/
theorem getMsgSig_reply_empty (m : PSIPMsg) (b : Buf) (h : m.request = false) : getMsgSig m b = ({}, .empty, false) := by
  unfold getMsgSig
  simp only [h, Bool.not_false, if_true]

/-- **no panic in ANY state**: the only way `GetMsgSig` can panic is through its core on a completed message -/
theorem getMsgSig_panics_only_via_core (m : PSIPMsg) (b : Buf) (h : (getMsgSig m b).2.2 = true) :
    (m.state = .fin ∨ m.state = .noCLen) ∧ (getMsgSigCore m b).2.2 = true := by
  by_cases h1 : m.state = .fin
  · exact ⟨Or.inl h1, by rw [← getMsgSig_complete m b (Or.inl h1)]; exact h⟩
  · by_cases h2 : m.state = .noCLen
    · exact ⟨Or.inr h2, by rw [← getMsgSig_complete m b (Or.inr h2)]; exact h⟩
    · rw [getMsgSig_incomplete m b h1 h2] at h
      cases h

/-- tests: a message suspended inside its header block, and a new object -/
example : getMsgSig ({} : PSIPMsg) #[] = ({}, .empty, false) := by decide +kernel

example :
    let b := "INVITE sip:a@b SIP/2.0\r\nCall-ID: x@y\r\nFrom: <sip:a@b>;ta".toUTF8.data
    let m := (parseSIPMsg b 0 (({} : PSIPMsg).init 0 none none) 0).2.2
    (parseSIPMsg b 0 (({} : PSIPMsg).init 0 none none) 0).2.1 = .moreBytes ∧ getMsgSig m b = ({}, .empty, false) := by
  decide +kernel

end Sipsp
