/-
  Sipsp.Proofs.AuditFixC — statements a sceptical review found weaker than their headers, strengthened.  Lemma file; the
  theorems are meant to be re-exported in Properties/C05, C07, C17, C04, C09.  Everything is about the model.

  (S3) EXPORT C05.  `PlAssoc` / `PlMsg` (PaiLines) and `HxAssoc` (HnoExact) compare a value with the `val` of its header line
       only IF that line is stored in the header array; when the array overflows the line index is not pinned (`PlAssoc`
       accepts the constant map `f = N - 1`; `HxAssoc` accepts wrong counts for lines that are not stored).  Here the
       line index is PINNED.  `afcTrace` / `afcMsgLines b o m` is a FUNCTION of the input (no existential): the list of the
       header objects ParseHdrLine returned for ALL the accepted lines of the block, stored or not.
       * `AfcMsg gs m` (with `gs = afcMsgLines …`): `gs.length = HdrLst.N`; every stored header IS `gs[j]` (`AfcStored`); and
         for the Contact list and the identity list `AfcAssoc`: the lines of the type in `gs` are exactly `HNo` many, there
         are counts (one per such line, each ≥ 1, sum `N`) such that the values of the `i`-th line of the type are those in
         the `i`-th block of the cumulative counts, and every STORED value of the block has at least one byte and lies
         inside the `val` of THAT line — whether or not the line is stored.
       * `afc_parseHeaders` (one ParseHeaders call), `afc_parseSIPMsg`, `afc_values_pinned_init` (one ParseSIPMsg call on an
         Init object, any capacities, EVERY input ≤ 65,535 bytes), `afc_values_pinned_schedule_init` (every chunk schedule:
         in the buffer of the call that finished, a prefix of the last one), `afc_values_pinned_last` (every chunk schedule,
         relative to the accepted lines of the LAST buffer `B`: `afc_trace_app`, `afc_msgLines_app` — the list of
         accepted lines does not change when bytes are appended).
       * `afc_trace_chain`, `afc_msgLines_chain`: the list IS the chain of lines of the text (`HsChain`: each entry has the
         name as written and the type of that name; the chain starts where the first line ends) and the final header
         list object is what accepting exactly these entries, in order, produces.
       * `AfcAssoc.map` / `AfcMsg.meaning`: the map form (monotone `f`, `f k < gs.length`, line `f k` has the type, the value
         lies inside its `val` UNCONDITIONALLY, every line of the type is hit).  `AfcMsg.plMsg`, `AfcAssoc.plAssoc`,
         `AfcAssoc.hxAssoc`: the pinned statement implies both older ones.
       * `afcEx_*` (tests): header capacity 1, contact capacity 4, two Contact lines (2 + 1 values) and a CSeq line: the
         statement of PaiLines accepts the constant map (`afcEx_old_accepts_const`); the pinned one is satisfied by NO
         constant map (`afcEx_const_refuted`), refutes the wrong counts `[1, 2]` (`afcEx_wrong_counts_refuted`) and
         determines the counts: `[2, 1]` (`afcEx_counts_determined`).
  (S10) EXPORT C17.  `afc_badChar_prefix_extends`, `afc_badChar_call_extends`: `BadChar` at `p` ⇒ `p < len(b)` and there are at
       most FIVE bytes `s` with `b[0:p] ++ s` holding a parameter of the grammar at `o` (witness explicit);
       `afc_moreBytes_extends`: `MoreBytes` ⇒ at most SIX bytes `s` with `b ++ s` holding one.
  (S9) EXPORT C04 / C05, on the LAST buffer `B` of the schedule (`l.getLast? = some B`):
       `afc_sig_never_panics_last(_from)` (`AfcSigLast B m'`: GetMsgSig does not panic on `B`, nor on any extension of `B`,
       same result; in the completed states `len(msg.Buf) ≤ len(B)`), any verdict;  `afc_msg_trim_last` (trimming of
       From / To / Contact / identity values read in `B`; `len(msg.Buf)` = returned offset `≤ len(B)`).
  (S8) EXPORT C09.  `afc_msg_lists_init`, `afc_msg_lists_schedule_init`, `afc_msg_lists_schedule_whole`: `rc_msg_lists_init`
       and its schedule forms WITH the first-line conjunct (`(parseFLine b o {}).1 = o1`, verdict OK; in the `_whole`
       form ParseFLine is run on `B` itself).
  (S4) EXPORT C07.  `AfcGenericIn b o e hb`: the generic-treatment hypothesis restricted to the line starts BELOW `e`
       (`HsGeneric.afc_in`: it follows from `HsGeneric`).  `afc_block_sound_in`, `afc_block_ok_iff_in` (one call),
       `afc_block_sound_schedule(_from)`, `afc_block_ok_iff_schedule`, `afc_block_report_schedule` (every chunk schedule,
       whole buffer `B`): the theorems of HdrSound / ResumedConverse with `HsGeneric B o hb` replaced by
       `AfcGenericIn B o e hb`, `e` the returned / claimed end of the block — nothing is assumed about the bytes from `e`
       on.  Test `afcExG`: a block followed by a body line that starts with `From`: `HsGeneric` fails
       (`afcExG_not_generic`), the restricted hypothesis holds (`afcExG_generic_in`) and the theorems apply.
  (S6) EXPORT C17.  `PVMoreAt b flags o r` = `PVMore` + pins: in the white-space shape the end-of-input option is OFF and `r`
       is the START of the unfinished white space (`AfcWsStart`: `r = o`, or the byte before `r` is not SP / HT / CR / LF);
       the two quoted shapes (any option word) already pin `r` (end of buffer / trailing back-slash).
       `afc_moreBytes_at` (MoreBytes at `r` ⇒ `PVMoreAt`), `afc_moreBytes_complete` (⇐), `afc_moreBytes_iff`: MoreBytes at
       `r` is characterised EXACTLY.  Tests: on `a = b SP CR LF` the unpinned `PVMore` holds at 6 although the parser
       reports 5; `PVMoreAt` holds at 5 and not at 6.
  Non-vacuity: every delivered theorem is followed by (or used in) an `example` on concrete inputs; the
  `decide +kernel` computations are tests / non-vacuity, not the general claims.

  NOT proved here: (S3) that the counts are unique in general (they are on the test object; in general it needs that
  the `val` spans of different lines do not overlap, which is not derived for lines that are not stored); objects
  suspended in the middle of a header line other than through the one-shot equivalence (growing prefixes within the
  size limit).  (S4) the restricted form of `rc_block_verdicts_schedule` (the verdict list; it would need the hypothesis
  for the line starts up to the returned offset of a rejected / suspended block) — the soundness, iff and report forms
  are done.  (S10) the witness for `MoreBytes` with the end-of-input option.  (S6) the object returned with MoreBytes.
-/
import Sipsp.Proofs.HnoExact
import Sipsp.Proofs.ResumedConverse
import Sipsp.Proofs.ParamVerdicts
import Sipsp.Proofs.SigGuardSafe
import Sipsp.Proofs.HdrSound
import Sipsp.Proofs.MsgLastFlags

namespace Sipsp

/-! ## (S3) C05: the header line of every Contact / P-Asserted-Identity value, pinned -/

/-- the positions, in the list `gs` of ALL accepted header lines, of the lines of type `ty` -/
def afcIdx (ty : Nat) (gs : List Hdr) : List Nat := hxIdx ty (fun j => gs[j]!.type) gs.length

theorem afcIdx_snoc (ty : Nat) (gs : List Hdr) (g : Hdr) :
    afcIdx ty (gs ++ [g]) = afcIdx ty gs ++ (if g.type = ty then [gs.length] else []) := by
  unfold afcIdx
  have hl : (gs ++ [g]).length = gs.length + 1 := by simp
  rw [hl, hxIdx_succ]
  have h1 : (gs ++ [g])[gs.length]! = g := by simp
  rw [h1]
  congr 1
  apply hxIdx_congr
  intro j hj
  show (gs ++ [g])[j]!.type = gs[j]!.type
  have : (gs ++ [g])[j]! = gs[j]! := by
    rw [getElem!_pos (gs ++ [g]) j (by rw [hl]; omega), getElem!_pos gs j hj]
    exact List.getElem_append_left hj
  rw [this]

theorem afcIdx_lt {ty : Nat} {gs : List Hdr} {i j : Nat} (h : (afcIdx ty gs)[i]? = some j) :
    j < gs.length ∧ gs[j]!.type = ty := hxIdx_lt h

/-- the ghost list agrees with the header array: `gs` has one entry per counted line, and every stored header is the
    entry of its line -/
def AfcStored (gs : List Hdr) (hl : HdrLst) : Prop :=
  gs.length = hl.n ∧ ∀ j, j < hl.n → j < hl.hdrs.size → hl.hdrs[j]! = gs[j]!

/-- the values of the `i`-th line of type `ty` are those of the `i`-th block of the cumulative counts `cnt`; each of
    them that is stored is not empty and lies inside the `val` of that line (stored in the header array or not) -/
def AfcBlocks (ty : Nat) (gs : List Hdr) (vals : Array PFromBody) (cnt : List Nat) : Prop :=
  ∀ i j, (afcIdx ty gs)[i]? = some j → ∀ k, hxStart cnt i ≤ k → k < hxStart cnt (i + 1) → k < vals.size →
    PlIn gs[j]!.val vals[k]!.v

/-- **the pinned association** of a value list (`vals`, `n` values counted, header count `hNo`) with the list `gs` of ALL
    accepted header lines -/
def AfcAssoc (ty : Nat) (gs : List Hdr) (vals : Array PFromBody) (n hNo : Nat) : Prop :=
  ∃ cnt : List Nat, (afcIdx ty gs).length = hNo ∧ cnt.length = hNo ∧ (∀ c ∈ cnt, 0 < c) ∧ cnt.sum = n ∧
    AfcBlocks ty gs vals cnt

theorem AfcStored.setCur {gs : List Hdr} {hl : HdrLst} (H : AfcStored gs hl) (g : Hdr) : AfcStored gs (hl.setCur g) := by
  obtain ⟨h1, h2⟩ := H
  refine ⟨by rw [hlSetCur_n]; exact h1, fun j hj hs => ?_⟩
  rw [hlSetCur_n] at hj
  rw [hlSetCur_size] at hs
  rw [hlSetCur_ne hl g j (by omega)]
  exact h2 j hj hs

theorem AfcStored.next {gs : List Hdr} {hl : HdrLst} (H : AfcStored gs hl) (g : Hdr) :
    AfcStored (gs ++ [g]) ((hl.setCur g).accept g) := by
  obtain ⟨h1, h2⟩ := H
  have hn : ((hl.setCur g).accept g).n = hl.n + 1 := by rw [accept_n, hlSetCur_n]
  have hs : ((hl.setCur g).accept g).hdrs.size = hl.hdrs.size := by rw [accept_hdrs, hlSetCur_size]
  refine ⟨by rw [hn, ← h1]; simp, fun j hj hjs => ?_⟩
  rw [hn] at hj
  rw [hs] at hjs
  by_cases hjn : j = hl.n
  · subst hjn
    rw [accept_hdrs, hlSetCur_get_n hl g hjs, ← h1]
    simp
  · have hj' : j < gs.length := by omega
    have e : (gs ++ [g])[j]! = gs[j]! := by
      rw [getElem!_pos (gs ++ [g]) j (by simp; omega), getElem!_pos gs j hj']
      exact List.getElem_append_left hj'
    rw [e, accept_hdrs, hlSetCur_ne hl g j (by omega)]
    exact h2 j (by omega) hjs

/-- one more accepted line `g`: the association is carried over (the header array plays no part) -/
theorem AfcAssoc.snoc {ty : Nat} {gs : List Hdr} {vals vals' : Array PFromBody} {n n' hNo hNo' : Nat}
    (H : AfcAssoc ty gs vals n hNo) (g : Hdr) (E : PlEff ty vals n vals' n' g.type g.val)
    (C : HxCnt ty n hNo n' hNo' g.type) : AfcAssoc ty (gs ++ [g]) vals' n' hNo' := by
  obtain ⟨cnt, h2, h3, h4, h5, h6⟩ := H
  have hold : ∀ j, j < gs.length → (gs ++ [g])[j]! = gs[j]! := fun j hj => by
    rw [getElem!_pos (gs ++ [g]) j (by simp; omega), getElem!_pos gs j hj]
    exact List.getElem_append_left hj
  have hnew : (gs ++ [g])[gs.length]! = g := by simp
  by_cases ht : g.type = ty
  · obtain ⟨hlt, hh⟩ := C.1 ht
    have hK : PlKeep vals n vals' n' ∧ ∀ j, n ≤ j → j < n' → j < vals'.size → PlIn g.val vals'[j]!.v := by
      rcases E with ⟨_, e2⟩ | ⟨_, hK, hin⟩
      · omega
      · exact ⟨hK, hin⟩
    refine ⟨cnt ++ [n' - n], ?_, ?_, ?_, ?_, ?_⟩
    · rw [afcIdx_snoc, if_pos ht, List.length_append, h2, hh]; rfl
    · rw [List.length_append, h3, hh]; rfl
    · intro c hc
      rcases List.mem_append.1 hc with hc | hc
      · exact h4 c hc
      · simp only [List.mem_singleton] at hc; omega
    · rw [List.sum_append, h5]; simp only [List.sum_cons, List.sum_nil]; omega
    · intro i j hij k k1 k2 k3
      rw [afcIdx_snoc, if_pos ht] at hij
      by_cases hi : i < hNo
      · rw [List.getElem?_append_left (by rw [h2]; exact hi)] at hij
        rw [hxStart_append_le cnt _ i (by omega)] at k1
        rw [hxStart_append_le cnt _ (i + 1) (by omega)] at k2
        have hkn : k < n := by have := hxStart_le cnt (i + 1); omega
        have hj := (afcIdx_lt hij).1
        rw [hold j hj, hK.1.2.2 k hkn]
        exact h6 i j hij k k1 k2 (by rw [← hK.1.1]; exact k3)
      · by_cases hi2 : i = hNo
        · have hi3 : i = cnt.length := by omega
          rw [hi3] at k1 k2
          rw [List.getElem?_append_right (by rw [h2]; omega), h2, hi2, Nat.sub_self] at hij
          simp only [List.getElem?_cons_zero, Option.some.injEq] at hij
          subst hij
          rw [hxStart_append_le cnt _ cnt.length (by omega), hxStart_length, h5] at k1
          rw [hxStart_append_succ, h5] at k2
          rw [hnew]
          exact hK.2 k k1 (by omega) k3
        · exfalso
          rw [List.getElem?_eq_none (by rw [List.length_append, h2]; simp only [List.length_cons, List.length_nil]; omega)] at hij
          cases hij
  · obtain ⟨e1, e2⟩ := C.2 ht
    have ev : vals' = vals := by
      rcases E with ⟨e3, _⟩ | ⟨e3, _⟩
      · exact e3
      · exact absurd e3 ht
    subst e1 e2 ev
    refine ⟨cnt, ?_, h3, h4, h5, ?_⟩
    · rw [afcIdx_snoc, if_neg ht, List.append_nil, h2]
    · intro i j hij k k1 k2 k3
      rw [afcIdx_snoc, if_neg ht, List.append_nil] at hij
      have hj := (afcIdx_lt hij).1
      rw [hold j hj]
      exact h6 i j hij k k1 k2 k3

/-- **the accepted header lines of one ParseHeaders call, as a function of the input**: the header objects ParseHdrLine
    returns for the successive accepted lines (same recursion as `parseHeaders`; `fuel` bounds the number of lines,
    `b.size - offs + 1` is always enough) -/
def afcTrace (b : Buf) : Nat → Nat → HdrLst → Option PHdrVals → List Hdr
  | 0, _, _, _ => []
  | fuel + 1, offs, hl, hb =>
    if offs < b.size ∧ (parseHdrLine b offs hl.cur hb).2.1 = .ok ∧ offs < (parseHdrLine b offs hl.cur hb).1 then
      (parseHdrLine b offs hl.cur hb).2.2.1 ::
        afcTrace b fuel (parseHdrLine b offs hl.cur hb).1
          ((hl.setCur (parseHdrLine b offs hl.cur hb).2.2.1).accept (parseHdrLine b offs hl.cur hb).2.2.1)
          (parseHdrLine b offs hl.cur hb).2.2.2
    else []

/-- the pinned association for both lists of a values object -/
def AfcInv (gs : List Hdr) (hb : Option PHdrVals) : Prop :=
  ∀ hv, hb = some hv → AfcAssoc HdrContact gs hv.contacts.vals hv.contacts.n hv.contacts.hNo ∧
    AfcAssoc HdrPAI gs hv.pais.vals hv.pais.n hv.pais.hNo

/-- **header block** (same hypotheses as `hx_parseHeaders`): `gs0` = the lines accepted before the call; after OK the
    lines are `gs0 ++ afcTrace …`, the stored headers are entries of that list, and both value lists are associated
    with it -/
theorem afc_parseHeaders (b : Buf) (offs : Nat) (hl : HdrLst) (hb : Option PHdrVals) (hfit : b.size ≤ 65535)
    (hok1 : hlsOK b hl) (hok2 : hbOK b offs hb) (hpe : hlsPend hl hb) (ho : offs ≤ b.size)
    (H : HlsSafe b offs hl hb) (hcur : hl.cur = {}) (hsome : hb ≠ none) (gs0 : List Hdr) (fuel : Nat)
    (hfuel : b.size - offs < fuel) (S : AfcStored gs0 hl) (G : AfcInv gs0 hb) :
    (parseHeaders b offs hl hb).2.1 = .ok →
      AfcStored (gs0 ++ afcTrace b fuel offs hl hb) (parseHeaders b offs hl hb).2.2.1 ∧
      AfcInv (gs0 ++ afcTrace b fuel offs hl hb) (parseHeaders b offs hl hb).2.2.2 := by
  induction hk : b.size - offs using Nat.strongRecOn generalizing offs hl hb gs0 fuel with
  | _ k ih =>
    rw [parseHeaders.eq_1 b offs hl hb]
    by_cases hlt : offs < b.size
    · rw [if_pos hlt]
      have hI : hlOK b offs hl.cur hb := ⟨by omega, hlsOK_cur hok1, hok2⟩
      cases hb with
      | none => exact absurd rfl hsome
      | some hv =>
      obtain ⟨fuel', rfl⟩ : ∃ f', fuel = f' + 1 := ⟨fuel - 1, by omega⟩
      rcases hp1 : parseHdrLine b offs hl.cur (some hv) with ⟨n1, e1, g1, v1⟩
      obtain ⟨hO, hS, hF, hN, hE⟩ := parseHdrLine_safe b offs hl.cur (some hv) hfit H.cur hI hp1
      have Hv := H.cur.hv hv rfl
      rw [hcur] at Hv
      have hct : CtIdle b hv.contacts := Hv.ctI (fun hq => by cases hq)
      have hpa : PaIdle b hv.pais := Hv.paI (fun hq => by cases hq)
      obtain ⟨hv1, rfl, hemp, hokE⟩ := pl_parseHdrLine b offs hl.cur hv hfit (by rw [hcur]; exact Or.inl rfl) hct hpa hp1
      obtain ⟨G1, G2⟩ := G hv rfl
      cases e1 <;> simp only
      case ok =>
        have hpost := parseHdrLine_post b offs hl.cur (some hv) hI hp1 (Or.inl rfl)
        have hg : offs < n1 := parseHdrLine_ok_gt b offs hl.cur (some hv) hI hpe.1 hp1
        rw [if_pos hg]
        obtain ⟨E1, E2⟩ := hokE rfl
        obtain ⟨hv1', hq, C1, C2⟩ := hx_line_cnt b offs hl.cur hv (by rw [hcur]; exact Or.inl rfl) hp1
        cases hq
        have htr : afcTrace b (fuel' + 1) offs hl (some hv) =
            g1 :: afcTrace b fuel' n1 ((hl.setCur g1).accept g1) (some hv1) := by
          rw [afcTrace, hp1]
          exact if_pos ⟨hlt, rfl, hg⟩
        rw [htr]
        have happ : gs0 ++ g1 :: afcTrace b fuel' n1 ((hl.setCur g1).accept g1) (some hv1) =
            (gs0 ++ [g1]) ++ afcTrace b fuel' n1 ((hl.setCur g1).accept g1) (some hv1) := by simp
        rw [happ]
        exact ih (b.size - n1) (by omega) n1 _ (some hv1) (hlsOK_next g1 hok1) hpost.2
          (hlsPend_next g1 (some hv1) hpe) hpost.1 (H.next g1 (hS (Or.inl rfl)) (hF rfl) (by omega))
          (flo_next_cur hl g1 H.clean) (by intro hh; cases hh) (gs0 ++ [g1]) fuel' (by omega) (S.next g1)
          (fun hv' hh => by cases hh; exact ⟨G1.snoc g1 E1 C1, G2.snoc g1 E2 C2⟩) rfl
      case empty =>
        have htr : afcTrace b (fuel' + 1) offs hl (some hv) = [] := by
          rw [afcTrace, hp1]
          exact if_neg (fun hh => by cases hh.2.1)
        have := hemp rfl
        subst this
        rw [htr, List.append_nil]
        split
        · intro _
          exact ⟨S.setCur g1, fun hv' hh => by cases hh; exact ⟨G1, G2⟩⟩
        · intro hh; cases hh
      all_goals (intro hh; cases hh)
    · rw [if_neg hlt]
      intro hh; cases hh

/-! #### the message -/

/-- **all accepted header lines of a message, as a function of the input**: the lines of the ParseHeaders call that
    ParseSIPMsg makes at the end of the first line -/
def afcMsgLines (b : Buf) (o : Nat) (m : PSIPMsg) : List Hdr :=
  afcTrace b (b.size + 1) (parseFLine b o m.fl).1 m.hl (some m.pv)

/-- the statement about one message object, relative to the list `gs` of all accepted header lines -/
structure AfcMsg (gs : List Hdr) (m : PSIPMsg) : Prop where
  stored : AfcStored gs m.hl
  contacts : AfcAssoc HdrContact gs m.pv.contacts.vals m.pv.contacts.n m.pv.contacts.hNo
  pais : AfcAssoc HdrPAI gs m.pv.pais.vals m.pv.pais.n m.pv.pais.hNo

/-- **message, one call from the initial state** (same hypotheses as `hx_parseSIPMsg`; no header counted yet) -/
theorem afc_parseSIPMsg (b : Buf) (o : Nat) (m : PSIPMsg) (flags : Nat) (hfit : b.size ≤ 65535)
    (hok : msgOK2 b o m) (H : MsgSafe b o m) (hst : m.state = .init) (hcur : m.hl.cur = {}) (h0 : m.hl.n = 0)
    (G : AfcInv [] (some m.pv)) {o' : Nat} {m' : PSIPMsg} (hr : parseSIPMsg b o m flags = (o', .ok, m')) :
    AfcMsg (afcMsgLines b o m) m' := by
  obtain ⟨ho, _, hrest⟩ := hok
  obtain ⟨hls, hvs, hpe⟩ := hrest (by rw [hst]; decide)
  have h1 : parseSIPMsg b o m flags = msgFLine b o { m with offs := o, state := .fline } flags := by
    unfold parseSIPMsg; rw [hst]
  rw [h1] at hr
  unfold msgFLine at hr
  simp only at hr
  have hF := parseFLine_safe b o m.fl hfit (H.flS (Or.inl hst))
  have hge := parseFLine_ge b o m.fl
  unfold afcMsgLines
  rcases hp : parseFLine b o m.fl with ⟨o1, e1, fl1⟩
  rw [hp] at hr hF hge
  simp only at hF hge
  cases e1 <;> simp only at hr
  case ok =>
    rw [msgHeaders_eq] at hr
    simp only at hr
    have hHls : HlsSafe b o1 m.hl (some m.pv) := (H.hls (Or.inl hst)).mono hge hF.ho
    have hNn := afc_parseHeaders b o1 m.hl (some m.pv) hfit hls (hvOK_mono hvs hge hF.ho) hpe hF.ho hHls hcur
      (by intro hh; cases hh) [] (b.size + 1) (by omega) ⟨h0.symm, fun j hj => by omega⟩ G
    have hsome := parseHeaders_isSome b o1 m.hl m.pv
    rcases hp2 : parseHeaders b o1 m.hl (some m.pv) with ⟨o2, e2, hl2, hb2⟩
    rw [hp2] at hr hNn hsome
    cases hb2 with
    | none => cases hsome
    | some pv2 =>
      unfold afterHeaders at hr
      cases e2 <;> simp only [Option.getD_some] at hr
      case ok =>
        obtain ⟨k1, k2, k3⟩ := flo_msgBody_keeps b o2 { m with offs := o, fl := fl1, hl := hl2, pv := pv2, state := .body } flags
        rw [hr] at k1 k2 k3
        obtain ⟨q1, q2⟩ := hNn rfl
        simp only [List.nil_append] at q1 q2
        obtain ⟨q3, q4⟩ := q2 pv2 rfl
        exact ⟨by rw [k2]; exact q1, by rw [k3]; exact q3, by rw [k3]; exact q4⟩
      all_goals (exfalso; have hq := congrArg (fun r => r.2.1) hr; simp only at hq; exact flo_msgErr_ne_ok _ _ _ _ (by decide) hq)
  all_goals (exfalso; have hq := congrArg (fun r => r.2.1) hr; simp only at hq; exact flo_msgErr_ne_ok _ _ _ _ (by decide) hq)

theorem AfcAssoc_nil (ty : Nat) (vals : Array PFromBody) : AfcAssoc ty [] vals 0 0 :=
  ⟨[], rfl, rfl, (fun c hc => by cases hc), rfl, fun i j hij => by cases hij⟩

theorem AfcInv_init (m : PSIPMsg) (len kh kc : Nat) (hdrs : Option Unit) (cts : Option Unit) :
    let m1 := m.init len (hdrs.map fun _ => Array.replicate kh {}) (cts.map fun _ => Array.replicate kc {})
    AfcInv [] (some m1.pv) ∧ m1.hl.n = 0 := by
  have key : ∀ k k', AfcInv [] (some (initObj len k k').pv) ∧ (initObj len k k').hl.n = 0 := by
    intro k k'
    refine ⟨fun hv hh => ?_, rfl⟩
    cases hh
    exact ⟨AfcAssoc_nil _ _, AfcAssoc_nil _ _⟩
  cases hdrs <;> cases cts
  · exact key 10 10
  · exact key 10 kc
  · exact key kh 10
  · exact key kh kc

/-- **[C05] message level, one call on an object produced by Init, line index pinned** (any previous contents, caller
    arrays of any capacity or none; EVERY input within the 65,535-byte limit): with `gs` = the list of ALL accepted
    header lines (a function of the input), `AfcMsg gs m'` -/
theorem afc_values_pinned_init (b : Buf) (o : Nat) (m0 : PSIPMsg) (len kh kc : Nat) (hdrs cts : Option Unit)
    (flags : Nat) (hfit : b.size ≤ 65535) (ho : o ≤ b.size) {o' : Nat} {m' : PSIPMsg}
    (hr : parseSIPMsg b o (m0.init len (hdrs.map fun _ => Array.replicate kh {}) (cts.map fun _ => Array.replicate kc {}))
      flags = (o', .ok, m')) :
    AfcMsg (afcMsgLines b o (m0.init len (hdrs.map fun _ => Array.replicate kh {}) (cts.map fun _ => Array.replicate kc {})))
      m' := by
  obtain ⟨_, q2, q3⟩ := MsgLo_init o m0 len kh kc hdrs cts
  obtain ⟨g1, g2⟩ := AfcInv_init m0 len kh kc hdrs cts
  exact afc_parseSIPMsg b o _ flags hfit (msgOK2_init b o ho m0 len kh kc hdrs cts)
    (MsgSafe_init b o ho m0 len kh kc hdrs cts) q3 q2 g2 g1 hr

/-- **[C05] … under every chunk schedule, from Init**: if the chain of resumed calls over growing prefixes ends with
    OK, the final object is the object of ONE call on a buffer `b` of the schedule — a prefix of the last buffer `B`, so
    every span is a span of `B` with the same bytes — and satisfies the pinned statement relative to the accepted lines
    of `b` -/
theorem afc_values_pinned_schedule_init (flags : Nat) (o : Nat) (m0 : PSIPMsg) (len kh kc : Nat)
    (hdrs cts : Option Unit) (l : List Buf) (hg : Growing l) (hfit : ∀ x ∈ l, x.size ≤ 65535) (hne : l ≠ [])
    (ho : ∀ b ∈ l, o ≤ b.size) {B : Buf} (hB : l.getLast? = some B) {o' : Nat} {m' : PSIPMsg}
    (hr : resumeRun (C01.msgP flags) o
      (m0.init len (hdrs.map fun _ => Array.replicate kh {}) (cts.map fun _ => Array.replicate kc {})) l = (o', .ok, m')) :
    ∃ b ∈ l, (∃ t, B = b ++ t) ∧ parseSIPMsg b o
        (m0.init len (hdrs.map fun _ => Array.replicate kh {}) (cts.map fun _ => Array.replicate kc {})) flags = (o', .ok, m') ∧
      AfcMsg (afcMsgLines b o (m0.init len (hdrs.map fun _ => Array.replicate kh {}) (cts.map fun _ => Array.replicate kc {})))
        m' := by
  obtain ⟨b, hb, h⟩ := flo_schedule_init flags o m0 len kh kc hdrs cts l hg hfit hne ho hr
  exact ⟨b, hb, mlf_growing_last hg hB b hb, h,
    afc_values_pinned_init b o m0 len kh kc hdrs cts flags (hfit b hb) (ho b hb) h⟩

/-! #### the list of accepted lines does not change when bytes are appended; the schedule form on the LAST buffer -/

/-- a header block that is not suspended has the same accepted lines in every extension of the buffer (any fuel that
    is enough) -/
theorem afc_trace_app (b s : Buf) (offs : Nat) (hl : HdrLst) (hb : Option PHdrVals)
    (hok1 : hlsOK b hl) (hok2 : hbOK b offs hb) (fuel fuel' : Nat) (hf : b.size - offs < fuel)
    (hf' : (b ++ s).size - offs < fuel') (hr : (parseHeaders b offs hl hb).2.1 ≠ .moreBytes) :
    afcTrace (b ++ s) fuel' offs hl hb = afcTrace b fuel offs hl hb := by
  induction hk : b.size - offs using Nat.strongRecOn generalizing offs hl hb fuel fuel' with
  | _ k ih =>
    by_cases hlt : offs < b.size
    · obtain ⟨f, rfl⟩ : ∃ f, fuel = f + 1 := ⟨fuel - 1, by omega⟩
      obtain ⟨f', rfl⟩ : ∃ f', fuel' = f' + 1 := ⟨fuel' - 1, by omega⟩
      have hltB : offs < (b ++ s).size := by rw [Array.size_append]; omega
      rcases hp : parseHdrLine b offs hl.cur hb with ⟨n, e1, h, hb1⟩
      have hI : hlOK b offs hl.cur hb := ⟨by omega, hlsOK_cur hok1, hok2⟩
      have hm : e1 ≠ .moreBytes := by
        intro hm; subst hm
        apply hr
        rw [parseHeaders, if_pos hlt, hp]
      have hst := parseHdrLine_stable b s offs hl.cur hb hI hp hm
      rw [afcTrace, afcTrace, hst, hp]
      simp only
      by_cases hc : e1 = .ok ∧ offs < n
      · obtain ⟨rfl, hg⟩ := hc
        rw [if_pos ⟨hltB, rfl, hg⟩, if_pos ⟨hlt, rfl, hg⟩]
        have hpost := parseHdrLine_post b offs hl.cur hb hI hp (Or.inl rfl)
        congr 1
        refine ih (b.size - n) (by omega) n _ hb1 (hlsOK_next h hok1) hpost.2 f f' (by omega)
          (by rw [Array.size_append] at hf' ⊢; omega) ?_ rfl
        intro hh
        apply hr
        rw [parseHeaders, if_pos hlt, hp]
        simp only
        rw [if_pos hg]
        exact hh
      · rw [if_neg (fun hh => hc ⟨hh.2.1, hh.2.2⟩), if_neg (fun hh => hc ⟨hh.2.1, hh.2.2⟩)]
    · exfalso
      apply hr
      rw [parseHeaders, if_neg hlt]

/-- a message parsed with OK has the same accepted header lines in every extension of the buffer -/
theorem afc_msgLines_app (b t : Buf) (o : Nat) (m : PSIPMsg) (flags : Nat) (hfit : b.size ≤ 65535)
    (hok : msgOK2 b o m) (H : MsgSafe b o m) (hst : m.state = .init) {o' : Nat} {m' : PSIPMsg}
    (hr : parseSIPMsg b o m flags = (o', .ok, m')) : afcMsgLines (b ++ t) o m = afcMsgLines b o m := by
  obtain ⟨ho, hfl, hrest⟩ := hok
  obtain ⟨hls, hvs, hpe⟩ := hrest (by rw [hst]; decide)
  obtain ⟨o1, fl, h, hl, hv, hp, hh, _⟩ := parseSIPMsg_ok_path b o m flags hst hr
  have hF := parseFLine_safe b o m.fl hfit (H.flS (Or.inl hst))
  have hge := parseFLine_ge b o m.fl
  rw [hp] at hF hge
  simp only at hF hge
  have hpB := parseFLine_stable b t o m.fl (hfl (Or.inl hst)) hfit hp (by decide)
  unfold afcMsgLines
  rw [hpB, hp]
  exact afc_trace_app b t o1 m.hl (some m.pv) hls (hvOK_mono hvs hge hF.ho) (b.size + 1) ((b ++ t).size + 1)
    (by omega) (by omega) (by rw [hh]; intro hq; cases hq)

/-- **[C05] the pinned statement under every chunk schedule from Init, on the LAST buffer `B` of the schedule**
    (`l.getLast? = some B`): if the chain of resumed calls over growing prefixes ends with OK, the final object satisfies
    `AfcMsg` relative to the accepted header lines of `B` itself -/
theorem afc_values_pinned_last (flags : Nat) (o : Nat) (m0 : PSIPMsg) (len kh kc : Nat)
    (hdrs cts : Option Unit) (l : List Buf) (hg : Growing l) (hfit : ∀ x ∈ l, x.size ≤ 65535)
    (ho : ∀ b ∈ l, o ≤ b.size) {B : Buf} (hB : l.getLast? = some B) {o' : Nat} {m' : PSIPMsg}
    (hr : resumeRun (C01.msgP flags) o
      (m0.init len (hdrs.map fun _ => Array.replicate kh {}) (cts.map fun _ => Array.replicate kc {})) l = (o', .ok, m')) :
    AfcMsg (afcMsgLines B o (m0.init len (hdrs.map fun _ => Array.replicate kh {}) (cts.map fun _ => Array.replicate kc {})))
      m' := by
  have hne : l ≠ [] := by intro hh; rw [hh] at hB; cases hB
  obtain ⟨b, hb, h⟩ := flo_schedule_init flags o m0 len kh kc hdrs cts l hg hfit hne ho hr
  obtain ⟨t, rfl⟩ := mlf_growing_last hg hB b hb
  obtain ⟨_, _, q3⟩ := MsgLo_init o m0 len kh kc hdrs cts
  rw [afc_msgLines_app b t o _ flags (hfit b hb) (msgOK2_init b o (ho b hb) m0 len kh kc hdrs cts)
    (MsgSafe_init b o (ho b hb) m0 len kh kc hdrs cts) q3 h]
  exact afc_values_pinned_init b o m0 len kh kc hdrs cts flags (hfit b hb) (ho b hb) h

/-! #### the list of accepted lines IS the chain of lines ParseHeaders reports -/

/-- **the accepted lines, as computed by `afcTrace`, are the lines of the accepted text** (list object in the state of
    a new / reset one, ANY values object): if ParseHeaders ends with OK (or "empty"), then `afcTrace` lists a chain of
    lines of the text `[o, e)` — each entry has the name as written and the type that name classifies as (`HsChain`) —
    and the list object is exactly what accepting these entries, in order, produces -/
theorem afc_trace_chain (b : Buf) (hfit : b.size ≤ 65535) :
    ∀ (k o : Nat) (hl : HdrLst) (hb : Option PHdrVals) (fuel : Nat), b.size - o = k → k < fuel → HlsClean hl →
      hl.cur = {} → ∀ {e : Nat} {er : Err} {hl' : HdrLst} {hb' : Option PHdrVals},
        parseHeaders b o hl hb = (e, er, hl', hb') → (er = .ok ∨ er = .empty) →
        HsChain b o (afcTrace b fuel o hl hb) e ∧
          hl' = (hl.acceptAll (afcTrace b fuel o hl hb)).setCur { state := .fin } := by
  intro k
  induction k using Nat.strongRecOn with
  | _ k ih =>
    intro o hl hb fuel hk hfu hc hcur e er hl' hb' hr her
    obtain ⟨f, rfl⟩ : ∃ f, fuel = f + 1 := ⟨fuel - 1, by omega⟩
    rw [parseHeaders] at hr
    by_cases hlt : o < b.size
    · rw [if_pos hlt, hcur] at hr
      rcases hp : parseHdrLine b o {} hb with ⟨n, e1, h, hb1⟩
      rw [hp] at hr
      rw [afcTrace, hcur, hp]
      simp only
      cases e1 <;> simp only at hr
      case ok =>
        have hname := hs_line_name_type_sound b o hb hfit hp
        by_cases hgt : o < n
        · rw [if_pos hgt] at hr
          rw [if_pos ⟨hlt, rfl, hgt⟩]
          have hcl := accept_clean hl h hc
          obtain ⟨H, h1⟩ := ih (b.size - n) (by omega) n _ hb1 f rfl (by omega) hcl.1 hcl.2 hr her
          exact ⟨HsChain.cons o n e h _ hname hgt H, h1⟩
        · rw [if_neg hgt] at hr
          cases hr
          rcases her with h | h <;> cases h
      case empty =>
        obtain ⟨hem, rfl, _⟩ := hs_line_empty_all b o hb hfit hp
        rw [if_neg (fun hh => by cases hh.2.1)]
        by_cases hn : hl.n > 0
        · rw [if_pos hn] at hr; cases hr; exact ⟨HsChain.nil o _ hem, rfl⟩
        · rw [if_neg hn] at hr; cases hr; exact ⟨HsChain.nil o _ hem, rfl⟩
      all_goals (cases hr; rcases her with h | h <;> cases h)
    · rw [if_neg hlt] at hr
      cases hr
      rcases her with h | h <;> cases h

/-- **message from Init**: the list `afcMsgLines` is a chain of lines of the header block — it starts where the first line
    ends, every entry has the name as written and the type of that name — and the header list of the final object is
    what accepting exactly these entries, in order, produces -/
theorem afc_msgLines_chain (b : Buf) (o : Nat) (m0 : PSIPMsg) (len kh kc : Nat) (hdrs cts : Option Unit)
    (flags : Nat) (hfit : b.size ≤ 65535) {o' : Nat} {m' : PSIPMsg}
    (hr : parseSIPMsg b o (m0.init len (hdrs.map fun _ => Array.replicate kh {}) (cts.map fun _ => Array.replicate kc {}))
      flags = (o', .ok, m')) :
    ∃ e, HsChain b (parseFLine b o {}).1
        (afcMsgLines b o (m0.init len (hdrs.map fun _ => Array.replicate kh {}) (cts.map fun _ => Array.replicate kc {}))) e ∧
      m'.hl = ((hsNew (rcCap hdrs kh)).acceptAll
        (afcMsgLines b o (m0.init len (hdrs.map fun _ => Array.replicate kh {}) (cts.map fun _ => Array.replicate kc {})))).setCur
          { state := .fin } := by
  obtain ⟨q1, q2, q3⟩ := rc_init_lists m0 len kh kc hdrs cts
  obtain ⟨o1, fl, h, hl, hv, hp, hh, hbody⟩ := parseSIPMsg_ok_path b o _ flags q1 hr
  have hfl : (m0.init len (hdrs.map fun _ => Array.replicate kh {}) (cts.map fun _ => Array.replicate kc {})).fl = {} := by
    cases hdrs <;> cases cts <;> rfl
  unfold afcMsgLines
  rw [hfl] at hp ⊢
  rw [hp]
  simp only
  rw [q2] at hh ⊢
  obtain ⟨H, h1⟩ := afc_trace_chain b hfit (b.size - o1) o1 (hsNew (rcCap hdrs kh)) _ (b.size + 1) rfl (by omega)
    (hsNew_ok _).1 (hsNew_ok _).2 hh (Or.inl rfl)
  obtain ⟨_, k2, _⟩ := flo_msgBody_keeps b h (afaBodyEntry _ o fl hl hv) flags
  rw [hbody] at k2
  exact ⟨h, H, by rw [k2]; exact h1⟩

/-! #### what `AfcAssoc` says: the map form -/

theorem afc_hxStart_mono (cnt : List Nat) {a c : Nat} (h : a ≤ c) : hxStart cnt a ≤ hxStart cnt c := by
  unfold hxStart
  have : cnt.take a = (cnt.take c).take a := by rw [List.take_take, Nat.min_eq_left h]
  rw [this]
  exact hxStart_le (cnt.take c) a

theorem afc_hxStart_succ (cnt : List Nat) (i : Nat) (hi : i < cnt.length) :
    hxStart cnt (i + 1) = hxStart cnt i + cnt[i] := by
  unfold hxStart
  rw [List.take_add_one, List.sum_append, List.getElem?_eq_getElem hi]
  simp

/-- the positions of the lines of a type are listed in increasing order -/
theorem afc_idx_mono {ty : Nat} {tyOf : Nat → Nat} {N i i' j j' : Nat} (h : (hxIdx ty tyOf N)[i]? = some j)
    (h' : (hxIdx ty tyOf N)[i']? = some j') (hii : i < i') : j < j' := by
  have hp : List.Pairwise (· < ·) (hxIdx ty tyOf N) := by
    unfold hxIdx
    exact List.Pairwise.filter _ List.pairwise_lt_range
  obtain ⟨h1, e1⟩ := List.getElem?_eq_some_iff.1 h
  obtain ⟨h2, e2⟩ := List.getElem?_eq_some_iff.1 h'
  have := (List.pairwise_iff_getElem.1 hp) i i' h1 h2 hii
  rw [e1, e2] at this
  exact this

/-- **`AfcAssoc`, the map form**: there is a map `f` from the values counted to the positions in `gs` (ALL accepted
    lines), monotone (values are associated with lines in message order), such that line `f k` has the type of the
    list and — whether or not that line is stored in the header array — every stored value `k` has at least one byte
    and lies inside the `val` of line `f k`; every line of the type is the line of some value -/
theorem AfcAssoc.map {ty : Nat} {gs : List Hdr} {vals : Array PFromBody} {n hNo : Nat} (H : AfcAssoc ty gs vals n hNo) :
    ∃ f : Nat → Nat, (∀ k k', k ≤ k' → k' < n → f k ≤ f k') ∧
      (∀ k, k < n → f k < gs.length ∧ gs[f k]!.type = ty ∧ (k < vals.size → PlIn gs[f k]!.val vals[k]!.v)) ∧
      (∀ j, j < gs.length → gs[j]!.type = ty → ∃ k, k < n ∧ f k = j) := by
  obtain ⟨cnt, h2, h3, h4, h5, h6⟩ := H
  have hb : ∀ k, ∃ i, k < n → (i < cnt.length ∧ hxStart cnt i ≤ k ∧ k < hxStart cnt (i + 1)) := by
    intro k
    by_cases hk : k < n
    · obtain ⟨i, a1, a2, a3⟩ := hx_block_exists cnt k (by rw [h5]; exact hk)
      exact ⟨i, fun _ => ⟨a1, a2, a3⟩⟩
    · exact ⟨0, fun hh => absurd hh hk⟩
  have hblk : ∀ k, k < n → ((fun k => Classical.choose (hb k)) k < cnt.length ∧
      hxStart cnt ((fun k => Classical.choose (hb k)) k) ≤ k ∧ k < hxStart cnt ((fun k => Classical.choose (hb k)) k + 1)) :=
    fun k => Classical.choose_spec (hb k)
  generalize (fun k => Classical.choose (hb k)) = blk at hblk
  have hget : ∀ k, k < n → (afcIdx ty gs)[blk k]? = some (afcIdx ty gs)[blk k]! := by
    intro k hk
    have hlt : blk k < (afcIdx ty gs).length := by rw [h2, ← h3]; exact (hblk k hk).1
    rw [getElem!_pos (afcIdx ty gs) (blk k) hlt]
    exact List.getElem?_eq_getElem hlt
  have hblkmono : ∀ k k', k ≤ k' → k' < n → blk k ≤ blk k' := by
    intro k k' hkk hk'
    obtain ⟨_, a2, a3⟩ := hblk k (by omega)
    obtain ⟨_, c2, c3⟩ := hblk k' hk'
    rcases Nat.lt_or_ge (blk k') (blk k) with hlt | hge
    · have := afc_hxStart_mono cnt (show blk k' + 1 ≤ blk k by omega)
      omega
    · exact hge
  refine ⟨fun k => (afcIdx ty gs)[blk k]!, fun k k' hkk hk' => ?_, fun k hk => ?_, fun j hj hty => ?_⟩
  · show (afcIdx ty gs)[blk k]! ≤ (afcIdx ty gs)[blk k']!
    rcases Nat.lt_or_ge (blk k) (blk k') with hlt | hge
    · exact Nat.le_of_lt (afc_idx_mono (hget k (by omega)) (hget k' hk') hlt)
    · have : blk k = blk k' := Nat.le_antisymm (hblkmono k k' hkk hk') hge
      rw [this]; exact Nat.le_refl _
  · obtain ⟨a1, a2, a3⟩ := hblk k hk
    obtain ⟨b1, b2⟩ := afcIdx_lt (hget k hk)
    exact ⟨b1, b2, fun hks => h6 _ _ (hget k hk) k a2 a3 hks⟩
  · have hmem : j ∈ afcIdx ty gs := by
      unfold afcIdx hxIdx
      rw [List.mem_filter]
      exact ⟨List.mem_range.2 hj, by simpa using hty⟩
    obtain ⟨i, hi, hij⟩ := List.getElem_of_mem hmem
    have hic : i < cnt.length := by rw [h3, ← h2]; exact hi
    have hpos : 0 < cnt[i] := h4 _ (List.getElem_mem hic)
    have hs := afc_hxStart_succ cnt i hic
    have hle := hxStart_le cnt (i + 1)
    have hkn : hxStart cnt i < n := by omega
    refine ⟨hxStart cnt i, hkn, ?_⟩
    obtain ⟨a1, a2, a3⟩ := hblk (hxStart cnt i) hkn
    have : blk (hxStart cnt i) = i :=
      hx_block_unique cnt (hxStart cnt i) _ _ a2 a3 (Nat.le_refl _) (by omega)
    show (afcIdx ty gs)[blk (hxStart cnt i)]! = j
    rw [this, getElem!_pos (afcIdx ty gs) i hi]
    exact hij

/-- the pinned statement implies the one of PaiLines (`PlAssoc`: the comparison only if the line is stored) -/
theorem AfcAssoc.plAssoc {ty : Nat} {gs : List Hdr} {hl : HdrLst} {vals : Array PFromBody} {n hNo : Nat}
    (S : AfcStored gs hl) (H : AfcAssoc ty gs vals n hNo) : PlAssoc ty hl vals n := by
  obtain ⟨f, hm, hf, _⟩ := H.map
  refine ⟨f, hm, fun k hk => ?_⟩
  obtain ⟨a1, a2, a3⟩ := hf k hk
  refine ⟨by rw [← S.1]; exact a1, fun hks hfs => ?_⟩
  rw [S.2 (f k) (by rw [← S.1]; exact a1) hfs]
  exact ⟨a2, a3 hks⟩

theorem AfcMsg.plMsg {gs : List Hdr} {m : PSIPMsg} (h : AfcMsg gs m) : PlMsg m :=
  ⟨h.contacts.plAssoc h.stored, h.pais.plAssoc h.stored⟩

/-- … and the exact association of HnoExact (`HxAssoc`: ghost TYPES of the lines that are not stored, comparison only if the
    line is stored): take the types of the entries of `gs` -/
theorem AfcAssoc.hxAssoc {ty : Nat} {gs : List Hdr} {hl : HdrLst} {vals : Array PFromBody} {n hNo : Nat}
    (S : AfcStored gs hl) (H : AfcAssoc ty gs vals n hNo) : HxAssoc ty hl vals n hNo := by
  obtain ⟨cnt, h2, h3, h4, h5, h6⟩ := H
  have hidx : hxIdx ty (fun j => gs[j]!.type) hl.n = afcIdx ty gs := by unfold afcIdx; rw [S.1]
  refine ⟨fun j => gs[j]!.type, cnt, fun j hj hjs => by rw [S.2 j hj hjs], by rw [hidx]; exact h2, h3, h4, h5,
    fun i j hij k k1 k2 k3 hjs => ?_⟩
  rw [hidx] at hij
  have hj := (afcIdx_lt hij).1
  rw [S.2 j (by rw [← S.1]; exact hj) hjs]
  exact h6 i j hij k k1 k2 k3

/-- **`AfcMsg`, spelled out for the Contact values** (the identities: the same with `pais`): `gs` has one entry per counted
    header line, the stored headers are entries of `gs`, and there is a monotone map `f` into the positions of `gs` with:
    line `f k` is a Contact line; stored value `k` has at least one byte and lies inside the `val` of line `f k`, stored
    or not; every Contact line is hit; and `HNo` is the number of Contact lines in `gs` -/
theorem AfcMsg.meaning {gs : List Hdr} {m : PSIPMsg} (h : AfcMsg gs m) :
    gs.length = m.hl.n ∧ (∀ j, j < m.hl.n → j < m.hl.hdrs.size → m.hl.hdrs[j]! = gs[j]!) ∧
    ((List.range gs.length).filter (fun j => gs[j]!.type == HdrContact)).length = m.pv.contacts.hNo ∧
    ∃ f : Nat → Nat, (∀ k k', k ≤ k' → k' < m.pv.contacts.n → f k ≤ f k') ∧
      (∀ k, k < m.pv.contacts.n → f k < gs.length ∧ gs[f k]!.type = HdrContact ∧
        (k < m.pv.contacts.vals.size → 0 < m.pv.contacts.vals[k]!.v.len ∧
          gs[f k]!.val.offs ≤ m.pv.contacts.vals[k]!.v.offs ∧
          m.pv.contacts.vals[k]!.v.offs + m.pv.contacts.vals[k]!.v.len ≤ gs[f k]!.val.offs + gs[f k]!.val.len)) ∧
      (∀ j, j < gs.length → gs[j]!.type = HdrContact → ∃ k, k < m.pv.contacts.n ∧ f k = j) := by
  obtain ⟨f, hm, hf, hon⟩ := h.contacts.map
  obtain ⟨cnt, c1, _⟩ := h.contacts
  refine ⟨h.stored.1, h.stored.2, c1, f, hm, fun k hk => ?_, hon⟩
  obtain ⟨a1, a2, a3⟩ := hf k hk
  exact ⟨a1, a2, fun hks => ⟨(a3 hks).1, (a3 hks).2.1, (a3 hks).2.2⟩⟩

/-! #### non-vacuity, and the refutation of wrong assignments when the header array overflows
  (closed computations by `decide +kernel`: tests / examples, not the general claims) -/

/-- test message: two Contact lines (2 + 1 values) and a CSeq line -/
def afcExBuf : Buf := "REGISTER sip:a@b SIP/2.0\r\nContact: <sip:a@b>, <sip:c@d>\r\nContact: <sip:e@f>\r\nCSeq: 1 REGISTER\r\n\r\n".toUTF8.data

/-- Init object: header array of ONE entry (it overflows), contact array of four -/
def afcExInit : PSIPMsg :=
  ({} : PSIPMsg).init 0 ((some ()).map fun _ => Array.replicate 1 {}) ((some ()).map fun _ => Array.replicate 4 {})

def afcExM : PSIPMsg := (parseSIPMsg afcExBuf 0 afcExInit 0).2.2

/-- **the hypothesis of `afc_values_pinned_init` is satisfiable** (non-vacuity) and the theorem applies to the test -/
theorem afcEx_msg : AfcMsg (afcMsgLines afcExBuf 0 afcExInit) afcExM := by
  have h : (parseSIPMsg afcExBuf 0 afcExInit 0).2.1 = .ok := by decide +kernel
  unfold afcExM
  rcases hp : parseSIPMsg afcExBuf 0 afcExInit 0 with ⟨o', e', m'⟩
  rw [hp] at h
  simp only at h
  subst h
  exact afc_values_pinned_init afcExBuf 0 {} 0 1 4 (some ()) (some ()) 0 (by decide +kernel) (Nat.zero_le _) hp

/-- test: what the objects look like.  Three lines accepted (Contact `val` = `[35, 55)`, Contact `[66, 75)`, CSeq), ONE
    stored; three contact values `[35, 44)`, `[46, 55)`, `[66, 75)`, all stored; `HNo` = 2 -/
theorem afcEx_facts :
    (afcMsgLines afcExBuf 0 afcExInit).map (fun h => (h.type, h.val.offs, h.val.len)) =
      [(HdrContact, 35, 20), (HdrContact, 66, 9), (HdrCSeq, 83, 10)] ∧
    afcExM.hl.n = 3 ∧ afcExM.hl.hdrs.size = 1 ∧ afcExM.pv.contacts.n = 3 ∧ afcExM.pv.contacts.hNo = 2 ∧
    afcExM.pv.contacts.vals.toList.map (fun f => (f.v.offs, f.v.len)) = [(35, 9), (46, 9), (66, 9), (0, 0)] ∧
    afcIdx HdrContact (afcMsgLines afcExBuf 0 afcExInit) = [0, 1] := by decide +kernel

/-- test: **the statement of PaiLines (`PlAssoc`) accepts the constant map** `f = HdrLst.N - 1` on this object: all three
    contact values "belong" to the CSeq line, because that line is not stored -/
theorem afcEx_old_accepts_const :
    (∀ k k', k ≤ k' → k' < afcExM.pv.contacts.n → (fun _ : Nat => afcExM.hl.n - 1) k ≤ (fun _ : Nat => afcExM.hl.n - 1) k') ∧
    ∀ k, k < afcExM.pv.contacts.n → (fun _ : Nat => afcExM.hl.n - 1) k < afcExM.hl.n ∧
      (k < afcExM.pv.contacts.vals.size → (fun _ : Nat => afcExM.hl.n - 1) k < afcExM.hl.hdrs.size →
        afcExM.hl.hdrs[(fun _ : Nat => afcExM.hl.n - 1) k]!.type = HdrContact ∧
        PlIn afcExM.hl.hdrs[(fun _ : Nat => afcExM.hl.n - 1) k]!.val afcExM.pv.contacts.vals[k]!.v) := by
  obtain ⟨_, h1, h2, _⟩ := afcEx_facts
  refine ⟨fun _ _ _ _ => Nat.le_refl _, fun k _ => ⟨?_, fun _ hh => ?_⟩⟩
  · show afcExM.hl.n - 1 < afcExM.hl.n
    omega
  · exfalso
    have hh' : afcExM.hl.n - 1 < afcExM.hl.hdrs.size := hh
    omega

/-- test: **the pinned statement (`AfcAssoc.map`) is satisfied by NO constant map** on this object -/
theorem afcEx_const_refuted (c : Nat) :
    ¬ (∀ k, k < afcExM.pv.contacts.n → c < (afcMsgLines afcExBuf 0 afcExInit).length ∧
        (afcMsgLines afcExBuf 0 afcExInit)[c]!.type = HdrContact ∧
        (k < afcExM.pv.contacts.vals.size →
          PlIn (afcMsgLines afcExBuf 0 afcExInit)[c]!.val afcExM.pv.contacts.vals[k]!.v)) := by
  intro h
  have hn : afcExM.pv.contacts.n = 3 := afcEx_facts.2.2.2.1
  have hs : afcExM.pv.contacts.vals.size = 4 := by decide +kernel
  have hlen : (afcMsgLines afcExBuf 0 afcExInit).length = 3 := by decide +kernel
  obtain ⟨a1, a2, a3⟩ := h 0 (by omega)
  obtain ⟨_, _, c3⟩ := h 2 (by omega)
  have a3' := a3 (by omega)
  have c3' := c3 (by omega)
  rw [hlen] at a1
  have hc : c = 0 ∨ c = 1 ∨ c = 2 := by omega
  rcases hc with rfl | rfl | rfl
  · revert c3'; unfold PlIn svInside; decide +kernel
  · revert a3'; unfold PlIn svInside; decide +kernel
  · revert a2; decide +kernel

/-- test: **wrong counts are refuted**: `[1, 2]` (second value assigned to the second, NOT stored, Contact line) does not
    satisfy `AfcBlocks` — the statement of HnoExact (`HxAssoc`) would not notice, the second line not being stored -/
theorem afcEx_wrong_counts_refuted :
    ¬ AfcBlocks HdrContact (afcMsgLines afcExBuf 0 afcExInit) afcExM.pv.contacts.vals [1, 2] := by
  intro h
  have := h 1 1 (by decide +kernel) 1 (by decide) (by decide) (by decide +kernel)
  revert this; unfold PlIn svInside; decide +kernel

/-- test: hence on this object the counts are DETERMINED: `[2, 1]` -/
theorem afcEx_counts_determined (cnt : List Nat) (h2 : cnt.length = afcExM.pv.contacts.hNo) (h3 : ∀ c ∈ cnt, 0 < c)
    (h4 : cnt.sum = afcExM.pv.contacts.n)
    (h5 : AfcBlocks HdrContact (afcMsgLines afcExBuf 0 afcExInit) afcExM.pv.contacts.vals cnt) : cnt = [2, 1] := by
  rw [afcEx_facts.2.2.2.2.1] at h2
  rw [afcEx_facts.2.2.2.1] at h4
  match cnt, h2 with
  | [a, c], _ =>
    have ha := h3 a (by simp)
    have hc := h3 c (by simp)
    simp only [List.sum_cons, List.sum_nil] at h4
    have : (a = 1 ∧ c = 2) ∨ (a = 2 ∧ c = 1) := by omega
    rcases this with ⟨rfl, rfl⟩ | ⟨rfl, rfl⟩
    · exact absurd h5 afcEx_wrong_counts_refuted
    · rfl

/-- a schedule for the test message: cut inside the first Contact value and inside the second Contact line -/
def afcExCuts : List Buf := [afcExBuf.extract 0 40, afcExBuf.extract 0 70, afcExBuf]

/-- non-vacuity of `afc_values_pinned_last` / `afc_values_pinned_schedule_init` (test: the chain of resumed calls ends with
    OK; the statement is relative to the accepted lines of the WHOLE buffer) and of `afc_msgLines_chain` -/
example : ∃ o' m', resumeRun (C01.msgP 0) 0 afcExInit afcExCuts = (o', .ok, m') ∧
    AfcMsg (afcMsgLines afcExBuf 0 afcExInit) m' := by
  have hg : Growing afcExCuts :=
    ⟨⟨afcExBuf.extract 40 70, by decide +kernel⟩, ⟨afcExBuf.extract 70 afcExBuf.size, by decide +kernel⟩, trivial⟩
  have hfit : ∀ x ∈ afcExCuts, x.size ≤ 65535 := by decide +kernel
  have he : (resumeRun (C01.msgP 0) 0 afcExInit afcExCuts).2.1 = .ok := by decide +kernel
  rcases hp : resumeRun (C01.msgP 0) 0 afcExInit afcExCuts with ⟨o', e', m'⟩
  rw [hp] at he
  simp only at he
  subst he
  exact ⟨o', m', rfl, afc_values_pinned_last 0 0 {} 0 1 4 (some ()) (some ()) afcExCuts hg hfit
    (fun _ _ => Nat.zero_le _) (B := afcExBuf) rfl hp⟩

example : ∃ e, HsChain afcExBuf (parseFLine afcExBuf 0 {}).1 (afcMsgLines afcExBuf 0 afcExInit) e := by
  have h : (parseSIPMsg afcExBuf 0 afcExInit 0).2.1 = .ok := by decide +kernel
  rcases hp : parseSIPMsg afcExBuf 0 afcExInit 0 with ⟨o', e', m'⟩
  rw [hp] at h
  simp only at h
  subst h
  obtain ⟨e, H, _⟩ := afc_msgLines_chain afcExBuf 0 {} 0 1 4 (some ()) (some ()) 0 (by decide +kernel) hp
  exact ⟨e, H⟩

/-! ## (S10) C17: the completions of a rejected / suspended parameter text, with the witness explicit -/

theorem afc_pvExt_size (st : TPState) : (pvExt st).size ≤ 4 := by
  cases st <;> decide

/-- **the text before a rejected byte is a proper prefix of a parameter of the grammar, witness explicit**: if `BadChar`
    is reported at `p`, then `p` is a position of the buffer and there are at most FIVE bytes `s` such that the buffer
    `b[0:p] ++ s` — which has the bytes of `b` below `p` — holds a parameter of the grammar `PSParam` at `o`, accepted
    with `EOH` -/
theorem afc_badChar_prefix_extends {b : Buf} {flags o p : Nat} (h : PVBad b flags o p) :
    ∃ s o' p', s.size ≤ 5 ∧ p < b.size ∧ PVAgree b (b.extract 0 p ++ s) p ∧
      PSParam (b.extract 0 p ++ s) flags {} o o' .eoh p' := by
  cases h with
  | byte st c hP hb hrej =>
    have hlt := get?_lt hb
    obtain ⟨hsz, hag⟩ := pv_agree_extract b p (by omega)
    have hP1 : PVAt (b.extract 0 p) flags o (b.extract 0 p).size st := by
      rw [hsz]; exact hP.pv_agree hag
    obtain ⟨o', p', H⟩ := pv_complete_at_end hP1
    refine ⟨pvExt st, o', p', by have := afc_pvExt_size st; omega, hlt, hag.trans ?_, H⟩
    have := PVAgree.append (b.extract 0 p) (pvExt st)
    rw [hsz] at this
    exact this
  | quoted q v0 c he hl h34 hpre hc hbad =>
    have hlt := get?_lt hc
    obtain ⟨hsz, hag⟩ := pv_agree_extract b p (by omega)
    have hag2 : PVAgree b (b.extract 0 p ++ #[34, 13, 10, 120]) p := by
      refine hag.trans ?_
      have := PVAgree.append (b.extract 0 p) #[34, 13, 10, 120]
      rw [hsz] at this
      exact this
    have hle := hpre.le
    have hl1 := hl.le
    have g : ∀ k, (b.extract 0 p ++ #[34, 13, 10, 120])[p + k]? = (#[34, 13, 10, 120] : Buf)[k]? := by
      intro k
      have := pv_get_app (b.extract 0 p) #[34, 13, 10, 120] k
      rw [hsz] at this
      exact this
    exact ⟨#[34, 13, 10, 120], _, _, by decide, hlt, hag2,
      (pv_complete_quoted (he.pv_agree (hag2.mono (by omega))) (hl.pv_agree (hag2.mono (by omega)))
        (hag2.get (by omega) h34) (hpre.pv_agree hag2) (g 0) ⟨g 1, g 2, g 3⟩).choose_spec⟩
  | quotedEsc q v0 m c he hl h34 hpre h92 hpm hc hcr =>
    subst hpm
    have hlt := get?_lt hc
    obtain ⟨hsz, hag⟩ := pv_agree_extract b (m + 1) (by omega)
    have hag2 : PVAgree b (b.extract 0 (m + 1) ++ #[97, 34, 13, 10, 120]) (m + 1) := by
      refine hag.trans ?_
      have := PVAgree.append (b.extract 0 (m + 1)) #[97, 34, 13, 10, 120]
      rw [hsz] at this
      exact this
    have hle := hpre.le
    have hl1 := hl.le
    have g : ∀ k, (b.extract 0 (m + 1) ++ #[97, 34, 13, 10, 120])[m + 1 + k]? =
        (#[97, 34, 13, 10, 120] : Buf)[k]? := by
      intro k
      have := pv_get_app (b.extract 0 (m + 1)) #[97, 34, 13, 10, 120] k
      rw [hsz] at this
      exact this
    have hpre2 := (hpre.pv_agree (hag2.mono (by omega))).pv_snoc_esc (hag2.get (by omega) h92) (g 0) (by decide)
    exact ⟨#[97, 34, 13, 10, 120], _, _, by decide, hlt, hag2,
      (pv_complete_quoted (he.pv_agree (hag2.mono (by omega)))
        (hl.pv_agree (hag2.mono (by omega))) (hag2.get (by omega) h34) hpre2 (g 1) ⟨g 2, g 3, g 4⟩).choose_spec⟩

/-- … from the call: `BadChar` at `p` on a new object -/
theorem afc_badChar_call_extends {b : Buf} {flags o p : Nat} {p' : PTokParam}
    (h : parseTokenParam b o {} flags = (p, .badChar, p')) :
    ∃ s o' p'', s.size ≤ 5 ∧ p < b.size ∧ PVAgree b (b.extract 0 p ++ s) p ∧
      PSParam (b.extract 0 p ++ s) flags {} o o' .eoh p'' :=
  afc_badChar_prefix_extends (tokparam_badChar_sound h)

/-- **a suspended text is a proper prefix of a parameter of the grammar, with the size of the witness**: if the call
    (no end-of-input option, start offset inside the buffer) returns `MoreBytes`, there are at most SIX bytes `s` such
    that `b ++ s` holds a parameter of the grammar `PSParam` at `o`, accepted with `EOH` -/
theorem afc_moreBytes_extends {b : Buf} {flags o r : Nat} {p' : PTokParam} (ho : o ≤ b.size)
    (hf : hasFlag flags POptInputEndF = false) (h : parseTokenParam b o {} flags = (r, .moreBytes, p')) :
    ∃ s o' p'', s.size ≤ 6 ∧ PSParam (b ++ s) flags {} o o' .eoh p'' := by
  have hr := (parseTokenParam_range b o {} flags hf ho h).2
  cases tokparam_moreBytes_sound h with
  | lws st q hP hnq hlw hend =>
    have hq := hlw.pv_le_size hr
    have hrq := hlw.le
    have hag := PVAgree.append b #[32]
    have hsz : (b ++ #[32]).size = b.size + 1 := by rw [Array.size_append]; rfl
    have hlw0 : Lws (b ++ #[32]) r (b ++ #[32]).size := by
      rw [hsz]
      exact (hlw.pv_agree (hag.mono hq)).ps_trans (pv_endTail_space hq hend)
    have hP0 : PVAt (b ++ #[32]) flags o (b ++ #[32]).size (pvNext st) :=
      (hP.pv_agree (hag.mono hr)).lws_next hlw0 (by omega) hnq
    obtain ⟨o', p'', H⟩ := pv_complete_at_end hP0
    refine ⟨#[32] ++ pvExt (pvNext st), o', p'', ?_, by rw [← Array.append_assoc]; exact H⟩
    have := afc_pvExt_size (pvNext st)
    rw [Array.size_append]
    show 1 + _ ≤ 6
    omega
  | quoted q v0 he hl h34 hpre hn =>
    have h1 := get?_none_ge hn
    have e : r = b.size := by omega
    subst e
    have hag := PVAgree.append b #[34, 13, 10, 120]
    have hle := hpre.le
    have hl1 := hl.le
    exact ⟨#[34, 13, 10, 120], _, _, by decide, (pv_complete_quoted (he.pv_agree (hag.mono (by omega)))
      (hl.pv_agree (hag.mono (by omega))) (hag.get (by omega) h34) (hpre.pv_agree hag) (pv_get_app b _ 0)
      ⟨pv_get_app b _ 1, pv_get_app b _ 2, pv_get_app b _ 3⟩).choose_spec⟩
  | quotedEsc q v0 he hl h34 hpre h92 hn =>
    have h1 := get?_none_ge hn
    have h2 := get?_lt h92
    have e : b.size = r + 1 := by omega
    have hag := PVAgree.append b #[97, 34, 13, 10, 120]
    have hle := hpre.le
    have hl1 := hl.le
    have g : ∀ k, (b ++ #[97, 34, 13, 10, 120])[r + 1 + k]? = (#[97, 34, 13, 10, 120] : Buf)[k]? := by
      intro k
      have := pv_get_app b #[97, 34, 13, 10, 120] k
      rw [e] at this
      exact this
    have hpre2 := (hpre.pv_agree (hag.mono (by omega))).pv_snoc_esc (hag.get (by omega) h92) (g 0) (by decide)
    exact ⟨#[97, 34, 13, 10, 120], _, _, by decide, (pv_complete_quoted (he.pv_agree (hag.mono (by omega)))
      (hl.pv_agree (hag.mono (by omega))) (hag.get (by omega) h34) hpre2 (g 1) ⟨g 2, g 3, g 4⟩).choose_spec⟩

/-- non-vacuity of `afc_badChar_call_extends` (`a b`: the second token is rejected at its first byte) and of
    `afc_moreBytes_extends` (unfinished white space) -/
example : ∃ s o' p'', s.size ≤ 5 ∧ 2 < "a b".toUTF8.data.size ∧ PVAgree "a b".toUTF8.data ("a b".toUTF8.data.extract 0 2 ++ s) 2 ∧
    PSParam ("a b".toUTF8.data.extract 0 2 ++ s) 0 {} 0 o' .eoh p'' := by
  have h1 : (parseTokenParam "a b".toUTF8.data 0 {} 0).1 = 2 ∧ (parseTokenParam "a b".toUTF8.data 0 {} 0).2.1 = .badChar := by
    decide +kernel
  rcases hr : parseTokenParam "a b".toUTF8.data 0 {} 0 with ⟨r, e, p'⟩
  rw [hr] at h1
  obtain ⟨h1, h2⟩ := h1
  simp only at h1 h2
  subst h1 h2
  exact afc_badChar_call_extends hr

example : ∃ s o' p'', s.size ≤ 6 ∧ PSParam ("a = b \r\n".toUTF8.data ++ s) 0 {} 0 o' .eoh p'' := by
  have h1 : (parseTokenParam "a = b \r\n".toUTF8.data 0 {} 0).2.1 = .moreBytes := by decide +kernel
  rcases hr : parseTokenParam "a = b \r\n".toUTF8.data 0 {} 0 with ⟨r, e, p'⟩
  rw [hr] at h1
  simp only at h1
  subst h1
  exact afc_moreBytes_extends (by decide) (by decide) hr

/-! ## (S9) C04 / C05: the schedule theorems stated on the LAST buffer of the schedule -/

/-- what is guaranteed about GetMsgSig on the final object of a chain of calls, against the last buffer `B` of the
    schedule: no panic on `B`, no panic and the same result on every extension of `B`, and — in the two end states
    GetMsgSig reads — the retained length `len(msg.Buf)` does not exceed `len(B)` -/
def AfcSigLast (B : Buf) (m' : PSIPMsg) : Prop :=
  (getMsgSig m' B).2.2 = false ∧
  (∀ s, (getMsgSig m' (B ++ s)).2.2 = false ∧ getMsgSig m' (B ++ s) = getMsgSig m' B) ∧
  (m'.state = .fin ∨ m'.state = .noCLen → m'.bufLen ≤ B.size)

/-- **[C04] every chunk schedule from any legitimate object, whatever verdict the chain ends with, stated on the last
    buffer `B` of the schedule** -/
theorem afc_sig_never_panics_last_from (flags : Nat) (o : Nat) (m : PSIPMsg) (l : List Buf)
    (hg : Growing l) (hfit : ∀ x ∈ l, x.size ≤ 65535) (hI : ScMsg m)
    (h0 : ∀ b ∈ l.head?, msgOK2 b o m ∧ MsgSafe b o m) {B : Buf} (hB : l.getLast? = some B) :
    AfcSigLast B (resumeRun (C01.msgP flags) o m l).2.2 := by
  have hne : l ≠ [] := by intro hh; rw [hh] at hB; cases hB
  have key : ∃ b ∈ l, SgSigFine b (resumeRun (C01.msgP flags) o m l).2.2 ∧
      ((resumeRun (C01.msgP flags) o m l).2.2.state = .fin ∨ (resumeRun (C01.msgP flags) o m l).2.2.state = .noCLen →
        (resumeRun (C01.msgP flags) o m l).2.2.bufLen ≤ b.size) := by
    refine resumeRun_post (C01.msgP flags) (fun b o m => msgOK2 b o m ∧ MsgSafe b o m ∧ ScMsg m)
      (fun b _ r => SgSigFine b r.2.2 ∧ (r.2.2.state = .fin ∨ r.2.2.state = .noCLen → r.2.2.bufLen ≤ b.size))
      (fun b => b.size ≤ 65535) ?_ (fun b o o' r _ q => q)
      o m l hg hfit hne (fun b hb => ⟨(h0 b hb).1, (h0 b hb).2, hI⟩)
    intro b o m hfit hInv
    obtain ⟨hok, hS, hI⟩ := hInv
    have hT := parseSIPMsg_safe b o m flags hfit hok hS
    have hsc := (sc_parseSIPMsg b o m flags hI).1
    refine ⟨⟨sg_sig_fine b o m flags hfit hI hok hS, fun hc => ?_⟩, fun hmb => ⟨hT.ge (Or.inr hmb), fun s => ?_⟩⟩
    · have hD := sg_complete_done b o m flags hfit hI hok hS hc
      show (parseSIPMsg b o m flags).2.2.bufLen ≤ b.size
      rw [hD.bufLen]; exact hD.le
    · show msgOK2 (b ++ s) (parseSIPMsg b o m flags).1 (parseSIPMsg b o m flags).2.2 ∧
        MsgSafe (b ++ s) (parseSIPMsg b o m flags).1 (parseSIPMsg b o m flags).2.2 ∧ ScMsg (parseSIPMsg b o m flags).2.2
      have hmb' : (parseSIPMsg b o m flags).2.1 = .moreBytes := hmb
      rcases hp : parseSIPMsg b o m flags with ⟨o1, e1, m1⟩
      rw [hp] at hmb' hT hsc
      simp only at hmb'
      subst hmb'
      have hr := parseSIPMsg_resume b s o m flags flags hok hfit hp
      exact ⟨hr.2.1, (hT.more rfl).grow (by rw [Array.size_append]; omega), hsc⟩
  obtain ⟨b, hb, hF, hlen⟩ := key
  obtain ⟨t, rfl⟩ := mlf_growing_last hg hB b hb
  refine ⟨hF.ext t, fun s => ?_, fun hc => ?_⟩
  · rw [Array.append_assoc]
    exact ⟨hF.ext _, by rw [hF.2 (t ++ s), hF.2 t]⟩
  · have := hlen hc
    rw [Array.size_append]; omega

/-- **[C04] every chunk schedule from Init, whatever verdict the chain ends with (OK, MoreBytes, NoCLen, any error),
    stated on the last buffer `B` of the schedule** (`l.getLast? = some B`): GetMsgSig on the final object does not
    panic against `B`, nor against any extension of `B`, with the same result; in the completed states
    `len(msg.Buf) ≤ len(B)` -/
theorem afc_sig_never_panics_last (flags : Nat) (o : Nat) (m0 : PSIPMsg) (len kh kc : Nat)
    (hdrs cts : Option Unit) (l : List Buf) (hg : Growing l) (hfit : ∀ x ∈ l, x.size ≤ 65535)
    (ho : ∀ b ∈ l, o ≤ b.size) {B : Buf} (hB : l.getLast? = some B) {o' : Nat} {e : Err} {m' : PSIPMsg}
    (hr : resumeRun (C01.msgP flags) o
      (m0.init len (hdrs.map fun _ => Array.replicate kh {}) (cts.map fun _ => Array.replicate kc {})) l = (o', e, m')) :
    AfcSigLast B m' := by
  have h0 : ∀ b ∈ l.head?, o ≤ b.size := by
    intro b hb
    cases l with
    | nil => cases hb
    | cons x xs => simp at hb; subst hb; exact ho _ List.mem_cons_self
  have := afc_sig_never_panics_last_from flags o _ l hg hfit (ScMsg_init m0 len kh kc hdrs cts)
    (fun b hb => ⟨msgOK2_init b o (h0 b hb) m0 len kh kc hdrs cts, MsgSafe_init b o (h0 b hb) m0 len kh kc hdrs cts⟩) hB
  rw [hr] at this
  exact this

theorem afc_HxNL_app {b : Buf} {i : Nat} (h : HxNL b i) (t : Buf) : HxNL (b ++ t) i := by
  obtain ⟨c, h1, h2, h3⟩ := h
  exact ⟨c, h1, get?_app h2, h3⟩

theorem afc_HxTrC_app {b : Buf} {e : Err} {v : PField} (h : HxTrC b e v) (t : Buf) : HxTrC (b ++ t) e v := by
  rcases h with h | ⟨h1, h2, j, c0, a1, a2, a3, a4, a5⟩
  · exact Or.inl (afc_HxNL_app h t)
  · refine Or.inr ⟨h1, get?_app h2, j, c0, a1, get?_app a2, a3, a4, fun k k1 k2 => ?_⟩
    obtain ⟨c', q1, q2⟩ := a5 k k1 k2
    exact ⟨c', get?_app q1, q2⟩

/-- **[C05] trimming under every chunk schedule from Init, stated on the last buffer `B` of the schedule**: if the chain
    ends with OK, then — reading the bytes in `B` — the From and To values (if parsed) do not end with white space,
    every stored Contact / identity value does not end with white space except in the one shape of `HxTrC`; the
    message is complete and `len(msg.Buf)` = the returned offset `≤ len(B)` -/
theorem afc_msg_trim_last (flags : Nat) (o : Nat) (m0 : PSIPMsg) (len kh kc : Nat)
    (hdrs cts : Option Unit) (l : List Buf) (hg : Growing l) (hfit : ∀ x ∈ l, x.size ≤ 65535)
    (ho : ∀ b ∈ l, o ≤ b.size) {B : Buf} (hB : l.getLast? = some B) {o' : Nat} {m' : PSIPMsg}
    (hr : resumeRun (C01.msgP flags) o
      (m0.init len (hdrs.map fun _ => Array.replicate kh {}) (cts.map fun _ => Array.replicate kc {})) l = (o', .ok, m')) :
    (m'.pv.from_.parsed = true → HxNL B (m'.pv.from_.v.offs + m'.pv.from_.v.len)) ∧
    (m'.pv.to.parsed = true → HxNL B (m'.pv.to.v.offs + m'.pv.to.v.len)) ∧
    (∀ k, k < m'.pv.contacts.n → k < m'.pv.contacts.vals.size → HxTrC B .moreValues m'.pv.contacts.vals[k]!.v) ∧
    (∀ k, k < m'.pv.pais.n → k < m'.pv.pais.vals.size → HxTrC B .moreValues m'.pv.pais.vals[k]!.v) ∧
    m'.bufLen = o' ∧ o' ≤ B.size := by
  have hne : l ≠ [] := by intro hh; rw [hh] at hB; cases hB
  obtain ⟨b, hb, h⟩ := flo_schedule_init flags o m0 len kh kc hdrs cts l hg hfit hne ho hr
  obtain ⟨q1, q2, q3, q4⟩ := hx_msg_trim_init b o m0 len kh kc hdrs cts flags (hfit b hb) (ho b hb) h
  have hD := sg_parseSIPMsg_done_ok b o _ flags (hfit b hb) (ScMsg_init m0 len kh kc hdrs cts)
    (msgOK2_init b o (ho b hb) m0 len kh kc hdrs cts) (MsgSafe_init b o (ho b hb) m0 len kh kc hdrs cts)
    (by rw [h])
  rw [h] at hD
  obtain ⟨t, rfl⟩ := mlf_growing_last hg hB b hb
  refine ⟨fun hp => afc_HxNL_app (q1 hp) t, fun hp => afc_HxNL_app (q2 hp) t,
    fun k k1 k2 => afc_HxTrC_app (q3 k k1 k2) t, fun k k1 k2 => afc_HxTrC_app (q4 k k1 k2) t, hD.bufLen, ?_⟩
  have := hD.le
  rw [Array.size_append]
  exact Nat.le_trans this (Nat.le_add_right _ _)

/-- non-vacuity of `afc_sig_never_panics_last`: the schedule of SigGuardSafe (message cut after 50 and 100 bytes, ends
    with NoCLen); `B` is the whole message -/
example : AfcSigLast sgTestNoCL (resumeRun (C01.msgP 3) 0 sgTestInit sgTestCuts).2.2 :=
  afc_sig_never_panics_last 3 0 {} 0 0 0 none none sgTestCuts sgTestCuts_growing sgTestCuts_fit
    (fun _ _ => Nat.zero_le _) (B := sgTestNoCL) rfl
    (o' := (resumeRun (C01.msgP 3) 0 sgTestInit sgTestCuts).1)
    (e := (resumeRun (C01.msgP 3) 0 sgTestInit sgTestCuts).2.1) rfl

/-- a schedule for the trimming test message of HnoExact: cut inside the Contact value and before the CSeq line -/
def afcTrimCuts : List Buf := [hxTrimMsg.extract 0 40, hxTrimMsg.extract 0 62, hxTrimMsg]

/-- non-vacuity of `afc_msg_trim_last` (test: the chain ends with OK) -/
example : ∃ o' m', resumeRun (C01.msgP 0) 0 (({} : PSIPMsg).init 0 ((some ()).map fun _ => Array.replicate 4 {})
      ((some ()).map fun _ => Array.replicate 4 {})) afcTrimCuts = (o', .ok, m') ∧
    (∀ k, k < m'.pv.contacts.n → k < m'.pv.contacts.vals.size → HxTrC hxTrimMsg .moreValues m'.pv.contacts.vals[k]!.v) ∧
    m'.bufLen = o' ∧ o' ≤ hxTrimMsg.size := by
  have hg : Growing afcTrimCuts :=
    ⟨⟨hxTrimMsg.extract 40 62, by decide +kernel⟩, ⟨hxTrimMsg.extract 62 hxTrimMsg.size, by decide +kernel⟩, trivial⟩
  have hfit : ∀ x ∈ afcTrimCuts, x.size ≤ 65535 := by decide +kernel
  have he : (resumeRun (C01.msgP 0) 0 (({} : PSIPMsg).init 0 ((some ()).map fun _ => Array.replicate 4 {})
      ((some ()).map fun _ => Array.replicate 4 {})) afcTrimCuts).2.1 = .ok := by decide +kernel
  rcases hp : resumeRun (C01.msgP 0) 0 (({} : PSIPMsg).init 0 ((some ()).map fun _ => Array.replicate 4 {})
      ((some ()).map fun _ => Array.replicate 4 {})) afcTrimCuts with ⟨o', e', m'⟩
  rw [hp] at he
  simp only at he
  subst he
  have := afc_msg_trim_last 0 0 {} 0 4 4 (some ()) (some ()) afcTrimCuts hg hfit (fun _ _ => Nat.zero_le _)
    (B := hxTrimMsg) rfl hp
  exact ⟨o', m', rfl, this.2.2.1, this.2.2.2.2.1, this.2.2.2.2.2⟩

/-! ## (S8) C09: `rc_msg_lists_init` and its schedule forms, keeping the first-line conjunct of `rc_msg_lists` -/

theorem afc_init_fl (m0 : PSIPMsg) (len kh kc : Nat) (hdrs cts : Option Unit) :
    (m0.init len (hdrs.map fun _ => Array.replicate kh {}) (cts.map fun _ => Array.replicate kc {})).fl = {} := by
  cases hdrs <;> cases cts <;> rfl

/-- **ONE call of ParseSIPMsg on an object produced by Init, with the first line**: the statement of `rc_msg_lists_init`,
    and `o1` — where the header block starts — is the offset ParseFLine (run on a new first-line object at `o`)
    returns with the verdict OK -/
theorem afc_msg_lists_init (b : Buf) (o : Nat) (m0 : PSIPMsg) (len kh kc : Nat) (hdrs cts : Option Unit)
    (flags : Nat) (hfit : b.size ≤ 65535) {o' : Nat} {m' : PSIPMsg}
    (hr : parseSIPMsg b o (m0.init len (hdrs.map fun _ => Array.replicate kh {}) (cts.map fun _ => Array.replicate kc {}))
      flags = (o', .ok, m')) :
    ∃ o1 e hs evs, (parseFLine b o {}).1 = o1 ∧ (parseFLine b o {}).2.1 = .ok ∧ hs ≠ [] ∧
      RcBlock b o1 (afbNewHv (rcCap cts kc)) hs evs e m'.pv ∧
      m'.hl = ((hsNew (rcCap hdrs kh)).acceptAll hs).setCur { state := .fin } ∧
      m'.pv.contacts =
        ({ vals := Array.replicate (rcCap cts kc) {} } : PContacts).htLines (rcCtOf evs) ∧
      m'.pv.pais = ({} : PPAIs).htLines (rcPaOf evs) := by
  obtain ⟨q1, q2, q3⟩ := rc_init_lists m0 len kh kc hdrs cts
  obtain ⟨o1, e, hs, evs, f1, f2, hne, H, hl⟩ := rc_msg_lists b o _ flags hfit q1
    (by rw [q2]; exact (hsNew_ok _).1) (by rw [q2]; exact (hsNew_ok _).2) (by rw [q2]; rfl)
    (by rw [q3]; exact rc_newHv_ready _) hr
  rw [q3] at H
  rw [q2] at hl
  rw [afc_init_fl] at f1 f2
  exact ⟨o1, e, hs, evs, f1, f2, hne, H, hl, H.lists.1, H.lists.2⟩

/-- **ParseSIPMsg from Init over EVERY chunk schedule, with the first line** (in the buffer `b` of the call that
    finished, a prefix of the last buffer `B`) -/
theorem afc_msg_lists_schedule_init (flags : Nat) (o : Nat) (m0 : PSIPMsg) (len kh kc : Nat)
    (hdrs cts : Option Unit) (l : List Buf) (hg : Growing l) (hfit : ∀ x ∈ l, x.size ≤ 65535) (B : Buf)
    (hB : l.getLast? = some B) (ho : ∀ b ∈ l, o ≤ b.size) {o' : Nat} {m' : PSIPMsg}
    (hr : resumeRun (C01.msgP flags) o
      (m0.init len (hdrs.map fun _ => Array.replicate kh {}) (cts.map fun _ => Array.replicate kc {})) l = (o', .ok, m')) :
    ∃ b ∈ l, (∃ t, B = b ++ t) ∧ ∃ o1 e hs evs, (parseFLine b o {}).1 = o1 ∧ (parseFLine b o {}).2.1 = .ok ∧ hs ≠ [] ∧
      RcBlock b o1 (afbNewHv (rcCap cts kc)) hs evs e m'.pv ∧
      m'.hl = ((hsNew (rcCap hdrs kh)).acceptAll hs).setCur { state := .fin } ∧
      m'.pv.contacts =
        ({ vals := Array.replicate (rcCap cts kc) {} } : PContacts).htLines (rcCtOf evs) ∧
      m'.pv.pais = ({} : PPAIs).htLines (rcPaOf evs) := by
  have hne : l ≠ [] := by intro h; rw [h] at hB; cases hB
  obtain ⟨b, hb, h⟩ := flo_schedule_init flags o m0 len kh kc hdrs cts l hg hfit hne ho hr
  exact ⟨b, hb, mlf_growing_last hg hB b hb, afc_msg_lists_init b o m0 len kh kc hdrs cts flags (hfit b hb) h⟩

/-- **… stated in the WHOLE buffer `B`, with the first line**: ParseFLine on `B` itself (new first-line object, offset
    `o`) says OK at `o1`, and `RcBlock B o1 …` -/
theorem afc_msg_lists_schedule_whole (flags : Nat) (o : Nat) (m0 : PSIPMsg) (len kh kc : Nat)
    (hdrs cts : Option Unit) (l : List Buf) (hg : Growing l) (hfit : ∀ x ∈ l, x.size ≤ 65535) (B : Buf)
    (hB : l.getLast? = some B) (ho : ∀ b ∈ l, o ≤ b.size) {o' : Nat} {m' : PSIPMsg}
    (hr : resumeRun (C01.msgP flags) o
      (m0.init len (hdrs.map fun _ => Array.replicate kh {}) (cts.map fun _ => Array.replicate kc {})) l = (o', .ok, m')) :
    ∃ o1 e hs evs, (parseFLine B o {}).1 = o1 ∧ (parseFLine B o {}).2.1 = .ok ∧ hs ≠ [] ∧
      RcBlock B o1 (afbNewHv (rcCap cts kc)) hs evs e m'.pv ∧
      m'.hl = ((hsNew (rcCap hdrs kh)).acceptAll hs).setCur { state := .fin } ∧
      m'.pv.contacts = ({ vals := Array.replicate (rcCap cts kc) {} } : PContacts).htLines (rcCtOf evs) ∧
      m'.pv.pais = ({} : PPAIs).htLines (rcPaOf evs) := by
  obtain ⟨b, hb, ⟨t, rfl⟩, o1, e, hs, evs, f1, f2, q1, q2, q3, q4, q5⟩ :=
    afc_msg_lists_schedule_init flags o m0 len kh kc hdrs cts l hg hfit B hB ho hr
  rcases hp : parseFLine b o {} with ⟨a1, a2, a3⟩
  rw [hp] at f1 f2
  simp only at f1 f2
  subst f1 f2
  have hst := parseFLine_stable b t o {} (by unfold flOK; decide) (hfit b hb) hp (by decide)
  exact ⟨_, e, hs, evs, by rw [hst], by rw [hst], q1, q2.app t, q3, q4, q5⟩

/-- non-vacuity of `afc_msg_lists_schedule_whole`: the schedule of ResumedConverse (message cut inside a quoted string
    and inside the From tag); the first line of the whole message ends at 24 -/
example : ∃ e hs evs hv', (parseFLine rcExM 0 {}).1 = 24 ∧ (parseFLine rcExM 0 {}).2.1 = .ok ∧
    RcBlock rcExM 24 (afbNewHv 1) hs evs e hv' := by
  have hr := mlf_triple_eta _ rcExM_run.2.2.1 rcExM_run.2.2.2.1
  obtain ⟨o1, e, hs, evs, f1, f2, _, H, _⟩ :=
    afc_msg_lists_schedule_whole 0 0 {} 0 3 1 (some ()) (some ()) rcExMCuts rcExMCuts_growing
      (by intro x hx; simp [rcExMCuts] at hx; rcases hx with rfl | rfl | rfl <;> decide) rcExM rfl
      (fun _ _ => Nat.zero_le _) hr
  have h24 : (parseFLine rcExM 0 {}).1 = 24 := by decide +kernel
  rw [h24] at f1
  subst f1
  exact ⟨e, hs, evs, _, h24, f2, H⟩

/-! ## (S4) C07: soundness of an accepted header block, the generic-treatment hypothesis restricted to the line starts
  INSIDE the accepted block `[o, e)` -/

/-- the generic treatment, restricted to `[o, e)`: no values object, or no line of the text that starts at `o` or after a
    CR / LF at a position BELOW `e` carries one of the eight typed names (`HsGeneric` asks this of every line start of
    the whole buffer) -/
def AfcGenericIn (b : Buf) (o e : Nat) (hb : Option PHdrVals) : Prop :=
  hb = none ∨ ∀ o', HsLineStart b o o' → o' < e → IsOther (getHdrType (b.extract o' (skipTokenDelim b o' 58)))

theorem HsGeneric.afc_in {b : Buf} {o : Nat} {hb : Option PHdrVals} (h : HsGeneric b o hb) (e : Nat) :
    AfcGenericIn b o e hb := by
  rcases h with h | h
  · exact Or.inl h
  · exact Or.inr (fun o' ho' _ => h o' ho')

theorem AfcGenericIn.next {b : Buf} {o e1 e : Nat} {hb : Option PHdrVals} {h : Hdr} (hg : AfcGenericIn b o e hb)
    (H : HdrLineAt b o e1 h) : AfcGenericIn b e1 e hb := by
  rcases hg with hg | hg
  · exact Or.inl hg
  · refine Or.inr (fun o' ho' hlt => hg o' ?_ hlt)
    obtain ⟨hlt1, hc⟩ := hs_lineAt_last H
    rcases ho' with rfl | ⟨h1, h2⟩
    · exact Or.inr ⟨hlt1, hc⟩
    · exact Or.inr ⟨by omega, h2⟩

theorem afc_block_lt {b : Buf} {o e : Nat} {hs : List Hdr} (H : HdrBlock b o hs e) : o < e := by
  induction H with
  | nil o e he => cases he <;> omega
  | cons o e1 e h hs hline _ ih => have := hline.gt.1; omega

/-- in a block none of whose lines (line starts below its end) carries a typed name, every header is of a generic type -/
theorem afc_block_generic {b : Buf} {o e : Nat} {hs : List Hdr} (H : HdrBlock b o hs e) {hb : Option PHdrVals}
    (hg : AfcGenericIn b o e hb) : hb = none ∨ ∀ h ∈ hs, IsOther h.type := by
  induction H with
  | nil o e _ => exact Or.inr (fun h hh => by cases hh)
  | cons o e1 e h hs hline H2 ih =>
    rcases hg with hn | hg'
    · exact Or.inl hn
    · rcases ih (AfcGenericIn.next (Or.inr hg') hline) with hn | hrest
      · exact Or.inl hn
      · refine Or.inr (fun x hx => ?_)
        rcases List.mem_cons.mp hx with rfl | hx
        · rw [(hs_lineAt_type hline).1]
          have := afc_block_lt H2
          exact hg' o (Or.inl rfl) (by have := hline.gt.1; omega)
        · exact hrest x hx

/-- the induction, re-run with the restricted hypothesis: an accepted text is a block of the grammar -/
theorem afc_block_of_ok (b : Buf) (hb : Option PHdrVals) (hfit : b.size ≤ 65535) :
    ∀ (k o : Nat) (hl : HdrLst), b.size - o = k → HlsClean hl → hl.cur = {} →
      ∀ {e : Nat} {er : Err} {hl' : HdrLst} {hb' : Option PHdrVals},
        parseHeaders b o hl hb = (e, er, hl', hb') → (er = .ok ∨ er = .empty) → AfcGenericIn b o e hb →
        ∃ hs, HdrBlock b o hs e := by
  intro k
  induction k using Nat.strongRecOn with
  | _ k ih =>
    intro o hl hk hc hcur e er hl' hb' hr her hg
    obtain ⟨hs0, Hch, _, _⟩ := hs_block_names_all b hfit k o hl hb hk hc hcur hr her
    have hoe : o < e := Hch.length_pos
    have hhere : hb = none ∨ IsOther (getHdrType (b.extract o (skipTokenDelim b o 58))) := by
      rcases hg with h | h
      · exact Or.inl h
      · exact Or.inr (h o (Or.inl rfl) hoe)
    rw [parseHeaders] at hr
    by_cases hlt : o < b.size
    · rw [if_pos hlt, hcur] at hr
      have hcases := hs_parseHdrLine_cases b o hb hfit hhere
      rcases hp : parseHdrLine b o {} hb with ⟨n, e1, h, hb1⟩
      rw [hp] at hcases hr
      rcases hcases with ⟨h1, hline, h2⟩ | ⟨h1, hempty, _, _⟩ | h1 | h1
      · have h1' : e1 = .ok := h1
        have h2' : hb1 = hb := h2
        subst h1' h2'
        have hgt := hline.gt
        simp only at hr
        rw [if_pos hgt.1] at hr
        have hcl := accept_clean hl h hc
        obtain ⟨hs, H⟩ := ih (b.size - n) (by omega) n _ rfl hcl.1 hcl.2 hr her (hg.next hline)
        exact ⟨h :: hs, HdrBlock.cons o n e h hs hline H⟩
      · have h1' : e1 = .empty := h1
        subst h1'
        simp only at hr
        have hen : n = e := by
          by_cases hn : hl.n > 0
          · rw [if_pos hn] at hr; cases hr; rfl
          · rw [if_neg hn] at hr; cases hr; rfl
        subst hen
        exact ⟨[], HdrBlock.nil o n hempty⟩
      · have h1' : e1 = .moreBytes := h1
        subst h1'
        cases hr
        rcases her with h | h <;> cases h
      · have h1' : e1 = .badChar := h1
        subst h1'
        cases hr
        rcases her with h | h <;> cases h
    · rw [if_neg hlt] at hr
      cases hr
      rcases her with h | h <;> cases h

/-- **(2) soundness of an accepted block, hypothesis restricted to the accepted block**: if ParseHeaders ends with OK
    (or "empty") at `e`, and no line start of `[o, e)` carries a typed name (or there is no values object), then `[o, e)`
    is a block of the grammar and the list object is exactly what accepting its headers, in order, produces; the values
    object is untouched.  Nothing is assumed about the bytes from `e` on. -/
theorem afc_block_sound_in (b : Buf) (o : Nat) (hl : HdrLst) (hb : Option PHdrVals) (hfit : b.size ≤ 65535)
    (hc : HlsClean hl) (hcur : hl.cur = {}) {e : Nat} {er : Err} {hl' : HdrLst} {hb' : Option PHdrVals}
    (hr : parseHeaders b o hl hb = (e, er, hl', hb')) (her : er = .ok ∨ er = .empty) (hg : AfcGenericIn b o e hb) :
    ∃ hs, HdrBlock b o hs e ∧ hl' = (hl.acceptAll hs).setCur { state := .fin } ∧ hb' = hb ∧
      er = (if (hl.acceptAll hs).n > 0 then Err.ok else Err.empty) := by
  obtain ⟨hs, H⟩ := afc_block_of_ok b hb hfit (b.size - o) o hl rfl hc hcur hr her hg
  have := parseHeaders_block b hb hfit H hl hc hcur (afc_block_generic H hg)
  rw [hr] at this
  cases this
  exact ⟨hs, H, rfl, rfl, rfl⟩

/-- **ParseHeaders (new list object of any capacity) accepts at `e` iff `[o, e)` is a non-empty block of the grammar** —
    for every `e` such that no line start of `[o, e)` carries a typed name (or without a values object) -/
theorem afc_block_ok_iff_in (b : Buf) (o k : Nat) (hb : Option PHdrVals) (hfit : b.size ≤ 65535) (e : Nat)
    (hg : AfcGenericIn b o e hb) (hl' : HdrLst) (hb' : Option PHdrVals) :
    parseHeaders b o (hsNew k) hb = (e, .ok, hl', hb') ↔
      ∃ hs, hs ≠ [] ∧ HdrBlock b o hs e ∧ hl' = ((hsNew k).acceptAll hs).setCur { state := .fin } ∧ hb' = hb := by
  have hnew := hsNew_ok k
  constructor
  · intro hr
    obtain ⟨hs, H, h1, h2, h3⟩ := afc_block_sound_in b o (hsNew k) hb hfit hnew.1 hnew.2 hr (Or.inl rfl) hg
    refine ⟨hs, ?_, H, h1, h2⟩
    intro hnil
    subst hnil
    have : ((hsNew k).acceptAll []).n = 0 := hs_new_count k []
    rw [this] at h3
    simp at h3
  · rintro ⟨hs, hne, H, rfl, rfl⟩
    have := parseHeaders_block b hb' hfit H (hsNew k) hnew.1 hnew.2 (afc_block_generic H hg)
    rw [this, hs_new_count]
    have : hs.length > 0 := by
      cases hs with
      | nil => exact absurd rfl hne
      | cons _ _ => simp
    rw [if_pos this]

/-- **`block_sound` over EVERY chunk schedule, hypothesis restricted to the accepted block** of the whole buffer `B` -/
theorem afc_block_sound_schedule_from (o kh : Nat) (hb : Option PHdrVals) (l : List Buf) (hg : Growing l) (B : Buf)
    (hB : l.getLast? = some B) (hfit : B.size ≤ 65535) (hok : ∀ x ∈ l, o ≤ x.size ∧ hbOK x o hb)
    {e : Nat} {er : Err} {hl' : HdrLst} {hb' : Option PHdrVals}
    (hr : resumeRun afbHeadersP o (hsNew kh, hb) l = (e, er, hl', hb')) (her : er = .ok ∨ er = .empty)
    (hgen : AfcGenericIn B o e hb) :
    ∃ hs, HdrBlock B o hs e ∧ hl' = ((hsNew kh).acceptAll hs).setCur { state := .fin } ∧ hb' = hb ∧
      er = (if ((hsNew kh).acceptAll hs).n > 0 then Err.ok else Err.empty) := by
  have h1 := rc_headers_last_from o kh hb l hg B hB hok (by
    rw [hr]; rcases her with h | h
    · exact Or.inl h
    · exact Or.inr (Or.inr (Or.inr h)))
  rw [hr] at h1
  exact afc_block_sound_in B o (hsNew kh) hb hfit (hsNew_ok kh).1 (hsNew_ok kh).2 h1.symm her hgen

theorem afc_block_sound_schedule (o kh kc : Nat) (nil : Bool) (l : List Buf) (hg : Growing l) (B : Buf)
    (hB : l.getLast? = some B) (hfit : B.size ≤ 65535) (h0 : ∀ b ∈ l.head?, o ≤ b.size)
    {e : Nat} {er : Err} {hl' : HdrLst} {hb' : Option PHdrVals}
    (hr : resumeRun afbHeadersP o (hsNew kh, rcHb nil kc) l = (e, er, hl', hb')) (her : er = .ok ∨ er = .empty)
    (hgen : AfcGenericIn B o e (rcHb nil kc)) :
    ∃ hs, HdrBlock B o hs e ∧ hl' = ((hsNew kh).acceptAll hs).setCur { state := .fin } ∧ hb' = rcHb nil kc ∧
      er = (if ((hsNew kh).acceptAll hs).n > 0 then Err.ok else Err.empty) :=
  afc_block_sound_schedule_from o kh _ l hg B hB hfit (rc_hbOK_all o kc nil hg h0) hr her hgen

/-- **the chain accepts at `e` iff `[o, e)` of the whole buffer is a non-empty block of the grammar**, for every `e` such
    that no line start of `[o, e)` carries a typed name -/
theorem afc_block_ok_iff_schedule (o kh kc : Nat) (nil : Bool) (l : List Buf) (hg : Growing l) (B : Buf)
    (hB : l.getLast? = some B) (hfit : B.size ≤ 65535) (h0 : ∀ b ∈ l.head?, o ≤ b.size)
    (e : Nat) (hgen : AfcGenericIn B o e (rcHb nil kc)) (hl' : HdrLst) (hb' : Option PHdrVals) :
    resumeRun afbHeadersP o (hsNew kh, rcHb nil kc) l = (e, .ok, hl', hb') ↔
      ∃ hs, hs ≠ [] ∧ HdrBlock B o hs e ∧ hl' = ((hsNew kh).acceptAll hs).setCur { state := .fin } ∧
        hb' = rcHb nil kc := by
  have hok := rc_hbOK_all o kc nil hg h0
  constructor
  · intro hr
    have h1 := rc_headers_last_from o kh _ l hg B hB hok (by rw [hr]; exact Or.inl rfl)
    rw [hr] at h1
    exact (afc_block_ok_iff_in B o kh _ hfit e hgen hl' hb').mp h1.symm
  · intro H
    exact rc_headers_of_oneshot_from o kh _ l hg B hB hok
      ((afc_block_ok_iff_in B o kh _ hfit e hgen hl' hb').mpr H) (Or.inl rfl)

/-- **what a block accepted by a chain reports**, hypothesis restricted to the accepted block -/
theorem afc_block_report_schedule (o kh kc : Nat) (nil : Bool) (l : List Buf) (hg : Growing l) (B : Buf)
    (hB : l.getLast? = some B) (hfit : B.size ≤ 65535) (h0 : ∀ b ∈ l.head?, o ≤ b.size)
    {e : Nat} {hl' : HdrLst} {hb' : Option PHdrVals}
    (hr : resumeRun afbHeadersP o (hsNew kh, rcHb nil kc) l = (e, .ok, hl', hb'))
    (hgen : AfcGenericIn B o e (rcHb nil kc)) :
    ∃ hs, hs ≠ [] ∧ HdrBlock B o hs e ∧ hb' = rcHb nil kc ∧ hl'.n = hs.length ∧ hl'.hdrs.size = kh ∧
      (∀ j (hj : j < hs.length), j < kh → hl'.hdrs[j]! = hs[j]) ∧
      (∀ t, t < 16 → hl'.pflags.testBit t = hs.any (fun h => h.type == t)) ∧
      (∀ j, j < 13 → hl'.h[j]! = (match hs.find? (fun h => h.type == j + 1) with | some h => h | none => {})) := by
  obtain ⟨hs, hne, H, rfl, rfl⟩ := (afc_block_ok_iff_schedule o kh kc nil l hg B hB hfit h0 e hgen hl' hb').mp hr
  obtain ⟨r1, r2, r3, r4, r5⟩ := hs_new_report kh hs
  exact ⟨hs, hne, H, rfl, r1, r2, r3, r4, r5⟩

/-- test text: the demo block of HdrSound (`Q :z`, `W:`, empty line; `[0, 12)`) followed by a body whose first line
    starts with the typed name `From` -/
def afcExG : Buf := "Q :z\r\nW:\r\n\r\nFrom: x\r\n".toUTF8.data

/-- test: the hypothesis of the existing theorems (`HsGeneric` of the WHOLE buffer, values object present) FAILS on this
    text — the line start 12, after the block, carries a typed name -/
theorem afcExG_not_generic : ¬ HsGeneric afcExG 0 (some {}) := by
  rintro (h | h)
  · cases h
  · have := h 12 (Or.inr ⟨by omega, 10, by decide +kernel, by decide⟩)
    have ht : getHdrType (afcExG.extract 12 (skipTokenDelim afcExG 12 58)) = HdrFrom := by decide +kernel
    rw [ht] at this
    revert this
    unfold IsOther
    decide

/-- non-vacuity: the restricted hypothesis holds for the accepted block `[0, 12)`, any values object -/
theorem afcExG_generic_in (hv : PHdrVals) : AfcGenericIn afcExG 0 12 (some hv) := by
  refine Or.inr (fun o' _ hlt => ?_)
  have all : ∀ o', o' < 12 → getHdrType (afcExG.extract o' (skipTokenDelim afcExG o' 58)) = 14 := by
    decide +kernel
  rw [all o' hlt]
  unfold IsOther
  decide

/-- test / non-vacuity of `afc_block_sound_in`: one call with a values object accepts `[0, 12)`, hence it is a block of
    the grammar — although `HsGeneric` fails -/
example : ∃ hs, hs ≠ [] ∧ HdrBlock afcExG 0 hs 12 := by
  have h1 : (parseHeaders afcExG 0 (hsNew 1) (some {})).1 = 12 := by decide +kernel
  have h2 : (parseHeaders afcExG 0 (hsNew 1) (some {})).2.1 = .ok := by decide +kernel
  rcases h : parseHeaders afcExG 0 (hsNew 1) (some {}) with ⟨e, er, hl', hb'⟩
  rw [h] at h1 h2
  simp only at h1 h2
  subst h1
  subst h2
  obtain ⟨hs, hne, H, _⟩ := (afc_block_ok_iff_in afcExG 0 1 (some {}) (by decide +kernel) 12 (afcExG_generic_in {}) hl' hb').mp h
  exact ⟨hs, hne, H⟩

/-- cuts of that text: inside the first name / white space, inside the second line, inside the final empty line -/
def afcExGCuts : List Buf := [afcExG.extract 0 2, afcExG.extract 0 7, afcExG.extract 0 11, afcExG]

/-- non-vacuity of `afc_block_sound_schedule` / `afc_block_ok_iff_schedule` (values object present: `rcHb false 0`) -/
example : ∃ hs, hs ≠ [] ∧ HdrBlock afcExG 0 hs 12 := by
  have hg : Growing afcExGCuts :=
    ⟨⟨afcExG.extract 2 7, by decide +kernel⟩, ⟨afcExG.extract 7 11, by decide +kernel⟩,
     ⟨afcExG.extract 11 afcExG.size, by decide +kernel⟩, trivial⟩
  have hrun : (resumeRun afbHeadersP 0 (hsNew 1, rcHb false 0) afcExGCuts).1 = 12 ∧
      (resumeRun afbHeadersP 0 (hsNew 1, rcHb false 0) afcExGCuts).2.1 = .ok := by decide +kernel
  have hr := mlf_triple_eta _ hrun.1 hrun.2
  obtain ⟨hs, hne, H, _⟩ := (afc_block_ok_iff_schedule 0 1 0 false afcExGCuts hg afcExG rfl (by decide +kernel)
    (fun _ _ => Nat.zero_le _) 12 (afcExG_generic_in _) _ _).mp hr
  exact ⟨hs, hne, H⟩

/-! ## (S6) C17: `MoreBytes` of ParseTokenParam, with the returned offset pinned -/

/-- `r` is where unfinished white space STARTS: the start offset of the call, or a position whose preceding byte is not
    SP / HT / CR / LF -/
def AfcWsStart (b : Buf) (o r : Nat) : Prop :=
  r = o ∨ ∃ c, 0 < r ∧ b[r - 1]? = some c ∧ isLWSch c = false

/-- **`MoreBytes` at `r`, pinned**: as `PVMore`, and in addition
    * `lws`: the end-of-input option is OFF, and `r` is the START of the unfinished white space (`AfcWsStart`: `r = o`, or
      the byte before `r` is not SP / HT / CR / LF) — the text `[o, r)` is the beginning of a parameter, and from `r` on
      there is only linear white space cut short by the end of the buffer;
    * `quoted` / `quotedEsc` (any option word): inside an open quoted string, `r` is the end of the buffer / the
      position of a back-slash that is the last byte (these two are the shapes of `PVMore`, which already pin `r`). -/
inductive PVMoreAt (b : Buf) (flags o r : Nat) : Prop
  | lws (st : TPState) (q : Nat) : hasFlag flags POptInputEndF = false → PVAt b flags o r st → st ≠ .quotedVal →
      AfcWsStart b o r → Lws b r q → EndTail b q → PVMoreAt b flags o r
  | quoted (q v0 : Nat) : PVEq b flags o q → Lws b (q + 1) v0 → b[v0]? = some 34 → PVQPre b (v0 + 1) r →
      b[r]? = none → PVMoreAt b flags o r
  | quotedEsc (q v0 : Nat) : PVEq b flags o q → Lws b (q + 1) v0 → b[v0]? = some 34 → PVQPre b (v0 + 1) r →
      b[r]? = some 92 → b[r + 1]? = none → PVMoreAt b flags o r

/-- the pinned description implies the one of ParamVerdicts -/
theorem PVMoreAt.pvMore {b : Buf} {flags o r : Nat} (h : PVMoreAt b flags o r) : PVMore b flags o r := by
  cases h with
  | lws st q _ hP hne _ hl he => exact PVMore.lws st q hP hne hl he
  | quoted q v0 he hl h34 hpre hn => exact PVMore.quoted q v0 he hl h34 hpre hn
  | quotedEsc q v0 he hl h34 hpre h92 hn => exact PVMore.quotedEsc q v0 he hl h34 hpre h92 hn

/-- loop positions: the start offset, a position after a byte that is not white space, or a position AT such a byte -/
def AfcPin (b : Buf) (o i : Nat) : Prop :=
  AfcWsStart b o i ∨ ∃ c, b[i]? = some c ∧ isLWSch c = false

theorem AfcPin.start_of_lws {b : Buf} {o i : Nat} (h : AfcPin b o i) (hc : ∀ c, b[i]? = some c → isLWSch c = true) :
    AfcWsStart b o i := by
  rcases h with h | ⟨c, h1, h2⟩
  · exact h
  · rw [hc c h1] at h2; cases h2

theorem afc_qbody_last {b : Buf} {i e : Nat} (h : QBody b i e) : b[e - 1]? = some 34 ∧ 0 < e := by
  induction h with
  | close i h0 => exact ⟨by rw [Nat.add_sub_cancel]; exact h0, by omega⟩
  | plain i e c _ _ _ ih => exact ih
  | esc i e c1 _ _ _ _ ih => exact ih

/-- a byte that is not white space, outside quotes: the loop goes on at the next byte or stops with a verdict other
    than `MoreBytes` -/
theorem afc_step_nonlws (flags offs : Nat) (b : Buf) (i : Nat) (c : UInt8) (p : PTokParam)
    (hl : isLWSch c = false) (hq : p.state ≠ .quotedVal) :
    (∀ i' p', tpStep flags offs b i c p = .cont i' p' → i' = i + 1) ∧
    (∀ o' e p', tpStep flags offs b i c p = .done o' e p' → e ≠ .moreBytes) := by
  unfold tpStep tpSpTermEq tpSpTermSep
  simp only [hl, Bool.false_eq_true, ↓reduceIte]
  cases hst : p.state
  case quotedVal => exact absurd hst hq
  all_goals
    simp only []
    repeat' split
    all_goals
      refine ⟨fun i' p' h => ?_, fun o' e p' h => ?_⟩
      · first
          | (cases h; rfl)
          | cases h
      · first
          | (cases h; decide)
          | cases h

theorem afc_tpMoreBytes (b : Buf) (flags : Nat) (p : PTokParam) (i : Nat)
    (h : p.state ≠ .quotedVal ∧ p.state ≠ .err ∧ p.state ≠ .fin)
    (hm : (tpMoreBytes b flags p i).2.1 = .moreBytes) :
    hasFlag flags POptInputEndF = false ∧ tpMoreBytes b flags p i = (i, .moreBytes, p) := by
  by_cases hf : hasFlag flags POptInputEndF = true
  · exfalso
    have he : (tpMoreBytes b flags p i).2.1 = .eoh := by
      unfold tpMoreBytes
      rw [if_pos hf]
      cases hst : p.state with
      | quotedVal => exact absurd hst h.1
      | err => exact absurd hst h.2.1
      | fin => exact absurd hst h.2.2
      | name =>
        exact pv_tpEOH_eoh _ _ _ (by
          show p.state ≠ _ ∧ p.state ≠ _ ∧ p.state ≠ _
          rw [hst]; decide)
      | val =>
        exact pv_tpEOH_eoh _ _ _ (by
          show p.state ≠ _ ∧ p.state ≠ _ ∧ p.state ≠ _
          rw [hst]; decide)
      | _ => exact pv_tpEOH_eoh _ _ _ h
    rw [he] at hm
    cases hm
  · refine ⟨by simpa using hf, ?_⟩
    unfold tpMoreBytes
    rw [if_neg hf]

/-- what a result means, with the pinned description of `MoreBytes` -/
def AfcPVQ (b : Buf) (flags o r : Nat) (e : Err) : Prop := e = .moreBytes → PVMoreAt b flags o r

def AfcStepOK (b : Buf) (flags o : Nat) (s : Step PTokParam) : Prop :=
  (∀ i' p', s = .cont i' p' → AfcPin b o i') ∧ (∀ o' e p', s = .done o' e p' → AfcPVQ b flags o o' e)

theorem AfcStepOK.cont {b : Buf} {flags o n : Nat} {p : PTokParam} (h : AfcPin b o n) :
    AfcStepOK b flags o (.cont n p) :=
  ⟨(fun i' p' hh => by cases hh; exact h), (fun o' e p' hh => by cases hh)⟩

theorem AfcStepOK.done {b : Buf} {flags o n : Nat} {e : Err} {p : PTokParam} (h : AfcPVQ b flags o n e) :
    AfcStepOK b flags o (.done n e p) :=
  ⟨(fun i' p' hh => by cases hh), (fun o' e' p' hh => by cases hh; exact h)⟩

/-- one iteration: the position invariant is kept, and a `MoreBytes` exit meets the pinned description -/
theorem afc_pv_step {b : Buf} {flags o offs i : Nat} {c : UInt8} {p : PTokParam} (hb : b[i]? = some c)
    (hP : PVAt b flags o i p.state) (hpin : AfcPin b o i) : AfcStepOK b flags o (tpStep flags offs b i c p) := by
  by_cases hq : p.state = .quotedVal
  · -- inside quotes
    have hP' := hP
    rw [hq] at hP'
    obtain ⟨q, v0, he, hlw, h34, hi⟩ := hP'.inv_quotedVal
    have hsq := pv_skipQuoted b i
    rcases hsk : skipQuoted b i with ⟨n, r⟩
    rw [hsk] at hsq
    simp only at hsq
    unfold tpStep
    simp only [hq]
    rw [hsk]
    rw [hi] at hsq
    cases hsq with
    | ok n' hqb =>
      show AfcStepOK b flags o (Step.cont n _)
      obtain ⟨h1, h2⟩ := afc_qbody_last hqb
      exact AfcStepOK.cont (Or.inl (Or.inr ⟨34, h2, h1, by decide⟩))
    | bad n' c' hpre hc hbad =>
      show AfcStepOK b flags o (Step.done n .badChar p)
      exact AfcStepOK.done (fun hh => by cases hh)
    | badEsc m c' hpre h92 hc hcr =>
      show AfcStepOK b flags o (Step.done (m + 1) .badChar p)
      exact AfcStepOK.done (fun hh => by cases hh)
    | more n' hpre hn =>
      show AfcStepOK b flags o (stepOfRes (tpMoreBytes b flags p n))
      rw [pv_tpMoreBytes_quoted b flags p n hq]
      exact AfcStepOK.done (fun _ => PVMoreAt.quoted q v0 he hlw h34 hpre hn)
    | moreEsc n' hpre h92 hn =>
      show AfcStepOK b flags o (stepOfRes (tpMoreBytes b flags p n))
      rw [pv_tpMoreBytes_quoted b flags p n hq]
      exact AfcStepOK.done (fun _ => PVMoreAt.quotedEsc q v0 he hlw h34 hpre h92 hn)
  · have hne : p.state ≠ .quotedVal ∧ p.state ≠ .err ∧ p.state ≠ .fin := ⟨hq, hP.live.1, hP.live.2.1⟩
    by_cases hl : isLWSch c = true
    · -- white space: the pattern `tpLWS`
      obtain ⟨upd, hupd, hstep⟩ := pv_lws_of_state (flags := flags) (offs := offs) (b := b) (i := i) (p := p) hne
      rw [hstep c hl]
      have hupd_ne : (upd p).state ≠ .quotedVal ∧ (upd p).state ≠ .err ∧ (upd p).state ≠ .fin := by
        obtain ⟨h1, h2, h3⟩ := hne
        rw [hupd]
        cases hst : p.state <;> first
          | exact absurd hst h1
          | exact absurd hst h2
          | exact absurd hst h3
          | decide
      rcases hsk : skipLWS b i flags with ⟨n, crl, r⟩
      rcases skipLWS_verdicts b i flags hsk with rfl | rfl | rfl | rfl
      · rw [tpLWS_ok p upd hsk]
        obtain ⟨_, c', hc', hl'⟩ := skipLWS_ok b i flags hsk
        exact AfcStepOK.cont (Or.inr ⟨c', hc', hl'⟩)
      · rw [tpLWS_eoh p upd hsk]
        refine AfcStepOK.done (fun hh => ?_)
        rw [pv_tpEOH_eoh _ _ _ hupd_ne] at hh
        cases hh
      · exact absurd hsk (pv_skipLWS_ne_noCR b i flags)
      · rw [tpLWS_more p upd hsk]
        refine AfcStepOK.done (fun hm => ?_)
        obtain ⟨hf, heq⟩ := afc_tpMoreBytes b flags p i hne hm
        rw [heq]
        obtain ⟨q, hq', hend⟩ := pv_skipLWS_more b i flags hsk
        exact PVMoreAt.lws p.state q hf hP hne.1
          (hpin.start_of_lws (fun c' hc' => by rw [hb] at hc'; cases hc'; exact hl)) hq' hend
    · -- any other byte
      have hl' : isLWSch c = false := by simpa using hl
      obtain ⟨a1, a2⟩ := afc_step_nonlws flags offs b i c p hl' hq
      refine ⟨fun i' p' h => ?_, fun o' e p' h hm => absurd hm (a2 o' e p' h)⟩
      rw [a1 i' p' h]
      exact Or.inl (Or.inr ⟨c, by omega, by rw [Nat.add_sub_cancel]; exact hb, hl'⟩)

/-- the whole loop -/
theorem afc_pv_run (flags offs : Nat) (b : Buf) (o i : Nat) (p : PTokParam) (hP : PVAt b flags o i p.state)
    (hpin : AfcPin b o i) :
    AfcPVQ b flags o (runLoop (tpMachine flags offs) b i p).1 (runLoop (tpMachine flags offs) b i p).2.1 := by
  apply runLoop_inv (tpMachine flags offs) b (fun i p => PVAt b flags o i p.state ∧ AfcPin b o i)
    (fun r => AfcPVQ b flags o r.1 r.2.1)
  · intro i c p i' p' hb hP hs
    have hlt := tp_progress flags offs b i c p i' p' hb hs
    refine ⟨fun _ => ?_, fun hn => absurd hlt hn⟩
    have h := pv_step (offs := offs) hb hP.1
    rw [show tpStep flags offs b i c p = .cont i' p' from hs] at h
    exact ⟨h, (afc_pv_step (offs := offs) hb hP.1 hP.2).1 i' p' hs⟩
  · intro i c p o' e p' hb hP hs
    exact (afc_pv_step (offs := offs) hb hP.1 hP.2).2 o' e p' hs
  · intro i p hb hP
    show AfcPVQ b flags o (tpMoreBytes b flags p i).1 (tpMoreBytes b flags p i).2.1
    by_cases hq : p.state = .quotedVal
    · rw [pv_tpMoreBytes_quoted b flags p i hq]
      have hP' := hP.1
      rw [hq] at hP'
      obtain ⟨q, v0, he, hlw, h34, hi⟩ := hP'.inv_quotedVal
      intro _
      refine PVMoreAt.quoted q v0 he hlw h34 ?_ hb
      rw [hi]
      exact PVQPre.nil _
    · have hne : p.state ≠ .quotedVal ∧ p.state ≠ .err ∧ p.state ≠ .fin := ⟨hq, hP.1.live.1, hP.1.live.2.1⟩
      intro hm
      obtain ⟨hf, heq⟩ := afc_tpMoreBytes b flags p i hne hm
      rw [heq]
      exact PVMoreAt.lws p.state i hf hP.1 hq
        (hP.2.start_of_lws (fun c' hc' => by rw [hb] at hc'; cases hc')) (Lws.nil i) (EndTail.none i hb)
  · exact ⟨hP, hpin⟩

/-- **[C17] `MoreBytes` at `r` ⇒ the pinned description** (new object, every buffer, offset and option word): the text
    `[o, r)` is the beginning of a parameter; either the end-of-input option is off, `r` is the start of white space cut
    short by the end of the buffer (`r = o` or the byte before `r` is not SP / HT / CR / LF), or `r` is the end of the
    buffer / a trailing back-slash inside an open quoted string -/
theorem afc_moreBytes_at {b : Buf} {o flags r : Nat} {p' : PTokParam}
    (h : parseTokenParam b o {} flags = (r, .moreBytes, p')) : PVMoreAt b flags o r := by
  have := afc_pv_run flags o b o o {} (PVAt.init o o (Pad.nil o) (Lws.nil o)) (Or.inl (Or.inl rfl))
  rw [← parseTokenParam_run flags b o {} (by decide), h] at this
  exact this rfl

/-! ### the converse: every text of the pinned description is suspended at that very offset -/

/-- white space up to the end of the input, end-of-input option off: skipLWS asks for more bytes -/
theorem afc_skipLWS_end_more {b : Buf} {i p : Nat} (f : Nat) (h : Lws b i p) (he : EndTail b p)
    (hf : hasFlag f POptInputEndF = false) : ∃ n crl, skipLWS b i f = (n, crl, .moreBytes) := by
  induction h with
  | nil i =>
    cases he with
    | none h0 => exact ⟨i, 0, skipLWS_none h0⟩
    | one c h0 hcr h1 =>
      have hs : skipCRLF b i = (i, 0, .moreBytes) := by
        unfold skipCRLF; rw [h1, h0]; simp only
        unfold isCRLFch at hcr
        simp only [Bool.or_eq_true, beq_iff_eq] at hcr
        rcases hcr with hcr | hcr <;> (rw [hcr]; rfl)
      exact ⟨i, 0, skipLWS_crlf_err h0 (crlf_not_ws hcr) hcr hs (by intro h; cases h)⟩
    | crlf h0 h1 h2 =>
      have hs : skipCRLF b i = (i + 2, 2, .ok) := by
        unfold skipCRLF; rw [h1, h0]; rfl
      refine ⟨i, 0, ?_⟩
      rw [skipLWS_crlf_end h0 (by decide) (by decide) hs h2, hf]
      rfl
  | ws i n c1 h1 hw _ ih => rw [skipLWS_ws h1 hw]; exact ih he
  | fold i e' n c3 he' h3 hw3 _ ih =>
    obtain ⟨c0, h0, hw0, hcr0, _⟩ := he'.first
    rw [skipLWS_crlf_ws h0 hw0 hcr0 he'.skipCRLF h3 hw3]; exact ih he

theorem afc_sq_more_run {b : Buf} {i n : Nat} (h : PVQPre b i n) (hn : b[n]? = none) :
    runLoop sqMachine b i () = (n, .moreBytes, ()) := by
  induction h with
  | nil i => rw [runLoop_none sqMachine () hn]; rfl
  | plain i e c0 h0 hq _ ih =>
    rw [runLoop_cont sqMachine h0 (by exact sqStep_plain hq), if_pos (by omega)]; exact ih hn
  | esc i e c1 h0 h1 hcr _ ih =>
    have hs : sqMachine.step b i 92 () = .cont (i + 2) () := by
      show sqStep b i 92 () = _
      unfold sqStep
      rw [h1]
      simp [hcr]
    rw [runLoop_cont sqMachine h0 hs, if_pos (by omega)]; exact ih hn

theorem afc_sq_moreEsc_run {b : Buf} {i n : Nat} (h : PVQPre b i n) (h92 : b[n]? = some 92) (hn : b[n + 1]? = none) :
    runLoop sqMachine b i () = (n, .moreBytes, ()) := by
  induction h with
  | nil i =>
    have hs : sqMachine.step b i 92 () = .done i .moreBytes () := by
      show sqStep b i 92 () = _
      unfold sqStep; rw [hn]; rfl
    exact runLoop_done sqMachine h92 hs
  | plain i e c0 h0 hq _ ih =>
    rw [runLoop_cont sqMachine h0 (by exact sqStep_plain hq), if_pos (by omega)]; exact ih h92 hn
  | esc i e c1 h0 h1 hcr _ ih =>
    have hs : sqMachine.step b i 92 () = .cont (i + 2) () := by
      show sqStep b i 92 () = _
      unfold sqStep
      rw [h1]
      simp [hcr]
    rw [runLoop_cont sqMachine h0 hs, if_pos (by omega)]; exact ih h92 hn

/-- white space that ends right after a byte that is not white space is empty -/
theorem afc_lws_nil_of_pin {b : Buf} {x i : Nat} (h : Lws b x i)
    (hpin : ∃ c, 0 < i ∧ b[i - 1]? = some c ∧ isLWSch c = false) : x = i := by
  have hle := h.le
  rcases Nat.lt_or_ge x i with hlt | hge
  · exfalso
    obtain ⟨c, hc, hw⟩ := h.last hlt
    obtain ⟨c', _, hc', hl'⟩ := hpin
    rw [hc] at hc'
    cases hc'
    rw [(lws_split hl').1] at hw
    cases hw
  · omega

/-- **a pinned position of the description is reached by the loop** in the state of the description -/
theorem afc_reach_pinned {flags offs : Nat} {b : Buf} {o : Nat} {p0 : PTokParam} {i : Nat} {st : TPState}
    (hst0 : p0.state = .init) (h : PVAt b flags o i st) (hne : st ≠ .quotedVal)
    (hpin : ∃ c, 0 < i ∧ b[i - 1]? = some c ∧ isLWSch c = false) : PVReach flags offs b o p0 i st := by
  cases h with
  | init t i hp hl =>
    have := afc_lws_nil_of_pin hl hpin
    subst this
    exact ⟨p0, hst0, tp_pad flags offs b hp p0 (Or.inl hst0)⟩
  | name n0 i hh => exact pv_reach_head hst0 hh
  | fEq n0 n1 i hh hl hlt =>
    have := afc_lws_nil_of_pin hl hpin
    omega
  | fVal q i he hl =>
    have := afc_lws_nil_of_pin hl hpin
    subst this
    exact pv_reach_eq hst0 he
  | val q v0 i he hl hr hv => exact pv_reach_tok hst0 he hl hr hv
  | quotedVal q v0 he hl h34 => exact absurd rfl hne
  | fSepTok q v0 v1 i he hl hr hv hl2 hlt2 =>
    have := afc_lws_nil_of_pin hl2 hpin
    omega
  | fSepQuo q v0 qe i he hl h34 hqb hl2 =>
    have := afc_lws_nil_of_pin hl2 hpin
    subst this
    exact pv_reach_quo hst0 he hl h34 hqb
  | fNxt j s t i hd hl1 hs hp hl2 =>
    have := afc_lws_nil_of_pin hl2 hpin
    subst this
    obtain ⟨p, hp', hr⟩ := pv_reach_sep (offs := offs) hst0 hd hl1 hs
    exact ⟨p, hp', by rw [hr, tp_pad flags offs b hp p (Or.inr (Or.inr hp'))]⟩

/-- **[C17] completeness of the pinned description**: every text of the shape `PVMoreAt … r` is suspended with
    `MoreBytes` at `r` -/
theorem afc_moreBytes_complete {b : Buf} {o flags r : Nat} (h : PVMoreAt b flags o r) :
    (parseTokenParam b o {} flags).1 = r ∧ (parseTokenParam b o {} flags).2.1 = .moreBytes := by
  rw [parseTokenParam_run flags b o {} (by decide)]
  cases h with
  | lws st q hf hP hne hpin hlw hend =>
    have hreach : ∃ p1 : PTokParam, (p1.state ≠ .quotedVal ∧ p1.state ≠ .err ∧ p1.state ≠ .fin) ∧
        runLoop (tpMachine flags o) b o {} = runLoop (tpMachine flags o) b r p1 := by
      rcases hpin with rfl | hpin
      · exact ⟨{}, by decide, rfl⟩
      · obtain ⟨p1, hp1, hr⟩ := afc_reach_pinned (offs := o) (p0 := {}) rfl hP hne hpin
        exact ⟨p1, by rw [hp1]; exact ⟨hne, hP.live.1, hP.live.2.1⟩, hr⟩
    obtain ⟨p1, hne1, hr⟩ := hreach
    have hmb : tpMoreBytes b flags p1 r = (r, .moreBytes, p1) := by
      unfold tpMoreBytes
      rw [if_neg (by rw [hf]; decide)]
    rw [hr]
    cases hb : b[r]? with
    | none =>
      rw [runLoop_none (tpMachine flags o) p1 hb]
      show (tpMoreBytes b flags p1 r).1 = r ∧ (tpMoreBytes b flags p1 r).2.1 = .moreBytes
      rw [hmb]; exact ⟨rfl, rfl⟩
    | some c0 =>
      have hl0 : isLWSch c0 = true := by
        by_cases h1 : r < q
        · obtain ⟨c1, h1', h2⟩ := hlw.first h1
          rw [hb] at h1'; cases h1'; exact h2
        · have := hlw.le
          have : r = q := by omega
          subst this
          exact hend.first hb
      obtain ⟨upd, _, hstep⟩ := pv_lws_of_state (flags := flags) (offs := o) (b := b) (i := r) (p := p1) hne1
      obtain ⟨n, crl, hsk⟩ := afc_skipLWS_end_more flags hlw hend hf
      have hs : (tpMachine flags o).step b r c0 p1 = .done r .moreBytes p1 := by
        show tpStep flags o b r c0 p1 = _
        rw [hstep c0 hl0, tpLWS_more p1 upd hsk, hmb]
        rfl
      rw [runLoop_done (tpMachine flags o) hb hs]
      exact ⟨rfl, rfl⟩
  | quoted q v0 he hl h34 hpre hn =>
    obtain ⟨p1, hp1, hr⟩ := pv_reach_quote (offs := o) (p0 := {}) rfl he hl h34
    rw [hr]
    cases hb : b[v0 + 1]? with
    | none =>
      have hrv : r = v0 + 1 := by
        cases hpre with
        | nil => rfl
        | plain i' e' c0 h0 _ _ => rw [hb] at h0; cases h0
        | esc i' e' c1 h0 _ _ _ => rw [hb] at h0; cases h0
      rw [runLoop_none (tpMachine flags o) p1 hb]
      show (tpMoreBytes b flags p1 (v0 + 1)).1 = r ∧ (tpMoreBytes b flags p1 (v0 + 1)).2.1 = .moreBytes
      rw [pv_tpMoreBytes_quoted b flags p1 (v0 + 1) hp1, hrv]
      exact ⟨rfl, rfl⟩
    | some c1 =>
      have hq : skipQuoted b (v0 + 1) = (r, .moreBytes) := by
        unfold skipQuoted; rw [afc_sq_more_run hpre hn]
      have hstep : (tpMachine flags o).step b (v0 + 1) c1 p1 = .done r .moreBytes p1 := by
        show tpStep flags o b (v0 + 1) c1 p1 = _
        unfold tpStep; simp only [hp1]; rw [hq]
        show stepOfRes (tpMoreBytes b flags p1 r) = _
        rw [pv_tpMoreBytes_quoted b flags p1 r hp1]
        rfl
      rw [runLoop_done (tpMachine flags o) hb hstep]
      exact ⟨rfl, rfl⟩
  | quotedEsc q v0 he hl h34 hpre h92 hn =>
    obtain ⟨p1, hp1, hr⟩ := pv_reach_quote (offs := o) (p0 := {}) rfl he hl h34
    obtain ⟨c1, hc1⟩ := hpre.first h92
    have hq : skipQuoted b (v0 + 1) = (r, .moreBytes) := by
      unfold skipQuoted; rw [afc_sq_moreEsc_run hpre h92 hn]
    have hstep : (tpMachine flags o).step b (v0 + 1) c1 p1 = .done r .moreBytes p1 := by
      show tpStep flags o b (v0 + 1) c1 p1 = _
      unfold tpStep; simp only [hp1]; rw [hq]
      show stepOfRes (tpMoreBytes b flags p1 r) = _
      rw [pv_tpMoreBytes_quoted b flags p1 r hp1]
      rfl
    rw [hr, runLoop_done (tpMachine flags o) hc1 hstep]
    exact ⟨rfl, rfl⟩

/-- **[C17] `MoreBytes` at `r`, exactly**: for every buffer, start offset and option word, ParseTokenParam on a new
    object returns `MoreBytes` with offset `r` IFF the pinned description `PVMoreAt b flags o r` holds -/
theorem afc_moreBytes_iff (b : Buf) (o flags r : Nat) :
    ((parseTokenParam b o {} flags).1 = r ∧ (parseTokenParam b o {} flags).2.1 = .moreBytes) ↔ PVMoreAt b flags o r := by
  constructor
  · rintro ⟨h1, h2⟩
    rcases hp : parseTokenParam b o {} flags with ⟨r1, e, p'⟩
    rw [hp] at h1 h2
    simp only at h1 h2
    subst h1 h2
    exact afc_moreBytes_at hp
  · exact afc_moreBytes_complete

/-- test: the description WITHOUT the pin (`PVMore`) holds at offset 6 of `a = b SP CR LF` (the text `[0, 6)` is `a = b SP`,
    state "after a value", the rest `CR LF` is white space cut by the end) — but the parser reports `MoreBytes` at 5, the
    START of the white space; the pinned description holds at 5 and NOT at 6 -/
example : (parseTokenParam "a = b \r\n".toUTF8.data 0 {} 0).1 = 5 ∧
    (parseTokenParam "a = b \r\n".toUTF8.data 0 {} 0).2.1 = .moreBytes ∧
    PVMoreAt "a = b \r\n".toUTF8.data 0 0 5 ∧ ¬ PVMoreAt "a = b \r\n".toUTF8.data 0 0 6 := by
  have h1 : (parseTokenParam "a = b \r\n".toUTF8.data 0 {} 0).1 = 5 ∧
      (parseTokenParam "a = b \r\n".toUTF8.data 0 {} 0).2.1 = .moreBytes := by decide +kernel
  refine ⟨h1.1, h1.2, (afc_moreBytes_iff _ 0 0 5).1 h1, fun h6 => ?_⟩
  have := (afc_moreBytes_iff _ 0 0 6).2 h6
  rw [h1.1] at this
  exact absurd this.1 (by decide)

/-- test: … and the description without the pin, `PVMore`, does hold at 6 on that text (state "after a value": `a = b SP`,
    then `CR LF` cut by the end of the buffer): `PVMore` alone does not characterise the returned offset -/
example : PVMore "a = b \r\n".toUTF8.data 0 0 6 := by
  have hsep : tpSep 0 = 59 := by decide
  have hterm : tpTerm 0 = 0 := by decide
  refine PVMore.lws .fSep 6
    (PVAt.fSepTok 2 4 5 6
      ⟨0, 1, ⟨0, 97, Pad.nil 0, Lws.nil 0, by decide, by decide, by rw [hsep]; decide, (fun k h1 h2 => by omega),
        by omega⟩, Lws.ws 1 2 32 (by decide) (by decide) (Lws.nil 2), by decide⟩
      (Lws.ws 3 4 32 (by decide) (by decide) (Lws.nil 4)) ?_ (by omega)
      (Lws.ws 5 6 32 (by decide) (by decide) (Lws.nil 6)) (by omega))
    (by decide) (Lws.nil 6) (EndTail.crlf 6 (by decide) (by decide) (by decide))
  intro k h1 h2
  have : k = 4 := by omega
  subst this
  exact ⟨98, by decide, by decide, by rw [hsep]; decide, by rw [hterm]; decide⟩

/-- test: with the end-of-input option (flag word 64) the same text is accepted (`EOH`), not suspended; inside an open
    quoted string the call is suspended at the end of the buffer whatever the option -/
example : (parseTokenParam "a = b \r\n".toUTF8.data 0 {} POptInputEndF).2.1 = .eoh ∧
    (parseTokenParam "a=\"bc".toUTF8.data 0 {} POptInputEndF).1 = 5 ∧
    (parseTokenParam "a=\"bc".toUTF8.data 0 {} POptInputEndF).2.1 = .moreBytes := by decide +kernel

/-- non-vacuity of the `quoted` shape of `PVMoreAt` (through `afc_moreBytes_iff`), end-of-input option set -/
example : PVMoreAt "a=\"bc".toUTF8.data POptInputEndF 0 5 :=
  (afc_moreBytes_iff _ 0 POptInputEndF 5).1 (by decide +kernel)

end Sipsp
