/-
  Sipsp.Proofs.AuditFixC — statements a sceptical review found weaker than their headers, strengthened.  Lemma file; the
  theorems are meant to be re-exported in Properties/C05, C07, C17, C04, C09.  Everything is about the model.

  (S3) EXPORT C05.  `PlAssoc` / `PlMsg` (PaiLines) and `HxAssoc` (HnoExact) compare a value with the `val` of its header line
       only IF that line is stored in the header array; when the array overflows the line index is not pinned.  Here the
       line index is PINNED: `afcTrace` / `afcMsgLines` is a FUNCTION of the input (no existential): the list of the header
       objects ParseHdrLine returned for ALL the accepted lines of the block, stored or not.
       `AfcMsg gs m` (with `gs = afcMsgLines …`): `gs.length = HdrLst.N`; every stored header IS `gs[j]`; and for the
       Contact list and the identity list `AfcAssoc`: the lines of the type in `gs` are exactly `HNo` many, there are
       counts (one per such line, each ≥ 1, sum `N`) such that the values of the `i`-th line of the type are those in the
       `i`-th block of the cumulative counts and every STORED value of the block has at least one byte and lies inside
       the `val` of THAT line — whether or not the line is stored.
       `afc_parseHeaders`, `afc_parseSIPMsg`, `afc_values_pinned_init`, `afc_values_pinned_schedule_init`.
       `AfcAssoc.map`: the map form (monotone `f`, `f k < gs.length`, line `f k` has the type, the value lies inside its
       `val` UNCONDITIONALLY, every line of the type is hit).  `AfcMsg.plMsg`: it implies `PlMsg`.
       `afcEx_*`: header capacity 1, contact capacity 4, two Contact lines: the old statement accepts the constant map
       (`afcEx_old_accepts_const`), the pinned one refutes it (`afcEx_const_refuted`) and refutes the wrong counts `[1, 2]`
       (`afcEx_wrong_counts_refuted`); the right counts are `[2, 1]`.
-/
import Sipsp.Proofs.HnoExact
import Sipsp.Proofs.ResumedConverse
import Sipsp.Proofs.ParamVerdicts
import Sipsp.Proofs.SigGuardSafe
import Sipsp.Proofs.HdrSound
import Sipsp.Proofs.MsgLastFlags

namespace Sipsp

/-! ## (S3) C05: the header line of every Contact / P-Asserted-Identity value, pinned -/

/-- the positions, in the list `gs` of ALL accepted header lines, of the lines of type `ty` -/
def afcIdx (ty : Nat) (gs : List Hdr) : List Nat := hxIdx ty (fun j => gs[j]!.type) gs.length

theorem afcIdx_snoc (ty : Nat) (gs : List Hdr) (g : Hdr) :
    afcIdx ty (gs ++ [g]) = afcIdx ty gs ++ (if g.type = ty then [gs.length] else []) := by
  unfold afcIdx
  have hl : (gs ++ [g]).length = gs.length + 1 := by simp
  rw [hl, hxIdx_succ]
  have h1 : (gs ++ [g])[gs.length]! = g := by simp
  rw [h1]
  congr 1
  apply hxIdx_congr
  intro j hj
  show (gs ++ [g])[j]!.type = gs[j]!.type
  have : (gs ++ [g])[j]! = gs[j]! := by
    rw [getElem!_pos (gs ++ [g]) j (by rw [hl]; omega), getElem!_pos gs j hj]
    exact List.getElem_append_left hj
  rw [this]

theorem afcIdx_lt {ty : Nat} {gs : List Hdr} {i j : Nat} (h : (afcIdx ty gs)[i]? = some j) :
    j < gs.length ∧ gs[j]!.type = ty := hxIdx_lt h

/-- the ghost list agrees with the header array: `gs` has one entry per counted line, and every stored header is the
    entry of its line -/
def AfcStored (gs : List Hdr) (hl : HdrLst) : Prop :=
  gs.length = hl.n ∧ ∀ j, j < hl.n → j < hl.hdrs.size → hl.hdrs[j]! = gs[j]!

/-- the values of the `i`-th line of type `ty` are those of the `i`-th block of the cumulative counts `cnt`; each of
    them that is stored is not empty and lies inside the `val` of that line (stored in the header array or not) -/
def AfcBlocks (ty : Nat) (gs : List Hdr) (vals : Array PFromBody) (cnt : List Nat) : Prop :=
  ∀ i j, (afcIdx ty gs)[i]? = some j → ∀ k, hxStart cnt i ≤ k → k < hxStart cnt (i + 1) → k < vals.size →
    PlIn gs[j]!.val vals[k]!.v

/-- **the pinned association** of a value list (`vals`, `n` values counted, header count `hNo`) with the list `gs` of ALL
    accepted header lines -/
def AfcAssoc (ty : Nat) (gs : List Hdr) (vals : Array PFromBody) (n hNo : Nat) : Prop :=
  ∃ cnt : List Nat, (afcIdx ty gs).length = hNo ∧ cnt.length = hNo ∧ (∀ c ∈ cnt, 0 < c) ∧ cnt.sum = n ∧
    AfcBlocks ty gs vals cnt

theorem AfcStored.setCur {gs : List Hdr} {hl : HdrLst} (H : AfcStored gs hl) (g : Hdr) : AfcStored gs (hl.setCur g) := by
  obtain ⟨h1, h2⟩ := H
  refine ⟨by rw [hlSetCur_n]; exact h1, fun j hj hs => ?_⟩
  rw [hlSetCur_n] at hj
  rw [hlSetCur_size] at hs
  rw [hlSetCur_ne hl g j (by omega)]
  exact h2 j hj hs

theorem AfcStored.next {gs : List Hdr} {hl : HdrLst} (H : AfcStored gs hl) (g : Hdr) :
    AfcStored (gs ++ [g]) ((hl.setCur g).accept g) := by
  obtain ⟨h1, h2⟩ := H
  have hn : ((hl.setCur g).accept g).n = hl.n + 1 := by rw [accept_n, hlSetCur_n]
  have hs : ((hl.setCur g).accept g).hdrs.size = hl.hdrs.size := by rw [accept_hdrs, hlSetCur_size]
  refine ⟨by rw [hn, ← h1]; simp, fun j hj hjs => ?_⟩
  rw [hn] at hj
  rw [hs] at hjs
  by_cases hjn : j = hl.n
  · subst hjn
    rw [accept_hdrs, hlSetCur_get_n hl g hjs, ← h1]
    simp
  · have hj' : j < gs.length := by omega
    have e : (gs ++ [g])[j]! = gs[j]! := by
      rw [getElem!_pos (gs ++ [g]) j (by simp; omega), getElem!_pos gs j hj']
      exact List.getElem_append_left hj'
    rw [e, accept_hdrs, hlSetCur_ne hl g j (by omega)]
    exact h2 j (by omega) hjs

/-- one more accepted line `g`: the association is carried over (the header array plays no part) -/
theorem AfcAssoc.snoc {ty : Nat} {gs : List Hdr} {vals vals' : Array PFromBody} {n n' hNo hNo' : Nat}
    (H : AfcAssoc ty gs vals n hNo) (g : Hdr) (E : PlEff ty vals n vals' n' g.type g.val)
    (C : HxCnt ty n hNo n' hNo' g.type) : AfcAssoc ty (gs ++ [g]) vals' n' hNo' := by
  obtain ⟨cnt, h2, h3, h4, h5, h6⟩ := H
  have hold : ∀ j, j < gs.length → (gs ++ [g])[j]! = gs[j]! := fun j hj => by
    rw [getElem!_pos (gs ++ [g]) j (by simp; omega), getElem!_pos gs j hj]
    exact List.getElem_append_left hj
  have hnew : (gs ++ [g])[gs.length]! = g := by simp
  by_cases ht : g.type = ty
  · obtain ⟨hlt, hh⟩ := C.1 ht
    have hK : PlKeep vals n vals' n' ∧ ∀ j, n ≤ j → j < n' → j < vals'.size → PlIn g.val vals'[j]!.v := by
      rcases E with ⟨_, e2⟩ | ⟨_, hK, hin⟩
      · omega
      · exact ⟨hK, hin⟩
    refine ⟨cnt ++ [n' - n], ?_, ?_, ?_, ?_, ?_⟩
    · rw [afcIdx_snoc, if_pos ht, List.length_append, h2, hh]; rfl
    · rw [List.length_append, h3, hh]; rfl
    · intro c hc
      rcases List.mem_append.1 hc with hc | hc
      · exact h4 c hc
      · simp only [List.mem_singleton] at hc; omega
    · rw [List.sum_append, h5]; simp only [List.sum_cons, List.sum_nil]; omega
    · intro i j hij k k1 k2 k3
      rw [afcIdx_snoc, if_pos ht] at hij
      by_cases hi : i < hNo
      · rw [List.getElem?_append_left (by rw [h2]; exact hi)] at hij
        rw [hxStart_append_le cnt _ i (by omega)] at k1
        rw [hxStart_append_le cnt _ (i + 1) (by omega)] at k2
        have hkn : k < n := by have := hxStart_le cnt (i + 1); omega
        have hj := (afcIdx_lt hij).1
        rw [hold j hj, hK.1.2.2 k hkn]
        exact h6 i j hij k k1 k2 (by rw [← hK.1.1]; exact k3)
      · by_cases hi2 : i = hNo
        · have hi3 : i = cnt.length := by omega
          rw [hi3] at k1 k2
          rw [List.getElem?_append_right (by rw [h2]; omega), h2, hi2, Nat.sub_self] at hij
          simp only [List.getElem?_cons_zero, Option.some.injEq] at hij
          subst hij
          rw [hxStart_append_le cnt _ cnt.length (by omega), hxStart_length, h5] at k1
          rw [hxStart_append_succ, h5] at k2
          rw [hnew]
          exact hK.2 k k1 (by omega) k3
        · exfalso
          rw [List.getElem?_eq_none (by rw [List.length_append, h2]; simp only [List.length_cons, List.length_nil]; omega)] at hij
          cases hij
  · obtain ⟨e1, e2⟩ := C.2 ht
    have ev : vals' = vals := by
      rcases E with ⟨e3, _⟩ | ⟨e3, _⟩
      · exact e3
      · exact absurd e3 ht
    subst e1 e2 ev
    refine ⟨cnt, ?_, h3, h4, h5, ?_⟩
    · rw [afcIdx_snoc, if_neg ht, List.append_nil, h2]
    · intro i j hij k k1 k2 k3
      rw [afcIdx_snoc, if_neg ht, List.append_nil] at hij
      have hj := (afcIdx_lt hij).1
      rw [hold j hj]
      exact h6 i j hij k k1 k2 k3

/-- **the accepted header lines of one ParseHeaders call, as a function of the input**: the header objects ParseHdrLine
    returns for the successive accepted lines (same recursion as `parseHeaders`; `fuel` bounds the number of lines,
    `b.size - offs + 1` is always enough) -/
def afcTrace (b : Buf) : Nat → Nat → HdrLst → Option PHdrVals → List Hdr
  | 0, _, _, _ => []
  | fuel + 1, offs, hl, hb =>
    if offs < b.size ∧ (parseHdrLine b offs hl.cur hb).2.1 = .ok ∧ offs < (parseHdrLine b offs hl.cur hb).1 then
      (parseHdrLine b offs hl.cur hb).2.2.1 ::
        afcTrace b fuel (parseHdrLine b offs hl.cur hb).1
          ((hl.setCur (parseHdrLine b offs hl.cur hb).2.2.1).accept (parseHdrLine b offs hl.cur hb).2.2.1)
          (parseHdrLine b offs hl.cur hb).2.2.2
    else []

/-- the pinned association for both lists of a values object -/
def AfcInv (gs : List Hdr) (hb : Option PHdrVals) : Prop :=
  ∀ hv, hb = some hv → AfcAssoc HdrContact gs hv.contacts.vals hv.contacts.n hv.contacts.hNo ∧
    AfcAssoc HdrPAI gs hv.pais.vals hv.pais.n hv.pais.hNo

/-- **header block** (same hypotheses as `hx_parseHeaders`): `gs0` = the lines accepted before the call; after OK the
    lines are `gs0 ++ afcTrace …`, the stored headers are entries of that list, and both value lists are associated
    with it -/
theorem afc_parseHeaders (b : Buf) (offs : Nat) (hl : HdrLst) (hb : Option PHdrVals) (hfit : b.size ≤ 65535)
    (hok1 : hlsOK b hl) (hok2 : hbOK b offs hb) (hpe : hlsPend hl hb) (ho : offs ≤ b.size)
    (H : HlsSafe b offs hl hb) (hcur : hl.cur = {}) (hsome : hb ≠ none) (gs0 : List Hdr) (fuel : Nat)
    (hfuel : b.size - offs < fuel) (S : AfcStored gs0 hl) (G : AfcInv gs0 hb) :
    (parseHeaders b offs hl hb).2.1 = .ok →
      AfcStored (gs0 ++ afcTrace b fuel offs hl hb) (parseHeaders b offs hl hb).2.2.1 ∧
      AfcInv (gs0 ++ afcTrace b fuel offs hl hb) (parseHeaders b offs hl hb).2.2.2 := by
  induction hk : b.size - offs using Nat.strongRecOn generalizing offs hl hb gs0 fuel with
  | _ k ih =>
    rw [parseHeaders.eq_1 b offs hl hb]
    by_cases hlt : offs < b.size
    · rw [if_pos hlt]
      have hI : hlOK b offs hl.cur hb := ⟨by omega, hlsOK_cur hok1, hok2⟩
      cases hb with
      | none => exact absurd rfl hsome
      | some hv =>
      obtain ⟨fuel', rfl⟩ : ∃ f', fuel = f' + 1 := ⟨fuel - 1, by omega⟩
      rcases hp1 : parseHdrLine b offs hl.cur (some hv) with ⟨n1, e1, g1, v1⟩
      obtain ⟨hO, hS, hF, hN, hE⟩ := parseHdrLine_safe b offs hl.cur (some hv) hfit H.cur hI hp1
      have Hv := H.cur.hv hv rfl
      rw [hcur] at Hv
      have hct : CtIdle b hv.contacts := Hv.ctI (fun hq => by cases hq)
      have hpa : PaIdle b hv.pais := Hv.paI (fun hq => by cases hq)
      obtain ⟨hv1, rfl, hemp, hokE⟩ := pl_parseHdrLine b offs hl.cur hv hfit (by rw [hcur]; exact Or.inl rfl) hct hpa hp1
      obtain ⟨G1, G2⟩ := G hv rfl
      cases e1 <;> simp only
      case ok =>
        have hpost := parseHdrLine_post b offs hl.cur (some hv) hI hp1 (Or.inl rfl)
        have hg : offs < n1 := parseHdrLine_ok_gt b offs hl.cur (some hv) hI hpe.1 hp1
        rw [if_pos hg]
        obtain ⟨E1, E2⟩ := hokE rfl
        obtain ⟨hv1', hq, C1, C2⟩ := hx_line_cnt b offs hl.cur hv (by rw [hcur]; exact Or.inl rfl) hp1
        cases hq
        have htr : afcTrace b (fuel' + 1) offs hl (some hv) =
            g1 :: afcTrace b fuel' n1 ((hl.setCur g1).accept g1) (some hv1) := by
          rw [afcTrace, hp1]
          exact if_pos ⟨hlt, rfl, hg⟩
        rw [htr]
        have happ : gs0 ++ g1 :: afcTrace b fuel' n1 ((hl.setCur g1).accept g1) (some hv1) =
            (gs0 ++ [g1]) ++ afcTrace b fuel' n1 ((hl.setCur g1).accept g1) (some hv1) := by simp
        rw [happ]
        exact ih (b.size - n1) (by omega) n1 _ (some hv1) (hlsOK_next g1 hok1) hpost.2
          (hlsPend_next g1 (some hv1) hpe) hpost.1 (H.next g1 (hS (Or.inl rfl)) (hF rfl) (by omega))
          (flo_next_cur hl g1 H.clean) (by intro hh; cases hh) (gs0 ++ [g1]) fuel' (by omega) (S.next g1)
          (fun hv' hh => by cases hh; exact ⟨G1.snoc g1 E1 C1, G2.snoc g1 E2 C2⟩) rfl
      case empty =>
        have htr : afcTrace b (fuel' + 1) offs hl (some hv) = [] := by
          rw [afcTrace, hp1]
          exact if_neg (fun hh => by cases hh.2.1)
        have := hemp rfl
        subst this
        rw [htr, List.append_nil]
        split
        · intro _
          exact ⟨S.setCur g1, fun hv' hh => by cases hh; exact ⟨G1, G2⟩⟩
        · intro hh; cases hh
      all_goals (intro hh; cases hh)
    · rw [if_neg hlt]
      intro hh; cases hh

end Sipsp
