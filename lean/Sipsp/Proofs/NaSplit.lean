/-
  Sipsp.Proofs.NaSplit — property C09, the clause "multi-value headers are split only at commas outside quotes and
  angle brackets; the value count … summarises all values": the CONVERSE direction (soundness), for EVERY input — no
  grammar assumption on the text; any buffer, any offset, any capacity of the caller's array.  (The completeness
  direction for texts of the grammar is `C09.contact_values` / `contact_count` / `comma_inside_uri` / `comma_inside_quotes`.)

  "Top level" is the AUTOMATON'S OWN notion, made explicit as a 9-mode byte scanner (`NsMode`, `nsStep`, `nsModeAt`;
  `NsTop b o j` = position `j` is at top level when the text is scanned from `o`; `NsTopComma`; `NsNoComma b o e` = no
  top-level comma in `[o, e)`).  A double quote opens a quoted string only in the display-name / bare-URI part (`head`)
  and in a parameter value (`pvl`); inside a quoted string a backslash protects the next byte; `<` opens the bracket
  only in `head`; `>` closes it; `;` starts a parameter name, `=` a parameter value.  It differs from the naive reading
  "outside double quotes and outside `<` … `>`" exactly here (tests in section J, each a concrete input):
    (a) a `"` between `<` and `>` is an ordinary byte:           `<sip:"a>,b`  is split at the comma;
    (b) a `"` after `>` and before the first `;` is ordinary:     `<a>"x,y"`   is split at the comma;
    (c) a `<` after `>` is ordinary (no second bracket):          `<a><b,c>`   is split at the comma;
    (d) a `"` inside a parameter NAME is ordinary:                `<a>;x"b,c"` is split at the comma;
    (e) a `"` inside a bare URI / name token DOES open a string:  `s:a"b,c" <x>, d` is split only at the second comma.
  The scanner is defined on all byte strings; on texts the automaton rejects it may say anything — the theorems only use
  it up to the point the automaton reached.

  Proved (no size limit on the buffer unless stated):
  * (1) value level, `ns_value_more`: if `parseNameAddrPVal h b o {}` answers "more values" with offset `o'`, then `h` is
    a kind with several values, `o < o'`, `b[o'-1] = ','`, that comma is at top level (`NsTop b o (o'-1)`) and NO
    top-level comma occurs in `[o, o'-1)`: the value ends at the FIRST top-level comma.  `ns_value_ok`: on OK, `o'` is
    the offset after a line end not followed by SP / HT (`NsEol`) and — kinds with several values — no top-level comma
    occurs in `[o, o')`.  `ns_parse`: the same for any object whose state is the initial one.
    Proof: loop invariant `NsInv` (the scanner mode of the automaton state, `nsOf`, is the mode of the scan at the current
    offset; no top-level comma so far), one lemma per `case` group (`ns_stepA` … `ns_stepVE`), lifted through `runLoop_inv`.
  * (3) `ns_single_never_more`: for a kind with a single value (`multipleValsOk h = false`: From, To, …) the verdict is
    never "more values" — any buffer, offset AND any object passed in (any state).
  * (2) list level, `parseAllContactValues_segs` / `parseAllPAIValues_segs` (any object with clean unused slots whose
    current slot is new — `CtClean`, `c.cur = {}`; `C09.new_contacts_ok`: a new object of any capacity qualifies):
    whenever the call answers OK with offset `o'` there is a list of pieces `NsSegs h b o L o'`: every piece but the last
    is closed by the first top-level comma after its start (the scan restarts after it), the last has no top-level comma
    and is closed by the line end; the value of each piece is what the value parser reports at its start; the object is
    `c.acceptAll` of these values in order (so `C09.contact_count`, `contact_stored`, `contact_max_expires`,
    `contact_min_expires` apply).  `NsSegs.count`, `parseAllContactValues_count`, `parseAllPAIValues_count`: N grows by
    exactly 1 + `nsCommaCount b o o'`, the number of top-level commas of the consumed text counted by an independent
    scanner (`nsScanR`) — for every capacity.  PAI: no accepted value is `*`.
  * spans (buffers ≤ 65,535 bytes): `ns_value_vend`: on "more values" `V` ends at or before the comma (it never
    contains it); on OK it ends at or before a run of white space / line-end bytes reaching `o'`.  `ns_value_lead`
    (kinds with several values): `V` starts at the first byte from `o` that is not SP / HT / CR / LF.  `NsSegs.vspans`
    (`NsVSpans`), `NsSegs.leads`: the same for all pieces of a list, in order: start of piece ≤ V.Offs, V ends ≤ the
    closing comma, pieces strictly ordered, `b[next start - 1] = ','`.
  * `parseAllContactValues_new_converse`, `parseAllPAIValues_new_converse`: one call on a new object, all of the above in
    one statement (N, stored values = values of the first `cap` pieces, max / min expires over ALL pieces).

  NOT proved here: the resumed case (a value or list continued after "more bytes": the invariant is stated for every
  automaton state, but the theorems are for one call); that `V` is trimmed at its END — it is not always: bytes after `>`
  are skipped and not part of `V` (`<a> jk ,c` reports `<a>`), and after `;name=` + white space + `,` the white space is
  part of `V` (`a:b;x= ,c` reports 7 bytes); `ns_value_lead` for single-valued kinds (false there: From / To skip
  leading commas); any statement about texts on which ParseAllContactValues does not answer OK.
-/
import Sipsp.Proofs.NaNumRun
import Sipsp.Proofs.HdrSound
import Sipsp.Proofs.NaNest
import Sipsp.Proofs.SafeContacts

namespace Sipsp

/-! ### A. the nesting scanner: the automaton's own notion of "top level" -/

/-- where the left-to-right scan of a name-addr value stands:
    `head`  in front of / inside the display name or the bare URI (before any `<`, `;`),
    `hq`    inside a quoted string of the display name, `hqe` right after a backslash in it,
    `uri`   between `<` and `>`,
    `fnd`   after `>` (before the first `;`),
    `pnm`   in a parameter name (from `;` to `=` or the next `;`),
    `pvl`   in a parameter value (from `=` to the next `;`),
    `vq`    inside a quoted string of a parameter value, `vqe` right after a backslash in it. -/
inductive NsMode where
  | head | hq | hqe | uri | fnd | pnm | pvl | vq | vqe
  deriving DecidableEq, Repr, Inhabited

/-- one byte of the scan -/
def nsStep (m : NsMode) (c : UInt8) : NsMode :=
  match m with
  | .head => if c == 34 then .hq else if c == 60 then .uri else if c == 59 then .pnm else .head
  | .hq => if c == 34 then .head else if c == 92 then .hqe else .hq
  | .hqe => .hq
  | .uri => if c == 62 then .fnd else .uri
  | .fnd => if c == 59 then .pnm else .fnd
  | .pnm => if c == 61 then .pvl else .pnm
  | .pvl => if c == 59 then .pnm else if c == 34 then .vq else .pvl
  | .vq => if c == 34 then .pvl else if c == 92 then .vqe else .vq
  | .vqe => .vq

/-- outside quoted strings and outside `<` … `>` -/
def NsMode.top : NsMode → Bool
  | .head | .fnd | .pnm | .pvl => true
  | _ => false

/-- not right after a backslash -/
def NsMode.plain : NsMode → Bool
  | .hqe | .vqe => false
  | _ => true

/-- the mode in which byte `o + k` is read when the scan starts at `o` in mode `head` -/
def nsModeAt (b : Buf) (o : Nat) : Nat → NsMode
  | 0 => .head
  | k + 1 =>
    match b[o + k]? with
    | some c => nsStep (nsModeAt b o k) c
    | none => nsModeAt b o k

/-- **position `j` is at top level** of the value text that starts at `o` -/
def NsTop (b : Buf) (o j : Nat) : Prop := o ≤ j ∧ (nsModeAt b o (j - o)).top = true

/-- a top-level comma -/
def NsTopComma (b : Buf) (o j : Nat) : Prop := b[j]? = some 44 ∧ NsTop b o j

instance (b : Buf) (o j : Nat) : Decidable (NsTop b o j) := by unfold NsTop; exact inferInstance
instance (b : Buf) (o j : Nat) : Decidable (NsTopComma b o j) := by unfold NsTopComma; exact inferInstance

/-- no top-level comma in `[o, e)` -/
def NsNoComma (b : Buf) (o e : Nat) : Prop := ∀ j, o ≤ j → j < e → ¬ NsTopComma b o j

theorem nsStep_lws {m : NsMode} {c : UInt8} (hm : m.plain = true) (hc : isLWSch c = true) : nsStep m c = m := by
  have hc' : c = 32 ∨ c = 9 ∨ c = 13 ∨ c = 10 := by
    unfold isLWSch at hc
    simp only [Bool.or_eq_true, beq_iff_eq] at hc
    rcases hc with ((h | h) | h) | h
    · exact Or.inl h
    · exact Or.inr (Or.inl h)
    · exact Or.inr (Or.inr (Or.inl h))
    · exact Or.inr (Or.inr (Or.inr h))
  rcases hc' with rfl | rfl | rfl | rfl <;> cases m <;> first | rfl | cases hm

theorem ns_isLWSch_ne_comma {c : UInt8} (hc : isLWSch c = true) : c ≠ 44 := by
  intro h; subst h; revert hc; decide

/-- the scan has reached `i` in mode `m` and (for header kinds with several values) met no top-level comma so far -/
structure NsAt (mv : Bool) (b : Buf) (o i : Nat) (m : NsMode) : Prop where
  le : o ≤ i
  mode : nsModeAt b o (i - o) = m
  nc : mv = true → NsNoComma b o i

theorem NsAt.start (mv : Bool) (b : Buf) (o : Nat) : NsAt mv b o o .head :=
  ⟨Nat.le_refl _, by rw [Nat.sub_self]; rfl, fun _ j h1 h2 => by omega⟩

theorem nsModeAt_succ {b : Buf} {o i : Nat} {c : UInt8} (hoi : o ≤ i) (hb : b[i]? = some c) :
    nsModeAt b o (i + 1 - o) = nsStep (nsModeAt b o (i - o)) c := by
  have e1 : i + 1 - o = (i - o) + 1 := by omega
  have e2 : o + (i - o) = i := by omega
  rw [e1, nsModeAt, e2, hb]

/-- one byte: the comma (if it is one) must not be a separator -/
theorem NsAt.step {mv : Bool} {b : Buf} {o i : Nat} {m : NsMode} {c : UInt8} (h : NsAt mv b o i m) (hb : b[i]? = some c)
    (hc : mv = true → c = 44 → m.top = false) : NsAt mv b o (i + 1) (nsStep m c) := by
  refine ⟨by have := h.le; omega, by rw [nsModeAt_succ h.le hb, h.mode], fun hmv j h1 h2 => ?_⟩
  rcases Nat.lt_or_ge j i with hj | hj
  · exact h.nc hmv j h1 hj
  · have : j = i := by omega
    subst this
    rintro ⟨h44, _, htop⟩
    rw [hb] at h44
    cases h44
    rw [h.mode, hc hmv rfl] at htop
    cases htop

/-- a run of white space / line-end bytes changes nothing -/
theorem NsAt.run {mv : Bool} {b : Buf} {o i : Nat} {m : NsMode} (h : NsAt mv b o i m) (hm : m.plain = true)
    (n : Nat) (hin : i ≤ n) (hr : Run isLWSch b i n) : NsAt mv b o n m := by
  induction n with
  | zero =>
    have : i = 0 := by omega
    subst this; exact h
  | succ n ih =>
    rcases Nat.lt_or_ge i (n + 1) with hlt | hge
    · obtain ⟨c, hc, hl⟩ := hr n (by omega) (by omega)
      have h1 := ih (by omega) (fun k hk1 hk2 => hr k hk1 (by omega))
      have h2 := h1.step hc (fun _ h44 => absurd h44 (ns_isLWSch_ne_comma hl))
      rw [nsStep_lws hm hl] at h2
      exact h2
    · have : i = n + 1 := by omega
      subst this; exact h

/-- a backslash and the byte after it, inside a quoted string -/
theorem NsAt.esc {mv : Bool} {b : Buf} {o i : Nat} {m : NsMode} {c1 : UInt8} (h : NsAt mv b o i m)
    (hm : m = .hq ∨ m = .vq) (hb : b[i]? = some 92) (hb1 : b[i + 1]? = some c1) : NsAt mv b o (i + 2) m := by
  rcases hm with rfl | rfl
  · have h1 := h.step hb (fun _ _ => rfl)
    have h2 := h1.step hb1 (fun _ _ => rfl)
    exact h2
  · have h1 := h.step hb (fun _ _ => rfl)
    have h2 := h1.step hb1 (fun _ _ => rfl)
    exact h2

/-! ### B. the automaton follows the scanner -/

/-- the scanner mode of each automaton state (the unused `tag…` states and the final state have none) -/
def nsOf : FBState → Option NsMode
  | .init | .name | .nameOrURI | .nameOrURIEnd | .star => some .head
  | .quoted => some .hq
  | .uri => some .uri
  | .uriFound => some .fnd
  | .newParam | .newPossibleParam | .paramName | .possibleParamName | .paramNameEnd | .possibleParamNameEnd => some .pnm
  | .newParamVal | .newPossibleVal | .paramVal | .possibleVal | .paramValEnd | .possibleValEnd => some .pvl
  | .quotedVal | .quotedPossibleVal => some .vq
  | _ => none

theorem nsOf_plain {s : FBState} {m : NsMode} (h : nsOf s = some m) : m.plain = true := by
  cases s <;> simp only [nsOf, Option.some.injEq, reduceCtorEq] at h <;> subst h <;> rfl

/-- the loop invariant: the automaton is at `i` in a state whose scanner mode is the mode of the scan at `i` -/
def NsInv (h : Nat) (b : Buf) (o i : Nat) (pf : PFromBody) : Prop :=
  ∃ m, NsAt (multipleValsOk h) b o i m ∧ nsOf pf.state = some m

/-- the line end of the header: `o'` is the offset after a line end that starts at or after `o` and is not followed by
    SP / HT -/
def NsEol (b : Buf) (o o' : Nat) : Prop := ∃ p, o ≤ p ∧ Eol b p o' ∧ ∃ c2, b[o']? = some c2 ∧ isWS c2 = false

/-- what a finished call says about the text it consumed -/
structure NsPost (h : Nat) (b : Buf) (o o' : Nat) (e : Err) : Prop where
  more : e = .moreValues → multipleValsOk h = true ∧ o < o' ∧ b[o' - 1]? = some 44 ∧ NsTop b o (o' - 1) ∧
    NsNoComma b o (o' - 1)
  ok : e = .ok → NsEol b o o' ∧ (multipleValsOk h = true → NsNoComma b o o')

def nsStepOk (h : Nat) (b : Buf) (o : Nat) : Step PFromBody → Prop
  | .cont i' st' => NsInv h b o i' st'
  | .done o' e _ => NsPost h b o o' e

theorem ns_post_err {h : Nat} {b : Buf} {o o' : Nat} {e : Err} (h1 : e ≠ .ok) (h2 : e ≠ .moreValues) :
    NsPost h b o o' e := ⟨fun hh => absurd hh h2, fun hh => absurd hh h1⟩

theorem ns_eoh_err (h : Nat) (b : Buf) (pf : PFromBody) (i n crl : Nat) (r : Err) :
    (naEOH h b pf i n crl r).2.1 = r ∨ (naEOH h b pf i n crl r).2.1 = .bad ∨ (naEOH h b pf i n crl r).2.1 = .bug := by
  unfold naEOH naFinish
  cases pf.state <;> simp

/-- a comma met at top level by a header kind with several values -/
theorem ns_comma_post {h : Nat} {b : Buf} {o i : Nat} {m : NsMode} (hA : NsAt (multipleValsOk h) b o i m)
    (hm : m.top = true) (hb : b[i]? = some 44) (hmv : multipleValsOk h = true) (pf : PFromBody) (e : Nat) :
    NsPost h b o (naEOH h b pf e i 1 .moreValues).1 (naEOH h b pf e i 1 .moreValues).2.1 := by
  rw [naEOH_fst]
  refine ⟨fun _ => ?_, fun hok => ?_⟩
  · have e1 : i + 1 - 1 = i := by omega
    rw [e1]
    exact ⟨hmv, by have := hA.le; omega, hb, ⟨hA.le, by rw [hA.mode]; exact hm⟩, hA.nc hmv⟩
  · rcases ns_eoh_err h b pf e i 1 .moreValues with h1 | h1 | h1 <;> rw [h1] at hok <;> cases hok

theorem ns_moreValues {h : Nat} {b : Buf} {o i : Nat} {m : NsMode} (hA : NsAt (multipleValsOk h) b o i m)
    (hm : m.top = true) (hb : b[i]? = some 44) (hmv : multipleValsOk h = true) (pf : PFromBody) :
    nsStepOk h b o (naMoreValues h b pf i) := ns_comma_post hA hm hb hmv pf i

theorem ns_commaAfterWS {h : Nat} {b : Buf} {o i : Nat} {m : NsMode} (hA : NsAt (multipleValsOk h) b o i m)
    (hm : m.top = true) (hb : b[i]? = some 44) (pf : PFromBody) (e : Nat) :
    nsStepOk h b o (naCommaAfterWS h b pf i e) := by
  unfold naCommaAfterWS
  split
  · rename_i hmv; exact ns_comma_post hA hm hb hmv pf e
  · exact ns_post_err (by decide) (by decide)

/-- the bytes up to and including an accepted end of header are white space / line-end bytes -/
theorem ns_skipLWS_eoh_run (b : Buf) (i flags : Nat) {n crl : Nat} (h : skipLWS b i flags = (n, crl, .eoh))
    (hf : hasFlag flags POptInputEndF = false) : Run isLWSch b i (n + crl) := by
  fun_induction skipLWS b i flags with
  | case1 i hb => cases h
  | case2 i c hb hws ih => exact nr_run_append (nr_run_one hb (nr_isWS_lws hws)) (ih h)
  | case3 i c hb hws hcr n' crl' hs hb2 hfl => rw [hf] at hfl; cases hfl
  | case4 i c hb hws hcr n' crl' hs hb2 hfl => cases h
  | case5 i c hb hws hcr n' crl' hs c2 hb2 hws2 ih =>
    exact nr_run_append (nr_run_append (nr_skipCRLF_run hs) (nr_run_one hb2 (nr_isWS_lws hws2))) (ih h)
  | case6 i c hb hws hcr n' crl' hs c2 hb2 hws2 =>
    cases h
    have hn := (hs_skipCRLF_ok_eol hs).2
    rw [← hn]
    exact nr_skipCRLF_run hs
  | case7 i c hb hws hcr n' crl' e' hne hs =>
    cases h
    have := skipCRLF_verdicts hs
    simp at this
  | case8 i c hb hws hcr => cases h

/-- what `skipLWS` did at a white-space byte, in terms of the scan -/
theorem ns_skipLWS {h : Nat} {b : Buf} {o i : Nat} {m : NsMode} (hA : NsAt (multipleValsOk h) b o i m)
    (hm : m.plain = true) {n crl : Nat} {e : Err} (hsk : skipLWS b i 0 = (n, crl, e)) :
    (e = .ok → NsAt (multipleValsOk h) b o n m) ∧
    (e = .eoh → ∀ (pf : PFromBody) (j : Nat),
      NsPost h b o (naEOH h b pf j n crl .ok).1 (naEOH h b pf j n crl .ok).2.1) ∧
    (e = .ok ∨ e = .eoh ∨ e = .noCR ∨ e = .moreBytes) := by
  refine ⟨fun he => ?_, fun he pf j => ?_, skipLWS_verdicts b i 0 hsk⟩
  · subst he
    exact hA.run hm n (skipLWS_range b i 0 hsk).1 (nr_skipLWS_run b i 0 hsk)
  · subst he
    rw [naEOH_fst]
    have hrun := ns_skipLWS_eoh_run b i 0 hsk (by decide)
    obtain ⟨h1, h2, h3⟩ := hs_skipLWS_eoh b i 0 hsk (by decide)
    have hr := skipLWS_eoh_range b i 0 hsk (by decide)
    refine ⟨fun hmo => ?_, fun _ => ⟨⟨n, by have := hA.le; omega, h2, h3⟩, fun hmv => ?_⟩⟩
    · rcases ns_eoh_err h b pf j n crl .ok with e1 | e1 | e1 <;> rw [e1] at hmo <;> cases hmo
    · exact (hA.run hm (n + crl) (by omega) hrun).nc hmv

theorem ns_naLWS {h : Nat} {b : Buf} {o i : Nat} {pf : PFromBody} (hI : NsInv h b o i pf) :
    nsStepOk h b o (naLWS h b i pf) := by
  obtain ⟨m, hA, hm⟩ := hI
  unfold naLWS lwsStd
  rcases hsk : skipLWS b i 0 with ⟨n, crl, e⟩
  obtain ⟨k1, k2, k3⟩ := ns_skipLWS hA (nsOf_plain hm) hsk
  rcases k3 with rfl | rfl | rfl | rfl <;> simp only
  · exact ⟨m, k1 rfl, hm⟩
  · exact k2 rfl pf i
  · exact ns_post_err (by decide) (by decide)
  · exact ns_post_err (by decide) (by decide)

theorem ns_cont1 {h : Nat} {b : Buf} {o i : Nat} {m : NsMode} {c : UInt8} {st' : PFromBody}
    (hA : NsAt (multipleValsOk h) b o i m) (hb : b[i]? = some c)
    (hc : multipleValsOk h = true → c = 44 → m.top = false) (hs : nsOf st'.state = some (nsStep m c)) :
    nsStepOk h b o (.cont (i + 1) st') := ⟨_, hA.step hb hc, hs⟩

theorem ns_b44 {b : Buf} {i : Nat} {c : UInt8} (hb : b[i]? = some c) (hc : (c == 44) = true) : b[i]? = some 44 := by
  rw [hb]; simp only [beq_iff_eq] at hc; rw [hc]

/-- closes the goal of a continuing one-byte step -/
macro "ns_cont" hA:ident hb:ident : tactic =>
  `(tactic| (refine ns_cont1 $hA $hb ?_ ?_
             · intro hmv h44
               first | rfl | contradiction | (subst h44; simp_all)
             · simp_all [nsOf, nsStep]))

theorem ns_stepA (h : Nat) {b : Buf} {o i : Nat} {pf : PFromBody} (c : UInt8) (hb : b[i]? = some c)
    (hI : NsInv h b o i pf)
    (hg : pf.state = .init ∨ pf.state = .name ∨ pf.state = .nameOrURI ∨ pf.state = .nameOrURIEnd) :
    nsStepOk h b o (naStepA h b i c pf) := by
  have hI' := hI
  obtain ⟨m, hA, hm⟩ := hI
  unfold naStepA
  rcases hg with g | g | g | g <;> simp only [g, nsOf, Option.some.injEq] at hm <;> subst hm <;>
    simp +decide only [g, ↓reduceIte] <;> repeat' split
  all_goals first
    | exact ns_naLWS hI'
    | exact ns_naLWS ⟨_, hA, rfl⟩
    | exact ns_post_err (by decide) (by decide)
    | exact ns_moreValues hA rfl (ns_b44 hb (by assumption)) (by assumption) pf
    | ns_cont hA hb

theorem ns_stepQ (h : Nat) {b : Buf} {o i : Nat} {pf : PFromBody} (c : UInt8) (hb : b[i]? = some c)
    (hI : NsInv h b o i pf)
    (hg : pf.state = .quoted ∨ pf.state = .quotedVal ∨ pf.state = .quotedPossibleVal) :
    nsStepOk h b o (naStepQ h b i c pf) := by
  have hI' := hI
  obtain ⟨m, hA, hm⟩ := hI
  unfold naStepQ
  rcases hg with g | g | g <;> simp only [g, nsOf, Option.some.injEq] at hm <;> subst hm <;>
    simp +decide only [g, ↓reduceIte] <;> repeat' split
  all_goals first
    | exact ns_naLWS hI'
    | exact ns_post_err (by decide) (by decide)
    | (rename_i h92 _ c1 hb1 _
       have hb' : b[i]? = some 92 := by rw [hb]; simp only [beq_iff_eq] at h92; rw [h92]
       first
         | exact ⟨_, hA.esc (Or.inl rfl) hb' hb1, by rw [g]; rfl⟩
         | exact ⟨_, hA.esc (Or.inr rfl) hb' hb1, by rw [g]; rfl⟩)
    | ns_cont hA hb

theorem ns_stepU (h : Nat) {b : Buf} {o i : Nat} {pf : PFromBody} (c : UInt8) (hb : b[i]? = some c)
    (hI : NsInv h b o i pf) (g : pf.state = .uri) : nsStepOk h b o (naStepU i c pf) := by
  obtain ⟨m, hA, hm⟩ := hI
  unfold naStepU
  simp only [g, nsOf, Option.some.injEq] at hm
  subst hm
  repeat' split
  all_goals first
    | exact ns_post_err (by decide) (by decide)
    | ns_cont hA hb

theorem ns_stepUF (h : Nat) {b : Buf} {o i : Nat} {pf : PFromBody} (c : UInt8) (hb : b[i]? = some c)
    (hI : NsInv h b o i pf) (g : pf.state = .uriFound) : nsStepOk h b o (naStepUF h b i c pf) := by
  have hI' := hI
  obtain ⟨m, hA, hm⟩ := hI
  unfold naStepUF
  simp only [g, nsOf, Option.some.injEq] at hm
  subst hm
  repeat' split
  all_goals first
    | exact ns_naLWS hI'
    | exact ns_moreValues hA rfl (ns_b44 hb (by assumption)) (by assumption) pf
    | ns_cont hA hb

theorem ns_stepStar (h : Nat) {b : Buf} {o i : Nat} {pf : PFromBody} (c : UInt8)
    (hI : NsInv h b o i pf) : nsStepOk h b o (naStepStar h b i c pf) := by
  unfold naStepStar
  split
  · exact ns_naLWS hI
  · exact ns_post_err (by decide) (by decide)

theorem naNameWS_nsOf (pf : PFromBody) (i : Nat) (hm : nsOf pf.state = some .pnm) :
    nsOf (naNameWS pf i).state = some .pnm := by
  unfold naNameWS
  repeat' split
  all_goals first | exact hm | rfl

theorem naParam_nsOf (pf : PFromBody) (i : Nat) (hm : nsOf pf.state = some .pnm) :
    nsOf (naParamsOffs (naParamStart pf i) i).state = some .pnm := by
  unfold naParamsOffs naParamStart
  repeat' split
  all_goals first | exact hm | rfl

theorem ns_stepP (h : Nat) {b : Buf} {o i : Nat} {pf : PFromBody} (c : UInt8) (hb : b[i]? = some c)
    (hI : NsInv h b o i pf)
    (hg : pf.state = .newParam ∨ pf.state = .newPossibleParam ∨ pf.state = .paramName ∨ pf.state = .possibleParamName) :
    nsStepOk h b o (naStepP h b i c pf) := by
  obtain ⟨m, hA, hm⟩ := hI
  have hm' : nsOf pf.state = some .pnm := by rcases hg with g | g | g | g <;> rw [g] <;> rfl
  rw [hm'] at hm
  cases hm
  unfold naStepP
  split
  · rcases hsk : skipLWS b i 0 with ⟨n, crl, e⟩
    obtain ⟨k1, k2, k3⟩ := ns_skipLWS hA rfl hsk
    rcases k3 with rfl | rfl | rfl | rfl <;> simp only
    · exact ⟨_, k1 rfl, naNameWS_nsOf pf i hm'⟩
    · exact k2 rfl _ i
    · exact ns_post_err (by decide) (by decide)
    · exact ns_post_err (by decide) (by decide)
  · rcases hg with g | g | g | g <;> simp +decide only [g, ↓reduceIte] <;> repeat' split
    all_goals first
      | exact ns_post_err (by decide) (by decide)
      | exact ns_moreValues hA rfl (ns_b44 hb (by assumption)) (by assumption) pf
      | (refine ns_cont1 hA hb (fun _ h44 => by simp_all) ?_
         rw [naParam_nsOf pf i hm']; simp_all [nsStep])
      | (refine ns_cont1 hA hb (fun _ h44 => by simp_all) ?_
         rw [setFromParamVal_state]; simp_all [nsStep, nsOf])
      | ns_cont hA hb

theorem ns_stepPE (h : Nat) {b : Buf} {o i : Nat} {pf : PFromBody} (c : UInt8) (hb : b[i]? = some c)
    (hI : NsInv h b o i pf) (hg : pf.state = .paramNameEnd ∨ pf.state = .possibleParamNameEnd) :
    nsStepOk h b o (naStepPE h b i c pf) := by
  obtain ⟨m, hA, hm⟩ := hI
  have hm' : nsOf pf.state = some .pnm := by rcases hg with g | g <;> rw [g] <;> rfl
  rw [hm'] at hm
  cases hm
  unfold naStepPE
  rcases hg with g | g <;> simp +decide only [g, ↓reduceIte] <;> repeat' split
  all_goals first
    | exact ns_post_err (by decide) (by decide)
    | exact ns_commaAfterWS hA rfl (ns_b44 hb (by assumption)) pf _
    | (refine ns_cont1 hA hb (fun _ h44 => by simp_all) ?_
       rw [setFromParamVal_state]; simp_all [nsStep, nsOf])
    | ns_cont hA hb

theorem naValWS_nsOf (pf : PFromBody) (i n : Nat) (ok : Bool) (hm : nsOf pf.state = some .pvl) :
    nsOf (naValWS pf i n ok).state = some .pvl := by
  unfold naValWS
  repeat' split
  all_goals first | exact hm | rfl

theorem ns_stepV (h : Nat) {b : Buf} {o i : Nat} {pf : PFromBody} (c : UInt8) (hb : b[i]? = some c)
    (hI : NsInv h b o i pf)
    (hg : pf.state = .newParamVal ∨ pf.state = .newPossibleVal ∨ pf.state = .paramVal ∨ pf.state = .possibleVal) :
    nsStepOk h b o (naStepV h b i c pf) := by
  obtain ⟨m, hA, hm⟩ := hI
  have hm' : nsOf pf.state = some .pvl := by rcases hg with g | g | g | g <;> rw [g] <;> rfl
  rw [hm'] at hm
  cases hm
  unfold naStepV
  split
  · rcases hsk : skipLWS b i 0 with ⟨n, crl, e⟩
    obtain ⟨k1, k2, k3⟩ := ns_skipLWS hA rfl hsk
    rcases k3 with rfl | rfl | rfl | rfl <;> simp only
    · exact ⟨_, k1 rfl, naValWS_nsOf pf i n true hm'⟩
    · exact k2 rfl _ i
    · exact ns_post_err (by decide) (by decide)
    · exact ns_post_err (by decide) (by decide)
  · rcases hg with g | g | g | g <;> simp +decide only [g, ↓reduceIte] <;> repeat' split
    all_goals first
      | exact ns_post_err (by decide) (by decide)
      | exact ns_moreValues hA rfl (ns_b44 hb (by assumption)) (by assumption) pf
      | (refine ns_cont1 hA hb (fun _ h44 => by simp_all) ?_
         rw [setFromParamVal_state]; simp_all [nsStep, nsOf])
      | ns_cont hA hb

theorem ns_stepVE (h : Nat) {b : Buf} {o i : Nat} {pf : PFromBody} (c : UInt8) (hb : b[i]? = some c)
    (hI : NsInv h b o i pf) (hg : pf.state = .paramValEnd ∨ pf.state = .possibleValEnd) :
    nsStepOk h b o (naStepVE h b i c pf) := by
  obtain ⟨m, hA, hm⟩ := hI
  have hm' : nsOf pf.state = some .pvl := by rcases hg with g | g <;> rw [g] <;> rfl
  rw [hm'] at hm
  cases hm
  unfold naStepVE
  rcases hg with g | g <;> simp +decide only [g, ↓reduceIte] <;> repeat' split
  all_goals first
    | exact ns_post_err (by decide) (by decide)
    | exact ns_commaAfterWS hA rfl (ns_b44 hb (by assumption)) pf _
    | (refine ns_cont1 hA hb (fun _ h44 => by simp_all) ?_
       rw [setFromParamVal_state]; simp_all [nsStep, nsOf])
    | ns_cont hA hb

/-- every iteration of the loop body keeps the invariant or ends with the post-condition -/
theorem ns_step (h : Nat) {b : Buf} {o i : Nat} {pf : PFromBody} (c : UInt8) (hb : b[i]? = some c)
    (hI : NsInv h b o i pf) : nsStepOk h b o (naStep h b i c pf) := by
  unfold naStep
  cases g : pf.state <;> simp only
  all_goals first
    | exact ns_stepA h c hb hI (by simp [g])
    | exact ns_stepQ h c hb hI (by simp [g])
    | exact ns_stepU h c hb hI g
    | exact ns_stepUF h c hb hI g
    | exact ns_stepP h c hb hI (by simp [g])
    | exact ns_stepPE h c hb hI (by simp [g])
    | exact ns_stepV h c hb hI (by simp [g])
    | exact ns_stepVE h c hb hI (by simp [g])
    | exact ns_stepStar h c hI
    | (obtain ⟨m, _, hm⟩ := hI; rw [g] at hm; cases hm)

/-! ### C. the loop and ParseNameAddrPVal -/

theorem ns_runLoop (h : Nat) (b : Buf) (o i : Nat) (pf : PFromBody) (hI : NsInv h b o i pf) :
    NsPost h b o (runLoop (naMachine h) b i pf).1 (runLoop (naMachine h) b i pf).2.1 := by
  apply runLoop_inv (naMachine h) b (fun i st => NsInv h b o i st) (fun r => NsPost h b o r.1 r.2.1)
  · intro i c st i' st' hb hP hs
    have := ns_step h c hb hP
    have hs' : naStep h b i c st = .cont i' st' := hs
    rw [hs'] at this
    exact ⟨fun _ => this, fun _ => ns_post_err (e := Err.lbug) (by decide) (by decide)⟩
  · intro i c st o' e st' hb hP hs
    have := ns_step h c hb hP
    have hs' : naStep h b i c st = .done o' e st' := hs
    rw [hs'] at this
    exact this
  · intro i st _ _
    exact ns_post_err (e := Err.moreBytes) (by decide) (by decide)
  · exact hI

/-- **the converse of the splitting rule, value level, any object that is at the start of a value** -/
theorem ns_parse (h : Nat) (b : Buf) (o : Nat) (pf : PFromBody) (hst : pf.state = .init) {o' : Nat} {e : Err}
    {pf' : PFromBody} (hp : parseNameAddrPVal h b o pf = (o', e, pf')) : NsPost h b o o' e := by
  unfold parseNameAddrPVal at hp
  rw [if_neg (by rw [hst]; decide)] at hp
  simp only [Prod.mk.injEq] at hp
  obtain ⟨h1, h2, _⟩ := hp
  rw [← h1, ← h2]
  exact ns_runLoop h b o o _ ⟨.head, NsAt.start _ b o, by dsimp only; rw [hst]; rfl⟩

/-! ### D. header kinds with a single value never answer "more values" (any object, any state) -/

def nsNoMore : Step PFromBody → Prop
  | .cont _ _ => True
  | .done _ e _ => e ≠ .moreValues

theorem ns_nm_eoh (h : Nat) (b : Buf) (pf : PFromBody) (i n crl : Nat) :
    (naEOH h b pf i n crl .ok).2.1 ≠ .moreValues := by
  intro hh
  rcases ns_eoh_err h b pf i n crl .ok with e1 | e1 | e1 <;> rw [e1] at hh <;> cases hh

theorem ns_nm_lws (h : Nat) (b : Buf) (i : Nat) (pf : PFromBody) : nsNoMore (naLWS h b i pf) := by
  unfold naLWS lwsStd
  rcases hsk : skipLWS b i 0 with ⟨n, crl, e⟩
  rcases skipLWS_verdicts b i 0 hsk with rfl | rfl | rfl | rfl <;> simp only [nsNoMore]
  · exact ns_nm_eoh h b pf i n crl
  · decide
  · decide

theorem ns_nm_A (h : Nat) (hmv : multipleValsOk h = false) (b : Buf) (i : Nat) (c : UInt8) (pf : PFromBody) :
    nsNoMore (naStepA h b i c pf) := by
  unfold naStepA; simp only [hmv]; repeat' split
  all_goals first | trivial | exact ns_nm_lws _ _ _ _ | (simp only [nsNoMore]; decide)

theorem ns_nm_Q (h : Nat) (b : Buf) (i : Nat) (c : UInt8) (pf : PFromBody) : nsNoMore (naStepQ h b i c pf) := by
  unfold naStepQ; repeat' split
  all_goals first | trivial | exact ns_nm_lws _ _ _ _ | (simp only [nsNoMore]; decide)

theorem ns_nm_U (i : Nat) (c : UInt8) (pf : PFromBody) : nsNoMore (naStepU i c pf) := by
  unfold naStepU; repeat' split
  all_goals first | trivial | (simp only [nsNoMore]; decide)

theorem ns_nm_UF (h : Nat) (hmv : multipleValsOk h = false) (b : Buf) (i : Nat) (c : UInt8) (pf : PFromBody) :
    nsNoMore (naStepUF h b i c pf) := by
  unfold naStepUF; simp only [hmv]; repeat' split
  all_goals first | trivial | exact ns_nm_lws _ _ _ _ | (simp only [nsNoMore]; decide)

theorem ns_nm_P (h : Nat) (hmv : multipleValsOk h = false) (b : Buf) (i : Nat) (c : UInt8) (pf : PFromBody) :
    nsNoMore (naStepP h b i c pf) := by
  unfold naStepP; simp only [hmv]
  split
  · rcases hsk : skipLWS b i 0 with ⟨n, crl, e⟩
    rcases skipLWS_verdicts b i 0 hsk with rfl | rfl | rfl | rfl <;> simp only [nsNoMore]
    · exact ns_nm_eoh h b _ i n crl
    · decide
    · decide
  · repeat' split
    all_goals first | trivial | (simp only [nsNoMore]; decide)

theorem ns_nm_PE (h : Nat) (hmv : multipleValsOk h = false) (b : Buf) (i : Nat) (c : UInt8) (pf : PFromBody) :
    nsNoMore (naStepPE h b i c pf) := by
  unfold naStepPE naCommaAfterWS; simp only [hmv]; repeat' split
  all_goals first | trivial | (simp only [nsNoMore]; decide)

theorem ns_nm_V (h : Nat) (hmv : multipleValsOk h = false) (b : Buf) (i : Nat) (c : UInt8) (pf : PFromBody) :
    nsNoMore (naStepV h b i c pf) := by
  unfold naStepV; simp only [hmv]
  split
  · rcases hsk : skipLWS b i 0 with ⟨n, crl, e⟩
    rcases skipLWS_verdicts b i 0 hsk with rfl | rfl | rfl | rfl <;> simp only [nsNoMore]
    · exact ns_nm_eoh h b _ i n crl
    · decide
    · decide
  · repeat' split
    all_goals first | trivial | (simp only [nsNoMore]; decide)

theorem ns_nm_VE (h : Nat) (hmv : multipleValsOk h = false) (b : Buf) (i : Nat) (c : UInt8) (pf : PFromBody) :
    nsNoMore (naStepVE h b i c pf) := by
  unfold naStepVE naCommaAfterWS; simp only [hmv]; repeat' split
  all_goals first | trivial | (simp only [nsNoMore]; decide)

theorem ns_nm_Star (h : Nat) (b : Buf) (i : Nat) (c : UInt8) (pf : PFromBody) : nsNoMore (naStepStar h b i c pf) := by
  unfold naStepStar; split
  · exact ns_nm_lws _ _ _ _
  · simp only [nsNoMore]; decide

theorem ns_nm_step (h : Nat) (hmv : multipleValsOk h = false) (b : Buf) (i : Nat) (c : UInt8) (pf : PFromBody) :
    nsNoMore (naStep h b i c pf) := by
  unfold naStep
  split
  all_goals first
    | exact ns_nm_A h hmv b i c pf
    | exact ns_nm_Q h b i c pf
    | exact ns_nm_U i c pf
    | exact ns_nm_UF h hmv b i c pf
    | exact ns_nm_P h hmv b i c pf
    | exact ns_nm_PE h hmv b i c pf
    | exact ns_nm_V h hmv b i c pf
    | exact ns_nm_VE h hmv b i c pf
    | exact ns_nm_Star h b i c pf
    | trivial

/-- **(3)** a header kind with a single value (From, To, …): the verdict is never "more values", whatever the input
    and whatever object is passed in -/
theorem ns_single_never_more (h : Nat) (hmv : multipleValsOk h = false) (b : Buf) (o : Nat) (pf : PFromBody) :
    (parseNameAddrPVal h b o pf).2.1 ≠ .moreValues := by
  unfold parseNameAddrPVal
  split
  · show Err.ok ≠ Err.moreValues
    decide
  · dsimp only
    apply runLoop_inv (naMachine h) b (fun _ _ => True) (fun r => r.2.1 ≠ .moreValues)
    · intro i c st i' st' _ _ _
      refine ⟨fun _ => trivial, fun _ => ?_⟩
      show Err.lbug ≠ Err.moreValues
      decide
    · intro i c st o' e st' _ _ hs
      have := ns_nm_step h hmv b i c st
      have hs' : naStep h b i c st = .done o' e st' := hs
      rw [hs'] at this
      exact this
    · intro i st _ _
      show Err.moreBytes ≠ Err.moreValues
      decide
    · trivial

/-! ### E. value level, stated for a new object -/

/-- **(1a)** "more values": the byte before the returned offset is a comma, it is at top level, and it is the FIRST
    top-level comma of the text that starts at `o` -/
theorem ns_value_more (h : Nat) (b : Buf) (o : Nat) {o' : Nat} {pf' : PFromBody}
    (hp : parseNameAddrPVal h b o {} = (o', .moreValues, pf')) :
    multipleValsOk h = true ∧ o < o' ∧ b[o' - 1]? = some 44 ∧ NsTop b o (o' - 1) ∧ NsNoComma b o (o' - 1) :=
  (ns_parse h b o {} rfl hp).more rfl

/-- **(1b)** OK: the returned offset is the one after the line end of the header, and (header kinds with several
    values) there is no top-level comma before it -/
theorem ns_value_ok (h : Nat) (b : Buf) (o : Nat) {o' : Nat} {pf' : PFromBody}
    (hp : parseNameAddrPVal h b o {} = (o', .ok, pf')) :
    NsEol b o o' ∧ (multipleValsOk h = true → NsNoComma b o o') :=
  (ns_parse h b o {} rfl hp).ok rfl

/-! ### F. list level: ParseAllContactValues / ParseAllPAIValues, converse direction -/

/-- the text `[o, o')` cut at its top-level commas (the scan restarts after each of them), with the value the value
    parser reports for each piece: every piece but the last ends with the first top-level comma after its start, the last
    one with the line end of the header and has no top-level comma -/
inductive NsSegs (h : Nat) (b : Buf) : Nat → List (Nat × PFromBody) → Nat → Prop
  | last (o o' : Nat) (r : PFromBody) : parseNameAddrPVal h b o {} = (o', .ok, r) → NsNoComma b o o' → NsEol b o o' →
      NsSegs h b o [(o, r)] o'
  | cons (o j o' : Nat) (r : PFromBody) (rest : List (Nat × PFromBody)) :
      parseNameAddrPVal h b o {} = (j + 1, .moreValues, r) → b[j]? = some 44 → NsTop b o j → NsNoComma b o j →
      NsSegs h b (j + 1) rest o' → NsSegs h b o ((o, r) :: rest) o'

theorem NsSegs.ne_nil {h : Nat} {b : Buf} {o o' : Nat} {L : List (Nat × PFromBody)} (H : NsSegs h b o L o') : L ≠ [] := by
  cases H <;> simp

theorem ns_mv_contact : multipleValsOk HdrContact = true := by decide
theorem ns_mv_pai : multipleValsOk HdrPAI = true := by decide

theorem contactsLoop_segs (b : Buf) (o' : Nat) (c' : PContacts) :
    ∀ (o : Nat) (c : PContacts), CtClean c → c.cur = {} → contactsLoop b o c = (o', .ok, c') →
      ∃ L, NsSegs HdrContact b o L o' ∧ c' = c.acceptAll (L.map Prod.snd) := by
  intro o
  induction hk : b.size - o using Nat.strongRecOn generalizing o with
  | _ k ih =>
    intro c hcl hcur hp
    rw [contactsLoop] at hp
    simp only [hcur] at hp
    rcases hq : parseOneContact b o {} with ⟨next, e, pf⟩
    rw [hq] at hp
    unfold parseOneContact at hq
    cases e <;> simp only at hp
    case ok =>
      simp only [Prod.mk.injEq, true_and] at hp
      obtain ⟨rfl, rfl⟩ := hp
      have hv := ns_value_ok HdrContact b o hq
      exact ⟨[(o, pf)], .last o _ pf hq (hv.2 ns_mv_contact) hv.1, rfl⟩
    case moreValues =>
      split at hp
      · rename_i hr
        obtain ⟨_, h2, h3, h4, h5⟩ := ns_value_more HdrContact b o hq
        have hj : next = (next - 1) + 1 := by omega
        have hnext := next_clean c pf hcl
        obtain ⟨L, hL, hc'⟩ := ih (b.size - next) (by omega) next rfl (c.next pf) hnext.1 hnext.2 hp
        rw [hj] at hq hL
        refine ⟨(o, pf) :: L, .cons o (next - 1) o' pf L hq h3 h4 h5 hL, ?_⟩
        have hne := hL.ne_nil
        cases L with
        | nil => exact absurd rfl hne
        | cons x xs => rw [hc']; rfl
      · simp only [Prod.mk.injEq, reduceCtorEq, false_and, and_false] at hp
    all_goals (simp only [Prod.mk.injEq, reduceCtorEq, false_and, and_false] at hp)

/-- the scratch-slot normalisation of the wrappers does nothing on an object whose current slot is new -/
theorem ns_ct_wrap (c : PContacts) (hcur : c.cur = {}) :
    (decide (c.n ≥ c.vals.size) && c.last.parsed) = false := by
  by_cases hin : c.n < c.vals.size
  · have : decide (c.n ≥ c.vals.size) = false := by simp; omega
    rw [this]; rfl
  · have hl : c.last = {} := by
      unfold PContacts.cur at hcur; rw [if_neg hin] at hcur; exact hcur
    rw [hl]; simp [PFromBody.parsed]

/-- **(2) ParseAllContactValues, converse**: whenever it answers OK — any buffer, any offset, any capacity — the text
    it consumed is cut at its top-level commas into pieces (`NsSegs`), and the object is the old one after accepting,
    in order, exactly the values the value parser reports for those pieces -/
theorem parseAllContactValues_segs (b : Buf) (o : Nat) (c : PContacts) (hc : CtClean c) (hcur : c.cur = {})
    {o' : Nat} {c' : PContacts} (hp : parseAllContactValues b o c = (o', .ok, c')) :
    ∃ L, NsSegs HdrContact b o L o' ∧ c' = c.acceptAll (L.map Prod.snd) := by
  unfold parseAllContactValues at hp
  simp only [ns_ct_wrap c hcur, Bool.false_eq_true, ↓reduceIte] at hp
  exact contactsLoop_segs b o' c' o c hc hcur hp

theorem ns_onePAI {b : Buf} {o : Nat} {pf0 : PFromBody} {n : Nat} {e : Err} {pf : PFromBody}
    (hq : parseOnePAI b o pf0 = (n, e, pf)) (he : e = .ok ∨ e = .moreValues) :
    parseNameAddrPVal HdrPAI b o pf0 = (n, e, pf) ∧ pf.star = false := by
  unfold parseOnePAI at hq
  rcases hr : parseNameAddrPVal HdrPAI b o pf0 with ⟨n1, e1, pf1⟩
  rw [hr] at hq
  simp only at hq
  split at hq
  · simp only [Prod.mk.injEq] at hq
    obtain ⟨_, h2, _⟩ := hq
    rcases he with he | he <;> rw [he] at h2 <;> cases h2
  · rename_i hns
    simp only [Prod.mk.injEq] at hq
    obtain ⟨rfl, rfl, rfl⟩ := hq
    refine ⟨rfl, ?_⟩
    cases hst : pf1.star with
    | false => rfl
    | true =>
      exfalso; apply hns
      rcases he with he | he <;> rw [he, hst] <;> rfl

theorem paisLoop_segs (b : Buf) (o' : Nat) (c' : PPAIs) :
    ∀ (o : Nat) (c : PPAIs), PaClean c → c.cur = {} → paisLoop b o c = (o', .ok, c') →
      ∃ L, NsSegs HdrPAI b o L o' ∧ c' = c.acceptAll (L.map Prod.snd) ∧ ∀ x ∈ L, x.2.star = false := by
  intro o
  induction hk : b.size - o using Nat.strongRecOn generalizing o with
  | _ k ih =>
    intro c hcl hcur hp
    rw [paisLoop] at hp
    simp only [hcur] at hp
    rcases hq : parseOnePAI b o {} with ⟨next, e, pf⟩
    rw [hq] at hp
    cases e <;> simp only at hp
    case ok =>
      simp only [Prod.mk.injEq, true_and] at hp
      obtain ⟨rfl, rfl⟩ := hp
      obtain ⟨hq', hstar⟩ := ns_onePAI hq (Or.inl rfl)
      have hv := ns_value_ok HdrPAI b o hq'
      refine ⟨[(o, pf)], .last o _ pf hq' (hv.2 ns_mv_pai) hv.1, rfl, ?_⟩
      intro x hx
      simp only [List.mem_singleton] at hx
      rw [hx]; exact hstar
    case moreValues =>
      split at hp
      · rename_i hr
        obtain ⟨hq', hstar⟩ := ns_onePAI hq (Or.inr rfl)
        obtain ⟨_, h2, h3, h4, h5⟩ := ns_value_more HdrPAI b o hq'
        have hj : next = (next - 1) + 1 := by omega
        have hnext := paNext_clean c pf hcl
        obtain ⟨L, hL, hc', hs⟩ := ih (b.size - next) (by omega) next rfl (c.next pf) hnext.1 hnext.2 hp
        rw [hj] at hq' hL
        refine ⟨(o, pf) :: L, .cons o (next - 1) o' pf L hq' h3 h4 h5 hL, ?_, ?_⟩
        · have hne := hL.ne_nil
          cases L with
          | nil => exact absurd rfl hne
          | cons x xs => rw [hc']; rfl
        · intro x hx
          rcases List.mem_cons.1 hx with hx | hx
          · rw [hx]; exact hstar
          · exact hs x hx
      · simp only [Prod.mk.injEq, reduceCtorEq, false_and, and_false] at hp
    all_goals (simp only [Prod.mk.injEq, reduceCtorEq, false_and, and_false] at hp)

theorem ns_pa_wrap (c : PPAIs) (hcur : c.cur = {}) :
    (decide (c.n ≥ c.vals.size) && c.last.parsed) = false := by
  by_cases hin : c.n < c.vals.size
  · have : decide (c.n ≥ c.vals.size) = false := by simp; omega
    rw [this]; rfl
  · have hl : c.last = {} := by
      unfold PPAIs.cur at hcur; rw [if_neg hin] at hcur; exact hcur
    rw [hl]; simp [PFromBody.parsed]

/-- **(2) ParseAllPAIValues, converse** (no accepted value is `*`) -/
theorem parseAllPAIValues_segs (b : Buf) (o : Nat) (c : PPAIs) (hc : PaClean c) (hcur : c.cur = {})
    {o' : Nat} {c' : PPAIs} (hp : parseAllPAIValues b o c = (o', .ok, c')) :
    ∃ L, NsSegs HdrPAI b o L o' ∧ c' = c.acceptAll (L.map Prod.snd) ∧ ∀ x ∈ L, x.2.star = false := by
  unfold parseAllPAIValues at hp
  simp only [ns_pa_wrap c hcur, Bool.false_eq_true, ↓reduceIte] at hp
  exact paisLoop_segs b o' c' o c hc hcur hp

/-! ### G. counting the top-level commas of a text (a scanner of its own; restarts after each such comma) -/

/-- mode and number of top-level commas after `k` bytes from `o` -/
def nsScanR (b : Buf) (o : Nat) : Nat → NsMode × Nat
  | 0 => (.head, 0)
  | k + 1 =>
    match b[o + k]? with
    | some c =>
      if c == 44 && (nsScanR b o k).1.top then (.head, (nsScanR b o k).2 + 1)
      else (nsStep (nsScanR b o k).1 c, (nsScanR b o k).2)
    | none => nsScanR b o k

/-- **the number of top-level commas of the text `[o, e)`** -/
def nsCommaCount (b : Buf) (o e : Nat) : Nat := (nsScanR b o (e - o)).2

theorem nsScanR_nocomma (b : Buf) (o : Nat) : ∀ k, NsNoComma b o (o + k) → nsScanR b o k = (nsModeAt b o k, 0) := by
  intro k
  induction k with
  | zero => intro _; rfl
  | succ k ih =>
    intro hn
    have h1 := ih (fun j h1 h2 => hn j h1 (by omega))
    rw [nsScanR, nsModeAt, h1]
    cases hb : b[o + k]? with
    | none => rfl
    | some c =>
      simp only
      by_cases hc : (c == 44 && (nsModeAt b o k).top) = true
      · exfalso
        simp only [Bool.and_eq_true, beq_iff_eq] at hc
        refine hn (o + k) (by omega) (by omega) ⟨by rw [hb, hc.1], by omega, ?_⟩
        have : o + k - o = k := by omega
        rw [this]; exact hc.2
      · rw [if_neg hc]

theorem nsScanR_restart (b : Buf) (o k1 n : Nat) (h : nsScanR b o k1 = (.head, n)) :
    ∀ k, nsScanR b o (k1 + k) = ((nsScanR b (o + k1) k).1, n + (nsScanR b (o + k1) k).2) := by
  intro k
  induction k with
  | zero => rw [Nat.add_zero, h]; rfl
  | succ k ih =>
    have e1 : k1 + (k + 1) = (k1 + k) + 1 := by omega
    have e2 : o + (k1 + k) = o + k1 + k := by omega
    rw [e1, nsScanR, nsScanR, e2, ih]
    cases b[o + k1 + k]? with
    | none => rfl
    | some c =>
      simp only
      split
      · simp only [Prod.mk.injEq, true_and]; omega
      · rfl

theorem NsEol.lt {b : Buf} {o o' : Nat} (h : NsEol b o o') : o < o' := by
  obtain ⟨p, h1, h2, _⟩ := h
  have := h2.gt
  omega

/-- the pieces of `NsSegs` are one more than the top-level commas of the text -/
theorem NsSegs.count {h : Nat} {b : Buf} {o o' : Nat} {L : List (Nat × PFromBody)} (H : NsSegs h b o L o') :
    o < o' ∧ L.length = nsCommaCount b o o' + 1 := by
  induction H with
  | last o o' r _ hn he =>
    have hlt := he.lt
    refine ⟨hlt, ?_⟩
    have e : o + (o' - o) = o' := by omega
    unfold nsCommaCount
    rw [nsScanR_nocomma b o (o' - o) (by rw [e]; exact hn)]
    rfl
  | cons o j o' r rest _ hj ht hn _ ih =>
    obtain ⟨hlt, hlen⟩ := ih
    have hoj := ht.1
    refine ⟨by omega, ?_⟩
    have e : o + (j - o) = j := by omega
    have h1 := nsScanR_nocomma b o (j - o) (by rw [e]; exact hn)
    have h2 : nsScanR b o (j - o + 1) = (.head, 1) := by
      rw [nsScanR, e, hj, h1]
      simp only
      rw [if_pos (by rw [ht.2]; rfl)]
    have h3 := nsScanR_restart b o (j - o + 1) 1 h2 (o' - (j + 1))
    have e3 : j - o + 1 + (o' - (j + 1)) = o' - o := by omega
    have e4 : o + (j - o + 1) = j + 1 := by omega
    rw [e3, e4] at h3
    unfold nsCommaCount at hlen ⊢
    rw [h3]
    simp only [List.length_cons]
    omega

/-- **(2) the value count**: after ParseAllContactValues answered OK, `N` has grown by 1 + the number of top-level
    commas of the consumed text — for every capacity of the caller's array -/
theorem parseAllContactValues_count (b : Buf) (o : Nat) (c : PContacts) (hc : CtClean c) (hcur : c.cur = {})
    {o' : Nat} {c' : PContacts} (hp : parseAllContactValues b o c = (o', .ok, c')) :
    c'.n = c.n + 1 + nsCommaCount b o o' := by
  obtain ⟨L, hL, rfl⟩ := parseAllContactValues_segs b o c hc hcur hp
  rw [ctAcceptAll_n, List.length_map, hL.count.2]
  omega

theorem parseAllPAIValues_count (b : Buf) (o : Nat) (c : PPAIs) (hc : PaClean c) (hcur : c.cur = {})
    {o' : Nat} {c' : PPAIs} (hp : parseAllPAIValues b o c = (o', .ok, c')) :
    c'.n = c.n + 1 + nsCommaCount b o o' := by
  obtain ⟨L, hL, rfl, _⟩ := parseAllPAIValues_segs b o c hc hcur hp
  rw [paAcceptAll_n, List.length_map, hL.count.2]
  omega

/-! ### H. the reported value `V` of a piece ends before the comma / the trailing white space of the line -/

/-- what the exit at iteration position `i` says about the end of `V` -/
def NsTight (b : Buf) (i o' : Nat) (e : Err) (st' : PFromBody) : Prop :=
  (e = .moreValues → o' = i + 1 ∧ st'.v.inside i) ∧ (e = .ok → st'.v.inside i ∧ i ≤ o' ∧ Run isLWSch b i o')

theorem ns_t_err {b : Buf} {i o' : Nat} {e : Err} {st' : PFromBody} (h1 : e ≠ .ok) (h2 : e ≠ .moreValues) :
    NsTight b i o' e st' := ⟨fun hh => absurd hh h2, fun hh => absurd hh h1⟩

/-- the object built at label `endOfHdr` does not depend on the offsets of the line end -/
theorem ns_eoh_obj (h : Nat) (b : Buf) (pf : PFromBody) (e n crl n' crl' : Nat) (r : Err) :
    (naEOH h b pf e n crl r).2.2 = (naEOH h b pf e n' crl' r).2.2 := by
  unfold naEOH naFinish
  cases pf.state <;> rfl

theorem ns_eoh_vin (h : Nat) (b : Buf) (pf : PFromBody) (i e n crl : Nat) (r : Err) (hI : NaCore b i pf) (he : e ≤ i)
    (hv : pf.v.offs ≤ e) (hp : pf.params.offs ≤ e) (hs : pf.state = .nameOrURI → pf.s ≤ e) :
    (naEOH h b pf e n crl r).2.2.v.inside i := by
  have := naEOH_out h b pf i e i 0 r hI he hv hp hs (by omega) (by have := hI.hi; omega)
  rw [naEOH_fst] at this
  rw [ns_eoh_obj h b pf e n crl i 0 r]
  exact this.v

theorem ns_eoh_tight_ok (h : Nat) (b : Buf) (pf : PFromBody) (i n crl : Nat) (hI : NaCore b i pf)
    (hsk : skipLWS b i 0 = (n, crl, .eoh)) :
    NsTight b i (naEOH h b pf i n crl .ok).1 (naEOH h b pf i n crl .ok).2.1 (naEOH h b pf i n crl .ok).2.2 := by
  refine ⟨fun hh => absurd hh (ns_nm_eoh h b pf i n crl), fun _ => ?_⟩
  rw [naEOH_fst]
  have hr := skipLWS_eoh_range b i 0 hsk (by decide)
  exact ⟨ns_eoh_vin h b pf i i n crl .ok hI (Nat.le_refl _) hI.voffs hI.params.1 (fun _ => hI.s), by omega,
    ns_skipLWS_eoh_run b i 0 hsk (by decide)⟩

theorem ns_eoh_tight_more (h : Nat) (b : Buf) (pf : PFromBody) (i e : Nat) (hI : NaCore b i pf) (he : e ≤ i)
    (hv : pf.v.offs ≤ e) (hp : pf.params.offs ≤ e) (hs : pf.state = .nameOrURI → pf.s ≤ e) :
    NsTight b i (naEOH h b pf e i 1 .moreValues).1 (naEOH h b pf e i 1 .moreValues).2.1
      (naEOH h b pf e i 1 .moreValues).2.2 := by
  refine ⟨fun _ => ⟨naEOH_fst h b pf e i 1 .moreValues, ns_eoh_vin h b pf i e i 1 .moreValues hI he hv hp hs⟩, fun hok => ?_⟩
  rcases ns_eoh_err h b pf e i 1 .moreValues with h1 | h1 | h1 <;> rw [h1] at hok <;> cases hok

theorem ns_t_lws (h : Nat) (b : Buf) (i : Nat) (pf : PFromBody) (hI : NaSafe b i pf)
    {o : Nat} {e : Err} {st' : PFromBody} (hs : naLWS h b i pf = .done o e st') : NsTight b i o e st' := by
  unfold naLWS lwsStd at hs
  rcases hsk : skipLWS b i 0 with ⟨n, crl, e1⟩
  rw [hsk] at hs
  rcases skipLWS_verdicts b i 0 hsk with rfl | rfl | rfl | rfl <;> simp only at hs
  · cases hs
  · simp only [Step.done.injEq] at hs
    obtain ⟨rfl, rfl, rfl⟩ := hs
    exact ns_eoh_tight_ok h b pf i n crl hI.toNaCore hsk
  · cases hs; exact ns_t_err (by decide) (by decide)
  · cases hs; exact ns_t_err (by decide) (by decide)

theorem ns_t_mv (h : Nat) (b : Buf) (pf : PFromBody) (i : Nat) (hI : NaSafe b i pf)
    {o : Nat} {e : Err} {st' : PFromBody} (hs : naMoreValues h b pf i = .done o e st') : NsTight b i o e st' := by
  unfold naMoreValues at hs
  simp only [Step.done.injEq] at hs
  obtain ⟨rfl, rfl, rfl⟩ := hs
  exact ns_eoh_tight_more h b pf i i hI.toNaCore (Nat.le_refl _) hI.toNaCore.voffs hI.params.1 (fun _ => hI.s)

theorem ns_t_cws (h : Nat) (b : Buf) (pf : PFromBody) (i e : Nat) (hI : NaSafe b i pf)
    (he : e ≤ i) (hv : pf.v.offs ≤ e) (hp : pf.params.offs ≤ e) (hst : pf.state ≠ .nameOrURI)
    {o : Nat} {e' : Err} {st' : PFromBody} (hs : naCommaAfterWS h b pf i e = .done o e' st') : NsTight b i o e' st' := by
  unfold naCommaAfterWS at hs
  split at hs
  · simp only [Step.done.injEq] at hs
    obtain ⟨rfl, rfl, rfl⟩ := hs
    exact ns_eoh_tight_more h b pf i e hI.toNaCore he hv hp (fun hh => absurd hh hst)
  · cases hs; exact ns_t_err (by decide) (by decide)

theorem ns_t_A (h : Nat) (b : Buf) (i : Nat) (c : UInt8) (pf : PFromBody) (hb : b[i]? = some c)
    (hI : NaSafe b i pf) {o : Nat} {e : Err} {st' : PFromBody} (hs : naStepA h b i c pf = .done o e st') :
    NsTight b i o e st' := by
  have hib := get?_lt hb
  have hI' := hI
  obtain ⟨⟨h1, h2, h3, h4, h5, h6, h7, h8, h9, h10⟩, h11, h12⟩ := hI
  unfold naStepA at hs
  repeat' (split at hs)
  all_goals first
    | exact ns_t_lws h b i _ hI' hs
    | (refine ns_t_lws h b i _ ?_ hs
       refine ⟨⟨?_, ?_, ?_, ?_, ?_, ?_, ?_, ?_, ?_, ?_⟩, ?_, ?_⟩ <;> na_fld)
    | exact ns_t_mv h b _ i hI' hs
    | (cases hs <;> exact ns_t_err (by decide) (by decide))

theorem ns_t_Q (h : Nat) (b : Buf) (i : Nat) (c : UInt8) (pf : PFromBody)
    (hI : NaSafe b i pf) {o : Nat} {e : Err} {st' : PFromBody} (hs : naStepQ h b i c pf = .done o e st') :
    NsTight b i o e st' := by
  unfold naStepQ at hs
  repeat' (split at hs)
  all_goals first
    | exact ns_t_lws h b i _ hI hs
    | (cases hs <;> exact ns_t_err (by decide) (by decide))

theorem ns_t_U (b : Buf) (i : Nat) (c : UInt8) (pf : PFromBody)
    {o : Nat} {e : Err} {st' : PFromBody} (hs : naStepU i c pf = .done o e st') : NsTight b i o e st' := by
  unfold naStepU at hs
  repeat' (split at hs)
  all_goals (cases hs <;> exact ns_t_err (by decide) (by decide))

theorem ns_t_UF (h : Nat) (b : Buf) (i : Nat) (c : UInt8) (pf : PFromBody)
    (hI : NaSafe b i pf) {o : Nat} {e : Err} {st' : PFromBody} (hs : naStepUF h b i c pf = .done o e st') :
    NsTight b i o e st' := by
  unfold naStepUF at hs
  repeat' (split at hs)
  all_goals first
    | exact ns_t_lws h b i _ hI hs
    | exact ns_t_mv h b _ i hI hs
    | (cases hs <;> exact ns_t_err (by decide) (by decide))

theorem ns_t_Star (h : Nat) (b : Buf) (i : Nat) (c : UInt8) (pf : PFromBody)
    (hI : NaSafe b i pf) {o : Nat} {e : Err} {st' : PFromBody} (hs : naStepStar h b i c pf = .done o e st') :
    NsTight b i o e st' := by
  unfold naStepStar at hs
  split at hs
  · exact ns_t_lws h b i _ hI hs
  · cases hs; exact ns_t_err (by decide) (by decide)

theorem ns_t_P (h : Nat) (b : Buf) (i : Nat) (c : UInt8) (pf : PFromBody)
    (hI : NaSafe b i pf) {o : Nat} {e : Err} {st' : PFromBody} (hs : naStepP h b i c pf = .done o e st') :
    NsTight b i o e st' := by
  unfold naStepP at hs
  split at hs
  · rcases hsk : skipLWS b i 0 with ⟨n, crl, e1⟩
    rw [hsk] at hs
    have hX := naNameWS_safe b i i pf hI (Nat.le_refl _) hI.hi
    rcases skipLWS_verdicts b i 0 hsk with rfl | rfl | rfl | rfl <;> simp only at hs
    · cases hs
    · simp only [Step.done.injEq] at hs
      obtain ⟨rfl, rfl, rfl⟩ := hs
      exact ns_eoh_tight_ok h b _ i n crl hX.toNaCore hsk
    · cases hs; exact ns_t_err (by decide) (by decide)
    · cases hs; exact ns_t_err (by decide) (by decide)
  · repeat' (split at hs)
    all_goals first
      | exact ns_t_mv h b _ i hI hs
      | (cases hs <;> exact ns_t_err (by decide) (by decide))

theorem ns_t_V (h : Nat) (b : Buf) (i : Nat) (c : UInt8) (pf : PFromBody)
    (hI : NaSafe b i pf) {o : Nat} {e : Err} {st' : PFromBody} (hs : naStepV h b i c pf = .done o e st') :
    NsTight b i o e st' := by
  unfold naStepV at hs
  split at hs
  · rcases hsk : skipLWS b i 0 with ⟨n, crl, e1⟩
    rw [hsk] at hs
    have hX := naValWS_safe b i i pf false hI (Nat.le_refl _) hI.hi
    rw [← naValWS_false pf i n] at hX
    rcases skipLWS_verdicts b i 0 hsk with rfl | rfl | rfl | rfl <;> simp only at hs
    · cases hs
    · simp only [Step.done.injEq] at hs
      obtain ⟨rfl, rfl, rfl⟩ := hs
      exact ns_eoh_tight_ok h b _ i n crl hX.toNaCore hsk
    · cases hs; exact ns_t_err (by decide) (by decide)
    · cases hs; exact ns_t_err (by decide) (by decide)
  · repeat' (split at hs)
    all_goals first
      | exact ns_t_mv h b _ i hI hs
      | (cases hs <;> exact ns_t_err (by decide) (by decide))

theorem ns_t_PE (h : Nat) (b : Buf) (i : Nat) (c : UInt8) (pf : PFromBody)
    (hg : pf.state = .paramNameEnd ∨ pf.state = .possibleParamNameEnd)
    (hI : NaSafe b i pf) {o : Nat} {e : Err} {st' : PFromBody} (hs : naStepPE h b i c pf = .done o e st') :
    NsTight b i o e st' := by
  have hE := hI.endP hg
  unfold naStepPE at hs
  repeat' (split at hs)
  all_goals first
    | exact ns_t_cws h b pf i pf.pend hI hI.pend hE.1 hE.2 (by rcases hg with g | g <;> rw [g] <;> decide) hs
    | (cases hs <;> exact ns_t_err (by decide) (by decide))

theorem ns_t_VE (h : Nat) (b : Buf) (i : Nat) (c : UInt8) (pf : PFromBody)
    (hg : pf.state = .paramValEnd ∨ pf.state = .possibleValEnd)
    (hI : NaSafe b i pf) {o : Nat} {e : Err} {st' : PFromBody} (hs : naStepVE h b i c pf = .done o e st') :
    NsTight b i o e st' := by
  have hE := hI.endV hg
  unfold naStepVE at hs
  repeat' (split at hs)
  all_goals first
    | exact ns_t_cws h b pf i pf.vend hI hI.vend hE.1 hE.2 (by rcases hg with g | g <;> rw [g] <;> decide) hs
    | (cases hs <;> exact ns_t_err (by decide) (by decide))

theorem ns_t_step (h : Nat) (b : Buf) (i : Nat) (c : UInt8) (pf : PFromBody) (hb : b[i]? = some c)
    (hI : NaSafe b i pf) {o : Nat} {e : Err} {st' : PFromBody} (hs : naStep h b i c pf = .done o e st') :
    NsTight b i o e st' := by
  unfold naStep at hs
  split at hs
  all_goals first
    | exact ns_t_A h b i c pf hb hI hs
    | exact ns_t_Q h b i c pf hI hs
    | exact ns_t_U b i c pf hs
    | exact ns_t_UF h b i c pf hI hs
    | exact ns_t_P h b i c pf hI hs
    | exact ns_t_PE h b i c pf (by first | exact Or.inl (by assumption) | exact Or.inr (by assumption)) hI hs
    | exact ns_t_V h b i c pf hI hs
    | exact ns_t_VE h b i c pf (by first | exact Or.inl (by assumption) | exact Or.inr (by assumption)) hI hs
    | exact ns_t_Star h b i c pf hI hs
    | cases hs

/-- where the reported value ends: on "more values" at or before the comma; on OK at or before a run of white space /
    line-end bytes that reaches the returned offset -/
theorem ns_value_vend (h : Nat) (b : Buf) (o : Nat) (ho : o ≤ b.size) {o' : Nat} {e : Err} {pf' : PFromBody}
    (hp : parseNameAddrPVal h b o {} = (o', e, pf')) :
    (e = .moreValues → pf'.v.inside (o' - 1)) ∧
    (e = .ok → ∃ t, pf'.v.inside t ∧ t ≤ o' ∧ Run isLWSch b t o') := by
  unfold parseNameAddrPVal at hp
  rw [if_neg (by decide)] at hp
  simp only [Prod.mk.injEq] at hp
  obtain ⟨rfl, rfl, rfl⟩ := hp
  have hE : NaSafe b o { ({} : PFromBody) with s := ({} : PFromBody).soffs, soffs := 0 } := by
    rcases NaEntry_new b o ho with hE | hE
    · exact absurd hE.1 (by decide)
    · exact hE.2
  have key := runLoop_inv (naMachine h) b (NaSafe b)
    (fun r => (r.2.1 = .moreValues → r.2.2.v.inside (r.1 - 1)) ∧
      (r.2.1 = .ok → ∃ t, r.2.2.v.inside t ∧ t ≤ r.1 ∧ Run isLWSch b t r.1))
    (by
      intro i c st i' st' hb hP hs
      refine ⟨fun hlt => na_safeCont h b i c st i' st' hb hP hs hlt, fun hn => ?_⟩
      exact absurd (na_progress h b i c st i' st' hb hs) hn)
    (by
      intro i c st o1 e1 st1 hb hP hs
      have := ns_t_step h b i c st hb hP hs
      refine ⟨fun hm => ?_, fun hok => ?_⟩
      · obtain ⟨h1, h2⟩ := this.1 hm
        show st1.v.inside (o1 - 1)
        rw [h1]; exact h2
      · obtain ⟨h1, h2, h3⟩ := this.2 hok
        exact ⟨i, h1, h2, h3⟩)
    (by
      intro i st _ _
      refine ⟨fun hh => ?_, fun hh => ?_⟩
      · have : Err.moreBytes = Err.moreValues := hh
        cases this
      · have : Err.moreBytes = Err.ok := hh
        cases this)
    o _ hE
  rcases hrl : runLoop (naMachine h) b o { ({} : PFromBody) with s := ({} : PFromBody).soffs, soffs := 0 } with ⟨o1, e1, p1⟩
  rw [hrl] at key
  simp only at key ⊢
  have hv : (naExit ({} : PFromBody).soffs e1 p1).v = p1.v := by unfold naExit; split <;> rfl
  rw [hv]
  exact key

/-- the reported values lie inside their pieces, in order: each `V` starts at or after the start of its piece and
    ends at or before the comma that closes the piece (the last one: before the trailing white space and line end) -/
def NsVSpans (b : Buf) : List (Nat × PFromBody) → Nat → Prop
  | [], _ => True
  | [x], o' => x.1 ≤ x.2.v.offs ∧ ∃ t, x.2.v.offs + x.2.v.len ≤ t ∧ t ≤ o' ∧ Run isLWSch b t o'
  | x :: y :: rest, o' =>
    x.1 ≤ x.2.v.offs ∧ x.2.v.offs + x.2.v.len ≤ y.1 - 1 ∧ x.1 < y.1 ∧ b[y.1 - 1]? = some 44 ∧ NsVSpans b (y :: rest) o'

theorem NsSegs.head_start {h : Nat} {b : Buf} {o o' : Nat} {L : List (Nat × PFromBody)} (H : NsSegs h b o L o') :
    ∃ r rest, L = (o, r) :: rest := by
  cases H with
  | last _ _ r => exact ⟨r, [], rfl⟩
  | cons _ _ _ r rest => exact ⟨r, rest, rfl⟩

theorem NsSegs.vspans {h : Nat} {b : Buf} {o o' : Nat} {L : List (Nat × PFromBody)} (H : NsSegs h b o L o')
    (hfit : b.size ≤ 65535) (ho : o ≤ b.size) : NsVSpans b L o' := by
  induction H with
  | last o o' r hp _ _ =>
    have h1 := (parseNameAddrPVal_nest_new h b o hfit ho hp (Or.inl rfl)).2
    obtain ⟨t, h2, h3, h4⟩ := (ns_value_vend h b o ho hp).2 rfl
    exact ⟨h1, t, h2, h3, h4⟩
  | cons o j o' r rest hp hj ht _ hrest ih =>
    have h1 := (parseNameAddrPVal_nest_new h b o hfit ho hp (Or.inr rfl)).2
    have h2 := (ns_value_vend h b o ho hp).1 rfl
    have hjb := get?_lt hj
    have hih := ih (by omega)
    obtain ⟨r2, rest2, rfl⟩ := hrest.head_start
    have e : j + 1 - 1 = j := by omega
    refine ⟨h1, ?_, ?_, ?_, hih⟩
    · show r.v.offs + r.v.len ≤ j + 1 - 1
      exact h2
    · show o < j + 1
      have := ht.1; omega
    · show b[j + 1 - 1]? = some 44
      rw [e]; exact hj

/-! ### H2. the reported value `V` of a piece starts at its first byte that is not white space -/

/-- invariant: before the value has started only white space / line-end bytes were read; afterwards `V.Offs` stays at
    the first other byte -/
def NvInv (b : Buf) (o i : Nat) (pf : PFromBody) : Prop :=
  (pf.state = .init → Run isLWSch b o i) ∧ (pf.state ≠ .init → Run isLWSch b o pf.v.offs)

theorem nv_naLWS {h : Nat} {b : Buf} {o i : Nat} {pf : PFromBody} (_hoi : o ≤ i) (hI : NvInv b o i pf) {i' : Nat} {st' : PFromBody}
    (hs : naLWS h b i pf = .cont i' st') : NvInv b o i' st' := by
  unfold naLWS lwsStd at hs
  rcases hsk : skipLWS b i 0 with ⟨n, crl, e⟩
  rw [hsk] at hs
  cases e <;> simp only at hs <;> cases hs
  exact ⟨fun h0 => nr_run_append (hI.1 h0) (nr_skipLWS_run b i 0 hsk), hI.2⟩

theorem nv_keep {b : Buf} {o i i' : Nat} {pf : PFromBody} (hni : pf.state ≠ .init) (hI : NvInv b o i pf) :
    NvInv b o i' pf := ⟨fun h0 => absurd h0 hni, hI.2⟩

theorem nv_set {b : Buf} {o i i' : Nat} {pf st' : PFromBody} (h1 : st'.state ≠ .init) (h2 : st'.v.offs = pf.v.offs)
    (hni : pf.state ≠ .init) (hI : NvInv b o i pf) : NvInv b o i' st' :=
  ⟨fun h0 => absurd h0 h1, fun _ => by rw [h2]; exact hI.2 hni⟩

macro "nv_leaf" hI:ident hfit:ident : tactic =>
  `(tactic| (refine ⟨fun h0 => ?_, fun h1 => ?_⟩
             · first | (exfalso; simp_all; done) | (cases h0; done)
             · simp only [PFromBody.setURI, PFromBody.setName, PFromBody.setV, PFromBody.extV, PFromBody.extParams,
                 PFromBody.resetUPT, PField.set, PField.extend, (setFromParamVal_vp _ _).1] at *
               first
                 | exact ($hI).2 (by simp_all)
                 | (rw [trunc16_of_lt $hfit]; exact ($hI).1 (by simp_all))))

theorem nv_A (h : Nat) (hmv : multipleValsOk h = true) {b : Buf} {o i : Nat} {pf : PFromBody} (c : UInt8) (hoi : o ≤ i) (hfit : i < 65536)
    (hI : NvInv b o i pf) {i' : Nat} {st' : PFromBody} (hs : naStepA h b i c pf = .cont i' st') : NvInv b o i' st' := by
  unfold naStepA at hs
  simp only [hmv, ↓reduceIte] at hs
  repeat' split at hs
  all_goals first
    | exact nv_naLWS hoi hI hs
    | exact absurd hs (naMoreValues_not_cont h b _ i)
    | (cases hs; done)
    | (refine nv_naLWS hoi ?_ hs; nv_leaf hI hfit)
    | (cases hs; nv_leaf hI hfit)
    | (cases hs; exact nv_keep (by simp_all) hI)

theorem nv_Q (h : Nat) {b : Buf} {o i : Nat} {pf : PFromBody} (c : UInt8) (hoi : o ≤ i)
    (hg : pf.state = .quoted ∨ pf.state = .quotedVal ∨ pf.state = .quotedPossibleVal)
    (hI : NvInv b o i pf) {i' : Nat} {st' : PFromBody} (hs : naStepQ h b i c pf = .cont i' st') : NvInv b o i' st' := by
  have hni : pf.state ≠ .init := by rcases hg with g | g | g <;> rw [g] <;> decide
  have hfit : i < 65536 ∨ True := Or.inr trivial
  unfold naStepQ at hs
  repeat' split at hs
  all_goals first
    | exact nv_naLWS hoi hI hs
    | (cases hs; done)
    | (cases hs; exact nv_keep hni hI)
    | (cases hs; exact nv_set (pf := pf) (by simp) rfl hni hI)

theorem nv_U {b : Buf} {o i : Nat} {pf : PFromBody} (c : UInt8) (g : pf.state = .uri)
    (hI : NvInv b o i pf) {i' : Nat} {st' : PFromBody} (hs : naStepU i c pf = .cont i' st') : NvInv b o i' st' := by
  have hni : pf.state ≠ .init := by rw [g]; decide
  unfold naStepU at hs
  repeat' split at hs
  all_goals first
    | (cases hs; done)
    | (cases hs; exact nv_keep hni hI)
    | (cases hs; exact nv_set (pf := pf) (by simp) rfl hni hI)

theorem nv_UF (h : Nat) {b : Buf} {o i : Nat} {pf : PFromBody} (c : UInt8) (hoi : o ≤ i) (g : pf.state = .uriFound)
    (hI : NvInv b o i pf) {i' : Nat} {st' : PFromBody} (hs : naStepUF h b i c pf = .cont i' st') : NvInv b o i' st' := by
  have hni : pf.state ≠ .init := by rw [g]; decide
  unfold naStepUF at hs
  repeat' split at hs
  all_goals first
    | exact nv_naLWS hoi hI hs
    | exact absurd hs (naMoreValues_not_cont h b _ i)
    | (cases hs; done)
    | (cases hs; exact nv_keep hni hI)
    | (cases hs; exact nv_set (pf := pf) (by simp) rfl hni hI)

theorem nv_Star (h : Nat) {b : Buf} {o i : Nat} {pf : PFromBody} (c : UInt8) (hoi : o ≤ i)
    (hI : NvInv b o i pf) {i' : Nat} {st' : PFromBody} (hs : naStepStar h b i c pf = .cont i' st') : NvInv b o i' st' := by
  unfold naStepStar at hs
  split at hs
  · exact nv_naLWS hoi hI hs
  · cases hs

theorem nv_nameWS (pf : PFromBody) (i : Nat) (hni : pf.state ≠ .init) :
    (naNameWS pf i).state ≠ .init ∧ (naNameWS pf i).v.offs = pf.v.offs := by
  unfold naNameWS
  repeat' split
  all_goals first | exact ⟨hni, rfl⟩ | exact ⟨by simp, rfl⟩

theorem nv_param (pf : PFromBody) (i : Nat) (hni : pf.state ≠ .init) :
    (naParamsOffs (naParamStart pf i) i).state ≠ .init ∧ (naParamsOffs (naParamStart pf i) i).v.offs = pf.v.offs := by
  unfold naParamsOffs naParamStart
  repeat' split
  all_goals first | exact ⟨hni, rfl⟩ | exact ⟨by simp, rfl⟩

theorem nv_valWS (pf : PFromBody) (i n : Nat) (ok : Bool) (hni : pf.state ≠ .init) :
    (naValWS pf i n ok).state ≠ .init ∧ (naValWS pf i n ok).v.offs = pf.v.offs := by
  unfold naValWS
  repeat' split
  all_goals first | exact ⟨hni, rfl⟩ | exact ⟨by simp, rfl⟩

theorem nv_sfp (b : Buf) (pf x : PFromBody) (h1 : x.state ≠ .init) (h2 : x.v = pf.v) :
    (setFromParamVal b x).state ≠ .init ∧ (setFromParamVal b x).v.offs = pf.v.offs := by
  rw [setFromParamVal_state, (setFromParamVal_vp b x).1, h2]
  exact ⟨h1, rfl⟩

/-- closes a continuing leaf of the parameter states -/
macro "nv_pleaf" hs:ident pf:ident hni:ident hI:ident : tactic =>
  `(tactic| first
      | (cases $hs:ident; done)
      | (cases $hs:ident; exact nv_keep $hni $hI)
      | (cases $hs:ident
         refine nv_set (pf := $pf) ?_ ?_ $hni $hI
         · first
             | exact (nv_param _ _ $hni).1
             | (rw [setFromParamVal_state]; intro hh; cases hh)
             | (intro hh; cases hh)
         · first
             | exact (nv_param _ _ $hni).2
             | (rw [(setFromParamVal_vp _ _).1])
             | rfl))

theorem nv_P (h : Nat) {b : Buf} {o i : Nat} {pf : PFromBody} (c : UInt8)
    (hg : pf.state = .newParam ∨ pf.state = .newPossibleParam ∨ pf.state = .paramName ∨ pf.state = .possibleParamName)
    (hI : NvInv b o i pf) {i' : Nat} {st' : PFromBody} (hs : naStepP h b i c pf = .cont i' st') : NvInv b o i' st' := by
  have hni : pf.state ≠ .init := by rcases hg with g | g | g | g <;> rw [g] <;> decide
  unfold naStepP at hs
  split at hs
  · rcases hsk : skipLWS b i 0 with ⟨n, crl, e⟩
    rw [hsk] at hs
    cases e <;> simp only at hs <;> cases hs
    exact nv_set (pf := pf) (nv_nameWS pf i hni).1 (nv_nameWS pf i hni).2 hni hI
  · repeat' split at hs
    all_goals first
      | exact absurd hs (naMoreValues_not_cont h b _ i)
      | nv_pleaf hs pf hni hI

theorem nv_PE (h : Nat) {b : Buf} {o i : Nat} {pf : PFromBody} (c : UInt8)
    (hg : pf.state = .paramNameEnd ∨ pf.state = .possibleParamNameEnd)
    (hI : NvInv b o i pf) {i' : Nat} {st' : PFromBody} (hs : naStepPE h b i c pf = .cont i' st') : NvInv b o i' st' := by
  have hni : pf.state ≠ .init := by rcases hg with g | g <;> rw [g] <;> decide
  unfold naStepPE at hs
  repeat' split at hs
  all_goals first
    | exact absurd hs (naCommaAfterWS_not_cont h b _ i _)
    | nv_pleaf hs pf hni hI

theorem nv_V (h : Nat) {b : Buf} {o i : Nat} {pf : PFromBody} (c : UInt8)
    (hg : pf.state = .newParamVal ∨ pf.state = .newPossibleVal ∨ pf.state = .paramVal ∨ pf.state = .possibleVal)
    (hI : NvInv b o i pf) {i' : Nat} {st' : PFromBody} (hs : naStepV h b i c pf = .cont i' st') : NvInv b o i' st' := by
  have hni : pf.state ≠ .init := by rcases hg with g | g | g | g <;> rw [g] <;> decide
  unfold naStepV at hs
  split at hs
  · rcases hsk : skipLWS b i 0 with ⟨n, crl, e⟩
    rw [hsk] at hs
    cases e <;> simp only at hs <;> cases hs
    exact nv_set (pf := pf) (nv_valWS pf i _ true hni).1 (nv_valWS pf i _ true hni).2 hni hI
  · repeat' split at hs
    all_goals first
      | exact absurd hs (naMoreValues_not_cont h b _ i)
      | nv_pleaf hs pf hni hI

theorem nv_VE (h : Nat) {b : Buf} {o i : Nat} {pf : PFromBody} (c : UInt8)
    (hg : pf.state = .paramValEnd ∨ pf.state = .possibleValEnd)
    (hI : NvInv b o i pf) {i' : Nat} {st' : PFromBody} (hs : naStepVE h b i c pf = .cont i' st') : NvInv b o i' st' := by
  have hni : pf.state ≠ .init := by rcases hg with g | g <;> rw [g] <;> decide
  unfold naStepVE at hs
  repeat' split at hs
  all_goals first
    | exact absurd hs (naCommaAfterWS_not_cont h b _ i _)
    | nv_pleaf hs pf hni hI

theorem nv_cont (h : Nat) (hmv : multipleValsOk h = true) {b : Buf} {o i : Nat} {pf : PFromBody} (c : UInt8) (hoi : o ≤ i)
    (hfit : i < 65536) (hI : NvInv b o i pf) {i' : Nat} {st' : PFromBody} (hs : naStep h b i c pf = .cont i' st') :
    NvInv b o i' st' := by
  unfold naStep at hs
  split at hs
  all_goals first
    | exact nv_A h hmv c hoi hfit hI hs
    | exact nv_Q h c hoi (by simp [*]) hI hs
    | exact nv_U c (by assumption) hI hs
    | exact nv_UF h c hoi (by assumption) hI hs
    | exact nv_P h c (by simp [*]) hI hs
    | exact nv_PE h c (by simp [*]) hI hs
    | exact nv_V h c (by simp [*]) hI hs
    | exact nv_VE h c (by simp [*]) hI hs
    | exact nv_Star h c hoi hI hs
    | (cases hs; refine nv_keep ?_ hI; intro hh; simp_all)

/-! #### exits -/

def NvDone (b : Buf) (o : Nat) (e : Err) (st' : PFromBody) : Prop :=
  (e = .ok ∨ e = .moreValues) → Run isLWSch b o st'.v.offs

theorem nv_d_err {b : Buf} {o : Nat} {e : Err} {st' : PFromBody} (h1 : e ≠ .ok) (h2 : e ≠ .moreValues) : NvDone b o e st' := by
  intro hh; rcases hh with hh | hh
  · exact absurd hh h1
  · exact absurd hh h2

theorem nv_eohPN (b : Buf) (pf : PFromBody) (i : Nat) : (naEOHParamName b pf i).v.offs = pf.v.offs := by
  unfold naEOHParamName
  simp only [PFromBody.extV, PField.extend, PFromBody.extParams]
  repeat' split
  all_goals first | rfl | (rw [(setFromParamVal_vp _ _).1])

theorem nv_eohV (b : Buf) (pf : PFromBody) (i : Nat) : (naEOHVal b pf i).v.offs = pf.v.offs := by
  unfold naEOHVal
  simp only [PFromBody.extV, PField.extend, PFromBody.extParams]
  rw [(setFromParamVal_vp _ _).1]

theorem nv_eoh (h : Nat) (b : Buf) (pf : PFromBody) (e n crl : Nat) (r : Err)
    (hc : (naEOH h b pf e n crl r).2.1 = .ok ∨ (naEOH h b pf e n crl r).2.1 = .moreValues) :
    pf.state ≠ .init ∧ (naEOH h b pf e n crl r).2.2.v.offs = pf.v.offs := by
  unfold naEOH naFinish at hc ⊢
  cases hst : pf.state <;> simp only [hst] at hc ⊢
  all_goals first
    | (exfalso; (rcases hc with hc | hc <;> cases hc); done)
    | (refine ⟨by decide, ?_⟩
       first
         | trivial
         | rfl
         | exact nv_eohPN b pf e
         | exact nv_eohV b _ e
         | (simp only [PFromBody.extV, PField.extend, PFromBody.extParams]
            first | rfl | rw [(setFromParamVal_vp _ _).1]))

theorem nv_d_eoh (h : Nat) {b : Buf} {o i : Nat} (pf : PFromBody) (e n crl : Nat) (r : Err) (hI : NvInv b o i pf) :
    NvDone b o (naEOH h b pf e n crl r).2.1 (naEOH h b pf e n crl r).2.2 := by
  intro hc
  obtain ⟨h1, h2⟩ := nv_eoh h b pf e n crl r hc
  rw [h2]; exact hI.2 h1

theorem nv_d_lws (h : Nat) {b : Buf} {o i : Nat} {pf : PFromBody} (hI : NvInv b o i pf)
    {o' : Nat} {e : Err} {st' : PFromBody} (hs : naLWS h b i pf = .done o' e st') : NvDone b o e st' := by
  unfold naLWS lwsStd at hs
  rcases hsk : skipLWS b i 0 with ⟨n, crl, e1⟩
  rw [hsk] at hs
  rcases skipLWS_verdicts b i 0 hsk with rfl | rfl | rfl | rfl <;> simp only at hs
  · cases hs
  · simp only [Step.done.injEq] at hs
    obtain ⟨rfl, rfl, rfl⟩ := hs
    exact nv_d_eoh h pf i n crl .ok hI
  · cases hs; exact nv_d_err (by decide) (by decide)
  · cases hs; exact nv_d_err (by decide) (by decide)

theorem nv_d_mv (h : Nat) {b : Buf} {o i : Nat} {pf : PFromBody} (hI : NvInv b o i pf)
    {o' : Nat} {e : Err} {st' : PFromBody} (hs : naMoreValues h b pf i = .done o' e st') : NvDone b o e st' := by
  unfold naMoreValues at hs
  simp only [Step.done.injEq] at hs
  obtain ⟨rfl, rfl, rfl⟩ := hs
  exact nv_d_eoh h pf i i 1 .moreValues hI

theorem nv_d_cws (h : Nat) {b : Buf} {o i : Nat} {pf : PFromBody} (x : Nat) (hI : NvInv b o i pf)
    {o' : Nat} {e : Err} {st' : PFromBody} (hs : naCommaAfterWS h b pf i x = .done o' e st') : NvDone b o e st' := by
  unfold naCommaAfterWS at hs
  split at hs
  · simp only [Step.done.injEq] at hs
    obtain ⟨rfl, rfl, rfl⟩ := hs
    exact nv_d_eoh h pf x i 1 .moreValues hI
  · cases hs; exact nv_d_err (by decide) (by decide)

theorem nv_d_A (h : Nat) {b : Buf} {o i : Nat} {pf : PFromBody} (c : UInt8) (hfit : i < 65536) (hI : NvInv b o i pf)
    {o' : Nat} {e : Err} {st' : PFromBody} (hs : naStepA h b i c pf = .done o' e st') : NvDone b o e st' := by
  unfold naStepA at hs
  repeat' (split at hs)
  all_goals first
    | exact nv_d_lws h hI hs
    | (refine nv_d_lws h ?_ hs; nv_leaf hI hfit)
    | exact nv_d_mv h hI hs
    | (cases hs <;> exact nv_d_err (by decide) (by decide))

theorem nv_d_Q (h : Nat) {b : Buf} {o i : Nat} {pf : PFromBody} (c : UInt8) (hI : NvInv b o i pf)
    {o' : Nat} {e : Err} {st' : PFromBody} (hs : naStepQ h b i c pf = .done o' e st') : NvDone b o e st' := by
  unfold naStepQ at hs
  repeat' (split at hs)
  all_goals first
    | exact nv_d_lws h hI hs
    | (cases hs <;> exact nv_d_err (by decide) (by decide))

theorem nv_d_U {b : Buf} {o i : Nat} {pf : PFromBody} (c : UInt8)
    {o' : Nat} {e : Err} {st' : PFromBody} (hs : naStepU i c pf = .done o' e st') : NvDone b o e st' := by
  unfold naStepU at hs
  repeat' (split at hs)
  all_goals (cases hs <;> exact nv_d_err (by decide) (by decide))

theorem nv_d_UF (h : Nat) {b : Buf} {o i : Nat} {pf : PFromBody} (c : UInt8) (hI : NvInv b o i pf)
    {o' : Nat} {e : Err} {st' : PFromBody} (hs : naStepUF h b i c pf = .done o' e st') : NvDone b o e st' := by
  unfold naStepUF at hs
  repeat' (split at hs)
  all_goals first
    | exact nv_d_lws h hI hs
    | exact nv_d_mv h hI hs
    | (cases hs <;> exact nv_d_err (by decide) (by decide))

theorem nv_d_Star (h : Nat) {b : Buf} {o i : Nat} {pf : PFromBody} (c : UInt8) (hI : NvInv b o i pf)
    {o' : Nat} {e : Err} {st' : PFromBody} (hs : naStepStar h b i c pf = .done o' e st') : NvDone b o e st' := by
  unfold naStepStar at hs
  split at hs
  · exact nv_d_lws h hI hs
  · cases hs; exact nv_d_err (by decide) (by decide)

theorem nv_d_P (h : Nat) {b : Buf} {o i : Nat} {pf : PFromBody} (c : UInt8)
    (hg : pf.state = .newParam ∨ pf.state = .newPossibleParam ∨ pf.state = .paramName ∨ pf.state = .possibleParamName)
    (hI : NvInv b o i pf)
    {o' : Nat} {e : Err} {st' : PFromBody} (hs : naStepP h b i c pf = .done o' e st') : NvDone b o e st' := by
  have hni : pf.state ≠ .init := by rcases hg with g | g | g | g <;> rw [g] <;> decide
  unfold naStepP at hs
  split at hs
  · rcases hsk : skipLWS b i 0 with ⟨n, crl, e1⟩
    rw [hsk] at hs
    have hX : NvInv b o i (naNameWS pf i) := nv_set (pf := pf) (nv_nameWS pf i hni).1 (nv_nameWS pf i hni).2 hni hI
    rcases skipLWS_verdicts b i 0 hsk with rfl | rfl | rfl | rfl <;> simp only at hs
    · cases hs
    · simp only [Step.done.injEq] at hs
      obtain ⟨rfl, rfl, rfl⟩ := hs
      exact nv_d_eoh h _ i n crl .ok hX
    · cases hs; exact nv_d_err (by decide) (by decide)
    · cases hs; exact nv_d_err (by decide) (by decide)
  · repeat' (split at hs)
    all_goals first
      | exact nv_d_mv h hI hs
      | (cases hs <;> exact nv_d_err (by decide) (by decide))

theorem nv_d_V (h : Nat) {b : Buf} {o i : Nat} {pf : PFromBody} (c : UInt8)
    (hg : pf.state = .newParamVal ∨ pf.state = .newPossibleVal ∨ pf.state = .paramVal ∨ pf.state = .possibleVal)
    (hI : NvInv b o i pf)
    {o' : Nat} {e : Err} {st' : PFromBody} (hs : naStepV h b i c pf = .done o' e st') : NvDone b o e st' := by
  have hni : pf.state ≠ .init := by rcases hg with g | g | g | g <;> rw [g] <;> decide
  unfold naStepV at hs
  split at hs
  · rcases hsk : skipLWS b i 0 with ⟨n, crl, e1⟩
    rw [hsk] at hs
    have hX : NvInv b o i (naValWS pf i n false) :=
      nv_set (pf := pf) (nv_valWS pf i n false hni).1 (nv_valWS pf i n false hni).2 hni hI
    rcases skipLWS_verdicts b i 0 hsk with rfl | rfl | rfl | rfl <;> simp only at hs
    · cases hs
    · simp only [Step.done.injEq] at hs
      obtain ⟨rfl, rfl, rfl⟩ := hs
      exact nv_d_eoh h _ i n crl .ok hX
    · cases hs; exact nv_d_err (by decide) (by decide)
    · cases hs; exact nv_d_err (by decide) (by decide)
  · repeat' (split at hs)
    all_goals first
      | exact nv_d_mv h hI hs
      | (cases hs <;> exact nv_d_err (by decide) (by decide))

theorem nv_d_PE (h : Nat) {b : Buf} {o i : Nat} {pf : PFromBody} (c : UInt8) (hI : NvInv b o i pf)
    {o' : Nat} {e : Err} {st' : PFromBody} (hs : naStepPE h b i c pf = .done o' e st') : NvDone b o e st' := by
  unfold naStepPE at hs
  repeat' (split at hs)
  all_goals first
    | exact nv_d_cws h _ hI hs
    | (cases hs <;> exact nv_d_err (by decide) (by decide))

theorem nv_d_VE (h : Nat) {b : Buf} {o i : Nat} {pf : PFromBody} (c : UInt8) (hI : NvInv b o i pf)
    {o' : Nat} {e : Err} {st' : PFromBody} (hs : naStepVE h b i c pf = .done o' e st') : NvDone b o e st' := by
  unfold naStepVE at hs
  repeat' (split at hs)
  all_goals first
    | exact nv_d_cws h _ hI hs
    | (cases hs <;> exact nv_d_err (by decide) (by decide))

theorem nv_done (h : Nat) {b : Buf} {o i : Nat} {pf : PFromBody} (c : UInt8) (hfit : i < 65536) (hI : NvInv b o i pf)
    {o' : Nat} {e : Err} {st' : PFromBody} (hs : naStep h b i c pf = .done o' e st') : NvDone b o e st' := by
  unfold naStep at hs
  split at hs
  all_goals first
    | exact nv_d_A h c hfit hI hs
    | exact nv_d_Q h c hI hs
    | exact nv_d_U c hs
    | exact nv_d_UF h c hI hs
    | exact nv_d_P h c (by simp [*]) hI hs
    | exact nv_d_PE h c hI hs
    | exact nv_d_V h c (by simp [*]) hI hs
    | exact nv_d_VE h c hI hs
    | exact nv_d_Star h c hI hs
    | cases hs

/-- **the reported value starts at the first byte of the piece that is not white space / a line-end byte** (header
    kinds with several values; buffers within the 65,535-byte limit) -/
theorem ns_value_lead (h : Nat) (hmv : multipleValsOk h = true) (b : Buf) (o : Nat) (hfit : b.size ≤ 65535)
    {o' : Nat} {e : Err} {pf' : PFromBody} (hp : parseNameAddrPVal h b o {} = (o', e, pf'))
    (hc : e = .ok ∨ e = .moreValues) : Run isLWSch b o pf'.v.offs := by
  unfold parseNameAddrPVal at hp
  rw [if_neg (by decide)] at hp
  simp only [Prod.mk.injEq] at hp
  obtain ⟨rfl, rfl, rfl⟩ := hp
  have h0 : NvInv b o o { ({} : PFromBody) with s := ({} : PFromBody).soffs, soffs := 0 } :=
    ⟨fun _ => nr_run_empty _ _ _, fun hh => absurd rfl hh⟩
  have key := runLoop_inv (naMachine h) b (fun i st => o ≤ i ∧ NvInv b o i st)
    (fun r => NvDone b o r.2.1 r.2.2)
    (by
      intro i c st i' st' hb hP hs
      have hlt := get?_lt hb
      refine ⟨fun hlt' => ⟨by omega, nv_cont h hmv c hP.1 (by omega) hP.2 hs⟩, fun _ => ?_⟩
      exact nv_d_err (e := Err.lbug) (by decide) (by decide))
    (by
      intro i c st o1 e1 st1 hb hP hs
      have hlt := get?_lt hb
      exact nv_done h c (by omega) hP.2 hs)
    (by
      intro i st _ _
      exact nv_d_err (e := Err.moreBytes) (by decide) (by decide))
    o _ ⟨Nat.le_refl _, h0⟩
  rcases hrl : runLoop (naMachine h) b o { ({} : PFromBody) with s := ({} : PFromBody).soffs, soffs := 0 } with ⟨o1, e1, p1⟩
  rw [hrl] at key hc
  simp only at key hc ⊢
  have hv : (naExit ({} : PFromBody).soffs e1 p1).v = p1.v := by unfold naExit; split <;> rfl
  rw [hv]
  exact key hc


/-- the same for every piece of a list -/
theorem NsSegs.leads {h : Nat} {b : Buf} {o o' : Nat} {L : List (Nat × PFromBody)} (H : NsSegs h b o L o')
    (hmv : multipleValsOk h = true) (hfit : b.size ≤ 65535) : ∀ x ∈ L, Run isLWSch b x.1 x.2.v.offs := by
  induction H with
  | last o o' r hp _ _ =>
    intro x hx
    simp only [List.mem_singleton] at hx
    rw [hx]; exact ns_value_lead h hmv b o hfit hp (Or.inl rfl)
  | cons o j o' r rest hp _ _ _ _ ih =>
    intro x hx
    rcases List.mem_cons.1 hx with hx | hx
    · rw [hx]; exact ns_value_lead h hmv b o hfit hp (Or.inr rfl)
    · exact ih x hx

/-! ### I. one call on a new object: everything together -/

/-- **(2) ParseAllContactValues on a new object of ANY capacity `cap`, converse direction.**  If the call answers OK
    with offset `o'`, then there is a list `L` of pieces (start offset, reported value) such that
    * `NsSegs`: the pieces tile the text from `o`: each but the last is closed by the FIRST top-level comma after its
      start (the next piece starts right after it), the last has no top-level comma and is closed by the line end of the
      header, `o'` being the offset after it; the value of a piece is what the value parser reports at its start;
    * `NsVSpans`: each reported `V` lies inside its piece, before the closing comma; it starts at the first byte of
      the piece that is not white space / a line-end byte;
    * `N` = number of pieces = 1 + number of top-level commas of the text `[o, o')` — also beyond the capacity;
    * the stored values are the values of the first `cap` pieces, in order;
    * max / min expires summarise ALL pieces. -/
theorem parseAllContactValues_new_converse (b : Buf) (o cap : Nat) (hfit : b.size ≤ 65535) (ho : o ≤ b.size)
    {o' : Nat} {c' : PContacts}
    (hp : parseAllContactValues b o { vals := Array.replicate cap {} } = (o', .ok, c')) :
    ∃ L : List (Nat × PFromBody), NsSegs HdrContact b o L o' ∧ NsVSpans b L o' ∧
      (∀ x ∈ L, Run isLWSch b x.1 x.2.v.offs) ∧
      c'.n = L.length ∧ c'.n = nsCommaCount b o o' + 1 ∧
      (∀ i (hi : i < L.length), i < cap → c'.vals[i]! = L[i].2) ∧
      c'.maxExpires = L.foldl (fun m x => max m x.2.expires) 0 ∧
      c'.minExpires = L.foldl (fun m x => min m x.2.expires) 4294967295 := by
  have hnew := ct_new_ok cap
  obtain ⟨L, hL, rfl⟩ := parseAllContactValues_segs b o _ hnew.1 hnew.2 hp
  refine ⟨L, hL, hL.vspans hfit ho, hL.leads ns_mv_contact hfit, ?_, ?_, ?_, ?_, ?_⟩
  · rw [ctAcceptAll_n, List.length_map]; exact Nat.zero_add _
  · rw [ctAcceptAll_n, List.length_map, hL.count.2]; exact Nat.zero_add _
  · intro i hi hcap
    have := ctAcceptAll_stored ({ vals := Array.replicate cap {} } : PContacts) (L.map Prod.snd) i
      (by rw [List.length_map]; exact hi) (by simp only [Array.size_replicate]; omega)
    simp only [Nat.zero_add, List.getElem_map] at this
    exact this
  · rw [ctAcceptAll_maxE, List.foldl_map]
  · rw [ctAcceptAll_minE _ _ (by intro hh; exact hL.ne_nil (List.map_eq_nil_iff.1 hh)), List.foldl_map]
    rfl

/-- **(2) ParseAllPAIValues on a new object, converse direction** (two slots; `N` counts all pieces) -/
theorem parseAllPAIValues_new_converse (b : Buf) (o : Nat) (hfit : b.size ≤ 65535) (ho : o ≤ b.size)
    {o' : Nat} {c' : PPAIs} (hp : parseAllPAIValues b o {} = (o', .ok, c')) :
    ∃ L : List (Nat × PFromBody), NsSegs HdrPAI b o L o' ∧ NsVSpans b L o' ∧
      (∀ x ∈ L, Run isLWSch b x.1 x.2.v.offs) ∧ (∀ x ∈ L, x.2.star = false) ∧
      c' = ({} : PPAIs).acceptAll (L.map Prod.snd) ∧ c'.n = L.length ∧ c'.n = nsCommaCount b o o' + 1 := by
  obtain ⟨L, hL, rfl, hs⟩ := parseAllPAIValues_segs b o _ pa_new_ok.1 pa_new_ok.2 hp
  refine ⟨L, hL, hL.vspans hfit ho, hL.leads ns_mv_pai hfit, hs, rfl, ?_, ?_⟩
  · rw [paAcceptAll_n, List.length_map]; exact Nat.zero_add _
  · rw [paAcceptAll_n, List.length_map, hL.count.2]; exact Nat.zero_add _

/-! ### J. non-vacuity and tests (closed computations on the model, labelled as such) -/

/-- test buffer: a comma inside the quoted display name, then the separating comma at offset 13 -/
def nsExA : Buf := "\"a,b\" <sip:x>,<sip:y>\r\nX".toUTF8.data

/-- test (evaluation): the model answers "more values" with offset 14 -/
theorem nsExA_parse : (parseNameAddrPVal HdrContact nsExA 0 {}).1 = 14 ∧
    (parseNameAddrPVal HdrContact nsExA 0 {}).2.1 = .moreValues := by decide +kernel

/-- non-vacuity of `ns_value_more`: its hypothesis holds for `nsExA`; the conclusion, spelled out: the comma at 13 is
    at top level and is the first such comma (the comma at offset 2 is inside the quoted string) -/
example : nsExA[13]? = some 44 ∧ NsTop nsExA 0 13 ∧ NsNoComma nsExA 0 13 := by
  have hp : parseNameAddrPVal HdrContact nsExA 0 {} = (14, .moreValues, (parseNameAddrPVal HdrContact nsExA 0 {}).2.2) := by
    have := nsExA_parse
    exact Prod.ext this.1 (Prod.ext this.2 rfl)
  have := ns_value_more HdrContact nsExA 0 hp
  exact ⟨this.2.2.1, this.2.2.2.1, this.2.2.2.2⟩

/-- test (evaluation of the scanner): the comma at offset 2 of `nsExA` is not at top level, the one at 13 is -/
example : ¬ NsTopComma nsExA 0 2 ∧ NsTopComma nsExA 0 13 := by decide +kernel

/-- tests (evaluation): where the automaton's notion of "top level" — hence `NsTop` — differs from the naive
    "outside double quotes and outside `<` … `>`" reading.  In each text the comma IS a separator for the model:
    (a) a `"` between `<` and `>` is an ordinary byte:        `<sip:"a>,b`   (naive reading: the comma is quoted)
    (b) a `"` after `>` (before any `;`) is an ordinary byte:  `<a>"x,y"`
    (c) a `<` after `>` is an ordinary byte:                    `<a><b,c>`
    (d) a `"` inside a parameter NAME is an ordinary byte:      `<a>;x"b,c"`
    whereas a `"` inside a bare URI / display-name token does open a quoted string:  `s:a"b,c" <x>, d` -/
example : (parseNameAddrPVal HdrContact "<sip:\"a>,b\r\nX".toUTF8.data 0 {}).1 = 9 ∧
    (parseNameAddrPVal HdrContact "<sip:\"a>,b\r\nX".toUTF8.data 0 {}).2.1 = .moreValues ∧
    NsTopComma "<sip:\"a>,b\r\nX".toUTF8.data 0 8 := by decide +kernel
example : (parseNameAddrPVal HdrContact "<a>\"x,y\"\r\nX".toUTF8.data 0 {}).1 = 6 ∧
    (parseNameAddrPVal HdrContact "<a>\"x,y\"\r\nX".toUTF8.data 0 {}).2.1 = .moreValues ∧
    NsTopComma "<a>\"x,y\"\r\nX".toUTF8.data 0 5 := by decide +kernel
example : (parseNameAddrPVal HdrContact "<a><b,c>\r\nX".toUTF8.data 0 {}).1 = 6 ∧
    (parseNameAddrPVal HdrContact "<a><b,c>\r\nX".toUTF8.data 0 {}).2.1 = .moreValues ∧
    NsTopComma "<a><b,c>\r\nX".toUTF8.data 0 5 := by decide +kernel
example : (parseNameAddrPVal HdrContact "<a>;x\"b,c\"\r\nX".toUTF8.data 0 {}).1 = 8 ∧
    (parseNameAddrPVal HdrContact "<a>;x\"b,c\"\r\nX".toUTF8.data 0 {}).2.1 = .moreValues ∧
    NsTopComma "<a>;x\"b,c\"\r\nX".toUTF8.data 0 7 := by decide +kernel
example : (parseNameAddrPVal HdrContact "s:a\"b,c\" <x>, d\r\nX".toUTF8.data 0 {}).1 = 13 ∧
    (parseNameAddrPVal HdrContact "s:a\"b,c\" <x>, d\r\nX".toUTF8.data 0 {}).2.1 = .moreValues ∧
    ¬ NsTopComma "s:a\"b,c\" <x>, d\r\nX".toUTF8.data 0 5 ∧
    NsTopComma "s:a\"b,c\" <x>, d\r\nX".toUTF8.data 0 12 := by decide +kernel

/-- tests (evaluation): backslash escapes inside quoted strings are honoured (`"a\",b" <c>` has no top-level comma;
    in `<a>;x="b\\",c` the quoted string ends after the escaped backslash, the comma at 11 separates) -/
example : (parseNameAddrPVal HdrContact "\"a\\\",b\" <c>\r\nX".toUTF8.data 0 {}).2.1 = .ok ∧
    nsCommaCount "\"a\\\",b\" <c>\r\nX".toUTF8.data 0 13 = 0 := by decide +kernel
example : (parseNameAddrPVal HdrContact "<a>;x=\"b\\\\\",c\r\nX".toUTF8.data 0 {}).1 = 12 ∧
    (parseNameAddrPVal HdrContact "<a>;x=\"b\\\\\",c\r\nX".toUTF8.data 0 {}).2.1 = .moreValues ∧
    NsTopComma "<a>;x=\"b\\\\\",c\r\nX".toUTF8.data 0 11 := by decide +kernel

/-- tests (evaluation): `*,` is rejected (bad character at the comma); a single-valued kind never splits -/
example : (parseNameAddrPVal HdrContact "*,\r\nX".toUTF8.data 0 {}).1 = 1 ∧
    (parseNameAddrPVal HdrContact "*,\r\nX".toUTF8.data 0 {}).2.1 = .badChar := by decide +kernel
example : (parseNameAddrPVal HdrFrom "<a>,<b>\r\nX".toUTF8.data 0 {}).2.1 = .ok := by decide +kernel
example : multipleValsOk HdrFrom = false ∧ multipleValsOk HdrTo = false := by decide

/-- test (evaluation): why `ns_value_lead` is stated for kinds with several values only — From skips a leading comma -/
example : (parseNameAddrPVal HdrFrom ",<a>\r\nX".toUTF8.data 0 {}).2.1 = .ok ∧
    (parseNameAddrPVal HdrFrom ",<a>\r\nX".toUTF8.data 0 {}).2.2.v = ⟨1, 3⟩ := by decide +kernel

/-- tests (evaluation): `V` is not always trimmed at its end (bytes after `>` are not part of it; white space after
    `;name=` is) -/
example : (parseNameAddrPVal HdrContact "<a> jk ,c\r\nX".toUTF8.data 0 {}).1 = 8 ∧
    (parseNameAddrPVal HdrContact "<a> jk ,c\r\nX".toUTF8.data 0 {}).2.2.v = ⟨0, 3⟩ ∧
    (parseNameAddrPVal HdrContact "a:b;x= ,c\r\nX".toUTF8.data 0 {}).1 = 8 ∧
    (parseNameAddrPVal HdrContact "a:b;x= ,c\r\nX".toUTF8.data 0 {}).2.2.v = ⟨0, 7⟩ := by decide +kernel

/-- test buffer for the list level: three pieces; commas inside the quoted name, inside `<` … `>` and inside a quoted
    parameter value do not split; the second piece shows bytes (with an unbalanced quote) after `>` -/
def nsExL : Buf := "\"a,b\" <sip:x,y>;p=\"1,2\" , <sip:y> junk\"u , v\r\nX".toUTF8.data

/-- test (evaluation): capacity 1; OK, offset 46, three values counted, two top-level commas in `[0, 46)` -/
theorem nsExL_parse : (parseAllContactValues nsExL 0 { vals := Array.replicate 1 {} }).1 = 46 ∧
    (parseAllContactValues nsExL 0 { vals := Array.replicate 1 {} }).2.1 = .ok ∧
    (parseAllContactValues nsExL 0 { vals := Array.replicate 1 {} }).2.2.n = 3 ∧
    nsCommaCount nsExL 0 46 = 2 := by decide +kernel

/-- non-vacuity of `parseAllContactValues_new_converse`: its hypotheses hold for `nsExL` -/
example : ∃ L : List (Nat × PFromBody), NsSegs HdrContact nsExL 0 L 46 ∧ NsVSpans nsExL L 46 ∧ L.length = 3 := by
  have hp : parseAllContactValues nsExL 0 { vals := Array.replicate 1 {} } =
      (46, .ok, (parseAllContactValues nsExL 0 { vals := Array.replicate 1 {} }).2.2) := by
    have := nsExL_parse
    exact Prod.ext this.1 (Prod.ext this.2.1 rfl)
  obtain ⟨L, h1, h2, _, h3, _⟩ := parseAllContactValues_new_converse nsExL 0 1 (by decide) (by decide) hp
  exact ⟨L, h1, h2, by rw [← h3]; exact nsExL_parse.2.2.1⟩

end Sipsp
