/-
  Sipsp.Proofs.SigGuardSafe — GetMsgSig in EVERY state of the message object (C04 for the signature function; C19 bridge).

  Since the library repair F24 `GetMsgSig` (`getMsgSig`) is a completeness guard in front of its former body
  (`getMsgSigCore`, about which the signature theorems are stated): it reads the object only in the final state `fin` or
  in the end state `noCLen`. All statements are about the model; no size bound other than the documented 65,535-byte
  limit where the re-used safety theorems need it.

  (0) `sgs_parseFLine`, `sgs_parseHeaders` (and one lemma per sub-parser below them: `sgs_skipCRLF`, `sgs_skipLWS`,
      `sgs_parseCallIDVal`, `sgs_parseUIntVal`, `sgs_parseCLenVal`, `sgs_parseCSeqVal`, `sgs_parseNameAddrPVal`,
      `sgs_parseOnePAI`, `sgs_parseAllContactValues`, `sgs_parseAllPAIValues`, `sgs_parseBody`, `sgs_parseHdrLine`, …):
      the first-line parser and the header parser NEVER return the verdict "Content-Length required but missing"
      (any buffer, offset, object) — it is ParseSIPMsg's own verdict. Needed for the "⇐" of (1b).
  (1) verdict / state relation, `sg_verdict_state` (`SgVS`), for EVERY ParseSIPMsg call — any object (new, suspended,
      finished, failed), any buffer, offset, flags; no hypothesis:
        (a) `sg_fin_iff_ok`     : state `fin`   ⇔ verdict OK
        (b) `sg_noCLen_iff`     : state `noCLen` ⇔ verdict NoCLen
        (c) `sg_suspended_iff`  : state `fline` / `headers` / `body` ⇔ verdict MoreBytes
        (d) `sg_err_iff`        : state `err`   ⇔ any other verdict (every error verdict, "truncated" under the
                                  no-more-data flag, "bug" for a call on an object already in an end state:
                                  `sg_terminal_call`)
        (e) `sg_never_init`     : no call leaves the state of a new object.
      So no verdict leaves "another" state. `sg_resumeRun_vs`: the same relation for a chain of resumed calls.
  (2) `sg_core_safe_noCLen`: after a legitimate call (`ScMsg`, `msgOK2`, `MsgSafe`, as in `sc_getMsgSig_safe`) that
      answered NoCLen the core does not panic. `SgDoneAt` / `sg_parseSIPMsg_done` / `sg_complete_done`: in both end
      states the object is complete — `Buf` is the buffer up to the returned offset, Call-ID, From tag and every stored
      header value lie before it, no unfilled header slot has a type; `sg_core_safe_of`.
  (3) [C04] **GetMsgSig never panics, whatever state the parse is in** — for EVERY verdict (OK, MoreBytes, NoCLen, any
      error) of a legitimate call:
        `sig_never_panics_any_verdict`                : one call on an object with any history (`ScReach`);
        `sig_never_panics_any_verdict_ext`            : … also against any extension of the buffer, same result;
        `sig_never_panics_any_verdict_init`           : first call after Init, no legitimacy hypothesis left;
        `sig_never_panics_any_verdict_after_reset`    : any history, Reset, one call;
        `sig_never_panics_any_verdict_schedule`       : every chunk schedule from Init, whatever verdict the chain of
            resumed calls ends with: no panic against the buffer of the last call made, against every extension of it
            and against the last buffer of the schedule, same result on all of them
            (`…_schedule_from`: from any legitimate object; `…_after_reset_schedule`: after any history + Reset);
        `sig_empty_unless_complete`(`_schedule`)      : after every verdict other than OK and NoCLen (MoreBytes, any
            error) GetMsgSig answers "empty" — empty signature, verdict `empty`, no panic — on ANY buffer; no
            hypothesis at all (any object, any call); `sig_empty_new` for a new object.
  (4) [C19] for completed messages nothing changed: `sig_guard_transparent` (after OK, one call, any object:
      `getMsgSig m' x = getMsgSigCore m' x` for every buffer `x`), `sig_guard_transparent_schedule` (every chunk schedule
      ending with OK), `sig_guard_transparent_noCLen`(`_schedule`) (the same after NoCLen). So every theorem about
      `getMsgSigCore` of a successfully parsed message is a theorem about `GetMsgSig`.

  NOT proved here:
  * the legitimacy hypotheses (`msgOK2`, `MsgSafe`) of the one-call theorems are assumptions, as in
    `sc_getMsgSig_safe_history`: they hold for the first call after Init / Reset (`…_init`, `…_after_reset`: no hypothesis
    left) and for every resumed call of a schedule (discharged inside the schedule theorems); a call that is not
    legitimate (e.g. resumed on an unrelated buffer) is outside the statement, as it is outside C04;
  * caller arrays handed to Init are assumed cleared (`Array.replicate k {}`), as in C01 / C04 / C13;
  * nothing is claimed about the CORE on a suspended or failed object: it does panic there (tests below: the message cut
    after 80 bytes, the failed parse) — this is the defect F24 the guard repairs; panic-freedom of `getMsgSig` in those
    states comes from the guard alone;
  * hand-made objects (state `fin` set without a parse) are outside (3);
  * that GetMsgSig is a pure function of the object and the buffer (no shared state, concurrency) is by construction of
    the model, not a theorem.
-/
import Sipsp.Proofs.SigCompose
import Sipsp.Proofs.SigGuard
namespace Sipsp

theorem sgs_skipCRLF (b : Buf) (i : Nat) : (skipCRLF b i).2.2 ≠ .noCLen := by
  unfold skipCRLF
  repeat' split
  all_goals (intro h; cases h)

theorem sgs_skipLWS (b : Buf) (i flags : Nat) : (skipLWS b i flags).2.2 ≠ .noCLen := by
  fun_induction skipLWS b i flags
  all_goals first
    | assumption
    | (intro h; cases h; done)
    | skip
  rename_i i0 _ _ _ _ _ _ _ _ hs
  have := sgs_skipCRLF b i0
  rw [hs] at this
  exact this

theorem sgs_runLoop {σ : Type} (m : Machine σ) (b : Buf)
    (hd : ∀ i c st o e st', m.step b i c st = .done o e st' → e ≠ .noCLen)
    (he : ∀ i st, (m.eob b i st).2.1 ≠ .noCLen) (i : Nat) (st : σ) : (runLoop m b i st).2.1 ≠ .noCLen := by
  apply runLoop_inv m b (fun _ _ => True) (fun r => r.2.1 ≠ Err.noCLen)
  · intro i c st i' st' _ _ _
    exact ⟨fun _ => trivial, fun _ => by intro h; cases h⟩
  · intro i c st o e st' _ _ hs; exact hd i c st o e st' hs
  · intro i st _ _; exact he i st
  · trivial

theorem sgs_lwsStd {σ : Type} (b : Buf) (i : Nat) (st : σ) (eoh : σ → Nat → Nat → Nat → Nat × Err × σ) (mb : σ → σ)
    (heoh : ∀ st i n crl, (eoh st i n crl).2.1 ≠ .noCLen) {o : Nat} {e : Err} {st' : σ}
    (h : lwsStd b i st eoh mb = .done o e st') : e ≠ .noCLen := by
  unfold lwsStd at h
  have hl := sgs_skipLWS b i 0
  rcases hq : skipLWS b i 0 with ⟨n, crl, e1⟩
  rw [hq] at h hl
  cases e1 <;> simp only [Step.done.injEq, reduceCtorEq] at h
  case eoh => obtain ⟨_, rfl, _⟩ := h; exact heoh _ _ _ _
  all_goals first
    | (obtain ⟨_, rfl, _⟩ := h; first | exact hl | (intro hh; cases hh))

/-! value parsers -/

theorem sgs_ciEOH (st : PCallIDBody) (i n crl : Nat) : (ciEOH st i n crl).2.1 ≠ .noCLen := by
  unfold ciEOH; split <;> (intro h; cases h)

theorem sgs_ciStep (b : Buf) (i : Nat) (c : UInt8) (st : PCallIDBody) {o : Nat} {e : Err} {st' : PCallIDBody}
    (h : ciStep b i c st = .done o e st') : e ≠ .noCLen := by
  unfold ciStep at h
  repeat' split at h
  all_goals first
    | exact sgs_lwsStd _ _ _ _ _ sgs_ciEOH h
    | (cases h <;> (intro hh; cases hh))

theorem sgs_parseCallIDVal (b : Buf) (o : Nat) (st : PCallIDBody) : (parseCallIDVal b o st).2.1 ≠ .noCLen := by
  unfold parseCallIDVal
  split
  · intro h; cases h
  · exact sgs_runLoop ciMachine b (fun i c st o e st' h => sgs_ciStep b i c st h) (fun i st => by intro h; cases h) o st

theorem sgs_clEOH (st : PUIntBody) (i n crl : Nat) : (clEOH st i n crl).2.1 ≠ .noCLen := by
  unfold clEOH; split <;> (intro h; cases h)

theorem sgs_clStep (b : Buf) (i : Nat) (c : UInt8) (st : PUIntBody) {o : Nat} {e : Err} {st' : PUIntBody}
    (h : clStep b i c st = .done o e st') : e ≠ .noCLen := by
  unfold clStep at h
  simp only at h
  repeat' split at h
  all_goals first
    | exact sgs_lwsStd _ _ _ _ _ sgs_clEOH h
    | (cases h <;> (intro hh; cases hh))

theorem sgs_parseUIntVal (b : Buf) (o : Nat) (st : PUIntBody) : (parseUIntVal b o st).2.1 ≠ .noCLen := by
  unfold parseUIntVal
  split
  · intro h; cases h
  · exact sgs_runLoop clMachine b (fun i c st o e st' h => sgs_clStep b i c st h) (fun i st => by intro h; cases h) o st

theorem sgs_parseCLenVal (b : Buf) (o : Nat) (st : PUIntBody) : (parseCLenVal b o st).2.1 ≠ .noCLen := by
  unfold parseCLenVal
  have := sgs_parseUIntVal b o st
  split
  · split <;> (intro h; cases h)
  · exact this

theorem sgs_csEOH (b : Buf) (st : PCSeqBody) (i n crl : Nat) : (csEOH b st i n crl).2.1 ≠ .noCLen := by
  unfold csEOH csFinish
  simp only
  repeat' split
  all_goals (intro h; cases h)

theorem sgs_csStep (b : Buf) (i : Nat) (c : UInt8) (st : PCSeqBody) {o : Nat} {e : Err} {st' : PCSeqBody}
    (h : csStep b i c st = .done o e st') : e ≠ .noCLen := by
  unfold csStep at h
  simp only at h
  repeat' split at h
  all_goals first
    | exact sgs_lwsStd _ _ _ _ _ (sgs_csEOH b) h
    | (cases h <;> (intro hh; cases hh))

theorem sgs_parseCSeqVal (b : Buf) (o : Nat) (st : PCSeqBody) : (parseCSeqVal b o st).2.1 ≠ .noCLen := by
  unfold parseCSeqVal
  split
  · intro h; cases h
  · exact sgs_runLoop csMachine b (fun i c st o e st' h => sgs_csStep b i c st h) (fun i st => by intro h; cases h) o st

/-! name-addr -/

theorem sgs_naEOH (h : Nat) (b : Buf) (pf : PFromBody) (i n crl : Nat) (retOk : Err) (hr : retOk ≠ .noCLen) :
    (naEOH h b pf i n crl retOk).2.1 ≠ .noCLen := by
  unfold naEOH naFinish
  split
  all_goals first
    | exact hr
    | (intro hh; cases hh)

theorem sgs_naMoreValues (h : Nat) (b : Buf) (pf : PFromBody) (i : Nat) {o : Nat} {e : Err} {st' : PFromBody}
    (hs : naMoreValues h b pf i = .done o e st') : e ≠ .noCLen := by
  unfold naMoreValues at hs
  simp only [Step.done.injEq] at hs
  obtain ⟨_, rfl, _⟩ := hs
  exact sgs_naEOH _ _ _ _ _ _ _ (by decide)

theorem sgs_naLWS (h : Nat) (b : Buf) (i : Nat) (pf : PFromBody) {o : Nat} {e : Err} {st' : PFromBody}
    (hs : naLWS h b i pf = .done o e st') : e ≠ .noCLen := by
  unfold naLWS at hs
  exact sgs_lwsStd _ _ _ _ _ (fun st i n crl => sgs_naEOH _ _ _ _ _ _ _ (by decide)) hs

theorem sgs_naCommaAfterWS (h : Nat) (b : Buf) (pf : PFromBody) (i e0 : Nat) {o : Nat} {e : Err} {st' : PFromBody}
    (hs : naCommaAfterWS h b pf i e0 = .done o e st') : e ≠ .noCLen := by
  unfold naCommaAfterWS at hs
  split at hs
  · simp only [Step.done.injEq] at hs
    obtain ⟨_, rfl, _⟩ := hs
    exact sgs_naEOH _ _ _ _ _ _ _ (by decide)
  · cases hs; intro hh; cases hh

theorem sgs_naStepA (h : Nat) (b : Buf) (i : Nat) (c : UInt8) (pf : PFromBody) {o : Nat} {e : Err} {st' : PFromBody}
    (hs : naStepA h b i c pf = .done o e st') : e ≠ .noCLen := by
  unfold naStepA at hs
  repeat' split at hs
  all_goals first
    | exact sgs_naLWS _ _ _ _ hs
    | exact sgs_naMoreValues _ _ _ _ hs
    | (cases hs <;> (intro hh; cases hh))

theorem sgs_naStepQ (h : Nat) (b : Buf) (i : Nat) (c : UInt8) (pf : PFromBody) {o : Nat} {e : Err} {st' : PFromBody}
    (hs : naStepQ h b i c pf = .done o e st') : e ≠ .noCLen := by
  unfold naStepQ at hs
  repeat' split at hs
  all_goals first
    | exact sgs_naLWS _ _ _ _ hs
    | (cases hs <;> (intro hh; cases hh))

theorem sgs_naStepU (i : Nat) (c : UInt8) (pf : PFromBody) {o : Nat} {e : Err} {st' : PFromBody}
    (hs : naStepU i c pf = .done o e st') : e ≠ .noCLen := by
  unfold naStepU at hs
  repeat' split at hs
  all_goals (cases hs <;> (intro hh; cases hh))

theorem sgs_naStepUF (h : Nat) (b : Buf) (i : Nat) (c : UInt8) (pf : PFromBody) {o : Nat} {e : Err} {st' : PFromBody}
    (hs : naStepUF h b i c pf = .done o e st') : e ≠ .noCLen := by
  unfold naStepUF at hs
  repeat' split at hs
  all_goals first
    | exact sgs_naLWS _ _ _ _ hs
    | exact sgs_naMoreValues _ _ _ _ hs
    | (cases hs <;> (intro hh; cases hh))

theorem sgs_naStepP (h : Nat) (b : Buf) (i : Nat) (c : UInt8) (pf : PFromBody) {o : Nat} {e : Err} {st' : PFromBody}
    (hs : naStepP h b i c pf = .done o e st') : e ≠ .noCLen := by
  unfold naStepP at hs
  have hl := sgs_skipLWS b i 0
  repeat' split at hs
  all_goals first
    | exact sgs_naMoreValues _ _ _ _ hs
    | (simp only [Step.done.injEq] at hs
       obtain ⟨_, rfl, _⟩ := hs
       exact sgs_naEOH _ _ _ _ _ _ _ (by decide))
    | (rename_i hq
       rw [hq] at hl
       simp only [Step.done.injEq] at hs
       obtain ⟨_, rfl, _⟩ := hs
       exact hl)
    | (cases hs <;> (intro hh; cases hh))

theorem sgs_naStepPE (h : Nat) (b : Buf) (i : Nat) (c : UInt8) (pf : PFromBody) {o : Nat} {e : Err} {st' : PFromBody}
    (hs : naStepPE h b i c pf = .done o e st') : e ≠ .noCLen := by
  unfold naStepPE at hs
  repeat' split at hs
  all_goals first
    | exact sgs_naCommaAfterWS _ _ _ _ _ hs
    | (cases hs <;> (intro hh; cases hh))

theorem sgs_naStepV (h : Nat) (b : Buf) (i : Nat) (c : UInt8) (pf : PFromBody) {o : Nat} {e : Err} {st' : PFromBody}
    (hs : naStepV h b i c pf = .done o e st') : e ≠ .noCLen := by
  unfold naStepV at hs
  have hl := sgs_skipLWS b i 0
  repeat' split at hs
  all_goals first
    | exact sgs_naMoreValues _ _ _ _ hs
    | (simp only [Step.done.injEq] at hs
       obtain ⟨_, rfl, _⟩ := hs
       exact sgs_naEOH _ _ _ _ _ _ _ (by decide))
    | (rename_i hq
       rw [hq] at hl
       simp only [Step.done.injEq] at hs
       obtain ⟨_, rfl, _⟩ := hs
       exact hl)
    | (cases hs <;> (intro hh; cases hh))

theorem sgs_naStepVE (h : Nat) (b : Buf) (i : Nat) (c : UInt8) (pf : PFromBody) {o : Nat} {e : Err} {st' : PFromBody}
    (hs : naStepVE h b i c pf = .done o e st') : e ≠ .noCLen := by
  unfold naStepVE at hs
  repeat' split at hs
  all_goals first
    | exact sgs_naCommaAfterWS _ _ _ _ _ hs
    | (cases hs <;> (intro hh; cases hh))

theorem sgs_naStepStar (h : Nat) (b : Buf) (i : Nat) (c : UInt8) (pf : PFromBody) {o : Nat} {e : Err} {st' : PFromBody}
    (hs : naStepStar h b i c pf = .done o e st') : e ≠ .noCLen := by
  unfold naStepStar at hs
  split at hs
  · exact sgs_naLWS _ _ _ _ hs
  · cases hs; intro hh; cases hh

theorem sgs_naStep (h : Nat) (b : Buf) (i : Nat) (c : UInt8) (pf : PFromBody) {o : Nat} {e : Err} {st' : PFromBody}
    (hs : naStep h b i c pf = .done o e st') : e ≠ .noCLen := by
  unfold naStep at hs
  split at hs
  all_goals first
    | exact sgs_naStepA _ _ _ _ _ hs
    | exact sgs_naStepQ _ _ _ _ _ hs
    | exact sgs_naStepU _ _ _ hs
    | exact sgs_naStepUF _ _ _ _ _ hs
    | exact sgs_naStepP _ _ _ _ _ hs
    | exact sgs_naStepPE _ _ _ _ _ hs
    | exact sgs_naStepV _ _ _ _ _ hs
    | exact sgs_naStepVE _ _ _ _ _ hs
    | exact sgs_naStepStar _ _ _ _ _ hs
    | cases hs

theorem sgs_parseNameAddrPVal (h : Nat) (b : Buf) (o : Nat) (pf : PFromBody) :
    (parseNameAddrPVal h b o pf).2.1 ≠ .noCLen := by
  unfold parseNameAddrPVal
  split
  · intro hh; cases hh
  · exact sgs_runLoop (naMachine h) b (fun i c st o e st' hs => sgs_naStep h b i c st hs)
      (fun i st => by intro hh; cases hh) o _

theorem sgs_parseOnePAI (b : Buf) (o : Nat) (pf : PFromBody) : (parseOnePAI b o pf).2.1 ≠ .noCLen := by
  unfold parseOnePAI
  have := sgs_parseNameAddrPVal HdrPAI b o pf
  rcases hq : parseNameAddrPVal HdrPAI b o pf with ⟨n, e, pf'⟩
  rw [hq] at this
  simp only
  split
  · intro hh; cases hh
  · exact this

theorem sgs_contactsLoop (b : Buf) (o : Nat) (c : PContacts) : (contactsLoop b o c).2.1 ≠ .noCLen := by
  fun_induction contactsLoop b o c
  all_goals first
    | assumption
    | (intro hh; cases hh; done)
    | skip
  rename_i o1 c1 _ _ _ _ _ _ _ hq
  have := sgs_parseNameAddrPVal HdrContact b o1 c1.cur
  unfold parseOneContact at hq
  rw [hq] at this
  exact this

theorem sgs_parseAllContactValues (b : Buf) (o : Nat) (c : PContacts) :
    (parseAllContactValues b o c).2.1 ≠ .noCLen := by
  unfold parseAllContactValues
  exact sgs_contactsLoop _ _ _

theorem sgs_paisLoop (b : Buf) (o : Nat) (c : PPAIs) : (paisLoop b o c).2.1 ≠ .noCLen := by
  fun_induction paisLoop b o c
  all_goals first
    | assumption
    | (intro hh; cases hh; done)
    | skip
  rename_i o1 c1 _ _ _ _ _ _ _ hq
  have := sgs_parseOnePAI b o1 c1.cur
  rw [hq] at this
  exact this

theorem sgs_parseAllPAIValues (b : Buf) (o : Nat) (c : PPAIs) : (parseAllPAIValues b o c).2.1 ≠ .noCLen := by
  unfold parseAllPAIValues
  exact sgs_paisLoop _ _ _

/-! header lines -/

theorem sgs_parseBody (b : Buf) (o : Nat) (h : Hdr) (hb : Option PHdrVals) : (parseBody b o h hb).2.1 ≠ .noCLen := by
  unfold parseBody
  cases hb with
  | none => intro hh; cases hh
  | some hv =>
  have h1 : (parseFromVal b o hv.from_).2.1 ≠ .noCLen := sgs_parseNameAddrPVal HdrFrom b o hv.from_
  have h2 := sgs_parseNameAddrPVal HdrTo b o hv.to
  have h3 := sgs_parseCallIDVal b o hv.callid
  have h4 := sgs_parseCSeqVal b o hv.cseq
  have h5 := sgs_parseCLenVal b o hv.clen
  have h6 := sgs_parseUIntVal b o hv.expires
  have h7 := fun c => sgs_parseAllContactValues b o c
  have h8 := fun c => sgs_parseAllPAIValues b o c
  simp only
  by_cases c1 : (h.type == HdrFrom) = true
  · simp only [c1, ↓reduceIte]
    split
    · rcases hq : parseFromVal b o hv.from_ with ⟨n, e, f⟩
      rw [hq] at h1
      exact h1
    · intro hh; cases hh
  simp only [c1, Bool.false_eq_true, ↓reduceIte]
  by_cases c2 : (h.type == HdrTo) = true
  · simp only [c2, ↓reduceIte]
    split
    · rcases hq : parseNameAddrPVal HdrTo b o hv.to with ⟨n, e, f⟩
      rw [hq] at h2
      exact h2
    · intro hh; cases hh
  simp only [c2, Bool.false_eq_true, ↓reduceIte]
  by_cases c3 : (h.type == HdrCallID) = true
  · simp only [c3, ↓reduceIte]
    split
    · rcases hq : parseCallIDVal b o hv.callid with ⟨n, e, f⟩
      rw [hq] at h3
      exact h3
    · intro hh; cases hh
  simp only [c3, Bool.false_eq_true, ↓reduceIte]
  by_cases c4 : (h.type == HdrCSeq) = true
  · simp only [c4, ↓reduceIte]
    split
    · rcases hq : parseCSeqVal b o hv.cseq with ⟨n, e, f⟩
      rw [hq] at h4
      exact h4
    · intro hh; cases hh
  simp only [c4, Bool.false_eq_true, ↓reduceIte]
  by_cases c5 : (h.type == HdrCLen) = true
  · simp only [c5, ↓reduceIte]
    split
    · rcases hq : parseCLenVal b o hv.clen with ⟨n, e, f⟩
      rw [hq] at h5
      exact h5
    · intro hh; cases hh
  simp only [c5, Bool.false_eq_true, ↓reduceIte]
  by_cases c6 : (h.type == HdrContact) = true
  · simp only [c6, ↓reduceIte]
    exact h7 _
  simp only [c6, Bool.false_eq_true, ↓reduceIte]
  by_cases c7 : (h.type == HdrExpires) = true
  · simp only [c7, ↓reduceIte]
    split
    · rcases hq : parseUIntVal b o hv.expires with ⟨n, e, f⟩
      rw [hq] at h6
      exact h6
    · intro hh; cases hh
  simp only [c7, Bool.false_eq_true, ↓reduceIte]
  by_cases c8 : (h.type == HdrPAI) = true
  · simp only [c8, ↓reduceIte]
    exact h8 _
  simp only [c8, Bool.false_eq_true, ↓reduceIte]
  intro hh; cases hh

theorem sgs_hlAfterColon (b : Buf) (i : Nat) (h : Hdr) (hb : Option PHdrVals) {o : Nat} {e : Err} {st' : HLσ}
    (hs : hlAfterColon b i h hb = .done o e st') : e ≠ .noCLen := by
  unfold hlAfterColon at hs
  split at hs
  · cases hs; intro hh; cases hh
  · rename_i nm _
    have hp := sgs_parseBody b i { h with type := getHdrType nm } hb
    rcases hq : parseBody b i { h with type := getHdrType nm } hb with ⟨n, e1, h2, hb2⟩
    simp only at hs
    rw [hq] at hs hp
    simp only at hs
    split at hs
    · cases hs; exact hp
    · cases hs

theorem sgs_hlName (b : Buf) (i : Nat) (h : Hdr) (hb : Option PHdrVals) {o : Nat} {e : Err} {st' : HLσ}
    (hs : hlName b i h hb = .done o e st') : e ≠ .noCLen := by
  unfold hlName at hs
  simp only at hs
  repeat' split at hs
  all_goals first
    | exact sgs_hlAfterColon _ _ _ _ hs
    | (cases hs <;> (intro hh; cases hh))

theorem sgs_hlValEnd (b : Buf) (i : Nat) (h : Hdr) (hb : Option PHdrVals) {o : Nat} {e : Err} {st' : HLσ}
    (hs : hlValEnd b i h hb = .done o e st') : e ≠ .noCLen := by
  unfold hlValEnd at hs
  have hl := sgs_skipLWS b i 0
  split at hs
  · cases hs
  · cases hs; intro hh; cases hh
  · rename_i hq
    rw [hq] at hl
    cases hs
    exact hl

theorem sgs_hlCont (b : Buf) (i : Nat) (h : Hdr) (hb : Option PHdrVals) {o : Nat} {e : Err} {st' : HLσ}
    (hs : hlCont b i h hb = .done o e st') : e ≠ .noCLen := by
  unfold hlCont at hs
  split at hs
  · cases hs; intro hh; cases hh
  · rename_i hv
    have h1 : (parseFromVal b i hv.from_).2.1 ≠ .noCLen := sgs_parseNameAddrPVal HdrFrom b i hv.from_
    have h2 := sgs_parseNameAddrPVal HdrTo b i hv.to
    have h3 := sgs_parseCallIDVal b i hv.callid
    have h4 := sgs_parseCSeqVal b i hv.cseq
    have h5 := sgs_parseCLenVal b i hv.clen
    have h6 := sgs_parseUIntVal b i hv.expires
    have h7 := sgs_parseAllContactValues b i hv.contacts
    have h8 := sgs_parseAllPAIValues b i hv.pais
    split at hs
    all_goals first
      | (cases hs; intro hh; cases hh; done)
      | (split at hs
         rename_i hq
         cases hs
         have hh := congrArg (fun r => r.2.1) hq
         simp only at hh
         rw [← hh]
         first | exact h1 | exact h2 | exact h3 | exact h4 | exact h5 | exact h6 | exact h7 | exact h8)

theorem sgs_hlStep (b : Buf) (i : Nat) (c : UInt8) (st : HLσ) {o : Nat} {e : Err} {st' : HLσ}
    (hs : hlStep b i c st = .done o e st') : e ≠ .noCLen := by
  obtain ⟨h, hb⟩ := st
  unfold hlStep at hs
  simp only at hs
  have hl := sgs_skipLWS b i 0
  split at hs
  all_goals first
    | exact sgs_hlName _ _ _ _ hs
    | exact sgs_hlValEnd _ _ _ _ hs
    | exact sgs_hlCont _ _ _ _ hs
    | (cases hs <;> (intro hh; cases hh); done)
    | skip
  · repeat' split at hs
    all_goals first
      | exact sgs_hlName _ _ _ _ hs
      | (cases hs <;> (intro hh; cases hh))
  · repeat' split at hs
    all_goals first
      | exact sgs_hlAfterColon _ _ _ _ hs
      | (cases hs <;> (intro hh; cases hh))
  · split at hs
    · cases hs
    · cases hs; intro hh; cases hh
    · rename_i hq
      rw [hq] at hl
      cases hs
      exact hl
  · split at hs
    · cases hs; intro hh; cases hh
    · exact sgs_hlValEnd _ _ _ _ hs

theorem sgs_parseHdrLine (b : Buf) (o : Nat) (h : Hdr) (hb : Option PHdrVals) : (parseHdrLine b o h hb).2.1 ≠ .noCLen := by
  unfold parseHdrLine
  have := sgs_runLoop hlMachine b (fun i c st o e st' hs => sgs_hlStep b i c st hs)
    (fun i st => by intro hh; cases hh) o (h, hb)
  rcases hq : runLoop hlMachine b o (h, hb) with ⟨o1, e1, h1, hb1⟩
  rw [hq] at this
  exact this

/-- **ParseHeaders never returns "Content-Length missing"** -/
theorem sgs_parseHeaders (b : Buf) (o : Nat) (hl : HdrLst) (hb : Option PHdrVals) :
    (parseHeaders b o hl hb).2.1 ≠ .noCLen := by
  induction hk : b.size - o using Nat.strongRecOn generalizing o hl hb with
  | _ k ih =>
    rw [parseHeaders.eq_1 b o hl hb]
    by_cases hlt : o < b.size
    · rw [if_pos hlt]
      have hline := sgs_parseHdrLine b o hl.cur hb
      rcases hp1 : parseHdrLine b o hl.cur hb with ⟨n1, e1, g1, v1⟩
      rw [hp1] at hline
      cases e1 <;> simp only
      case ok =>
        by_cases hg : o < n1
        · rw [if_pos hg]
          exact ih (b.size - n1) (by omega) n1 _ v1 rfl
        · rw [if_neg hg]
          intro hh; cases hh
      case empty => split <;> (intro hh; cases hh)
      case noCLen => exact absurd rfl hline
      all_goals (intro hh; cases hh)
    · rw [if_neg hlt]
      intro hh; cases hh

/-! first line -/

theorem sgs_flCRLF (b : Buf) (i : Nat) (pl : PFLine) : (flCRLF b i pl).2.1 ≠ .noCLen := by
  unfold flCRLF
  have := sgs_skipCRLF b i
  split
  · intro hh; cases hh
  · rename_i hq
    rw [hq] at this
    exact this

theorem sgs_flReqVer (b : Buf) (i : Nat) (pl : PFLine) : (flReqVer b i pl).2.1 ≠ .noCLen := by
  unfold flReqVer
  simp only
  repeat' split
  all_goals first
    | exact sgs_flCRLF _ _ _
    | (intro hh; cases hh)

theorem sgs_flReqURI (b : Buf) (i : Nat) (pl : PFLine) : (flReqURI b i pl).2.1 ≠ .noCLen := by
  unfold flReqURI
  simp only
  repeat' split
  all_goals first
    | exact sgs_flReqVer _ _ _
    | (intro hh; cases hh)

theorem sgs_flReqMethod (b : Buf) (i : Nat) (pl : PFLine) : (flReqMethod b i pl).2.1 ≠ .noCLen := by
  unfold flReqMethod
  simp only
  repeat' split
  all_goals first
    | exact sgs_flReqURI _ _ _
    | (intro hh; cases hh)

theorem sgs_flRplReason (b : Buf) (i : Nat) (pl : PFLine) : (flRplReason b i pl).2.1 ≠ .noCLen := by
  unfold flRplReason
  have := sgs_skipCRLF b (skipToEOL b i)
  split
  · intro hh; cases hh
  · rename_i hq
    unfold skipLine at hq
    rw [hq] at this
    exact this

theorem sgs_flReply (b : Buf) (i0 l : Nat) (pl : PFLine) : (flReply b i0 l pl).2.1 ≠ .noCLen := by
  unfold flReply
  simp only
  repeat' split
  all_goals first
    | exact sgs_flRplReason _ _ _
    | (intro hh; cases hh)

/-- **ParseFLine never returns "Content-Length missing"** -/
theorem sgs_parseFLine (b : Buf) (o : Nat) (pl : PFLine) : (parseFLine b o pl).2.1 ≠ .noCLen := by
  unfold parseFLine
  repeat' split
  all_goals first
    | exact sgs_flReply _ _ _ _
    | exact sgs_flReqMethod _ _ _
    | exact sgs_flReqURI _ _ _
    | exact sgs_flReqVer _ _ _
    | exact sgs_flCRLF _ _ _
    | exact sgs_flRplReason _ _ _
    | (intro hh; cases hh)

/-! ## (1) verdict and state of ParseSIPMsg -/

/-- the state a ParseSIPMsg call leaves the object in, by verdict -/
def SgVS (e : Err) (s : MsgState) : Prop :=
  match e with
  | .ok => s = .fin
  | .noCLen => s = .noCLen
  | .moreBytes => s = .fline ∨ s = .headers ∨ s = .body
  | _ => s = .err

theorem SgVS.facts {e : Err} {s : MsgState} (h : SgVS e s) :
    (s = .fin ↔ e = .ok) ∧ (s = .noCLen ↔ e = .noCLen) ∧
    (s = .err ↔ (e ≠ .ok ∧ e ≠ .noCLen ∧ e ≠ .moreBytes)) ∧
    ((s = .fline ∨ s = .headers ∨ s = .body) ↔ e = .moreBytes) ∧ s ≠ .init := by
  cases e <;> simp only [SgVS] at h
  case moreBytes => rcases h with h | h | h <;> subst h <;> decide
  all_goals (subst h; decide)

theorem sg_msgErr_vs (m : PSIPMsg) (o : Nat) (e : Err) (flags : Nat) (hne : e ≠ .ok) (hnc : e ≠ .noCLen)
    (hs : m.state = .fline ∨ m.state = .headers ∨ m.state = .body) :
    SgVS (msgErr m o e flags).2.1 (msgErr m o e flags).2.2.state := by
  unfold msgErr
  split
  · rename_i h1
    have : e ≠ .moreBytes := by simpa using h1
    cases e <;> first | exact absurd rfl hne | exact absurd rfl hnc | exact absurd rfl this | exact rfl
  · rename_i h1
    have he : e = .moreBytes := by simpa using h1
    split
    · exact rfl
    · subst he; exact hs

theorem sg_msgBody_vs (b : Buf) (o : Nat) (m : PSIPMsg) (flags : Nat) (hst : m.state = .body) :
    SgVS (msgBody b o m flags).2.1 (msgBody b o m flags).2.2.state := by
  unfold msgBody msgEnd PSIPMsg.setBufs
  simp only
  repeat' split
  all_goals first | exact rfl | exact Or.inr (Or.inr hst)

theorem sg_msgHeaders_vs (b : Buf) (o : Nat) (m : PSIPMsg) (flags : Nat) (hst : m.state = .headers) :
    SgVS (msgHeaders b o m flags).2.1 (msgHeaders b o m flags).2.2.state := by
  unfold msgHeaders
  have hA := sgs_parseHeaders b o m.hl (some m.pv)
  rcases hp : parseHeaders b o m.hl (some m.pv) with ⟨o1, e1, hl1, hb1⟩
  rw [hp] at hA
  cases e1 <;> simp only
  case ok => exact sg_msgBody_vs b o1 _ flags rfl
  case noCLen => exact absurd rfl hA
  all_goals exact sg_msgErr_vs _ _ _ _ (by decide) (by decide) (Or.inr (Or.inl hst))

theorem sg_msgFLine_vs (b : Buf) (o : Nat) (m : PSIPMsg) (flags : Nat) (hst : m.state = .fline) :
    SgVS (msgFLine b o m flags).2.1 (msgFLine b o m flags).2.2.state := by
  unfold msgFLine
  have hA := sgs_parseFLine b o m.fl
  rcases hp : parseFLine b o m.fl with ⟨o1, e1, fl1⟩
  rw [hp] at hA
  cases e1 <;> simp only
  case ok => exact sg_msgHeaders_vs b o1 _ flags rfl
  case noCLen => exact absurd rfl hA
  all_goals exact sg_msgErr_vs _ _ _ _ (by decide) (by decide) (Or.inl hst)

/-- **verdict / state relation of ParseSIPMsg** — EVERY call: any object (new, suspended, finished, failed), buffer,
    offset, flags -/
theorem sg_verdict_state (b : Buf) (o : Nat) (m : PSIPMsg) (flags : Nat) :
    SgVS (parseSIPMsg b o m flags).2.1 (parseSIPMsg b o m flags).2.2.state := by
  unfold parseSIPMsg
  cases hst : m.state <;> simp only
  case init => exact sg_msgFLine_vs b o _ flags rfl
  case fline => exact sg_msgFLine_vs b o m flags hst
  case headers => exact sg_msgHeaders_vs b o m flags hst
  case body => exact sg_msgBody_vs b o m flags hst
  all_goals exact rfl

theorem sg_verdict_state' {b : Buf} {o : Nat} {m : PSIPMsg} {flags : Nat} {o' : Nat} {e : Err} {m' : PSIPMsg}
    (hr : parseSIPMsg b o m flags = (o', e, m')) : SgVS e m'.state := by
  have := sg_verdict_state b o m flags
  rw [hr] at this
  exact this

/-- the final state `fin` is reached exactly with the verdict OK -/
theorem sg_fin_iff_ok {b : Buf} {o : Nat} {m : PSIPMsg} {flags : Nat} {o' : Nat} {e : Err} {m' : PSIPMsg}
    (hr : parseSIPMsg b o m flags = (o', e, m')) : m'.state = .fin ↔ e = .ok := (sg_verdict_state' hr).facts.1

/-- the end state `noCLen` is reached exactly with the verdict "Content-Length required but missing" -/
theorem sg_noCLen_iff {b : Buf} {o : Nat} {m : PSIPMsg} {flags : Nat} {o' : Nat} {e : Err} {m' : PSIPMsg}
    (hr : parseSIPMsg b o m flags = (o', e, m')) : m'.state = .noCLen ↔ e = .noCLen := (sg_verdict_state' hr).facts.2.1

/-- the error state is reached exactly with the error verdicts (everything but OK, NoCLen, MoreBytes) -/
theorem sg_err_iff {b : Buf} {o : Nat} {m : PSIPMsg} {flags : Nat} {o' : Nat} {e : Err} {m' : PSIPMsg}
    (hr : parseSIPMsg b o m flags = (o', e, m')) :
    m'.state = .err ↔ (e ≠ .ok ∧ e ≠ .noCLen ∧ e ≠ .moreBytes) := (sg_verdict_state' hr).facts.2.2.1

/-- MoreBytes is the verdict of exactly the calls that leave the object suspended (first line / header block / body) -/
theorem sg_suspended_iff {b : Buf} {o : Nat} {m : PSIPMsg} {flags : Nat} {o' : Nat} {e : Err} {m' : PSIPMsg}
    (hr : parseSIPMsg b o m flags = (o', e, m')) :
    (m'.state = .fline ∨ m'.state = .headers ∨ m'.state = .body) ↔ e = .moreBytes :=
  (sg_verdict_state' hr).facts.2.2.2.1

/-- … and no call leaves the object in the state of a new object -/
theorem sg_never_init {b : Buf} {o : Nat} {m : PSIPMsg} {flags : Nat} {o' : Nat} {e : Err} {m' : PSIPMsg}
    (hr : parseSIPMsg b o m flags = (o', e, m')) : m'.state ≠ .init := (sg_verdict_state' hr).facts.2.2.2.2

/-- a call on an object in an end state (final, NoCLen, error) answers "bug" and leaves the error state -/
theorem sg_terminal_call (b : Buf) (o : Nat) (m : PSIPMsg) (flags : Nat)
    (hst : m.state = .fin ∨ m.state = .noCLen ∨ m.state = .err) :
    parseSIPMsg b o m flags = (o, .bug, { m with state := .err }) := by
  unfold parseSIPMsg
  rcases hst with h | h | h <;> rw [h] <;> rfl

/-! ## (2) the core is safe in both end states -/

/-- a completed object: `Buf` = the buffer up to the returned offset, every reported field lies before it, the header
    slots not filled have no type -/
structure SgDoneAt (b : Buf) (r : Nat × Err × PSIPMsg) : Prop where
  le : r.1 ≤ b.size
  bufLen : r.2.2.bufLen = r.1
  inn : MsgRelIn b r.1 r.2.2
  done : ScDone r.2.2.hl

/-- the core of GetMsgSig does not panic on a completed object -/
theorem sg_core_safe_of {b : Buf} {r : Nat × Err × PSIPMsg} (hfit : b.size ≤ 65535) (h : SgDoneAt b r) :
    (getMsgSigCore r.2.2 b).2.2 = false := by
  obtain ⟨hle, hbl, hin, hD⟩ := h
  apply getMsgSig_safe r.2.2 b hfit (by omega)
  · rw [hbl]; exact hin.pv.callid
  · rw [hbl]; exact hin.pv.from_.tag
  · intro k hk hty
    rcases Nat.lt_or_ge k r.2.2.hl.n with hkn | hkn
    · rw [hbl]; exact (hin.hl.stored k hkn hk).2
    · rw [hD k hkn hk] at hty
      cases hty

theorem sg_msgErr_state (m : PSIPMsg) (o : Nat) (e : Err) (flags : Nat) :
    (msgErr m o e flags).2.2.state = .err ∨ (msgErr m o e flags).2.2.state = m.state := by
  unfold msgErr
  split
  · exact Or.inl rfl
  · split
    · exact Or.inl rfl
    · exact Or.inr rfl

theorem sg_msgBody_done (b : Buf) (o : Nat) (m : PSIPMsg) (flags : Nat) (ho : o ≤ b.size) (hI : MsgRelIn b o m)
    (hD : ScDone m.hl) (hst : m.state = .body) (hs : (msgBody b o m flags).2.2.state = .noCLen) :
    SgDoneAt b (msgBody b o m flags) := by
  revert hs
  unfold msgBody msgEnd PSIPMsg.setBufs
  simp only
  repeat' split
  all_goals first
    | (intro hs; exact ⟨ho, rfl, ⟨hI.fl, hI.hl, hI.pv⟩, hD⟩)
    | (intro hs; cases hs; done)
    | (intro hs; exact absurd (hst.symm.trans hs) (by decide))

theorem sg_msgHeaders_done (b : Buf) (o : Nat) (m : PSIPMsg) (flags : Nat) (hfit : b.size ≤ 65535)
    (hst : m.state = .headers) (hT : ScTail m.hl) (hok : msgOK2 b o m) (H : MsgSafe b o m)
    (hs : (msgHeaders b o m flags).2.2.state = .noCLen) : SgDoneAt b (msgHeaders b o m flags) := by
  obtain ⟨ho, _, hrest⟩ := hok
  obtain ⟨hls, hvs, hpe⟩ := hrest (by rw [hst]; decide)
  have hS := parseHeaders_safe b o m.hl (some m.pv) hfit hls hvs hpe ho (H.hls (Or.inr (Or.inr hst)))
  have hsome := parseHeaders_isSome b o m.hl m.pv
  have hph := sc_parseHeaders b o m.hl (some m.pv) hT
  rw [msgHeaders_eq] at hs ⊢
  rcases hp : parseHeaders b o m.hl (some m.pv) with ⟨o1, e1, hl1, hb1⟩
  rw [hp] at hS hsome hph hs
  cases hb1 with
  | none => cases hsome
  | some pv1 =>
    obtain ⟨hO, hV, hM, hR, hN⟩ := hS
    simp only at hO hV hM hR hN
    have herr : ∀ e : Err, (msgErr { m with hl := hl1, pv := pv1 } o1 e flags).2.2.state ≠ .noCLen := by
      intro e hh
      rcases sg_msgErr_state { m with hl := hl1, pv := pv1 } o1 e flags with h | h
      · rw [h] at hh; cases hh
      · rw [h] at hh
        have : m.state = .noCLen := hh
        rw [hst] at this; cases this
    unfold afterHeaders at hs ⊢
    cases e1 <;> simp only [Option.getD_some] at hs ⊢
    case ok =>
      have h1 := hR (Or.inl rfl)
      have hHS := hM (Or.inr rfl)
      exact sg_msgBody_done b o1 _ flags hN ⟨H.inn.fl.mono h1.1 hN, hHS.inn, (hHS.cur.hv pv1 rfl).inn⟩ (hph.1 rfl) rfl hs
    all_goals exact absurd hs (herr _)

theorem sg_msgFLine_done (b : Buf) (o : Nat) (m : PSIPMsg) (flags : Nat) (hfit : b.size ≤ 65535)
    (hst : m.state = .fline) (hT : ScTail m.hl) (hok : msgOK2 b o m) (H : MsgSafe b o m)
    (hs : (msgFLine b o m flags).2.2.state = .noCLen) : SgDoneAt b (msgFLine b o m flags) := by
  obtain ⟨ho, _, hrest⟩ := hok
  obtain ⟨hls, hvs, hpe⟩ := hrest (by rw [hst]; decide)
  have hoffs : m.offs ≤ o := H.offs (by rw [hst]; decide)
  have hF := parseFLine_safe b o m.fl hfit (H.flS (Or.inr hst))
  have hge := parseFLine_ge b o m.fl
  unfold msgFLine at hs ⊢
  rcases hp : parseFLine b o m.fl with ⟨o1, e1, fl1⟩
  rw [hp] at hF hge hs
  simp only at hF hge
  have hHls : HlsSafe b o1 m.hl (some m.pv) := (H.hls (Or.inr (Or.inl hst))).mono hge hF.ho
  have herr : ∀ e : Err, (msgErr { m with fl := fl1 } o1 e flags).2.2.state ≠ .noCLen := by
    intro e hh
    rcases sg_msgErr_state { m with fl := fl1 } o1 e flags with h | h
    · rw [h] at hh; cases hh
    · rw [h] at hh
      have : m.state = .noCLen := hh
      rw [hst] at this; cases this
  cases e1 <;> simp only at hs ⊢
  case ok =>
    refine sg_msgHeaders_done b o1 _ flags hfit rfl hT ?_ ?_ hs
    · exact ⟨hF.ho, (fun hh => by rcases hh with hh | hh <;> cases hh), fun _ => ⟨hls, hvOK_mono hvs hge hF.ho, hpe⟩⟩
    · exact ⟨⟨H.pnc, hF.mono hF.ho (Nat.le_refl _), H.hl, H.pv, H.body⟩, hF.ho, (fun _ => by show m.offs ≤ o1; omega),
        (fun hh => by rcases hh with hh | hh <;> cases hh), (fun _ => hHls),
        ⟨hF, H.inn.hl.mono hge, H.inn.pv.mono hge hF.ho⟩⟩
  all_goals exact absurd hs (herr _)

/-- **the object a legitimate call leaves in the `noCLen` end state is complete**: `Buf` is the buffer up to the
    returned offset, every field the signature reads lies before it, no unfilled header slot has a type -/
theorem sg_parseSIPMsg_done (b : Buf) (o : Nat) (m : PSIPMsg) (flags : Nat) (hfit : b.size ≤ 65535)
    (hI : ScMsg m) (hok : msgOK2 b o m) (H : MsgSafe b o m)
    (hs : (parseSIPMsg b o m flags).2.2.state = .noCLen) : SgDoneAt b (parseSIPMsg b o m flags) := by
  cases hst : m.state
  case init =>
    have he : parseSIPMsg b o m flags = msgFLine b o { m with offs := o, state := .fline } flags := by
      unfold parseSIPMsg; rw [hst]
    rw [he] at hs ⊢
    exact sg_msgFLine_done b o _ flags hfit rfl (hI.1 (Or.inl hst))
      ⟨hok.1, fun _ => hok.2.1 (Or.inl hst), fun _ => hok.2.2 (by rw [hst]; decide)⟩
      ⟨⟨H.pnc, H.fl, H.hl, H.pv, H.body⟩, H.ho, (fun _ => Nat.le_refl _), (fun _ => H.flS (Or.inl hst)),
        (fun _ => H.hls (Or.inl hst)), ⟨H.inn.fl, H.inn.hl, H.inn.pv⟩⟩ hs
  case fline =>
    rw [parseSIPMsg_fline b o m flags hst] at hs ⊢
    exact sg_msgFLine_done b o m flags hfit hst (hI.1 (Or.inr (Or.inl hst))) hok H hs
  case headers =>
    rw [parseSIPMsg_headers b o m flags hst] at hs ⊢
    exact sg_msgHeaders_done b o m flags hfit hst (hI.1 (Or.inr (Or.inr hst))) hok H hs
  case body =>
    rw [parseSIPMsg_body b o m flags hst] at hs ⊢
    exact sg_msgBody_done b o m flags H.ho H.inn (hI.2 (Or.inl hst)) hst hs
  all_goals
    (exfalso
     rw [sg_terminal_call b o m flags (by simp [hst])] at hs
     cases hs)

/-- **(2) the core is safe in the `noCLen` end state**: after a legitimate call that answered "Content-Length required
    but missing" the body of GetMsgSig behind its guard does not panic -/
theorem sg_core_safe_noCLen (b : Buf) (o : Nat) (m : PSIPMsg) (flags : Nat) (hfit : b.size ≤ 65535)
    (hI : ScMsg m) (hok : msgOK2 b o m) (H : MsgSafe b o m) {o' : Nat} {m' : PSIPMsg}
    (hr : parseSIPMsg b o m flags = (o', .noCLen, m')) : (getMsgSigCore m' b).2.2 = false := by
  have hs : (parseSIPMsg b o m flags).2.2.state = .noCLen := by
    rw [hr]; exact (sg_noCLen_iff hr).2 rfl
  have := sg_core_safe_of hfit (sg_parseSIPMsg_done b o m flags hfit hI hok H hs)
  rw [hr] at this
  exact this

/-- the same for the final state: what `parseSIPMsg_layout`, `parseSIPMsg_safe` and `sc_parseSIPMsg` give after OK -/
theorem sg_parseSIPMsg_done_ok (b : Buf) (o : Nat) (m : PSIPMsg) (flags : Nat) (hfit : b.size ≤ 65535)
    (hI : ScMsg m) (hok : msgOK2 b o m) (H : MsgSafe b o m)
    (hs : (parseSIPMsg b o m flags).2.1 = .ok) : SgDoneAt b (parseSIPMsg b o m flags) := by
  have hD := (sc_parseSIPMsg b o m flags hI).2 hs
  have hT := parseSIPMsg_safe b o m flags hfit hok H
  rcases hp : parseSIPMsg b o m flags with ⟨o', e, m'⟩
  rw [hp] at hs hD hT
  simp only at hs
  subst hs
  obtain ⟨h, _, _, hle, hL⟩ := parseSIPMsg_layout b o m flags hfit hok H hp
  exact ⟨hle, hL.bufLen, (hT.inn rfl).1, hD⟩

/-- **a legitimate call that leaves the object in one of the two end states GetMsgSig reads leaves it complete** -/
theorem sg_complete_done (b : Buf) (o : Nat) (m : PSIPMsg) (flags : Nat) (hfit : b.size ≤ 65535)
    (hI : ScMsg m) (hok : msgOK2 b o m) (H : MsgSafe b o m)
    (hc : (parseSIPMsg b o m flags).2.2.state = .fin ∨ (parseSIPMsg b o m flags).2.2.state = .noCLen) :
    SgDoneAt b (parseSIPMsg b o m flags) := by
  rcases hc with hc | hc
  · exact sg_parseSIPMsg_done_ok b o m flags hfit hI hok H ((sg_verdict_state b o m flags).facts.1.1 hc)
  · exact sg_parseSIPMsg_done b o m flags hfit hI hok H hc

/-- the guard does not look at the buffer; behind it only `msg.Buf` = the first `bufLen` bytes are read -/
theorem sg_getMsgSig_ext (m : PSIPMsg) (b s : Buf)
    (h : m.state = .fin ∨ m.state = .noCLen → m.bufLen ≤ b.size) : getMsgSig m (b ++ s) = getMsgSig m b := by
  by_cases h1 : m.state = .fin
  · rw [getMsgSig_complete m _ (Or.inl h1), getMsgSig_complete m _ (Or.inl h1), sc_getMsgSig_ext m b s (h (Or.inl h1))]
  · by_cases h2 : m.state = .noCLen
    · rw [getMsgSig_complete m _ (Or.inr h2), getMsgSig_complete m _ (Or.inr h2),
        sc_getMsgSig_ext m b s (h (Or.inr h2))]
    · rw [getMsgSig_incomplete m _ h1 h2, getMsgSig_incomplete m _ h1 h2]

/-! ## (3) GetMsgSig never panics, whatever the verdict of the parse -/

/-- what every legitimate call guarantees about GetMsgSig on its result: no panic against the buffer of the call or
    any extension of it, and the same result on every extension -/
def SgSigFine (b : Buf) (m' : PSIPMsg) : Prop :=
  (getMsgSig m' b).2.2 = false ∧ ∀ s, getMsgSig m' (b ++ s) = getMsgSig m' b

theorem SgSigFine.ext {b : Buf} {m' : PSIPMsg} (h : SgSigFine b m') (s : Buf) : (getMsgSig m' (b ++ s)).2.2 = false := by
  rw [h.2 s]; exact h.1

/-- one call, stated on the invariant `ScMsg` (any verdict) -/
theorem sg_sig_fine (b : Buf) (o : Nat) (m : PSIPMsg) (flags : Nat) (hfit : b.size ≤ 65535)
    (hI : ScMsg m) (hok : msgOK2 b o m) (H : MsgSafe b o m) : SgSigFine b (parseSIPMsg b o m flags).2.2 := by
  by_cases hc : (parseSIPMsg b o m flags).2.2.state = .fin ∨ (parseSIPMsg b o m flags).2.2.state = .noCLen
  · have hD := sg_complete_done b o m flags hfit hI hok H hc
    refine ⟨?_, fun s => sg_getMsgSig_ext _ b s (fun _ => by rw [hD.bufLen]; exact hD.le)⟩
    rw [getMsgSig_complete _ b hc]
    exact sg_core_safe_of hfit hD
  · have h1 : (parseSIPMsg b o m flags).2.2.state ≠ .fin := fun h => hc (Or.inl h)
    have h2 : (parseSIPMsg b o m flags).2.2.state ≠ .noCLen := fun h => hc (Or.inr h)
    refine ⟨?_, fun s => sg_getMsgSig_ext _ b s (fun h => absurd h hc)⟩
    rw [getMsgSig_incomplete _ b h1 h2]

/-- **GetMsgSig never panics, whatever state the parse is in** — one legitimate call on an object with ANY history
    (`ScReach`), ANY verdict: OK, MoreBytes, NoCLen, any error -/
theorem sig_never_panics_any_verdict (b : Buf) (o : Nat) (m : PSIPMsg) (flags : Nat) (hfit : b.size ≤ 65535)
    (hR : ScReach m) (hok : msgOK2 b o m) (H : MsgSafe b o m) {o' : Nat} {e : Err} {m' : PSIPMsg}
    (hr : parseSIPMsg b o m flags = (o', e, m')) : (getMsgSig m' b).2.2 = false := by
  have := (sg_sig_fine b o m flags hfit hR.inv.1 hok H).1
  rw [hr] at this
  exact this

/-- … also when the buffer has grown since (and the result is the same) -/
theorem sig_never_panics_any_verdict_ext (b : Buf) (o : Nat) (m : PSIPMsg) (flags : Nat) (hfit : b.size ≤ 65535)
    (hR : ScReach m) (hok : msgOK2 b o m) (H : MsgSafe b o m) {o' : Nat} {e : Err} {m' : PSIPMsg}
    (hr : parseSIPMsg b o m flags = (o', e, m')) (s : Buf) :
    (getMsgSig m' (b ++ s)).2.2 = false ∧ getMsgSig m' (b ++ s) = getMsgSig m' b := by
  have := sg_sig_fine b o m flags hfit hR.inv.1 hok H
  rw [hr] at this
  exact ⟨this.ext s, this.2 s⟩

/-- **the first call after Init** (any previous contents of the object, cleared caller arrays of any capacity or
    none): no legitimacy hypothesis left -/
theorem sig_never_panics_any_verdict_init (b : Buf) (o : Nat) (ho : o ≤ b.size) (m0 : PSIPMsg) (len kh kc : Nat)
    (hdrs cts : Option Unit) (flags : Nat) (hfit : b.size ≤ 65535) {o' : Nat} {e : Err} {m' : PSIPMsg}
    (hr : parseSIPMsg b o (m0.init len (hdrs.map fun _ => Array.replicate kh {})
      (cts.map fun _ => Array.replicate kc {})) flags = (o', e, m')) : (getMsgSig m' b).2.2 = false :=
  sig_never_panics_any_verdict b o _ flags hfit (ScReach.init m0 len kh kc hdrs cts)
    (msgOK2_init b o ho m0 len kh kc hdrs cts) (MsgSafe_init b o ho m0 len kh kc hdrs cts) hr

/-- **any history, then Reset, then one call** with any verdict -/
theorem sig_never_panics_any_verdict_after_reset {m : PSIPMsg} (hR : ScReach m) (b : Buf) (o : Nat) (ho : o ≤ b.size)
    (flags : Nat) (hfit : b.size ≤ 65535) {o' : Nat} {e : Err} {m' : PSIPMsg}
    (hr : parseSIPMsg b o m.reset flags = (o', e, m')) : (getMsgSig m' b).2.2 = false :=
  sig_never_panics_any_verdict b o m.reset flags hfit (ScReach.reset hR) (sc_reset_legit hR b o ho).1
    (sc_reset_legit hR b o ho).2 hr

/-- **every chunk schedule from any legitimate object, whatever verdict the chain of resumed calls ends with**: there is
    a buffer of the schedule (the one of the last call made) against which — and against every extension of which, in
    particular every later buffer of the schedule — GetMsgSig does not panic, with the same result -/
theorem sig_never_panics_any_verdict_schedule_from (flags : Nat) (o : Nat) (m : PSIPMsg) (l : List Buf)
    (hg : Growing l) (hfit : ∀ x ∈ l, x.size ≤ 65535) (hne : l ≠ []) (hI : ScMsg m)
    (h0 : ∀ b ∈ l.head?, msgOK2 b o m ∧ MsgSafe b o m) :
    ∃ b ∈ l, SgSigFine b (resumeRun (C01.msgP flags) o m l).2.2 := by
  refine resumeRun_post (C01.msgP flags) (fun b o m => msgOK2 b o m ∧ MsgSafe b o m ∧ ScMsg m)
    (fun b _ r => SgSigFine b r.2.2) (fun b => b.size ≤ 65535) ?_ (fun b o o' r _ q => q)
    o m l hg hfit hne (fun b hb => ⟨(h0 b hb).1, (h0 b hb).2, hI⟩)
  intro b o m hfit hInv
  obtain ⟨hok, hS, hI⟩ := hInv
  have hT := parseSIPMsg_safe b o m flags hfit hok hS
  have hsc := (sc_parseSIPMsg b o m flags hI).1
  refine ⟨sg_sig_fine b o m flags hfit hI hok hS, fun hmb => ⟨hT.ge (Or.inr hmb), fun s => ?_⟩⟩
  show msgOK2 (b ++ s) (parseSIPMsg b o m flags).1 (parseSIPMsg b o m flags).2.2 ∧
    MsgSafe (b ++ s) (parseSIPMsg b o m flags).1 (parseSIPMsg b o m flags).2.2 ∧ ScMsg (parseSIPMsg b o m flags).2.2
  have hmb' : (parseSIPMsg b o m flags).2.1 = .moreBytes := hmb
  rcases hp : parseSIPMsg b o m flags with ⟨o1, e1, m1⟩
  rw [hp] at hmb' hT hsc
  simp only at hmb'
  subst hmb'
  have hr := parseSIPMsg_resume b s o m flags flags hok hfit hp
  exact ⟨hr.2.1, (hT.more rfl).grow (by rw [Array.size_append]; omega), hsc⟩

/-- every buffer of a growing schedule is a prefix of the last one -/
theorem sg_growing_getLast (l : List Buf) (hg : Growing l) (hne : l ≠ []) (b : Buf) (hb : b ∈ l) :
    ∃ s, l.getLast hne = b ++ s := by
  induction l with
  | nil => exact absurd rfl hne
  | cons x rest ih =>
    cases rest with
    | nil =>
      have : b = x := by simpa using hb
      subst this
      exact ⟨#[], by simp⟩
    | cons y ys =>
      rw [List.getLast_cons (by simp)]
      rcases List.mem_cons.1 hb with rfl | hb'
      · exact growing_ext hg _ (List.getLast_mem _)
      · exact ih (growing_tail hg) (by simp) hb'

/-- **every chunk schedule from Init, whatever verdict the chain ends with** (OK, MoreBytes — the message is still
    incomplete when the data at hand ends —, NoCLen, any error): GetMsgSig on the object does not panic — against
    the buffer of the last call made, against every extension of it, in particular against the last (longest) buffer
    of the schedule — and gives the same result on all of them -/
theorem sig_never_panics_any_verdict_schedule (flags : Nat) (o : Nat) (m0 : PSIPMsg) (len kh kc : Nat)
    (hdrs cts : Option Unit) (l : List Buf) (hg : Growing l) (hfit : ∀ x ∈ l, x.size ≤ 65535) (hne : l ≠ [])
    (ho : ∀ b ∈ l, o ≤ b.size) {o' : Nat} {e : Err} {m' : PSIPMsg}
    (hr : resumeRun (C01.msgP flags) o
      (m0.init len (hdrs.map fun _ => Array.replicate kh {}) (cts.map fun _ => Array.replicate kc {})) l = (o', e, m')) :
    (∃ b ∈ l, (getMsgSig m' b).2.2 = false ∧ ∀ s, (getMsgSig m' (b ++ s)).2.2 = false ∧
        getMsgSig m' (b ++ s) = getMsgSig m' b) ∧
      (getMsgSig m' (l.getLast hne)).2.2 = false := by
  have h0 : ∀ b ∈ l.head?, o ≤ b.size := by
    intro b hb
    cases l with
    | nil => cases hb
    | cons x xs => simp at hb; subst hb; exact ho _ List.mem_cons_self
  obtain ⟨b, hb, hF⟩ := sig_never_panics_any_verdict_schedule_from flags o _ l hg hfit hne
    (ScMsg_init m0 len kh kc hdrs cts)
    (fun b hb => ⟨msgOK2_init b o (h0 b hb) m0 len kh kc hdrs cts, MsgSafe_init b o (h0 b hb) m0 len kh kc hdrs cts⟩)
  rw [hr] at hF
  refine ⟨⟨b, hb, hF.1, fun s => ⟨hF.ext s, hF.2 s⟩⟩, ?_⟩
  obtain ⟨s, hs⟩ := sg_growing_getLast l hg hne b hb
  rw [hs]
  exact hF.ext s

/-- **any history, then Reset, then any chunk schedule, whatever verdict it ends with** -/
theorem sig_never_panics_any_verdict_after_reset_schedule {m : PSIPMsg} (hR : ScReach m) (flags : Nat) (o : Nat)
    (l : List Buf) (hg : Growing l) (hfit : ∀ x ∈ l, x.size ≤ 65535) (hne : l ≠ []) (ho : ∀ b ∈ l, o ≤ b.size)
    {o' : Nat} {e : Err} {m' : PSIPMsg} (hr : resumeRun (C01.msgP flags) o m.reset l = (o', e, m')) :
    (∃ b ∈ l, (getMsgSig m' b).2.2 = false ∧ ∀ s, (getMsgSig m' (b ++ s)).2.2 = false ∧
        getMsgSig m' (b ++ s) = getMsgSig m' b) ∧
      (getMsgSig m' (l.getLast hne)).2.2 = false := by
  rw [sc_reset_after_history hR] at hr
  exact sig_never_panics_any_verdict_schedule flags o _ _ _ _ _ _ l hg hfit hne ho hr

/-- the verdict / state relation for a whole chain of resumed calls (any object, any buffers) -/
theorem sg_resumeRun_vs (flags : Nat) (o : Nat) (m : PSIPMsg) (l : List Buf) (hne : l ≠ []) :
    SgVS (resumeRun (C01.msgP flags) o m l).2.1 (resumeRun (C01.msgP flags) o m l).2.2.state := by
  induction l generalizing o m with
  | nil => exact absurd rfl hne
  | cons b rest ih =>
    have h1 : SgVS (C01.msgP flags b o m).2.1 (C01.msgP flags b o m).2.2.state := sg_verdict_state b o m flags
    cases rest with
    | nil => exact h1
    | cons b' rest' =>
      simp only [resumeRun]
      rcases hp : C01.msgP flags b o m with ⟨o1, e1, s1⟩
      rw [hp] at h1
      by_cases hm : e1 = .moreBytes
      · subst hm
        simp only
        exact ih o1 s1 (by simp)
      · cases e1 <;> first | exact absurd rfl hm | exact h1

/-- **"empty" unless the parse completed**: after a verdict other than OK and NoCLen — MoreBytes or any error — the
    signature function answers "empty" (empty signature, no panic), whatever buffer it is given. Any call, any object. -/
theorem sig_empty_unless_complete {b : Buf} {o : Nat} {m : PSIPMsg} {flags : Nat} {o' : Nat} {e : Err} {m' : PSIPMsg}
    (hr : parseSIPMsg b o m flags = (o', e, m')) (h1 : e ≠ .ok) (h2 : e ≠ .noCLen) (x : Buf) :
    getMsgSig m' x = ({}, .empty, false) :=
  getMsgSig_incomplete m' x (fun h => h1 ((sg_fin_iff_ok hr).1 h)) (fun h => h2 ((sg_noCLen_iff hr).1 h))

/-- … the same for a chain of resumed calls over any schedule -/
theorem sig_empty_unless_complete_schedule {flags : Nat} {o : Nat} {m : PSIPMsg} {l : List Buf} {o' : Nat} {e : Err}
    {m' : PSIPMsg} (hne : l ≠ []) (hr : resumeRun (C01.msgP flags) o m l = (o', e, m')) (h1 : e ≠ .ok)
    (h2 : e ≠ .noCLen) (x : Buf) : getMsgSig m' x = ({}, .empty, false) := by
  have h := (sg_resumeRun_vs flags o m l hne).facts
  rw [hr] at h
  exact getMsgSig_incomplete m' x (fun hh => h1 (h.1.1 hh)) (fun hh => h2 (h.2.1.1 hh))

/-- a new object (Init, Reset, the zero value) has no signature either -/
theorem sig_empty_new (m : PSIPMsg) (hst : m.state = .init) (x : Buf) : getMsgSig m x = ({}, .empty, false) :=
  getMsgSig_incomplete m x (by rw [hst]; decide) (by rw [hst]; decide)

/-! ## (4) for completed messages nothing changed: GetMsgSig is its core -/

/-- **after OK, GetMsgSig IS the function all the signature theorems are about** (any call, any object, any buffer
    handed to the signature function) -/
theorem sig_guard_transparent {b : Buf} {o : Nat} {m : PSIPMsg} {flags : Nat} {o' : Nat} {m' : PSIPMsg}
    (hr : parseSIPMsg b o m flags = (o', .ok, m')) (x : Buf) : getMsgSig m' x = getMsgSigCore m' x :=
  getMsgSig_complete m' x (Or.inl ((sg_fin_iff_ok hr).2 rfl))

/-- … and after "Content-Length required but missing" -/
theorem sig_guard_transparent_noCLen {b : Buf} {o : Nat} {m : PSIPMsg} {flags : Nat} {o' : Nat} {m' : PSIPMsg}
    (hr : parseSIPMsg b o m flags = (o', .noCLen, m')) (x : Buf) : getMsgSig m' x = getMsgSigCore m' x :=
  getMsgSig_complete m' x (Or.inr ((sg_noCLen_iff hr).2 rfl))

/-- **every chunk schedule that ends with OK** (any start object, any buffers): GetMsgSig is its core on the result -/
theorem sig_guard_transparent_schedule {flags : Nat} {o : Nat} {m : PSIPMsg} {l : List Buf} {o' : Nat} {m' : PSIPMsg}
    (hr : resumeRun (C01.msgP flags) o m l = (o', .ok, m')) (x : Buf) : getMsgSig m' x = getMsgSigCore m' x := by
  have hne : l ≠ [] := by
    intro h
    subst h
    simp only [resumeRun, Prod.mk.injEq, reduceCtorEq, false_and, and_false] at hr
  have h := (sg_resumeRun_vs flags o m l hne).facts
  rw [hr] at h
  exact getMsgSig_complete m' x (Or.inl (h.1.2 rfl))

/-- … and every schedule that ends with NoCLen -/
theorem sig_guard_transparent_noCLen_schedule {flags : Nat} {o : Nat} {m : PSIPMsg} {l : List Buf} {o' : Nat}
    {m' : PSIPMsg} (hr : resumeRun (C01.msgP flags) o m l = (o', .noCLen, m')) (x : Buf) :
    getMsgSig m' x = getMsgSigCore m' x := by
  have hne : l ≠ [] := by
    intro h
    subst h
    simp only [resumeRun, Prod.mk.injEq, reduceCtorEq, false_and, and_false] at hr
  have h := (sg_resumeRun_vs flags o m l hne).facts
  rw [hr] at h
  exact getMsgSig_complete m' x (Or.inr (h.2.1.2 rfl))

/-- hence the panic-freedom of the core after OK (`sc_getMsgSig_safe`) and after NoCLen (`sg_core_safe_noCLen`) IS
    panic-freedom of GetMsgSig, and the two statements are equivalent there -/
theorem sig_panics_iff_core_after_ok {b : Buf} {o : Nat} {m : PSIPMsg} {flags : Nat} {o' : Nat} {m' : PSIPMsg}
    (hr : parseSIPMsg b o m flags = (o', .ok, m')) (x : Buf) :
    (getMsgSig m' x).2.2 = (getMsgSigCore m' x).2.2 := by rw [sig_guard_transparent hr x]

/-! ## tests / non-vacuity (closed computations by `decide +kernel`; these are examples, not the general claims) -/

/-- test message: a request WITHOUT Content-Length (Via with branch, From with tag, Call-ID with an IPv4 address) -/
def sgTestNoCL : Buf := "INVITE sip:a@b SIP/2.0\r\nVia: SIP/2.0/UDP h;branch=z9hG4bK-a.b\r\nFrom: <sip:a@b>;tag=a-1\r\nCall-ID: x@1.2.3.4\r\n\r\n".toUTF8.data

/-- the object after Init without caller arrays (written as the theorems write it) -/
def sgTestInit : PSIPMsg :=
  ({} : PSIPMsg).init 0 ((none : Option Unit).map fun _ => Array.replicate 0 {})
    ((none : Option Unit).map fun _ => Array.replicate 0 {})

theorem sgTest_fit : sgTestNoCL.size ≤ 65535 := by decide +kernel

/-- test (1): with "skip body" + "Content-Length required" (flags 3) the verdict is NoCLen and the state `noCLen`;
    with flags 0 the same bytes are OK / `fin`; cut after 80 bytes: MoreBytes / `headers`; a broken header line:
    an error verdict / `err`; a further call on the finished object: "bug" / `err` -/
example : (parseSIPMsg sgTestNoCL 0 sgTestInit 3).2.1 = .noCLen ∧
    (parseSIPMsg sgTestNoCL 0 sgTestInit 3).2.2.state = .noCLen ∧
    (parseSIPMsg sgTestNoCL 0 sgTestInit 0).2.1 = .ok ∧ (parseSIPMsg sgTestNoCL 0 sgTestInit 0).2.2.state = .fin ∧
    (parseSIPMsg (sgTestNoCL.extract 0 80) 0 sgTestInit 3).2.1 = .moreBytes ∧
    (parseSIPMsg (sgTestNoCL.extract 0 80) 0 sgTestInit 3).2.2.state = .headers := by decide +kernel

def sgTestBad : Buf := "INVITE sip:a SIP/2.0\r\nCall-ID: 1\r\nFrom: <sip:a>;tag=1\r\nVia x\r\n\r\n".toUTF8.data

example : (parseSIPMsg sgTestBad 0 sgTestInit 0).2.1 = .badChar ∧ (parseSIPMsg sgTestBad 0 sgTestInit 0).2.2.state = .err ∧
    (parseSIPMsg sgTestNoCL 0 (parseSIPMsg sgTestNoCL 0 sgTestInit 0).2.2 0).2.1 = .bug ∧
    (parseSIPMsg sgTestNoCL 0 (parseSIPMsg sgTestNoCL 0 sgTestInit 0).2.2 0).2.2.state = .err := by decide +kernel

/-- test (2)/(3): the hypotheses of `sig_never_panics_any_verdict_init` hold for the NoCLen call … -/
example : (getMsgSig (parseSIPMsg sgTestNoCL 0 sgTestInit 3).2.2 sgTestNoCL).2.2 = false :=
  sig_never_panics_any_verdict_init sgTestNoCL 0 (Nat.zero_le _) {} 0 0 0 none none 3 sgTest_fit
    (o' := (parseSIPMsg sgTestNoCL 0 sgTestInit 3).1) (e := (parseSIPMsg sgTestNoCL 0 sgTestInit 3).2.1) rfl

/-- … where GetMsgSig really computes a signature (the header section is complete in the `noCLen` state) -/
example : getMsgSig (parseSIPMsg sgTestNoCL 0 sgTestInit 3).2.2 sgTestNoCL =
    ({ method := 2, cidSLen := 1, cidSig := 10, fromSig := 64, viaBSig := 80, hdrSig := [6, 3, 0] }, .ok, false) := by
  decide +kernel

/-- test (3): the guard is what keeps the suspended / failed object safe — the CORE (= GetMsgSig before the repair
    F24) does panic on the message cut after 80 bytes and on the failed parse, GetMsgSig answers "empty" -/
example : (getMsgSigCore (parseSIPMsg (sgTestNoCL.extract 0 80) 0 sgTestInit 3).2.2 (sgTestNoCL.extract 0 80)).2.2 = true ∧
    getMsgSig (parseSIPMsg (sgTestNoCL.extract 0 80) 0 sgTestInit 3).2.2 (sgTestNoCL.extract 0 80) = ({}, .empty, false) ∧
    (getMsgSigCore (parseSIPMsg sgTestBad 0 sgTestInit 0).2.2 sgTestBad).2.2 = true ∧
    getMsgSig (parseSIPMsg sgTestBad 0 sgTestInit 0).2.2 sgTestBad = ({}, .empty, false) := by decide +kernel

/-- … as `sig_empty_unless_complete` says (use on the failed parse) -/
example (x : Buf) : getMsgSig (parseSIPMsg sgTestBad 0 sgTestInit 0).2.2 x = ({}, .empty, false) :=
  sig_empty_unless_complete (b := sgTestBad) (o := 0) (m := sgTestInit) (flags := 0)
    (o' := (parseSIPMsg sgTestBad 0 sgTestInit 0).1)
    (e := (parseSIPMsg sgTestBad 0 sgTestInit 0).2.1) rfl (by decide +kernel) (by decide +kernel) x

/-- test (3): a schedule — the message cut after 50 and after 100 bytes, flags 3 — that ends with NoCLen; the
    hypotheses of `sig_never_panics_any_verdict_schedule` hold -/
def sgTestCuts : List Buf := [sgTestNoCL.extract 0 50, sgTestNoCL.extract 0 100, sgTestNoCL]

theorem sgTestCuts_growing : Growing sgTestCuts :=
  ⟨⟨sgTestNoCL.extract 50 100, by decide +kernel⟩, ⟨sgTestNoCL.extract 100 sgTestNoCL.size, by decide +kernel⟩, trivial⟩

theorem sgTestCuts_fit : ∀ x ∈ sgTestCuts, x.size ≤ 65535 := by decide +kernel

example : (resumeRun (C01.msgP 3) 0 sgTestInit sgTestCuts).2.1 = .noCLen ∧
    (resumeRun (C01.msgP 3) 0 sgTestInit (sgTestCuts.take 2)).2.1 = .moreBytes := by decide +kernel

example : (getMsgSig (resumeRun (C01.msgP 3) 0 sgTestInit sgTestCuts).2.2 sgTestNoCL).2.2 = false :=
  (sig_never_panics_any_verdict_schedule 3 0 {} 0 0 0 none none sgTestCuts sgTestCuts_growing sgTestCuts_fit
    (List.cons_ne_nil _ _) (fun _ _ => Nat.zero_le _)
    (o' := (resumeRun (C01.msgP 3) 0 sgTestInit sgTestCuts).1)
    (e := (resumeRun (C01.msgP 3) 0 sgTestInit sgTestCuts).2.1) rfl).2

/-- test (4): after OK the guard is transparent (use of `sig_guard_transparent`), and the signature is the one above -/
example (x : Buf) : getMsgSig (parseSIPMsg sgTestNoCL 0 sgTestInit 0).2.2 x =
    getMsgSigCore (parseSIPMsg sgTestNoCL 0 sgTestInit 0).2.2 x :=
  sig_guard_transparent (o' := (parseSIPMsg sgTestNoCL 0 sgTestInit 0).1)
    (show parseSIPMsg sgTestNoCL 0 sgTestInit 0 = (_, .ok, (parseSIPMsg sgTestNoCL 0 sgTestInit 0).2.2) from by
      have he : (parseSIPMsg sgTestNoCL 0 sgTestInit 0).2.1 = .ok := by decide +kernel
      rw [← he]) x

end Sipsp
